(* PP_Inst.v — C01: a fresh section instance.  Grammar.instance (SPEC) against cfg_init_defaults (MODEL):
   same tree up to obs_c, and the result satisfies the invariant.  List default texts are scanned by the
   machine in a pushed buffer (dtext_spec says what such a text must look like). *)
From Coq Require String.
From Coq Require Import List Arith NArith ZArith Bool Lia.
From Coq.Strings Require Import Byte.
From LC Require Import Bytes Consts Conv Flex LexAct Lexer LexLemmas LexAll Files Store Parser Grammar
  PP_Base PP_Step PP_Tok PP_Setopt PP_Inv PP_Machine PP_Default PP_LexYields PP_LexFrame.
Import ListNotations.
Import String.StringSyntax.
Local Open Scope string_scope.
Local Open Scope list_scope.
Local Open Scope nat_scope.

Ltac shp := repeat first [rewrite shape_setf by reflexivity | rewrite shape_clrf by reflexivity | rewrite shape_set_vals | rewrite shape_set_comment | rewrite shape_addval].
Ltac ovl := repeat first [rewrite o_vals_setf | rewrite o_vals_clrf | rewrite o_vals_set_vals | rewrite o_vals_set_comment].

Section WithOracles.
Variable strtod_o : str -> strtod_res.
Notation PI := (parse_internal strtod_o).
Notation SO := (setopt strtod_o).
Notation ID := (init_defaults strtod_o).

(* ---------- the SPEC side, named ---------- *)
Definition inst_fl (ctx : N) (d : opt) : N := if oflag d CFGF_KEYSTRVAL then setf ctx CFGF_KEYSTRVAL else ctx.

Definition inst_vals (fl : N) (d : opt) : list value :=
  if oflag d CFGF_NODEFAULT then []
  else match o_kind d with
       | KSec => if oflag d CFGF_MULTI then [] else [VSec (Some (instance strtod_o fl d None))]
       | KFunc | KPtr | KNone => []
       | _ => if oflag d CFGF_LIST
              then (if oflag d CFGF_DEPRECATED && oflag d CFGF_DROP then [] else default_list strtod_o d)
              else default_scalar d
       end.
Definition inst_opt (fl : N) (d : opt) : opt := set_vals d (inst_vals fl d).

Lemma instance_eq ctx d title :
  instance strtod_o ctx d title = Cfg (o_name d) title (inst_fl ctx d) (map (inst_opt (inst_fl ctx d)) (o_sub d)) None 0 false None.
Proof.
  destruct d as [name k flags vals sub def cm cbs]. cbn [instance o_name o_sub]. unfold inst_fl, oflag. cbn [o_flags].
  f_equal. induction sub as [|a sub IH]; [reflexivity|]. cbn [map]. rewrite <- IH. f_equal.
  destruct a; reflexivity.
Qed.

(* ---------- helpers ---------- *)
Lemma put_opt_top c i o : put_opt c ([], i) o = set_opts c (upd_nth (c_opts c) i (fun _ => o)).
Proof. reflexivity. Qed.

Lemma upd_nth_app_mid {A} (pre : list A) d post f : upd_nth (pre ++ d :: post) (length pre) f = pre ++ f d :: post.
Proof. induction pre as [|x pre IH]; cbn; congruence. Qed.

Lemma nth_error_app_mid {A} (pre : list A) d post : nth_error (pre ++ d :: post) (length pre) = Some d.
Proof. induction pre as [|x pre IH]; cbn; auto. Qed.

Lemma c_flags_set_opts c o : c_flags (set_opts c o) = c_flags c. Proof. destruct c; reflexivity. Qed.
Lemma c_name_set_opts c o : c_name (set_opts c o) = c_name c. Proof. destruct c; reflexivity. Qed.
Lemma c_title_set_opts c o : c_title (set_opts c o) = c_title c. Proof. destruct c; reflexivity. Qed.

Lemma tmplO_parts sc k d : tmplO sc k d = true ->
  base_ok d = true /\ dflt_ok sc d = true /\ o_vals d = [] /\
  (o_kind d = KSec -> exists k', k = S k' /\ forallb (tmplO sc k') (o_sub d) = true).
Proof.
  destruct k as [|k']; cbn [tmplO]; intros H; apply andb_prop in H as [H H4]; apply andb_prop in H as [H H3];
    apply andb_prop in H as [H1 H2]; (split; [exact H1|split; [exact H2|split]]).
  - destruct (o_vals d); [reflexivity|discriminate].
  - intros K. rewrite K in H4. cbn in H4. discriminate.
  - destruct (o_vals d); [reflexivity|discriminate].
  - intros K. rewrite K in H4. cbn in H4. eauto.
Qed.

Lemma invO_nonsec sc k o : base_ok o = true -> is_sec (o_kind o) = false -> forallb plainv (o_vals o) = true -> invO sc k o = true.
Proof. intros B K P. destruct k; cbn [invO]; rewrite B, K, P; reflexivity. Qed.

Lemma invO_sec sc k' o : base_ok o = true -> is_sec (o_kind o) = true -> forallb (tmplO sc k') (o_sub o) = true ->
  forallb (fun v => match v with VSec (Some s) => title_ok o s && forallb (invO sc k') (c_opts s) | _ => false end) (o_vals o) = true ->
  invO sc (S k') o = true.
Proof. intros B K T V. cbn [invO]. rewrite B, T, V, K. reflexivity. Qed.

Lemma scalar_is_sec k : scalar_kind k = true -> is_sec k = false.
Proof. destruct k; cbn; auto; discriminate. Qed.

(* the default value of a scalar option, as cfg_init_defaults stores it *)
Lemma id_scalar_props o1 : scalar_kind (o_kind o1) = true -> o_vals o1 = [] ->
  shape (id_scalar o1) = shape o1 /\ o_vals (id_scalar o1) = default_scalar o1.
Proof.
  intros K V.
  assert (SETN : forall v, shape (id_setn o1 v) = shape o1 /\ o_vals (id_setn o1 v) = [v]).
  { intros v. unfold id_setn, opt_getval. cbn [N.eqb negb andb].
    destruct (oflag o1 CFGF_RESET).
    - destruct (free_value o1) as [x fr] eqn:FV. pose proof (free_value_props o1) as (A & B & C). rewrite FV in A, B, C. cbn [fst] in A, B, C.
      rewrite o_vals_clrf, A. cbn [length N.of_nat N.leb N.compare]. unfold addval.
      rewrite o_vals_setf, o_vals_set_vals, o_vals_clrf, A. cbn [app upd_nth]. split.
      + shp. exact B.
      + rewrite o_vals_setf, o_vals_set_vals. reflexivity.
    - rewrite V. cbn [length N.of_nat N.leb N.compare]. unfold addval.
      rewrite o_vals_setf, o_vals_set_vals, V. cbn [app upd_nth]. split.
      + shp. reflexivity.
      + rewrite o_vals_setf, o_vals_set_vals. reflexivity. }
  unfold id_scalar, default_scalar.
  destruct (o_kind o1); try discriminate K;
    (split; [rewrite shape_clrf, shape_setf by reflexivity; apply SETN|rewrite o_vals_clrf, o_vals_setf; apply SETN]).
Qed.

Lemma default_list_empty d : match d_parsed (o_def d) with None | Some [] => true | _ => false end = true -> default_list strtod_o d = [].
Proof. unfold default_list. destruct (d_parsed (o_def d)) as [[|b t]|]; try reflexivity; discriminate. Qed.

(* ---------- world bookkeeping when the scanner is used in between ---------- *)
Definition wrel (e : ctx) (w : pw) (L : lexst) (w' : pw) : Prop :=
  exists L', wst w' e L' /\ measure L' <= measure L /\ forall ts, yieldsc e L ts -> yieldsc e L' ts.

Lemma wrel_keep e w L w' : wst w e L -> wkeep w w' -> wrel e w L w'.
Proof. intros H K. exists L. spl; auto. Qed.

Lemma wrel_step e w L w1 w2 : wrel e w L w1 ->
  (forall L1, wst w1 e L1 -> measure L1 <= measure L -> wrel e w1 L1 w2) -> wrel e w L w2.
Proof.
  intros (L1 & W1 & M1 & Y1) H. destruct (H L1 W1 M1) as (L2 & W2 & M2 & Y2). exists L2. spl; auto; lia.
Qed.

Lemma tbs_scan_end s : tbs s -> tbs (scan_end s).
Proof. unfold tbs, scan_end. cbn. intros (A & B & C & _). spl; auto. apply q_inv_empty. Qed.

(* ---------- what a scanned list default text must look like ---------- *)
Definition dtext_spec (env : envt) (D : nat) (d : opt) : Prop :=
  exists text dtoks vs, d_parsed (o_def d) = Some text /\ text <> [] /\
    (forall s, l_inc s = [] -> q_inv (l_q s) -> yields env (scan_begin s (cstr text)) dtoks) /\
    default_list strtod_o d = vs /\ start3 strtod_o (o_kind d) (gtoks dtoks) = Some (vs, []) /\
    length (cstr text) + length dtoks + 4 <= D.

(* ---------- section values ---------- *)
Definition titled (o : opt) (v : value) : Prop :=
  match v with VSec (Some s) => oflag o CFGF_MULTI && oflag o CFGF_TITLE = true -> c_title s <> None | _ => False end.

Lemma find_idx_bound {A} (P : A -> bool) l : forall i j, find_idx P l i = Some j -> i <= j < i + length l.
Proof.
  induction l as [|x l IH]; intros i j H; cbn in *; [discriminate|].
  destruct (P x); [inversion H; lia|]. apply IH in H. lia.
Qed.

Definition title_pred (nocase : bool) (t : str) (v : value) : bool :=
  match v with
  | VSec (Some s) => match c_title s with Some t' => name_eqb nocase t t' | None => false end
  | _ => false end.

Lemma title_look_find nocase t vals : forall i,
  Forall (fun v => match v with VSec (Some s) => c_title s <> None | _ => False end) vals ->
  title_look nocase (Some t) vals i = inl (find_idx (title_pred nocase t) vals i).
Proof.
  induction vals as [|v vals IH]; intros i H; [reflexivity|].
  inversion H as [|? ? Hv Hr]; subst. cbn [title_look find_idx].
  destruct v as [| | | |[s|]|]; try contradiction. unfold title_pred at 1. destruct (c_title s) as [t'|]; [|congruence].
  destruct (name_eqb nocase t t'); [reflexivity|]. apply IH, Hr.
Qed.

Definition vok (sc : opt -> bool) (k' : nat) (o : opt) (v : value) : bool :=
  match v with VSec (Some s) => title_ok o s && forallb (invO sc k') (c_opts s) | _ => false end.

Lemma vok_shape sc k' o o' v : shape o = shape o' -> vok sc k' o v = vok sc k' o' v.
Proof.
  intros S. unfold vok, title_ok. rewrite (shape_oflag o o' CFGF_MULTI S eq_refl), (shape_oflag o o' CFGF_TITLE S eq_refl). reflexivity.
Qed.

Lemma invO_sec_parts sc k o : invO sc k o = true -> o_kind o = KSec ->
  exists k', k = S k' /\ forallb (tmplO sc k') (o_sub o) = true /\ forallb (vok sc k' o) (o_vals o) = true.
Proof.
  intros H K. destruct k as [|k']; cbn [invO] in H; rewrite K in H; cbn [is_sec] in H; apply andb_prop in H as [B H]; [discriminate|].
  apply andb_prop in H as [T V]. exists k'. auto.
Qed.


Section Scanned.
Variable sc : opt -> bool.
Variable env : envt.
Variable D : nat.
Hypothesis SCOK : forall d, sc d = true -> dtext_spec env D d.

(* ---------- cfg_init_defaults against instance ---------- *)
Definition id_ok (k : nat) (fl : N) (sub : list opt) (e : ctx) (w : pw) (L : lexst) (w' : pw) (c' : cfg) (name : str) (title : option str) : Prop :=
  wrel e w L w' /\ c_name c' = name /\ c_title c' = title /\ c_flags c' = fl /\
  map obs_o (c_opts c') = map obs_o (map (inst_opt fl) sub) /\ invC sc k c' = true.

Lemma start3_plain k g vs rest : start3 strtod_o k g = Some (vs, rest) -> forallb plainv vs = true.
Proof.
  unfold start3. destruct g as [|[v|y] g2]; [discriminate| |].
  - destruct (conv_value strtod_o k v) as [xv|] eqn:CV; [|discriminate]. intros H; injection H as <- _.
    cbn. rewrite andb_true_r. unfold conv_value in CV. destruct k; try discriminate.
    + destruct (conv_int v); try discriminate. injection CV as <-. reflexivity.
    + destruct (conv_float strtod_o v); try discriminate. injection CV as <-. reflexivity.
    + injection CV as <-. reflexivity.
    + destruct (conv_bool v); try discriminate. injection CV as <-. reflexivity.
  - destruct (y =? 123)%N; [|discriminate]. generalize (S (length g2)) (@nil value) (eq_refl : forallb plainv [] = true).
    intros F. revert g2. induction F as [|F IH]; intros g2 acc A H; [discriminate|].
    destruct g2 as [|[v|x] r]; [discriminate| |].
    + rewrite braced_GS in H. destruct (conv_value strtod_o k v) as [xv|] eqn:CV; [|discriminate].
      assert (P : plainv xv = true).
      { unfold conv_value in CV. destruct k; try discriminate.
        - destruct (conv_int v); try discriminate. injection CV as <-. reflexivity.
        - destruct (conv_float strtod_o v); try discriminate. injection CV as <-. reflexivity.
        - injection CV as <-. reflexivity.
        - destruct (conv_bool v); try discriminate. injection CV as <-. reflexivity. }
      assert (A' : forallb plainv (acc ++ [xv]) = true) by (rewrite forallb_app, A; cbn; rewrite P; reflexivity).
      destruct r as [|[s0|y0] r']; try discriminate.
      destruct (y0 =? 44)%N; [eapply IH; eauto|].
      destruct (y0 =? 125)%N; [|discriminate]. injection H as <- _. exact A'.
    + rewrite braced_GP in H. destruct (x =? 125)%N; [|discriminate]. injection H as <- _. exact A.
Qed.

Lemma id_loop_sim k f :
  (forall k', S k' = k -> forall e w L name title fl sub file line err pff,
      fst e = env -> wst w e L ->
      forallb (tmplO sc k') sub = true -> measure L + D + 2 * k' + 1 <= f - 1 ->
      exists w' c', ID (f - 1) w (Cfg name title fl sub file line err pff) = (w', c') /\ id_ok k' fl sub e w L w' c' name title) ->
  forall post todo i e w L c pre,
    fst e = env -> wst w e L -> measure L + D + 2 * k <= f ->
    c_opts c = pre ++ post -> length pre = i -> length todo = length post -> forallb (tmplO sc k) post = true ->
    exists w' c' post', id_loop strtod_o f todo i w c = (w', c') /\ wrel e w L w' /\
      c_name c' = c_name c /\ c_title c' = c_title c /\ c_flags c' = c_flags c /\ c_opts c' = pre ++ post' /\
      map obs_o post' = map obs_o (map (inst_opt (c_flags c)) post) /\ forallb (invO sc k) post' = true.
Proof.
  intros IHk. induction post as [|d post IH]; intros todo i e w L c pre He Hw Hf Hc Hi Ht Hp.
  - destruct todo; [|discriminate]. exists w, c, []. cbn. spl; auto. apply wrel_keep; [exact Hw|apply wkeep_refl].
  - destruct todo as [|t0 todo]; [discriminate|]. cbn [length] in Ht. injection Ht as Ht.
    cbn [forallb] in Hp. apply andb_prop in Hp as [Hd Hp].
    destruct (tmplO_parts _ _ _ Hd) as (B & DF & V & SUB).
    destruct (base_ok_parts _ B) as (KK & CP & CV & SEC).
    cbn [id_loop]. rewrite Hc, <- Hi, nth_error_app_mid.
    set (w0 := if id_dup c d (length pre) then add_diags w _ else w).
    assert (WK0 : wkeep w w0) by (unfold w0; destruct (id_dup c d (length pre)); [apply wkeep_diags|apply wkeep_refl]).
    assert (W0 : wst w0 e L) by (apply WK0, Hw).
    (* the continuation, for whatever the option has become, in whatever context holds it *)
    assert (CONT : forall w1 L1 cx d', wst w1 e L1 -> measure L1 <= measure L -> (forall ts, yieldsc e L ts -> yieldsc e L1 ts) ->
              c_opts cx = pre ++ d' :: post -> c_name cx = c_name c -> c_title cx = c_title c -> c_flags cx = c_flags c ->
              obs_o d' = obs_o (inst_opt (c_flags c) d) -> invO sc k d' = true ->
              exists w' c' post', id_loop strtod_o f todo (S (length pre)) w1 cx = (w', c') /\ wrel e w L w' /\
                c_name c' = c_name c /\ c_title c' = c_title c /\ c_flags c' = c_flags c /\ c_opts c' = pre ++ post' /\
                map obs_o post' = map obs_o (map (inst_opt (c_flags c)) (d :: post)) /\ forallb (invO sc k) post' = true).
    { intros w1 L1 cx d' W1 M1 Y1 OC NC TC FC OB IV.
      destruct (IH todo (S (length pre)) e w1 L1 cx (pre ++ [d'])) as (w' & c' & post' & E & WR & N & T & FL & O & M & I); auto.
      - lia.
      - rewrite OC, <- app_assoc. reflexivity.
      - rewrite app_length. cbn. lia.
      - exists w', c', (d' :: post'). rewrite FC in M. spl; auto; try congruence.
        + destruct WR as (L2 & W2 & M2 & Y2). exists L2. spl; auto; lia.
        + rewrite O, <- app_assoc. reflexivity.
        + cbn [map]. rewrite OB, M. reflexivity.
        + cbn [forallb]. rewrite IV, I. reflexivity. }
    assert (CONTP : forall w1 d', wkeep w w1 -> obs_o d' = obs_o (inst_opt (c_flags c) d) -> invO sc k d' = true ->
              exists w' c' post', id_loop strtod_o f todo (S (length pre)) w1 (put_opt c ([], length pre) d') = (w', c') /\ wrel e w L w' /\
                c_name c' = c_name c /\ c_title c' = c_title c /\ c_flags c' = c_flags c /\ c_opts c' = pre ++ post' /\
                map obs_o post' = map obs_o (map (inst_opt (c_flags c)) (d :: post)) /\ forallb (invO sc k) post' = true).
    { intros w1 d' W1 OB IV. apply (CONT w1 L (put_opt c ([], length pre) d') d'); auto.
      - rewrite put_opt_top, c_opts_set_opts, Hc, upd_nth_app_mid. reflexivity.
      - rewrite put_opt_top. apply c_name_set_opts.
      - rewrite put_opt_top. apply c_title_set_opts.
      - rewrite put_opt_top. apply c_flags_set_opts. }
    assert (SAME : forall w1, wkeep w w1 -> inst_vals (c_flags c) d = [] -> invO sc k d = true ->
              exists w' c' post', id_loop strtod_o f todo (S (length pre)) w1 c = (w', c') /\ wrel e w L w' /\
                c_name c' = c_name c /\ c_title c' = c_title c /\ c_flags c' = c_flags c /\ c_opts c' = pre ++ post' /\
                map obs_o post' = map obs_o (map (inst_opt (c_flags c)) (d :: post)) /\ forallb (invO sc k) post' = true).
    { intros w1 W1 IVs IV. apply (CONT w1 L c d); auto.
      unfold inst_opt. rewrite IVs, <- V, set_vals_same. reflexivity. }
    assert (INVD : invO sc k d = true).
    { destruct KK as [KS|KS].
      - apply invO_nonsec; [exact B|apply scalar_is_sec, KS|rewrite V; reflexivity].
      - destruct (SUB KS) as (k' & -> & TS). apply invO_sec; [exact B|rewrite KS; reflexivity|exact TS|rewrite V; reflexivity]. }
    destruct (oflag d CFGF_NODEFAULT) eqn:ND.
    { apply SAME; auto. unfold inst_vals. rewrite ND. reflexivity. }
    destruct KK as [KS|KS].
    + (* scalar / list option *)
      rewrite (scalar_not_sec _ KS). cbn [negb].
      set (o1 := o_setf d CFGF_DEFINIT).
      assert (SH1 : shape o1 = shape d) by (unfold o1; rewrite shape_setf by reflexivity; reflexivity).
      assert (V1 : o_vals o1 = []) by (unfold o1; rewrite o_vals_setf; exact V).
      assert (K1 : o_kind o1 = o_kind d) by (unfold o1; apply o_kind_setf).
      assert (B1 : base_ok o1 = true).
      { rewrite (base_ok_shape o1 d SH1); [exact B|]. right. rewrite K1. apply scalar_is_sec, KS. }
      assert (DEF1 : o_def o1 = o_def d) by (unfold o1; destruct d; reflexivity).
      assert (L1 : oflag o1 CFGF_LIST = oflag d CFGF_LIST) by (apply shape_oflag; [exact SH1|reflexivity]).
      unfold dflt_ok in DF. rewrite (scalar_is_sec _ KS) in DF.
      rewrite L1, DEF1. destruct (oflag d CFGF_LIST) eqn:HL.
      * cbn [orb].
        (* no default text *)
        assert (GOAL : match d_parsed (o_def d) with None | Some [] => true | _ => false end = true ->
                exists w' c' post', id_loop strtod_o f todo (S (length pre)) w0 (put_opt c ([], length pre) o1) = (w', c') /\ wrel e w L w' /\
                c_name c' = c_name c /\ c_title c' = c_title c /\ c_flags c' = c_flags c /\ c_opts c' = pre ++ post' /\
                map obs_o post' = map obs_o (map (inst_opt (c_flags c)) (d :: post)) /\ forallb (invO sc k) post' = true).
        { intros DE. apply CONTP; auto.
          - apply obs_o_split. unfold inst_opt. rewrite shape_set_vals, o_vals_set_vals, V1. split; [exact SH1|].
            unfold inst_vals. rewrite ND, HL. rewrite (default_list_empty d DE).
            destruct (o_kind d); try discriminate KS; destruct (oflag d CFGF_DEPRECATED && oflag d CFGF_DROP); reflexivity.
          - apply invO_nonsec; [exact B1|rewrite K1; apply scalar_is_sec, KS|rewrite V1; reflexivity]. }
        destruct (d_parsed (o_def d)) as [[|b0 t0']|] eqn:DP; [apply GOAL; reflexivity| |apply GOAL; reflexivity].
        (* a scanned default text *)
        rewrite orb_false_r in DF.
        destruct (SCOK d DF) as (text & dtoks & vs & TX & TN & YD & DL & S3 & DB). rewrite DP in TX. injection TX as <-.
        cbn [negb].
        set (r := (@nil (nat * nat), length pre) : optref).
        set (c1 := put_opt c r o1).
        assert (G1 : get_opt c1 r = Some o1).
        { unfold c1. eapply get_put. unfold get_opt, r. cbn [fst snd get_sec]. rewrite Hc. apply nth_error_app_mid. }
        pose proof (wst_tbs _ _ _ W0) as TB. pose proof TB as (_ & _ & LI & QI).
        rewrite (wst_lex _ _ _ W0).
        set (LN := scan_begin L (cstr (b0 :: t0'))).
        set (e1 := (env, l_bufs L) : ctx).
        assert (W1 : wst (upd_lex w0 LN) e1 LN).
        { unfold wst. cbn [w_env w_lex w_oof upd_lex fst snd e1]. spl; auto.
          - rewrite (wst_env _ _ _ W0). exact He.
          - eapply wst_oof; eauto.
          - apply tbs_scan_begin; auto. }
        assert (Y1 : yieldsc e1 LN dtoks) by (unfold yieldsc, e1; cbn [fst]; apply YD; auto).
        assert (LO1 : lopt o1).
        { unfold lopt. rewrite K1. unfold o1. rewrite o_cbs_setf. auto. }
        pose proof (list_start_sim strtod_o e1 0 r dtoks LN (upd_lex w0 LN) c1 1 (pst0 3 (Some r)) f o1 W1 Y1 eq_refl eq_refl eq_refl G1
                      ltac:(rewrite L1; reflexivity) LO1) as LS.
        assert (MB : measure LN = S (length (cstr (b0 :: t0'))) + measure L).
        { unfold LN, measure, scan_begin. cbn [l_bufs fold_left snd]. rewrite fold_measure_shift. lia. }
        specialize (LS ltac:(lia)). rewrite K1, S3 in LS.
        destruct LS as (f2 & w2 & c2 & o2 & L2 & ts2 & p2 & E2 & C2 & S2 & V2 & G2 & P2 & W2 & Y2 & GT2 & F2 & Len2 & FL2).
        destruct P2 as (PS & PO & PT & PF).
        destruct (eof_forced_sim strtod_o e1 0 ts2 L2 w2 c2 1 p2 f2 W2 Y2 GT2 PS ltac:(rewrite PF; reflexivity) F2)
          as (w3 & c3 & L3 & E3 & C3 & W3 & M3).
        unfold optref in *. fold r. fold c1. rewrite E2, E3. rewrite (wst_lex _ _ _ W3).
        rewrite PO in C3. cbn [pst0 s_opt] in C3.
        (* the option after the deprecated handler and the RESET mark *)
        set (o3 := if dropped o2 then fst (free_value o2) else o2).
        assert (C3' : ceq c3 (put_opt c r o3)).
        { eapply ceq_trans; [exact C3|]. unfold depc. rewrite G2. unfold o3. destruct (dropped o2).
          - eapply ceq_trans; [apply ceq_put, C2|]. unfold c1. rewrite !put_put. apply ceq_refl.
          - eapply ceq_trans; [exact C2|]. unfold c1. rewrite put_put. apply ceq_refl. }
        assert (GC : get_opt c r = Some d).
        { unfold get_opt, r. cbn [fst snd get_sec]. rewrite Hc. apply nth_error_app_mid. }
        assert (G3 : get_opt c3 r = Some o3) by (rewrite (ceq_get _ _ r C3'); eapply get_put; eauto).
        rewrite (upd_opt_put c3 r _ o3 G3).
        set (o4 := o_clrf (o_setf o3 CFGF_RESET) CFGF_MODIFIED).
        assert (S3' : shape o3 = shape d).
        { unfold o3. destruct (dropped o2); [destruct (free_value_props o2) as (_ & SS & _); rewrite SS|]; congruence. }
        assert (V3 : o_vals o3 = if dropped d then [] else vs).
        { unfold o3. rewrite (dropped_shape o2 d) by congruence. destruct (dropped d).
          - apply (free_value_props o2).
          - rewrite V2. unfold cur. rewrite V1. destruct (oflag o1 CFGF_RESET); reflexivity. }
        assert (PV : forallb plainv vs = true) by (eapply start3_plain; eauto).
        (* scanner state after popping the text *)
        pose proof (wst_tbs _ _ _ W3) as TB3. pose proof (wst_bufs _ _ _ W3) as BF3. cbn [snd e1] in BF3.
        assert (W4 : wst (upd_lex w3 (scan_end L3)) e (scan_end L3)).
        { unfold wst. cbn [w_env w_lex w_oof upd_lex]. spl; auto.
          - rewrite (wst_env _ _ _ W3). cbn [fst e1]. symmetry. exact He.
          - eapply wst_oof; eauto.
          - apply tbs_scan_end, TB3.
          - unfold scan_end. cbn [l_bufs]. rewrite BF3. apply (wst_bufs _ _ _ W0). }
        assert (M4 : measure (scan_end L3) <= measure L).
        { unfold measure, scan_end. cbn [l_bufs]. rewrite BF3. lia. }
        assert (Y4 : forall ts, yieldsc e L ts -> yieldsc e (scan_end L3) ts).
        { intros ts YY. unfold yieldsc in *. eapply yields_R; [exact YY|]. apply R_pop; auto. }
        apply (CONT (upd_lex w3 (scan_end L3)) (scan_end L3) (put_opt c3 r o4) o4); auto.
        -- rewrite (ceq_c_opts _ _ (ceq_put _ _ r o4 C3')), put_put. unfold r. rewrite put_opt_top, c_opts_set_opts, Hc, upd_nth_app_mid. reflexivity.
        -- rewrite (ceq_name _ _ (ceq_put _ _ r o4 C3')), put_put. unfold r. rewrite put_opt_top. apply c_name_set_opts.
        -- rewrite (ceq_title _ _ (ceq_put _ _ r o4 C3')), put_put. unfold r. rewrite put_opt_top. apply c_title_set_opts.
        -- rewrite (ceq_c_flags _ _ (ceq_put _ _ r o4 C3')), put_put. unfold r. rewrite put_opt_top. apply c_flags_set_opts.
        -- apply obs_o_split. unfold inst_opt, o4. rewrite shape_set_vals, o_vals_set_vals. shp. ovl. split; [exact S3'|].
           rewrite V3. unfold inst_vals. rewrite ND, HL. unfold dropped. rewrite DL.
           destruct (o_kind d); try discriminate KS; destruct (oflag d CFGF_DEPRECATED && oflag d CFGF_DROP); reflexivity.
        -- apply invO_nonsec.
           ++ rewrite (base_ok_shape o4 d); [exact B|unfold o4; shp; exact S3'|]. right. unfold o4.
              rewrite o_kind_clrf, o_kind_setf, (shape_kind _ _ S3'). apply scalar_is_sec, KS.
           ++ unfold o4. rewrite o_kind_clrf, o_kind_setf, (shape_kind _ _ S3'). apply scalar_is_sec, KS.
           ++ unfold o4. ovl. rewrite V3. destruct (dropped d); [reflexivity|exact PV].
      * (* scalar *)
        destruct (d_parsed (o_def d)); [discriminate DF|]. cbn [orb].
        destruct (id_scalar_props o1 ltac:(rewrite K1; exact KS) V1) as (SS & SV).
        apply CONTP; auto.
        -- apply obs_o_split. unfold inst_opt. rewrite shape_set_vals, o_vals_set_vals, SS, SV. split; [exact SH1|].
          unfold inst_vals. rewrite ND, HL. unfold default_scalar. rewrite K1, DEF1.
          destruct (o_kind d); try discriminate KS; reflexivity.
        -- apply invO_nonsec.
          ++ rewrite (base_ok_shape _ o1 SS); [exact B1|]. right.
             rewrite (shape_kind _ _ SS), K1. apply scalar_is_sec, KS.
          ++ rewrite (shape_kind _ _ SS), K1. apply scalar_is_sec, KS.
          ++ rewrite SV. unfold default_scalar. destruct (o_kind o1); reflexivity.
    + (* section *)
      rewrite KS. cbn [kind_eqb negb].
      destruct (SEC KS) as (RST & NL). destruct (SUB KS) as (k' & -> & TS).
      destruct (oflag d CFGF_MULTI) eqn:MU; cbn [negb].
      { apply SAME; auto. unfold inst_vals. rewrite ND, KS, MU. reflexivity. }
      destruct f as [|f']; [lia|].
      rewrite so_unfold. unfold so_body, so_reset. rewrite RST.
      unfold so_slot. rewrite V. cbn [length Nat.eqb orb negb andb].
      assert (SLOT : (if kind_eqb (o_kind d) KSec && oflag d CFGF_TITLE
                      then match title_look (cflag c CFGF_NOCASE) None [] 0 with
                           | inl (Some i) => if oflag d CFGF_NO_TITLE_DUPES then None else Some (w0, d, i)
                           | inl None => Some (w0, addval d, 0)
                           | inr _ => Some (set_crash w0 "null-deref:cfg_setopt:title", addval d, 0)
                           end
                      else Some (w0, addval d, 0)) = Some (w0, addval d, 0)).
      { destruct (kind_eqb (o_kind d) KSec && oflag d CFGF_TITLE); reflexivity. }
      rewrite SLOT. unfold so_kind, so_store.
      assert (KA : o_kind (addval d) = KSec) by (unfold addval; rewrite o_kind_setf, o_kind_set_vals; exact KS).
      assert (VA : o_vals (addval d) = [VSec None]) by (unfold addval; rewrite o_vals_setf, o_vals_set_vals, V, KS; reflexivity).
      rewrite KA, VA. cbn [nth_error orb upd_nth]. rewrite orb_true_r.
      assert (NA : o_name (addval d) = o_name d) by (unfold addval; rewrite o_name_setf, o_name_set_vals; reflexivity).
      assert (SA : o_sub (addval d) = o_sub d) by (unfold addval; rewrite o_sub_setf, o_sub_set_vals; reflexivity).
      assert (KVA : oflag (addval d) CFGF_KEYSTRVAL = oflag d CFGF_KEYSTRVAL).
      { apply shape_oflag; [apply shape_addval|reflexivity]. }
      rewrite NA, SA, KVA.
      destruct (IHk k' eq_refl e w0 L (o_name d) None (inst_fl (c_flags c) d) (o_sub d) (c_file c) (c_line c) (c_err c) None He W0 TS)
        as (w3 & sec' & EID & (L3 & W3 & M3 & Y3) & N3 & T3 & F3 & O3 & I3).
      { cbn [Nat.sub]. lia. }
      cbn [Nat.sub] in EID. rewrite Nat.sub_0_r in EID. unfold inst_fl in EID at 1. rewrite EID.
      apply (CONT w3 L3 (put_opt c ([], length pre) (o_setf (o_setf (set_vals (addval d) [VSec (Some sec')]) CFGF_MODIFIED) CFGF_DEFINIT))
                  (o_setf (o_setf (set_vals (addval d) [VSec (Some sec')]) CFGF_MODIFIED) CFGF_DEFINIT)); auto.
      * rewrite put_opt_top, c_opts_set_opts, Hc, upd_nth_app_mid. reflexivity.
      * rewrite put_opt_top. apply c_name_set_opts.
      * rewrite put_opt_top. apply c_title_set_opts.
      * rewrite put_opt_top. apply c_flags_set_opts.
      * apply obs_o_split. unfold inst_opt. rewrite shape_set_vals, o_vals_set_vals.
        rewrite !shape_setf, shape_set_vals, shape_addval by reflexivity. split; [reflexivity|].
        rewrite o_vals_setf, o_vals_setf, o_vals_set_vals. unfold inst_vals. rewrite ND, KS, MU. cbn [map obs_v]. do 3 f_equal.
        rewrite instance_eq, !obs_c_eq. cbn [c_name c_title c_flags c_opts]. rewrite N3, T3, F3, O3. reflexivity.
      * apply invO_sec.
        -- erewrite base_ok_shape; [exact B| |].
           ++ rewrite !shape_setf, shape_set_vals, shape_addval by reflexivity. reflexivity.
           ++ left. rewrite !oflag_setf, oflag_set_vals. unfold addval. rewrite oflag_setf, oflag_set_vals. cbn. rewrite !orb_false_r. reflexivity.
        -- rewrite !o_kind_setf, o_kind_set_vals, KA. reflexivity.
        -- rewrite !o_sub_setf, o_sub_set_vals, SA. exact TS.
        -- rewrite !o_vals_setf, o_vals_set_vals. cbn [forallb]. unfold title_ok.
           rewrite !oflag_setf, !oflag_set_vals. unfold addval. rewrite !oflag_setf, !oflag_set_vals, MU. cbn [orb andb has N.land N.eqb negb].
           unfold invC in I3. rewrite I3. reflexivity.
Qed.

Lemma id_sim : forall k f e w L name title fl sub file line err pff,
  fst e = env -> wst w e L ->
  forallb (tmplO sc k) sub = true -> measure L + D + 2 * k + 1 <= f ->
  exists w' c', ID f w (Cfg name title fl sub file line err pff) = (w', c') /\ id_ok k fl sub e w L w' c' name title.
Proof.
  induction k as [|k0 IHk]; intros f e w L name title fl sub file line err pff He Hw Hs Hf.
  - destruct f as [|f0]; [lia|]. rewrite id_unfold. cbn [c_opts].
    destruct (id_loop_sim 0 f0 ltac:(intros k' E; discriminate) sub sub 0 e w L (Cfg name title fl sub file line err pff) [] He Hw ltac:(lia) eq_refl eq_refl eq_refl Hs)
      as (w' & c' & post' & E & WK & N & T & FL & O & M & I).
    exists w', c'. split; [exact E|]. unfold id_ok. cbn in N, T, FL, O, M. rewrite O. unfold invC. rewrite O. spl; auto.
  - destruct f as [|f0]; [lia|]. rewrite id_unfold. cbn [c_opts].
    destruct (id_loop_sim (S k0) f0) with (post := sub) (todo := sub) (i := 0) (e := e) (w := w) (L := L) (c := Cfg name title fl sub file line err pff) (pre := @nil opt)
      as (w' & c' & post' & E & WK & N & T & FL & O & M & I); auto.
    + intros k' Ek. injection Ek as ->. intros. apply IHk; auto.
    + lia.
    + exists w', c'. split; [exact E|]. unfold id_ok. cbn in N, T, FL, O, M. rewrite O. unfold invC. rewrite O. spl; auto.
Qed.

(* ---------- cfg_setopt on a section option against open_instance ---------- *)
Lemma so_section k' f e w L c o ti :
  fst e = env -> wst w e L ->
  invO sc (S k') o = true -> o_kind o = KSec -> is_some ti = oflag o CFGF_TITLE -> measure L + D + 2 * k' + 2 <= f ->
  exists w' o' res, SO f w c o ti = (w', o', res) /\ wrel e w L w' /\
    match open_instance strtod_o (c_flags c) (cflag c CFGF_NOCASE) o ti with
    | Some (vals', idx) => res = Some idx /\ shape o' = shape o /\ map obs_v (o_vals o') = map obs_v vals' /\
                           oflag o' CFGF_RESET = false /\ invO sc (S k') o' = true /\ idx < length (o_vals o')
    | None => res = None
    end.
Proof.
  intros He Hw IV K TI Hf.
  destruct (invO_sec_parts _ _ _ IV K) as (k0 & Ek & TS & VS). injection Ek as <-.
  pose proof (invO_base _ _ _ IV) as B. destruct (base_ok_parts _ B) as (_ & CP & CV & SEC). destruct (SEC K) as (RST & NL).
  destruct f as [|f']; [lia|]. rewrite so_unfold. unfold so_body, so_reset. rewrite RST.
  (* creating a fresh instance in slot idx of o1 (o1 = o or addval o) *)
  assert (FRESH : forall w1 o1 idx x, wkeep w w1 -> shape o1 = shape o -> oflag o1 CFGF_RESET = false ->
            nth_error (o_vals o1) idx = Some x ->
            (oflag o CFGF_MULTI = true \/ match x with VSec (Some _) => False | _ => True end) ->
            (oflag o CFGF_MULTI && oflag o CFGF_TITLE = true -> ti <> None) ->
            (forall y, nth_error (o_vals o1) idx = Some y -> forallb (vok sc k' o) (upd_nth (o_vals o1) idx (fun _ => VSec (Some (instance strtod_o (c_flags c) o ti)))) = true ->
               True) ->
            (forall j y, j <> idx -> nth_error (o_vals o1) j = Some y -> vok sc k' o y = true) ->
            exists w' o', so_kind strtod_o f' c ti w1 o1 idx = (w', o', Some idx) /\ wrel e w L w' /\ shape o' = shape o /\
              map obs_v (o_vals o') = map obs_v (upd_nth (o_vals o1) idx (fun _ => VSec (Some (instance strtod_o (c_flags c) o ti)))) /\
              oflag o' CFGF_RESET = false /\ invO sc (S k') o' = true /\ idx < length (o_vals o')).
  { intros w1 o1 idx x W1 SH1 R1 NX MX TT _ OTH.
    unfold so_kind, so_store. rewrite (shape_kind _ _ SH1), K, NX.
    rewrite (shape_oflag o1 o CFGF_MULTI SH1 eq_refl), (shape_oflag o1 o CFGF_KEYSTRVAL SH1 eq_refl), (shape_name _ _ SH1), (shape_sub _ _ SH1).
    assert (COND : oflag o CFGF_MULTI || match (match x with VSec (Some s) => Some s | _ => None end) with None => true | Some _ => false end = true).
    { destruct MX as [MX|MX]; [rewrite MX; reflexivity|]. destruct x as [| | | |[s|]|]; try contradiction; apply orb_true_r. }
    rewrite COND.
    set (w1' := match (match x with VSec (Some s) => Some s | _ => None end) with Some s => log_frees w1 (frees_c s) | None => w1 end).
    assert (W1' : wkeep w w1').
    { unfold w1'. destruct x as [| | | |[s|]|]; auto. eapply wkeep_trans; [exact W1|apply wkeep_frees]. }
    destruct (id_sim k' f' e w1' L (o_name o) ti (inst_fl (c_flags c) o) (o_sub o) (c_file c) (c_line c) (c_err c) None He (W1' _ _ Hw) TS ltac:(lia))
      as (w3 & sec' & EID & WK3 & N3 & T3 & F3 & O3 & I3).
    unfold inst_fl in EID at 1. rewrite EID.
    assert (OBS : obs_c sec' = obs_c (instance strtod_o (c_flags c) o ti)).
    { rewrite instance_eq, !obs_c_eq. cbn [c_name c_title c_flags c_opts]. rewrite N3, T3, F3, O3. reflexivity. }
    do 2 eexists. split; [reflexivity|]. spl.
    - exact WK3.
    - shp. exact SH1.
    - ovl. erewrite !map_upd_nth with (g := fun _ => VSec (Some (obs_c sec'))); [|intros; cbn [obs_v]; rewrite OBS; reflexivity|intros; reflexivity]. reflexivity.
    - rewrite oflag_setf, oflag_set_vals, R1. reflexivity.
    - apply invO_sec.
      + erewrite base_ok_shape; [exact B|shp; exact SH1|]. left. rewrite oflag_setf, oflag_set_vals, R1, RST. reflexivity.
      + rewrite o_kind_setf, o_kind_set_vals, (shape_kind _ _ SH1), K. reflexivity.
      + rewrite o_sub_setf, o_sub_set_vals, (shape_sub _ _ SH1). exact TS.
      + ovl. fold (vok sc k' (o_setf (set_vals o1 (upd_nth (o_vals o1) idx (fun _ : value => VSec (Some sec')))) CFGF_MODIFIED)).
        apply forallb_forall. intros y Hy. apply In_nth_error in Hy as (j & Hj).
        rewrite (vok_shape sc k' _ o) by (shp; exact SH1).
        destruct (Nat.eq_dec j idx) as [->|NE].
        * rewrite nth_error_upd_nth, NX in Hj. cbn in Hj. injection Hj as <-. unfold vok, title_ok.
          unfold invC in I3. rewrite I3, T3, andb_true_r.
          destruct (oflag o CFGF_MULTI && oflag o CFGF_TITLE) eqn:MT; [|reflexivity]. destruct ti; [reflexivity|]. exfalso; apply TT; auto.
        * rewrite nth_error_upd_nth_ne in Hj by congruence. eapply OTH; eauto.
    - ovl. rewrite upd_nth_length. apply nth_error_Some. congruence. }
  (* facts about the existing values *)
  assert (VOK : forall j y, nth_error (o_vals o) j = Some y -> vok sc k' o y = true).
  { intros j y Hj. eapply forallb_nth_error; eauto. }
  assert (ADD : o_vals (addval o) = o_vals o ++ [VSec None]) by (unfold addval; ovl; rewrite K; reflexivity).
  assert (SHA : shape (addval o) = shape o) by apply shape_addval.
  assert (RA : oflag (addval o) CFGF_RESET = false) by (unfold addval; rewrite oflag_setf, oflag_set_vals, RST; reflexivity).
  (* appending a fresh instance *)
  assert (APPEND : forall w1, wkeep w w1 -> (oflag o CFGF_MULTI && oflag o CFGF_TITLE = true -> ti <> None) ->
            exists w' o', so_kind strtod_o f' c ti w1 (addval o) (length (o_vals o)) = (w', o', Some (length (o_vals o))) /\ wrel e w L w' /\ shape o' = shape o /\
              map obs_v (o_vals o') = map obs_v (o_vals o ++ [VSec (Some (instance strtod_o (c_flags c) o ti))]) /\
              oflag o' CFGF_RESET = false /\ invO sc (S k') o' = true /\ length (o_vals o) < length (o_vals o')).
  { intros w1 W1 TT.
    destruct (FRESH w1 (addval o) (length (o_vals o)) (VSec None) W1 SHA RA) as (w' & o' & E & WK & S' & M' & R' & I' & L'); auto.
    - rewrite ADD. apply nth_error_app_mid.
    - intros j y NE Hj. rewrite ADD in Hj. destruct (Nat.lt_ge_cases j (length (o_vals o))) as [LT|GE].
      + rewrite nth_error_app1 in Hj by exact LT. eapply VOK; eauto.
      + rewrite nth_error_app2 in Hj by exact GE. destruct (j - length (o_vals o)) as [|m] eqn:Em; [lia|]. destruct m; discriminate.
    - exists w', o'. rewrite ADD, upd_nth_app_last in M'. spl; auto. }
  unfold open_instance, so_slot. rewrite NL, orb_false_r, K. cbn [kind_eqb andb].
  destruct (oflag o CFGF_MULTI) eqn:MU; cbn [negb].
  - rewrite orb_true_r.
    destruct (oflag o CFGF_TITLE) eqn:TT; cbn [negb].
    + destruct ti as [t|]; [|discriminate TI]. rewrite andb_false_r.
      assert (ALLT : Forall (fun v => match v with VSec (Some s) => c_title s <> None | _ => False end) (o_vals o)).
      { apply Forall_forall. intros y Hy. apply In_nth_error in Hy as (j & Hj). specialize (VOK j y Hj).
        unfold vok, title_ok in VOK. rewrite MU, TT in VOK. cbn [andb] in VOK.
        destruct y as [| | | |[s|]|]; try discriminate. apply andb_prop in VOK as [A _]. destruct (c_title s); [discriminate|discriminate]. }
      rewrite (title_look_find _ _ _ 0 ALLT). fold (title_pred (cflag c CFGF_NOCASE) t).
      destruct (find_idx (title_pred (cflag c CFGF_NOCASE) t) (o_vals o) 0) as [i|] eqn:FI.
      * destruct (oflag o CFGF_NO_TITLE_DUPES).
        -- do 3 eexists. split; [reflexivity|]. split; [|reflexivity].
           apply wrel_keep; [exact Hw|]. destruct (_ && _); [apply wkeep_diags|apply wkeep_refl].
        -- apply find_idx_bound in FI. destruct (nth_error (o_vals o) i) as [x|] eqn:NX; [|apply nth_error_None in NX; lia].
           destruct (FRESH w o i x (wkeep_refl w) eq_refl RST NX (or_introl eq_refl) ltac:(discriminate) ltac:(auto))
             as (w' & o' & E & WK & S' & M' & R' & I' & L').
           { intros j y NE Hj. eapply VOK; eauto. }
           exists w', o', (Some i). spl; auto.
      * destruct (APPEND w (wkeep_refl w) ltac:(discriminate)) as (w' & o' & E & WK & S' & M' & R' & I' & L').
        exists w', o', (Some (length (o_vals o))). spl; auto.
    + destruct (APPEND w (wkeep_refl w) ltac:(discriminate)) as (w' & o' & E & WK & S' & M' & R' & I' & L').
      exists w', o', (Some (length (o_vals o))). spl; auto.
  - rewrite orb_false_r. destruct (o_vals o) as [|x0 vs] eqn:VV.
    + cbn [length Nat.eqb negb andb].
      assert (SL : (if oflag o CFGF_TITLE
                    then match title_look (cflag c CFGF_NOCASE) ti [] 0 with
                         | inl (Some i) => if oflag o CFGF_NO_TITLE_DUPES then None else Some (w, o, i)
                         | inl None => Some (w, addval o, 0)
                         | inr _ => Some (set_crash w "null-deref:cfg_setopt:title", addval o, 0)
                         end
                    else Some (w, addval o, 0)) = Some (w, addval o, 0)) by (destruct (oflag o CFGF_TITLE); reflexivity).
      rewrite SL. cbn [length app] in APPEND.
      destruct (APPEND w (wkeep_refl w) ltac:(discriminate)) as (w' & o' & E & WK & S' & M' & R' & I' & L').
      exists w', o', (Some 0). spl; auto.
    + cbn [length Nat.eqb].
      (* merge into the existing first instance *)
      assert (X0 : vok sc k' o x0 = true) by (apply (VOK 0 x0); reflexivity).
      destruct x0 as [| | | |[s0|]|]; try discriminate X0.
      unfold so_kind, so_store. rewrite K, MU, VV. cbn [nth_error orb upd_nth].
      do 3 eexists. split; [reflexivity|]. spl; auto.
      * apply wrel_keep; [exact Hw|apply wkeep_refl].
      * shp. reflexivity.
      * ovl. reflexivity.
      * rewrite oflag_setf, oflag_set_vals, RST. reflexivity.
      * apply invO_sec.
        -- erewrite base_ok_shape; [exact B|shp; reflexivity|]. left. rewrite oflag_setf, oflag_set_vals. cbn. rewrite orb_false_r. reflexivity.
        -- rewrite o_kind_setf, o_kind_set_vals, K. reflexivity.
        -- rewrite o_sub_setf, o_sub_set_vals. exact TS.
        -- ovl. try rewrite VV in VS. cbn [forallb] in VS |- *. fold (vok sc k' (o_setf (set_vals o (VSec (Some s0) :: vs)) CFGF_MODIFIED)).
           fold (vok sc k' o) in VS.
           change (vok sc k' (o_setf (set_vals o (VSec (Some s0) :: vs)) CFGF_MODIFIED) (VSec (Some s0)) && forallb (vok sc k' (o_setf (set_vals o (VSec (Some s0) :: vs)) CFGF_MODIFIED)) vs = true).
           change (vok sc k' o (VSec (Some s0)) && forallb (vok sc k' o) vs = true) in VS.
           rewrite (vok_shape sc k' _ o) by (shp; reflexivity).
           rewrite (forallb_ext' _ (vok sc k' o)); [exact VS|]. intros y. apply vok_shape. shp. reflexivity.
      * ovl. cbn. lia.
Qed.

End Scanned.
End WithOracles.
