(* RoundProofs.v — C05, lexical part: what the printer writes for a string (or a title) is read back
   by the scanner as exactly that string, for EVERY string without NUL. *)
From Coq Require Import List Arith NArith Bool Lia.
From Coq.Strings Require Import Byte.
From LC Require Import Bytes Flex LexAct LexRules Consts Lexer LexSpec LexLemmas DqProofs Conv Store Print.
Import ListNotations.

Definition needs_escape (c : byte) : bool := Byte.eqb c dq || Byte.eqb c bs || Byte.eqb c x24.

Definition unit_of (c : byte) : dunit := if needs_escape c then UOther c else UChar c.
Definition units_of (s : str) : list dunit := map unit_of s.

Lemma esc1_render c : esc1 c = render1 (unit_of c).
Proof.
  unfold esc1, unit_of, needs_escape, Print.dq, Print.bsl.
  change LexSpec.dq with x22. change LexSpec.bs with x5c.
  destruct (Byte.eqb c x22) eqn:E1; [apply byte_eqb_eq in E1; subst; reflexivity|].
  destruct (Byte.eqb c x5c) eqn:E2; [apply byte_eqb_eq in E2; subst; reflexivity|].
  destruct (Byte.eqb c x24) eqn:E3; [apply byte_eqb_eq in E3; subst; reflexivity|].
  reflexivity.
Qed.

Lemma escape_render s : escape s = render (units_of s).
Proof.
  unfold escape, render, units_of. induction s as [|c s IH]; cbn [flat_map map]; [reflexivity|].
  rewrite IH, esc1_render. reflexivity.
Qed.

Lemma denote_units e s : denote e (units_of s) = s.
Proof.
  unfold denote, units_of. induction s as [|c s IH]; cbn [flat_map map]; [reflexivity|].
  rewrite IH. unfold unit_of. destruct (needs_escape c); reflexivity.
Qed.

Lemma unit_of_wf_sweep : forallb (fun c => implb (negb (Byte.eqb c x00)) (unit_wf (unit_of c))) all_bytes = true.
Proof. vm_compute. reflexivity. Qed.

Lemma unit_of_follow_sweep : forallb (fun c => forallb (fun n => follow_ok (unit_of c) n) all_bytes) all_bytes = true.
Proof. vm_compute. reflexivity. Qed.

Lemma units_of_wf s : Forall (fun c => c <> x00) s -> units_wf (units_of s) dq = true.
Proof.
  induction 1 as [|c s Hc _ IH]; cbn [units_of map units_wf]; [reflexivity|].
  fold (units_of s). rewrite IH, andb_true_r.
  pose proof (sweep _ unit_of_wf_sweep c) as H1. cbv beta in H1.
  apply byte_eqb_neq in Hc. rewrite Hc in H1. cbn [negb implb] in H1. rewrite H1. cbn [andb].
  pose proof (sweep _ unit_of_follow_sweep c) as H2. cbv beta in H2.
  exact (sweep _ H2 _).
Qed.

Lemma lines_units s : lines_of (units_of s) = count_nl s.
Proof.
  unfold units_of, count_nl. induction s as [|c s IH]; cbn [map lines_of fold_right filter]; [reflexivity|].
  fold (lines_of (map unit_of s)). rewrite IH. unfold unit_of, unit_lines.
  destruct (needs_escape c) eqn:En.
  - (* an escaped byte is not a newline *)
    assert (Byte.eqb c x0a = false).
    { unfold needs_escape in En. destruct (Byte.eqb c x0a) eqn:E; [|reflexivity].
      apply byte_eqb_eq in E. subst. discriminate. }
    rewrite H. reflexivity.
  - change LexSpec.nl with x0a. destruct (Byte.eqb c x0a); cbn [length].
    + rewrite Nat2N.inj_succ. rewrite N.add_1_l. reflexivity.
    + rewrite N.add_0_l. reflexivity.
Qed.

(* the quoted form of a string, followed by anything, is one CFGT_STR token with that string as value *)
Theorem quoted_reads_back e s st p closed id rest others fuel :
  Forall (fun c => c <> x00) s -> l_sc st = INITIAL ->
  l_bufs st = (id, quoted (Some s) ++ rest) :: others -> (S (length s) < fuel)%nat ->
  observe (yylex e fuel st p closed) =
  {| ob_tok := TStr; ob_val := Some s; ob_bufs := (id, rest) :: others;
     ob_sc := INITIAL; ob_line := p_line p + count_nl s; ob_file := p_file p; ob_diags := []; ob_echo := l_echo st;
     ob_inc := l_inc st; ob_closed := closed; ob_oof := false |}.
Proof.
  intros Hs Hsc Hb Hf.
  unfold quoted in Hb. rewrite (cstr_no_nul s Hs), escape_render in Hb.
  change Print.dq with LexSpec.dq in Hb. cbn [app] in Hb. rewrite <- app_assoc in Hb. cbn [app] in Hb.
  rewrite (dq_string_token e (units_of s) st p closed id rest others fuel (units_of_wf s Hs) Hsc Hb);
    [|unfold units_of; rewrite map_length; exact Hf].
  rewrite denote_units, lines_units, (cstr_no_nul s Hs). reflexivity.
Qed.
