(* PP_Default.v — C01: the deprecated handler as a tree function; the machine started in state 3 on a forced
   option (the way cfg_init_defaults parses a list default text) and its end of input. *)
From Coq Require String.
From Coq Require Import List Arith NArith ZArith Bool Lia.
From Coq.Strings Require Import Byte.
From LC Require Import Bytes Consts Conv Flex LexAct Lexer LexLemmas LexAll Files Store Parser Grammar
  PP_Base PP_Step PP_Tok PP_Setopt PP_Inv PP_Machine PP_LexYields.
Import ListNotations.
Import String.StringSyntax.
Local Open Scope string_scope.
Local Open Scope list_scope.
Local Open Scope nat_scope.

(* ---------- the deprecated handler, as a tree function ---------- *)
Definition dropped (o : opt) : bool := oflag o CFGF_DEPRECATED && oflag o CFGF_DROP.

Definition depc (c : cfg) (ro : option optref) : cfg :=
  match ro with
  | None => c
  | Some r => match get_opt c r with
              | Some o => if dropped o then put_opt c r (fst (free_value o)) else c
              | None => c
              end
  end.

Lemma dep_w_eq w c p : exists w', dep_w w c p = (w', depc c (s_opt p)) /\ wkeep w w'.
Proof.
  unfold dep_w, depc, handle_deprecated. destruct (s_opt p) as [r|]; [|exists w; split; [reflexivity|apply wkeep_refl]].
  destruct (get_opt c r) as [o|]; [|exists w; split; [reflexivity|apply wkeep_refl]].
  unfold dropped. destruct (oflag o CFGF_DEPRECATED); cbn [andb]; [|exists w; split; [reflexivity|apply wkeep_refl]].
  destruct (oflag o CFGF_DROP).
  - destruct (free_value o) as [o1 fr]. eexists. split; [reflexivity|]. eapply wkeep_trans; [apply wkeep_diags|apply wkeep_frees].
  - eexists. split; [reflexivity|]. apply wkeep_diags.
Qed.

Lemma depc_ceq a b ro : ceq a b -> ceq (depc a ro) (depc b ro).
Proof.
  intros H. unfold depc. destruct ro as [r|]; [|exact H]. rewrite (ceq_get a b r H).
  destruct (get_opt b r) as [o|]; [|exact H]. destruct (dropped o); [apply ceq_put, H|exact H].
Qed.

Lemma dropped_shape o o' : shape o = shape o' -> dropped o = dropped o'.
Proof. intros S. unfold dropped. rewrite (shape_oflag o o' CFGF_DEPRECATED S eq_refl), (shape_oflag o o' CFGF_DROP S eq_refl). reflexivity. Qed.

Lemma free_value_idem o : fst (free_value (fst (free_value o))) = fst (free_value o).
Proof.
  unfold free_value. cbn [fst].
  destruct (o_comment o) as [cm|] eqn:C.
  - destruct (oflag o CFGF_RESET) eqn:R; cbn [negb].
    + destruct o; cbn in *. rewrite C. unfold oflag in *. cbn in *. rewrite R. reflexivity.
    + destruct o; cbn in *. reflexivity.
  - destruct o; cbn in *. rewrite C. reflexivity.
Qed.

Lemma depc_idem_exact c ro : depc (depc c ro) ro = depc c ro.
Proof.
  destruct ro as [r|]; [|reflexivity]. unfold depc at 2 3. destruct (get_opt c r) as [o|] eqn:G.
  - destruct (dropped o) eqn:D.
    + unfold depc. rewrite (get_put c r _ o G).
      destruct (free_value_props o) as (V & S & F). rewrite (dropped_shape _ o S), D.
      rewrite put_put, free_value_idem. reflexivity.
    + unfold depc. rewrite G, D. reflexivity.
  - unfold depc. rewrite G. reflexivity.
Qed.

Section WithOracles.
Variable strtod_o : str -> strtod_res.
Notation PI := (parse_internal strtod_o).
Notation SO := (setopt strtod_o).

(* ---------- a list value started in state 3:  '{' body  |  v ---------- *)
Definition start3 (k : kind) (g : list gtok) : option (list value * list gtok) :=
  match g with
  | GP y :: g2 => if (y =? 123)%N then braced strtod_o (S (length g2)) k g2 [] else None
  | GS v :: g2 => match conv_value strtod_o k v with Some xv => Some ([xv], g2) | None => None end
  | [] => None
  end.

Lemma list_start_sim e X r : forall ts L w c level p fuel o,
  wst w e L -> yieldsc e L ts -> s_state p = 3 -> s_opt p = Some r -> s_num p = 0 -> get_opt c r = Some o ->
  oflag o CFGF_LIST = true -> lopt o ->
  measure L + length ts + S X < fuel ->
  match start3 (o_kind o) (gtoks ts) with
  | Some (vs, rest) => exists fuel' w' c' o' L' ts' p',
      PI fuel w c level p = PI fuel' w' c' level p' /\ ceq c' (put_opt c r o') /\ shape o' = shape o /\
      o_vals o' = cur o ++ vs /\ get_opt c' r = Some o' /\
      pz p p' /\ wst w' e L' /\ yieldsc e L' ts' /\ gtoks ts' = rest /\ measure L' + length ts' + S X < fuel' /\
      length ts' < length ts /\ fuel' <= fuel
  | None => exists w' c', PI fuel w c level p = (w', c', PERR) /\ w_oof w' = false
  end.
Proof.
  intros ts L w c level p fuel o Hw Hy Hs Hop Hnum Hg HL LO Hf.
  pose proof (fetch_nz strtod_o e X ts L w c level p fuel Hw Hy ltac:(lia) Hf) as FN3.
  unfold start3. destruct (gtoks ts) as [|g3 g2] eqn:G; [exact FN3|].
  destruct FN3 as (f3 & w3 & c3 & L3 & ts3 & t3 & v3 & E3 & C3 & W3 & Y3 & G3 & F3 & Len3 & TV3 & FL3).
  assert (Hg3 : get_opt c3 r = Some o) by (rewrite (ceq_get _ _ r C3); exact Hg).
  destruct LO as (OK & OP & OV).
  rewrite E3. unfold st_dispatch. rewrite Hs. unfold st3, curopt_of. rewrite Hop, Hg3.
  destruct g3 as [sv|y]; cbn [tokval] in TV3.
  - destruct TV3 as [-> ->]. cbn [tok_is tok_is_str negb].
    destruct f3 as [|f3']; [lia|].
    destruct (so_value strtod_o f3' w3 c3 o sv OK OP (or_intror HL)) as (w4 & o4 & res & ES & WK & R).
    rewrite ES.
    destruct (conv_value strtod_o (o_kind o) sv) as [xv|].
    + destruct R as (Rn & RV & RS & RR). destruct res as [idx|]; [|congruence].
      assert (OV4 : cb_valid (o_cbs o4) = None) by (rewrite (shape_cbs _ _ RS); exact OV).
      rewrite (run_validcb_none _ _ OV4). fold (cmt p o4).
      destruct (cmt_props p o4) as (CS & CV & CR).
      rewrite put_put.
      exists (S f3'), w4, (put_opt c3 r (cmt p o4)), (cmt p o4), L3, ts3,
             (st_state (st_num (st_comment p None) (S (s_num (st_comment p None)))) 0). spl; auto; try lia.
      * apply ceq_put, C3.
      * congruence.
      * rewrite CV. exact RV.
      * eapply get_put; exact Hg3.
      * unfold pz; cbn; auto.
    + rewrite R. do 2 eexists. split; [reflexivity|]. eapply wst_oof, WK, W3.
  - subst t3. rewrite tok_is_punct.
    destruct (y =? 123)%N eqn:Y123.
    + pose proof (body_sim strtod_o e X r (length ts3) ts3 (le_n _) (S (length g2)) L3 w3 c3 level (st_state p 2) f3 o (cur o) []
                    W3 Y3 eq_refl Hop Hg3 HL ltac:(unfold lopt; auto) ltac:(rewrite app_nil_r; reflexivity) ltac:(intros; exact Hnum) F3
                    ltac:(rewrite G3; lia)) as BS.
      rewrite G3 in BS.
      destruct (braced strtod_o (S (length g2)) (o_kind o) g2 []) as [[vs rest]|]; [|exact BS].
      destruct BS as (f5 & w5 & c5 & o5 & L5 & ts5 & p5 & E5 & C5 & S5 & V5 & G5 & P5 & W5 & Y5 & GT5 & F5 & Len5 & FL5).
      exists f5, w5, c5, o5, L5, ts5, p5. spl; auto; try lia.
      eapply ceq_trans; [exact C5|]. apply ceq_put, C3.
    + cbn [tok_is_str negb]. do 2 eexists. split; [reflexivity|]. eapply wst_oof, wst_add_diags, W3.
Qed.

(* ---------- end of a forced text: only comments may follow ---------- *)
Lemma eof_forced_sim e X : forall ts L w c level p fuel,
  wst w e L -> yieldsc e L ts -> gtoks ts = [] -> s_state p = 0 -> s_forced p = true ->
  measure L + length ts + S X < fuel ->
  exists w' c' L', PI fuel w c level p = (w', c', PEOF) /\ ceq c' (depc c (s_opt p)) /\ wst w' e L' /\ measure L' <= measure L.
Proof.
  induction ts as [|t ts IH]; intros L w c level p fuel Hw Hy HG Hs HF Hf.
  - apply yields_length_inv in Hy. destruct Hy as (s' & Ht).
    destruct fuel as [|f]; [lia|]. cbn [length] in Hf.
    destruct (pi_step strtod_o f w c e L TEof None s' Hw Ht ltac:(lia)) as (w1 & pos & Hw1 & E). rewrite E.
    unfold pi_body. rewrite Hs, HF. cbn [Nat.eqb negb andb]. rewrite andb_false_r.
    destruct (dep_w_eq w1 (set_pos c pos) p) as (w2 & -> & WK).
    exists w2, (depc (set_pos c pos) (s_opt p)), s'. spl; auto.
    + apply depc_ceq, ceq_set_pos.
    + destruct Ht as (_ & Ht). destruct (Ht pos (S (measure L)) ltac:(lia)) as (_ & _ & <- & _). apply yylex_measure_le.
  - apply yields_length_inv in Hy. destruct Hy as (A & B & SV & s' & Ht & Hm & Hy').
    destruct fuel as [|f]; [lia|]. cbn [length] in Hf.
    destruct (pi_step strtod_o f w c e L _ _ s' Hw Ht ltac:(lia)) as (w1 & pos & Hw1 & E). rewrite E.
    rewrite gtoks_cons in HG.
    destruct (gtok_of_cases t A B SV) as [[K G]|(g & G & _)]; rewrite G in HG; [|discriminate].
    unfold pi_body. rewrite K, Hs. cbn [Nat.eqb negb]. unfold st_dispatch. rewrite Hs. unfold st0.
    destruct (dep_w_eq w1 (set_pos c pos) p) as (w2 & -> & WK).
    assert (W2 : wst w2 e s') by (apply WK, Hw1).
    assert (GO : forall p', s_opt p' = s_opt p -> s_state p' = 0 -> s_forced p' = true ->
              exists w' c' L', PI f w2 (depc (set_pos c pos) (s_opt p)) level p' = (w', c', PEOF) /\ ceq c' (depc c (s_opt p)) /\ wst w' e L' /\ measure L' <= measure L).
    { intros p' SO SS SF.
      destruct (IH s' w2 (depc (set_pos c pos) (s_opt p)) level p' f W2 Hy' HG SS SF ltac:(lia)) as (w' & c' & L' & E' & C' & W' & M').
      exists w', c', L'. spl; auto; try lia. rewrite SO, depc_idem_exact in C'. eapply ceq_trans; [exact C'|]. apply depc_ceq, ceq_set_pos. }
    destruct (negb (cflag (depc (set_pos c pos) (s_opt p)) CFGF_COMMENTS)); apply GO; auto.
Qed.

End WithOracles.
