(* BalanceProofs.v — scanner bookkeeping of a parse: the flex buffer stack, the include stack and the
   count of FILEs opened by includes are a stack discipline.  Whatever cfg_parse_internal / cfg_setopt /
   cfg_init_defaults do (includes, nested default-value scans, errors, fuel exhaustion), the buffers and
   include frames that existed when cfg_parse_fp started are never touched, and cfg_parse_fp hands the
   scanner back exactly as it found it (C08, C13). *)
From Coq Require String.
Import String.StringSyntax.
From Coq Require Import List Arith NArith ZArith Bool Lia.
From Coq.Strings Require Import Byte.
From LC Require Import Bytes Consts Conv Flex LexAct LexRules Lexer Files Store Parser HdrProofs ApiProofs.
Import ListNotations.
Local Open Scope string_scope.
Local Open Scope list_scope.

(* ================================================================== *)
(* what a parse can see of the scanner bookkeeping                      *)
(* ================================================================== *)

(* the part of the world the balance invariant talks about *)
Definition lx (w : pw) : lexst * nat := (w_lex w, w_open w).

Lemma lx_add_diags w d : lx (add_diags w d) = lx w. Proof. reflexivity. Qed.
Lemma lx_add_cb w e : lx (add_cb w e) = lx w. Proof. reflexivity. Qed.
Lemma lx_set_cnt w n : lx (set_cnt w n) = lx w. Proof. reflexivity. Qed.
Lemma lx_set_nextptr w n : lx (set_nextptr w n) = lx w. Proof. reflexivity. Qed.
Lemma lx_set_crash w k : lx (set_crash w k) = lx w. Proof. reflexivity. Qed.
Lemma lx_set_oof w : lx (set_oof w) = lx w. Proof. reflexivity. Qed.
Lemma lx_set_path w p : lx (set_path w p) = lx w. Proof. reflexivity. Qed.

Lemma lx_log_frees ids : forall w, lx (log_frees w ids) = lx w.
Proof.
  unfold log_frees. induction ids as [|i ids IH]; intro w; [reflexivity|].
  cbn [fold_left]. rewrite IH. apply lx_add_cb.
Qed.

Lemma lx_tick w : lx (fst (tick w)) = lx w. Proof. reflexivity. Qed.

Lemma lx_run_validcb w o : lx (fst (run_validcb w o)) = lx w.
Proof. unfold run_validcb. destruct (cb_valid (o_cbs o)); reflexivity. Qed.

Lemma lx_run_parsecb w k o v : lx (fst (run_parsecb w k o v)) = lx w.
Proof. reflexivity. Qed.

Lemma lx_handle_deprecated w c r : lx (fst (handle_deprecated w c r)) = lx w.
Proof.
  unfold handle_deprecated. destruct (get_opt c r) as [o|]; [|reflexivity].
  destruct (oflag o CFGF_DEPRECATED); [|reflexivity].
  destruct (oflag o CFGF_DROP); [|reflexivity].
  destruct (free_value o) as [o1 fr]. unfold fst. rewrite lx_log_frees. reflexivity.
Qed.

(* the scanner fields the bookkeeping lives in; actions only touch the others *)
Definition core (l : lexst) := (l_bufs l, l_inc l, l_next l, l_rderr l).

Definition out_st (o : outcome) : lexst := match o with Continue s _ => s | Return _ _ s _ _ => s end.

Lemma run_action_core e a y s p : core (out_st (run_action e a y s p)) = core s.
Proof.
  destruct a; unfold run_action; try reflexivity.
  all: repeat match goal with |- context [match ?x with _ => _ end] => destruct x end; reflexivity.
Qed.

Definition ls_st (x : lstep) : lexst := match x with LCont s _ _ => s | LRet _ _ s _ _ _ => s end.
Definition ls_k (x : lstep) : nat := match x with LCont _ _ k => k | LRet _ _ _ _ _ k => k end.

(* ================================================================== *)
(* the invariant                                                        *)
(* ================================================================== *)

Section Inv.
(* the scanner as the running cfg_parse_fp (or cfg_init) found it *)
Variables (base : list (nat * list byte)) (inc0 : list incframe) (next0 : nat) (r0 : bool) (open0 : nat).
(* frames already on the include stack name buffers created earlier *)
Hypothesis Hinc0 : Forall (fun f => i_buf f < next0) inc0.

(* [LB m l k]: above [base] lie [k + m] buffers, all created since the start; above [inc0] lie [k]
   frames; m = 1 (own buffer of the parse) + number of default-value scans in progress. *)
Definition LB (m : nat) (l : lexst) (k : nat) : Prop :=
  exists tops frames,
    l_bufs l = tops ++ base /\ l_inc l = frames ++ inc0 /\
    length tops = length frames + m /\
    Forall (fun b => next0 <= fst b) tops /\
    next0 <= l_next l /\
    k = length frames /\
    (frames = [] \/ length frames + length inc0 <= MAX_INCLUDE_DEPTH) /\
    (l_rderr l = true -> r0 = true) /\
    Forall (fun f => i_buf f < l_next l) frames.

Lemma LB_core m l l' k : core l' = core l -> LB m l k -> LB m l' k.
Proof.
  unfold core. intro E. injection E as E1 E2 E3 E4. intros (tops & frames & H).
  exists tops, frames. rewrite E1, E2, E3, E4. exact H.
Qed.

Lemma LB_retop m s k id inp inp' others s' :
  1 <= m -> LB m s k -> l_bufs s = (id, inp) :: others ->
  l_bufs s' = (id, inp') :: others -> l_inc s' = l_inc s -> l_next s' = l_next s -> l_rderr s' = l_rderr s ->
  LB m s' k.
Proof.
  intros Hm (tops & frames & Hb & Hi & Hl & Hf & Hn & Hk & Hd & Hr & Hw) Eb Eb' Ei En Er.
  destruct tops as [|t tops]; [cbn [length] in Hl; lia|].
  rewrite Eb in Hb. cbn [app] in Hb. injection Hb as Ht Ho. subst t.
  exists ((id, inp') :: tops), frames. rewrite Eb', Ei, En, Er.
  split; [cbn [app]; congruence|]. split; [exact Hi|]. split; [exact Hl|].
  split; [|tauto].
  inversion Hf as [|? ? Hx Hy]; subst. constructor; [exact Hx|exact Hy].
Qed.

Lemma run_eof_LB a m s p k : 1 <= m -> LB m s k ->
  snd (run_eof a s p) <= k /\ LB m (out_st (fst (run_eof a s p))) (k - snd (run_eof a s p)).
Proof.
  intros Hm H.
  assert (Triv : 0 <= k /\ LB m s (k - 0)) by (rewrite Nat.sub_0_r; split; [lia|exact H]).
  unfold run_eof. destruct a as [[]|]; try exact Triv.
  destruct (l_rderr s) eqn:Er.
  - cbn [fst snd out_st]. rewrite Nat.sub_0_r. split; [lia|].
    destruct H as (tops & frames & Hb & Hi & Hl & Hf & Hn & Hk & Hd & Hr & Hw).
    exists tops, frames. cbn [clear_rderr l_bufs l_inc l_next l_rderr].
    repeat (split; [assumption|]). split; [discriminate|assumption].
  - destruct (l_inc s) as [|f rest] eqn:Ei; [exact Triv|].
    destruct (match cur_buf_id s with Some id => Nat.eqb id (i_buf f) | None => false end) eqn:Ec; [|exact Triv].
    cbn [fst snd out_st].
    destruct H as (tops & frames & Hb & Hi & Hl & Hf & Hn & Hk & Hd & Hr & Hw).
    rewrite Ei in Hi.
    destruct tops as [|[id inp] tops]; [cbn [length] in Hl; lia|].
    unfold cur_buf_id in Ec. rewrite Hb in Ec. cbn [app] in Ec. apply Nat.eqb_eq in Ec.
    destruct frames as [|f' frames].
    + (* the top frame belongs to an earlier parse: its buffer id is older than every buffer of ours *)
      exfalso. cbn [app] in Hi. rewrite <- Hi in Hinc0.
      inversion Hinc0 as [|? ? Hx _]; subst. inversion Hf as [|? ? Hy _]; subst. cbn [fst] in Hy. lia.
    + cbn [app] in Hi. injection Hi as -> Hi. cbn [length] in Hk, Hl, Hd. split; [lia|].
      exists tops, frames. cbn [scan_end set_inc l_bufs l_inc l_next l_rderr]. rewrite Hb. cbn [app tl].
      split; [reflexivity|]. split; [exact Hi|]. split; [lia|].
      split; [inversion Hf; assumption|]. split; [exact Hn|]. split; [lia|].
      split; [|split; [exact Hr|inversion Hw; assumption]]. destruct frames; [left; reflexivity|right].
      destruct Hd as [Hd|Hd]; [discriminate|]. cbn [length] in *. lia.
Qed.

Lemma lex_step_LB e m s p k : 1 <= m -> LB m s k ->
  ls_k (lex_step e s p) <= k /\ LB m (ls_st (lex_step e s p)) (k - ls_k (lex_step e s p)).
Proof.
  intros Hm H.
  assert (Triv : 0 <= k /\ LB m s (k - 0)) by (rewrite Nat.sub_0_r; split; [lia|exact H]).
  unfold lex_step. destruct (l_bufs s) as [|[id inp] others] eqn:Eb; [exact Triv|].
  destruct (munch (active_res (l_sc s)) inp 0 None) as [[i n]|].
  - assert (H1 : LB m (set_bufs s ((id, skipn n inp) :: others)) k)
      by (eapply LB_retop; [exact Hm|exact H|exact Eb|reflexivity..]).
    destruct (nth_error (active_rules (l_sc s)) i) as [r|].
    + pose proof (run_action_core e (r_act r) (firstn n inp) (set_bufs s ((id, skipn n inp) :: others)) p) as RC.
      destruct (run_action e (r_act r) (firstn n inp) (set_bufs s ((id, skipn n inp) :: others)) p);
        unfold out_st in RC; cbn [ls_k ls_st]; rewrite Nat.sub_0_r; (split; [lia|]);
        (eapply LB_core; [exact RC|exact H1]).
    + cbn [ls_k ls_st]. rewrite Nat.sub_0_r. split; [lia|exact H1].
  - destruct inp as [|c rest].
    + pose proof (run_eof_LB (eof_action_of (l_sc s)) m s p k Hm H) as RE.
      destruct (run_eof (eof_action_of (l_sc s)) s p) as [[s2 p2|t v s2 p2 d] j];
        cbn [fst snd out_st] in RE; cbn [ls_k ls_st]; exact RE.
    + cbn [ls_k ls_st]. rewrite Nat.sub_0_r. split; [lia|].
      eapply LB_retop; [exact Hm|exact H|exact Eb|reflexivity..].
Qed.

Lemma yylex_LB e m : 1 <= m -> forall fuel s p closed k, LB m s k ->
  exists k', LB m (r_st (yylex e fuel s p closed)) k' /\ k' + r_closed (yylex e fuel s p closed) = k + closed.
Proof.
  intro Hm. induction fuel as [|fuel IH]; intros s p closed k H.
  - exists k. cbn [yylex r_st r_closed]. split; [exact H|reflexivity].
  - cbn [yylex]. pose proof (lex_step_LB e m s p k Hm H) as [L1 L2].
    destruct (lex_step e s p) as [s2 p2 j|t v s2 p2 d j]; cbn [ls_k ls_st] in L1, L2.
    + destruct (IH s2 p2 (j + closed) (k - j) L2) as (k' & A & B). exists k'. split; [exact A|lia].
    + exists (k - j). cbn [r_st r_closed]. split; [exact L2|lia].
Qed.

(* ---------- the world level ---------- *)

Definition Bal (m : nat) (x : lexst * nat) : Prop := exists k, LB m (fst x) k /\ snd x = open0 + k.

Lemma next_token_Bal m fl w c : 1 <= m -> Bal m (lx w) -> Bal m (lx (fst (fst (fst (next_token fl w c))))).
Proof.
  intros Hm (k & H & Ho). unfold lx, fst, snd in H, Ho.
  unfold next_token. cbv zeta.
  destruct (yylex_LB (w_env w) m Hm fl (w_lex w) (c_pos c) 0 k H) as (k' & A & B).
  set (r := yylex (w_env w) fl (w_lex w) (c_pos c) 0) in *.
  exists k'. unfold lx. destruct (r_fuel_out r); destruct (c_err c);
    cbn [fst snd w_lex w_open set_open upd_lex add_diags set_oof]; (split; [exact A|lia]).
Qed.

Lemma lexer_include_Bal m w c a : Bal m (lx w) -> Bal m (lx (fst (fst (lexer_include w c a)))).
Proof.
  intros HB. unfold lexer_include.
  destruct (Nat.leb MAX_INCLUDE_DEPTH (length (l_inc (w_lex w)))) eqn:Ed; [exact HB|].
  destruct (match w_path w with [] => _ | _ => _ end); [|exact HB].
  destruct (open_input (w_fs w) s) as [content|]; [|exact HB].
  destruct HB as (k & (tops & frames & Hb & Hi & Hl & Hf & Hn & Hk & Hd & Hr & Hw) & Ho). unfold lx, fst, snd in *.
  apply Nat.leb_gt in Ed. rewrite Hi, app_length in Ed.
  exists (S k). cbn [fst snd w_lex w_open set_open upd_lex]. split; [|lia].
  exists ((l_next (w_lex w), content) :: tops),
         ({| i_file := c_file c; i_line := c_line c; i_buf := l_next (w_lex w) |} :: frames).
  cbn [scan_begin set_inc l_bufs l_inc l_next l_rderr]. rewrite Hb, Hi. cbn [app length].
  split; [reflexivity|]. split; [reflexivity|]. split; [lia|].
  split; [constructor; [exact Hn|exact Hf]|]. split; [lia|]. split; [lia|].
  split; [right; lia|]. split; [discriminate|].
  constructor; [cbn [i_buf]; lia|]. eapply Forall_impl; [|exact Hw]. cbv beta. intros; lia.
Qed.

Lemma scan_begin_Bal m w t : Bal m (lx w) -> Bal (S m) (lx (upd_lex w (scan_begin (w_lex w) t))).
Proof.
  intros (k & (tops & frames & Hb & Hi & Hl & Hf & Hn & Hk & Hd & Hr & Hw) & Ho). unfold lx, fst, snd in *.
  exists k. cbn [fst snd w_lex w_open upd_lex]. split; [|exact Ho].
  exists ((l_next (w_lex w), t) :: tops), frames.
  cbn [scan_begin l_bufs l_inc l_next l_rderr]. rewrite Hb. cbn [app length].
  split; [reflexivity|]. split; [exact Hi|]. split; [lia|].
  split; [constructor; [exact Hn|exact Hf]|]. split; [lia|]. split; [exact Hk|].
  split; [exact Hd|]. split; [discriminate|].
  eapply Forall_impl; [|exact Hw]. cbv beta. intros; lia.
Qed.

Lemma scan_end_Bal m w : Bal (S m) (lx w) -> Bal m (lx (upd_lex w (scan_end (w_lex w)))).
Proof.
  intros (k & (tops & frames & Hb & Hi & Hl & Hf & Hn & Hk & Hd & Hr & Hw) & Ho). unfold lx, fst, snd in *.
  exists k. cbn [fst snd w_lex w_open upd_lex]. split; [|exact Ho].
  destruct tops as [|t tops]; [cbn [length] in Hl; lia|].
  exists tops, frames.
  cbn [scan_end l_bufs l_inc l_next l_rderr]. rewrite Hb. cbn [app tl length] in *.
  split; [reflexivity|]. split; [exact Hi|]. split; [lia|].
  split; [inversion Hf; assumption|]. tauto.
Qed.

End Inv.

(* ================================================================== *)
(* any predicate closed under the four scanner operations is preserved  *)
(* by cfg_setopt / cfg_init_defaults / cfg_parse_internal               *)
(* ================================================================== *)

Lemma init_defaults_O strtod_o w c : init_defaults strtod_o 0 w c = (set_oof w, c).
Proof. reflexivity. Qed.
Lemma parse_internal_O strtod_o w c l p : parse_internal strtod_o 0 w c l p = (set_oof w, c, PERR).
Proof. reflexivity. Qed.

Lemma so_slot_lx c w0 o0 txt w1 o1 idx : so_slot c w0 o0 txt = Some (w1, o1, idx) -> lx w1 = lx w0.
Proof.
  unfold so_slot. cbv zeta.
  repeat match goal with |- context [match ?x with _ => _ end] => destruct x end;
  intro H; try discriminate H; injection H as <- _ _; reflexivity.
Qed.

Lemma so_reset_lx w o : lx (fst (so_reset w o)) = lx w.
Proof.
  unfold so_reset. destruct (oflag o CFGF_RESET); [|reflexivity].
  destruct (free_value o) as [x fr]. unfold fst. apply lx_log_frees.
Qed.

Ltac lx_norm :=
  repeat (rewrite ?lx_add_diags, ?lx_add_cb, ?lx_set_cnt, ?lx_set_nextptr, ?lx_set_crash, ?lx_set_oof, ?lx_log_frees).

(* destruct the innermost scrutinee of a nest of matches *)
Ltac destr_inner x :=
  lazymatch x with
  | context [match ?y with _ => _ end] => destr_inner y
  | _ => destruct x
  end.

Section Generic.
Variable strtod_o : str -> strtod_res.
Variable P : nat -> lexst * nat -> Prop.
Hypothesis P_token : forall m fl w c, 1 <= m -> P m (lx w) -> P m (lx (fst (fst (fst (next_token fl w c))))).
Hypothesis P_include : forall m w c a, P m (lx w) -> P m (lx (fst (fst (lexer_include w c a)))).
Hypothesis P_begin : forall m w t, P m (lx w) -> P (S m) (lx (upd_lex w (scan_begin (w_lex w) t))).
Hypothesis P_end : forall m w, P (S m) (lx w) -> P m (lx (upd_lex w (scan_end (w_lex w)))).

Section Bodies.
Variable so : pw -> cfg -> opt -> option str -> pw * opt * option nat.
Variable pi : pw -> cfg -> nat -> pst -> pw * cfg * prc.
Variable initd : pw -> cfg -> pw * cfg.
Hypothesis Hso : forall m w c o txt, P m (lx w) -> P m (lx (fst (fst (so w c o txt)))).
Hypothesis Hpi : forall m w c l p, 1 <= m -> P m (lx w) -> P m (lx (fst (fst (pi w c l p)))).
Hypothesis Hid : forall m w c, P m (lx w) -> P m (lx (fst (initd w c))).

(* ---- cfg_init_defaults ---- *)
Lemma id_loop_P m todo : forall i w c, P m (lx w) -> P m (lx (fst (id_loop so pi todo i w c))).
Proof.
  induction todo as [|x todo IH]; intros i w c HP; [exact HP|].
  cbn [id_loop]. fold (id_loop so pi).
  destruct (nth_error (c_opts c) i) as [o|]; [|exact HP].
  cbv zeta.
  match goal with |- context [if ?d then add_diags w ?x else w] =>
    assert (HP1 : P m (lx (if d then add_diags w x else w))) by (destruct d; [rewrite lx_add_diags|]; exact HP);
    revert HP1; generalize (if d then add_diags w x else w) end.
  intros w1 HP1.
  destruct (oflag o CFGF_NODEFAULT); [apply IH; exact HP1|].
  destruct (negb (kind_eqb (o_kind o) KSec)).
  - destruct (oflag (o_setf o CFGF_DEFINIT) CFGF_LIST || _).
    + destruct (d_parsed (o_def (o_setf o CFGF_DEFINIT))) as [[|b buf]|].
      * apply IH; exact HP1.
      * match goal with |- context [pi ?a ?b ?c ?d] =>
          assert (H2 : P (S m) (lx (fst (fst (pi a b c d))))) by (apply Hpi; [lia|apply P_begin; exact HP1]);
          destruct (pi a b c d) as [[w2 c2] rc] end.
        unfold fst in H2. apply P_end in H2.
        destruct rc; try (apply IH; exact H2). unfold fst. rewrite lx_set_crash. exact H2.
      * apply IH; exact HP1.
    + apply IH; exact HP1.
  - destruct (negb (oflag o CFGF_MULTI)); [|apply IH; exact HP1].
    assert (H2 := Hso m w1 c o None HP1). destruct (so w1 c o None) as [[w2 o1] res]. apply IH. exact H2.
Qed.

(* ---- cfg_setopt ---- *)
Ltac sleaf :=
  lazymatch goal with
  | |- P _ (lx (fst (fst (so_store _ _ _ _)))) => unfold so_store, fst; lx_norm; assumption
  | |- P _ (lx (fst (fst (_, _, _)))) => unfold fst; lx_norm; assumption
  end.

Ltac sstep :=
  first
  [ sleaf
  | match goal with
    | |- context [match run_parsecb ?w ?k ?o ?t with _ => _ end] =>
        lazymatch goal with |- P ?m _ =>
          let H := fresh "HP" in
          assert (H : P m (lx (fst (run_parsecb w k o t)))) by (rewrite lx_run_parsecb; lx_norm; assumption);
          destruct (run_parsecb w k o t) as [? ?]; unfold fst in H end
    | |- context [match initd ?w ?c with _ => _ end] =>
        lazymatch goal with |- P ?m _ =>
          let H := fresh "HP" in
          assert (H : P m (lx (fst (initd w c)))) by (apply Hid; lx_norm; assumption);
          destruct (initd w c) as [? ?]; unfold fst in H end
    end
  | match goal with
    | |- context [match ?x with _ => _ end] => destr_inner x
    end ].

Lemma so_conv_P m c w1 o1 idx txt :
  P m (lx w1) -> P m (lx (fst (fst (so_conv strtod_o initd c w1 o1 idx txt)))).
Proof.
  intro HP. unfold so_conv. cbv beta zeta. repeat sstep.
Qed.

Lemma so_body_P m w c o txt : P m (lx w) -> P m (lx (fst (fst (so_body strtod_o initd w c o txt)))).
Proof.
  intro HP. unfold so_body.
  pose proof (so_reset_lx w o) as R. destruct (so_reset w o) as [w0 o0]. unfold fst in R.
  destruct (so_slot c w0 o0 txt) as [[[w1 o1] idx]|] eqn:S.
  - apply so_conv_P. rewrite (so_slot_lx _ _ _ _ _ _ _ S), R. exact HP.
  - cbv zeta. match goal with |- context [if ?d then _ else _] => destruct d end;
      unfold fst; lx_norm; rewrite R; exact HP.
Qed.

(* ---- cfg_parse_internal ---- *)
Ltac pleaf :=
  lazymatch goal with
  | |- P _ (lx (fst (fst (pi _ _ _ _)))) => apply Hpi; [assumption | lx_norm; assumption]
  | |- P _ (lx (fst (fst (_, _, _)))) => unfold fst; lx_norm; assumption
  end.

Ltac pstep :=
  first
  [ pleaf
  | match goal with
    | |- context [match handle_deprecated ?w ?c ?r with _ => _ end] =>
        lazymatch goal with |- P ?m _ =>
          let H := fresh "HP" in
          assert (H : P m (lx (fst (handle_deprecated w c r)))) by (rewrite lx_handle_deprecated; lx_norm; assumption);
          destruct (handle_deprecated w c r) as [? ?]; unfold fst in H end
    | |- context [match lexer_include ?w ?c ?a with _ => _ end] =>
        lazymatch goal with |- P ?m _ =>
          let H := fresh "HP" in
          assert (H : P m (lx (fst (fst (lexer_include w c a))))) by (apply P_include; lx_norm; assumption);
          destruct (lexer_include w c a) as [[? ?] ?]; unfold fst in H end
    | |- context [match so ?w ?c ?o ?t with _ => _ end] =>
        lazymatch goal with |- P ?m _ =>
          let H := fresh "HP" in
          assert (H : P m (lx (fst (fst (so w c o t))))) by (apply Hso; lx_norm; assumption);
          destruct (so w c o t) as [[? ?] ?]; unfold fst in H end
    | |- context [match pi ?w ?c ?l ?q with _ => _ end] =>
        lazymatch goal with |- P ?m _ =>
          let H := fresh "HP" in
          assert (H : P m (lx (fst (fst (pi w c l q))))) by (apply Hpi; [assumption | lx_norm; assumption]);
          destruct (pi w c l q) as [[? ?] ?]; unfold fst in H end
    | |- context [match run_validcb ?w ?o with _ => _ end] =>
        lazymatch goal with |- P ?m _ =>
          let H := fresh "HP" in
          assert (H : P m (lx (fst (run_validcb w o)))) by (rewrite lx_run_validcb; lx_norm; assumption);
          destruct (run_validcb w o) as [? ?]; unfold fst in H end
    | |- context [match tick ?w with _ => _ end] =>
        lazymatch goal with |- P ?m _ =>
          let H := fresh "HP" in
          assert (H : P m (lx (fst (tick w)))) by (rewrite lx_tick; lx_norm; assumption);
          destruct (tick w) as [? ?]; unfold fst in H end
    end
  | match goal with
    | |- context [match ?x with _ => _ end] => destr_inner x
    end ].

Lemma pi_body_P m fl w c level p :
  1 <= m -> P m (lx w) -> P m (lx (fst (fst (pi_body so pi fl w c level p)))).
Proof.
  intros Hm HP. unfold pi_body.
  pose proof (P_token m fl w c Hm HP) as NT.
  destruct (next_token fl w c) as [[[w1 c1] t] yylval]. unfold fst in NT.
  cbv beta zeta. clear HP.
  destruct (s_opt p) as [r0|].
  all: repeat pstep.
Qed.

End Bodies.

Theorem closed_all fuel :
  (forall m w c o txt, P m (lx w) -> P m (lx (fst (fst (setopt strtod_o fuel w c o txt))))) /\
  (forall m w c, P m (lx w) -> P m (lx (fst (init_defaults strtod_o fuel w c)))) /\
  (forall m w c l p, 1 <= m -> P m (lx w) -> P m (lx (fst (fst (parse_internal strtod_o fuel w c l p))))).
Proof.
  induction fuel as [|fuel (IHs & IHi & IHp)].
  - split; [|split]; intros.
    + rewrite setopt_O. unfold fst. rewrite lx_set_oof. assumption.
    + rewrite init_defaults_O. unfold fst. rewrite lx_set_oof. assumption.
    + rewrite parse_internal_O. unfold fst. rewrite lx_set_oof. assumption.
  - split; [|split]; intros.
    + rewrite setopt_S. apply so_body_P; [exact IHi|assumption].
    + rewrite init_defaults_S. apply id_loop_P; [exact IHs|exact IHp|assumption].
    + rewrite parse_internal_S. apply pi_body_P; [exact IHs|exact IHp|assumption|assumption].
Qed.

End Generic.

(* ================================================================== *)
(* instances                                                            *)
(* ================================================================== *)

(* (1) the stack discipline *)
Theorem stack_discipline strtod_o base inc0 next0 r0 open0 :
  Forall (fun f => i_buf f < next0) inc0 ->
  forall fuel,
  (forall m w c o txt, Bal base inc0 next0 r0 open0 m (lx w) ->
     Bal base inc0 next0 r0 open0 m (lx (fst (fst (setopt strtod_o fuel w c o txt))))) /\
  (forall m w c, Bal base inc0 next0 r0 open0 m (lx w) ->
     Bal base inc0 next0 r0 open0 m (lx (fst (init_defaults strtod_o fuel w c)))) /\
  (forall m w c l p, 1 <= m -> Bal base inc0 next0 r0 open0 m (lx w) ->
     Bal base inc0 next0 r0 open0 m (lx (fst (fst (parse_internal strtod_o fuel w c l p))))).
Proof.
  intros Hinc0 fuel. apply closed_all.
  - intros. apply next_token_Bal; assumption.
  - intros. apply lexer_include_Bal; assumption.
  - intros. apply scan_begin_Bal; assumption.
  - intros. apply scan_end_Bal; assumption.
Qed.

(* (2) the include depth never exceeds the limit *)
Definition depth_ok (m : nat) (x : lexst * nat) : Prop := length (l_inc (fst x)) <= MAX_INCLUDE_DEPTH.

Lemma lex_step_inc e s p : length (l_inc (ls_st (lex_step e s p))) <= length (l_inc s).
Proof.
  unfold lex_step. destruct (l_bufs s) as [|[id inp] others]; [apply le_n|].
  destruct (munch (active_res (l_sc s)) inp 0 None) as [[i n]|].
  - destruct (nth_error (active_rules (l_sc s)) i) as [r|]; [|apply le_n].
    pose proof (run_action_core e (r_act r) (firstn n inp) (set_bufs s ((id, skipn n inp) :: others)) p) as RC.
    destruct (run_action e (r_act r) (firstn n inp) (set_bufs s ((id, skipn n inp) :: others)) p);
      unfold out_st, core in RC; injection RC as _ RC _ _; cbn [ls_st]; rewrite RC; apply le_n.
  - destruct inp as [|c rest]; [|apply le_n].
    unfold run_eof. destruct (eof_action_of (l_sc s)) as [[]|]; try apply le_n.
    destruct (l_rderr s); [apply le_n|].
    destruct (l_inc s) as [|f rest] eqn:Ei; [cbn [ls_st]; rewrite Ei; apply le_n|].
    destruct (match cur_buf_id s with Some id0 => Nat.eqb id0 (i_buf f) | None => false end);
      cbn [ls_st scan_end set_inc l_inc]; [|rewrite Ei]; cbn [length]; lia.
Qed.

Lemma yylex_inc e fuel : forall s p closed, length (l_inc (r_st (yylex e fuel s p closed))) <= length (l_inc s).
Proof.
  induction fuel as [|fuel IH]; intros s p closed; [apply le_n|].
  cbn [yylex]. pose proof (lex_step_inc e s p) as L.
  destruct (lex_step e s p) as [s2 p2 j|t v s2 p2 d j]; cbn [ls_st] in L.
  - etransitivity; [apply IH|exact L].
  - exact L.
Qed.

Lemma next_token_lex fl w c :
  w_lex (fst (fst (fst (next_token fl w c)))) = r_st (yylex (w_env w) fl (w_lex w) (c_pos c) 0).
Proof.
  unfold next_token. cbv zeta.
  set (r := yylex (w_env w) fl (w_lex w) (c_pos c) 0).
  destruct (r_fuel_out r); destruct (c_err c); reflexivity.
Qed.

Lemma lexer_include_depth w c a :
  length (l_inc (w_lex w)) <= MAX_INCLUDE_DEPTH ->
  length (l_inc (w_lex (fst (fst (lexer_include w c a))))) <= MAX_INCLUDE_DEPTH.
Proof.
  intro H. unfold lexer_include.
  destruct (Nat.leb MAX_INCLUDE_DEPTH (length (l_inc (w_lex w)))) eqn:Ed; [exact H|].
  destruct (match w_path w with [] => _ | _ => _ end); [|exact H].
  destruct (open_input (w_fs w) s) as [content|]; [|exact H].
  apply Nat.leb_gt in Ed. cbn [fst w_lex set_open upd_lex scan_begin set_inc l_inc length]. lia.
Qed.

Theorem depth_bounded strtod_o fuel :
  (forall w c o txt, length (l_inc (w_lex w)) <= MAX_INCLUDE_DEPTH ->
     length (l_inc (w_lex (fst (fst (setopt strtod_o fuel w c o txt))))) <= MAX_INCLUDE_DEPTH) /\
  (forall w c, length (l_inc (w_lex w)) <= MAX_INCLUDE_DEPTH ->
     length (l_inc (w_lex (fst (init_defaults strtod_o fuel w c)))) <= MAX_INCLUDE_DEPTH) /\
  (forall w c l p, length (l_inc (w_lex w)) <= MAX_INCLUDE_DEPTH ->
     length (l_inc (w_lex (fst (fst (parse_internal strtod_o fuel w c l p))))) <= MAX_INCLUDE_DEPTH).
Proof.
  destruct (closed_all strtod_o depth_ok) with (fuel := fuel) as (A & B & C).
  - intros m fl w c _ H. unfold depth_ok in *.
    change (length (l_inc (w_lex w)) <= MAX_INCLUDE_DEPTH) in H.
    change (length (l_inc (w_lex (fst (fst (fst (next_token fl w c)))))) <= MAX_INCLUDE_DEPTH).
    rewrite next_token_lex. etransitivity; [apply yylex_inc|exact H].
  - intros m w c a H. unfold depth_ok in *.
    change (length (l_inc (w_lex w)) <= MAX_INCLUDE_DEPTH) in H.
    change (length (l_inc (w_lex (fst (fst (lexer_include w c a))))) <= MAX_INCLUDE_DEPTH).
    apply lexer_include_depth. exact H.
  - intros m w t H. exact H.
  - intros m w H. exact H.
  - split; [|split]; intros.
    + apply (A 1). assumption.
    + apply (B 1). assumption.
    + apply (C 1); [apply le_n|assumption].
Qed.


(* ================================================================== *)
(* cfg_parse_fp: unwinding and the end of the scan                      *)
(* ================================================================== *)

Lemma LB_k_le base inc0 next0 r0 m l k : LB base inc0 next0 r0 m l k -> k <= MAX_INCLUDE_DEPTH.
Proof.
  intros (tops & frames & Hb & Hi & Hl & Hf & Hn & Hk & Hd & Hr & Hw). subst k.
  destruct Hd as [->|Hd]; [cbn [length]|]; lia.
Qed.

(* cfg_lexer_include_unwind pops exactly the frames (and buffers, and FILEs) above the entry depth *)
Lemma include_unwind_LB base inc0 next0 r0 open0 n : forall w m k,
  LB base inc0 next0 r0 m (w_lex w) k -> w_open w = open0 + k -> k <= n ->
  LB base inc0 next0 r0 m (w_lex (include_unwind n w (length inc0))) 0 /\
  w_open (include_unwind n w (length inc0)) = open0.
Proof.
  induction n as [|n IH]; intros w m k H Ho Hk.
  - assert (k = 0) by lia. subst k. cbn [include_unwind]. split; [exact H|lia].
  - cbn [include_unwind].
    destruct H as (tops & frames & Hb & Hi & Hl & Hf & Hn & Hkk & Hd & Hr & Hw).
    rewrite Hi. destruct frames as [|f fs].
    + cbn [app]. cbn [length] in Hkk. subst k.
      assert (R : forall X : list incframe -> pw,
                match inc0 with
                | _ :: rest => if Nat.ltb (length inc0) (length inc0) then X rest else w
                | [] => w end = w)
        by (intro X; rewrite Nat.ltb_irrefl; destruct inc0; reflexivity).
      rewrite R. split; [|lia].
      exists tops, []. repeat (split; [assumption|]). split; [reflexivity|]. split; [left; reflexivity|].
      split; [exact Hr|constructor].
    + cbn [app length]. rewrite app_length.
      assert (E : Nat.ltb (length inc0) (S (length fs + length inc0)) = true) by (apply Nat.ltb_lt; lia).
      rewrite E. cbn [length] in Hkk, Hl, Hd.
      destruct tops as [|t tops]; [cbn [length] in Hl; lia|]. cbn [length] in Hl.
      apply IH with (k := length fs).
      * exists tops, fs. cbn [w_lex upd_lex set_open scan_end set_inc l_bufs l_inc l_next l_rderr].
        rewrite Hb. cbn [app tl].
        split; [reflexivity|]. split; [reflexivity|]. split; [lia|].
        split; [inversion Hf; assumption|]. split; [exact Hn|]. split; [reflexivity|].
        split; [|split; [exact Hr|inversion Hw; assumption]]. destruct fs; [left; reflexivity|right].
        destruct Hd as [Hd|Hd]; [discriminate|]. cbn [length] in *. lia.
      * cbn [w_open set_open]. lia.
      * lia.
Qed.

(* the scanner is well formed: include frames name buffers that have already been created *)
Definition lex_wf (l : lexst) : Prop := Forall (fun f => i_buf f < l_next l) (l_inc l).

Lemma lex_wf_init : lex_wf lex_init.
Proof. constructor. Qed.

(* cfg_parse_fp hands the scanner back as it found it *)
Theorem parse_fp_gen_restores strtod_o fuel w c content :
  lex_wf (w_lex w) ->
  let w' := fst (fst (parse_fp_gen strtod_o fuel w c content)) in
  l_bufs (w_lex w') = l_bufs (w_lex w) /\
  l_inc (w_lex w') = l_inc (w_lex w) /\
  l_q (w_lex w') = q_empty /\
  w_open w' = w_open w /\
  l_next (w_lex w) <= l_next (w_lex w') /\
  (l_rderr (w_lex w') = true -> content = None).
Proof.
  intros Hwf. unfold parse_fp_gen. cbv zeta.
  set (base := l_bufs (w_lex w)). set (inc0 := l_inc (w_lex w)). set (next0 := l_next (w_lex w)).
  set (r0 := match content with None => true | Some _ => false end).
  set (w1 := upd_lex w (match content with Some t => scan_begin (w_lex w) t | None => scan_begin_failing (w_lex w) end)).
  assert (B1 : Bal base inc0 next0 r0 (w_open w) 1 (lx w1)).
  { exists 0. unfold lx, fst, snd. split; [|subst w1; cbn [w_open upd_lex]; lia].
    exists [(next0, match content with Some t => t | None => [] end)], [].
    subst w1 r0. cbn [w_lex upd_lex]. destruct content;
      cbn [scan_begin scan_begin_failing l_bufs l_inc l_next l_rderr app length fst];
      (split; [reflexivity|]); (split; [reflexivity|]); (split; [reflexivity|]);
      (split; [constructor; [apply le_n|constructor]|]); (split; [subst next0; lia|]);
      (split; [reflexivity|]); (split; [left; reflexivity|]); (split; [|constructor]);
      intro; try discriminate; reflexivity. }
  match goal with |- context [parse_internal strtod_o fuel w1 ?c2 0 ?p0] =>
    destruct (stack_discipline strtod_o base inc0 next0 r0 (w_open w) Hwf fuel) as (_ & _ & SD);
    pose proof (SD 1 w1 c2 0 p0 (le_n 1) B1) as B2; clear SD;
    destruct (parse_internal strtod_o fuel w1 c2 0 p0) as [[w2 c3] rc] end.
  unfold fst in B2. destruct B2 as (k & HLB & Ho). unfold lx, fst, snd in HLB, Ho.
  pose proof (LB_k_le _ _ _ _ _ _ _ HLB) as Hk.
  destruct (include_unwind_LB base inc0 next0 r0 (w_open w) (S MAX_INCLUDE_DEPTH) w2 1 k HLB Ho) as [U1 U2]; [lia|].
  fold inc0. set (w3 := include_unwind (S MAX_INCLUDE_DEPTH) w2 (length inc0)) in *.
  destruct U1 as (tops & frames & Hb & Hi & Hl & Hf & Hn & Hkk & Hd & Hr & Hw).
  destruct frames; [|discriminate]. cbn [length] in Hl.
  destruct tops as [|t [|t2 tops]]; try (cbn [length] in Hl; lia).
  unfold fst. cbn [w_lex w_open upd_lex scan_end l_bufs l_inc l_q l_next l_rderr].
  rewrite Hb, Hi. cbn [app tl].
  repeat split; try reflexivity; try assumption.
  intro E. apply Hr in E. subst r0. destruct content; [discriminate|reflexivity].
Qed.

Lemma parse_fp_gen_wf strtod_o fuel w c content :
  lex_wf (w_lex w) -> lex_wf (w_lex (fst (fst (parse_fp_gen strtod_o fuel w c content)))).
Proof.
  intro H. destruct (parse_fp_gen_restores strtod_o fuel w c content H) as (_ & Hi & _ & _ & Hn & _).
  unfold lex_wf in *. rewrite Hi. eapply Forall_impl; [|exact H]. cbv beta. intros f Hf. lia.
Qed.

(* ---------- a stream that cannot be read: the pending failure is consumed by the first token ---------- *)

Lemma include_unwind_rderr n : forall w d, l_rderr (w_lex (include_unwind n w d)) = l_rderr (w_lex w).
Proof.
  induction n as [|n IH]; intros w d; [reflexivity|].
  cbn [include_unwind]. destruct (l_inc (w_lex w)) as [|f rest]; [reflexivity|].
  destruct (Nat.ltb d (length (f :: rest))); [|reflexivity].
  rewrite IH. reflexivity.
Qed.

Lemma eof_action_INITIAL : eof_action_of INITIAL = Some E_pop_or_eof.
Proof. vm_compute. reflexivity. Qed.

Lemma yylex_unreadable e f l p :
  yylex e (S f) (scan_begin_failing l) p 0 =
  {| r_tok := TErr; r_val := None; r_st := clear_rderr (scan_begin_failing l); r_pos := p;
     r_diags := [mkdiag p "read error"]; r_closed := 0; r_fuel_out := false |}.
Proof.
  cbn [yylex]. unfold lex_step. cbn [scan_begin_failing l_bufs l_sc munch].
  rewrite eof_action_INITIAL. unfold run_eof. cbn [l_rderr]. reflexivity.
Qed.

Lemma parse_internal_unreadable strtod_o f w c :
  l_rderr (w_lex (fst (fst (parse_internal strtod_o (S (S f)) (upd_lex w (scan_begin_failing (w_lex w))) c 0 (pst0 0 None)))))
  = false.
Proof.
  rewrite parse_internal_S. unfold pi_body, next_token. cbv zeta. cbn [w_lex upd_lex w_env].
  rewrite yylex_unreadable. cbn [r_tok r_val r_st r_pos r_diags r_closed r_fuel_out].
  destruct (c_err c); reflexivity.
Qed.

Lemma parse_fp_unreadable_rderr strtod_o f w c :
  l_rderr (w_lex (fst (fst (parse_fp_gen strtod_o (S (S f)) w c None)))) = false.
Proof.
  unfold parse_fp_gen. cbv zeta.
  match goal with |- context [parse_internal strtod_o (S (S f)) ?w1 ?c2 0 ?p0] =>
    pose proof (parse_internal_unreadable strtod_o f w c2) as H;
    destruct (parse_internal strtod_o (S (S f)) w1 c2 0 p0) as [[w2 c3] rc] end.
  unfold fst in *. cbn [w_lex upd_lex scan_end l_rderr]. rewrite include_unwind_rderr. exact H.
Qed.

(* ================================================================== *)
(* C08 / C13 at the level of the entry points                            *)
(* ================================================================== *)

Definition quiescent (l : lexst) : Prop :=
  l_bufs l = [] /\ l_inc l = [] /\ l_q l = q_empty /\ l_rderr l = false.

(* quiescence but for the read-error flag (only the fuel-starved model run of an unreadable stream needs it) *)
Definition quiescent0 (l : lexst) : Prop := l_bufs l = [] /\ l_inc l = [] /\ l_q l = q_empty.

Lemma quiescent_init : quiescent lex_init.
Proof. repeat split. Qed.

Lemma quiescent_wf l : quiescent l -> lex_wf l.
Proof. intros (_ & Hi & _). unfold lex_wf. rewrite Hi. constructor. Qed.

Theorem parse_fp_gen_quiescent0 strtod_o fuel w c content :
  quiescent (w_lex w) ->
  let '(w', c', rc) := parse_fp_gen strtod_o fuel w c content in
  quiescent0 (w_lex w') /\ w_open w' = w_open w.
Proof.
  intros Q. pose proof (parse_fp_gen_restores strtod_o fuel w c content (quiescent_wf _ Q)) as H.
  destruct (parse_fp_gen strtod_o fuel w c content) as [[w' c'] rc]. cbv zeta in H. unfold fst in H.
  destruct Q as (Qb & Qi & _ & _). destruct H as (Hb & Hi & Hq & Ho & _ & _).
  split; [|exact Ho]. split; [congruence|]. split; [congruence|exact Hq].
Qed.

Theorem parse_fp_gen_quiescent strtod_o fuel w c content :
  quiescent (w_lex w) -> (content <> None \/ 2 <= fuel) ->
  let '(w', c', rc) := parse_fp_gen strtod_o fuel w c content in
  quiescent (w_lex w') /\ w_open w' = w_open w.
Proof.
  intros Q Hc. pose proof (parse_fp_gen_restores strtod_o fuel w c content (quiescent_wf _ Q)) as H.
  assert (R : l_rderr (w_lex (fst (fst (parse_fp_gen strtod_o fuel w c content)))) = false).
  { destruct content as [t|].
    - destruct H as (_ & _ & _ & _ & _ & Hr).
      destruct (l_rderr _); [specialize (Hr eq_refl); discriminate|reflexivity].
    - destruct Hc as [Hc|Hc]; [congruence|].
      destruct fuel as [|[|f]]; try lia. apply parse_fp_unreadable_rderr. }
  destruct (parse_fp_gen strtod_o fuel w c content) as [[w' c'] rc]. cbv zeta in H. unfold fst in H, R.
  destruct Q as (Qb & Qi & _ & _). destruct H as (Hb & Hi & Hq & Ho & _ & _).
  split; [|exact Ho]. split; [congruence|]. split; [congruence|]. split; [exact Hq|exact R].
Qed.

Theorem parse_fp_quiescent strtod_o fuel w c content :
  quiescent (w_lex w) ->
  let '(w', c', rc) := parse_fp strtod_o fuel w c content in
  quiescent (w_lex w') /\ w_open w' = w_open w.
Proof.
  intro Q. unfold parse_fp. apply parse_fp_gen_quiescent; [exact Q|left; discriminate].
Qed.

Theorem parse_buf_quiescent strtod_o fuel w c buf :
  quiescent (w_lex w) ->
  let '(w', c', rc) := parse_buf strtod_o fuel w c buf in
  quiescent (w_lex w') /\ w_open w' = w_open w.
Proof.
  intro Q. unfold parse_buf. destruct buf as [b|]; [|split; [exact Q|reflexivity]].
  apply parse_fp_quiescent. exact Q.
Qed.

Theorem parse_file_quiescent strtod_o fuel w c filename :
  quiescent (w_lex w) ->
  let '(w', c', rc) := parse_file strtod_o fuel w c filename in
  quiescent (w_lex w') /\ w_open w' = w_open w.
Proof.
  intro Q. unfold parse_file.
  destruct (match w_path w with [] => _ | _ => _ end) as [f|]; [|split; [exact Q|reflexivity]].
  destruct (open_input (w_fs w) f) as [content|]; [|split; [exact Q|reflexivity]].
  apply parse_fp_quiescent. exact Q.
Qed.

(* C13: the include stack is what it was before the parse, whatever the outcome *)
Theorem include_stack_restored strtod_o fuel w c content :
  lex_wf (w_lex w) ->
  let '(w', c', rc) := parse_fp_gen strtod_o fuel w c content in
  l_inc (w_lex w') = l_inc (w_lex w) /\ l_bufs (w_lex w') = l_bufs (w_lex w) /\
  w_open w' = w_open w /\ lex_wf (w_lex w').
Proof.
  intro H. pose proof (parse_fp_gen_restores strtod_o fuel w c content H) as R.
  pose proof (parse_fp_gen_wf strtod_o fuel w c content H) as W.
  destruct (parse_fp_gen strtod_o fuel w c content) as [[w' c'] rc]. cbv zeta in R. unfold fst in R, W.
  tauto.
Qed.

Theorem include_capacity_restored strtod_o fuel w c content d :
  lex_wf (w_lex w) -> length (l_inc (w_lex w)) = d ->
  let '(w', c', rc) := parse_fp_gen strtod_o fuel w c content in
  length (l_inc (w_lex w')) = d.
Proof.
  intros H Hd. pose proof (include_stack_restored strtod_o fuel w c content H) as R.
  destruct (parse_fp_gen strtod_o fuel w c content) as [[w' c'] rc]. destruct R as (R & _). congruence.
Qed.

Lemma include_unwind_depth n : forall w d,
  length (l_inc (w_lex (include_unwind n w d))) <= length (l_inc (w_lex w)).
Proof.
  induction n as [|n IH]; intros w d; [apply le_n|].
  cbn [include_unwind]. destruct (l_inc (w_lex w)) as [|f rest] eqn:E; [rewrite E; apply le_n|].
  destruct (Nat.ltb d (length (f :: rest))); [|rewrite E; apply le_n].
  etransitivity; [apply IH|]. cbn [w_lex upd_lex set_open scan_end set_inc l_inc length]. lia.
Qed.

(* the depth limit holds at every point a parse can reach, and after it *)
Theorem parse_fp_gen_depth strtod_o fuel w c content :
  length (l_inc (w_lex w)) <= MAX_INCLUDE_DEPTH ->
  length (l_inc (w_lex (fst (fst (parse_fp_gen strtod_o fuel w c content))))) <= MAX_INCLUDE_DEPTH.
Proof.
  intro H. unfold parse_fp_gen. cbv zeta.
  match goal with |- context [parse_internal strtod_o fuel ?w1 ?c2 0 ?p0] =>
    destruct (depth_bounded strtod_o fuel) as (_ & _ & D);
    assert (H1 : length (l_inc (w_lex w1)) <= MAX_INCLUDE_DEPTH) by (destruct content; exact H);
    pose proof (D w1 c2 0 p0 H1) as H2; clear D;
    destruct (parse_internal strtod_o fuel w1 c2 0 p0) as [[w2 c3] rc] end.
  unfold fst in *. cbn [w_lex upd_lex scan_end l_inc].
  etransitivity; [apply include_unwind_depth|exact H2].
Qed.

(* ---------- C08: the start condition left by an earlier parse is irrelevant ---------- *)

Definition lex_agree (a b : lexst) : Prop :=
  l_bufs a = l_bufs b /\ l_next a = l_next b /\ l_q a = l_q b /\ l_inc a = l_inc b /\
  l_echo a = l_echo b /\ l_rderr a = l_rderr b.

(* the two worlds are equal except possibly in the scanner's start condition *)
Definition world_agree (a b : pw) : Prop :=
  lex_agree (w_lex a) (w_lex b) /\
  w_env a = w_env b /\ w_fs a = w_fs b /\ w_pw a = w_pw b /\ w_path a = w_path b /\ w_cbs a = w_cbs b /\
  w_cnt a = w_cnt b /\ w_failat a = w_failat b /\ w_nextptr a = w_nextptr b /\ w_diags a = w_diags b /\
  w_open a = w_open b /\ w_crash a = w_crash b /\ w_oof a = w_oof b.

Lemma world_agree_refl w : world_agree w w.
Proof. repeat split. Qed.

Lemma scan_begin_agree a b t : lex_agree a b -> scan_begin a t = scan_begin b t.
Proof.
  destruct a as [a1 a2 a3 a4 a5 a6 a7], b as [b1 b2 b3 b4 b5 b6 b7]. unfold lex_agree, scan_begin. cbn [l_bufs l_next l_q l_inc l_echo l_rderr].
  intros (-> & -> & -> & -> & -> & _). reflexivity.
Qed.

Lemma scan_begin_failing_agree a b : lex_agree a b -> scan_begin_failing a = scan_begin_failing b.
Proof.
  destruct a as [a1 a2 a3 a4 a5 a6 a7], b as [b1 b2 b3 b4 b5 b6 b7]. unfold lex_agree, scan_begin_failing. cbn [l_bufs l_next l_q l_inc l_echo l_rderr].
  intros (-> & -> & -> & -> & -> & _). reflexivity.
Qed.

Lemma upd_lex_agree a b l : world_agree a b -> upd_lex a l = upd_lex b l.
Proof.
  destruct a as [a1 a2 a3 a4 a5 a6 a7 a8 a9 a10 a11 a12 a13], b as [b1 b2 b3 b4 b5 b6 b7 b8 b9 b10 b11 b12 b13].
  unfold world_agree, upd_lex.
  cbn [w_lex w_env w_fs w_pw w_path w_cbs w_cnt w_failat w_nextptr w_diags w_open w_crash w_oof].
  intros (_ & -> & -> & -> & -> & -> & -> & -> & -> & -> & -> & -> & ->). reflexivity.
Qed.

Theorem parse_fp_gen_history_free strtod_o fuel w1 w2 c content :
  world_agree w1 w2 ->
  parse_fp_gen strtod_o fuel w1 c content = parse_fp_gen strtod_o fuel w2 c content.
Proof.
  intro H. unfold parse_fp_gen.
  assert (E1 : l_inc (w_lex w1) = l_inc (w_lex w2)) by (destruct H as ((_ & _ & _ & E & _) & _); exact E).
  assert (E2 : upd_lex w1 (match content with Some t => scan_begin (w_lex w1) t | None => scan_begin_failing (w_lex w1) end)
             = upd_lex w2 (match content with Some t => scan_begin (w_lex w2) t | None => scan_begin_failing (w_lex w2) end)).
  { rewrite (upd_lex_agree w1 w2 _ H). destruct H as (HL & _). destruct content.
    - rewrite (scan_begin_agree _ _ s HL). reflexivity.
    - rewrite (scan_begin_failing_agree _ _ HL). reflexivity. }
  rewrite E1, E2. reflexivity.
Qed.

Lemma parse_buf_history_free strtod_o fuel w1 w2 c buf :
  world_agree w1 w2 ->
  let '(w1', c1', rc1) := parse_buf strtod_o fuel w1 c buf in
  let '(w2', c2', rc2) := parse_buf strtod_o fuel w2 c buf in
  c1' = c2' /\ rc1 = rc2 /\ world_agree w1' w2'.
Proof.
  intro H. unfold parse_buf. destruct buf as [b|]; [|repeat split; apply H].
  unfold parse_fp. rewrite (parse_fp_gen_history_free strtod_o fuel w1 w2 _ _ H).
  destruct (parse_fp_gen strtod_o fuel w2 _ _) as [[w' c'] rc]. repeat split.
Qed.

(* ---------- C08: cfg_free of the root resets the scanner ---------- *)
Theorem cfg_free_resets w c :
  c_name c = M "root" ->
  l_sc (w_lex (cfg_free w c)) = INITIAL /\ l_bufs (w_lex (cfg_free w c)) = [].
Proof.
  intro H. unfold cfg_free. rewrite H.
  replace (str_eqb (M "root") (M "root")) with true by (vm_compute; reflexivity).
  split; reflexivity.
Qed.

(* the form asked for: equal contexts and return codes, worlds that again agree up to the start condition *)
Corollary parse_fp_gen_history_free' strtod_o fuel w1 w2 c content :
  world_agree w1 w2 ->
  let '(w1', c1', rc1) := parse_fp_gen strtod_o fuel w1 c content in
  let '(w2', c2', rc2) := parse_fp_gen strtod_o fuel w2 c content in
  c1' = c2' /\ rc1 = rc2 /\ world_agree w1' w2'.
Proof.
  intro H. rewrite (parse_fp_gen_history_free strtod_o fuel w1 w2 c content H).
  destruct (parse_fp_gen strtod_o fuel w2 c content) as [[w' c'] rc]. repeat split.
Qed.

(* ================================================================== *)
(* well-formedness is an invariant of every entry point                  *)
(* ================================================================== *)

Lemma Bal_wf base inc0 next0 r0 open0 m l op :
  Forall (fun f => i_buf f < next0) inc0 -> Bal base inc0 next0 r0 open0 m (l, op) -> lex_wf l.
Proof.
  intros H0 (k & (tops & frames & Hb & Hi & Hl & Hf & Hn & Hk & Hd & Hr & Hw) & _). unfold fst in *.
  unfold lex_wf. rewrite Hi. apply Forall_app. split; [exact Hw|].
  eapply Forall_impl; [|exact H0]. cbv beta. intros; lia.
Qed.

Lemma Bal_start l op : Bal (l_bufs l) (l_inc l) (l_next l) true op 0 (l, op).
Proof.
  exists 0. unfold fst, snd. split; [|lia]. exists [], [].
  split; [reflexivity|]. split; [reflexivity|]. split; [reflexivity|]. split; [constructor|].
  split; [apply le_n|]. split; [reflexivity|]. split; [left; reflexivity|]. split; [reflexivity|constructor].
Qed.

Theorem init_defaults_wf strtod_o fuel w c :
  lex_wf (w_lex w) -> lex_wf (w_lex (fst (init_defaults strtod_o fuel w c))).
Proof.
  intro H.
  destruct (stack_discipline strtod_o (l_bufs (w_lex w)) (l_inc (w_lex w)) (l_next (w_lex w)) true (w_open w) H fuel)
    as (_ & SD & _).
  pose proof (SD 0 w c (Bal_start (w_lex w) (w_open w))) as B.
  eapply Bal_wf; [exact H|exact B].
Qed.

Theorem cfg_init_wf strtod_o fuel w decls flags :
  lex_wf (w_lex w) -> lex_wf (w_lex (fst (cfg_init strtod_o fuel w decls flags))).
Proof.
  intro H. unfold cfg_init.
  match goal with |- context [init_defaults strtod_o fuel w ?c] =>
    pose proof (init_defaults_wf strtod_o fuel w c H) as H1; destruct (init_defaults strtod_o fuel w c) as [w1 c1] end.
  exact H1.
Qed.

Theorem cfg_free_wf w c : lex_wf (w_lex w) -> lex_wf (w_lex (cfg_free w c)).
Proof.
  intro H. unfold cfg_free.
  assert (E : w_lex (log_frees w (frees_c c)) = w_lex w).
  { pose proof (lx_log_frees (frees_c c) w) as L. unfold lx in L. congruence. }
  destruct (str_eqb (c_name c) (M "root")); [|rewrite E; exact H].
  unfold lex_wf. cbn [w_lex upd_lex lex_destroy l_inc l_next]. rewrite E. exact H.
Qed.

Theorem parse_buf_wf strtod_o fuel w c buf :
  lex_wf (w_lex w) -> lex_wf (w_lex (fst (fst (parse_buf strtod_o fuel w c buf)))).
Proof.
  intro H. unfold parse_buf. destruct buf; [|exact H]. apply parse_fp_gen_wf. exact H.
Qed.

Theorem parse_file_wf strtod_o fuel w c fn :
  lex_wf (w_lex w) -> lex_wf (w_lex (fst (fst (parse_file strtod_o fuel w c fn)))).
Proof.
  intro H. unfold parse_file.
  destruct (match w_path w with [] => _ | _ => _ end) as [f|]; [|exact H].
  destruct (open_input (w_fs w) f) as [content|]; [|exact H].
  apply parse_fp_gen_wf. exact H.
Qed.
