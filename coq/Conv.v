(* Conv.v — text -> number / boolean conversions as cfg_setopt() performs them:
   a model of glibc strtol (white space, sign, base 0/2/8/16 prefix rules,
   clamping with ERANGE, end pointer), the radix guess, cfg_parse_boolean, and
   strtod through an oracle. *)
From Coq Require Import List Arith NArith ZArith Bool Lia.
From Coq.Strings Require Import Byte.
From Coq Require String.
Import String.StringSyntax.
From LC Require Import Bytes.
Import ListNotations.
Local Open Scope string_scope.
Local Open Scope list_scope.
Local Open Scope Z_scope.

Definition LONG_MAX : Z := 9223372036854775807.
Definition LONG_MIN : Z := -9223372036854775808.
Definition in_long (z : Z) : bool := (LONG_MIN <=? z) && (z <=? LONG_MAX).

Record strtol_res := { sl_val : Z; sl_rest : str (* *endptr onwards *); sl_erange : bool; sl_noconv : bool (* endptr == nptr *) }.

(* digit of c in the given base, if any *)
Definition digit_in (base : N) (c : byte) : option N :=
  match digit_val c with
  | Some d => if (d <? base)%N then Some d else None
  | None => None
  end.

(* consume digits; returns magnitude and rest, and the number of digits read *)
Fixpoint digits (base : N) (s : str) (acc : N) (n : nat) : N * str * nat :=
  match s with
  | c :: r => match digit_in base c with
              | Some d => digits base r (acc * base + d)%N (S n)
              | None => (acc, s, n)
              end
  | [] => (acc, s, n)
  end.

Definition is_x (c : byte) := Byte.eqb c x78 || Byte.eqb c x58.

(* strtol(s, &endptr, base) for base in {0, 2, 8, 16, 10} *)
Definition strtol (s : str) (base : N) : strtol_res :=
  let s1 := (fix skip (t : str) := match t with c :: r => if is_space c then skip r else t | [] => [] end) s in
  let '(neg, s2) := match s1 with
                    | c :: r => if Byte.eqb c x2d then (true, r) else if Byte.eqb c x2b then (false, r) else (false, s1)
                    | [] => (false, s1)
                    end in
  (* prefix handling *)
  let '(b, s3) :=
    match s2 with
    | c0 :: c1 :: c2 :: r =>
        if Byte.eqb c0 x30 && is_x c1 && (base =? 0)%N || Byte.eqb c0 x30 && is_x c1 && (base =? 16)%N then
          (* "0x" only counts when a hex digit follows *)
          match digit_in 16 c2 with
          | Some _ => (16%N, c2 :: r)
          | None => (if (base =? 0)%N then 8%N else base, s2)
          end
        else if (base =? 0)%N then (if Byte.eqb c0 x30 then 8%N else 10%N, s2) else (base, s2)
    | c0 :: _ => if (base =? 0)%N then (if Byte.eqb c0 x30 then 8%N else 10%N, s2) else (base, s2)
    | [] => (if (base =? 0)%N then 10%N else base, s2)
    end in
  let '(mag, rest, n) := digits b s3 0%N 0%nat in
  match n with
  | O => {| sl_val := 0; sl_rest := s; sl_erange := false; sl_noconv := true |}     (* no conversion: endptr = nptr *)
  | _ =>
    let z := if neg then - Z.of_N mag else Z.of_N mag in
    if in_long z then {| sl_val := z; sl_rest := rest; sl_erange := false; sl_noconv := false |}
    else {| sl_val := if neg then LONG_MIN else LONG_MAX; sl_rest := rest; sl_erange := true; sl_noconv := false |}
  end.

(* ---- cfg_setopt(), case CFGT_INT without a parse callback ---- *)

Inductive conv_res (A : Type) := COk (a : A) | CInvalid | CRange.
Arguments COk {A}. Arguments CInvalid {A}. Arguments CRange {A}.

(* cfg_is_digits(s, radix): digits of the radix only, at least one *)
Definition is_digits (s : str) (radix : N) : bool :=
  match s with
  | [] => false
  | _ => forallb (fun c => match digit_val c with Some d => (d <? radix)%N | None => false end) s
  end.

Definition conv_int (value : str) : conv_res Z :=
  let '(radix, int_str) :=
    match value with
    | c0 :: rest =>
        if Byte.eqb c0 x30 then
          match rest with
          | c1 :: rest' =>
              if Byte.eqb c1 x62 then (2%N, rest')
              else if Byte.eqb c1 x78 then (16%N, rest')
              else (8%N, value)
          | [] => (8%N, value)
          end
        else (0%N, value)
    | [] => (0%N, value)
    end in
  let r := strtol int_str radix in
  if (if (radix =? 0)%N then sl_noconv r else negb (is_digits int_str radix)) then CInvalid
  else
  match sl_rest r with
  | _ :: _ => CInvalid
  | [] => if sl_erange r then CRange else COk (sl_val r)
  end.

(* ---- cfg_parse_boolean ---- *)
Definition conv_bool (value : str) : option bool :=
  let is w := str_caseeqb value (bs_of_string w) in
  if is "true" || is "on" || is "yes" then Some true
  else if is "false" || is "off" || is "no" then Some false
  else None.

(* ---- floats: strtod is an oracle bound to libc by the driver ---- *)
Record strtod_res := { sd_bits : N; sd_consumed : nat; sd_erange : bool }.

Definition conv_float (strtod : str -> strtod_res) (value : str) : conv_res N :=
  let r := strtod value in
  if Nat.eqb (sd_consumed r) 0 || Nat.ltb (sd_consumed r) (length value) then CInvalid
  else if sd_erange r then CRange else COk (sd_bits r).

(* ---- printing integers the way printf("%ld") does ---- *)
Fixpoint pos_digits (fuel : nat) (n : N) (acc : str) : str :=
  match fuel with
  | O => acc
  | S f => let d := Nb (48 + n mod 10)%N in
           if (n <? 10)%N then d :: acc else pos_digits f (n / 10)%N (d :: acc)
  end.
Definition print_N (n : N) : str := pos_digits (S (N.to_nat (N.log2 n))) n [].
Definition print_Z (z : Z) : str :=
  match z with
  | Zneg p => x2d :: print_N (Npos p)
  | _ => print_N (Z.to_N z)
  end.
