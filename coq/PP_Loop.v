(* PP_Loop.v — C01, LAYER M: the item loop of cfg_parse_internal against Grammar.meaning. *)
From Coq Require String.
From Coq Require Import List Arith NArith ZArith Bool Lia.
From Coq.Strings Require Import Byte.
From LC Require Import Bytes Consts Conv Flex LexAct Lexer LexLemmas LexAll Files Store Parser Grammar
  PP_Base PP_Step PP_Tok PP_Setopt PP_Inv PP_Machine PP_Default PP_Inst PP_Spec PP_InvLemmas PP_GetoptObs PP_SpecLemmas.
Import ListNotations.
Import String.StringSyntax.
Local Open Scope string_scope.
Local Open Scope list_scope.
Local Open Scope nat_scope.

Ltac dpos y := destruct y as [|y]; [reflexivity|]; do 8 (try (destruct y as [y|y|]; try reflexivity)).


Lemma c_title_put c r o : c_title (put_opt c r o) = c_title c.
Proof. unfold put_opt, upd_opt. apply c_title_upd_sec. intros s; destruct s; reflexivity. Qed.

Lemma c_title_depc c ro : c_title (depc c ro) = c_title c.
Proof. unfold depc. destruct ro as [r|]; [|reflexivity]. destruct (get_opt c r) as [o|]; [|reflexivity]. destruct (dropped o); [apply c_title_put|reflexivity]. Qed.

Lemma sec_prep_ceq c1 sec : ceq (sec_prep c1 sec) sec.
Proof.
  unfold sec_prep.
  assert (A : ceq (set_err (set_line sec (c_line c1)) (c_err c1)) sec) by (eapply ceq_trans; [apply ceq_set_err|apply ceq_set_line]).
  destruct (c_file c1); [|exact A].
  destruct (c_file (set_err (set_line sec (c_line c1)) (c_err c1))).
  - destruct (str_eqb _ _); [exact A|]. eapply ceq_trans; [apply ceq_set_file|exact A].
  - eapply ceq_trans; [apply ceq_set_file|exact A].
Qed.

Section WithOracles.
Variable strtod_o : str -> strtod_res.
Notation PI := (parse_internal strtod_o).
Notation SO := (setopt strtod_o).

(* the check on scanned list default texts, the environment of the run, and a bound on the cost of one default text *)
Variable sc : opt -> bool.
Variable env : envt.
Variable DC : nat.
Hypothesis SCOK : forall d, sc d = true -> dtext_spec strtod_o env DC d.

Definition p0ok (p : pst) : Prop := s_state p = 0 /\ s_title p = None /\ s_forced p = false.

(* what a run of the machine must deliver, given what the SPEC says *)
Definition loop_res e X k fuel (cm0 : cfg) level (ts0 : list ltok) (res : pw * cfg * prc) (spec : option (cfg * list gtok)) : Prop :=
  let '(w', c', rc) := res in
  w_oof w' = false /\
  match spec with
  | Some (cs', rest) => rc = PEOF /\ obs_c c' = obs_c cs' /\ invC sc k c' = true /\ c_title c' = c_title cm0 /\
      exists L' ts', wst w' e L' /\
        (level <> 0 -> yieldsc e L' ts' /\ gtoks ts' = rest /\ measure L' + length ts' + S X < fuel /\ length ts' <= length ts0)
  | None => rc = PERR
  end.

Lemma loop_res_mono e X k fuel cm0 level ts0 fuel' cm1 ts1 res spec :
  loop_res e X k fuel' cm1 level ts1 res spec -> fuel' <= fuel -> length ts1 <= length ts0 -> c_title cm1 = c_title cm0 ->
  loop_res e X k fuel cm0 level ts0 res spec.
Proof.
  unfold loop_res. destruct res as [[w' c'] rc]. intros (O & H) Hf Hl Ht. split; [exact O|].
  destruct spec as [[cs' rest]|]; [|exact H]. destruct H as (A & B & C & D & L' & ts' & W & Y).
  spl; auto; [congruence|]. exists L', ts'. split; [exact W|]. intros NZ. destruct (Y NZ) as (Y1 & Y2 & Y3 & Y4). spl; auto; lia.
Qed.

Lemma loop_res_err e X k fuel cm0 level ts0 w' c' : w_oof w' = false -> loop_res e X k fuel cm0 level ts0 (w', c', PERR) None.
Proof. intros H. unfold loop_res. auto. Qed.

Definition loop_hyp e X k fuel w L cm cs (level : nat) p ts F : Prop :=
  wst w e L /\ yieldsc e L ts /\ p0ok p /\ invC sc k cm = true /\ obs_c (depc cm (s_opt p)) = obs_c cs /\
  measure L + length ts + S X < fuel /\ length (gtoks ts) < F /\ 2 * k + 2 + DC <= X /\ fst e = env.

Definition loop_stmt e X (ts : list ltok) : Prop :=
  forall k F L w cm cs level p fuel, loop_hyp e X k fuel w L cm cs level p ts F ->
    loop_res e X k fuel cm level ts (PI fuel w cm level p) (meaning strtod_o F cs (Nat.eqb level 0) (gtoks ts)).

(* ---------- state 0 ---------- *)
Lemma st0_punct f level p w c x v :
  st0 strtod_o f level p w c (TPunct x) v =
  let '(w, c) := dep_w w c p in
  if (x =? 125)%N then (if Nat.eqb level 0 then errd w c "unexpected closing brace" else (w, c, PEOF))
  else errd w c "unexpected token '%s'".
Proof. unfold st0. destruct (dep_w w c p) as [w2 c2]. dpos x. Qed.

(* end of input *)
Lemma loop_eof e X : loop_stmt e X [].
Proof.
  intros k F L w cm cs level p fuel (Hw & Hy & (P1 & P2 & P3) & HI & HO & Hf & HF & HX & He).
  apply yields_length_inv in Hy. destruct Hy as (s' & Ht). cbn [gtoks flat_map length] in *.
  destruct fuel as [|f]; [lia|].
  destruct (pi_step strtod_o f w cm e L TEof None s' Hw Ht ltac:(lia)) as (w1 & pos & Hw1 & E). rewrite E.
  unfold pi_body. rewrite P1, P3. cbn [Nat.eqb negb andb].
  destruct F as [|F']; [lia|]. rewrite meaning_unfold. cbn [mbody].
  destruct level as [|l]; cbn [Nat.eqb negb andb].
  - destruct (dep_w_eq w1 (set_pos cm pos) p) as (w2 & -> & WK).
    unfold loop_res. split; [eapply wst_oof, WK, Hw1|]. spl; auto.
    + rewrite <- HO. apply ceq_obs, depc_ceq, ceq_set_pos.
    + apply inv_depc. rewrite (ceq_invC sc k _ cm (ceq_set_pos cm pos)). exact HI.
    + rewrite c_title_depc. apply ceq_title, ceq_set_pos.
    + exists s', []. split; [apply WK, Hw1|]. intros NZ; congruence.
  - apply loop_res_err. eapply wst_oof, wst_add_diags, Hw1.
Qed.


Lemma pz_p0ok p p' : s_title p = None -> s_forced p = false -> pz p p' -> p0ok p'.
Proof. intros A B (P1 & P2 & P3 & P4). unfold p0ok. spl; congruence. Qed.

Lemma lopt_of_inv k o : invO sc k o = true -> scalar_kind (o_kind o) = true -> lopt o.
Proof. intros H K. destruct (base_ok_parts _ (invO_base _ _ _ H)) as (_ & A & B & _). unfold lopt. auto. Qed.

(* ---------- a scalar / list item, the name having been read ---------- *)
Lemma item_value e X ts0 (REC : forall ts', length ts' < length ts0 -> loop_stmt e X ts') :
  forall k F' L1 w2 c2 cs cm0 level p ts1 f fuel r om os,
  wst w2 e L1 -> yieldsc e L1 ts1 -> p0ok p -> invC sc k c2 = true -> obs_c c2 = obs_c cs ->
  get_opt c2 r = Some om -> get_opt cs r = Some os -> obs_o om = obs_o os -> scalar_kind (o_kind om) = true ->
  measure L1 + length ts1 + S X < f -> length (gtoks ts1) < F' -> 2 * k + 2 + DC <= X -> fst e = env ->
  length ts1 < length ts0 -> f <= fuel -> c_title c2 = c_title cm0 ->
  loop_res e X k fuel cm0 level ts0 (PI f w2 c2 level (st_state (st_opt p (Some r)) 1))
    (match val_res strtod_o (o_kind os) (oflag os CFGF_LIST) (gtoks ts1) with
     | Some (app, vs, r2) =>
         meaning strtod_o F' (put_opt cs r (after_item (set_vals os ((if app then o_vals os else []) ++ vs)))) (Nat.eqb level 0) r2
     | None => None
     end).
Proof.
  intros k F' L1 w2 c2 cs cm0 level p ts1 f fuel r om os Hw Hy (P1 & P2 & P3) HI HO Gm Gs OO KS Hf HF HX He Hl Hfu Ht.
  pose proof OO as OO'. apply obs_o_split in OO' as [SH VV].
  destruct (inv_get' _ _ _ _ _ HI Gm) as (LS & IO).
  pose proof (lopt_of_inv _ _ IO KS) as LO.
  pose proof (value_sim strtod_o e X r ts1 L1 w2 c2 level (st_state (st_opt p (Some r)) 1) f om Hw Hy eq_refl eq_refl Gm LO Hf) as VS.
  rewrite (shape_kind _ _ SH), (shape_oflag om os CFGF_LIST SH eq_refl) in VS.
  destruct (val_res strtod_o (o_kind os) (oflag os CFGF_LIST) (gtoks ts1)) as [[[app vs] r2]|] eqn:VR.
  - destruct VS as (f' & w' & c' & o' & L' & ts' & p' & E & C & S' & V' & G' & PZ & W' & Y' & GT & F1 & Len & FL).
    rewrite E. subst r2.
    apply (loop_res_mono e X k fuel cm0 level ts0 f' c' ts'); [|lia|lia|].
    + apply (REC ts' ltac:(lia) k F' L' w' c' _ level p' f').
      assert (PL : forallb plainv (o_vals o') = true).
      { rewrite V'. rewrite forallb_app. rewrite (val_res_plain _ _ _ _ _ _ _ VR), andb_true_r.
        destruct app; [|reflexivity]. apply (invO_plain _ _ _ IO). apply scalar_is_sec, KS. }
      unfold loop_hyp. spl; auto.
      * apply (pz_p0ok (st_state (st_opt p (Some r)) 1) p'); [exact P2|exact P3|exact PZ].
      * rewrite (ceq_invC sc k _ _ C). eapply inv_put'; eauto. apply invO_nonsec; auto.
        -- rewrite (base_ok_shape o' om S'); [eapply invO_base; eauto|]. right. rewrite (shape_kind _ _ S'). apply scalar_is_sec, KS.
        -- rewrite (shape_kind _ _ S'). apply scalar_is_sec, KS.
      * destruct PZ as (_ & -> & _). cbn [s_opt st_state st_opt].
        rewrite (obs_depc c' _ o' G'), (ceq_obs _ _ (ceq_put _ _ r (after_item o') C)), put_put.
        apply obs_put_cong; [exact HO|]. apply after_item_obs. apply obs_o_split.
        rewrite shape_set_vals, o_vals_set_vals, V', !map_app. split; [congruence|]. f_equal. destruct app; [exact VV|reflexivity].
      * pose proof (psfx_len _ _ (val_res_psfx _ _ _ _ _ _ _ VR)). lia.
    + rewrite (ceq_title _ _ C), c_title_put. exact Ht.
  - destruct VS as (w' & c' & E & O). rewrite E. apply loop_res_err, O.
Qed.


(* ---------- an unknown item under CFGF_IGNORE_UNKNOWN ---------- *)
Lemma item_skip e X ts0 (REC : forall ts', length ts' < length ts0 -> loop_stmt e X ts') :
  forall k F' L1 w2 c2 cs cm0 level p ts1 f fuel,
  wst w2 e L1 -> yieldsc e L1 ts1 -> p0ok p -> invC sc k c2 = true -> obs_c c2 = obs_c cs ->
  measure L1 + length ts1 + S X < f -> length (gtoks ts1) < F' -> 2 * k + 2 + DC <= X -> fst e = env ->
  length ts1 < length ts0 -> f <= fuel -> c_title c2 = c_title cm0 ->
  loop_res e X k fuel cm0 level ts0 (PI f w2 c2 level (st_state (st_opt p None) 10))
    (match skip_unknown (gtoks ts1) with Some r' => meaning strtod_o F' cs (Nat.eqb level 0) r' | None => None end).
Proof.
  intros k F' L1 w2 c2 cs cm0 level p ts1 f fuel Hw Hy (P1 & P2 & P3) HI HO Hf HF HX He Hl Hfu Ht.
  pose proof (skip_sim strtod_o e X ts1 L1 w2 c2 level (st_state (st_opt p None) 10) f Hw Hy eq_refl Hf) as SK.
  unfold skip_ok in SK. destruct (skip_unknown (gtoks ts1)) as [r'|] eqn:SU.
  - destruct SK as (f' & w' & c' & L' & ts' & p' & E & C & PZ & W' & Y' & GT & F1 & Len & FL).
    rewrite E. subst r'.
    apply (loop_res_mono e X k fuel cm0 level ts0 f' c' ts'); [|lia|lia|].
    + apply (REC ts' ltac:(lia) k F' L' w' c' _ level p' f'). unfold loop_hyp. spl; auto.
      * apply (pz_p0ok (st_state (st_opt p None) 10) p'); [exact P2|exact P3|exact PZ].
      * rewrite (ceq_invC sc k _ _ C). exact HI.
      * destruct PZ as (_ & -> & _). cbn [s_opt st_state st_opt depc]. rewrite (ceq_obs _ _ C). exact HO.
      * pose proof (psfx_len _ _ (skip_unknown_psfx _ _ SU)). lia.
    + rewrite (ceq_title _ _ C). exact Ht.
  - destruct SK as (w' & c' & E & O). rewrite E. apply loop_res_err, O.
Qed.

(* ---------- a free-form key under CFGF_KEYSTRVAL ---------- *)
Lemma item_kv e X ts0 (REC : forall ts', length ts' < length ts0 -> loop_stmt e X ts') :
  forall k F' L1 w2 c2 cs cm0 level p ts1 f fuel name,
  wst w2 e L1 -> yieldsc e L1 ts1 -> p0ok p -> invC sc k c2 = true -> obs_c c2 = obs_c cs ->
  name <> [] -> measure L1 + length ts1 + S X < f -> length (gtoks ts1) < F' -> 2 * k + 2 + DC <= X -> fst e = env ->
  length ts1 < length ts0 -> f <= fuel -> c_title c2 = c_title cm0 ->
  loop_res e X k fuel cm0 level ts0
    (let '(c1, r) := addopt c2 name in PI f w2 c1 level (st_state (st_opt p (Some r)) 1))
    (match kv_item name (gtoks ts1) with
     | Some (v, r') => meaning strtod_o F' (set_opts cs (c_opts cs ++ [Opt name KStr 0 [VStr (Some v)] [] defv0 None cbset0])) (Nat.eqb level 0) r'
     | None => None end).
Proof.
  intros k F' L1 w2 c2 cs cm0 level p ts1 f fuel name Hw Hy (P1 & P2 & P3) HI HO HN Hf HF HX He Hl Hfu Ht.
  unfold addopt.
  set (onew := Opt name KStr 0 [] [] defv0 None cbset0).
  set (r := (@nil (nat * nat), length (c_opts c2)) : optref).
  set (c1 := set_opts c2 (c_opts c2 ++ [onew])).
  assert (G1 : get_opt c1 r = Some onew).
  { unfold get_opt, r, c1. cbn [fst snd get_sec]. rewrite c_opts_set_opts. apply nth_error_app_mid. }
  assert (LO : lopt onew) by (unfold lopt, onew; cbn; auto).
  pose proof (value_sim strtod_o e X r ts1 L1 w2 c1 level (st_state (st_opt p (Some r)) 1) f onew Hw Hy eq_refl eq_refl G1 LO Hf) as VS.
  change (o_kind onew) with KStr in VS. change (oflag onew CFGF_LIST) with false in VS.
  rewrite (kv_val strtod_o name _ HN) in VS.
  destruct (kv_item name (gtoks ts1)) as [[v r']|] eqn:KV.
  - destruct VS as (f' & w' & c' & o' & L' & ts' & p' & E & C & S' & V' & G' & PZ & W' & Y' & GT & F1 & Len & FL).
    rewrite E. subst r'. cbn [app] in V'.
    assert (PUT : put_opt c1 r o' = set_opts c2 (c_opts c2 ++ [o'])).
    { unfold r, c1. rewrite put_opt_top, c_opts_set_opts, upd_nth_app_last, set_opts_set_opts. reflexivity. }
    assert (ND : dropped o' = false) by (rewrite (dropped_shape o' onew S'); reflexivity).
    apply (loop_res_mono e X k fuel cm0 level ts0 f' c' ts'); [|lia|lia|].
    + apply (REC ts' ltac:(lia) k F' L' w' c' _ level p' f'). unfold loop_hyp. spl; auto.
      * apply (pz_p0ok (st_state (st_opt p (Some r)) 1) p'); [exact P2|exact P3|exact PZ].
      * rewrite (ceq_invC sc k _ _ C), PUT. unfold invC in *. rewrite c_opts_set_opts, forallb_app, HI. cbn [forallb]. rewrite andb_true_r.
        apply invO_nonsec.
        -- rewrite (base_ok_shape o' onew S'); [reflexivity|]. right. rewrite (shape_kind _ _ S'). reflexivity.
        -- rewrite (shape_kind _ _ S'). reflexivity.
        -- rewrite V'. reflexivity.
      * destruct PZ as (_ & -> & _). cbn [s_opt st_state st_opt].
        rewrite (obs_depc c' _ o' G'), after_item_eq, ND, (ceq_obs _ _ (ceq_put _ _ r o' C)), put_put, PUT.
        rewrite !obs_set_opts, !map_app. pose proof (obs_c_inj_parts _ _ HO) as (_ & _ & _ & HO'). rewrite HO', HO.
        f_equal. f_equal. cbn [map]. f_equal.
        apply obs_o_split. rewrite V'. split; [exact S'|reflexivity].
      * pose proof (psfx_len _ _ (kv_item_psfx _ _ _ _ KV)). lia.
    + rewrite (ceq_title _ _ C), c_title_put. unfold c1. rewrite c_title_set_opts. exact Ht.
  - destruct VS as (w' & c' & E & O). rewrite E. apply loop_res_err, O.
Qed.


(* ---------- a section item: optional title and the opening brace (states 6, 5) ---------- *)
Lemma sec_head_sim e X r : forall ts1 L1 w2 c2 level p f om,
  wst w2 e L1 -> yieldsc e L1 ts1 -> measure L1 + length ts1 + S X < f ->
  match sec_head om (gtoks ts1) with
  | Some (ti, r2) => exists f5 w5 c5 L5 ts5 v5 p5,
      PI f w2 c2 level (st_state (st_opt p (Some r)) (if oflag om CFGF_TITLE then 6 else 5)) =
        st5 strtod_o f5 level p5 w5 c5 (TPunct 123) v5 /\
      s_opt p5 = Some r /\ s_title p5 = (if oflag om CFGF_TITLE then ti else s_title p) /\ s_forced p5 = s_forced p /\
      is_some ti = oflag om CFGF_TITLE /\
      ceq c5 c2 /\ wst w5 e L5 /\ yieldsc e L5 ts5 /\ gtoks ts5 = r2 /\ measure L5 + length ts5 + S X < f5 /\
      length ts5 < length ts1 /\ f5 <= f
  | None => exists w' c', PI f w2 c2 level (st_state (st_opt p (Some r)) (if oflag om CFGF_TITLE then 6 else 5)) = (w', c', PERR) /\ w_oof w' = false
  end.
Proof.
  intros ts1 L1 w2 c2 level p f om Hw Hy Hf. unfold sec_head.
  destruct (oflag om CFGF_TITLE) eqn:TT.
  - (* state 6: the title *)
    set (p6 := st_state (st_opt p (Some r)) 6).
    pose proof (fetch_nz strtod_o e X ts1 L1 w2 c2 level p6 f Hw Hy ltac:(cbn; lia) Hf) as FN.
    destruct (gtoks ts1) as [|g g1] eqn:G; [exact FN|].
    destruct FN as (f1 & w1 & c1 & L1' & ts1' & t & v & E1 & C1 & W1 & Y1 & G1 & F1 & Len1 & TV & FL1).
    rewrite E1. unfold st_dispatch. cbn [p6 s_state st_state]. unfold st6. rewrite (tok_is_str_g g t v TV).
    destruct g as [tt|x]; cbn [negb].
    + cbn [tokval] in TV. destruct TV as [-> ->]. cbn [sval]. subst p6.
      set (p5 := st_state (st_title (st_state (st_opt p (Some r)) 6) (Some tt)) 5).
      pose proof (fetch_nz strtod_o e X ts1' L1' w1 c1 level p5 f1 W1 Y1 ltac:(cbn; lia) F1) as FN2.
      rewrite G1 in FN2. destruct g1 as [|g2 g3]; [exact FN2|].
      destruct FN2 as (f2 & w2' & c2' & L2 & ts2 & t2 & v2 & E2 & C2 & W2 & Y2 & G2 & F2 & Len2 & TV2 & FL2).
      destruct g2 as [s2|y]; cbn [tokval] in TV2.
      * destruct TV2 as [-> ->]. rewrite E2. unfold st_dispatch. cbn [p5 s_state st_state]. unfold st5. cbn [tok_is negb].
        do 2 eexists. split; [reflexivity|]. eapply wst_oof, wst_add_diags, W2.
      * subst t2. destruct (y =? 123)%N eqn:Y.
        -- apply N.eqb_eq in Y. subst y. exists f2, w2', c2', L2, ts2, v2, p5. spl; auto; try lia.
           eapply ceq_trans; eauto.
        -- rewrite E2. unfold st_dispatch. cbn [p5 s_state st_state]. unfold st5. rewrite tok_is_punct, Y. cbn [negb].
           do 2 eexists. split; [reflexivity|]. eapply wst_oof, wst_add_diags, W2.
    + do 2 eexists. split; [reflexivity|]. eapply wst_oof, wst_add_diags, W1.
  - set (p5 := st_state (st_opt p (Some r)) 5).
    pose proof (fetch_nz strtod_o e X ts1 L1 w2 c2 level p5 f Hw Hy ltac:(cbn; lia) Hf) as FN.
    destruct (gtoks ts1) as [|g g1] eqn:G; [exact FN|].
    destruct FN as (f1 & w1 & c1 & L1' & ts1' & t & v & E1 & C1 & W1 & Y1 & G1 & F1 & Len1 & TV & FL1).
    destruct g as [s2|y]; cbn [tokval] in TV.
    + destruct TV as [-> ->]. rewrite E1. unfold st_dispatch. cbn [p5 s_state st_state]. unfold st5. cbn [tok_is negb].
      do 2 eexists. split; [reflexivity|]. eapply wst_oof, wst_add_diags, W1.
    + subst t. destruct (y =? 123)%N eqn:Y.
      * apply N.eqb_eq in Y. subst y. exists f1, w1, c1, L1', ts1', v, p5. spl; auto; try lia.
      * rewrite E1. unfold st_dispatch. cbn [p5 s_state st_state]. unfold st5. rewrite tok_is_punct, Y. cbn [negb].
        do 2 eexists. split; [reflexivity|]. eapply wst_oof, wst_add_diags, W1.
Qed.


Lemma sec_head_shape o o' g : shape o = shape o' -> sec_head o g = sec_head o' g.
Proof. intros S. unfold sec_head. rewrite (shape_oflag o o' CFGF_TITLE S eq_refl). reflexivity. Qed.

Lemma nth_vsec_obs l l' idx s : map obs_v l = map obs_v l' -> nth_error l idx = Some (VSec (Some s)) ->
  exists s', nth_error l' idx = Some (VSec (Some s')) /\ obs_c s = obs_c s'.
Proof.
  intros M N. pose proof (f_equal (fun x => nth_error x idx) M) as E. cbv beta in E. rewrite !nth_error_map, N in E. cbn in E.
  destruct (nth_error l' idx) as [[| | | |[s'|]|]|]; try discriminate. cbn in E. injection E as E. eauto.
Qed.

(* ---------- a section item, the name having been read ---------- *)
Lemma item_section e X ts0 (REC : forall ts', length ts' < length ts0 -> loop_stmt e X ts') :
  forall k F' L1 w2 c2 cs cm0 level p ts1 f fuel r om os,
  wst w2 e L1 -> yieldsc e L1 ts1 -> p0ok p -> invC sc k c2 = true -> obs_c c2 = obs_c cs ->
  get_opt c2 r = Some om -> get_opt cs r = Some os -> obs_o om = obs_o os -> o_kind om = KSec ->
  measure L1 + length ts1 + S X < f -> length (gtoks ts1) < F' -> 2 * k + 2 + DC <= X -> fst e = env ->
  length ts1 < length ts0 -> f <= fuel -> c_title c2 = c_title cm0 ->
  loop_res e X k fuel cm0 level ts0
    (PI f w2 c2 level (st_state (st_opt p (Some r)) (if oflag om CFGF_TITLE then 6 else 5)))
    (match sec_head os (gtoks ts1) with
     | Some (ti, r2) =>
         match open_instance strtod_o (c_flags cs) (cflag cs CFGF_NOCASE) os ti with
         | None => None
         | Some (vals', idx) =>
             match nth_error vals' idx with
             | Some (VSec (Some sec)) =>
                 match meaning strtod_o F' sec false r2 with
                 | None => None
                 | Some (sec', r3) =>
                     meaning strtod_o F' (put_opt cs r (after_item (set_vals os (upd_nth vals' idx (fun _ => VSec (Some sec')))))) (Nat.eqb level 0) r3
                 end
             | _ => None
             end
         end
     | None => None
     end).
Proof.
  intros k F' L1 w2 c2 cs cm0 level p ts1 f fuel r om os Hw Hy (P1 & P2 & P3) HI HO Gm Gs OO KS Hf HF HX He Hl Hfu Ht.
  pose proof OO as OO'. apply obs_o_split in OO' as [SH VV].
  destruct (inv_get' _ _ _ _ _ HI Gm) as (LS & IO).
  destruct (invO_sec_parts _ _ _ IO KS) as (k' & EK & TS & VS0).
  pose proof (sec_head_sim e X r ts1 L1 w2 c2 level p f om Hw Hy Hf) as SHS.
  rewrite <- (sec_head_shape om os _ SH).
  destruct (sec_head om (gtoks ts1)) as [[ti r2]|] eqn:SHD.
  2:{ destruct SHS as (w' & c' & E & O). rewrite E. apply loop_res_err, O. }
  destruct SHS as (f5 & w5 & c5 & L5 & ts5 & v5 & p5 & E5 & PO & PT & PF & TI & C5 & W5 & Y5 & G5 & F5 & Len5 & FL5).
  rewrite E5. unfold st5. cbn [tok_is N.eqb Pos.eqb negb]. unfold curopt_of. rewrite PO.
  assert (Gm5 : get_opt c5 r = Some om) by (rewrite (ceq_get _ _ r C5); exact Gm).
  rewrite Gm5.
  assert (TIT : s_title p5 = ti).
  { rewrite PT. destruct (oflag om CFGF_TITLE) eqn:TT; [reflexivity|]. rewrite P2. destruct ti; [discriminate TI|reflexivity]. }
  rewrite TIT.
  destruct (so_section strtod_o sc env DC SCOK k' f5 e w5 L5 c5 om ti He W5 ltac:(rewrite <- EK; exact IO) KS TI ltac:(lia)) as (w6 & o1 & res & ESO & (L6 & W6 & M6 & Y6) & RES).
  rewrite ESO.
  assert (FLG : c_flags c5 = c_flags cs).
  { rewrite (ceq_c_flags _ _ C5). apply (obs_c_inj_parts _ _ HO). }
  unfold cflag in RES |- *. rewrite FLG in RES. fold (cflag cs CFGF_NOCASE) in RES |- *.
  pose proof (open_instance_obs strtod_o (c_flags cs) (cflag cs CFGF_NOCASE) om os ti OO) as OIO.
  destruct (open_instance strtod_o (c_flags cs) (cflag cs CFGF_NOCASE) om ti) as [[valsm idx]|];
    destruct (open_instance strtod_o (c_flags cs) (cflag cs CFGF_NOCASE) os ti) as [[valss idx']|]; try contradiction.
  2:{ subst res. apply loop_res_err. eapply wst_oof, W6. }
  destruct OIO as (<- & VM). destruct RES as (-> & S1 & V1 & R1 & I1 & LI).
  (* the section the item opens *)
  destruct (invO_sec_parts _ _ _ I1 ltac:(rewrite (shape_kind _ _ S1); exact KS)) as (k1 & EK1 & TS1 & VS1). injection EK1 as <-.
  destruct (nth_error (o_vals o1) idx) as [x|] eqn:NX; [|apply nth_error_None in NX; lia].
  pose proof (forallb_nth_error _ _ _ _ VS1 NX) as VX. unfold vok in VX.
  destruct x as [| | | |[secm|]|]; try discriminate VX. apply andb_prop in VX as [TOK ISEC].
  unfold nth_sec. rewrite NX.
  destruct (nth_vsec_obs _ _ idx secm (eq_trans V1 VM) NX) as (secs & NS & OS). rewrite NS.
  (* the body: a nested run *)
  set (c1 := put_opt c5 r o1). set (sec2 := sec_prep c1 secm).
  pose proof (Y6 _ Y5) as Y5'.
  assert (PS2 : psfx r2 (gtoks ts1)) by (eapply sec_head_psfx; eauto).
  pose proof (REC ts5 ltac:(lia) k' F' L6 w6 sec2 secs (S level) (pst0 0 None) f5) as NEST.
  assert (NH : loop_hyp e X k' f5 w6 L6 sec2 secs (S level) (pst0 0 None) ts5 F').
  { unfold loop_hyp. spl; auto.
    - unfold p0ok; auto.
    - unfold sec2. rewrite (ceq_invC sc k' _ _ (sec_prep_ceq c1 secm)). exact ISEC.
    - cbn [pst0 s_opt depc]. unfold sec2. rewrite (ceq_obs _ _ (sec_prep_ceq c1 secm)). exact OS.
    - lia.
    - rewrite G5. pose proof (psfx_len _ _ PS2). lia.
    - lia. }
  specialize (NEST NH).
  rewrite G5 in NEST. cbn [Nat.eqb] in NEST.
  destruct (PI f5 w6 sec2 (S level) (pst0 0 None)) as [[w7 sec3] rc] eqn:EN. unfold loop_res in NEST.
  destruct NEST as (O7 & NEST).
  destruct (meaning strtod_o F' secs false r2) as [[secs' r3]|] eqn:MN.
  2:{ subst rc. apply loop_res_err. exact O7. }
  destruct NEST as (-> & OB3 & I3 & T3 & L7 & ts7 & W7 & Y7). destruct (Y7 ltac:(discriminate)) as (Y7a & G7 & F7 & Len7).
  (* back in the enclosing context *)
  set (o2 := set_vals o1 (upd_nth (o_vals o1) idx (fun _ => VSec (Some sec3)))).
  assert (S2 : shape o2 = shape om) by (unfold o2; rewrite shape_set_vals; exact S1).
  assert (CV2 : cb_valid (o_cbs o2) = None).
  { rewrite (shape_cbs _ _ S2). apply (base_ok_parts _ (invO_base _ _ _ IO)). }
  rewrite (run_validcb_none _ _ CV2). unfold c1. rewrite put_put.
  set (c3 := set_line (put_opt c5 r o2) (c_line sec3)).
  assert (C3 : ceq c3 (put_opt c2 r o2)) by (eapply ceq_trans; [apply ceq_set_line|apply ceq_put, C5]).
  assert (G3 : get_opt c3 r = Some o2) by (rewrite (ceq_get _ _ r C3); eapply get_put; eauto).
  destruct (meaning_props strtod_o _ _ _ _ _ _ MN) as (MP1 & MP2 & _).
  assert (R2N : r2 <> []).
  { intros ->. destruct F'; [discriminate MN|]. rewrite meaning_unfold in MN. discriminate MN. }
  pose proof (MP1 R2N) as PS3.
  apply (loop_res_mono e X k fuel cm0 level ts0 f5 c3 ts7); [|lia|lia|].
  - subst r3.
    apply (REC ts7 ltac:(lia) k F' L7 w7 c3 _ level (st_state (st_title p5 None) 0) f5). unfold loop_hyp. spl; auto.
    + unfold p0ok. cbn. auto. rewrite PF. auto.
    + rewrite (ceq_invC sc k _ _ C3). eapply inv_put'; eauto. rewrite EK.
      apply invO_sec.
      * unfold o2. rewrite base_ok_set_vals. eapply invO_base; eauto.
      * rewrite (shape_kind _ _ S2), KS. reflexivity.
      * rewrite (shape_sub _ _ S2). exact TS.
      * unfold o2 at 2. rewrite o_vals_set_vals. fold (vok sc k' o2). apply forallb_upd_nth.
        -- rewrite (forallb_ext' _ (vok sc k' o1)); [exact VS1|]. intros y. apply vok_shape. unfold o2. apply shape_set_vals.
        -- intros y _. cbv beta. unfold vok. unfold invC in I3. rewrite I3, andb_true_r. unfold title_ok in *.
           rewrite (shape_oflag o2 o1 CFGF_MULTI) by (try reflexivity; unfold o2; apply shape_set_vals).
           rewrite (shape_oflag o2 o1 CFGF_TITLE) by (try reflexivity; unfold o2; apply shape_set_vals).
           rewrite T3. unfold sec2. rewrite (ceq_title _ _ (sec_prep_ceq c1 secm)). exact TOK.
    + cbn [s_opt st_state st_title]. rewrite PO.
      rewrite (obs_depc c3 _ o2 G3), (ceq_obs _ _ (ceq_put _ _ r (after_item o2) C3)), put_put.
      apply obs_put_cong; [exact HO|]. apply after_item_obs. apply obs_o_split.
      rewrite shape_set_vals, o_vals_set_vals. split; [congruence|]. unfold o2. rewrite o_vals_set_vals.
      rewrite !(map_upd_nth obs_v _ idx _ (fun _ => VSec (Some (obs_c sec3)))) by reflexivity.
      rewrite (map_upd_nth obs_v valss idx _ (fun _ => VSec (Some (obs_c sec3)))) by (intros; cbn [obs_v]; rewrite OB3; reflexivity).
      rewrite V1, VM. reflexivity.
    + pose proof (psfx_len _ _ PS3). pose proof (psfx_len _ _ PS2). lia.
  - unfold c3. rewrite (ceq_title _ _ (ceq_set_line _ _)), c_title_put, (ceq_title _ _ C5). exact Ht.
Qed.


Lemma cflag_obs' a b m : obs_c a = obs_c b -> cflag a m = cflag b m.
Proof. intros H. unfold cflag. destruct (obs_c_inj_parts _ _ H) as (_ & _ & -> & _). reflexivity. Qed.

(* ---------- the loop ---------- *)
Theorem loop_sim e X : forall n ts, length ts <= n -> loop_stmt e X ts.
Proof.
  induction n as [|n IHn]; intros ts Hn.
  { destruct ts; [apply loop_eof|cbn in Hn; lia]. }
  destruct ts as [|t ts1]; [apply loop_eof|]. cbn [length] in Hn.
  assert (REC : forall ts', length ts' < length (t :: ts1) -> loop_stmt e X ts') by (intros ts' H; apply IHn; cbn [length] in H; lia).
  intros k F L w cm cs level p fuel (Hw & Hy & (P1 & P2 & P3) & HI & HO & Hf & HF & HX & He).
  apply yields_length_inv in Hy. destruct Hy as (A & B & SV & s' & Ht & Hm & Hy').
  destruct fuel as [|f]; [lia|]. cbn [length] in Hf.
  destruct (pi_step strtod_o f w cm e L _ _ s' Hw Ht ltac:(lia)) as (w1 & pos & Hw1 & E). rewrite E.
  set (c1 := set_pos cm pos).
  destruct (dep_w_eq w1 c1 p) as (w2 & DW & WK2).
  set (c2 := depc c1 (s_opt p)) in *.
  assert (W2 : wst w2 e s') by (apply WK2, Hw1).
  assert (I2 : invC sc k c2 = true).
  { unfold c2. apply inv_depc. unfold c1. rewrite (ceq_invC sc k _ cm (ceq_set_pos cm pos)). exact HI. }
  assert (O2 : obs_c c2 = obs_c cs).
  { rewrite <- HO. unfold c2, c1. apply ceq_obs, depc_ceq, ceq_set_pos. }
  assert (T2 : c_title c2 = c_title cm).
  { unfold c2, c1. rewrite c_title_depc. apply ceq_title, ceq_set_pos. }
  rewrite gtoks_cons in *.
  destruct (gtok_of_cases t A B SV) as [[K G]|(g & G & TV & NC)]; rewrite G in *.
  - (* a comment *)
    unfold pi_body. rewrite K, P1. cbn [Nat.eqb negb]. unfold st_dispatch. rewrite P1. unfold st0. rewrite DW.
    assert (GO : forall p', s_opt p' = s_opt p -> p0ok p' ->
              loop_res e X k (S f) cm level (t :: ts1) (PI f w2 c2 level p') (meaning strtod_o F cs (Nat.eqb level 0) (gtoks ts1))).
    { intros p' SO PP. apply (loop_res_mono e X k (S f) cm level (t :: ts1) f c2 ts1); [|lia|cbn [length]; lia|exact T2].
      apply (REC ts1 ltac:(cbn [length]; lia) k F s' w2 c2 cs level p' f). unfold loop_hyp. spl; auto; try lia.
      rewrite SO. unfold c2. rewrite depc_idem. exact O2. }
    destruct (negb (cflag c2 CFGF_COMMENTS)); apply GO; unfold p0ok; cbn; auto.
  - destruct F as [|F']; [cbn [length] in HF; lia|]. cbn [length] in HF. rewrite meaning_unfold.
    assert (PB : pi_body strtod_o f level p w1 c1 (lt_tok t) (lt_val t) = st0 strtod_o f level p w1 c1 (lt_tok t) (lt_val t)).
    { unfold pi_body, st_dispatch. rewrite P1. destruct (lt_tok t); try congruence; reflexivity. }
    rewrite PB.
    destruct g as [name|x]; cbn [tokval] in TV.
    + (* a name *)
      destruct TV as [TK TVv]. rewrite TK, TVv. unfold st0. rewrite DW. cbn [sval mbody].
      destruct (cfg_getopt c2 name) as [ro ds] eqn:CG.
      pose proof (getopt_obs c2 cs name O2) as GO. rewrite CG in GO. cbn [fst] in GO. rewrite <- GO.
      assert (W3 : wst (add_diags w2 ds) e s') by (apply wst_add_diags, W2).
      destruct ro as [r|].
      * pose proof (get_opt_obs_rel c2 cs r O2) as GR.
        destruct (get_opt c2 r) as [om|] eqn:Gm; destruct (get_opt cs r) as [os|] eqn:Gs; try contradiction.
        2:{ apply loop_res_err. eapply wst_oof, W3. }
        destruct (inv_get' _ _ _ _ _ I2 Gm) as (_ & IO).
        destruct (base_ok_parts _ (invO_base _ _ _ IO)) as ([KS|KS] & _).
        -- (* scalar / list *)
           pose proof GR as GR'. apply obs_o_split in GR' as [SH _].
           rewrite <- (shape_kind _ _ SH), (scalar_is_sec _ KS), KS.
           replace (match o_kind om with KSec => if oflag om CFGF_TITLE then 6 else 5 | KFunc => 7 | _ => 1 end) with 1
             by (destruct (o_kind om); try discriminate KS; reflexivity).
           rewrite (shape_kind _ _ SH).
           apply (item_value e X (t :: ts1) REC k F' s' (add_diags w2 ds) c2 cs cm level p ts1 f (S f) r om os); auto; try lia; try (unfold p0ok; auto; fail); try (cbn [length]; lia).
        -- (* section *)
           pose proof GR as GR'. apply obs_o_split in GR' as [SH _].
           rewrite <- (shape_kind _ _ SH), KS. cbn [is_sec].
           apply (item_section e X (t :: ts1) REC k F' s' (add_diags w2 ds) c2 cs cm level p ts1 f (S f) r om os); auto; try lia; try (unfold p0ok; auto; fail); try (cbn [length]; lia).
      * rewrite <- !(cflag_obs' c2 cs _ O2).
        destruct (cflag c2 CFGF_IGNORE_UNKNOWN).
        -- apply (item_skip e X (t :: ts1) REC k F' s' (add_diags w2 ds) c2 cs cm level p ts1 f (S f)); auto; try lia; try (unfold p0ok; auto; fail); try (cbn [length]; lia).
        -- destruct (cflag c2 CFGF_KEYSTRVAL); cbn [andb].
           ++ destruct name as [|n0 name'].
              ** cbn [negb kv_item]. apply loop_res_err. eapply wst_oof, wst_add_diags, W3.
              ** cbn [negb].
                 apply (item_kv e X (t :: ts1) REC k F' s' (add_diags w2 ds) c2 cs cm level p ts1 f (S f) (n0 :: name')); auto; try lia; try (unfold p0ok; auto; fail); try (cbn [length]; lia); try discriminate.
           ++ destruct name; apply loop_res_err; [eapply wst_oof, wst_add_diags, W3|eapply wst_oof, W3].
    + (* punctuation *)
      rewrite TV, st0_punct, DW. cbn [mbody].
      destruct (x =? 125)%N.
      * destruct level as [|l]; cbn [Nat.eqb].
        -- apply loop_res_err. eapply wst_oof, wst_add_diags, W2.
        -- unfold loop_res. split; [eapply wst_oof, W2|]. spl; auto.
           exists s', ts1. split; [exact W2|]. intros _. spl; auto; cbn [length]; lia.
      * apply loop_res_err. eapply wst_oof, wst_add_diags, W2.
Qed.

End WithOracles.
