(* PP_Machine.v — C01, LAYER M part 1: fetching the next significant token, the list body
   (states 2 / 4 against Grammar.braced) and the value of a scalar / list item (states 1, 2, 3, 4). *)
From Coq Require String.
From Coq Require Import List Arith NArith ZArith Bool Lia.
From Coq.Strings Require Import Byte.
From LC Require Import Bytes Consts Conv Flex LexAct Lexer LexLemmas LexAll Files Store Parser Grammar
  PP_Base PP_Step PP_Tok PP_Setopt PP_Inv.
Import ListNotations.
Import String.StringSyntax.
Local Open Scope string_scope.
Local Open Scope list_scope.
Local Open Scope nat_scope.

Lemma gtoks_cons t ts : gtoks (t :: ts) = match gtok_of t with Some g => g :: gtoks ts | None => gtoks ts end.
Proof. unfold gtoks. cbn [flat_map]. destruct (gtok_of t); reflexivity. Qed.

Lemma gtoks_length ts : length (gtoks ts) <= length ts.
Proof. induction ts as [|t ts IH]; [cbn; lia|]. rewrite gtoks_cons. destruct (gtok_of t); cbn [length]; lia. Qed.

(* how a grammar token shows up in the machine *)
Definition tokval (g : gtok) (t : tok) (v : option str) : Prop :=
  match g with GS s => t = TStr /\ v = Some s | GP c => t = TPunct c end.

Lemma gtok_of_cases t : lt_tok t <> TEof -> lt_tok t <> TErr -> (lt_tok t = TStr -> lt_val t <> None) ->
  (lt_tok t = TComment /\ gtok_of t = None) \/
  (exists g, gtok_of t = Some g /\ tokval g (lt_tok t) (lt_val t) /\ lt_tok t <> TComment).
Proof.
  intros A B SV. unfold gtok_of. destruct (lt_tok t) eqn:K; try congruence.
  - right. specialize (SV eq_refl). destruct (lt_val t) as [sv|]; [|congruence].
    eexists. split; [reflexivity|]. cbn. split; [|discriminate]. split; reflexivity.
  - left. auto.
  - right. eexists. split; [reflexivity|]. cbn. split; [reflexivity|discriminate].
Qed.

Section WithOracles.
Variable strtod_o : str -> strtod_res.
Notation PI := (parse_internal strtod_o).
Notation SO := (setopt strtod_o).

Lemma errd_oof w c m e L : wst w e L -> w_oof (fst (fst (errd w c m))) = false.
Proof. intros H. unfold errd. cbn [fst]. eapply wst_oof, wst_add_diags, H. Qed.

(* ---------- the next significant token, in a state other than 0 ---------- *)
Lemma fetch_nz e X : forall ts L w c level p fuel,
  wst w e L -> yieldsc e L ts -> s_state p <> 0 -> measure L + length ts + S X < fuel ->
  match gtoks ts with
  | [] => exists w' c', PI fuel w c level p = (w', c', PERR) /\ w_oof w' = false
  | g :: rest => exists fuel' w' c' L' ts' t v,
      PI fuel w c level p = st_dispatch strtod_o fuel' level p w' c' t v /\ ceq c' c /\ wst w' e L' /\
      yieldsc e L' ts' /\ gtoks ts' = rest /\ measure L' + length ts' + S X < fuel' /\ length ts' < length ts /\ tokval g t v /\ fuel' <= fuel
  end.
Proof.
  induction ts as [|t ts IH]; intros L w c level p fuel Hw Hy Hs Hf.
  - apply yields_length_inv in Hy. destruct Hy as (s' & Ht). cbn [gtoks flat_map].
    destruct fuel as [|f]; [lia|]. cbn [length] in Hf.
    destruct (pi_step strtod_o f w c e L TEof None s' Hw Ht ltac:(lia)) as (w' & pos & Hw' & E).
    rewrite E. unfold pi_body. apply Nat.eqb_neq in Hs. rewrite Hs. cbn [negb].
    do 2 eexists. split; [reflexivity|]. eapply wst_oof, wst_add_diags, Hw'.
  - apply yields_length_inv in Hy. destruct Hy as (A & B & SV & s' & Ht & Hm & Hy').
    destruct fuel as [|f]; [lia|]. cbn [length] in Hf.
    destruct (pi_step strtod_o f w c e L _ _ s' Hw Ht ltac:(lia)) as (w' & pos & Hw' & E).
    rewrite E, gtoks_cons.
    destruct (gtok_of_cases t A B SV) as [[K G]|(g & G & TV & NC)]; rewrite G.
    + unfold pi_body. rewrite K. apply Nat.eqb_neq in Hs. rewrite Hs. cbn [negb].
      specialize (IH s' w' (set_pos c pos) level p f Hw' Hy' ltac:(apply Nat.eqb_neq; exact Hs) ltac:(lia)).
      destruct (gtoks ts) as [|g rest].
      * exact IH.
      * destruct IH as (fuel' & w'' & c'' & L' & ts' & t' & v' & E' & C' & W' & Y' & G' & F' & Len & TV' & FLLen).
        exists fuel', w'', c'', L', ts', t', v'. spl; auto; try lia.
        -- eapply ceq_trans; [exact C'|apply ceq_set_pos].
        -- cbn [length]. lia.
    + exists f, w', (set_pos c pos), s', ts, (lt_tok t), (lt_val t). spl; auto; try lia.
      * unfold pi_body. destruct (lt_tok t); try congruence; reflexivity.
      * apply ceq_set_pos.
Qed.


(* ---------- Grammar.braced without deep literal patterns ---------- *)
Ltac dpos y := destruct y as [|y]; [reflexivity|]; do 8 (try (destruct y as [y|y|]; try reflexivity)).

Lemma braced_nil F k acc : braced strtod_o F k [] acc = None.
Proof. destruct F; reflexivity. Qed.

Lemma braced_GP f k x r acc : braced strtod_o (S f) k (GP x :: r) acc = if (x =? 125)%N then Some (acc, r) else None.
Proof. cbn [braced]. dpos x. Qed.

Lemma braced_GS f k v r acc :
  braced strtod_o (S f) k (GS v :: r) acc =
  match conv_value strtod_o k v with
  | None => None
  | Some x => match r with
              | GP y :: r' => if (y =? 44)%N then braced strtod_o f k r' (acc ++ [x])
                              else if (y =? 125)%N then Some (acc ++ [x], r') else None
              | _ => None
              end
  end.
Proof.
  cbn [braced]. destruct (conv_value strtod_o k v); [|reflexivity].
  destruct r as [|[s|y] r']; try reflexivity. dpos y.
Qed.

(* ---------- small facts about the machine's option updates ---------- *)
Definition cur (o : opt) : list value := if oflag o CFGF_RESET then [] else o_vals o.
Definition lopt (o : opt) : Prop :=
  scalar_kind (o_kind o) = true /\ cb_parse (o_cbs o) = None /\ cb_valid (o_cbs o) = None.
Definition pz (p p' : pst) : Prop :=
  s_state p' = 0 /\ s_opt p' = s_opt p /\ s_title p' = s_title p /\ s_forced p' = s_forced p.

Lemma lopt_shape o o' : shape o' = shape o -> lopt o -> lopt o'.
Proof. intros S (A & B & C). unfold lopt. rewrite (shape_kind _ _ S), (shape_cbs _ _ S). auto. Qed.

Lemma run_validcb_none w o : cb_valid (o_cbs o) = None -> run_validcb w o = (w, false).
Proof. intros H. unfold run_validcb. rewrite H. reflexivity. Qed.

Definition cmt (p : pst) (o : opt) : opt := match s_comment p with Some cm => opt_setcomment o cm | None => o end.
Lemma cmt_props p o : shape (cmt p o) = shape o /\ o_vals (cmt p o) = o_vals o /\ oflag (cmt p o) CFGF_RESET = oflag o CFGF_RESET.
Proof.
  unfold cmt. destruct (s_comment p) as [cm|]; [|auto]. unfold opt_setcomment. spl.
  - rewrite !shape_setf, shape_set_comment by reflexivity. reflexivity.
  - rewrite !o_vals_setf, o_vals_set_comment. reflexivity.
  - rewrite !oflag_setf, oflag_set_comment. cbn. rewrite !orb_false_r. reflexivity.
Qed.

Lemma tok_is_punct x c : tok_is (TPunct x) c = (x =? c)%N. Proof. reflexivity. Qed.

(* ---------- the list body:  '}'  |  v (',' v)* [','] '}'  from state 2 ---------- *)
Lemma body_sim e X r : forall n ts, length ts <= n -> forall F L w c level p fuel o base acc,
  wst w e L -> yieldsc e L ts -> s_state p = 2 -> s_opt p = Some r -> get_opt c r = Some o ->
  oflag o CFGF_LIST = true -> lopt o -> cur o = base ++ acc -> (oflag o CFGF_RESET = true -> s_num p = 0) ->
  measure L + length ts + S X < fuel -> length (gtoks ts) < F ->
  match braced strtod_o F (o_kind o) (gtoks ts) acc with
  | Some (vs, rest) => exists fuel' w' c' o' L' ts' p',
      PI fuel w c level p = PI fuel' w' c' level p' /\ ceq c' (put_opt c r o') /\ shape o' = shape o /\
      o_vals o' = base ++ vs /\ get_opt c' r = Some o' /\
      pz p p' /\ wst w' e L' /\ yieldsc e L' ts' /\ gtoks ts' = rest /\ measure L' + length ts' + S X < fuel' /\
      length ts' < length ts /\ fuel' <= fuel
  | None => exists w' c', PI fuel w c level p = (w', c', PERR) /\ w_oof w' = false
  end.
Proof.
  induction n as [|n IH]; intros ts Hn F L w c level p fuel o base acc Hw Hy Hs Hop Hg HL HO HC HR Hf HF.
  - destruct ts; [|cbn in Hn; lia]. pose proof (fetch_nz e X [] L w c level p fuel Hw Hy ltac:(lia) Hf) as FN.
    cbn [gtoks flat_map] in *. rewrite braced_nil. exact FN.
  - pose proof (fetch_nz e X ts L w c level p fuel Hw Hy ltac:(lia) Hf) as FN.
    destruct (gtoks ts) as [|g rest] eqn:G; [rewrite braced_nil; exact FN|].
    destruct FN as (f1 & w1 & c1 & L1 & ts1 & t & v & E1 & C1 & W1 & Y1 & G1 & F1 & Len1 & TV & FLLen1).
    assert (Hg1 : get_opt c1 r = Some o) by (rewrite (ceq_get _ _ r C1); exact Hg).
    rewrite E1. unfold st_dispatch. rewrite Hs. unfold st2, curopt_of. rewrite Hop, Hg1.
    destruct F as [|F']; [lia|]. cbn [length] in HF.
    destruct HO as (OK & OP & OV).
    destruct g as [sv|x]; cbn [tokval] in TV.
    + (* a value *)
      destruct TV as [-> ->]. cbn [tok_is andb tok_is_str negb]. rewrite braced_GS.
      destruct f1 as [|f1']; [lia|].
      destruct (so_value strtod_o f1' w1 c1 o sv OK OP (or_intror HL)) as (w2 & o1 & res & ES & WK & R).
      rewrite ES.
      destruct (conv_value strtod_o (o_kind o) sv) as [xv|].
      * destruct R as (Rn & RV & RS & RR). destruct res as [idx|]; [|congruence].
        assert (OV1 : cb_valid (o_cbs o1) = None) by (rewrite (shape_cbs _ _ RS); exact OV).
        rewrite (run_validcb_none _ _ OV1). fold (cmt p o1).
        destruct (cmt_props p o1) as (CS & CV & CR).
        rewrite put_put. rewrite (shape_oflag (cmt p o1) o CFGF_LIST) by (try reflexivity; congruence). rewrite HL.
        set (o2 := cmt p o1) in *. set (c2 := put_opt c1 r o2).
        set (p4 := st_state (st_num (st_comment p None) (S (s_num (st_comment p None)))) 4).
        assert (W2 : wst w2 e L1) by (apply WK, W1).
        assert (Hg2 : get_opt c2 r = Some o2) by (unfold c2; eapply get_put; exact Hg1).
        (* state 4 *)
        pose proof (fetch_nz e X ts1 L1 w2 c2 level p4 (S f1') W2 Y1 ltac:(cbn; lia) F1) as FN4.
        rewrite G1 in FN4. destruct rest as [|g4 rest4]; [exact FN4|].
        destruct FN4 as (f3 & w3 & c3 & L3 & ts3 & t3 & v3 & E3 & C3 & W3 & Y3 & G3 & F3 & Len3 & TV3 & FLLen3).
        rewrite E3. unfold st_dispatch. cbn [p4 s_state st_state]. unfold st4, curopt_of. cbn [p4 s_opt st_state st_num st_comment]. rewrite Hop.
        assert (Hg3 : get_opt c3 r = Some o2) by (rewrite (ceq_get _ _ r C3); exact Hg2).
        rewrite Hg3.
        assert (OV2 : cb_valid (o_cbs o2) = None) by (rewrite (shape_cbs _ _ CS); exact OV1).
        destruct g4 as [s4|y]; cbn [tokval] in TV3.
        -- destruct TV3 as [-> ->]. cbn [tok_is]. do 2 eexists. split; [reflexivity|]. eapply wst_oof, wst_add_diags, W3.
        -- subst t3. rewrite !tok_is_punct.
           destruct (y =? 44)%N eqn:Y44.
           ++ (* comma: back to state 2 *)
              assert (CUR2 : cur o2 = base ++ (acc ++ [xv])).
              { unfold cur. rewrite CR, RR, CV, RV. fold (cur o). rewrite HC, app_assoc. reflexivity. }
              specialize (IH ts3 ltac:(lia) F' L3 w3 c3 level (st_state p4 2) f3 o2 base (acc ++ [xv]) W3 Y3 eq_refl Hop Hg3).
              rewrite (shape_kind o2 o) in IH by congruence.
              specialize (IH ltac:(rewrite (shape_oflag o2 o CFGF_LIST) by (try reflexivity; congruence); exact HL)
                             ltac:(apply (lopt_shape o); [congruence|unfold lopt; auto]) CUR2
                             ltac:(rewrite CR, RR; discriminate) F3).
              rewrite G3 in IH. specialize (IH ltac:(pose proof (gtoks_length ts); rewrite G in *; cbn [length] in *; lia)).
              destruct (braced strtod_o F' (o_kind o) rest4 (acc ++ [xv])) as [[vs rest']|]; [|exact IH].
              destruct IH as (f5 & w5 & c5 & o5 & L5 & ts5 & p5 & E5 & C5 & S5 & V5 & G5 & P5 & W5 & Y5 & GT5 & F5 & Len5 & FLLen5).
              exists f5, w5, c5, o5, L5, ts5, p5. spl; auto; try lia.
              ** eapply ceq_trans; [exact C5|]. eapply ceq_trans; [apply ceq_put, C3|]. unfold c2. rewrite put_put. apply ceq_put, C1.
              ** congruence.
           ++ destruct (y =? 125)%N eqn:Y125.
              ** rewrite (run_validcb_none _ _ OV2).
                 exists f3, w3, c3, o2, L3, ts3, (st_state p4 0). spl; auto; try lia.
                 --- eapply ceq_trans; [exact C3|]. unfold c2. apply ceq_put, C1.
                 --- congruence.
                 --- rewrite CV, RV. fold (cur o). rewrite HC, app_assoc. reflexivity.
                 --- unfold pz; cbn; auto.
              ** do 2 eexists. split; [reflexivity|]. eapply wst_oof, wst_add_diags, W3.
      * rewrite R. do 2 eexists. split; [reflexivity|]. eapply wst_oof, WK, W1.
    + (* punctuation *)
      subst t. rewrite tok_is_punct, braced_GP. destruct (x =? 125)%N eqn:X125.
      * rewrite HL. cbn [andb].
        destruct (oflag o CFGF_RESET) eqn:RST.
        -- rewrite (HR eq_refl). cbn [Nat.eqb andb].
           destruct (free_value o) as [ofr fr] eqn:FV.
           pose proof (free_value_props o) as (V & SH & Fl). rewrite FV in V, SH, Fl. cbn [fst] in V, SH, Fl.
           exists f1, (log_frees w1 fr), (put_opt c1 r ofr), ofr, L1, ts1, (st_state p 0). spl; auto; try lia.
           ++ apply ceq_put, C1.
           ++ rewrite V. unfold cur in HC. rewrite RST in HC. exact HC.
           ++ eapply get_put; exact Hg1.
           ++ unfold pz; cbn; auto.
           ++ apply wst_log_frees, W1.
        -- rewrite andb_false_r.
           exists f1, w1, c1, o, L1, ts1, (st_state p 0). spl; auto; try lia.
           ++ rewrite (put_same c r o Hg). exact C1.
           ++ unfold cur in HC. rewrite RST in HC. exact HC.
           ++ unfold pz; cbn; auto.
      * cbn [andb tok_is_str negb]. do 2 eexists. split; [reflexivity|]. eapply wst_oof, wst_add_diags, W1.
Qed.


(* ---------- what follows the name of a scalar / list option: (append?, values, rest) ---------- *)
Definition val_res (k : kind) (islist : bool) (g : list gtok) : option (bool * list value * list gtok) :=
  match g with
  | GP x :: g1 =>
      if (x =? 61)%N || (x =? 43)%N then
        let app := (x =? 43)%N in
        if app && negb islist then None else
        match g1 with
        | GP y :: g2 => if (y =? 123)%N && islist then
                           match braced strtod_o (S (length g2)) k g2 [] with Some (vs, r) => Some (app, vs, r) | None => None end
                        else None
        | GS v :: g2 => match conv_value strtod_o k v with Some xv => Some (app, [xv], g2) | None => None end
        | [] => None
        end
      else None
  | _ => None
  end.

Lemma value_sim e X r : forall ts L w c level p fuel o,
  wst w e L -> yieldsc e L ts -> s_state p = 1 -> s_opt p = Some r -> get_opt c r = Some o -> lopt o ->
  measure L + length ts + S X < fuel ->
  match val_res (o_kind o) (oflag o CFGF_LIST) (gtoks ts) with
  | Some (app, vs, rest) => exists fuel' w' c' o' L' ts' p',
      PI fuel w c level p = PI fuel' w' c' level p' /\ ceq c' (put_opt c r o') /\ shape o' = shape o /\
      o_vals o' = (if app then o_vals o else []) ++ vs /\ get_opt c' r = Some o' /\
      pz p p' /\ wst w' e L' /\ yieldsc e L' ts' /\ gtoks ts' = rest /\ measure L' + length ts' + S X < fuel' /\
      length ts' < length ts /\ fuel' <= fuel
  | None => exists w' c', PI fuel w c level p = (w', c', PERR) /\ w_oof w' = false
  end.
Proof.
  intros ts L w c level p fuel o Hw Hy Hs Hop Hg HO Hf.
  pose proof (fetch_nz e X ts L w c level p fuel Hw Hy ltac:(lia) Hf) as FN.
  destruct (gtoks ts) as [|g g1] eqn:G; [exact FN|].
  destruct FN as (f1 & w1 & c1 & L1 & ts1 & t & v & E1 & C1 & W1 & Y1 & G1 & F1 & Len1 & TV & FLLen1).
  assert (Hg1 : get_opt c1 r = Some o) by (rewrite (ceq_get _ _ r C1); exact Hg).
  rewrite E1. unfold st_dispatch. rewrite Hs. unfold st1, curopt_of. rewrite Hop, Hg1.
  destruct HO as (OK & OP & OV).
  destruct g as [sv|x]; cbn [tokval] in TV.
  { destruct TV as [-> ->]. cbn [tok_is val_res]. do 2 eexists. split; [reflexivity|]. eapply wst_oof, wst_add_diags, W1. }
  subst t. rewrite !tok_is_punct. cbn [val_res].
  (* the option after '=' / '+=' *)
  assert (STEP : forall o1, shape o1 = shape o -> cur o1 = (if (x =? 43)%N then o_vals o else []) ->
            (oflag o CFGF_LIST = false -> oflag o1 CFGF_RESET = true) ->
    match (match g1 with
        | GP y :: g2 => if (y =? 123)%N && oflag o CFGF_LIST then
                           match braced strtod_o (S (length g2)) (o_kind o) g2 [] with Some (vs, r) => Some ((x =? 43)%N, vs, r) | None => None end
                        else None
        | GS v :: g2 => match conv_value strtod_o (o_kind o) v with Some xv => Some ((x =? 43)%N, [xv], g2) | None => None end
        | [] => None
        end) with
    | Some (app, vs, rest) => exists fuel' w' c' o' L' ts' p',
        (if oflag o1 CFGF_LIST then PI f1 w1 (put_opt c1 r o1) level (st_num (st_state p 3) 0)
         else PI f1 w1 (put_opt c1 r o1) level (st_state p 2)) = PI fuel' w' c' level p' /\ ceq c' (put_opt c r o') /\ shape o' = shape o /\
        o_vals o' = (if app then o_vals o else []) ++ vs /\ get_opt c' r = Some o' /\
        pz p p' /\ wst w' e L' /\ yieldsc e L' ts' /\ gtoks ts' = rest /\ measure L' + length ts' + S X < fuel' /\
        length ts' < length ts /\ fuel' <= fuel
    | None => exists w' c', (if oflag o1 CFGF_LIST then PI f1 w1 (put_opt c1 r o1) level (st_num (st_state p 3) 0)
         else PI f1 w1 (put_opt c1 r o1) level (st_state p 2)) = (w', c', PERR) /\ w_oof w' = false
    end).
  { intros o1 SH1 CUR1 RST1.
    assert (HL1 : oflag o1 CFGF_LIST = oflag o CFGF_LIST) by (apply shape_oflag; [exact SH1|reflexivity]).
    assert (K1 : o_kind o1 = o_kind o) by (apply shape_kind, SH1).
    assert (LO1 : lopt o1) by (apply (lopt_shape o); [exact SH1|unfold lopt; auto]).
    set (c2 := put_opt c1 r o1).
    assert (Hg2 : get_opt c2 r = Some o1) by (unfold c2; eapply get_put; exact Hg1).
    rewrite HL1. destruct (oflag o CFGF_LIST) eqn:HL.
    - (* list option: state 3 *)
      set (p3 := st_num (st_state p 3) 0).
      pose proof (fetch_nz e X ts1 L1 w1 c2 level p3 f1 W1 Y1 ltac:(cbn; lia) F1) as FN3.
      rewrite G1 in FN3. destruct g1 as [|g3 g2]; [exact FN3|].
      destruct FN3 as (f3 & w3 & c3 & L3 & ts3 & t3 & v3 & E3 & C3 & W3 & Y3 & G3 & F3 & Len3 & TV3 & FLLen3).
      assert (Hg3 : get_opt c3 r = Some o1) by (rewrite (ceq_get _ _ r C3); exact Hg2).
      rewrite E3. unfold st_dispatch. cbn [p3 s_state st_state st_num]. unfold st3, curopt_of. cbn [p3 s_opt st_state st_num]. rewrite Hop, Hg3.
      destruct g3 as [sv|y]; cbn [tokval] in TV3.
      + destruct TV3 as [-> ->]. cbn [tok_is tok_is_str negb].
        destruct f3 as [|f3']; [lia|].
        destruct (so_value strtod_o f3' w3 c3 o1 sv ltac:(rewrite K1; exact OK) ltac:(apply LO1) (or_intror HL1))
          as (w4 & o4 & res & ES & WK & R).
        rewrite ES. rewrite K1 in R.
        destruct (conv_value strtod_o (o_kind o) sv) as [xv|].
        * destruct R as (Rn & RV & RS & RR). destruct res as [idx|]; [|congruence].
          assert (OV4 : cb_valid (o_cbs o4) = None) by (rewrite (shape_cbs _ _ RS), (shape_cbs _ _ SH1); exact OV).
          rewrite (run_validcb_none _ _ OV4). fold (cmt p3 o4).
          destruct (cmt_props p3 o4) as (CS & CV & CR).
          rewrite put_put.
          exists (S f3'), w4, (put_opt c3 r (cmt p3 o4)), (cmt p3 o4), L3, ts3,
                 (st_state (st_num (st_comment p3 None) (S (s_num (st_comment p3 None)))) 0). spl; auto; try lia.
          -- eapply ceq_trans; [apply ceq_put, C3|]. unfold c2. rewrite put_put. apply ceq_put, C1.
          -- congruence.
          -- rewrite CV, RV. fold (cur o1). rewrite CUR1. reflexivity.
          -- eapply get_put; exact Hg3.
          -- unfold pz; cbn; auto.
        * rewrite R. do 2 eexists. split; [reflexivity|]. eapply wst_oof, WK, W3.
      + subst t3. rewrite tok_is_punct. rewrite andb_true_r.
        destruct (y =? 123)%N eqn:Y123.
        * pose proof (body_sim e X r (length ts3) ts3 (le_n _) (S (length g2)) L3 w3 c3 level (st_state p3 2) f3 o1 (cur o1) []
                        W3 Y3 eq_refl Hop Hg3 HL1 LO1 ltac:(rewrite app_nil_r; reflexivity) ltac:(intros; reflexivity) F3
                        ltac:(rewrite G3; lia)) as BS.
          rewrite G3, K1 in BS.
          destruct (braced strtod_o (S (length g2)) (o_kind o) g2 []) as [[vs rest]|]; [|exact BS].
          destruct BS as (f5 & w5 & c5 & o5 & L5 & ts5 & p5 & E5 & C5 & S5 & V5 & G5 & P5 & W5 & Y5 & GT5 & F5 & Len5 & FLLen5).
          exists f5, w5, c5, o5, L5, ts5, p5. spl; auto; try lia.
          -- eapply ceq_trans; [exact C5|]. eapply ceq_trans; [apply ceq_put, C3|]. unfold c2. rewrite put_put. apply ceq_put, C1.
          -- congruence.
          -- rewrite V5, CUR1. reflexivity.
        * cbn [tok_is_str negb]. do 2 eexists. split; [reflexivity|]. eapply wst_oof, wst_add_diags, W3.
    - (* scalar option: state 2 *)
      set (p2 := st_state p 2).
      pose proof (fetch_nz e X ts1 L1 w1 c2 level p2 f1 W1 Y1 ltac:(cbn; lia) F1) as FN3.
      rewrite G1 in FN3. destruct g1 as [|g3 g2]; [exact FN3|].
      destruct FN3 as (f3 & w3 & c3 & L3 & ts3 & t3 & v3 & E3 & C3 & W3 & Y3 & G3 & F3 & Len3 & TV3 & FLLen3).
      assert (Hg3 : get_opt c3 r = Some o1) by (rewrite (ceq_get _ _ r C3); exact Hg2).
      rewrite E3. unfold st_dispatch. cbn [p2 s_state st_state]. unfold st2, curopt_of. cbn [p2 s_opt st_state]. rewrite Hop, Hg3.
      rewrite HL1, andb_false_r.
      destruct g3 as [sv|y]; cbn [tokval] in TV3.
      + destruct TV3 as [-> ->]. cbn [tok_is_str negb].
        destruct f3 as [|f3']; [lia|].
        destruct (so_value strtod_o f3' w3 c3 o1 sv ltac:(rewrite K1; exact OK) ltac:(apply LO1) (or_introl (RST1 eq_refl)))
          as (w4 & o4 & res & ES & WK & R).
        rewrite ES. rewrite K1 in R.
        destruct (conv_value strtod_o (o_kind o) sv) as [xv|].
        * destruct R as (Rn & RV & RS & RR). destruct res as [idx|]; [|congruence].
          assert (OV4 : cb_valid (o_cbs o4) = None) by (rewrite (shape_cbs _ _ RS), (shape_cbs _ _ SH1); exact OV).
          rewrite (run_validcb_none _ _ OV4). fold (cmt p2 o4).
          destruct (cmt_props p2 o4) as (CS & CV & CR).
          rewrite put_put. rewrite (shape_oflag (cmt p2 o4) o CFGF_LIST) by (try reflexivity; congruence). rewrite HL.
          exists (S f3'), w4, (put_opt c3 r (cmt p2 o4)), (cmt p2 o4), L3, ts3, (st_state (st_comment p2 None) 0). spl; auto; try lia.
          -- eapply ceq_trans; [apply ceq_put, C3|]. unfold c2. rewrite put_put. apply ceq_put, C1.
          -- congruence.
          -- rewrite CV, RV. fold (cur o1). rewrite CUR1. reflexivity.
          -- eapply get_put; exact Hg3.
          -- unfold pz; cbn; auto.
        * rewrite R. do 2 eexists. split; [reflexivity|]. eapply wst_oof, WK, W3.
      + subst t3. cbn [tok_is_str negb]. rewrite andb_false_r.
        do 2 eexists. split; [reflexivity|]. eapply wst_oof, wst_add_diags, W3. }
  destruct (x =? 43)%N eqn:X43.
  - apply N.eqb_eq in X43. subst x. cbn [N.eqb Pos.eqb orb].
    destruct (oflag o CFGF_LIST) eqn:HL; cbn [negb andb].
    + specialize (STEP (o_setf (o_clrf o CFGF_RESET) CFGF_MODIFIED)). cbn [N.eqb Pos.eqb] in STEP.
      apply STEP.
      * rewrite shape_setf, shape_clrf by reflexivity. reflexivity.
      * unfold cur. rewrite oflag_setf, oflag_clrf_same. cbn. rewrite o_vals_setf, o_vals_clrf. reflexivity.
      * discriminate.
    + do 2 eexists. split; [reflexivity|]. eapply wst_oof, wst_add_diags, W1.
  - rewrite orb_false_r. destruct (x =? 61)%N eqn:X61.
    + cbn [andb]. specialize (STEP (o_setf (o_setf o CFGF_RESET) CFGF_MODIFIED)).
      apply STEP.
      * rewrite !shape_setf by reflexivity. reflexivity.
      * unfold cur. rewrite !oflag_setf. cbn. rewrite orb_true_r. reflexivity.
      * intros _. rewrite !oflag_setf. cbn. rewrite orb_true_r. reflexivity.
    + do 2 eexists. split; [reflexivity|]. eapply wst_oof, wst_add_diags, W1.
Qed.


(* ---------- unknown items under CFGF_IGNORE_UNKNOWN: states 10 - 14 against Grammar.skip_unknown ---------- *)
Definition skip_ok e X fuel w c level p (ts : list ltok) (res : option (list gtok)) : Prop :=
  match res with
  | Some rest => exists fuel' w' c' L' ts' p',
      PI fuel w c level p = PI fuel' w' c' level p' /\ ceq c' c /\ pz p p' /\
      wst w' e L' /\ yieldsc e L' ts' /\ gtoks ts' = rest /\ measure L' + length ts' + S X < fuel' /\ length ts' < length ts /\ fuel' <= fuel
  | None => exists w' c', PI fuel w c level p = (w', c', PERR) /\ w_oof w' = false
  end.

Lemma is_p_GP x c : is_p (GP x) c = (x =? c)%N. Proof. reflexivity. Qed.

Lemma skip_until_sim e X (cN : N) : (cN = 41 \/ cN = 125)%N -> forall n ts, length ts <= n -> forall L w c level p fuel,
  wst w e L -> yieldsc e L ts -> s_state p = 13 -> s_ignore p = cN ->
  measure L + length ts + S X < fuel ->
  skip_ok e X fuel w c level p ts (skip_until cN (gtoks ts)).
Proof.
  intros HcN. induction n as [|n IH]; intros ts Hn L w c level p fuel Hw Hy Hs Hi Hf.
  - destruct ts; [|cbn in Hn; lia]. pose proof (fetch_nz e X [] L w c level p fuel Hw Hy ltac:(lia) Hf) as FN. exact FN.
  - pose proof (fetch_nz e X ts L w c level p fuel Hw Hy ltac:(lia) Hf) as FN.
    destruct (gtoks ts) as [|g rest] eqn:G; [exact FN|].
    destruct FN as (f1 & w1 & c1 & L1 & ts1 & t & v & E1 & C1 & W1 & Y1 & G1 & F1 & Len1 & TV & FLLen1).
    cbn [skip_until]. unfold skip_ok. rewrite E1. unfold st_dispatch. rewrite Hs. unfold st13. rewrite Hi.
    assert (TC : (tok_code t =? cN)%N = is_p g cN).
    { destruct g as [sv|x]; cbn [tokval] in TV.
      - destruct TV as [-> ->]. cbn. destruct HcN; subst; reflexivity.
      - subst t. reflexivity. }
    rewrite TC. destruct (is_p g cN).
    + exists f1, w1, c1, L1, ts1, (st_state (st_ignore p 0) 0). spl; auto; try lia. unfold pz; cbn; auto.
    + specialize (IH ts1 ltac:(lia) L1 w1 c1 level p f1 W1 Y1 Hs Hi F1). rewrite G1 in IH.
      unfold skip_ok in IH. destruct (skip_until cN rest) as [rest'|]; [|exact IH].
      destruct IH as (f2 & w2 & c2 & L2 & ts2 & p2 & E2 & C2 & P2 & W2 & Y2 & G2 & F2 & Len2 & FLLen2).
      exists f2, w2, c2, L2, ts2, p2. spl; auto; try lia. eapply ceq_trans; eauto.
Qed.

Lemma skip_ok_chain e X fuel w c level p ts f1 w1 c1 p1 ts1 res :
  PI fuel w c level p = PI f1 w1 c1 level p1 -> ceq c1 c -> length ts1 <= length ts -> f1 <= fuel ->
  s_opt p1 = s_opt p -> s_title p1 = s_title p -> s_forced p1 = s_forced p ->
  skip_ok e X f1 w1 c1 level p1 ts1 res -> skip_ok e X fuel w c level p ts res.
Proof.
  intros E C Len FL A1 A2 A3 R. unfold skip_ok in *. rewrite E. destruct res as [rest|]; [|exact R].
  destruct R as (f2 & w2 & c2 & L2 & ts2 & p2 & E2 & C2 & P2 & W2 & Y2 & G2 & F2 & Len2 & FLLen2).
  exists f2, w2, c2, L2, ts2, p2. spl; auto; try lia.
  - eapply ceq_trans; eauto.
  - destruct P2 as (B1 & B2 & B3 & B4). unfold pz. spl; congruence.
Qed.

Lemma tok_is_g g t v c : tokval g t v -> tok_is t c = is_p g c.
Proof. destruct g as [sv|x]; cbn [tokval]; [intros [-> ->]|intros ->]; reflexivity. Qed.
Lemma tok_is_str_g g t v : tokval g t v -> tok_is_str t = match g with GS _ => true | GP _ => false end.
Proof. destruct g as [sv|x]; cbn [tokval]; [intros [-> ->]|intros ->]; reflexivity. Qed.

Lemma skip_braces_sim e X : forall n ts, length ts <= n -> forall L w c level p fuel d,
  wst w e L -> yieldsc e L ts -> s_state p = 12 -> s_skip p = S d ->
  measure L + length ts + S X < fuel ->
  skip_ok e X fuel w c level p ts (skip_braces d (gtoks ts)).
Proof.
  induction n as [|n IH]; intros ts Hn L w c level p fuel d Hw Hy Hs Hk Hf.
  - destruct ts; [|cbn in Hn; lia]. pose proof (fetch_nz e X [] L w c level p fuel Hw Hy ltac:(lia) Hf) as FN. exact FN.
  - pose proof (fetch_nz e X ts L w c level p fuel Hw Hy ltac:(lia) Hf) as FN.
    destruct (gtoks ts) as [|g rest] eqn:G; [exact FN|].
    destruct FN as (f1 & w1 & c1 & L1 & ts1 & t & v & E1 & C1 & W1 & Y1 & G1 & F1 & Len1 & TV & FLLen1).
    cbn [skip_braces].
    assert (E : PI fuel w c level p =
                if is_p g 123 then PI f1 w1 c1 level (st_skip p (S (S d)))
                else if is_p g 125 then (if Nat.eqb (S d) 1 then PI f1 w1 c1 level (st_state (st_skip p 0) 0) else PI f1 w1 c1 level (st_skip p d))
                else PI f1 w1 c1 level p).
    { rewrite E1. unfold st_dispatch. rewrite Hs. unfold st12. rewrite Hk, !(tok_is_g g t v _ TV). reflexivity. }
    subst rest.
    destruct (is_p g 123).
    + eapply (skip_ok_chain e X fuel w c level p ts f1 w1 c1 _ ts1); [exact E|exact C1|lia|lia|reflexivity..|]. eapply IH; eauto; cbn; lia.
    + destruct (is_p g 125).
      * destruct d as [|d']; cbn [Nat.eqb] in E.
        -- unfold skip_ok. rewrite E. exists f1, w1, c1, L1, ts1, (st_state (st_skip p 0) 0). spl; auto; try lia. unfold pz; cbn; auto.
        -- eapply (skip_ok_chain e X fuel w c level p ts f1 w1 c1 _ ts1); [exact E|exact C1|lia|lia|reflexivity..|]. eapply IH; eauto; cbn; lia.
      * eapply (skip_ok_chain e X fuel w c level p ts f1 w1 c1 _ ts1); [exact E|exact C1|lia|lia|reflexivity..|]. eapply IH; eauto; cbn; lia.
Qed.

(* the whole unknown item, the name having been read: state 10 *)
Lemma skip_sim e X : forall ts L w c level p fuel,
  wst w e L -> yieldsc e L ts -> s_state p = 10 ->
  measure L + length ts + S X < fuel ->
  skip_ok e X fuel w c level p ts (skip_unknown (gtoks ts)).
Proof.
  intros ts L w c level p fuel Hw Hy Hs Hf.
  pose proof (fetch_nz e X ts L w c level p fuel Hw Hy ltac:(lia) Hf) as FN.
  destruct (gtoks ts) as [|g rest] eqn:G; [exact FN|].
  destruct FN as (f1 & w1 & c1 & L1 & ts1 & t & v & E1 & C1 & W1 & Y1 & G1 & F1 & Len1 & TV & FLLen1).
  cbn [skip_unknown].
  set (p0 := st_comment p None).
  assert (E : PI fuel w c level p =
     if is_p g 43 || is_p g 61 then PI f1 w1 c1 level (st_state p0 14)
     else if is_p g 40 then PI f1 w1 c1 level (st_state (st_ignore p0 41) 13)
     else if is_p g 123 then PI f1 w1 c1 level (st_state (st_skip p0 1) 12)
     else if match g with GS _ => true | GP _ => false end then PI f1 w1 c1 level (st_state p0 11)
     else errd w1 c1 "unexpected token '%s'").
  { rewrite E1. unfold st_dispatch. rewrite Hs. unfold st10. rewrite !(tok_is_g g t v _ TV), (tok_is_str_g g t v TV). reflexivity. }
  subst rest. rewrite (orb_comm (is_p g 61)).
  destruct (is_p g 43 || is_p g 61).
  - (* state 14 *)
    pose proof (fetch_nz e X ts1 L1 w1 c1 level (st_state p0 14) f1 W1 Y1 ltac:(cbn; lia) F1) as FN2.
    destruct (gtoks ts1) as [|g2 rest2] eqn:G2.
    { unfold skip_ok. rewrite E. exact FN2. }
    destruct FN2 as (f2 & w2 & c2 & L2 & ts2 & t2 & v2 & E2 & C2 & W2 & Y2 & GG2 & F2 & Len2 & TV2 & FLLen2).
    assert (E' : PI fuel w c level p =
       if is_p g2 123 then PI f2 w2 c2 level (st_state (st_ignore (st_state p0 14) 125) 13)
       else if negb (match g2 with GS _ => true | GP _ => false end) then errd w2 c2 "unexpected token '%s'"
       else PI f2 w2 c2 level (st_state (st_state p0 14) 0)).
    { rewrite E, E2. unfold st_dispatch. cbn [s_state st_state]. unfold st14. rewrite !(tok_is_g g2 t2 v2 _ TV2), (tok_is_str_g g2 t2 v2 TV2). reflexivity. }
    destruct g2 as [sv|y].
    + cbn [is_p negb] in E'. unfold skip_ok. rewrite E'.
      exists f2, w2, c2, L2, ts2, (st_state (st_state p0 14) 0). spl; auto; try lia.
      * eapply ceq_trans; eauto.
      * unfold pz; cbn; auto.
    + rewrite is_p_GP in *. cbn [negb] in E'. destruct (y =? 123)%N.
      * eapply (skip_ok_chain e X fuel w c level p ts f2 w2 c2 _ ts2); [exact E'|eapply ceq_trans; eauto|lia|lia|reflexivity..|]. subst rest2.
        eapply (skip_until_sim e X 125%N (or_intror eq_refl) (length ts2) ts2 (le_n _)); eauto.
      * unfold skip_ok. rewrite E'. do 2 eexists. split; [reflexivity|]. eapply wst_oof, wst_add_diags, W2.
  - destruct (is_p g 40).
    + eapply (skip_ok_chain e X fuel w c level p ts f1 w1 c1 _ ts1); [exact E|exact C1|lia|lia|reflexivity..|].
      eapply (skip_until_sim e X 41%N (or_introl eq_refl) (length ts1) ts1 (le_n _)); eauto.
    + destruct (is_p g 123).
      * eapply (skip_ok_chain e X fuel w c level p ts f1 w1 c1 _ ts1); [exact E|exact C1|lia|lia|reflexivity..|].
        eapply (skip_braces_sim e X (length ts1) ts1 (le_n _)); eauto.
      * destruct g as [sv|x].
        -- (* state 11 *)
           pose proof (fetch_nz e X ts1 L1 w1 c1 level (st_state p0 11) f1 W1 Y1 ltac:(cbn; lia) F1) as FN2.
           destruct (gtoks ts1) as [|g2 rest2] eqn:G2.
           { unfold skip_ok. rewrite E. exact FN2. }
           destruct FN2 as (f2 & w2 & c2 & L2 & ts2 & t2 & v2 & E2 & C2 & W2 & Y2 & GG2 & F2 & Len2 & TV2 & FLLen2).
           assert (E' : PI fuel w c level p =
              if negb (is_p g2 123) then errd w2 c2 "unexpected token '%s'"
              else PI f2 w2 c2 level (st_state (st_skip (st_state p0 11) 1) 12)).
           { rewrite E, E2. unfold st_dispatch. cbn [s_state st_state]. unfold st11. rewrite !(tok_is_g g2 t2 v2 _ TV2). reflexivity. }
           destruct (is_p g2 123); cbn [negb] in E'.
           ++ eapply (skip_ok_chain e X fuel w c level p ts f2 w2 c2 _ ts2); [exact E'|eapply ceq_trans; eauto|lia|lia|reflexivity..|]. subst rest2.
              eapply (skip_braces_sim e X (length ts2) ts2 (le_n _)); eauto.
           ++ unfold skip_ok. rewrite E'. do 2 eexists. split; [reflexivity|]. eapply wst_oof, wst_add_diags, W2.
        -- unfold skip_ok. rewrite E. do 2 eexists. split; [reflexivity|]. eapply wst_oof, wst_add_diags, W1.
Qed.

End WithOracles.
