(* PP_Setopt.v — C01: unfolding equations for cfg_setopt and cfg_init_defaults. *)
From Coq Require String.
From Coq Require Import List Arith NArith ZArith Bool.
From Coq.Strings Require Import Byte.
From LC Require Import Bytes Consts Conv Flex LexAct Lexer Files Store Parser.
Import ListNotations.
Import String.StringSyntax.
Local Open Scope string_scope.
Local Open Scope list_scope.

Section WithOracles.
Variable strtod_o : str -> strtod_res.
Notation PI := (parse_internal strtod_o).
Notation SO := (setopt strtod_o).
Notation ID := (init_defaults strtod_o).

(* RESET: drop what is there *)
Definition so_reset (w : pw) (o : opt) : pw * opt :=
  if oflag o CFGF_RESET then let '(x, fr) := free_value o in (log_frees w fr, o_clrf x CFGF_RESET) else (w, o).

Definition title_look (nocase : bool) (txt : option str) : list value -> nat -> option nat + unit :=
  fix look (vals : list value) (i : nat) : option nat + unit :=
  match vals with
  | [] => inl None
  | VSec (Some s) :: r =>
      match c_title s, txt with
      | Some t, Some v => if name_eqb nocase v t then inl (Some i) else look r (S i)
      | _, _ => inr tt
      end
  | _ :: _ => inr tt
  end.

Definition so_slot (w0 : pw) (c : cfg) (o0 : opt) (txt : option str) : option (pw * opt * nat) :=
  let n := length (o_vals o0) in
  if Nat.eqb n 0 || oflag o0 CFGF_MULTI || oflag o0 CFGF_LIST then
    if kind_eqb (o_kind o0) KSec && oflag o0 CFGF_TITLE then
      if negb (Nat.eqb n 0) && match txt with None => true | Some _ => false end then None
      else
        match title_look (cflag c CFGF_NOCASE) txt (o_vals o0) 0%nat with
        | inr _ => Some (set_crash w0 "null-deref:cfg_setopt:title", addval o0, n)
        | inl (Some i) => if oflag o0 CFGF_NO_TITLE_DUPES then None else Some (w0, o0, i)
        | inl None => Some (w0, addval o0, n)
        end
    else Some (w0, addval o0, n)
  else Some (w0, o0, 0%nat).

Definition so_store (o1 : opt) (idx : nat) (w : pw) (v : value) : pw * opt * option nat :=
  (w, o_setf (set_vals o1 (upd_nth (o_vals o1) idx (fun _ => v))) CFGF_MODIFIED, Some idx).

Definition so_kind (f : nat) (c : cfg) (txt : option str) (w1 : pw) (o1 : opt) (idx : nat) : pw * opt * option nat :=
  let store := so_store o1 idx in
  match o_kind o1 with
  | KInt =>
      match cb_parse (o_cbs o1) with
      | Some k => let '(w2, fl) := run_parsecb w1 k o1 txt in
                  if fl then (w2, o1, None) else store w2 (VInt (Z.of_nat (strlen_opt txt) + Z.of_N k))
      | None =>
          match txt with
          | None => (w1, o1, None)
          | Some v =>
              match conv_int v with
              | COk z => store w1 (VInt z)
              | CInvalid => (add_diags w1 (cfg_diag c "invalid integer value for option '%s'"), o1, None)
              | CRange => (add_diags w1 (cfg_diag c "integer value for option '%s' is out of range"), o1, None)
              end
          end
      end
  | KFloat =>
      match cb_parse (o_cbs o1) with
      | Some k => let '(w2, fl) := run_parsecb w1 k o1 txt in
                  if fl then (w2, o1, None)
                  else store w2 (VFloat (double_of_N (N.of_nat (strlen_opt txt) + k)))
      | None =>
          match txt with
          | None => (w1, o1, None)
          | Some v =>
              match conv_float strtod_o v with
              | COk b => store w1 (VFloat b)
              | CInvalid => (add_diags w1 (cfg_diag c "invalid floating point value for option '%s'"), o1, None)
              | CRange => (add_diags w1 (cfg_diag c "floating point value for option '%s' is out of range"), o1, None)
              end
          end
      end
  | KStr =>
      match cb_parse (o_cbs o1) with
      | Some k => let '(w2, fl) := run_parsecb w1 k o1 txt in
                  if fl then (w2, o1, None) else store w2 (VStr (Some (rev (sval txt))))
      | None =>
          match txt with
          | None => (w1, o1, None)
          | Some v => store w1 (VStr (Some v))
          end
      end
  | KBool =>
      match cb_parse (o_cbs o1) with
      | Some k => let '(w2, fl) := run_parsecb w1 k o1 txt in
                  if fl then (w2, o1, None) else store w2 (VBool (Nat.odd (strlen_opt txt)))
      | None =>
          match txt with
          | None => (add_diags w1 (cfg_diag c "invalid boolean value for option '%s'"), o1, None)
          | Some v =>
              match conv_bool v with
              | Some b => store w1 (VBool b)
              | None => (add_diags w1 (cfg_diag c "invalid boolean value for option '%s'"), o1, None)
              end
          end
      end
  | KPtr =>
      match cb_parse (o_cbs o1) with
      | None => (add_diags w1 (cfg_diag c "no value parser for option '%s'"), o1, None)
      | Some k =>
          let '(w2, fl) := run_parsecb w1 k o1 txt in
          if fl then (w2, o1, None)
          else
            let id := w_nextptr w2 in
            let w3 := set_nextptr w2 (id + 1)%N in
            let w4 := match nth_error (o_vals o1) idx with
                      | Some (VPtr old) => if cb_free (o_cbs o1) && negb (old =? 0)%N then add_cb w3 (CbFree old) else w3
                      | _ => w3 end in
            store w4 (VPtr id)
      end
  | KSec =>
      let existing := match nth_error (o_vals o1) idx with Some (VSec (Some s)) => Some s | _ => None end in
      let '(w3, sec') :=
        if oflag o1 CFGF_MULTI || match existing with None => true | Some _ => false end then
          let w' := match existing with Some s => log_frees w1 (frees_c s) | None => w1 end in
          ID f w'
            (Cfg (o_name o1) txt
                 (if oflag o1 CFGF_KEYSTRVAL then setf (c_flags c) CFGF_KEYSTRVAL else c_flags c)
                 (o_sub o1) (c_file c) (c_line c) (c_err c) None)
        else (w1, match existing with Some s => s | None => Cfg [] None 0 [] None 0 false None end) in
      store w3 (VSec (Some sec'))
  | _ => (add_diags w1 (cfg_diag c "internal error in cfg_setopt(%s, %s)"), o1, None)
  end.

Definition so_body (f : nat) (w : pw) (c : cfg) (o : opt) (txt : option str) : pw * opt * option nat :=
  let '(w0, o0) := so_reset w o in
  match so_slot w0 c o0 txt with
  | None =>
      let dup := kind_eqb (o_kind o0) KSec && oflag o0 CFGF_TITLE && oflag o0 CFGF_NO_TITLE_DUPES
                 && match txt with Some _ => true | None => false end in
      ((if dup then add_diags w0 (cfg_diag c "found duplicate title '%s'") else w0), o0, None)
  | Some (w1, o1, idx) => so_kind f c txt w1 o1 idx
  end.

Lemma so_unfold f w c o txt : SO (S f) w c o txt = so_body f w c o txt.
Proof. reflexivity. Qed.

(* ---- cfg_init_defaults ---- *)
Definition id_dup (c : cfg) (o : opt) (i : nat) : bool :=
  existsb (fun j => match nth_error (c_opts c) j with
                    | Some oj => name_eqb (has (N.lor (o_flags o) (o_flags oj)) CFGF_NOCASE) (o_name o) (o_name oj)
                    | None => false end) (seq 0 i).

Definition id_setn (o1 : opt) (v : value) : opt :=
  match opt_getval o1 0 with
  | Some (o2, idx, _) => o_setf (set_vals o2 (upd_nth (o_vals o2) idx (fun _ => v))) CFGF_MODIFIED
  | None => o1
  end.

Definition id_scalar (o1 : opt) : opt :=
  let d := o_def o1 in
  let o2 := match o_kind o1 with
            | KInt => id_setn o1 (VInt (d_num d))
            | KFloat => id_setn o1 (VFloat (d_fp d))
            | KBool => id_setn o1 (VBool (d_bool d))
            | KStr => id_setn o1 (VStr (d_str d))
            | _ => o1
            end in
  o_clrf (o_setf o2 CFGF_RESET) CFGF_MODIFIED.

Definition id_loop (f : nat) : list opt -> nat -> pw -> cfg -> pw * cfg :=
  fix id_loop' (todo : list opt) (i : nat) (w : pw) (c : cfg) {struct todo} : pw * cfg :=
  match todo with
  | [] => (w, c)
  | _ :: todo' =>
    match nth_error (c_opts c) i with
    | None => (w, c)
    | Some o =>
      let w := if id_dup c o i then add_diags w (cfg_diag c "duplicate option '%s' not allowed") else w in
      if oflag o CFGF_NODEFAULT then id_loop' todo' (S i) w c
      else if negb (kind_eqb (o_kind o) KSec) then
        let o1 := o_setf o CFGF_DEFINIT in
        let c1 := put_opt c ([], i) o1 in
        if oflag o1 CFGF_LIST || match d_parsed (o_def o1) with Some _ => true | None => false end then
          match d_parsed (o_def o1) with
          | None => id_loop' todo' (S i) w c1
          | Some [] => id_loop' todo' (S i) w c1
          | Some buf =>
              let xstate := if oflag o1 CFGF_LIST then 3%nat
                            else if kind_eqb (o_kind o1) KFunc then 0%nat else 2%nat in
              let w1 := upd_lex w (scan_begin (w_lex w) (cstr buf)) in
              let '(w2, c2, rc) := PI f w1 c1 1 (pst0 xstate (Some ([], i))) in
              let w3 := upd_lex w2 (scan_end (w_lex w2)) in
              match rc with
              | PERR => (set_crash w3 "abort:cfg_init_defaults", c2)
              | _ => let c3 := upd_opt c2 ([], i) (fun x => o_clrf (o_setf x CFGF_RESET) CFGF_MODIFIED) in
                     id_loop' todo' (S i) w3 c3
              end
          end
        else id_loop' todo' (S i) w (put_opt c ([], i) (id_scalar o1))
      else if negb (oflag o CFGF_MULTI) then
        let '(w1, o1, _) := SO f w c o None in
        id_loop' todo' (S i) w1 (put_opt c ([], i) (o_setf o1 CFGF_DEFINIT))
      else id_loop' todo' (S i) w c
    end
  end.

Lemma id_unfold f w c : ID (S f) w c = id_loop f (c_opts c) 0 w c.
Proof. reflexivity. Qed.

Lemma id_zero w c : ID 0 w c = (set_oof w, c).
Proof. reflexivity. Qed.
Lemma so_zero w c o txt : SO 0 w c o txt = (set_oof w, o, None).
Proof. reflexivity. Qed.

End WithOracles.
