(* Lexer.v — the scanner of lexer.l as an executable model: flex's matching loop
   over the GENERATED rule table, the scratch buffer, the action semantics and
   the end-of-input rules.  No proofs here. *)
From Coq Require Import List Arith NArith Bool.
From Coq Require String.
Import String.StringSyntax.
Local Open Scope string_scope.
Local Open Scope list_scope.
From Coq.Strings Require Import Byte.
From LC Require Import Bytes Flex LexAct LexRules Consts.
Import ListNotations.
Local Open Scope N_scope.

(* ---------- tokens, positions, diagnostics ---------- *)

Inductive tok := TStr | TComment | TPunct (c : N) | TEof | TErr.

Record pos := { p_file : option str; p_line : N }.
Record diag := { d_file : option str; d_line : N; d_fmt : str }.

Definition M (s : String.string) : str := bs_of_string s.
Definition mkdiag (p : pos) (s : String.string) : diag := {| d_file := p_file p; d_line := p_line p; d_fmt := M s |}.

Definition line_incr (p : pos) : pos := {| p_file := p_file p; p_line := p_line p + 1 |}.
Definition count_nl (s : str) : N := N.of_nat (length (filter (fun c => Byte.eqb c x0a) s)).
Definition add_lines (p : pos) (n : N) : pos := {| p_file := p_file p; p_line := p_line p + n |}.

(* ---------- environment ---------- *)

Definition envt := list (str * str).     (* most recent binding first *)

Fixpoint is_prefix (a b : str) : bool :=
  match a, b with
  | [], _ => true
  | x :: a', y :: b' => Byte.eqb x y && is_prefix a' b'
  | _ :: _, [] => false
  end.

(* glibc getenv: NULL for the empty name; otherwise the first entry "N=V" that starts with name ++ "=" *)
Fixpoint getenv (e : envt) (name : str) : option str :=
  match name with
  | [] => None
  | _ =>
    match e with
    | [] => None
    | (n, v) :: e' =>
      let entry := n ++ x3d :: v in
      if is_prefix (name ++ [x3d]) entry then Some (skipn (S (length name)) entry) else getenv e' name
    end
  end.

(* ---------- scratch buffer (cfg_qstring, qstring_index, qstring_len) ---------- *)

Record qbuf := { q_null : bool;          (* cfg_qstring == NULL *)
                 q_len : nat;            (* qstring_len; allocated = q_len + 1 when not NULL *)
                 q_idx : nat;            (* qstring_index *)
                 q_rev : list byte }.    (* bytes [0, q_idx) most recent first *)

Definition q_empty : qbuf := {| q_null := true; q_len := 0; q_idx := 0; q_rev := [] |}.

Definition qputc (q : qbuf) (c : byte) : qbuf :=
  let grow := Nat.leb (q_len q) (q_idx q) in
  {| q_null := if grow then false else q_null q;
     q_len := if grow then q_len q + CFG_QSTRING_BUFSIZ else q_len q;
     q_idx := S (q_idx q);
     q_rev := c :: q_rev q |}.

Definition qputs (q : qbuf) (s : str) : qbuf := fold_left qputc s q.

Definition q_reset (q : qbuf) : qbuf :=        (* qstring_index = 0 *)
  {| q_null := q_null q; q_len := q_len q; q_idx := 0; q_rev := [] |}.

Definition q_data (q : qbuf) : str := rev (q_rev q).

(* an access at index i of the scratch buffer is in bounds *)
Definition q_inb (q : qbuf) (i : nat) : bool := negb (q_null q) && Nat.leb i (q_len q).

(* trim_whitespace(cfg_qstring, qstring_index) after qbeg() zero-filled the buffer *)
Fixpoint drop_while (f : byte -> bool) (s : str) : str :=
  match s with [] => [] | c :: r => if f c then drop_while f r else s end.

Fixpoint rtrim_keep1_rev (r : list byte) : list byte :=   (* on the reversed data *)
  match r with
  | c :: ((_ :: _) as r') => if is_space c then rtrim_keep1_rev r' else r
  | _ => r
  end.

Definition trim_ws (data : str) : str :=
  match data with
  | [] => []
  | _ => drop_while is_space (rev (rtrim_keep1_rev (rev data)))
  end.

(* ---------- scanner state ---------- *)

Record incframe := { i_file : option str; i_line : N; i_buf : nat }.

Record lexst := {
  l_sc : sc;
  l_bufs : list (nat * list byte);   (* flex buffer stack, current first: (id, unread input) *)
  l_next : nat;                      (* next buffer id *)
  l_q : qbuf;
  l_inc : list incframe;             (* include stack, innermost first *)
  l_echo : list byte;                (* bytes the default rule wrote to stdout, most recent first *)
  l_rderr : bool                     (* cfg_input_failed: the current stream reported a read error *)
}.

Definition lex_init : lexst :=
  {| l_sc := INITIAL; l_bufs := []; l_next := 0; l_q := q_empty; l_inc := []; l_echo := []; l_rderr := false |}.

Definition set_sc (s : lexst) (c : sc) : lexst :=
  {| l_sc := c; l_bufs := l_bufs s; l_next := l_next s; l_q := l_q s; l_inc := l_inc s; l_echo := l_echo s; l_rderr := l_rderr s |}.
Definition set_q (s : lexst) (q : qbuf) : lexst :=
  {| l_sc := l_sc s; l_bufs := l_bufs s; l_next := l_next s; l_q := q; l_inc := l_inc s; l_echo := l_echo s; l_rderr := l_rderr s |}.
Definition set_bufs (s : lexst) (b : list (nat * list byte)) : lexst :=
  {| l_sc := l_sc s; l_bufs := b; l_next := l_next s; l_q := l_q s; l_inc := l_inc s; l_echo := l_echo s; l_rderr := l_rderr s |}.
Definition set_inc (s : lexst) (i : list incframe) : lexst :=
  {| l_sc := l_sc s; l_bufs := l_bufs s; l_next := l_next s; l_q := l_q s; l_inc := i; l_echo := l_echo s; l_rderr := l_rderr s |}.
Definition add_echo (s : lexst) (c : byte) : lexst :=
  {| l_sc := l_sc s; l_bufs := l_bufs s; l_next := l_next s; l_q := l_q s; l_inc := l_inc s; l_echo := c :: l_echo s; l_rderr := l_rderr s |}.
Definition clear_echo (s : lexst) : lexst :=
  {| l_sc := l_sc s; l_bufs := l_bufs s; l_next := l_next s; l_q := l_q s; l_inc := l_inc s; l_echo := []; l_rderr := l_rderr s |}.

(* cfg_scan_fp_begin: BEGIN(INITIAL); push a new buffer reading `inp` *)
Definition scan_begin (s : lexst) (inp : list byte) : lexst :=
  {| l_sc := INITIAL; l_bufs := (l_next s, inp) :: l_bufs s; l_next := S (l_next s);
     l_q := l_q s; l_inc := l_inc s; l_echo := l_echo s; l_rderr := false |}.

(* a stream whose first read fails (a directory): no data, the failure is pending *)
Definition scan_begin_failing (s : lexst) : lexst :=
  {| l_sc := INITIAL; l_bufs := (l_next s, []) :: l_bufs s; l_next := S (l_next s);
     l_q := l_q s; l_inc := l_inc s; l_echo := l_echo s; l_rderr := true |}.
(* a stream that delivers inp and then fails (EIO): the failure is pending while inp is scanned.  (Faithful as long
   as inp is shorter than flex's read-ahead and pushes no include: the C sets its flag when the failing read happens.) *)
Definition scan_begin_partial (s : lexst) (inp : list byte) : lexst :=
  {| l_sc := INITIAL; l_bufs := (l_next s, inp) :: l_bufs s; l_next := S (l_next s);
     l_q := l_q s; l_inc := l_inc s; l_echo := l_echo s; l_rderr := true |}.
Definition clear_rderr (s : lexst) : lexst :=
  {| l_sc := l_sc s; l_bufs := l_bufs s; l_next := l_next s; l_q := l_q s; l_inc := l_inc s; l_echo := l_echo s; l_rderr := false |}.

(* cfg_scan_fp_end: free the scratch buffer; pop the current buffer *)
Definition scan_end (s : lexst) : lexst :=
  {| l_sc := INITIAL; l_bufs := tl (l_bufs s); l_next := l_next s;
     l_q := q_empty; l_inc := l_inc s; l_echo := l_echo s; l_rderr := l_rderr s |}.

(* cfg_yylex_destroy: everything back to the initial state (echo is not scanner state) *)
Definition lex_destroy (s : lexst) : lexst :=
  {| l_sc := INITIAL; l_bufs := []; l_next := l_next s; l_q := l_q s; l_inc := l_inc s; l_echo := l_echo s; l_rderr := l_rderr s |}.

Definition cur_buf_id (s : lexst) : option nat :=
  match l_bufs s with [] => None | (id, _) :: _ => Some id end.

(* ---------- rule selection ---------- *)

Definition sc_mem (c : sc) (l : list sc) : bool := existsb (sc_eqb c) l.
Definition active_rules (c : sc) : list rule := filter (fun r => sc_mem c (r_sc r)) rules.
Definition active_res (c : sc) : list re := map r_re (active_rules c).

Definition eof_action_of (c : sc) : option eof_action :=
  match find (fun r => match e_sc r with [] => true | l => sc_mem c l end) eof_rules with
  | Some r => Some (e_act r)
  | None => None
  end.

(* ---------- action semantics ---------- *)

Inductive outcome :=
| Continue (s : lexst) (p : pos)
| Return (t : tok) (v : option str) (s : lexst) (p : pos) (d : list diag).

(* qbeg(comment): BEGIN; index = 0; zero-fill *)
Definition qbeg (s : lexst) (c : sc) : lexst := set_q (set_sc s c) (q_reset (l_q s)).

(* qend(cfg, 1, ret): BEGIN(INITIAL); an untouched NULL buffer is materialised; trim *)
Definition qend_trim (s : lexst) : lexst * str :=
  let q := l_q s in
  let q' := if q_null q then q_reset (qputc q x00) else q in
  (set_q (set_sc s INITIAL) q', trim_ws (q_data q')).

Fixpoint drop_run (c : byte) (s : str) : str :=
  match s with [] => [] | x :: r => if Byte.eqb x c then drop_run c r else s end.

(* value of up to three octal / two hex digits, as sscanf("%o"/"%x") reads them *)
Definition digits_val (base : N) (ds : str) : N :=
  fold_left (fun acc c => match digit_val c with Some d => acc * base + d | None => acc end) ds 0.

(* the ${NAME[:-default]} text:  yytext[strlen-1] = 0; e = strchr(yytext+2, ':'); ... *)
Fixpoint split_colon_dash (s : str) (acc : str) : str * option str :=
  match s with
  | [] => (rev acc, None)
  | c :: r =>
    if Byte.eqb c x3a then
      match r with
      | d :: r' => if Byte.eqb d x2d then (rev acc, Some r') else (rev acc ++ s, None)
      | [] => (rev acc ++ s, None)
      end
    else split_colon_dash r (c :: acc)
  end.

Definition env_lookup (e : envt) (yytext : str) : option str :=
  let t := cstr yytext in
  let body := skipn 2 (removelast t) in
  let '(name, dflt) := split_colon_dash body [] in
  match getenv e name with
  | Some v => Some v
  | None => dflt
  end.

Definition run_action (e : envt) (a : action) (yytext : str) (s : lexst) (p : pos) : outcome :=
  let q := l_q s in
  match a with
  | A_skip => Continue s p
  | A_line => Continue s (line_incr p)
  | A_qstr skipc =>
      let s1 := qbeg s comment in
      let s2 := set_q s1 (qputs (l_q s1) (cstr (drop_run (Nb skipc) yytext))) in
      let '(s3, v) := qend_trim s2 in
      Return TComment (Some v) s3 p []
  | A_punct t => Return (TPunct t) (Some (cstr yytext)) s p []
  | A_begin_comment => Continue (qbeg s comment) p
  | A_qput => Continue (set_q s (qputs q (cstr yytext))) p
  | A_qput_nl => Continue (set_q s (qputs q (cstr yytext))) (line_incr p)
  | A_qend_comment => let '(s', v) := qend_trim s in Return TComment (Some v) s' p []
  | A_begin_dq => Continue (set_sc (set_q s (q_reset q)) dq_str) p
  | A_begin_sq => Continue (set_sc (set_q s (q_reset q)) sq_str) p
  | A_str_end =>
      let v := cstr (q_data q) in
      Return TStr (Some v) (set_sc (set_q s (qputc q x00)) INITIAL) p []
  | A_env_dq =>
      match env_lookup e yytext with
      | Some v => Continue (set_q s (qputs q v)) (add_lines p (count_nl yytext))
      | None => Continue s (add_lines p (count_nl yytext))
      end
  | A_env_initial =>
      Return TStr (Some (match env_lookup e yytext with Some v => v | None => [] end)) s (add_lines p (count_nl yytext)) []
  | A_putc_nl_line => Continue (set_q s (qputc q x0a)) (line_incr p)
  | A_octal =>
      let v := digits_val 8 (skipn 1 yytext) in
      if 255 <? v then Return TErr None s p [mkdiag p "invalid octal number '%s'"]
      else Continue (set_q s (qputc q (Nb v))) p
  | A_bad_escape => Return TErr None s p [mkdiag p "bad escape sequence '%s'"]
  | A_hex => Continue (set_q s (qputc q (Nb (digits_val 16 (skipn 2 yytext))))) p
  | A_putc_lit c => Continue (set_q s (qputc q (Nb c))) p
  | A_putc_yy0 => Continue (set_q s (qputc q (nth 0 yytext x00))) p
  | A_putc_yy1 => Continue (set_q s (qputc q (nth 1 yytext x00))) p
  | A_putc_yy01 => Continue (set_q s (qputc (qputc q (nth 0 yytext x00)) (nth 1 yytext x00))) p
  | A_put_all => Continue (set_q s (qputs q (cstr yytext))) p
  | A_word => Return TStr (Some (cstr yytext)) s p []
  | A_unrecognised _ => Return TErr None s p [mkdiag p "<unrecognised action>"]
  end.

(* end of the current buffer *)
Definition run_eof (a : option eof_action) (s : lexst) (p : pos) : outcome * nat (* FILEs closed *) :=
  match a with
  | None => (Return TErr None s p [], 0%nat)
  | Some E_sq_unterminated => (Return TErr None s p [mkdiag p "unterminated string constant"], 0%nat)
  | Some E_unterminated => (Return TErr None s p [mkdiag p "unterminated %s"], 0%nat)
  | Some (E_unrecognised _) => (Return TErr None s p [mkdiag p "<unrecognised action>"], 0%nat)
  | Some E_pop_or_eof =>
      if l_rderr s then (Return TErr None (clear_rderr s) p [mkdiag p "read error"], 0%nat) else
      match l_inc s with
      | [] => (Return TEof None s p [], 0%nat)
      | f :: rest =>
          if match cur_buf_id s with Some id => Nat.eqb id (i_buf f) | None => false end
          then (Continue (scan_end (set_inc s rest)) {| p_file := i_file f; p_line := i_line f |}, 1%nat)
          else (Return TEof None s p [], 0%nat)
      end
  end.

(* ---------- cfg_yylex ---------- *)

Record lexres := { r_tok : tok; r_val : option str; r_st : lexst; r_pos : pos;
                   r_diags : list diag; r_closed : nat; r_fuel_out : bool }.

(* one iteration of the scanning loop *)
Inductive lstep :=
| LCont (s : lexst) (p : pos) (k : nat)                                   (* keep scanning; k FILEs closed *)
| LRet (t : tok) (v : option str) (s : lexst) (p : pos) (d : list diag) (k : nat).

Definition lex_step (e : envt) (s : lexst) (p : pos) : lstep :=
  match l_bufs s with
  | [] => LRet TEof None s p [] 0
  | (id, inp) :: others =>
    match munch (active_res (l_sc s)) inp 0 None with
    | Some (i, n) =>
        let yytext := firstn n inp in
        let s1 := set_bufs s ((id, skipn n inp) :: others) in
        match nth_error (active_rules (l_sc s)) i with
        | None => LRet TErr None s1 p [] 0
        | Some r =>
          match run_action e (r_act r) yytext s1 p with
          | Continue s2 p2 => LCont s2 p2 0
          | Return t v s2 p2 d => LRet t v s2 p2 d 0
          end
        end
    | None =>
        match inp with
        | c :: rest => LCont (add_echo (set_bufs s ((id, rest) :: others)) c) p 0   (* flex default rule: ECHO one byte *)
        | [] =>
            match run_eof (eof_action_of (l_sc s)) s p with
            | (Continue s2 p2, k) => LCont s2 p2 k
            | (Return t v s2 p2 d, k) => LRet t v s2 p2 d k
            end
        end
    end
  end.

Fixpoint yylex (e : envt) (fuel : nat) (s : lexst) (p : pos) (closed : nat) : lexres :=
  match fuel with
  | O => {| r_tok := TErr; r_val := None; r_st := s; r_pos := p; r_diags := []; r_closed := closed; r_fuel_out := true |}
  | S fuel' =>
    match lex_step e s p with
    | LCont s2 p2 k => yylex e fuel' s2 p2 (k + closed)
    | LRet t v s2 p2 d k =>
        {| r_tok := t; r_val := v; r_st := s2; r_pos := p2; r_diags := d; r_closed := k + closed; r_fuel_out := false |}
    end
  end.

(* fuel that always suffices: every iteration consumes a byte or pops a buffer *)
Definition lex_fuel (s : lexst) : nat :=
  S (fold_left (fun acc b => acc + S (length (snd b)))%nat (l_bufs s) 0%nat).

(* the `lex` command: all tokens of one text *)
Record ltok := { lt_tok : tok; lt_val : option str; lt_line : N }.

Fixpoint lex_all (e : envt) (fuel : nat) (s : lexst) (p : pos) (acc : list ltok) (dacc : list diag)
  : list ltok * tok * lexst * pos * list diag :=
  match fuel with
  | O => (rev acc, TErr, s, p, dacc)
  | S fuel' =>
    let r := yylex e (lex_fuel s) s p 0 in
    match r_tok r with
    | TEof => (rev acc, TEof, r_st r, r_pos r, dacc ++ r_diags r)
    | TErr => (rev acc, TErr, r_st r, r_pos r, dacc ++ r_diags r)
    | t => lex_all e fuel' (r_st r) (r_pos r)
             ({| lt_tok := t; lt_val := r_val r; lt_line := p_line (r_pos r) |} :: acc) (dacc ++ r_diags r)
    end
  end.
