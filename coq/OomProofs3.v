(* ====================================================================== *)
(*  OomProofs3.v -- the C18 theorems in their final form                   *)
(*  ([run], [Sep], [Post], live blocks = reachable blocks)                 *)
(* ====================================================================== *)
Require Import List Arith Bool Lia Permutation.
Import ListNotations.
Require Import LC.Oom LC.OomProofs LC.OomProofs2.

(* the heap part of every theorem: WF again, frame / no leak, live = reachable *)
Definition HeapOK (h : heap) (L : cells) (h' : heap) (L' : cells) : Prop :=
  Sep h' L' /\ Post h L h' L' /\
  (forall a, live h' a <-> In a (addrs L') \/ (live h a /\ ~ In a (addrs L))).

Lemma pack h L h' L' : SepC h' L' -> PostC h L h' L' -> HeapOK h L h' L'.
Proof.
  intros HS HP. apply Sep_SepC in HS. apply PostC_Post in HP.
  split; [exact HS|]. split; [exact HP|]. apply live_iff; assumption.
Qed.

Lemma abs_opt_eq g g' :
  same_strs g g' -> abs_vals (g_vals g') = abs_vals (g_vals g) -> abs_opt g' = abs_opt g.
Proof. intros (A & B & C & D) E. unfold abs_opt. rewrite A, B, C, D, E. reflexivity. Qed.

(* ---------------------------------------------------------------------- *)
(* (1) cfg_addval                                                          *)
(* ---------------------------------------------------------------------- *)
Lemma C18_addval_lemma : forall h g k,
  Sep h (cells_gopt g) ->
  exists h' g' out,
    run (cfg_addval (rec_of_gopt g)) h k = Ok (rec_of_gopt g', out) (mkst h' (k - 2)) /\
    HeapOK h (cells_gopt g) h' (cells_gopt g') /\
    (hits k 2 -> out = Failed /\ abs_opt g' = abs_opt g) /\
    (~ hits k 2 -> exists cv, out = Done cv /\ abs_opt g' = add_value (abs_opt g) None /\
                              In cv (addrs (cells_gopt g'))).
Proof.
  intros h g k HS. apply Sep_SepC in HS.
  destruct (addval_spec h k g HS) as (h' & g' & out & Hrun & HS' & HP & Hsame & Hout).
  exists h', g', out. split; [exact Hrun|]. split; [apply pack; assumption|].
  destruct out as [cv|].
  - destruct Hout as [Hnh [arr Hv]]. split; [intros Hh; contradiction|].
    intros _. exists cv. split; [reflexivity|]. split.
    + destruct Hsame as (A & B & C & D). unfold abs_opt, add_value.
      cbn [a_name a_comment a_parsed a_dstring a_values]. rewrite A, B, C, D, Hv.
      cbn [abs_vals ga_vals]. rewrite map_app. cbn [map gv_str val_of].
      f_equal. f_equal. destruct (g_vals g); reflexivity.
    + apply cnt_In. destruct g' as [nm gp gd gc v]. cbn [g_vals] in Hv. subst v.
      rewrite cells_gopt_mk. cbn [cells_ovals]. rewrite cells_gvals_mk, flat_map_app.
      cbn [flat_map]. rewrite cells_gval_mk. cnorm. rewrite Nat.eqb_refl. cbn [b2n]. lia.
  - destruct Hout as [Hh Hv]. split; [|intros Hn; contradiction].
    intros _. split; [reflexivity|]. apply abs_opt_eq; assumption.
Qed.

(* ---------------------------------------------------------------------- *)
(* (2) cfg_opt_setnstr (strdup first, then cfg_opt_getval / cfg_addval)    *)
(* ---------------------------------------------------------------------- *)
Lemma C18_setnstr_lemma : forall h g k value index,
  Sep h (cells_gopt g) ->
  let nv := length (a_values (abs_opt g)) in
  let N := nreq_setnstr nv index value in
  exists h' g' out,
    run (cfg_opt_setnstr (rec_of_gopt g) value index) h k = Ok (rec_of_gopt g', out) (mkst h' (k - N)) /\
    HeapOK h (cells_gopt g) h' (cells_gopt g') /\
    (hits k N -> out = Failed /\ abs_opt g' = abs_opt g) /\
    (~ hits k N -> out = Done tt /\
       abs_opt g' = if index <? nv then set_value (abs_opt g) index value
                    else add_value (abs_opt g) value).
Proof.
  intros h g k value index HS nv N. apply Sep_SepC in HS.
  assert (Hnv : nv = length (vals_list (g_vals g))).
  { subst nv. unfold abs_opt. cbn [a_values]. destruct (g_vals g); cbn; [apply map_length|reflexivity]. }
  subst N. rewrite Hnv.
  destruct (setnstr_spec h k g value index HS) as (h' & g' & out & Hrun & HS' & HP & Hsame & Hout).
  cbn zeta in *.
  exists h', g', out. split; [exact Hrun|]. split; [apply pack; assumption|].
  assert (Habs : forall vs, abs_vals (g_vals g') = vs ->
            abs_opt g' = mkAOpt (a_name (abs_opt g)) (a_comment (abs_opt g)) (a_parsed (abs_opt g))
                                (a_dstring (abs_opt g)) vs).
  { intros vs <-. destruct Hsame as (A & B & C & D). unfold abs_opt.
    cbn [a_name a_comment a_parsed a_dstring]. rewrite A, B, C, D. reflexivity. }
  destruct out as [[]|]; destruct Hout as [Hh Hv].
  - split; [intros; contradiction|]. intros _. split; [reflexivity|].
    rewrite (Habs _ Hv). destruct (index <? _); reflexivity.
  - split; [|intros; contradiction]. intros _. split; [reflexivity|].
    apply abs_opt_eq; assumption.
Qed.

(* ---------------------------------------------------------------------- *)
(* (3) cfg_opt_setcomment                                                  *)
(* ---------------------------------------------------------------------- *)
Lemma C18_setcomment_lemma : forall h g k s,
  Sep h (cells_gopt g) ->
  exists h' g' out,
    run (cfg_opt_setcomment (rec_of_gopt g) s) h k = Ok (rec_of_gopt g', out) (mkst h' (k - 1)) /\
    HeapOK h (cells_gopt g) h' (cells_gopt g') /\
    (hits k 1 -> out = Failed /\ abs_opt g' = abs_opt g) /\
    (~ hits k 1 -> out = Done tt /\ abs_opt g' = set_comment (abs_opt g) s).
Proof.
  intros h g k s HS. apply Sep_SepC in HS.
  destruct (setcomment_spec h k g s HS) as (h' & g' & out & Hrun & HS' & HP & Hout).
  exists h', g', out. split; [exact Hrun|]. split; [apply pack; assumption|].
  destruct out as [[]|].
  - destruct Hout as [Hn [a ->]]. split; [intros; contradiction|]. intros _. split; reflexivity.
  - destruct Hout as [Hh ->]. split; [|intros; contradiction]. intros _. split; reflexivity.
Qed.

(* ---------------------------------------------------------------------- *)
(* (4) cfg_add_searchpath / cfg_tilde_expand                               *)
(* ---------------------------------------------------------------------- *)
Lemma C18_add_searchpath_lemma : forall h c k t,
  Sep h (cells_gcfg c) ->
  let N := nreq_texp t + 1 in
  exists h' c' out,
    run (cfg_add_searchpath (gc_addr c) t) h k = Ok out (mkst h' (k - N)) /\
    gc_addr c' = gc_addr c /\
    HeapOK h (cells_gcfg c) h' (cells_gcfg c') /\
    (hits k N -> out = Failed /\ c' = c) /\
    (~ hits k N -> out = Done tt /\ abs_cfg c' = add_path (abs_cfg c) (texp_result t)).
Proof.
  intros h c k t HS N. subst N. apply Sep_SepC in HS.
  destruct (add_searchpath_spec h k c t HS) as (h' & c' & out & Hrun & Ha & HS' & HP & Hout).
  cbn zeta in *.
  exists h', c', out. split; [exact Hrun|]. split; [exact Ha|]. split; [apply pack; assumption|].
  destruct out as [[]|]; destruct Hout as [Hh Hv].
  - split; [intros; contradiction|]. intros _. split; [reflexivity|exact Hv].
  - split; [|intros; contradiction]. intros _. split; [reflexivity|exact Hv].
Qed.

(* ---------------------------------------------------------------------- *)
(* (5) cfg_addopt (current code)                                           *)
(* ---------------------------------------------------------------------- *)
Lemma C18_addopt_lemma : forall h c k key,
  Sep h (cells_gcfg c) ->
  exists h' c' out,
    run (cfg_addopt (gc_addr c) key) h k = Ok out (mkst h' (k - 2)) /\
    gc_addr c' = gc_addr c /\
    HeapOK h (cells_gcfg c) h' (cells_gcfg c') /\
    (hits k 2 -> out = Failed /\ abs_cfg c' = abs_cfg c) /\
    (~ hits k 2 -> out = Done (gs_addr (gc_opts c'), length (c_opts (abs_cfg c))) /\
                   abs_cfg c' = add_opt (abs_cfg c) (new_aopt key)).
Proof.
  intros h c k key HS. apply Sep_SepC in HS.
  destruct (addopt_spec h k c key HS) as (h' & c' & out & Hrun & Ha & HS' & HP & Hout).
  exists h', c', out. split; [exact Hrun|]. split; [exact Ha|]. split; [apply pack; assumption|].
  destruct out as [[arr i]|].
  - destruct Hout as (Hn & -> & -> & Habs). split; [intros; contradiction|]. intros _.
    split; [|exact Habs]. unfold abs_cfg. cbn [c_opts]. rewrite map_length. reflexivity.
  - destruct Hout as [Hh Hv]. split; [|intros; contradiction]. intros _. split; [reflexivity|exact Hv].
Qed.

(* ---------------------------------------------------------------------- *)
(* (6) cfg_dupopt_array / cfg_free_opt_array, template without sub-options *)
(*     The source array is only read (it need not even be separated).      *)
(* ---------------------------------------------------------------------- *)
Lemma C18_dupopt_flat_lemma : forall fuel h Gs k,
  template Gs -> Holds h (cells_gopts Gs) ->
  let N := 1 + nreq_opts (gs_opts Gs) in
  exists h' out,
    run (cfg_dupopt_array (S fuel) (gs_addr Gs)) h k = Ok out (mkst h' (k - N)) /\
    (hits k N -> out = None /\ HeapOK h [] h' []) /\
    (~ hits k N -> exists G', out = Some (gs_addr G') /\ template G' /\ gs_spare G' = [] /\
                              HeapOK h [] h' (cells_gopts G') /\
                              map abs_opt (gs_opts G') = map abs_opt (gs_opts Gs)).
Proof.
  intros fuel h Gs k Ht HH N. subst N.
  destruct (dupopt_flat_spec fuel h k Gs Ht HH) as (h' & out & Hrun & Hout). cbn zeta in *.
  exists h', out. split; [exact Hrun|].
  destruct out as [d|].
  - destruct Hout as (Hn & G' & Hd & Hsp & Ht' & HS' & HP & Habs).
    split; [intros; contradiction|]. intros _. exists G'. subst d.
    split; [reflexivity|]. split; [exact Ht'|]. split; [exact Hsp|]. split; [apply pack; assumption|exact Habs].
  - destruct Hout as [Hh HP]. split; [|intros; contradiction]. intros _.
    split; [reflexivity|]. apply pack; [apply SepC_nil|exact HP].
Qed.

Lemma C18_free_opt_array_lemma : forall fuel h G k,
  template G -> Sep h (cells_gopts G) ->
  exists h', run (cfg_free_opt_array (S fuel) (gs_addr G)) h k = Ok tt (mkst h' k) /\
             HeapOK h (cells_gopts G) h' [].
Proof.
  intros fuel h G k Ht HS. apply Sep_SepC in HS.
  destruct (free_opt_array_spec fuel h k G Ht HS) as (h' & Hrun & HP).
  exists h'. split; [exact Hrun|]. apply pack; [apply SepC_nil|exact HP].
Qed.

(* ---------------------------------------------------------------------- *)
(* (7) cfg_init (without cfg_init_defaults)                                *)
(* ---------------------------------------------------------------------- *)
Lemma C18_init_flat_lemma : forall fuel h Gs k,
  template Gs -> Holds h (cells_gopts Gs) ->
  let N := nreq_init (gs_opts Gs) in
  exists h' out,
    run (cfg_init (S fuel) (gs_addr Gs)) h k = Ok out (mkst h' (k - N)) /\
    (hits k N -> out = Failed /\ HeapOK h [] h' []) /\
    (~ hits k N -> exists c, out = Done (gc_addr c) /\ HeapOK h [] h' (cells_gcfg c) /\
                             abs_cfg c = mkACfg (Some root_name) (map abs_opt (gs_opts Gs)) []).
Proof.
  intros fuel h Gs k Ht HH N. subst N.
  destruct (init_flat_spec fuel h k Gs Ht HH) as (h' & out & Hrun & Hout). cbn zeta in *.
  exists h', out. split; [exact Hrun|].
  destruct out as [ca|].
  - destruct Hout as (Hn & c & Hc & HS' & HP & Habs).
    split; [intros; contradiction|]. intros _. exists c. subst ca.
    split; [reflexivity|]. split; [apply pack; assumption|exact Habs].
  - destruct Hout as [Hh HP]. split; [|intros; contradiction]. intros _.
    split; [reflexivity|]. apply pack; [apply SepC_nil|exact HP].
Qed.

(* ---------------------------------------------------------------------- *)
(*  the previous cfg_addopt (free(opts) after cfg->opts = opts) is refuted  *)
(* ---------------------------------------------------------------------- *)
Definition WF_cfg (h : heap) (ca : addr) : Prop :=
  exists c, gc_addr c = ca /\ Sep h (cells_gcfg c).

Definition inst_gcfg : gcfg :=
  mkGCfg 6 (Some (7, root_name))
    (mkGOpts 8 [ mkGOpt (9, s_a) None None None None;
                 mkGOpt (10, s_b) None (Some (11, s_x)) None None;
                 mkGOpt (12, s_l) (Some (13, s_p)) None None None ] []) [].

Lemma inst_cfg_wf : gc_addr inst_gcfg = inst_cfg /\ Sep inst_cfg_heap (cells_gcfg inst_gcfg).
Proof.
  split; [reflexivity|]. split.
  - unfold Holds. vm_compute. repeat constructor.
  - vm_compute. repeat (constructor; [intros H; cbn in H; lia|]). constructor.
Qed.

Definition old_addopt_heap : heap :=
  match run (cfg_addopt_old inst_cfg s_k) inst_cfg_heap 2 with
  | Ok _ s => heap_of s | _ => [] end.

Lemma C18_addopt_old_refuted_lemma :
  exists h ca key k,
    WF_cfg h ca /\
    exists h', run (cfg_addopt_old ca key) h k = Ok Failed (mkst h' 0) /\ ~ WF_cfg h' ca.
Proof.
  exists inst_cfg_heap, inst_cfg, s_k, 2. split.
  - exists inst_gcfg. apply inst_cfg_wf.
  - exists old_addopt_heap. split; [vm_compute; reflexivity|].
    assert (E : get old_addopt_heap inst_cfg = Live (BCfg (Some 7) (Some 14) None)) by (vm_compute; reflexivity).
    assert (E' : get old_addopt_heap 14 = Freed) by (vm_compute; reflexivity).
    revert E E'. generalize old_addopt_heap. generalize inst_cfg. intros ca0 h' E E'.
    intros [c [Ha [HH _]]].
    destruct c as [ca nm [oa gs sp] path]. cbn [gc_addr] in Ha. subst ca.
    rewrite cells_gcfg_mk, cells_gopts_mk in HH. cbn [gs_addr] in HH.
    rewrite Holds_cons, Holds_app, Holds_app, Holds_cons in HH.
    destruct HH as (H6 & _ & (H14 & _) & _). cbn [fst snd] in *.
    rewrite E in H6. injection H6 as _ Hoa _. subst oa.
    rewrite E' in H14. discriminate.
Qed.
