(* PP_Base.v — C01: flag algebra, list helpers, get/put on trees, the observation obs_c, and the
   "same except position" relation ceq. *)
From Coq Require Import List Arith NArith ZArith Bool Lia.
From Coq.Strings Require Import Byte.
From LC Require Import Bytes Consts Conv Flex LexAct Lexer Files Store Parser Grammar.
Import ListNotations.

(* ---------------- flags ---------------- *)
Lemma has_setf f m m' : has (setf f m) m' = has f m' || has m m'.
Proof.
  unfold has, setf. rewrite N.land_lor_distr_l.
  destruct (N.land f m' =? 0)%N eqn:A, (N.land m m' =? 0)%N eqn:B; cbn;
    rewrite ?N.eqb_eq, ?N.eqb_neq in *.
  - rewrite A, B. reflexivity.
  - apply negb_true_iff, N.eqb_neq. intros H. apply N.lor_eq_0_iff in H. tauto.
  - apply negb_true_iff, N.eqb_neq. intros H. apply N.lor_eq_0_iff in H. tauto.
  - apply negb_true_iff, N.eqb_neq. intros H. apply N.lor_eq_0_iff in H. tauto.
Qed.

Lemma has_clrf_disj f m m' : N.land m m' = 0%N -> has (clrf f m) m' = has f m'.
Proof.
  intros H. unfold has, clrf. f_equal. f_equal. apply N.bits_inj. intros i.
  rewrite !N.land_spec, N.ldiff_spec.
  pose proof (f_equal (fun x => N.testbit x i) H) as Hi. cbv beta in Hi. rewrite N.land_spec, N.bits_0 in Hi.
  destruct (N.testbit f i), (N.testbit m i), (N.testbit m' i); cbn in *; congruence.
Qed.

Lemma has_clrf_same f m : has (clrf f m) m = false.
Proof.
  unfold has, clrf. replace (N.land (N.ldiff f m) m) with 0%N; [reflexivity|].
  symmetry. apply N.bits_inj. intros i. rewrite N.land_spec, N.ldiff_spec, N.bits_0.
  destruct (N.testbit f i), (N.testbit m i); reflexivity.
Qed.

Definition IMASK : N := 6336.   (* RESET | MODIFIED | DEFINIT | COMMENTS *)
Lemma decl_flags_eq f : decl_flags f = N.ldiff f IMASK.
Proof. unfold decl_flags, clrf. rewrite !N.ldiff_ldiff_l. reflexivity. Qed.

Lemma decl_flags_setf f m : N.ldiff m IMASK = 0%N -> decl_flags (setf f m) = decl_flags f.
Proof.
  intros H. rewrite !decl_flags_eq. unfold setf. apply N.bits_inj. intros i.
  rewrite !N.ldiff_spec, N.lor_spec.
  pose proof (f_equal (fun x => N.testbit x i) H) as Hi. cbv beta in Hi. rewrite N.ldiff_spec, N.bits_0 in Hi.
  destruct (N.testbit f i), (N.testbit m i), (N.testbit IMASK i); cbn in *; congruence.
Qed.

Lemma decl_flags_clrf f m : N.ldiff m IMASK = 0%N -> decl_flags (clrf f m) = decl_flags f.
Proof.
  intros H. rewrite !decl_flags_eq. unfold clrf. apply N.bits_inj. intros i.
  rewrite !N.ldiff_spec.
  pose proof (f_equal (fun x => N.testbit x i) H) as Hi. cbv beta in Hi. rewrite N.ldiff_spec, N.bits_0 in Hi.
  destruct (N.testbit f i), (N.testbit m i), (N.testbit IMASK i); cbn in *; congruence.
Qed.

Lemma has_decl_flags f m : N.land IMASK m = 0%N -> has (decl_flags f) m = has f m.
Proof. intros H. rewrite decl_flags_eq. apply (has_clrf_disj f IMASK m H). Qed.

(* ---------------- option field algebra ---------------- *)
Lemma o_eta o : Opt (o_name o) (o_kind o) (o_flags o) (o_vals o) (o_sub o) (o_def o) (o_comment o) (o_cbs o) = o.
Proof. destruct o; reflexivity. Qed.
Lemma c_eta c : Cfg (c_name c) (c_title c) (c_flags c) (c_opts c) (c_file c) (c_line c) (c_err c) (c_pff c) = c.
Proof. destruct c; reflexivity. Qed.

Lemma oflag_setf o m m' : oflag (o_setf o m) m' = oflag o m' || has m m'.
Proof. destruct o; unfold oflag, o_setf; cbn. apply has_setf. Qed.
Lemma oflag_clrf_disj o m m' : N.land m m' = 0%N -> oflag (o_clrf o m) m' = oflag o m'.
Proof. destruct o; unfold oflag, o_clrf; cbn. apply has_clrf_disj. Qed.
Lemma oflag_clrf_same o m : oflag (o_clrf o m) m = false.
Proof. destruct o; unfold oflag, o_clrf; cbn. apply has_clrf_same. Qed.
Lemma oflag_set_vals o v m : oflag (set_vals o v) m = oflag o m.
Proof. destruct o; reflexivity. Qed.
Lemma oflag_set_comment o v m : oflag (set_comment o v) m = oflag o m.
Proof. destruct o; reflexivity. Qed.

Lemma o_vals_setf o m : o_vals (o_setf o m) = o_vals o. Proof. destruct o; reflexivity. Qed.
Lemma o_vals_clrf o m : o_vals (o_clrf o m) = o_vals o. Proof. destruct o; reflexivity. Qed.
Lemma o_vals_set_vals o v : o_vals (set_vals o v) = v. Proof. destruct o; reflexivity. Qed.
Lemma o_vals_set_comment o v : o_vals (set_comment o v) = o_vals o. Proof. destruct o; reflexivity. Qed.
Lemma o_kind_setf o m : o_kind (o_setf o m) = o_kind o. Proof. destruct o; reflexivity. Qed.
Lemma o_kind_clrf o m : o_kind (o_clrf o m) = o_kind o. Proof. destruct o; reflexivity. Qed.
Lemma o_kind_set_vals o v : o_kind (set_vals o v) = o_kind o. Proof. destruct o; reflexivity. Qed.
Lemma o_kind_set_comment o v : o_kind (set_comment o v) = o_kind o. Proof. destruct o; reflexivity. Qed.
Lemma o_cbs_setf o m : o_cbs (o_setf o m) = o_cbs o. Proof. destruct o; reflexivity. Qed.
Lemma o_cbs_clrf o m : o_cbs (o_clrf o m) = o_cbs o. Proof. destruct o; reflexivity. Qed.
Lemma o_cbs_set_vals o v : o_cbs (set_vals o v) = o_cbs o. Proof. destruct o; reflexivity. Qed.
Lemma o_cbs_set_comment o v : o_cbs (set_comment o v) = o_cbs o. Proof. destruct o; reflexivity. Qed.
Lemma o_sub_setf o m : o_sub (o_setf o m) = o_sub o. Proof. destruct o; reflexivity. Qed.
Lemma o_sub_clrf o m : o_sub (o_clrf o m) = o_sub o. Proof. destruct o; reflexivity. Qed.
Lemma o_sub_set_vals o v : o_sub (set_vals o v) = o_sub o. Proof. destruct o; reflexivity. Qed.
Lemma o_sub_set_comment o v : o_sub (set_comment o v) = o_sub o. Proof. destruct o; reflexivity. Qed.
Lemma o_name_setf o m : o_name (o_setf o m) = o_name o. Proof. destruct o; reflexivity. Qed.
Lemma o_name_clrf o m : o_name (o_clrf o m) = o_name o. Proof. destruct o; reflexivity. Qed.
Lemma o_name_set_vals o v : o_name (set_vals o v) = o_name o. Proof. destruct o; reflexivity. Qed.
Lemma o_name_set_comment o v : o_name (set_comment o v) = o_name o. Proof. destruct o; reflexivity. Qed.
Lemma set_vals_set_vals o a b : set_vals (set_vals o a) b = set_vals o b. Proof. destruct o; reflexivity. Qed.
Lemma set_vals_setf o m v : set_vals (o_setf o m) v = o_setf (set_vals o v) m. Proof. destruct o; reflexivity. Qed.
Lemma set_vals_clrf o m v : set_vals (o_clrf o m) v = o_clrf (set_vals o v) m. Proof. destruct o; reflexivity. Qed.
Lemma set_vals_set_comment o m v : set_vals (set_comment o m) v = set_comment (set_vals o v) m. Proof. destruct o; reflexivity. Qed.
Lemma set_vals_same o : set_vals o (o_vals o) = o. Proof. destruct o; reflexivity. Qed.

Global Hint Rewrite oflag_set_vals oflag_set_comment o_vals_setf o_vals_clrf o_vals_set_vals o_vals_set_comment
  o_kind_setf o_kind_clrf o_kind_set_vals o_kind_set_comment o_cbs_setf o_cbs_clrf o_cbs_set_vals o_cbs_set_comment
  o_sub_setf o_sub_clrf o_sub_set_vals o_sub_set_comment o_name_setf o_name_clrf o_name_set_vals o_name_set_comment
  set_vals_set_vals : ofld.

(* ---------------- upd_nth ---------------- *)
Lemma upd_nth_length {A} (l : list A) i f : length (upd_nth l i f) = length l.
Proof. revert i; induction l as [|x l IH]; intros [|i]; cbn; auto. Qed.

Lemma nth_error_upd_nth {A} (l : list A) i f : nth_error (upd_nth l i f) i = option_map f (nth_error l i).
Proof. revert i; induction l as [|x l IH]; intros [|i]; cbn; auto. Qed.

Lemma nth_error_upd_nth_ne {A} (l : list A) i j f : i <> j -> nth_error (upd_nth l i f) j = nth_error l j.
Proof. revert i j; induction l as [|x l IH]; intros [|i] [|j] H; cbn; auto; try congruence. Qed.

Lemma upd_nth_ext {A} (l : list A) i f g : (forall x, f x = g x) -> upd_nth l i f = upd_nth l i g.
Proof. intros H. revert i; induction l as [|x l IH]; intros [|i]; cbn; auto; congruence. Qed.

Lemma upd_nth_ext_at {A} (l : list A) i f g : (forall x, nth_error l i = Some x -> f x = g x) -> upd_nth l i f = upd_nth l i g.
Proof.
  revert i; induction l as [|x l IH]; intros [|i] H; cbn; auto.
  - rewrite (H x eq_refl). reflexivity.
  - f_equal. apply IH. intros y Hy. apply H. exact Hy.
Qed.

Lemma upd_nth_upd_nth {A} (l : list A) i f g : upd_nth (upd_nth l i f) i g = upd_nth l i (fun x => g (f x)).
Proof. revert i; induction l as [|x l IH]; intros [|i]; cbn; auto; congruence. Qed.

Lemma upd_nth_id {A} (l : list A) i f : (forall x, nth_error l i = Some x -> f x = x) -> upd_nth l i f = l.
Proof.
  revert i; induction l as [|x l IH]; intros [|i] H; cbn; auto.
  - rewrite (H x eq_refl). reflexivity.
  - rewrite IH; auto.
Qed.

Lemma map_upd_nth {A B} (h : A -> B) (l : list A) i f g :
  (forall x, h (f x) = g (h x)) -> map h (upd_nth l i f) = upd_nth (map h l) i g.
Proof. intros H. revert i; induction l as [|x l IH]; intros [|i]; cbn; auto; congruence. Qed.

Lemma upd_nth_app_last {A} (l : list A) x f : upd_nth (l ++ [x]) (length l) f = l ++ [f x].
Proof. induction l as [|y l IH]; cbn; auto; congruence. Qed.

Lemma upd_nth_app_l {A} (l l' : list A) i f : i < length l -> upd_nth (l ++ l') i f = upd_nth l i f ++ l'.
Proof. revert i; induction l as [|y l IH]; intros [|i] H; cbn in *; try lia; auto. rewrite IH; auto; lia. Qed.

Lemma forallb_upd_nth {A} (P : A -> bool) l i f :
  forallb P l = true -> (forall x, nth_error l i = Some x -> P (f x) = true) -> forallb P (upd_nth l i f) = true.
Proof.
  revert i; induction l as [|x l IH]; intros [|i] H Hf; cbn in *; auto.
  - apply andb_prop in H as [H1 H2]. rewrite (Hf x eq_refl), H2. reflexivity.
  - apply andb_prop in H as [H1 H2]. rewrite H1, IH; auto.
Qed.

Lemma forallb_nth_error {A} (P : A -> bool) l i x : forallb P l = true -> nth_error l i = Some x -> P x = true.
Proof. intros H Hn. rewrite forallb_forall in H. apply H. eapply nth_error_In; eauto. Qed.

(* ---------------- get / put ---------------- *)
Lemma nth_sec_upd o v g s :
  nth_sec o v = Some s ->
  nth_sec (set_vals o (upd_nth (o_vals o) v (fun x => match x with VSec (Some s) => VSec (Some (g s)) | _ => x end))) v = Some (g s).
Proof.
  unfold nth_sec. rewrite o_vals_set_vals, nth_error_upd_nth.
  destruct (nth_error (o_vals o) v) as [[| | | |[s'|]|]|]; cbn; try discriminate. intros H; inversion H; subst; reflexivity.
Qed.

Lemma get_sec_upd : forall steps c g s, get_sec c steps = Some s -> get_sec (upd_sec c steps g) steps = Some (g s).
Proof.
  induction steps as [|[i v] r IH]; intros c g s H; cbn in *.
  - inversion H; reflexivity.
  - destruct c as [n t f opts fi l e p]; cbn in *. rewrite nth_error_upd_nth.
    destruct (nth_error opts i) as [o|]; [|discriminate]. cbn.
    destruct (nth_sec o v) as [s0|] eqn:Hs; [|discriminate].
    rewrite (nth_sec_upd o v (fun s => upd_sec s r g) s0 Hs). apply IH, H.
Qed.

Lemma c_opts_set_opts c o : c_opts (set_opts c o) = o. Proof. destruct c; reflexivity. Qed.

Lemma get_upd_opt c r f o : get_opt c r = Some o -> get_opt (upd_opt c r f) r = Some (f o).
Proof.
  unfold get_opt, upd_opt. destruct (get_sec c (fst r)) as [s|] eqn:Hs; [|discriminate]. intros H.
  rewrite (get_sec_upd _ _ _ _ Hs), c_opts_set_opts, nth_error_upd_nth, H. reflexivity.
Qed.

Lemma get_put c r o o0 : get_opt c r = Some o0 -> get_opt (put_opt c r o) r = Some o.
Proof. intros H. unfold put_opt. rewrite (get_upd_opt _ _ _ _ H). reflexivity. Qed.

Lemma upd_sec_ext : forall steps c f g, (forall s, f s = g s) -> upd_sec c steps f = upd_sec c steps g.
Proof.
  induction steps as [|[i v] r IH]; intros c f g H; cbn; auto.
  f_equal. apply upd_nth_ext. intros o. f_equal. apply upd_nth_ext. intros [| | | |[s|]|]; auto. rewrite (IH s f g H). reflexivity.
Qed.

Lemma upd_sec_ext_at : forall steps c f g, (forall s, get_sec c steps = Some s -> f s = g s) -> upd_sec c steps f = upd_sec c steps g.
Proof.
  induction steps as [|[i v] r IH]; intros c f g H; cbn; [apply H; reflexivity|].
  f_equal. apply upd_nth_ext_at. intros o Ho. f_equal. apply upd_nth_ext_at. intros x Hx.
  destruct x as [| | | |[s|]|]; auto. f_equal. f_equal. apply IH. intros s' Hs'. apply H. cbn.
  rewrite Ho. unfold nth_sec. rewrite Hx. exact Hs'.
Qed.

Lemma set_opts_set_opts c a b : set_opts (set_opts c a) b = set_opts c b. Proof. destruct c; reflexivity. Qed.

Lemma upd_sec_upd_sec : forall steps c f g, upd_sec (upd_sec c steps f) steps g = upd_sec c steps (fun s => g (f s)).
Proof.
  induction steps as [|[i v] r IH]; intros c f g; cbn; auto.
  rewrite c_opts_set_opts, set_opts_set_opts, upd_nth_upd_nth. f_equal. apply upd_nth_ext. intros o.
  rewrite o_vals_set_vals, set_vals_set_vals, upd_nth_upd_nth. f_equal. apply upd_nth_ext.
  intros [| | | |[s|]|]; auto. rewrite IH. reflexivity.
Qed.

Lemma put_put c r a b : put_opt (put_opt c r a) r b = put_opt c r b.
Proof.
  unfold put_opt, upd_opt. rewrite upd_sec_upd_sec. apply upd_sec_ext. intros s.
  rewrite c_opts_set_opts, set_opts_set_opts, upd_nth_upd_nth. reflexivity.
Qed.

Lemma upd_opt_put c r f o : get_opt c r = Some o -> upd_opt c r f = put_opt c r (f o).
Proof.
  intros H. unfold put_opt, upd_opt. apply upd_sec_ext_at. intros s Hs. f_equal. apply upd_nth_ext_at. intros x Hx.
  unfold get_opt in H. rewrite Hs, Hx in H. inversion H; reflexivity.
Qed.

(* everything in a context except its position *)
Definition ceq (c1 c2 : cfg) : Prop :=
  c_name c1 = c_name c2 /\ c_title c1 = c_title c2 /\ c_flags c1 = c_flags c2 /\ c_opts c1 = c_opts c2.

Lemma ceq_refl c : ceq c c. Proof. unfold ceq; auto. Qed.
Lemma ceq_sym a b : ceq a b -> ceq b a. Proof. unfold ceq; intuition. Qed.
Lemma ceq_trans a b c : ceq a b -> ceq b c -> ceq a c. Proof. unfold ceq; intuition congruence. Qed.
Lemma ceq_set_pos c p : ceq (set_pos c p) c. Proof. destruct c; unfold ceq; cbn; auto. Qed.
Lemma ceq_set_line c l : ceq (set_line c l) c. Proof. destruct c; unfold ceq; cbn; auto. Qed.
Lemma ceq_set_file c l : ceq (set_file c l) c. Proof. destruct c; unfold ceq; cbn; auto. Qed.
Lemma ceq_set_err c l : ceq (set_err c l) c. Proof. destruct c; unfold ceq; cbn; auto. Qed.
Lemma ceq_cflag a b m : ceq a b -> cflag a m = cflag b m.
Proof. intros (_ & _ & H & _). unfold cflag. rewrite H. reflexivity. Qed.

Lemma get_sec_opts steps : forall c1 c2, c_opts c1 = c_opts c2 -> steps <> [] -> get_sec c1 steps = get_sec c2 steps.
Proof. destruct steps as [|[i v] r]; intros c1 c2 H Hn; [congruence|]. cbn. rewrite H. reflexivity. Qed.

Lemma ceq_get a b r : ceq a b -> get_opt a r = get_opt b r.
Proof.
  intros (_ & _ & _ & H). unfold get_opt. destruct r as [[|[i v] st] k]; cbn [fst snd].
  - cbn. rewrite H. reflexivity.
  - rewrite (get_sec_opts ((i, v) :: st) a b H); [reflexivity|discriminate].
Qed.

Lemma ceq_set_opts a b o : ceq a b -> ceq (set_opts a o) (set_opts b o).
Proof. destruct a, b; unfold ceq; cbn; intuition. Qed.

Lemma upd_sec_ceq steps : forall a b f, ceq a b -> (forall x y, ceq x y -> ceq (f x) (f y)) -> ceq (upd_sec a steps f) (upd_sec b steps f).
Proof.
  destruct steps as [|[i v] r]; intros a b f H Hf; cbn; [apply Hf, H|].
  destruct H as (H1 & H2 & H3 & H4). rewrite H4. apply ceq_set_opts. unfold ceq; auto.
Qed.

Lemma ceq_put a b r o : ceq a b -> ceq (put_opt a r o) (put_opt b r o).
Proof.
  intros H. unfold put_opt, upd_opt. apply upd_sec_ceq; [exact H|]. intros x y Hxy.
  destruct Hxy as (H1 & H2 & H3 & H4). rewrite H4. apply ceq_set_opts. unfold ceq; auto.
Qed.

Lemma ceq_c_opts a b : ceq a b -> c_opts a = c_opts b. Proof. intros (_ & _ & _ & H); exact H. Qed.
Lemma ceq_c_flags a b : ceq a b -> c_flags a = c_flags b. Proof. intros (_ & _ & H & _); exact H. Qed.

(* ---------------- obs ---------------- *)
Lemma obs_o_eq o : obs_o o = Opt (o_name o) (o_kind o) (decl_flags (o_flags o)) (map obs_v (o_vals o)) (o_sub o) (o_def o) None (o_cbs o).
Proof. destruct o as [n k f vals sub d cm cb]; reflexivity. Qed.

Lemma obs_c_eq c : obs_c c = Cfg (c_name c) (c_title c) (c_flags c) (map obs_o (c_opts c)) None 0 false None.
Proof. destruct c as [n t f opts fi l e p]; reflexivity. Qed.

Lemma ceq_obs a b : ceq a b -> obs_c a = obs_c b.
Proof. intros (H1 & H2 & H3 & H4). rewrite !obs_c_eq. congruence. Qed.

Lemma obs_c_inj_parts a b : obs_c a = obs_c b ->
  c_name a = c_name b /\ c_title a = c_title b /\ c_flags a = c_flags b /\ map obs_o (c_opts a) = map obs_o (c_opts b).
Proof. rewrite !obs_c_eq. intros H; inversion H; auto. Qed.

Definition shape (o : opt) : opt := obs_o (set_vals o []).

Lemma obs_o_split o o' : obs_o o = obs_o o' <-> shape o = shape o' /\ map obs_v (o_vals o) = map obs_v (o_vals o').
Proof.
  unfold shape. rewrite !obs_o_eq. destruct o, o'; cbn. split.
  - intros H; inversion H; subst; auto.
  - intros [H1 H2]; inversion H1; subst; congruence.
Qed.

Lemma shape_setf o m : N.ldiff m IMASK = 0%N -> shape (o_setf o m) = shape o.
Proof. intros H. unfold shape. rewrite !obs_o_eq. destruct o; cbn. rewrite (decl_flags_setf _ _ H). reflexivity. Qed.
Lemma shape_clrf o m : N.ldiff m IMASK = 0%N -> shape (o_clrf o m) = shape o.
Proof. intros H. unfold shape. rewrite !obs_o_eq. destruct o; cbn. rewrite (decl_flags_clrf _ _ H). reflexivity. Qed.
Lemma shape_set_vals o v : shape (set_vals o v) = shape o.
Proof. unfold shape. rewrite set_vals_set_vals. reflexivity. Qed.
Lemma shape_set_comment o v : shape (set_comment o v) = shape o.
Proof. unfold shape. rewrite !obs_o_eq. destruct o; reflexivity. Qed.

Lemma shape_oflag o o' m : shape o = shape o' -> N.land IMASK m = 0%N -> oflag o m = oflag o' m.
Proof.
  unfold shape. rewrite !obs_o_eq. destruct o, o'; cbn. intros H Hm; inversion H. unfold oflag; cbn.
  rewrite <- (has_decl_flags flags m Hm), <- (has_decl_flags flags0 m Hm). congruence.
Qed.
Lemma shape_kind o o' : shape o = shape o' -> o_kind o = o_kind o'.
Proof. unfold shape. rewrite !obs_o_eq. destruct o, o'; cbn. intros H; inversion H; auto. Qed.
Lemma shape_name o o' : shape o = shape o' -> o_name o = o_name o'.
Proof. unfold shape. rewrite !obs_o_eq. destruct o, o'; cbn. intros H; inversion H; auto. Qed.
Lemma shape_sub o o' : shape o = shape o' -> o_sub o = o_sub o'.
Proof. unfold shape. rewrite !obs_o_eq. destruct o, o'; cbn. intros H; inversion H; auto. Qed.
Lemma shape_cbs o o' : shape o = shape o' -> o_cbs o = o_cbs o'.
Proof. unfold shape. rewrite !obs_o_eq. destruct o, o'; cbn. intros H; inversion H; auto. Qed.
Lemma shape_def o o' : shape o = shape o' -> o_def o = o_def o'.
Proof. unfold shape. rewrite !obs_o_eq. destruct o, o'; cbn. intros H; inversion H; auto. Qed.

Lemma obs_v_sec s : obs_v (VSec (Some s)) = VSec (Some (obs_c s)). Proof. reflexivity. Qed.

Lemma nth_sec_obs o v : nth_sec (obs_o o) v = option_map obs_c (nth_sec o v).
Proof.
  unfold nth_sec. rewrite obs_o_eq; cbn [o_vals]. rewrite nth_error_map.
  destruct (nth_error (o_vals o) v) as [[| | | |[s|]|]|]; reflexivity.
Qed.

Lemma get_sec_obs : forall steps c, get_sec (obs_c c) steps = option_map obs_c (get_sec c steps).
Proof.
  induction steps as [|[i v] r IH]; intros c; cbn; [reflexivity|].
  rewrite obs_c_eq; cbn [c_opts]. rewrite nth_error_map. destruct (nth_error (c_opts c) i) as [o|]; cbn; [|reflexivity].
  rewrite nth_sec_obs. destruct (nth_sec o v) as [s|]; cbn; [apply IH|reflexivity].
Qed.

Lemma get_opt_obs c r : get_opt (obs_c c) r = option_map obs_o (get_opt c r).
Proof.
  unfold get_opt. rewrite get_sec_obs. destruct (get_sec c (fst r)) as [s|]; cbn; [|reflexivity].
  rewrite obs_c_eq; cbn [c_opts]. apply nth_error_map.
Qed.

Lemma obs_set_opts c o : obs_c (set_opts c o) = set_opts (obs_c c) (map obs_o o).
Proof. rewrite !obs_c_eq. destruct c; reflexivity. Qed.

Lemma obs_set_vals o v : obs_o (set_vals o v) = set_vals (obs_o o) (map obs_v v).
Proof. rewrite !obs_o_eq. destruct o; reflexivity. Qed.

Lemma c_opts_obs c : c_opts (obs_c c) = map obs_o (c_opts c). Proof. rewrite obs_c_eq. reflexivity. Qed.
Lemma o_vals_obs o : o_vals (obs_o o) = map obs_v (o_vals o). Proof. rewrite obs_o_eq. reflexivity. Qed.

Lemma upd_sec_obs : forall steps c g g', (forall s, obs_c (g s) = g' (obs_c s)) -> obs_c (upd_sec c steps g) = upd_sec (obs_c c) steps g'.
Proof.
  induction steps as [|[i v] r IH]; intros c g g' H; cbn [upd_sec]; [apply H|].
  rewrite obs_set_opts. f_equal. rewrite c_opts_obs.
  apply map_upd_nth. intros o. rewrite obs_set_vals. f_equal. rewrite o_vals_obs.
  apply map_upd_nth. intros [| | | |[s|]|]; try reflexivity. cbn [obs_v]. rewrite (IH s g g' H). reflexivity.
Qed.

Lemma obs_put c r o : obs_c (put_opt c r o) = put_opt (obs_c c) r (obs_o o).
Proof.
  unfold put_opt, upd_opt. apply upd_sec_obs. intros s. rewrite obs_set_opts. f_equal.
  rewrite c_opts_obs. apply map_upd_nth. reflexivity.
Qed.

Lemma obs_put_cong c c' r o o' : obs_c c = obs_c c' -> obs_o o = obs_o o' -> obs_c (put_opt c r o) = obs_c (put_opt c' r o').
Proof. intros H1 H2. rewrite !obs_put. congruence. Qed.

Lemma get_opt_obs_rel c c' r : obs_c c = obs_c c' ->
  match get_opt c r, get_opt c' r with
  | Some o, Some o' => obs_o o = obs_o o'
  | None, None => True
  | _, _ => False
  end.
Proof.
  intros H. pose proof (get_opt_obs c r) as A. pose proof (get_opt_obs c' r) as B. rewrite H in A. rewrite A in B.
  destruct (get_opt c r), (get_opt c' r); cbn in B; try discriminate; auto. inversion B; auto.
Qed.
Ltac spl := repeat match goal with |- _ /\ _ => split end.


Lemma set_opts_same c : set_opts c (c_opts c) = c. Proof. destruct c; reflexivity. Qed.

Lemma upd_sec_id : forall steps c f, (forall s, get_sec c steps = Some s -> f s = s) -> upd_sec c steps f = c.
Proof.
  induction steps as [|[i v] r IH]; intros c f H; cbn [upd_sec]; [apply H; reflexivity|].
  rewrite upd_nth_id; [apply set_opts_same|]. intros o Ho.
  rewrite upd_nth_id; [apply set_vals_same|]. intros x Hx.
  destruct x as [| | | |[s|]|]; auto. f_equal. f_equal. apply IH. intros s' Hs'. apply H. cbn [get_sec].
  rewrite Ho. unfold nth_sec. rewrite Hx. exact Hs'.
Qed.

Lemma put_same c r o : get_opt c r = Some o -> put_opt c r o = c.
Proof.
  intros H. unfold put_opt, upd_opt. apply upd_sec_id. intros s Hs.
  rewrite upd_nth_id; [apply set_opts_same|]. intros x Hx. unfold get_opt in H. rewrite Hs, Hx in H. inversion H; reflexivity.
Qed.

Lemma forallb_ext' {A} (f g : A -> bool) l : (forall x, f x = g x) -> forallb f l = forallb g l.
Proof. intros H. induction l as [|x l IH]; cbn; [reflexivity|]. rewrite H, IH. reflexivity. Qed.

Lemma ceq_title a b : ceq a b -> c_title a = c_title b.
Proof. intros (_ & H & _). exact H. Qed.
Lemma ceq_name a b : ceq a b -> c_name a = c_name b.
Proof. intros (H & _). exact H. Qed.
