(* ConvSpec.v — SPEC for C04: the numeral grammar, written without reference to strtol. *)
From Coq Require String.
Import String.StringSyntax.
From Coq Require Import List Arith NArith ZArith Bool.
From Coq.Strings Require Import Byte.
From LC Require Import Bytes Conv Lexer.
Import ListNotations.
Local Open Scope string_scope.
Local Open Scope list_scope.

(* positional value of a digit string in a base (digits assumed valid) *)
Definition pos_value (base : N) (ds : str) : N :=
  fold_left (fun acc c => match digit_val c with Some d => acc * base + d | None => acc end)%N ds 0%N.

Definition is_bin (c : byte) : bool := Byte.eqb c x30 || Byte.eqb c x31.
Definition nonempty (s : str) : bool := match s with [] => false | _ => true end.

(* unsigned body as the C language reads it: 0x/0X hex+, 0 oct*, or dec+ *)
Definition c_unsigned (body : str) : option N :=
  match body with
  | c0 :: c1 :: ds =>
      if Byte.eqb c0 x30 && (Byte.eqb c1 x78 || Byte.eqb c1 x58) && nonempty ds && forallb is_hex ds
      then Some (pos_value 16 ds)
      else if Byte.eqb c0 x30 then (if forallb is_octal (c1 :: ds) then Some (pos_value 8 (c1 :: ds)) else None)
      else if forallb is_digit body then Some (pos_value 10 body) else None
  | [c0] => if is_digit c0 then Some (pos_value 10 body) else None
  | [] => None
  end.

(* the value a token denotes as an integer option value, or None if it is not a numeral:
   0x hex+ | 0b bin+ | 0 oct*   (the prefix selects the radix; at least one digit)
   otherwise an optionally signed C numeral *)
Definition int_numeral (t : str) : option Z :=
  match t with
  | c0 :: rest =>
      if Byte.eqb c0 x30 then
        match rest with
        | c1 :: ds =>
            if Byte.eqb c1 x78 then (if nonempty ds && forallb is_hex ds then Some (Z.of_N (pos_value 16 ds)) else None)
            else if Byte.eqb c1 x62 then (if nonempty ds && forallb is_bin ds then Some (Z.of_N (pos_value 2 ds)) else None)
            else if forallb is_octal rest then Some (Z.of_N (pos_value 8 rest)) else None
        | [] => Some 0%Z
        end
      else if Byte.eqb c0 x2d then option_map (fun n => (- Z.of_N n)%Z) (c_unsigned rest)
      else if Byte.eqb c0 x2b then option_map Z.of_N (c_unsigned rest)
      else option_map Z.of_N (c_unsigned t)
  | [] => None
  end.

Definition int_spec (t : str) : conv_res Z :=
  match int_numeral t with
  | Some z => if in_long z then COk z else CRange
  | None => CInvalid
  end.

(* the numeral alphabet of the property: [0-9a-fA-FxXbB+-.eEpP] *)
Definition numeral_alpha (c : byte) : bool :=
  is_hex c || Byte.eqb c x78 || Byte.eqb c x58 || Byte.eqb c x2b || Byte.eqb c x2d || Byte.eqb c x2e
  || Byte.eqb c x70 || Byte.eqb c x50.

(* booleans: the six words in any letter case *)
Definition bool_spec (t : str) : option bool :=
  let l := map to_lower t in
  if existsb (str_eqb l) [M "true"; M "yes"; M "on"] then Some true
  else if existsb (str_eqb l) [M "false"; M "no"; M "off"] then Some false
  else None.
