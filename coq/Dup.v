(* Dup.v — C16: what cfg_init() keeps of the caller's declarations.
   A pointer-valued field of a declaration is NULL, a reference into CALLER memory, or a private
   copy.  cfg_dupopt_array is written field by field as in confuse.c; the theorems say that its result
   holds no reference into caller memory, hence reading it is unaffected by any later change of that
   memory (overwriting, freeing), and that it reproduces the declaration it was made from. *)
From Coq Require Import List Arith NArith ZArith Bool Lia.
From Coq.Strings Require Import Byte.
From LC Require Import Bytes Store.
Import ListNotations.

Definition addr := nat.

(* caller memory: strings and option arrays the application owns *)
Record cmem := { cm_str : addr -> option str; cm_arr : addr -> option (list nat) (* addresses of the elements' records *) }.

Inductive sref := SNull | SCaller (a : addr) | SOwn (s : str).

(* one cfg_opt_t as the library sees it; scalars (type, flags, numeric defaults, function pointers) are plain values *)
Inductive dopt :=
| DOpt (name : sref) (kind : kind) (flags : N) (subopts : aref) (def_num : Z) (def_fp : N) (def_bool : bool)
       (def_string : sref) (def_parsed : sref) (comment : sref) (cbs : cbset)
with aref := ANull | ASub (caller : bool) (elems : list dopt).
(* ASub true: the array lives in caller memory (its element records are given by value, their string
   fields are references); ASub false: a private array *)

Definition read_s (m : cmem) (r : sref) : option (option str) :=     (* None = dangling read *)
  match r with
  | SNull => Some None
  | SCaller a => match cm_str m a with Some s => Some (Some s) | None => None end
  | SOwn s => Some (Some s)
  end.

(* strdup of a caller string *)
Definition dup_s (m : cmem) (r : sref) : sref :=
  match r with
  | SNull => SNull
  | SCaller a => match cm_str m a with Some s => SOwn s | None => SNull end
  | SOwn s => SOwn s
  end.

(* cfg_dupopt_array: name, subopts (recursively), def.parsed, def.string, comment are copied;
   everything else is copied by value (memcpy) *)
Fixpoint dup_o (m : cmem) (o : dopt) {struct o} : dopt :=
  match o with
  | DOpt name k fl sub dn df db ds dp cm cbs =>
      DOpt (dup_s m name) k fl
           (match sub with
            | ANull => ANull
            | ASub _ l => ASub false ((fix go (l : list dopt) := match l with [] => [] | x :: r => dup_o m x :: go r end) l)
            end)
           dn df db (dup_s m ds) (dup_s m dp) (dup_s m cm) cbs
  end.
Definition dup_array (m : cmem) (l : list dopt) : list dopt := map (dup_o m) l.

(* no reference into caller memory is reachable *)
Definition own_s (r : sref) : bool := match r with SCaller _ => false | _ => true end.
Fixpoint own_o (o : dopt) : bool :=
  match o with
  | DOpt name _ _ sub _ _ _ ds dp cm _ =>
      own_s name && own_s ds && own_s dp && own_s cm &&
      match sub with
      | ANull => true
      | ASub caller l => negb caller && (fix go (l : list dopt) := match l with [] => true | x :: r => own_o x && go r end) l
      end
  end.

Lemma own_dup_s m r : own_s (dup_s m r) = true.
Proof. destruct r as [|a|s]; cbn; [reflexivity|destruct (cm_str m a); reflexivity|reflexivity]. Qed.

(* induction on the nested type, through a size measure *)
Fixpoint dsize (o : dopt) : nat :=
  match o with
  | DOpt _ _ _ sub _ _ _ _ _ _ _ =>
      S (match sub with ANull => O | ASub _ l => (fix go (l : list dopt) := match l with [] => O | x :: r => (dsize x + go r)%nat end) l end)
  end.
Definition lsize (l : list dopt) : nat := fold_right (fun x a => (dsize x + a)%nat) O l.
Lemma dsize_sub name k fl cl l dn df db ds dp cm cbs : dsize (DOpt name k fl (ASub cl l) dn df db ds dp cm cbs) = S (lsize l).
Proof.
  cbn [dsize]. f_equal.
Qed.

Lemma dopt_ind' (P : dopt -> Prop) :
  (forall name k fl sub dn df db ds dp cm cbs,
     (match sub with ANull => True | ASub _ l => Forall P l end) -> P (DOpt name k fl sub dn df db ds dp cm cbs)) ->
  forall o, P o.
Proof.
  intros H o. remember (dsize o) as n eqn:Hn. revert o Hn.
  induction n as [n IHn] using lt_wf_ind. intros o Hn.
  destruct o as [name k fl sub dn df db ds dp cm cbs]. apply H.
  destruct sub as [|cl l]; [exact I|]. rewrite dsize_sub in Hn.
  assert (G : forall l', (lsize l' <= lsize l)%nat -> Forall P l').
  { induction l' as [|x l' IHl]; intros Hl; [constructor|]. cbn [lsize fold_right] in Hl. fold (lsize l') in Hl.
    constructor; [apply (IHn (dsize x)); [lia|reflexivity]|apply IHl; lia]. }
  apply G. lia.
Qed.

Theorem dup_no_alias m o : own_o (dup_o m o) = true.
Proof.
  induction o as [name k fl sub dn df db ds dp cm cbs IH] using dopt_ind'.
  cbn [dup_o own_o]. rewrite !own_dup_s. cbn [andb].
  destruct sub as [|cl l]; [reflexivity|]. cbn [negb andb].
  induction l as [|x l IHl]; [reflexivity|]. inversion IH; subst. cbn. rewrite H1. cbn. apply IHl. assumption.
Qed.

Corollary dup_array_no_alias m l : forallb own_o (dup_array m l) = true.
Proof. unfold dup_array. induction l as [|x l IH]; cbn; [reflexivity|]. rewrite dup_no_alias, IH. reflexivity. Qed.

(* reading a declaration: every string field resolved through caller memory; None = some field dangles *)
Fixpoint view_o (m : cmem) (o : dopt) {struct o} : option dopt :=
  match o with
  | DOpt name k fl sub dn df db ds dp cm cbs =>
      let rs (r : sref) : option sref :=
        match read_s m r with Some (Some s) => Some (SOwn s) | Some None => Some SNull | None => None end in
      match rs name, rs ds, rs dp, rs cm with
      | Some n', Some ds', Some dp', Some cm' =>
          match sub with
          | ANull => Some (DOpt n' k fl ANull dn df db ds' dp' cm' cbs)
          | ASub _ l =>
              match (fix go (l : list dopt) : option (list dopt) :=
                       match l with
                       | [] => Some []
                       | x :: r => match view_o m x, go r with Some x', Some r' => Some (x' :: r') | _, _ => None end
                       end) l with
              | Some l' => Some (DOpt n' k fl (ASub false l') dn df db ds' dp' cm' cbs)
              | None => None
              end
          end
      | _, _, _, _ => None
      end
  end.

(* an owned declaration reads the same in EVERY caller memory: poisoning is invisible *)
Theorem own_view_independent o : own_o o = true -> forall m1 m2, view_o m1 o = view_o m2 o.
Proof.
  induction o as [name k fl sub dn df db ds dp cm cbs IH] using dopt_ind'.
  cbn [own_o]. intros Ho m1 m2.
  apply andb_prop in Ho as [Ho Hs]. apply andb_prop in Ho as [Ho H4]. apply andb_prop in Ho as [Ho H3].
  apply andb_prop in Ho as [H1 H2].
  assert (R : forall r, own_s r = true -> read_s m1 r = read_s m2 r) by (intros [|a|s] Hr; cbn in *; [reflexivity|discriminate|reflexivity]).
  cbn [view_o]. rewrite (R _ H1), (R _ H2), (R _ H3), (R _ H4).
  destruct sub as [|cl l]; [reflexivity|]. apply andb_prop in Hs as [_ Hs].
  assert (E : (fix go (l : list dopt) : option (list dopt) :=
                 match l with [] => Some [] | x :: r => match view_o m1 x, go r with Some x', Some r' => Some (x' :: r') | _, _ => None end end) l
            = (fix go (l : list dopt) : option (list dopt) :=
                 match l with [] => Some [] | x :: r => match view_o m2 x, go r with Some x', Some r' => Some (x' :: r') | _, _ => None end end) l).
  { induction l as [|x l IHl]; [reflexivity|]. inversion IH; subst. cbn in Hs. apply andb_prop in Hs as [Hx Hl].
    rewrite (H5 Hx m1 m2), (IHl H6 Hl). reflexivity. }
  rewrite E. reflexivity.
Qed.

(* what the copy reads as afterwards is what the original read as at cfg_init time *)
Theorem dup_view_faithful m o v : view_o m o = Some v -> forall m', view_o m' (dup_o m o) = Some v.
Proof.
  revert v. induction o as [name k fl sub dn df db ds dp cm cbs IH] using dopt_ind'. intros v Hv m'.
  cbn [view_o] in Hv.
  assert (R : forall r x, (match read_s m r with Some (Some s) => Some (SOwn s) | Some None => Some SNull | None => None end) = Some x ->
                          (match read_s m' (dup_s m r) with Some (Some s) => Some (SOwn s) | Some None => Some SNull | None => None end) = Some x).
  { intros [|a|s] x; cbn; [auto| |auto]. destruct (cm_str m a); [cbn; auto|discriminate]. }
  destruct (match read_s m name with Some (Some s) => Some (SOwn s) | Some None => Some SNull | None => None end) as [n'|] eqn:E1; [|discriminate].
  destruct (match read_s m ds with Some (Some s) => Some (SOwn s) | Some None => Some SNull | None => None end) as [ds'|] eqn:E2; [|discriminate].
  destruct (match read_s m dp with Some (Some s) => Some (SOwn s) | Some None => Some SNull | None => None end) as [dp'|] eqn:E3; [|discriminate].
  destruct (match read_s m cm with Some (Some s) => Some (SOwn s) | Some None => Some SNull | None => None end) as [cm'|] eqn:E4; [|discriminate].
  cbn [dup_o view_o]. rewrite (R _ _ E1), (R _ _ E2), (R _ _ E3), (R _ _ E4).
  destruct sub as [|cl l]; [exact Hv|].
  assert (G : forall l', (fix go (l : list dopt) : option (list dopt) :=
                 match l with [] => Some [] | x :: r => match view_o m x, go r with Some x', Some r' => Some (x' :: r') | _, _ => None end end) l = Some l' ->
               (fix go (l : list dopt) : option (list dopt) :=
                 match l with [] => Some [] | x :: r => match view_o m' x, go r with Some x', Some r' => Some (x' :: r') | _, _ => None end end)
                 ((fix go (l : list dopt) := match l with [] => [] | x :: r => dup_o m x :: go r end) l) = Some l').
  { clear Hv. induction l as [|x l IHl]; intros l' Hl; [exact Hl|].
    inversion IH; subst.
    destruct (view_o m x) as [x'|] eqn:Ex; [|discriminate].
    destruct ((fix go (l : list dopt) : option (list dopt) :=
                 match l with [] => Some [] | x :: r => match view_o m x, go r with Some x', Some r' => Some (x' :: r') | _, _ => None end end) l) as [r'|] eqn:Er; [|discriminate].
    rewrite (H1 _ eq_refl m'), (IHl H2 _ eq_refl). exact Hl. }
  destruct ((fix go (l : list dopt) : option (list dopt) :=
                 match l with [] => Some [] | x :: r => match view_o m x, go r with Some x', Some r' => Some (x' :: r') | _, _ => None end end) l) as [l'|] eqn:El; [|discriminate].
  rewrite (G _ eq_refl). exact Hv.
Qed.
