(* ====================================================================== *)
(*  OomExtract.v -- extraction of the fault table of the model             *)
(*                                                                        *)
(*  oom_table : unit -> (nat * nat list) list                              *)
(*  gives, for each fixed instance of Oom.v PART III                       *)
(*     1  cfg_addval           (option without values)                     *)
(*     2  cfg_opt_setnstr      (option without values, value "v", index 0) *)
(*     21 cfg_opt_setnstr      (option with one value,  value "v", index 0)*)
(*     3  cfg_opt_setcomment                                               *)
(*     4  cfg_add_searchpath   ("/etc")                                    *)
(*     41 cfg_add_searchpath   ("~root/x", passwd entry found)             *)
(*     5  cfg_addopt           (3-option cfg, key "k")                     *)
(*     6  cfg_dupopt_array     ({INT a; STR b="x"; STR_LIST l="{p}"})      *)
(*     61 cfg_dupopt_array     ({SEC s {INT i; STR t="x"}; STR b="x"})     *)
(*     7  cfg_init             (template of 6, without cfg_init_defaults)  *)
(*     71 cfg_init             (template of 61, without cfg_init_defaults) *)
(*  the fault indices k (k-th allocation request of the call fails,        *)
(*  counted from 1 at the start of the call) for which the model reports   *)
(*  failure through the return value.  All other k in 0..13 give Done.      *)
(* ====================================================================== *)
Require Extraction.
Require ExtrOcamlBasic.
Require Import LC.Oom.

Extraction Language OCaml.
Extraction "oom_table.ml" oom_table inst_kind.
