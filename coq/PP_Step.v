(* PP_Step.v — C01: one-step unfolding equations for the three mutually recursive functions of Parser.v.
   The bodies are restated as ordinary definitions (one per machine state) so that later proofs
   never have to unfold the fixpoints themselves. *)
From Coq Require String.
From Coq Require Import List Arith NArith ZArith Bool.
From Coq.Strings Require Import Byte.
From LC Require Import Bytes Consts Conv Flex LexAct Lexer Files Store Parser.
Import ListNotations.
Import String.StringSyntax.
Local Open Scope string_scope.
Local Open Scope list_scope.

Section WithOracles.
Variable strtod_o : str -> strtod_res.

Notation PI := (parse_internal strtod_o).
Notation SO := (setopt strtod_o).
Notation ID := (init_defaults strtod_o).

Definition perr (w : pw) (c : cfg) : pw * cfg * prc := (w, c, PERR).
Definition errd (w : pw) (c : cfg) (m : String.string) : pw * cfg * prc := (add_diags w (cfg_diag c m), c, PERR).
Definition curopt_of (c : cfg) (p : pst) : option opt := match s_opt p with Some r => get_opt c r | None => None end.
Definition dep_w (w : pw) (c : cfg) (p : pst) : pw * cfg :=
  match s_opt p with Some r => handle_deprecated w c r | None => (w, c) end.

(* ---- state 0 ---- *)
Definition st0 (f level : nat) (p : pst) (w : pw) (c : cfg) (t : tok) (yylval : option str) : pw * cfg * prc :=
  let '(w, c) := dep_w w c p in
  match t with
  | TPunct 125 => if Nat.eqb level 0 then errd w c "unexpected closing brace" else (w, c, PEOF)
  | TComment =>
      if negb (cflag c CFGF_COMMENTS) then PI f w c level p
      else PI f w c level (st_comment p (Some (sval yylval)))
  | TStr =>
      let name := sval yylval in
      let '(ro, ds) := cfg_getopt c name in
      let w := add_diags w ds in
      match ro with
      | None =>
          if cflag c CFGF_IGNORE_UNKNOWN then PI f w c level (st_state (st_opt p None) 10)
          else if cflag c CFGF_KEYSTRVAL && negb (match name with [] => true | _ => false end) then
            let '(c1, r) := addopt c name in PI f w c1 level (st_state (st_opt p (Some r)) 1)
          else match name with
               | [] => errd w c "no such option '%s'"
               | _ => perr w c
               end
      | Some r =>
          match get_opt c r with
          | None => perr w c
          | Some o =>
              let st := match o_kind o with
                        | KSec => if oflag o CFGF_TITLE then 6%nat else 5%nat
                        | KFunc => 7%nat
                        | _ => 1%nat end in
              PI f w c level (st_state (st_opt p (Some r)) st)
          end
      end
  | _ => errd w c "unexpected token '%s'"
  end.

Definition st1 (f level : nat) (p : pst) (w : pw) (c : cfg) (t : tok) (yylval : option str) : pw * cfg * prc :=
  match s_opt p, curopt_of c p with
  | Some r, Some o =>
      let after (o : opt) :=
        let o := o_setf o CFGF_MODIFIED in
        let c := put_opt c r o in
        if oflag o CFGF_LIST then PI f w c level (st_num (st_state p 3) 0) else PI f w c level (st_state p 2) in
      if tok_is t 43 then
        if negb (oflag o CFGF_LIST) then errd w c "attempt to append to non-list option '%s'"
        else after (o_clrf o CFGF_RESET)
      else if tok_is t 61 then after (o_setf o CFGF_RESET)
      else errd w c "missing equal sign after option '%s'"
  | _, _ => perr w c
  end.

Definition st2 (f level : nat) (p : pst) (w : pw) (c : cfg) (t : tok) (yylval : option str) : pw * cfg * prc :=
  match s_opt p, curopt_of c p with
  | Some r, Some o =>
      if tok_is t 125 && oflag o CFGF_LIST then
        if Nat.eqb (s_num p) 0 && oflag o CFGF_RESET then
          let '(o1, fr) := free_value o in PI f (log_frees w fr) (put_opt c r o1) level (st_state p 0)
        else PI f w c level (st_state p 0)
      else if negb (tok_is_str t) then errd w c "unexpected token '%s'"
      else
        let '(w1, o1, res) := SO f w c o yylval in
        let c1 := put_opt c r o1 in
        match res with
        | None => perr w1 c1
        | Some _ =>
            let '(w2, fl) := run_validcb w1 o1 in
            if fl then perr w2 c1
            else
              let o2 := match s_comment p with Some cm => opt_setcomment o1 cm | None => o1 end in
              let c2 := put_opt c1 r o2 in
              let p1 := st_comment p None in
              if oflag o2 CFGF_LIST then PI f w2 c2 level (st_state (st_num p1 (S (s_num p1))) 4)
              else PI f w2 c2 level (st_state p1 0)
        end
  | _, _ => (set_crash w "null-deref:state2", c, PERR)
  end.

Definition st3 (f level : nat) (p : pst) (w : pw) (c : cfg) (t : tok) (yylval : option str) : pw * cfg * prc :=
  match s_opt p, curopt_of c p with
  | Some r, Some o =>
      if tok_is t 123 then PI f w c level (st_state p 2)
      else if negb (tok_is_str t) then errd w c "unexpected token '%s'"
      else
        let '(w1, o1, res) := SO f w c o yylval in
        let c1 := put_opt c r o1 in
        match res with
        | None => perr w1 c1
        | Some _ =>
            let '(w2, fl) := run_validcb w1 o1 in
            if fl then perr w2 c1
            else
              let o2 := match s_comment p with Some cm => opt_setcomment o1 cm | None => o1 end in
              let c2 := put_opt c1 r o2 in
              let p1 := st_comment p None in
              PI f w2 c2 level (st_state (st_num p1 (S (s_num p1))) 0)
        end
  | _, _ => (set_crash w "null-deref:state3", c, PERR)
  end.

Definition st4 (f level : nat) (p : pst) (w : pw) (c : cfg) (t : tok) (yylval : option str) : pw * cfg * prc :=
  if tok_is t 44 then PI f w c level (st_state p 2)
  else if tok_is t 125 then
    match curopt_of c p with
    | Some o => let '(w1, fl) := run_validcb w o in if fl then perr w1 c else PI f w1 c level (st_state p 0)
    | None => PI f w c level (st_state p 0)
    end
  else errd w c "unexpected token '%s'".

Definition sec_prep (c1 : cfg) (sec : cfg) : cfg :=
  let sec1 := set_err (set_line sec (c_line c1)) (c_err c1) in
  match c_file c1 with
  | Some fn => match c_file sec1 with
               | Some sf => if str_eqb sf fn then sec1 else set_file sec1 (Some fn)
               | None => set_file sec1 (Some fn) end
  | None => sec1 end.

Definition st5 (f level : nat) (p : pst) (w : pw) (c : cfg) (t : tok) (yylval : option str) : pw * cfg * prc :=
  if negb (tok_is t 123) then errd w c "missing opening brace for section '%s'"
  else
  match s_opt p, curopt_of c p with
  | Some r, Some o =>
      let '(w1, o1, res) := SO f w c o (s_title p) in
      let c1 := put_opt c r o1 in
      match res with
      | None => perr w1 c1
      | Some idx =>
          let p1 := st_title p None in
          match nth_sec o1 idx with
          | None => (set_crash w1 "null-deref:state5", c1, PERR)
          | Some sec =>
              let sec2 := sec_prep c1 sec in
              let '(w2, sec3, rc) := PI f w1 sec2 (S level) (pst0 0 None) in
              let o2 := set_vals o1 (upd_nth (o_vals o1) idx (fun _ => VSec (Some sec3))) in
              let c2 := put_opt c1 r o2 in
              match rc with
              | PEOF =>
                  let c3 := set_line c2 (c_line sec3) in
                  let '(w3, fl) := run_validcb w2 o2 in
                  if fl then perr w3 c3 else PI f w3 c3 level (st_state p1 0)
              | _ => perr w2 c2
              end
          end
      end
  | _, _ => (set_crash w "null-deref:state5", c, PERR)
  end.

Definition st6 (f level : nat) (p : pst) (w : pw) (c : cfg) (t : tok) (yylval : option str) : pw * cfg * prc :=
  if negb (tok_is_str t) then errd w c "missing title for section '%s'"
  else PI f w c level (st_state (st_title p (Some (sval yylval))) 5).

Definition st7 (f level : nat) (p : pst) (w : pw) (c : cfg) (t : tok) (yylval : option str) : pw * cfg * prc :=
  if negb (tok_is t 40) then errd w c "missing parenthesis for function '%s'"
  else PI f w c level (st_state p 8).

Definition st89 (f level : nat) (p : pst) (w : pw) (c : cfg) (t : tok) (yylval : option str) : pw * cfg * prc :=
  let call (w : pw) (c : cfg) :=
    match curopt_of c p with
    | None => (set_crash w "null-deref:call_function", c, PERR)
    | Some o =>
        let args := s_args p in
        let p1 := st_args p [] in
        match cb_func (o_cbs o) with
        | Some FInclude =>
            match args with
            | [a] => let '(w1, c1, failed) := lexer_include w c a in
                     if failed then perr w1 c1 else PI f w1 c1 level (st_state p1 0)
            | _ => errd w c "wrong number of arguments to cfg_include()"
            end
        | Some (FUser k) =>
            let '(w1, fl) := tick w in
            let w2 := add_cb w1 (CbFunc k (o_name o) args fl) in
            if fl then perr w2 c else PI f w2 c level (st_state p1 0)
        | None => (set_crash w "null-call:call_function", c, PERR)
        end
    end in
  if Nat.eqb (s_state p) 8 then
    if tok_is t 41 then call w c
    else if tok_is_str t then PI f w c level (st_state (st_args p (s_args p ++ [sval yylval])) 9)
    else errd w c "syntax error in call of function '%s'"
  else
    if tok_is t 41 then call w c
    else if tok_is t 44 then PI f w c level (st_state p 8)
    else errd w c "syntax error in call of function '%s'".

Definition st10 (f level : nat) (p : pst) (w : pw) (c : cfg) (t : tok) (yylval : option str) : pw * cfg * prc :=
  let p := st_comment p None in
  if tok_is t 43 || tok_is t 61 then PI f w c level (st_state p 14)
  else if tok_is t 40 then PI f w c level (st_state (st_ignore p 41) 13)
  else if tok_is t 123 then PI f w c level (st_state (st_skip p 1) 12)
  else if tok_is_str t then PI f w c level (st_state p 11)
  else errd w c "unexpected token '%s'".

Definition st11 (f level : nat) (p : pst) (w : pw) (c : cfg) (t : tok) (yylval : option str) : pw * cfg * prc :=
  if negb (tok_is t 123) then errd w c "unexpected token '%s'"
  else PI f w c level (st_state (st_skip p 1) 12).

Definition st12 (f level : nat) (p : pst) (w : pw) (c : cfg) (t : tok) (yylval : option str) : pw * cfg * prc :=
  if tok_is t 123 then PI f w c level (st_skip p (S (s_skip p)))
  else if tok_is t 125 then
    (if Nat.eqb (s_skip p) 1 then PI f w c level (st_state (st_skip p 0) 0) else PI f w c level (st_skip p (pred (s_skip p))))
  else PI f w c level p.

Definition st13 (f level : nat) (p : pst) (w : pw) (c : cfg) (t : tok) (yylval : option str) : pw * cfg * prc :=
  if (tok_code t =? s_ignore p)%N then PI f w c level (st_state (st_ignore p 0) 0) else PI f w c level p.

Definition st14 (f level : nat) (p : pst) (w : pw) (c : cfg) (t : tok) (yylval : option str) : pw * cfg * prc :=
  if tok_is t 123 then PI f w c level (st_state (st_ignore p 125) 13)
  else if negb (tok_is_str t) then errd w c "unexpected token '%s'"
  else PI f w c level (st_state p 0).

Definition st_dispatch (f level : nat) (p : pst) (w : pw) (c : cfg) (t : tok) (yylval : option str) : pw * cfg * prc :=
  match s_state p with
  | 0%nat => st0 f level p w c t yylval
  | 1%nat => st1 f level p w c t yylval
  | 2%nat => st2 f level p w c t yylval
  | 3%nat => st3 f level p w c t yylval
  | 4%nat => st4 f level p w c t yylval
  | 5%nat => st5 f level p w c t yylval
  | 6%nat => st6 f level p w c t yylval
  | 7%nat => st7 f level p w c t yylval
  | 8%nat | 9%nat => st89 f level p w c t yylval
  | 10%nat => st10 f level p w c t yylval
  | 11%nat => st11 f level p w c t yylval
  | 12%nat => st12 f level p w c t yylval
  | 13%nat => st13 f level p w c t yylval
  | 14%nat => st14 f level p w c t yylval
  | _ => errd w c "Internal error in cfg_parse_internal(), unknown state %d"
  end.

Definition pi_body (f level : nat) (p : pst) (w : pw) (c : cfg) (t : tok) (yylval : option str) : pw * cfg * prc :=
  match t with
  | TErr => perr w c
  | TEof =>
      if negb (Nat.eqb (s_state p) 0) then errd w c "premature end of file"
      else if negb (Nat.eqb level 0) && negb (s_forced p) then errd w c "missing closing brace for section '%s'"
      else let '(w, c) := dep_w w c p in (w, c, PEOF)
  | _ =>
      if match t with TComment => negb (Nat.eqb (s_state p) 0) | _ => false end then PI f w c level p
      else st_dispatch f level p w c t yylval
  end.

Lemma pi_unfold f w c level p :
  PI (S f) w c level p = let '(w1, c1, t, v) := next_token f w c in pi_body f level p w1 c1 t v.
Proof. reflexivity. Qed.

Lemma pi_zero w c level p : PI 0 w c level p = (set_oof w, c, PERR).
Proof. reflexivity. Qed.

End WithOracles.
