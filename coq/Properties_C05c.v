(* Properties_C05c.v — C05, the STRUCTURAL round trip: lists, sections (plain, MULTI, MULTI|TITLE), any nesting depth.
   Only statements here; proofs are in StructLexProofs.v (the scanner on the printed layout), StructRoundProofs.v
   (the reference meaning of the printed tokens, the round trip) and StructCleanProofs.v (annotations / print filters
   are not invented by the parser).

   MODEL  Print.print_cfg / print_opt (cfg_print), Parser.parse_buf (cfg_parse_buf), Lexer.lex_all / yylex.
   ROUTE  print_cfg cs scans (StructLexProofs.Lexes) to the token list StructRoundProofs.gt k cs; the reference meaning
          Grammar.meaning of that list in the target context is computed (meaning_printed); the C01 refinement
          (ParserProofs.c01_parse_buf) transfers it to cfg_parse_buf.  The statements therefore INHERIT C01's schema scope:
          the target context must satisfy ParserProofs.Inv (kinds int/float/bool/string/section, no parse / validate
          callbacks, sane list default texts, nesting depth <= k) — hypothesis `Inv` below.

   VOCABULARY (StructRoundProofs.v; all three are recursive on the nesting depth k, unfolding equations at the end)
     src_ok k cs     the printed configuration cs, live tree of depth <= k:  no print filter on any context; every option
                     has a name that is a simple word (no NUL, no '|'), no comment annotation; scalar (non-list) options
                     are SET: exactly one value, satisfying FlatRoundProofs.val_ok (a long; a bool; a NON-NULL string
                     without NUL; a double that the libc oracles "%f"/strtod round-trip); list options hold val_ok values
                     (so no NULL string in a list); no print callback on scalar / list options; section options hold
                     sections only (no NULL section); when CFGF_TITLE the title is present and has no NUL.
                     These are the SUBTLETIES the property hides: an unset scalar is printed as the comment `# name=...`
                     and re-reads as whatever the target holds; a NULL string prints like the empty string; see the
                     counter-examples at the end.
     tg_ok k cs ct   the context ct the text is parsed into has the same declarations: option by option the same name and
                     kind, not CFGF_DEPRECATED, same CFGF_LIST / CFGF_TITLE, no print callback; option names pairwise
                     distinct under ct's case rule; scalar / list options may hold ANY values (defaults included: `=`
                     replaces, `= {}` clears);  a MULTI section option of ct must be EMPTY (fresh context) and, when
                     titled, the printed titles must be pairwise distinct under the case rule (a repeated title would
                     replace in place);  a non-MULTI section option is untitled, printed with exactly one instance, and ct
                     holds no instance (a fresh one is created: Grammar.instance) or one instance (the text MERGES into it)
                     which recursively satisfies tg_ok against the printed instance.
     same k cs ct'   result: option by option the same name, kind, CFGF_LIST/CFGF_TITLE, the same value list (so the same
                     list length) for scalar / list options, and for section options the same number of instances in the same
                     order, the same title when titled, and recursively `same` bodies.
     cleanC c        (StructCleanProofs.v, decidable) no print filter, no CFGF_COMMENTS on any context of the tree and no comment
                     on any option or declaration: annotations and print filters are excluded. *)
From Coq Require String.
Import String.StringSyntax.
From Coq Require Import List Arith NArith ZArith Bool Lia.
From Coq.Strings Require Import Byte.
From LC Require Import Bytes Consts Conv Flex LexAct LexRules Lexer LexLemmas LexAll Files Store Parser Print Grammar
                       NumRoundProofs FlatRoundProofs PP_Tok PP_Inv ParserProofs
                       StructLexProofs StructCleanProofs StructRoundProofs.
Import ListNotations.
Local Open Scope string_scope.
Local Open Scope list_scope.

(* ---- 1. a list line and its tokens ---- *)
(* cfg_opt_print of a LIST option whose values are printable (val_ok) writes, at depth d,
       INDENT name = {t1, t2, ...}\n       (`name = {}` for the empty list)
   and a scanner reading exactly this text delivers exactly the tokens
       CFGT_STR name, '=', '{', CFGT_STR v1, ',', CFGT_STR v2, ..., '}'   then end of input, no diagnostics,
   where v_i is the token value of the i-th value (vtokval: the numeral, true/false, the string itself, the "%f" text). *)
Theorem C05_list_line_tokens :
  forall (fmt_f : N -> str) (strtod_o : str -> strtod_res) (e : envt) (d : nat) (o : opt) (st : lexst) (id : nat)
         (others : list (nat * list byte)) (p : pos),
  name_ok (o_name o) -> o_comment o = None -> cb_print (o_cbs o) = None ->
  (o_kind o = KInt \/ o_kind o = KBool \/ o_kind o = KStr \/ o_kind o = KFloat) -> oflag o CFGF_LIST = true ->
  Forall (val_ok fmt_f strtod_o (o_kind o)) (o_vals o) ->
  print_opt fmt_f o None d =
    indent_str d ++ o_name o ++ M " = {" ++ sep_by (M ", ") (map (vtext fmt_f) (o_vals o)) ++ M "}" ++ [x0a] /\
  (l_sc st = INITIAL /\ l_bufs st = (id, print_opt fmt_f o None d) :: others /\ l_inc st = [] /\ l_rderr st = false ->
   exists ts st' p',
     lex_all e (S (length ts)) st p [] [] = (ts, TEof, st', p', []) /\
     map gtok_of ts = map Some (GS (o_name o) :: GP 61 :: GP 123 ::
                                match o_vals o with
                                | [] => [GP 125]
                                | v :: r => GS (vtokval fmt_f v) :: flat_map (fun x => [GP 44; GS (vtokval fmt_f x)]) r ++ [GP 125]
                                end)).
Proof. exact list_line_tokens. Qed.
Print Assumptions C05_list_line_tokens.

(* the token value of a printed value converts back to the value (cfg_setopt's conversions) *)
Theorem C05_value_token_converts :
  forall (fmt_f : N -> str) (strtod_o : str -> strtod_res) (k : kind) (v : value),
  val_ok fmt_f strtod_o k v -> conv_value strtod_o k (vtokval fmt_f v) = Some v.
Proof. exact conv_value_vtokval. Qed.
Print Assumptions C05_value_token_converts.

(* ---- 2. flat configurations with scalars AND lists ---- *)
(* same_flat cs ct': option by option the same name, kind and value list.
   The target may hold any values: `name = {...}` replaces them (defaults included), `name = {}` clears them.
   (src_ok 0 / tg_ok 0 allow section options only without instances: they print nothing.) *)
Theorem C05_list_roundtrip :
  forall (fmt_f : N -> str) (strtod_o : str -> strtod_res) (DC : nat) (cs ct : cfg) (w : pw) (fuel : nat),
  wready w -> Inv strtod_o (w_env w) DC 0 ct ->
  src_ok fmt_f strtod_o 0 cs -> tg_ok strtod_o 0 cs ct -> cleanC ct = true ->
  (2 * length (print_cfg fmt_f cs None 0) + measure (w_lex w) + 4 + DC < fuel)%nat ->
  exists w' ct',
    parse_buf strtod_o fuel w ct (Some (print_cfg fmt_f cs None 0)) = (w', ct', CFG_SUCCESS) /\
    w_oof w' = false /\
    Forall2 (fun so to' => o_name to' = o_name so /\ o_kind to' = o_kind so /\ o_vals to' = o_vals so) (c_opts cs) (c_opts ct') /\
    print_cfg fmt_f ct' None 0 = print_cfg fmt_f cs None 0.
Proof. exact list_roundtrip. Qed.
Print Assumptions C05_list_roundtrip.

(* ---- 3. one level of sections: plain, MULTI, MULTI|TITLE (any title bytes but NUL) ---- *)
(* same_sec1 so to': same name and kind; a scalar / list option has the same values; a section option has the same number
   of instances, in the same order, with the same title when CFGF_TITLE, and bodies with the same names, kinds, values *)
Theorem C05_section_roundtrip :
  forall (fmt_f : N -> str) (strtod_o : str -> strtod_res) (DC : nat) (cs ct : cfg) (w : pw) (fuel : nat),
  wready w -> Inv strtod_o (w_env w) DC 1 ct ->
  src_ok fmt_f strtod_o 1 cs -> tg_ok strtod_o 1 cs ct -> cleanC ct = true ->
  (2 * length (print_cfg fmt_f cs None 0) + measure (w_lex w) + 6 + DC < fuel)%nat ->
  exists w' ct',
    parse_buf strtod_o fuel w ct (Some (print_cfg fmt_f cs None 0)) = (w', ct', CFG_SUCCESS) /\
    w_oof w' = false /\
    Forall2 (fun so to' =>
               o_name to' = o_name so /\ o_kind to' = o_kind so /\
               match o_kind so with
               | KSec => Forall2 (fun va vb => match va, vb with
                                               | VSec (Some sa), VSec (Some sb) =>
                                                   (oflag so CFGF_TITLE = true -> c_title sb = c_title sa) /\
                                                   Forall2 (fun so1 to1 => o_name to1 = o_name so1 /\ o_kind to1 = o_kind so1 /\
                                                                           o_vals to1 = o_vals so1) (c_opts sa) (c_opts sb)
                                               | _, _ => False end) (o_vals so) (o_vals to')
               | _ => o_vals to' = o_vals so
               end) (c_opts cs) (c_opts ct') /\
    print_cfg fmt_f ct' None 0 = print_cfg fmt_f cs None 0.
Proof. exact section_roundtrip. Qed.
Print Assumptions C05_section_roundtrip.

(* ---- 3'. any nesting depth k ---- *)
(* the result ct' is again printable (src_ok), clean, satisfies C01's invariant, and the world is ready for the next parse:
   the statement can be iterated *)
Theorem C05_roundtrip :
  forall (fmt_f : N -> str) (strtod_o : str -> strtod_res) (k DC : nat) (cs ct : cfg) (w : pw) (fuel : nat),
  wready w -> Inv strtod_o (w_env w) DC k ct ->
  src_ok fmt_f strtod_o k cs -> tg_ok strtod_o k cs ct -> cleanC ct = true ->
  (2 * length (print_cfg fmt_f cs None 0) + measure (w_lex w) + 2 * k + 4 + DC < fuel)%nat ->
  exists w' ct',
    parse_buf strtod_o fuel w ct (Some (print_cfg fmt_f cs None 0)) = (w', ct', CFG_SUCCESS) /\
    w_oof w' = false /\ same k cs ct' /\
    print_cfg fmt_f ct' None 0 = print_cfg fmt_f cs None 0 /\
    src_ok fmt_f strtod_o k ct' /\ cleanC ct' = true /\ c_flags ct' = c_flags ct /\
    Inv strtod_o (w_env w) DC k ct' /\ wready w' /\ w_env w' = w_env w.
Proof. exact struct_roundtrip. Qed.
Print Assumptions C05_roundtrip.

(* ---- 4. print (parse (print c)) = print c ---- *)
Theorem C05_print_idempotent :
  forall (fmt_f : N -> str) (strtod_o : str -> strtod_res) (k DC : nat) (cs ct : cfg) (w : pw) (fuel : nat),
  wready w -> Inv strtod_o (w_env w) DC k ct ->
  src_ok fmt_f strtod_o k cs -> tg_ok strtod_o k cs ct -> cleanC ct = true ->
  (2 * length (print_cfg fmt_f cs None 0) + measure (w_lex w) + 2 * k + 4 + DC < fuel)%nat ->
  let '(w', ct', rc) := parse_buf strtod_o fuel w ct (Some (print_cfg fmt_f cs None 0)) in
  rc = CFG_SUCCESS /\ print_cfg fmt_f ct' None 0 = print_cfg fmt_f cs None 0.
Proof. exact print_idempotent. Qed.
Print Assumptions C05_print_idempotent.

(* ---- the pieces, for any nesting depth ---- *)
(* the printed text (any indentation d), read by a scanner that reads just this text, gives exactly the tokens gt k cs *)
Theorem C05_printed_tokens :
  forall (fmt_f : N -> str) (strtod_o : str -> strtod_res) (e : envt) (k : nat) (cs : cfg) (d : nat) (st : lexst) (id : nat)
         (others : list (nat * list byte)) (p : pos),
  src_ok fmt_f strtod_o k cs ->
  l_sc st = INITIAL /\ l_bufs st = (id, print_cfg fmt_f cs None d) :: others /\ l_inc st = [] /\ l_rderr st = false ->
  exists ts st' p',
    lex_all e (S (length ts)) st p [] [] = (ts, TEof, st', p', []) /\
    map gtok_of ts = map Some (gt fmt_f k cs) /\ (length ts <= length (print_cfg fmt_f cs None d))%nat.
Proof.
  exact (fun fmt_f strtod_o e k cs d st id others p HS L =>
           Lexes_lex_all e _ _ st id others p (lexes_print fmt_f strtod_o e k cs d HS) L).
Qed.
Print Assumptions C05_printed_tokens.

(* the reference meaning (SPEC of C01) of those tokens in the target context *)
Theorem C05_printed_meaning :
  forall (fmt_f : N -> str) (strtod_o : str -> strtod_res) (k : nat) (cs ct : cfg) (ts : list ltok),
  src_ok fmt_f strtod_o k cs -> tg_ok strtod_o k cs ct -> gtoks ts = gt fmt_f k cs ->
  exists ct', text_meaning strtod_o ct ts = Some (obs_c ct') /\ same k cs ct' /\ c_flags ct' = c_flags ct.
Proof. exact text_meaning_printed. Qed.
Print Assumptions C05_printed_meaning.

(* cfg_parse_buf keeps a tree free of annotations and print filters free of them *)
Theorem C05_parse_keeps_clean :
  forall (strtod_o : str -> strtod_res) (fuel : nat) (w : pw) (c : cfg) (b : option str),
  cleanC c = true -> cleanC (snd (fst (parse_buf strtod_o fuel w c b))) = true.
Proof. exact parse_buf_clean. Qed.
Print Assumptions C05_parse_keeps_clean.

(* the printed text never contains a NUL byte (cfg_parse_buf sees all of it) *)
Theorem C05_print_no_nul :
  forall (fmt_f : N -> str) (strtod_o : str -> strtod_res) (k : nat) (c : cfg) (d : nat),
  src_ok fmt_f strtod_o k c -> Forall (fun b => b <> x00) (print_cfg fmt_f c None d).
Proof. exact print_no_nul. Qed.
Print Assumptions C05_print_no_nul.

(* ---- what the three recursive predicates say, one level at a time (src_opt, tg_opt, same_opt are plain
        definitions in StructRoundProofs.v) ---- *)
Theorem C05_src_ok_unfold :
  forall fmt_f strtod_o k c,
  src_ok fmt_f strtod_o (S k) c <-> c_pff c = None /\ Forall (src_opt fmt_f strtod_o (src_ok fmt_f strtod_o k)) (c_opts c).
Proof. exact src_ok_unfold. Qed.
Theorem C05_tg_ok_unfold :
  forall strtod_o k cs ct,
  tg_ok strtod_o (S k) cs ct <->
  names_distinct (cflag ct CFGF_NOCASE) (map o_name (c_opts ct)) /\
  Forall2 (tg_opt strtod_o (tg_ok strtod_o k) (c_flags ct) (cflag ct CFGF_NOCASE)) (c_opts cs) (c_opts ct).
Proof. exact tg_ok_unfold. Qed.
Theorem C05_same_unfold :
  forall k a b, same (S k) a b <-> Forall2 (same_opt (same k)) (c_opts a) (c_opts b).
Proof. exact same_unfold. Qed.

(* the decidable versions used in the examples are sound *)
Theorem C05_checkers_sound :
  forall fmt_f strtod_o k cs ct,
  (src_okb fmt_f strtod_o k cs = true -> src_ok fmt_f strtod_o k cs) /\
  (tg_okb strtod_o k cs ct = true -> tg_ok strtod_o k cs ct).
Proof. exact (fun fmt_f strtod_o k cs ct => conj (src_okb_ok fmt_f strtod_o k cs) (tg_okb_ok strtod_o k cs ct)). Qed.
Print Assumptions C05_checkers_sound.

(* ================================================================================================= *)
(* Examples: the hypotheses are satisfiable on a configuration with a list whose defaults were emptied,  *)
(* a titled MULTI section with a hostile title (a, double quote, backslash, dollar, {x}), a nested section *)
(* ================================================================================================= *)
Module Ex.
Definition B := bs_of_string.
Definition mk n k fl sub := Opt (B n) k fl [] sub defv0 None cbset0.
Definition mkd n k fl (num : Z) :=
  Opt (B n) k fl [] [] {| d_num := num; d_fp := 0; d_bool := true; d_str := Some (B "dflt"); d_parsed := None |} None cbset0.
Definition mkl n k fl (txt : String.string) :=
  Opt (B n) k fl [] [] {| d_num := 0; d_fp := 0; d_bool := false; d_str := None; d_parsed := Some (B txt) |} None cbset0.
(* flags: 1 MULTI, 2 LIST, 8 TITLE *)
Definition decls : list opt :=
  [ mkd "count" KInt 0%N 7; mkd "on" KBool 0%N 0; mkd "motd" KStr 0%N 0;
    mkl "tags" KStr 2%N "{a, b}"; mkl "nums" KInt 2%N "{1}"; mkd "ratio" KFloat 0%N 0;
    mk "log" KSec 0%N [mkd "lvl" KInt 0%N 1];
    mk "srv" KSec 9%N [mkd "port" KInt 0%N 80; mkl "al" KStr 2%N "{x}"; mk "opts" KSec 0%N [mkd "v" KBool 0%N 0]];
    mk "m" KSec 1%N [mkd "a" KInt 0%N 1] ].
(* libc oracles: every double prints as 0.000000 and strtod reads any text, whole, as 0 *)
Definition sd (s : str) : strtod_res := {| sd_bits := 0; sd_consumed := length s; sd_erange := false |}.
Definition fmt (_ : N) : str := B "0.000000".
Definition w0 : pw := {| w_lex := lex_init; w_env := []; w_fs := {| fs_root := B "/R"; fs_ents := [] |};
  w_pw := {| pw_tab := []; pw_self := None |}; w_path := []; w_cbs := []; w_cnt := 0; w_failat := 0; w_nextptr := 1;
  w_diags := []; w_open := 0; w_crash := None; w_oof := false |}.
(* the fresh context cfg_init builds (defaults: tags = {a, b}, nums = {1}, log { lvl = 1 }) *)
Definition c0 := snd (cfg_init sd 1000 w0 decls 0).
(* a state reached by parsing: tags emptied, a hostile string and title, nested sections, two untitled MULTI instances *)
Definition txt := B "count = -5 tags = {} nums = {1, 2, 3} motd = ""q\""\\\$ {x}
z"" srv ""a\""\\\${x}"" { port = 8080 al = {""p q"", r} opts { v = false } } srv b { } m { a = 2 } m { } log { lvl = 3 }".
Definition cs := snd (fst (parse_buf sd 1000 w0 c0 (Some txt))).

Example C05c_ex_source_state :
  snd (parse_buf sd 1000 w0 c0 (Some txt)) = CFG_SUCCESS /\
  map (fun o => (o_name o, o_vals o)) (firstn 6 (c_opts cs)) =
  [(B "count", [VInt (-5)]); (B "on", [VBool true]); (B "motd", [VStr (Some (B "q""\$ {x}
z"))]); (B "tags", []); (B "nums", [VInt 1; VInt 2; VInt 3]); (B "ratio", [VFloat 0])] /\
  map (fun o => (o_name o, length (o_vals o))) (skipn 6 (c_opts cs)) = [(B "log", 1%nat); (B "srv", 2%nat); (B "m", 2%nat)] /\
  (* the titles of the two srv instances *)
  match nth_error (c_opts cs) 7 with
  | Some o => map (fun v => match v with VSec (Some s) => c_title s | _ => None end) (o_vals o) = [Some (B "a""\${x}"); Some (B "b")]
  | None => False end /\
  (* the fresh target holds the declared defaults *)
  map (fun o => (o_name o, o_vals o)) (firstn 5 (c_opts c0)) =
  [(B "count", [VInt 7]); (B "on", [VBool true]); (B "motd", [VStr (Some (B "dflt"))]);
   (B "tags", [VStr (Some (B "a")); VStr (Some (B "b"))]); (B "nums", [VInt 1])].
Proof. vm_compute. repeat split; reflexivity. Qed.

(* what cfg_print writes for it *)
Example C05c_ex_text :
  print_cfg fmt cs None 0 =
  B "count=-5
on=true
motd=""q\""\\\$ {x}
z""
tags = {}
nums = {1, 2, 3}
ratio=0.000000
log {
  lvl=3
}
srv ""a\""\\\${x}"" {
  port=8080
  al = {""p q"", ""r""}
  opts {
    v=false
  }
}
srv ""b"" {
  port=80
  al = {""x""}
  opts {
    v=true
  }
}
m {
  a=2
}
m {
  a=1
}
".
Proof. vm_compute. reflexivity. Qed.

(* the hypotheses of C05_roundtrip hold (depth 2 suffices; DC = 30 bounds the list default texts) *)
Example C05c_ex_hypotheses :
  wready w0 /\ Inv sd (w_env w0) 30 2 c0 /\
  src_ok fmt sd 2 cs /\ tg_ok sd 2 cs c0 /\ cleanC c0 = true /\
  (2 * length (print_cfg fmt cs None 0) + measure (w_lex w0) + 2 * 2 + 4 + 30 <? 2000)%nat = true.
Proof.
  split; [split; [reflexivity|split; [reflexivity|apply q_inv_empty]]|].
  split; [vm_compute; reflexivity|].
  split; [apply src_okb_ok; vm_compute; reflexivity|].
  split; [apply tg_okb_ok; vm_compute; reflexivity|].
  split; vm_compute; reflexivity.
Qed.

(* and the executable model agrees: the re-parsed fresh context has the printed values (tags cleared although its
   default is {a, b}), the same instances with the same titles, and prints the same text *)
Example C05c_ex_run :
  let '(w', ct', rc) := parse_buf sd 2000 w0 c0 (Some (print_cfg fmt cs None 0)) in
  rc = CFG_SUCCESS /\ w_diags w' = [] /\
  print_cfg fmt ct' None 0 = print_cfg fmt cs None 0 /\
  obs_c ct' = obs_c cs /\
  match nth_error (c_opts ct') 3 with Some o => o_vals o = [] | None => False end.
Proof. vm_compute. repeat split; reflexivity. Qed.

(* ---- the subtleties, as counter-examples when a hypothesis is dropped ---- *)

(* (a) an UNSET scalar is printed as a comment and re-reads as whatever the target holds (here the default 7):
       "same values" needs the option to be set *)
Definition unset_src := Cfg (B "root") None 0 [Opt (B "count") KInt 0 [] [] defv0 None cbset0] None 0 true None.
Example C05c_unset_scalar_not_preserved :
  print_cfg fmt unset_src None 0 = B "# count=0
" /\
  let ct := snd (cfg_init sd 100 w0 [mkd "count" KInt 0%N 7] 0) in
  let '(w', ct', rc) := parse_buf sd 200 w0 ct (Some (print_cfg fmt unset_src None 0)) in
  rc = CFG_SUCCESS /\ map o_vals (c_opts ct') = [[VInt 7]] /\ src_okb fmt sd 0 unset_src = false.
Proof. vm_compute. repeat split; reflexivity. Qed.

(* (b) a NULL string in a list prints like the empty string and re-reads as the empty string, not NULL *)
Definition null_src := Cfg (B "root") None 0 [Opt (B "l") KStr 2 [VStr None] [] defv0 None cbset0] None 0 true None.
Example C05c_null_string_not_preserved :
  print_cfg fmt null_src None 0 = B "l = {""""}
" /\
  let ct := snd (cfg_init sd 100 w0 [mk "l" KStr 2%N []] 0) in
  let '(w', ct', rc) := parse_buf sd 200 w0 ct (Some (print_cfg fmt null_src None 0)) in
  rc = CFG_SUCCESS /\ map o_vals (c_opts ct') = [[VStr (Some [])]] /\ src_okb fmt sd 0 null_src = false.
Proof. vm_compute. repeat split; reflexivity. Qed.

(* (c) a MULTI section of the target that is not empty: the printed instances are APPENDED (4 instances instead of 2);
       parsing the printed text into the printed state itself is therefore not the identity *)
Example C05c_multi_target_must_be_empty :
  let '(w', ct', rc) := parse_buf sd 2000 w0 cs (Some (print_cfg fmt cs None 0)) in
  rc = CFG_SUCCESS /\
  match nth_error (c_opts ct') 8 with Some o => length (o_vals o) = 4%nat | None => False end /\
  tg_okb sd 2 cs cs = false.
Proof. vm_compute. repeat split; reflexivity. Qed.

(* (d) a non-MULTI section that is opened again MERGES: parsing  log { }  keeps lvl = 3 *)
Example C05c_plain_section_merges :
  let '(w', ct', rc) := parse_buf sd 2000 w0 cs (Some (B "log { }")) in
  rc = CFG_SUCCESS /\
  match nth_error (c_opts ct') 6 with
  | Some o => match o_vals o with [VSec (Some s)] => map o_vals (c_opts s) = [[VInt 3]] | _ => False end
  | None => False end.
Proof. vm_compute. repeat split; reflexivity. Qed.
End Ex.
