(* HdrProofs.v — cfg_init_defaults / cfg_parse_internal never touch the name, title or flags of the
   context they are given (they only replace its option list, position and error function). *)
From Coq Require String.
Import String.StringSyntax.
From Coq Require Import List Arith NArith ZArith Bool Lia.
From Coq.Strings Require Import Byte.
From LC Require Import Bytes Consts Conv Flex LexAct Lexer Files Store Parser.
Import ListNotations.
Local Open Scope string_scope.
Local Open Scope list_scope.

Section Bodies.
Variable so : pw -> cfg -> opt -> option str -> pw * opt * option nat.
Variable pi : pw -> cfg -> nat -> pst -> pw * cfg * prc.

Definition id_loop : list opt -> nat -> pw -> cfg -> pw * cfg :=
    (fix loop (todo : list opt) (i : nat) (w : pw) (c : cfg) {struct todo} : pw * cfg :=
       match todo with
       | [] => (w, c)
       | _ :: todo' =>
         match nth_error (c_opts c) i with
         | None => (w, c)
         | Some o =>
           (* duplicate names only produce a diagnostic *)
           let dup := existsb (fun j => match nth_error (c_opts c) j with
                                        | Some oj => name_eqb (has (N.lor (o_flags o) (o_flags oj)) CFGF_NOCASE) (o_name o) (o_name oj)
                                        | None => false end) (seq 0 i) in
           let w := if dup then add_diags w (cfg_diag c "duplicate option '%s' not allowed") else w in
           if oflag o CFGF_NODEFAULT then loop todo' (S i) w c
           else if negb (kind_eqb (o_kind o) KSec) then
             let o1 := o_setf o CFGF_DEFINIT in
             let c1 := put_opt c ([], i) o1 in
             if oflag o1 CFGF_LIST || match d_parsed (o_def o1) with Some _ => true | None => false end then
               match d_parsed (o_def o1) with
               | None => loop todo' (S i) w c1
               | Some [] => loop todo' (S i) w c1
               | Some buf =>
                   let xstate := if oflag o1 CFGF_LIST then 3%nat
                                 else if kind_eqb (o_kind o1) KFunc then 0%nat else 2%nat in
                   let w1 := upd_lex w (scan_begin (w_lex w) (cstr buf)) in
                   let '(w2, c2, rc) := pi w1 c1 1 (pst0 xstate (Some ([], i))) in
                   let w3 := upd_lex w2 (scan_end (w_lex w2)) in
                   match rc with
                   | PERR => (set_crash w3 "abort:cfg_init_defaults", c2)
                   | _ => let c3 := upd_opt c2 ([], i) (fun x => o_clrf (o_setf x CFGF_RESET) CFGF_MODIFIED) in
                          loop todo' (S i) w3 c3
                   end
               end
             else
               let d := o_def o1 in
               let setn (v : value) : opt :=
                 match opt_getval o1 0 with
                 | Some (o2, idx, _) => o_setf (set_vals o2 (upd_nth (o_vals o2) idx (fun _ => v))) CFGF_MODIFIED
                 | None => o1
                 end in
               let o2 := match o_kind o1 with
                         | KInt => setn (VInt (d_num d))
                         | KFloat => setn (VFloat (d_fp d))
                         | KBool => setn (VBool (d_bool d))
                         | KStr => setn (VStr (d_str d))
                         | _ => o1
                         end in
               let o3 := o_clrf (o_setf o2 CFGF_RESET) CFGF_MODIFIED in
               loop todo' (S i) w (put_opt c ([], i) o3)
           else if negb (oflag o CFGF_MULTI) then
             let '(w1, o1, _) := so w c o None in
             loop todo' (S i) w1 (put_opt c ([], i) (o_setf o1 CFGF_DEFINIT))
           else loop todo' (S i) w c
         end
       end).

Definition pi_body (fl : nat) (w : pw) (c : cfg) (level : nat) (p : pst) : pw * cfg * prc :=
    let '(w, c, t, yylval) := next_token fl w c in
    let error (w : pw) (c : cfg) : pw * cfg * prc := (w, c, PERR) in
    let errd (w : pw) (c : cfg) (m : String.string) := (add_diags w (cfg_diag c m), c, PERR) in
    let continue (w : pw) (c : cfg) (p : pst) := pi w c level p in
    let curopt : option opt := match s_opt p with Some r => get_opt c r | None => None end in
    let oname_known := true in
    match t with
    | TErr => error w c
    | TEof =>
        if negb (Nat.eqb (s_state p) 0) then errd w c "premature end of file"
        else if negb (Nat.eqb level 0) && negb (s_forced p) then errd w c "missing closing brace for section '%s'"
        else
          let '(w, c) := match s_opt p with Some r => handle_deprecated w c r | None => (w, c) end in
          (w, c, PEOF)
    | _ =>
      if match t with TComment => negb (Nat.eqb (s_state p) 0) | _ => false end then continue w c p
      else
      match s_state p with
      | 0%nat =>
          let '(w, c) := match s_opt p with Some r => handle_deprecated w c r | None => (w, c) end in
          match t with
          | TPunct 125 =>
              if Nat.eqb level 0 then errd w c "unexpected closing brace" else (w, c, PEOF)
          | TComment =>
              if negb (cflag c CFGF_COMMENTS) then continue w c p
              else continue w c (st_comment p (Some (sval yylval)))
          | TStr =>
              let name := sval yylval in
              let '(ro, ds) := cfg_getopt c name in
              let w := add_diags w ds in
              match ro with
              | None =>
                  if cflag c CFGF_IGNORE_UNKNOWN then continue w c (st_state (st_opt p None) 10)
                  else if cflag c CFGF_KEYSTRVAL && negb (match name with [] => true | _ => false end) then
                    let '(c1, r) := addopt c name in continue w c1 (st_state (st_opt p (Some r)) 1)
                  else match name with
                       | [] => errd w c "no such option '%s'"
                       | _ => error w c
                       end
              | Some r =>
                  match get_opt c r with
                  | None => error w c
                  | Some o =>
                      let st := match o_kind o with
                                | KSec => if oflag o CFGF_TITLE then 6%nat else 5%nat
                                | KFunc => 7%nat
                                | _ => 1%nat end in
                      continue w c (st_state (st_opt p (Some r)) st)
                  end
              end
          | _ => errd w c "unexpected token '%s'"
          end
      | 1%nat =>
          match s_opt p, curopt with
          | Some r, Some o =>
              let after (o : opt) :=
                let o := o_setf o CFGF_MODIFIED in
                let c := put_opt c r o in
                if oflag o CFGF_LIST then continue w c (st_num (st_state p 3) 0) else continue w c (st_state p 2) in
              if tok_is t 43 then
                if negb (oflag o CFGF_LIST) then errd w c "attempt to append to non-list option '%s'"
                else after (o_clrf o CFGF_RESET)
              else if tok_is t 61 then after (o_setf o CFGF_RESET)
              else errd w c "missing equal sign after option '%s'"
          | _, _ => error w c
          end
      | 2%nat =>
          match s_opt p, curopt with
          | Some r, Some o =>
              if tok_is t 125 && oflag o CFGF_LIST then
                if Nat.eqb (s_num p) 0 && oflag o CFGF_RESET then
                  let '(o1, fr) := free_value o in continue (log_frees w fr) (put_opt c r o1) (st_state p 0)
                else continue w c (st_state p 0)
              else if negb (tok_is_str t) then errd w c "unexpected token '%s'"
              else
                let '(w1, o1, res) := so w c o yylval in
                let c1 := put_opt c r o1 in
                match res with
                | None => error w1 c1
                | Some _ =>
                    let '(w2, f) := run_validcb w1 o1 in
                    if f then error w2 c1
                    else
                      let o2 := match s_comment p with Some cm => opt_setcomment o1 cm | None => o1 end in
                      let c2 := put_opt c1 r o2 in
                      let p1 := st_comment p None in
                      if oflag o2 CFGF_LIST then continue w2 c2 (st_state (st_num p1 (S (s_num p1))) 4)
                      else continue w2 c2 (st_state p1 0)
                end
          | _, _ => (set_crash w "null-deref:state2", c, PERR)
          end
      | 3%nat =>
          match s_opt p, curopt with
          | Some r, Some o =>
              if tok_is t 123 then continue w c (st_state p 2)
              else if negb (tok_is_str t) then errd w c "unexpected token '%s'"
              else
                let '(w1, o1, res) := so w c o yylval in
                let c1 := put_opt c r o1 in
                match res with
                | None => error w1 c1
                | Some _ =>
                    let '(w2, f) := run_validcb w1 o1 in
                    if f then error w2 c1
                    else
                      let o2 := match s_comment p with Some cm => opt_setcomment o1 cm | None => o1 end in
                      let c2 := put_opt c1 r o2 in
                      let p1 := st_comment p None in
                      continue w2 c2 (st_state (st_num p1 (S (s_num p1))) 0)
                end
          | _, _ => (set_crash w "null-deref:state3", c, PERR)
          end
      | 4%nat =>
          if tok_is t 44 then continue w c (st_state p 2)
          else if tok_is t 125 then
            match curopt with
            | Some o => let '(w1, f) := run_validcb w o in if f then error w1 c else continue w1 c (st_state p 0)
            | None => continue w c (st_state p 0)
            end
          else errd w c "unexpected token '%s'"
      | 5%nat =>
          if negb (tok_is t 123) then errd w c "missing opening brace for section '%s'"
          else
          match s_opt p, curopt with
          | Some r, Some o =>
              let '(w1, o1, res) := so w c o (s_title p) in
              let c1 := put_opt c r o1 in
              match res with
              | None => error w1 c1
              | Some idx =>
                  let p1 := st_title p None in
                  match nth_sec o1 idx with
                  | None => (set_crash w1 "null-deref:state5", c1, PERR)
                  | Some sec =>
                      let sec1 := set_err (set_line sec (c_line c1)) (c_err c1) in
                      let sec2 := match c_file c1 with
                                  | Some fn => match c_file sec1 with
                                               | Some sf => if str_eqb sf fn then sec1 else set_file sec1 (Some fn)
                                               | None => set_file sec1 (Some fn) end
                                  | None => sec1 end in
                      let '(w2, sec3, rc) := pi w1 sec2 (S level) (pst0 0 None) in
                      let o2 := set_vals o1 (upd_nth (o_vals o1) idx (fun _ => VSec (Some sec3))) in
                      let c2 := put_opt c1 r o2 in
                      match rc with
                      | PEOF =>
                          let c3 := set_line c2 (c_line sec3) in
                          let '(w3, f) := run_validcb w2 o2 in
                          if f then error w3 c3 else continue w3 c3 (st_state p1 0)
                      | _ => error w2 c2
                      end
                  end
              end
          | _, _ => (set_crash w "null-deref:state5", c, PERR)
          end
      | 6%nat =>
          if negb (tok_is_str t) then errd w c "missing title for section '%s'"
          else continue w c (st_state (st_title p (Some (sval yylval))) 5)
      | 7%nat =>
          if negb (tok_is t 40) then errd w c "missing parenthesis for function '%s'"
          else continue w c (st_state p 8)
      | 8%nat | 9%nat =>
          let call (w : pw) (c : cfg) :=
            match curopt with
            | None => (set_crash w "null-deref:call_function", c, PERR)
            | Some o =>
                let args := s_args p in
                let p1 := st_args p [] in
                match cb_func (o_cbs o) with
                | Some FInclude =>
                    match args with
                    | [a] => let '(w1, c1, failed) := lexer_include w c a in
                             if failed then error w1 c1 else continue w1 c1 (st_state p1 0)
                    | _ => errd w c "wrong number of arguments to cfg_include()"
                    end
                | Some (FUser k) =>
                    let '(w1, f) := tick w in
                    let w2 := add_cb w1 (CbFunc k (o_name o) args f) in
                    if f then error w2 c else continue w2 c (st_state p1 0)
                | None => (set_crash w "null-call:call_function", c, PERR)
                end
            end in
          if Nat.eqb (s_state p) 8 then
            if tok_is t 41 then call w c
            else if tok_is_str t then continue w c (st_state (st_args p (s_args p ++ [sval yylval])) 9)
            else errd w c "syntax error in call of function '%s'"
          else
            if tok_is t 41 then call w c
            else if tok_is t 44 then continue w c (st_state p 8)
            else errd w c "syntax error in call of function '%s'"
      | 10%nat =>
          let p := st_comment p None in
          if tok_is t 43 || tok_is t 61 then continue w c (st_state p 14)
          else if tok_is t 40 then continue w c (st_state (st_ignore p 41) 13)
          else if tok_is t 123 then continue w c (st_state (st_skip p 1) 12)
          else if tok_is_str t then continue w c (st_state p 11)
          else errd w c "unexpected token '%s'"
      | 11%nat =>
          if negb (tok_is t 123) then errd w c "unexpected token '%s'"
          else continue w c (st_state (st_skip p 1) 12)
      | 12%nat =>
          if tok_is t 123 then continue w c (st_skip p (S (s_skip p)))
          else if tok_is t 125 then
            (if Nat.eqb (s_skip p) 1 then continue w c (st_state (st_skip p 0) 0) else continue w c (st_skip p (pred (s_skip p))))
          else continue w c p
      | 13%nat =>
          if (tok_code t =? s_ignore p)%N then continue w c (st_state (st_ignore p 0) 0) else continue w c p
      | 14%nat =>
          if tok_is t 123 then continue w c (st_state (st_ignore p 125) 13)
          else if negb (tok_is_str t) then errd w c "unexpected token '%s'"
          else continue w c (st_state p 0)
      | _ => errd w c "Internal error in cfg_parse_internal(), unknown state %d"
      end
    end.
End Bodies.

Lemma init_defaults_S strtod_o fuel w c :
  init_defaults strtod_o (S fuel) w c =
  id_loop (setopt strtod_o fuel) (parse_internal strtod_o fuel) (c_opts c) 0 w c.
Proof. reflexivity. Qed.

Lemma parse_internal_S strtod_o fuel w c level p :
  parse_internal strtod_o (S fuel) w c level p =
  pi_body (setopt strtod_o fuel) (parse_internal strtod_o fuel) fuel w c level p.
Proof. reflexivity. Qed.

(* ---------- the header of a context ---------- *)
Definition hdr (c : cfg) : str * option str * N := (c_name c, c_title c, c_flags c).

Lemma hdr_set_opts c o : hdr (set_opts c o) = hdr c. Proof. destruct c; reflexivity. Qed.
Lemma hdr_set_file c o : hdr (set_file c o) = hdr c. Proof. destruct c; reflexivity. Qed.
Lemma hdr_set_line c o : hdr (set_line c o) = hdr c. Proof. destruct c; reflexivity. Qed.
Lemma hdr_set_err c o : hdr (set_err c o) = hdr c. Proof. destruct c; reflexivity. Qed.
Lemma hdr_set_pos c o : hdr (set_pos c o) = hdr c. Proof. destruct c; reflexivity. Qed.

Lemma hdr_upd_sec c steps f : (forall s, hdr (f s) = hdr s) -> hdr (upd_sec c steps f) = hdr c.
Proof.
  intro H. destruct steps as [|[i v] r]; cbn [upd_sec]; [apply H|apply hdr_set_opts].
Qed.

Lemma hdr_upd_opt c r f : hdr (upd_opt c r f) = hdr c.
Proof. unfold upd_opt. apply hdr_upd_sec. intro s. apply hdr_set_opts. Qed.

Lemma hdr_put_opt c r o : hdr (put_opt c r o) = hdr c.
Proof. apply hdr_upd_opt. Qed.

Lemma hdr_handle_deprecated w c r : hdr (snd (handle_deprecated w c r)) = hdr c.
Proof.
  unfold handle_deprecated. destruct (get_opt c r) as [o|]; [|reflexivity].
  destruct (oflag o CFGF_DEPRECATED); [|reflexivity].
  destruct (oflag o CFGF_DROP); [|reflexivity].
  destruct (free_value o) as [o1 fr]. unfold snd. apply hdr_put_opt.
Qed.

Lemma hdr_lexer_include w c a : hdr (snd (fst (lexer_include w c a))) = hdr c.
Proof.
  unfold lexer_include. destruct (Nat.leb _ _); [reflexivity|].
  destruct (match w_path w with [] => _ | _ => _ end); [|reflexivity].
  destruct (open_input _ _); [|reflexivity].
  unfold fst, snd. rewrite hdr_set_line, hdr_set_file. reflexivity.
Qed.

Lemma hdr_next_token fl w c : hdr (snd (fst (fst (next_token fl w c)))) = hdr c.
Proof. unfold next_token. cbv zeta. unfold fst, snd. apply hdr_set_pos. Qed.

Lemma hdr_addopt c k : hdr (fst (addopt c k)) = hdr c.
Proof. unfold addopt, fst. apply hdr_set_opts. Qed.

Section Preserve.
Variable so : pw -> cfg -> opt -> option str -> pw * opt * option nat.
Variable pi : pw -> cfg -> nat -> pst -> pw * cfg * prc.
Hypothesis Hpi : forall w c l p, hdr (snd (fst (pi w c l p))) = hdr c.

Lemma id_loop_hdr todo : forall i w c, hdr (snd (id_loop so pi todo i w c)) = hdr c.
Proof.
  induction todo as [|x todo IH]; intros i w c; [reflexivity|].
  cbn [id_loop]. fold (id_loop so pi).
  destruct (nth_error (c_opts c) i) as [o|]; [|reflexivity].
  cbv zeta.
  match goal with |- context [if ?d then add_diags w _ else w] => generalize (if d then add_diags w (cfg_diag c "duplicate option '%s' not allowed") else w) end.
  intro w1.
  destruct (oflag o CFGF_NODEFAULT); [apply IH|].
  destruct (negb (kind_eqb (o_kind o) KSec)).
  - destruct (oflag (o_setf o CFGF_DEFINIT) CFGF_LIST || _).
    + destruct (d_parsed (o_def (o_setf o CFGF_DEFINIT))) as [[|b buf]|].
      * rewrite IH. apply hdr_put_opt.
      * match goal with |- context [pi ?a ?b ?c ?d] => pose proof (Hpi a b c d) as H; destruct (pi a b c d) as [[w2 c2] rc] end.
        unfold fst, snd in H. rewrite hdr_put_opt in H.
        destruct rc; try (rewrite IH, hdr_upd_opt; exact H); exact H.
      * rewrite IH. apply hdr_put_opt.
    + rewrite IH. apply hdr_put_opt.
  - destruct (negb (oflag o CFGF_MULTI)); [|apply IH].
    destruct (so w1 c o None) as [[w2 o1] res]. rewrite IH. apply hdr_put_opt.
Qed.
End Preserve.

Section Preserve2.
Variable so : pw -> cfg -> opt -> option str -> pw * opt * option nat.
Variable pi : pw -> cfg -> nat -> pst -> pw * cfg * prc.
Hypothesis Hpi : forall w c l p, hdr (snd (fst (pi w c l p))) = hdr c.

Ltac hdr_norm :=
  repeat (rewrite ?hdr_put_opt, ?hdr_upd_opt, ?hdr_set_line, ?hdr_set_file, ?hdr_set_err, ?hdr_set_pos, ?hdr_set_opts).

Ltac leaf :=
  lazymatch goal with
  | |- hdr (snd (fst (pi _ _ _ _))) = _ => rewrite Hpi; hdr_norm; congruence
  | |- hdr (snd (fst (_, _, _))) = _ => unfold fst, snd; hdr_norm; congruence
  end.

Ltac step :=
  first
  [ leaf
  | match goal with
    | |- context [handle_deprecated ?w ?c ?r] =>
        let H := fresh "HD" in
        pose proof (hdr_handle_deprecated w c r) as H;
        destruct (handle_deprecated w c r) as [? ?]; unfold snd in H
    | |- context [lexer_include ?w ?c ?a] =>
        let H := fresh "LI" in
        pose proof (hdr_lexer_include w c a) as H;
        destruct (lexer_include w c a) as [[? ?] ?]; unfold fst, snd in H
    | |- context [addopt ?c ?k] =>
        let H := fresh "AO" in
        pose proof (hdr_addopt c k) as H;
        destruct (addopt c k) as [? ?]; unfold fst in H
    end
  | match goal with
    | |- context [match ?x with _ => _ end] => destruct x
    end ].

Lemma pi_body_hdr fl w c level p : hdr (snd (fst (pi_body so pi fl w c level p))) = hdr c.
Proof.
  unfold pi_body.
  pose proof (hdr_next_token fl w c) as NT.
  destruct (next_token fl w c) as [[[w1 c1] t] yylval]. unfold fst, snd in NT.
  cbv zeta.
  generalize dependent (hdr c). intros h NT.
  destruct (s_opt p) as [r0|].
  all: repeat step.
Qed.
End Preserve2.


(* cfg_init_defaults and cfg_parse_internal leave name, title and flags of their context alone *)
Lemma init_parse_hdr strtod_o fuel :
  (forall w c, hdr (snd (init_defaults strtod_o fuel w c)) = hdr c) /\
  (forall w c l p, hdr (snd (fst (parse_internal strtod_o fuel w c l p))) = hdr c).
Proof.
  induction fuel as [|fuel [IHi IHp]].
  - split; intros; reflexivity.
  - split.
    + intros w c. rewrite init_defaults_S. apply id_loop_hdr. exact IHp.
    + intros w c l p. rewrite parse_internal_S. apply pi_body_hdr. exact IHp.
Qed.

Lemma init_defaults_hdr strtod_o fuel w c : hdr (snd (init_defaults strtod_o fuel w c)) = hdr c.
Proof. apply init_parse_hdr. Qed.

Lemma init_defaults_title strtod_o fuel w c : c_title (snd (init_defaults strtod_o fuel w c)) = c_title c.
Proof.
  pose proof (init_defaults_hdr strtod_o fuel w c) as H. unfold hdr in H. congruence.
Qed.

Lemma init_defaults_flags strtod_o fuel w c : c_flags (snd (init_defaults strtod_o fuel w c)) = c_flags c.
Proof.
  pose proof (init_defaults_hdr strtod_o fuel w c) as H. unfold hdr in H. congruence.
Qed.

Lemma init_defaults_name strtod_o fuel w c : c_name (snd (init_defaults strtod_o fuel w c)) = c_name c.
Proof.
  pose proof (init_defaults_hdr strtod_o fuel w c) as H. unfold hdr in H. congruence.
Qed.

Lemma parse_internal_hdr strtod_o fuel w c l p :
  hdr (snd (fst (parse_internal strtod_o fuel w c l p))) = hdr c.
Proof. apply init_parse_hdr. Qed.
