(* Properties_C12.v — C12: with ignore-unknown set, undeclared items are skipped cleanly.
   Stated on the reference meaning (coq/Grammar.v); the parser model is tied to that meaning by the
   C01 refinement (coq/Properties_C01.v) and by the differential run of this property. *)
From Coq Require Import List Arith NArith ZArith Bool.
From Coq.Strings Require Import Byte.
From LC Require Import Bytes Consts Conv Flex LexAct Lexer Files Store Grammar SkipProofs.
Import ListNotations.

(* Every well-formed unknown item — assignment, append, braced list, function call, plain or titled
   section whose body is ANY brace-balanced token list (any nesting, any depth, empty or not) — is
   consumed as a whole, whatever follows it. *)
Theorem C12_unknown_item_is_skipped :
  forall u post, uwf u -> skip_unknown (utoks u ++ post) = Some post.
Proof. exact skip_unknown_item. Qed.
Print Assumptions C12_unknown_item_is_skipped.

(* Inserting such an item (named by an undeclared name) at an item boundary of a context created with
   CFGF_IGNORE_UNKNOWN does not change the meaning of the rest of the text. *)
Theorem C12_insertion_changes_nothing :
  forall strtod_o f c top name u post,
  fst (cfg_getopt c name) = None -> cflag c CFGF_IGNORE_UNKNOWN = true -> uwf u ->
  meaning strtod_o (S f) c top (GS name :: utoks u ++ post) = meaning strtod_o f c top post.
Proof. exact meaning_skips_unknown. Qed.
Print Assumptions C12_insertion_changes_nothing.

(* Without the flag the same text has no meaning (it is rejected). *)
Theorem C12_rejected_without_flag :
  forall strtod_o f c top name rest,
  fst (cfg_getopt c name) = None -> cflag c CFGF_IGNORE_UNKNOWN = false -> cflag c CFGF_KEYSTRVAL = false ->
  meaning strtod_o (S f) c top (GS name :: rest) = None.
Proof. exact meaning_rejects_unknown. Qed.
Print Assumptions C12_rejected_without_flag.

(* arbitrarily deep nesting is covered: u { u { … } } of any depth is a well-formed section body *)
Theorem C12_any_depth : forall n inner, balanced inner -> uwf (USec None (nest n inner)).
Proof. intros n inner H. exact (balanced_nest n inner H). Qed.
Print Assumptions C12_any_depth.

Example C12_example :
  skip_unknown (utoks (USec (Some [x74]) (nest 50 [GS [x61]; GP 61; GS [x31]])) ++ [GS [x69]]) = Some [GS [x69]].
Proof. vm_compute. reflexivity. Qed.
