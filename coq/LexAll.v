(* LexAll.v — facts about cfg_yylex that hold for EVERY input byte string, scanner state and
   environment: total rule coverage (nothing falls to flex's ECHO default rule), no output,
   termination within lex_fuel, the scratch-buffer index invariant. *)
From Coq Require Import List Arith NArith Bool Lia.
From Coq.Strings Require Import Byte.
From LC Require Import Bytes Flex LexAct LexRules Consts Lexer LexLemmas.
Import ListNotations.

Definition all_sc : list sc := [INITIAL; comment; dq_str; sq_str].
Lemma all_sc_complete c : In c all_sc.
Proof. destruct c; cbn; auto. Qed.

(* ---- coverage: in every start condition every byte is matched by some rule ---- *)
Lemma coverage_sweep :
  forallb (fun c0 => forallb (fun c => match first_nullable (map (deriv c) (active_res c0)) 0 with Some _ => true | None => false end)
                             all_bytes) all_sc = true.
Proof. vm_compute. reflexivity. Qed.

Lemma coverage c0 c : exists i, first_nullable (map (deriv c) (active_res c0)) 0 = Some i.
Proof.
  pose proof coverage_sweep as H. rewrite forallb_forall in H.
  specialize (H c0 (all_sc_complete c0)). cbv beta in H.
  pose proof (sweep _ H c) as Hc. cbv beta in Hc.
  destruct (first_nullable (map (deriv c) (active_res c0)) 0) as [i|]; [eauto|discriminate].
Qed.

Lemma munch_best_some rs : forall inp n b, exists b', munch rs inp n (Some b) = Some b'.
Proof.
  intros inp. revert rs. induction inp as [|c inp IH]; intros rs n b; cbn [munch]; [eauto|].
  destruct (forallb is_emp (map (deriv c) rs)); [eauto|].
  destruct (first_nullable (map (deriv c) rs) 0); apply IH.
Qed.

Lemma first_nullable_not_all_emp rs i : first_nullable rs 0 = Some i -> forallb is_emp rs = false.
Proof.
  generalize 0%nat. induction rs as [|r rs IH]; intros k H; cbn in *; [discriminate|].
  destruct (nullable r) eqn:Hn.
  - destruct r; cbn in *; try discriminate; reflexivity.
  - apply IH in H. rewrite H. apply andb_false_r.
Qed.

Lemma munch_cons_alive' V c rest n best :
  forallb is_emp (map (deriv c) V) = false ->
  munch V (c :: rest) n best =
  munch (map (deriv c) V) rest (S n) (match first_nullable (map (deriv c) V) 0 with Some i => Some (i, S n) | None => best end).
Proof. intros H. cbn [munch]. rewrite H. reflexivity. Qed.

Lemma covered_elim V : (match first_nullable V 0 with Some _ => true | None => false end) = true ->
  exists i, first_nullable V 0 = Some i.
Proof. destruct (first_nullable V 0) as [i|]; [eauto|discriminate]. Qed.

Lemma munch_covered c0 c rest : exists b, munch (active_res c0) (c :: rest) 0 None = Some b.
Proof.
  destruct (coverage c0 c) as [i Hf].
  rewrite (munch_cons_alive' _ _ _ _ _ (first_nullable_not_all_emp _ _ Hf)), Hf. apply munch_best_some.
Qed.

(* the length munch reports is between 1 and the input length *)
Lemma munch_len rs : forall inp n best i m,
  munch rs inp n best = Some (i, m) ->
  best = Some (i, m) \/ (n < m <= n + length inp)%nat.
Proof.
  intros inp. revert rs. induction inp as [|c inp IH]; intros rs n best i m H; cbn [munch] in H; [left; exact H|].
  destruct (forallb is_emp (map (deriv c) rs)); [left; exact H|].
  destruct (first_nullable (map (deriv c) rs) 0) as [j|].
  - apply IH in H. destruct H as [H|H]; [inversion H; subst; right; cbn; lia|right; cbn [length]; lia].
  - apply IH in H. destruct H as [H|H]; [left; exact H|right; cbn [length]; lia].
Qed.

(* ---- actions only touch the start condition, the scratch buffer and the position ---- *)
Definition out_state (o : outcome) : lexst := match o with Continue s _ => s | Return _ _ s _ _ => s end.

Definition frame (s s' : lexst) : Prop :=
  l_bufs s' = l_bufs s /\ l_inc s' = l_inc s /\ l_echo s' = l_echo s /\ l_next s' = l_next s.

Lemma frame_refl s : frame s s. Proof. unfold frame; auto. Qed.
Lemma frame_q s q : frame s (set_q s q). Proof. unfold frame, set_q; cbn; auto. Qed.
Lemma frame_sc s c : frame s (set_sc s c). Proof. unfold frame, set_sc; cbn; auto. Qed.
Lemma frame_trans a b c : frame a b -> frame b c -> frame a c.
Proof. unfold frame. intros (A1 & A2 & A3 & A4) (B1 & B2 & B3 & B4). repeat split; congruence. Qed.

Ltac split_action e y :=
  repeat match goal with
  | |- context [match env_lookup e y with _ => _ end] => destruct (env_lookup e y)
  | |- context [if (?a <? ?b)%N then _ else _] => destruct (a <? b)%N
  end;
  unfold qend_trim, qbeg; cbn [set_q set_sc l_q];
  repeat match goal with |- context [if q_null ?q then _ else _] => destruct (q_null q) end;
  cbn [out_state fst snd].

Lemma run_action_frame e a y s p : frame s (out_state (run_action e a y s p)).
Proof. destruct a; cbn [run_action]; split_action e y; unfold frame, set_q, set_sc; cbn; auto. Qed.

(* ---- no byte is ever echoed ---- *)
Definition step_state (r : lstep) : lexst := match r with LCont s _ _ => s | LRet _ _ s _ _ _ => s end.

Lemma lex_step_no_echo e s p : l_echo (step_state (lex_step e s p)) = l_echo s.
Proof.
  unfold lex_step. destruct (l_bufs s) as [|[id inp] others] eqn:Hb; [reflexivity|].
  destruct (munch (active_res (l_sc s)) inp 0 None) as [[i n]|] eqn:Hm.
  - destruct (nth_error (active_rules (l_sc s)) i) as [r|]; [|reflexivity].
    pose proof (run_action_frame e (r_act r) (firstn n inp) (set_bufs s ((id, skipn n inp) :: others)) p) as (_ & _ & H & _).
    destruct (run_action _ _ _ _ _); cbn [step_state out_state] in *; exact H.
  - destruct inp as [|c rest].
    + unfold run_eof. destruct (eof_action_of (l_sc s)) as [[| | |k]|]; cbn [step_state]; try reflexivity.
      destruct (l_rderr s); [reflexivity|]. destruct (l_inc s) as [|f r]; [reflexivity|].
      destruct (match cur_buf_id s with Some id0 => Nat.eqb id0 (i_buf f) | None => false end); reflexivity.
    + exfalso. destruct (munch_covered (l_sc s) c rest) as [b Hb']. congruence.
Qed.

Theorem yylex_no_echo e : forall fuel s p closed, l_echo (r_st (yylex e fuel s p closed)) = l_echo s.
Proof.
  induction fuel as [|fuel IH]; intros s p closed; cbn [yylex]; [reflexivity|].
  pose proof (lex_step_no_echo e s p) as H.
  destruct (lex_step e s p) as [s2 p2 k|t v s2 p2 d k]; cbn [step_state] in H.
  - rewrite IH. exact H.
  - exact H.
Qed.

(* ---- termination: lex_fuel is enough ---- *)
Definition measure (s : lexst) : nat := fold_left (fun acc b => acc + S (length (snd b)))%nat (l_bufs s) 0%nat.

Lemma fold_measure_shift l : forall a, fold_left (fun acc (b : nat * list byte) => acc + S (length (snd b)))%nat l a
                                 = (a + fold_left (fun acc b => acc + S (length (snd b))) l 0)%nat.
Proof. induction l as [|x l IH]; intros a; cbn [fold_left]; [lia|]. rewrite IH, (IH (0 + _)%nat). lia. Qed.

Lemma lex_step_decreases e s p s2 p2 k : lex_step e s p = LCont s2 p2 k -> (measure s2 < measure s)%nat.
Proof.
  unfold lex_step, measure. destruct (l_bufs s) as [|[id inp] others] eqn:Hb; [discriminate|].
  destruct (munch (active_res (l_sc s)) inp 0 None) as [[i n]|] eqn:Hm.
  - destruct (nth_error (active_rules (l_sc s)) i) as [r|]; [|discriminate].
    pose proof (run_action_frame e (r_act r) (firstn n inp) (set_bufs s ((id, skipn n inp) :: others)) p) as (Hf & _).
    destruct (run_action _ _ _ _ _) as [s3 p3|]; [|discriminate]. intros H; inversion H; subst. cbn [out_state] in Hf.
    rewrite Hf. cbn [set_bufs l_bufs fold_left snd].
    apply munch_len in Hm. destruct Hm as [Hm|Hm]; [discriminate|].
    rewrite (fold_measure_shift others (0 + S (length (skipn n inp)))), (fold_measure_shift others (0 + S (length inp))).
    rewrite skipn_length. lia.
  - destruct inp as [|c rest].
    + unfold run_eof. destruct (eof_action_of (l_sc s)) as [[| | |k']|]; try discriminate.
      destruct (l_rderr s); [discriminate|]. destruct (l_inc s) as [|f r]; [discriminate|].
      destruct (match cur_buf_id s with Some id0 => Nat.eqb id0 (i_buf f) | None => false end); [|discriminate].
      intros H; inversion H; subst. cbn. rewrite Hb. cbn [tl fold_left snd length].
      rewrite (fold_measure_shift others 1). lia.
    + intros H; inversion H; subst. cbn [add_echo set_bufs l_bufs fold_left snd length].
      rewrite (fold_measure_shift others (0 + S (length rest))), (fold_measure_shift others (0 + S (S (length rest)))). lia.
Qed.

Theorem yylex_terminates e : forall fuel s p closed, (measure s < fuel)%nat -> r_fuel_out (yylex e fuel s p closed) = false.
Proof.
  induction fuel as [|fuel IH]; intros s p closed H; [lia|]. cbn [yylex].
  destruct (lex_step e s p) as [s2 p2 k|t v s2 p2 d k] eqn:Hs; [|reflexivity].
  apply IH. apply lex_step_decreases in Hs. lia.
Qed.

Lemma lex_fuel_measure s : lex_fuel s = S (measure s). Proof. reflexivity. Qed.

Corollary yylex_lex_fuel_suffices e s p closed : r_fuel_out (yylex e (lex_fuel s) s p closed) = false.
Proof. apply yylex_terminates. rewrite lex_fuel_measure. lia. Qed.

(* ---- the scratch buffer index stays within what is allocated ---- *)
Lemma run_action_qinv e a y s p : q_inv (l_q s) -> q_inv (l_q (out_state (run_action e a y s p))).
Proof.
  intros H. destruct a; cbn [run_action]; split_action e y; cbn [set_q set_sc l_q];
    repeat first [exact H | apply q_inv_qputc | apply q_inv_qputs | apply q_inv_reset].
Qed.

Lemma lex_step_qinv e s p : q_inv (l_q s) -> q_inv (l_q (step_state (lex_step e s p))).
Proof.
  intros H. unfold lex_step. destruct (l_bufs s) as [|[id inp] others]; [exact H|].
  destruct (munch (active_res (l_sc s)) inp 0 None) as [[i n]|].
  - destruct (nth_error (active_rules (l_sc s)) i) as [r|]; [|exact H].
    pose proof (run_action_qinv e (r_act r) (firstn n inp) (set_bufs s ((id, skipn n inp) :: others)) p H) as H'.
    destruct (run_action _ _ _ _ _); exact H'.
  - destruct inp as [|c rest]; [|exact H].
    unfold run_eof. destruct (eof_action_of (l_sc s)) as [[| | |k]|]; cbn [step_state]; try exact H.
    destruct (l_rderr s); [exact H|]. destruct (l_inc s) as [|f r]; [exact H|].
    destruct (match cur_buf_id s with Some id0 => Nat.eqb id0 (i_buf f) | None => false end); cbn [step_state]; [apply q_inv_empty|exact H].
Qed.

Theorem yylex_qinv e : forall fuel s p closed, q_inv (l_q s) -> q_inv (l_q (r_st (yylex e fuel s p closed))).
Proof.
  induction fuel as [|fuel IH]; intros s p closed H; cbn [yylex]; [exact H|].
  pose proof (lex_step_qinv e s p H) as H'.
  destruct (lex_step e s p) as [s2 p2 k|t v s2 p2 d k]; cbn [step_state] in H'; [apply IH, H'|exact H'].
Qed.
