(* PtrProofs.v — C07: every user-defined pointer value is handed to the registered release
   function exactly once.  Conservation of pointer ids through cfg_setopt / cfg_init_defaults /
   cfg_parse_internal, the API calls and cfg_free. *)
From Coq Require String.
Import String.StringSyntax.
From Coq Require Import List Arith NArith ZArith Bool Lia Permutation.
From Coq.Strings Require Import Byte.
From LC Require Import Bytes Consts Conv Flex LexAct Lexer Files Store Parser Api HdrProofs ApiProofs.
Import ListNotations.
Local Open Scope string_scope.
Local Open Scope list_scope.

(* ================================================================== *)
(* 1. the ids cfg_free would release: equations                         *)
(* ================================================================== *)

(* does the option hand its pointer values to a release callback *)
Definition fcb (o : opt) : bool := match o_kind o with KPtr => cb_free (o_cbs o) | _ => false end.

Lemma frees_o_eq o : frees_o o = flat_map (frees_v (fcb o)) (o_vals o).
Proof.
  destruct o as [n k f vals sub d cm cbs]. unfold fcb, o_kind, o_cbs, o_vals.
  induction vals as [|v r IH]; [reflexivity|].
  cbn [flat_map]. rewrite <- IH. reflexivity.
Qed.

Lemma frees_c_eq c : frees_c c = flat_map frees_o (c_opts c).
Proof.
  destruct c as [n t f opts fi l e p]. unfold c_opts.
  induction opts as [|o r IH]; [reflexivity|].
  cbn [flat_map]. rewrite <- IH. reflexivity.
Qed.

Lemma frees_v_sec b c : frees_v b (VSec (Some c)) = frees_c c.
Proof. reflexivity. Qed.

Lemma frees_v_ptr b id : frees_v b (VPtr id) = if b && negb (id =? 0)%N then [id] else [].
Proof. reflexivity. Qed.

Lemma frees_v_false v : (forall c, v <> VSec (Some c)) -> frees_v false v = [].
Proof.
  intro H. destruct v as [| | | |[c|]|]; try reflexivity. exfalso. exact (H c eq_refl).
Qed.

Lemma frees_v_zero b k : frees_v b (zero_value k) = [].
Proof. destruct k, b; reflexivity. Qed.

(* what frees_o / the well-formedness test look at *)
Definition fk (o : opt) : kind * list value * list opt * cbset := (o_kind o, o_vals o, o_sub o, o_cbs o).

Lemma fk_frees o o' : fk o' = fk o -> frees_o o' = frees_o o.
Proof.
  unfold fk. intro H. injection H as Hk Hv Hs Hc.
  rewrite !frees_o_eq. unfold fcb. rewrite Hk, Hv, Hc. reflexivity.
Qed.

Lemma fk_setf o m : fk (o_setf o m) = fk o. Proof. destruct o; reflexivity. Qed.
Lemma fk_clrf o m : fk (o_clrf o m) = fk o. Proof. destruct o; reflexivity. Qed.
Lemma fk_set_flags o m : fk (set_flags o m) = fk o. Proof. destruct o; reflexivity. Qed.
Lemma fk_set_comment o m : fk (set_comment o m) = fk o. Proof. destruct o; reflexivity. Qed.
Lemma fk_opt_setcomment o m : fk (opt_setcomment o m) = fk o. Proof. destruct o; reflexivity. Qed.
Lemma fk_set_vals_same o : fk (set_vals o (o_vals o)) = fk o. Proof. destruct o; reflexivity. Qed.

Lemma fk_set_vals o v : fk (set_vals o v) = (o_kind o, v, o_sub o, o_cbs o).
Proof. destruct o; reflexivity. Qed.

Lemma fcb_fk o o' : fst (fst (fst (fk o'))) = o_kind o -> snd (fk o') = o_cbs o -> fcb o' = fcb o.
Proof. unfold fk, fcb, fst, snd. intros -> ->. reflexivity. Qed.

Lemma fcb_set_vals o v : fcb (set_vals o v) = fcb o. Proof. destruct o; reflexivity. Qed.
Lemma o_vals_set_vals o v : o_vals (set_vals o v) = v. Proof. destruct o; reflexivity. Qed.
Lemma o_kind_set_vals o v : o_kind (set_vals o v) = o_kind o. Proof. destruct o; reflexivity. Qed.
Lemma o_sub_set_vals o v : o_sub (set_vals o v) = o_sub o. Proof. destruct o; reflexivity. Qed.
Lemma o_cbs_set_vals o v : o_cbs (set_vals o v) = o_cbs o. Proof. destruct o; reflexivity. Qed.

Lemma frees_o_set_vals o v : frees_o (set_vals o v) = flat_map (frees_v (fcb o)) v.
Proof. rewrite frees_o_eq, fcb_set_vals, o_vals_set_vals. reflexivity. Qed.

Lemma c_opts_set_opts c o : c_opts (set_opts c o) = o. Proof. destruct c; reflexivity. Qed.
Lemma c_opts_set_file c o : c_opts (set_file c o) = c_opts c. Proof. destruct c; reflexivity. Qed.
Lemma c_opts_set_line c o : c_opts (set_line c o) = c_opts c. Proof. destruct c; reflexivity. Qed.
Lemma c_opts_set_err c o : c_opts (set_err c o) = c_opts c. Proof. destruct c; reflexivity. Qed.
Lemma c_opts_set_pff c o : c_opts (set_pff c o) = c_opts c. Proof. destruct c; reflexivity. Qed.
Lemma c_opts_set_pos c o : c_opts (set_pos c o) = c_opts c. Proof. destruct c; reflexivity. Qed.

Lemma frees_c_opts c c' : c_opts c' = c_opts c -> frees_c c' = frees_c c.
Proof. intro H. rewrite !frees_c_eq, H. reflexivity. Qed.

(* ================================================================== *)
(* 2. well-formed trees                                                 *)
(* ================================================================== *)

(* a pointer option has a release callback *)
Definition kokb (k : kind) (cbs : cbset) : bool := match k with KPtr => cb_free cbs | _ => true end.

(* a template (cfg_opt_t of a section's option array): no values yet, pointer options have a release
   callback, the same for the templates below *)
Fixpoint tmplb (o : opt) : bool :=
  match o with
  | Opt _ k _ vals sub _ _ cbs =>
      match vals with [] => true | _ :: _ => false end && kokb k cbs &&
      (fix go (l : list opt) : bool := match l with [] => true | t :: r => tmplb t && go r end) sub
  end.

(* the live tree: section values only in section options, pointer options have a release callback,
   all templates are templates *)
Fixpoint wfb_v (k : kind) (v : value) : bool :=
  match v with
  | VSec (Some c) => kind_eqb k KSec && wfb_c c
  | _ => true
  end
with wfb_o (o : opt) : bool :=
  match o with
  | Opt _ k _ vals sub _ _ cbs =>
      kokb k cbs &&
      (fix go (l : list value) : bool := match l with [] => true | v :: r => wfb_v k v && go r end) vals &&
      forallb tmplb sub
  end
with wfb_c (c : cfg) : bool :=
  match c with
  | Cfg _ _ _ opts _ _ _ _ =>
      (fix go (l : list opt) : bool := match l with [] => true | o :: r => wfb_o o && go r end) opts
  end.

Definition wf_o (o : opt) : Prop := wfb_o o = true.
Definition wf_c (c : cfg) : Prop := wfb_c c = true.

Lemma tmplb_eq o :
  tmplb o = match o_vals o with [] => true | _ :: _ => false end && kokb (o_kind o) (o_cbs o) && forallb tmplb (o_sub o).
Proof.
  destruct o as [n k f vals sub d cm cbs]. unfold o_kind, o_cbs, o_vals, o_sub.
  reflexivity.
Qed.

Lemma wfb_o_eq o :
  wfb_o o = kokb (o_kind o) (o_cbs o) && forallb (wfb_v (o_kind o)) (o_vals o) && forallb tmplb (o_sub o).
Proof.
  destruct o as [n k f vals sub d cm cbs]. unfold o_kind, o_cbs, o_vals, o_sub.
  reflexivity.
Qed.

Lemma wfb_c_eq c : wfb_c c = forallb wfb_o (c_opts c).
Proof.
  destruct c as [n t f opts fi l e p]. reflexivity.
Qed.

Lemma wfb_v_sec k c : wfb_v k (VSec (Some c)) = kind_eqb k KSec && wfb_c c.
Proof. reflexivity. Qed.

Lemma wfb_v_other k v : (forall c, v <> VSec (Some c)) -> wfb_v k v = true.
Proof. intro H. destruct v as [| | | |[c|]|]; try reflexivity. exfalso. exact (H c eq_refl). Qed.

Lemma wfb_v_zero k k' : wfb_v k (zero_value k') = true.
Proof. destruct k'; reflexivity. Qed.

Lemma fk_wfb o o' : fk o' = fk o -> wfb_o o' = wfb_o o.
Proof.
  unfold fk. intro H. injection H as Hk Hv Hs Hc.
  rewrite !wfb_o_eq. rewrite Hk, Hv, Hc, Hs. reflexivity.
Qed.

Lemma wfb_c_opts c c' : c_opts c' = c_opts c -> wfb_c c' = wfb_c c.
Proof. intro H. rewrite !wfb_c_eq, H. reflexivity. Qed.

(* a template is a well-formed option that holds no pointer *)
Lemma tmpl_wf o : tmplb o = true -> wf_o o /\ frees_o o = [].
Proof.
  rewrite tmplb_eq. intro H.
  apply andb_true_iff in H. destruct H as [H Hs]. apply andb_true_iff in H. destruct H as [Hv Hk].
  destruct (o_vals o) eqn:V; [|discriminate].
  split.
  - unfold wf_o. rewrite wfb_o_eq, V, Hk, Hs. reflexivity.
  - rewrite frees_o_eq, V. reflexivity.
Qed.

Lemma tmpls_wf n t f l fi ln e p :
  forallb tmplb l = true -> wf_c (Cfg n t f l fi ln e p) /\ frees_c (Cfg n t f l fi ln e p) = [].
Proof.
  intro H. unfold wf_c. rewrite wfb_c_eq, frees_c_eq. unfold c_opts.
  induction l as [|o r IH]; [split; reflexivity|].
  cbn [forallb] in H. apply andb_true_iff in H. destruct H as [Ho Hr].
  destruct (tmpl_wf o Ho) as [W F]. destruct (IH Hr) as [W' F'].
  cbn [forallb flat_map]. rewrite W, W', F, F'. split; reflexivity.
Qed.

Lemma wf_o_parts o :
  wf_o o <-> kokb (o_kind o) (o_cbs o) = true /\ forallb (wfb_v (o_kind o)) (o_vals o) = true /\ forallb tmplb (o_sub o) = true.
Proof.
  unfold wf_o. rewrite wfb_o_eq, !andb_true_iff. tauto.
Qed.

(* an option that is neither a section nor a pointer option holds nothing to release *)
Lemma wf_val_nosec o x :
  wf_o o -> In x (o_vals o) -> o_kind o <> KSec -> forall c, x <> VSec (Some c).
Proof.
  intros W I K c ->. apply wf_o_parts in W. destruct W as [_ [W _]].
  rewrite forallb_forall in W. specialize (W _ I). rewrite wfb_v_sec in W.
  apply andb_true_iff in W. destruct W as [W _]. apply kind_eqb_eq in W. contradiction.
Qed.

Lemma fcb_false o : o_kind o <> KPtr -> fcb o = false.
Proof. unfold fcb. destruct (o_kind o); try reflexivity. intro H; contradiction. Qed.

Lemma fcb_true o : wf_o o -> o_kind o = KPtr -> fcb o = true.
Proof.
  intros W K. apply wf_o_parts in W. destruct W as [W _]. unfold fcb. rewrite K in *. exact W.
Qed.

Lemma scalar_val_nil o x :
  wf_o o -> In x (o_vals o) -> o_kind o <> KSec -> o_kind o <> KPtr -> frees_v (fcb o) x = [].
Proof.
  intros W I K1 K2. rewrite (fcb_false o K2). apply frees_v_false. eapply wf_val_nosec; eauto.
Qed.

Lemma scalar_frees_nil o : wf_o o -> o_kind o <> KSec -> o_kind o <> KPtr -> frees_o o = [].
Proof.
  intros W K1 K2. rewrite frees_o_eq.
  assert (H : forall x, In x (o_vals o) -> frees_v (fcb o) x = []) by (intros; eapply scalar_val_nil; eauto).
  induction (o_vals o) as [|v r IH]; [reflexivity|].
  cbn [flat_map]. rewrite (H v (or_introl eq_refl)), IH; [reflexivity|].
  intros x Hx. apply H. right. exact Hx.
Qed.

(* ================================================================== *)
(* 3. intervals of ids                                                  *)
(* ================================================================== *)
Local Open Scope N_scope.

Definition iv (a b : N) : list N := map N.of_nat (seq (N.to_nat a) (N.to_nat b - N.to_nat a)).

Lemma iv_nil a : iv a a = [].
Proof. unfold iv. rewrite Nat.sub_diag. reflexivity. Qed.

Lemma iv_app a b c : a <= b -> b <= c -> iv a c = iv a b ++ iv b c.
Proof.
  intros H1 H2. unfold iv. rewrite <- map_app. f_equal.
  replace (N.to_nat c - N.to_nat a)%nat with ((N.to_nat b - N.to_nat a) + (N.to_nat c - N.to_nat b))%nat by lia.
  rewrite seq_app. f_equal. f_equal. lia.
Qed.

Lemma iv_succ a : iv a (a + 1) = [a].
Proof.
  unfold iv. replace (N.to_nat (a + 1) - N.to_nat a)%nat with 1%nat by lia.
  cbn [seq map]. rewrite N2Nat.id. reflexivity.
Qed.

Lemma iv_In x a b : In x (iv a b) <-> a <= x < b.
Proof.
  unfold iv. rewrite in_map_iff. split.
  - intros [n [<- Hn]]. apply in_seq in Hn. lia.
  - intro H. exists (N.to_nat x). split; [apply N2Nat.id|]. apply in_seq. lia.
Qed.

Lemma iv_NoDup a b : NoDup (iv a b).
Proof.
  unfold iv. apply FinFun.Injective_map_NoDup; [|apply seq_NoDup].
  intros x y. apply Nat2N.inj.
Qed.

(* ================================================================== *)
(* 4. the release log and the id counter of a world                     *)
(* ================================================================== *)

Definition cb_ids (l : list cbent) : list N :=
  flat_map (fun e => match e with CbFree id => [id] | _ => [] end) l.

(* ids handed to the release callback so far, most recent first *)
Definition flog (w : pw) : list N := cb_ids (w_cbs w).

Definition wk (w : pw) : list N * N := (flog w, w_nextptr w).

Lemma wk_upd_lex w l : wk (upd_lex w l) = wk w. Proof. reflexivity. Qed.
Lemma wk_add_diags w l : wk (add_diags w l) = wk w. Proof. reflexivity. Qed.
Lemma wk_set_cnt w l : wk (set_cnt w l) = wk w. Proof. reflexivity. Qed.
Lemma wk_set_open w l : wk (set_open w l) = wk w. Proof. reflexivity. Qed.
Lemma wk_set_crash w l : wk (set_crash w l) = wk w. Proof. reflexivity. Qed.
Lemma wk_set_oof w : wk (set_oof w) = wk w. Proof. reflexivity. Qed.
Lemma wk_set_path w l : wk (set_path w l) = wk w. Proof. reflexivity. Qed.
Lemma wk_add_parse w a b c d : wk (add_cb w (CbParse a b c d)) = wk w. Proof. reflexivity. Qed.
Lemma wk_add_valid w a b c d : wk (add_cb w (CbValid a b c d)) = wk w. Proof. reflexivity. Qed.
Lemma wk_add_valid2 w a b c d : wk (add_cb w (CbValid2 a b c d)) = wk w. Proof. reflexivity. Qed.
Lemma wk_add_func w a b c d : wk (add_cb w (CbFunc a b c d)) = wk w. Proof. reflexivity. Qed.
Lemma wk_add_free w id : wk (add_cb w (CbFree id)) = (id :: flog w, w_nextptr w). Proof. reflexivity. Qed.
Lemma wk_set_nextptr w n : wk (set_nextptr w n) = (flog w, n). Proof. reflexivity. Qed.

Lemma wk_tick w : wk (fst (tick w)) = wk w. Proof. reflexivity. Qed.

Lemma wk_log_frees ids : forall w, wk (log_frees w ids) = (rev ids ++ flog w, w_nextptr w).
Proof.
  induction ids as [|a r IH]; intro w; [reflexivity|].
  change (log_frees w (a :: r)) with (log_frees (add_cb w (CbFree a)) r).
  rewrite IH. unfold flog at 1. cbn [add_cb w_cbs w_nextptr cb_ids flat_map rev].
  rewrite <- app_assoc. reflexivity.
Qed.

Lemma wk_run_validcb w o : wk (fst (run_validcb w o)) = wk w.
Proof. unfold run_validcb. destruct (cb_valid (o_cbs o)); reflexivity. Qed.

Lemma wk_run_parsecb w k o v : wk (fst (run_parsecb w k o v)) = wk w.
Proof. reflexivity. Qed.

Lemma wk_run_validcb2 w o a : wk (fst (fst (run_validcb2 w o a))) = wk w.
Proof. unfold run_validcb2. destruct (cb_valid2 (o_cbs o)); reflexivity. Qed.

(* ================================================================== *)
(* 5. conservation steps                                                *)
(* ================================================================== *)

(* between two worlds k and k': the counter did not go back, the release log grew by `new`, and
   the ids held before plus the ids created are the ids held after plus the ids released *)
Definition step (k : list N * N) (A : list N) (k' : list N * N) (A' : list N) : Prop :=
  snd k <= snd k' /\
  exists new, fst k' = new ++ fst k /\ Permutation (A ++ iv (snd k) (snd k')) (A' ++ new).

Lemma step_refl k A : step k A k A.
Proof.
  split; [lia|]. exists []. split; [reflexivity|]. rewrite iv_nil. reflexivity.
Qed.

Lemma step_trans k A k1 A1 k2 A2 : step k A k1 A1 -> step k1 A1 k2 A2 -> step k A k2 A2.
Proof.
  intros [L1 [n1 [E1 P1]]] [L2 [n2 [E2 P2]]].
  split; [lia|]. exists (n2 ++ n1). split.
  - rewrite E2, E1. apply app_assoc.
  - rewrite (iv_app _ _ _ L1 L2).
    rewrite app_assoc. rewrite P1.
    rewrite <- app_assoc. rewrite (Permutation_app_comm n1). rewrite app_assoc. rewrite P2.
    rewrite <- !app_assoc. apply Permutation_app_head. apply Permutation_app_head. reflexivity.
Qed.

Lemma step_frame k A k' A' P Q : step k A k' A' -> step k (P ++ A ++ Q) k' (P ++ A' ++ Q).
Proof.
  intros [L [n [E Pm]]]. split; [exact L|]. exists n. split; [exact E|].
  rewrite <- !app_assoc. apply Permutation_app_head.
  rewrite (Permutation_app_comm Q). rewrite app_assoc. rewrite Pm.
  rewrite <- !app_assoc. apply Permutation_app_head. apply Permutation_app_comm.
Qed.

Lemma step_perm k A k' A' B B' : Permutation A B -> Permutation A' B' -> step k A k' A' -> step k B k' B'.
Proof.
  intros PA PB [L [n [E Pm]]]. split; [exact L|]. exists n. split; [exact E|].
  rewrite <- PA, <- PB. exact Pm.
Qed.

Lemma step_eq k A k' : k' = k -> step k A k' A.
Proof. intros ->. apply step_refl. Qed.

(* cfg_free_value + the release callbacks *)
Lemma step_log_frees w ids : step (wk w) ids (wk (log_frees w ids)) [].
Proof.
  rewrite wk_log_frees. unfold wk, step. cbn [fst snd]. split; [lia|]. exists (rev ids). split; [reflexivity|].
  rewrite iv_nil, app_nil_r. cbn [app]. apply Permutation_rev.
Qed.

Lemma step_pos k A k' A' : step k A k' A' -> 0 < snd k -> 0 < snd k'.
Proof. intros [L _] H. lia. Qed.

(* ================================================================== *)
(* 6. reading and writing options inside the tree                       *)
(* ================================================================== *)
Local Close Scope N_scope.

Lemma upd_nth_split {A} (l : list A) i x :
  nth_error l i = Some x ->
  exists pre post, l = pre ++ x :: post /\ forall f, upd_nth l i f = pre ++ f x :: post.
Proof.
  revert i. induction l as [|a l IH]; intros i H.
  - destruct i; discriminate.
  - destruct i as [|i]; cbn [nth_error] in H.
    + injection H as ->. exists [], l. split; [reflexivity|]. intro f. reflexivity.
    + destruct (IH i H) as [pre [post [E1 E2]]]. exists (a :: pre), post.
      split; [cbn [app]; f_equal; exact E1|]. intro f. cbn [upd_nth app]. f_equal. apply E2.
Qed.

Lemma upd_nth_none {A} (l : list A) i f : nth_error l i = None -> upd_nth l i f = l.
Proof. intro H. apply upd_nth_id. intros x Hx. congruence. Qed.

Lemma nth_error_upd_nth {A} (l : list A) i f : nth_error (upd_nth l i f) i = option_map f (nth_error l i).
Proof.
  revert i. induction l as [|a l IH]; intros i.
  - destruct i; reflexivity.
  - destruct i as [|i]; cbn [upd_nth nth_error]; [reflexivity|apply IH].
Qed.

Lemma forallb_nth_error {A} (P : A -> bool) l i x : forallb P l = true -> nth_error l i = Some x -> P x = true.
Proof. intros H N. rewrite forallb_forall in H. apply H. eapply nth_error_In; eauto. Qed.

Lemma forallb_upd_nth {A} (P : A -> bool) l i g :
  forallb P l = true -> (forall x, nth_error l i = Some x -> P x = true -> P (g x) = true) ->
  forallb P (upd_nth l i g) = true.
Proof.
  revert i. induction l as [|a l IH]; intros i H Hg.
  - destruct i; reflexivity.
  - cbn [forallb] in H. apply andb_true_iff in H. destruct H as [Ha Hl].
    destruct i as [|i]; cbn [upd_nth forallb].
    + rewrite (Hg a eq_refl Ha), Hl. reflexivity.
    + rewrite Ha. cbn [andb]. apply IH; [exact Hl|]. intros x Hx. apply Hg. exact Hx.
Qed.

Lemma frees_o_upd o v x :
  nth_error (o_vals o) v = Some x ->
  exists pre post, frees_o o = pre ++ frees_v (fcb o) x ++ post /\
    forall g, frees_o (set_vals o (upd_nth (o_vals o) v g)) = pre ++ frees_v (fcb o) (g x) ++ post.
Proof.
  intro H. destruct (upd_nth_split _ _ _ H) as [pre [post [E U]]].
  exists (flat_map (frees_v (fcb o)) pre), (flat_map (frees_v (fcb o)) post). split.
  - rewrite frees_o_eq, E, flat_map_app. reflexivity.
  - intro g. rewrite frees_o_set_vals, U, flat_map_app. reflexivity.
Qed.

Lemma frees_c_upd c i o :
  nth_error (c_opts c) i = Some o ->
  exists pre post, frees_c c = pre ++ frees_o o ++ post /\
    forall f, frees_c (set_opts c (upd_nth (c_opts c) i f)) = pre ++ frees_o (f o) ++ post.
Proof.
  intro H. destruct (upd_nth_split _ _ _ H) as [pre [post [E U]]].
  exists (flat_map frees_o pre), (flat_map frees_o post). split.
  - rewrite frees_c_eq, E, flat_map_app. reflexivity.
  - intro f. rewrite frees_c_eq, c_opts_set_opts, U, flat_map_app. reflexivity.
Qed.

Lemma frees_upd_sec steps : forall c s, get_sec c steps = Some s ->
  exists pre post, frees_c c = pre ++ frees_c s ++ post /\
    forall f, frees_c (upd_sec c steps f) = pre ++ frees_c (f s) ++ post.
Proof.
  induction steps as [|[i v] r IH]; intros c s G.
  - cbn [get_sec] in G. injection G as <-. exists [], []. split.
    + rewrite app_nil_r. reflexivity.
    + intro f. cbn [upd_sec]. rewrite app_nil_r. reflexivity.
  - cbn [get_sec] in G. destruct (nth_error (c_opts c) i) as [o|] eqn:No; [|discriminate].
    unfold nth_sec in G. destruct (nth_error (o_vals o) v) as [x|] eqn:Nv; [|discriminate].
    destruct x as [| | | |[s0|]|]; try discriminate.
    destruct (IH s0 s G) as [p1 [q1 [E1 U1]]].
    destruct (frees_o_upd o v _ Nv) as [p2 [q2 [E2 U2]]].
    destruct (frees_c_upd c i o No) as [p3 [q3 [E3 U3]]].
    exists (p3 ++ p2 ++ p1), (q1 ++ q2 ++ q3). split.
    + rewrite E3, E2, frees_v_sec, E1. rewrite <- !app_assoc. reflexivity.
    + intro f. cbn [upd_sec]. rewrite U3. cbv beta. rewrite U2. cbv beta iota.
      rewrite frees_v_sec, U1. rewrite <- !app_assoc. reflexivity.
Qed.

(* the ids of the tree are those of the option at r, in a fixed context *)
Lemma frees_upd_opt c r o : get_opt c r = Some o ->
  exists pre post, frees_c c = pre ++ frees_o o ++ post /\
    forall f, frees_c (upd_opt c r f) = pre ++ frees_o (f o) ++ post.
Proof.
  unfold get_opt, upd_opt. intro H. destruct (get_sec c (fst r)) as [s|] eqn:G; [|discriminate].
  destruct (frees_upd_sec _ _ _ G) as [p1 [q1 [E1 U1]]]. destruct (frees_c_upd s _ _ H) as [p2 [q2 [E2 U2]]].
  exists (p1 ++ p2), (q2 ++ q1). split.
  - rewrite E1, E2, <- !app_assoc. reflexivity.
  - intro f. rewrite U1. cbv beta. rewrite U2. rewrite <- !app_assoc. reflexivity.
Qed.

Lemma upd_sec_none steps : forall c f, get_sec c steps = None -> upd_sec c steps f = c.
Proof.
  induction steps as [|[i v] r IH]; intros c f G.
  - discriminate.
  - cbn [get_sec] in G. cbn [upd_sec].
    rewrite upd_nth_id; [apply set_opts_same|].
    intros o No. rewrite No in G.
    rewrite upd_nth_id; [apply set_vals_same|].
    intros x Nx. unfold nth_sec in G. rewrite Nx in G.
    destruct x as [| | | |[s0|]|]; try reflexivity.
    rewrite (IH s0 f G). reflexivity.
Qed.

Lemma upd_opt_none c r f : get_opt c r = None -> upd_opt c r f = c.
Proof.
  unfold get_opt, upd_opt. destruct (get_sec c (fst r)) as [s|] eqn:G.
  - intro H. eapply upd_sec_id; [exact G|]. rewrite upd_nth_none by exact H. apply set_opts_same.
  - intros _. apply upd_sec_none. exact G.
Qed.

Lemma wf_upd_sec steps : forall c f, (forall s, wf_c s -> wf_c (f s)) -> wf_c c -> wf_c (upd_sec c steps f).
Proof.
  induction steps as [|[i v] r IH]; intros c f Hf W.
  - apply Hf. exact W.
  - cbn [upd_sec]. unfold wf_c in *. rewrite wfb_c_eq, c_opts_set_opts. rewrite wfb_c_eq in W.
    apply forallb_upd_nth; [exact W|]. intros o No Wo.
    rewrite wfb_o_eq in Wo. rewrite wfb_o_eq, o_kind_set_vals, o_cbs_set_vals, o_vals_set_vals, o_sub_set_vals.
    apply andb_true_iff in Wo. destruct Wo as [Wo Ws]. apply andb_true_iff in Wo. destruct Wo as [Wk Wv].
    rewrite Wk, Ws, andb_true_r. cbn [andb].
    apply forallb_upd_nth; [exact Wv|]. intros x Nx Wx.
    destruct x as [| | | |[s0|]|]; try exact Wx.
    rewrite wfb_v_sec in *. apply andb_true_iff in Wx. destruct Wx as [Wa Wb].
    rewrite Wa. cbn [andb]. apply IH; assumption.
Qed.

Lemma wf_upd_opt c r f : (forall o, wf_o o -> wf_o (f o)) -> wf_c c -> wf_c (upd_opt c r f).
Proof.
  intros Hf W. unfold upd_opt. apply wf_upd_sec; [|exact W].
  intros s Ws. unfold wf_c in *. rewrite wfb_c_eq, c_opts_set_opts. rewrite wfb_c_eq in Ws.
  apply forallb_upd_nth; [exact Ws|]. intros o _ Wo. apply Hf. exact Wo.
Qed.

Lemma wf_put_opt c r o : wf_o o -> wf_c c -> wf_c (put_opt c r o).
Proof. intros Wo W. apply wf_upd_opt; [|exact W]. intros _ _. exact Wo. Qed.

Lemma get_sec_wf steps : forall c s, wf_c c -> get_sec c steps = Some s -> wf_c s.
Proof.
  induction steps as [|[i v] r IH]; intros c s W G.
  - cbn [get_sec] in G. injection G as <-. exact W.
  - cbn [get_sec] in G. destruct (nth_error (c_opts c) i) as [o|] eqn:No; [|discriminate].
    unfold nth_sec in G. destruct (nth_error (o_vals o) v) as [x|] eqn:Nv; [|discriminate].
    destruct x as [| | | |[s0|]|]; try discriminate.
    apply (IH s0 s); [|exact G].
    unfold wf_c in W. rewrite wfb_c_eq in W. pose proof (forallb_nth_error _ _ _ _ W No) as Wo.
    rewrite wfb_o_eq in Wo. apply andb_true_iff in Wo. destruct Wo as [Wo _]. apply andb_true_iff in Wo. destruct Wo as [_ Wv].
    pose proof (forallb_nth_error _ _ _ _ Wv Nv) as Wx. rewrite wfb_v_sec in Wx.
    apply andb_true_iff in Wx. destruct Wx as [_ Wx]. exact Wx.
Qed.

Lemma get_opt_wf c r o : wf_c c -> get_opt c r = Some o -> wf_o o.
Proof.
  unfold get_opt. intros W H. destruct (get_sec c (fst r)) as [s|] eqn:G; [|discriminate].
  pose proof (get_sec_wf _ _ _ W G) as Ws. unfold wf_c in Ws. rewrite wfb_c_eq in Ws.
  exact (forallb_nth_error _ _ _ _ Ws H).
Qed.

Lemma get_upd_sec steps : forall c s f, get_sec c steps = Some s -> get_sec (upd_sec c steps f) steps = Some (f s).
Proof.
  induction steps as [|[i v] r IH]; intros c s f G.
  - cbn [get_sec] in G. injection G as <-. reflexivity.
  - cbn [get_sec] in G. destruct (nth_error (c_opts c) i) as [o|] eqn:No; [|discriminate].
    unfold nth_sec in G. destruct (nth_error (o_vals o) v) as [x|] eqn:Nv; [|discriminate].
    destruct x as [| | | |[s0|]|]; try discriminate.
    cbn [upd_sec get_sec]. rewrite c_opts_set_opts, nth_error_upd_nth, No. cbn [option_map].
    unfold nth_sec. rewrite o_vals_set_vals, nth_error_upd_nth, Nv. cbn [option_map].
    apply IH. exact G.
Qed.

Lemma get_upd_opt c r f o : get_opt c r = Some o -> get_opt (upd_opt c r f) r = Some (f o).
Proof.
  unfold get_opt, upd_opt. intro H. destruct (get_sec c (fst r)) as [s|] eqn:G; [|discriminate].
  rewrite (get_upd_sec _ _ _ _ G). rewrite c_opts_set_opts, nth_error_upd_nth, H. reflexivity.
Qed.

Lemma get_put_opt c r o o' : get_opt c r = Some o -> get_opt (put_opt c r o') r = Some o'.
Proof. intro H. unfold put_opt. rewrite (get_upd_opt _ _ _ _ H). reflexivity. Qed.

Lemma get_opt_root c i : get_opt c ([], i) = nth_error (c_opts c) i.
Proof. reflexivity. Qed.

(* an update that leaves kind, values, templates and callbacks of the option alone *)
Lemma upd_opt_fk c r f : (forall o, fk (f o) = fk o) ->
  frees_c (upd_opt c r f) = frees_c c /\ (wf_c c -> wf_c (upd_opt c r f)).
Proof.
  intro Hf. split.
  - destruct (get_opt c r) as [o|] eqn:G.
    + destruct (frees_upd_opt _ _ _ G) as [p [q [E U]]]. rewrite U, E, (fk_frees _ _ (Hf o)). reflexivity.
    + rewrite upd_opt_none by exact G. reflexivity.
  - apply wf_upd_opt. intros o Wo. unfold wf_o in *. rewrite (fk_wfb _ _ (Hf o)). exact Wo.
Qed.

(* ================================================================== *)
(* 7. transitions                                                       *)
(* ================================================================== *)
Local Open Scope N_scope.

(* from world w holding the ids A to world w' holding A' *)
Definition Tr (w : pw) (A : list N) (w' : pw) (A' : list N) : Prop :=
  0 < w_nextptr w' /\ step (wk w) A (wk w') A'.

Definition Inv (w : pw) (c : cfg) (w' : pw) (c' : cfg) : Prop :=
  wf_c c' /\ Tr w (frees_c c) w' (frees_c c').

Definition InvO (w : pw) (o : opt) (w' : pw) (o' : opt) : Prop :=
  wf_o o' /\ Tr w (frees_o o) w' (frees_o o').

Lemma Tr_refl w A : 0 < w_nextptr w -> Tr w A w A.
Proof. intro H. split; [exact H|apply step_refl]. Qed.

Lemma Tr_trans w A w1 A1 w2 A2 : Tr w A w1 A1 -> Tr w1 A1 w2 A2 -> Tr w A w2 A2.
Proof. intros [_ S1] [P2 S2]. split; [exact P2|]. eapply step_trans; eauto. Qed.

Lemma Tr_wk w A w1 A1 w2 : Tr w A w1 A1 -> wk w2 = wk w1 -> Tr w A w2 A1.
Proof.
  intros [P S] E. split.
  - change (0 < snd (wk w2)). rewrite E. exact P.
  - rewrite E. exact S.
Qed.

Lemma Tr_wk0 w A w2 : 0 < w_nextptr w -> wk w2 = wk w -> Tr w A w2 A.
Proof. intros P E. eapply Tr_wk; [apply Tr_refl; exact P|exact E]. Qed.

Lemma Tr_frame w A w' A' P Q : Tr w A w' A' -> Tr w (P ++ A ++ Q) w' (P ++ A' ++ Q).
Proof. intros [H S]. split; [exact H|]. apply step_frame. exact S. Qed.

Lemma Tr_log_frees w ids : 0 < w_nextptr w -> Tr w ids (log_frees w ids) [].
Proof.
  intro H. split; [|apply step_log_frees].
  change (0 < snd (wk (log_frees w ids))). rewrite wk_log_frees. exact H.
Qed.

Lemma Tr_pos w A w' A' : Tr w A w' A' -> 0 < w_nextptr w'.
Proof. intros [H _]. exact H. Qed.

(* a new id is handed out; the one it replaces (if any) goes to the release callback *)
Lemma step_create l n : step (l, n) [] (l, n + 1) [n].
Proof.
  split; [cbn [snd]; lia|]. exists []. split; [reflexivity|]. cbn [snd app]. rewrite iv_succ. reflexivity.
Qed.

Lemma step_replace l n old : step (l, n) [old] (old :: l, n + 1) [n].
Proof.
  split; [cbn [snd]; lia|]. exists [old]. split; [reflexivity|]. cbn [snd app]. rewrite iv_succ.
  apply perm_swap.
Qed.

(* ---------- the option record ---------- *)

Lemma fk_vals o o' v : fk o' = (o_kind o, v, o_sub o, o_cbs o) ->
  frees_o o' = flat_map (frees_v (fcb o)) v /\
  wfb_o o' = kokb (o_kind o) (o_cbs o) && forallb (wfb_v (o_kind o)) v && forallb tmplb (o_sub o).
Proof.
  unfold fk. intro H. injection H as Hk Hv Hs Hc. split.
  - rewrite frees_o_eq. unfold fcb. rewrite Hk, Hv, Hc. reflexivity.
  - rewrite wfb_o_eq, Hk, Hv, Hs, Hc. reflexivity.
Qed.

Lemma free_value_snd o : snd (free_value o) = frees_o o.
Proof. reflexivity. Qed.

Lemma free_value_fk o : fk (fst (free_value o)) = (o_kind o, [], o_sub o, o_cbs o).
Proof.
  unfold free_value. cbv zeta. unfold fst.
  destruct (match o_comment o with Some _ => negb (oflag o CFGF_RESET) | None => false end);
    destruct o; reflexivity.
Qed.

Lemma free_value_inv o : wf_o o -> wf_o (fst (free_value o)) /\ frees_o (fst (free_value o)) = [].
Proof.
  intro W. destruct (fk_vals o _ _ (free_value_fk o)) as [F Wb]. split; [|exact F].
  apply wf_o_parts in W. destruct W as [Wk [_ Ws]].
  unfold wf_o. rewrite Wb, Wk, Ws. reflexivity.
Qed.

Lemma addval_fk o : fk (addval o) = (o_kind o, o_vals o ++ [zero_value (o_kind o)], o_sub o, o_cbs o).
Proof. destruct o; reflexivity. Qed.

Lemma addval_inv o : wf_o o -> wf_o (addval o) /\ frees_o (addval o) = frees_o o.
Proof.
  intro W. destruct (fk_vals o _ _ (addval_fk o)) as [F Wb]. split.
  - apply wf_o_parts in W. destruct W as [Wk [Wv Ws]].
    unfold wf_o. rewrite Wb, Wk, Ws, forallb_app, Wv. cbn [forallb]. rewrite wfb_v_zero. reflexivity.
  - rewrite F, flat_map_app. cbn [flat_map]. rewrite frees_v_zero, !app_nil_r. symmetry. apply frees_o_eq.
Qed.

Lemma addval_length o : length (o_vals (addval o)) = S (length (o_vals o)).
Proof. destruct o. cbn. rewrite app_length. cbn. lia. Qed.

(* free_value + the callbacks, at option level *)
Lemma free_value_InvO w o :
  wf_o o -> 0 < w_nextptr w -> InvO w o (log_frees w (snd (free_value o))) (fst (free_value o)).
Proof.
  intros W P. destruct (free_value_inv o W) as [W1 F1]. split; [exact W1|].
  rewrite F1, free_value_snd. apply Tr_log_frees. exact P.
Qed.

Lemma InvO_fk w o w' o' o2 : InvO w o w' o' -> fk o2 = fk o' -> InvO w o w' o2.
Proof.
  intros [W T] E. split.
  - unfold wf_o in *. rewrite (fk_wfb _ _ E). exact W.
  - rewrite (fk_frees _ _ E). exact T.
Qed.

Lemma InvO_wk w o w' o' w2 : InvO w o w' o' -> wk w2 = wk w' -> InvO w o w2 o'.
Proof. intros [W T] E. split; [exact W|]. eapply Tr_wk; eauto. Qed.

Lemma InvO_refl w o : wf_o o -> 0 < w_nextptr w -> InvO w o w o.
Proof. intros W P. split; [exact W|apply Tr_refl; exact P]. Qed.

Lemma InvO_trans w o w1 o1 w2 o2 : InvO w o w1 o1 -> InvO w1 o1 w2 o2 -> InvO w o w2 o2.
Proof. intros [_ T1] [W2 T2]. split; [exact W2|]. eapply Tr_trans; eauto. Qed.

(* storing one value into slot idx *)
Lemma store_inv o1 idx x v w w' :
  wf_o o1 -> nth_error (o_vals o1) idx = Some x -> wfb_v (o_kind o1) v = true ->
  Tr w (frees_v (fcb o1) x) w' (frees_v (fcb o1) v) ->
  InvO w o1 w' (o_setf (set_vals o1 (upd_nth (o_vals o1) idx (fun _ => v))) CFGF_MODIFIED).
Proof.
  intros W Nx Wv T.
  eapply InvO_fk; [|apply fk_setf].
  destruct (frees_o_upd o1 idx x Nx) as [pre [post [E U]]].
  split.
  - apply wf_o_parts in W. destruct W as [Wk [Wvs Ws]].
    apply wf_o_parts. rewrite o_kind_set_vals, o_cbs_set_vals, o_vals_set_vals, o_sub_set_vals.
    split; [exact Wk|]. split; [|exact Ws].
    apply forallb_upd_nth; [exact Wvs|]. intros; exact Wv.
  - rewrite E, U. apply Tr_frame. exact T.
Qed.

(* ================================================================== *)
(* 8. cfg_setopt, one level                                             *)
(* ================================================================== *)

Lemma so_reset_inv w o :
  wf_o o -> 0 < w_nextptr w -> InvO w o (fst (so_reset w o)) (snd (so_reset w o)).
Proof.
  intros W P. unfold so_reset. destruct (oflag o CFGF_RESET).
  - pose proof (free_value_InvO w o W P) as H.
    destruct (free_value o) as [x fr]. unfold fst, snd in *.
    eapply InvO_fk; [exact H|apply fk_clrf].
  - apply InvO_refl; assumption.
Qed.

Lemma so_slot_inv c w0 o0 txt w1 o1 idx :
  so_slot c w0 o0 txt = Some (w1, o1, idx) ->
  wk w1 = wk w0 /\ (idx < length (o_vals o1))%nat /\ (o1 = o0 \/ o1 = addval o0).
Proof.
  unfold so_slot. cbv zeta.
  destruct (Nat.eqb (length (o_vals o0)) 0 || oflag o0 CFGF_MULTI || oflag o0 CFGF_LIST) eqn:E1.
  - destruct (kind_eqb (o_kind o0) KSec && oflag o0 CFGF_TITLE).
    + destruct (negb (Nat.eqb (length (o_vals o0)) 0) && match txt with None => true | Some _ => false end); [discriminate|].
      destruct (so_look c txt (o_vals o0) 0) as [[j|]|] eqn:L.
      * destruct (oflag o0 CFGF_NO_TITLE_DUPES); [discriminate|].
        intro H; injection H as <- <- <-. split; [reflexivity|]. split; [|left; reflexivity].
        apply so_look_bound in L. lia.
      * intro H; injection H as <- <- <-. split; [reflexivity|]. split; [|right; reflexivity].
        rewrite addval_length. lia.
      * intro H; injection H as <- <- <-. split; [reflexivity|]. split; [|right; reflexivity].
        rewrite addval_length. lia.
    + intro H; injection H as <- <- <-. split; [reflexivity|]. split; [|right; reflexivity].
      rewrite addval_length. lia.
  - intro H; injection H as <- <- <-. split; [reflexivity|]. split; [|left; reflexivity].
    apply orb_false_iff in E1. destruct E1 as [E1 _]. apply orb_false_iff in E1. destruct E1 as [E1 _].
    apply Nat.eqb_neq in E1. lia.
Qed.

Section SetoptLevel.
Variable strtod_o : str -> strtod_res.
Variable initd : pw -> cfg -> pw * cfg.
Hypothesis Hid : forall w c, wf_c c -> 0 < w_nextptr w -> Inv w c (fst (initd w c)) (snd (initd w c)).

(* a scalar is stored: nothing to release, nothing created *)
Lemma scalar_store o1 idx x v w1 w' :
  wf_o o1 -> o_kind o1 <> KSec -> o_kind o1 <> KPtr ->
  nth_error (o_vals o1) idx = Some x -> (forall c, v <> VSec (Some c)) ->
  0 < w_nextptr w1 -> wk w' = wk w1 ->
  InvO w1 o1 w' (o_setf (set_vals o1 (upd_nth (o_vals o1) idx (fun _ => v))) CFGF_MODIFIED).
Proof.
  intros W K1 K2 Nx Hv P E.
  apply (store_inv o1 idx x v); [exact W|exact Nx|apply wfb_v_other; exact Hv|].
  rewrite (scalar_val_nil o1 x W (nth_error_In _ _ Nx) K1 K2).
  rewrite (fcb_false o1 K2), (frees_v_false v Hv).
  apply Tr_wk0; assumption.
Qed.

Ltac refuse W P := eapply InvO_wk; [apply InvO_refl; [exact W|exact P]|]; rewrite ?wk_add_diags; try reflexivity; try assumption.

Ltac scalar_case W P K Nx :=
  match goal with
  | |- context [cb_parse ?cbs] => destruct (cb_parse cbs) as [kk|]
  end;
  [ match goal with
    | |- context [run_parsecb ?w ?k ?o ?t] =>
        let E := fresh "E" in
        pose proof (wk_run_parsecb w k o t) as E;
        destruct (run_parsecb w k o t) as [w2 f]; unfold fst in E;
        destruct f; unfold so_store, fst, snd;
        [ refuse W P
        | eapply scalar_store; [exact W|rewrite K; discriminate|rewrite K; discriminate|exact Nx|discriminate|exact P|exact E] ]
    end
  | ].

Lemma so_conv_inv c w1 o1 idx txt :
  wf_o o1 -> 0 < w_nextptr w1 -> (idx < length (o_vals o1))%nat ->
  InvO w1 o1 (fst (fst (so_conv strtod_o initd c w1 o1 idx txt))) (snd (fst (so_conv strtod_o initd c w1 o1 idx txt))).
Proof.
  intros W P Hi.
  destruct (nth_error (o_vals o1) idx) as [x|] eqn:Nx; [|apply nth_error_None in Nx; lia].
  unfold so_conv. cbv zeta.
  destruct (o_kind o1) eqn:K.
  - (* KNone *) unfold fst, snd. refuse W P.
  - (* KInt *) scalar_case W P K Nx.
    destruct txt as [v|]; [|unfold fst, snd; refuse W P].
    destruct (conv_int v); unfold so_store, fst, snd; [|refuse W P|refuse W P].
    eapply scalar_store; [exact W|rewrite K; discriminate|rewrite K; discriminate|exact Nx|discriminate|exact P|reflexivity].
  - (* KFloat *) scalar_case W P K Nx.
    destruct txt as [v|]; [|unfold fst, snd; refuse W P].
    destruct (conv_float strtod_o v); unfold so_store, fst, snd; [|refuse W P|refuse W P].
    eapply scalar_store; [exact W|rewrite K; discriminate|rewrite K; discriminate|exact Nx|discriminate|exact P|reflexivity].
  - (* KStr *) scalar_case W P K Nx.
    destruct txt as [v|]; [|unfold fst, snd; refuse W P].
    unfold so_store, fst, snd.
    eapply scalar_store; [exact W|rewrite K; discriminate|rewrite K; discriminate|exact Nx|discriminate|exact P|reflexivity].
  - (* KBool *) scalar_case W P K Nx.
    destruct txt as [v|]; [|unfold fst, snd; refuse W P].
    destruct (conv_bool v); unfold so_store, fst, snd; [|refuse W P].
    eapply scalar_store; [exact W|rewrite K; discriminate|rewrite K; discriminate|exact Nx|discriminate|exact P|reflexivity].
  - (* KSec *)
    assert (Fc : fcb o1 = false) by (apply fcb_false; rewrite K; discriminate).
    pose proof W as W0. apply wf_o_parts in W0. destruct W0 as [_ [Wvs Wsub]].
    match goal with |- context [initd _ ?nc] => set (newc := nc) end.
    destruct (tmpls_wf (o_name o1) txt (if oflag o1 CFGF_KEYSTRVAL then setf (c_flags c) CFGF_KEYSTRVAL else c_flags c)
                (o_sub o1) (c_file c) (c_line c) (c_err c) None Wsub) as [Wn Fn]. fold newc in Wn, Fn.
    assert (Hnew : forall w, 0 < w_nextptr w ->
              wf_c (snd (initd w newc)) /\ Tr w [] (fst (initd w newc)) (frees_c (snd (initd w newc)))).
    { intros w Pw. destruct (Hid w newc Wn Pw) as [Wi Ti]. rewrite Fn in Ti. split; assumption. }
    rewrite Nx.
    assert (Kk : kind_eqb (o_kind o1) KSec = true) by (rewrite K; reflexivity).
    destruct x as [z|b|b|s0|[s|]|id].
    5: { (* an existing section *)
      cbv beta match.
      pose proof (forallb_nth_error _ _ _ _ Wvs Nx) as Ws. rewrite wfb_v_sec in Ws.
      apply andb_true_iff in Ws. destruct Ws as [_ Ws].
      destruct (oflag o1 CFGF_MULTI); cbv beta match delta [orb].
      - assert (P' : 0 < w_nextptr (log_frees w1 (frees_c s))).
        { change (0 < snd (wk (log_frees w1 (frees_c s)))). rewrite wk_log_frees. exact P. }
        destruct (Hnew _ P') as [Wi Ti].
        destruct (initd (log_frees w1 (frees_c s)) newc) as [w3 sec']. unfold fst, snd in Wi, Ti |- *.
        unfold so_store.
        apply (store_inv o1 idx (VSec (Some s)) (VSec (Some sec'))); [exact W|exact Nx| |].
        + rewrite wfb_v_sec, Kk. exact Wi.
        + rewrite !frees_v_sec. eapply Tr_trans; [apply Tr_log_frees; exact P|exact Ti].
      - unfold so_store, fst, snd.
        apply (store_inv o1 idx (VSec (Some s)) (VSec (Some s))); [exact W|exact Nx| |].
        + rewrite wfb_v_sec, Kk. exact Ws.
        + apply Tr_refl. exact P. }
    all: cbv beta match; rewrite orb_true_r;
      destruct (Hnew _ P) as [Wi Ti];
      destruct (initd w1 newc) as [w3 sec']; unfold fst, snd in Wi, Ti |- *; unfold so_store;
      match goal with |- InvO _ _ _ (o_setf (set_vals _ (upd_nth _ _ (fun _ => ?v))) _) =>
        eapply (store_inv o1 idx _ v); [exact W|exact Nx|rewrite wfb_v_sec, Kk; exact Wi|] end;
      rewrite Fc, frees_v_sec; rewrite frees_v_false by discriminate; exact Ti.
  - (* KFunc *) unfold fst, snd. refuse W P.
  - (* KPtr *)
    assert (Fc : fcb o1 = true) by (apply fcb_true; assumption).
    assert (Cf : cb_free (o_cbs o1) = true) by (unfold fcb in Fc; rewrite K in Fc; exact Fc).
    destruct (cb_parse (o_cbs o1)) as [kk|]; [|unfold fst, snd; refuse W P].
    pose proof (wk_run_parsecb w1 kk o1 txt) as E.
    destruct (run_parsecb w1 kk o1 txt) as [w2 f]. unfold fst in E.
    destruct f; [unfold fst, snd; refuse W P|].
    unfold so_store, fst, snd.
    assert (P2 : 0 < w_nextptr w2) by (change (0 < snd (wk w2)); rewrite E; exact P).
    apply (store_inv o1 idx x (VPtr (w_nextptr w2))); [exact W|exact Nx|reflexivity|].
    rewrite Nx, Cf, Fc. rewrite (frees_v_ptr true (w_nextptr w2)).
    destruct (N.eqb_spec (w_nextptr w2) 0) as [Z|_]; [lia|]. cbn [andb negb].
    assert (Hx : forall c0, x <> VSec (Some c0)).
    { eapply wf_val_nosec; [exact W|eapply nth_error_In; exact Nx|rewrite K; discriminate]. }
    assert (Ek : wk w2 = (fst (wk w1), snd (wk w1))) by (rewrite E; destruct (wk w1); reflexivity).
    destruct x as [z|b|b|s0|[s|]|old]; try (exfalso; exact (Hx s eq_refl)).
    6: { rewrite frees_v_ptr. cbv beta match. cbn [andb].
         destruct (N.eqb old 0); cbn [negb]; cbv beta match.
         - split; [cbn; lia|]. rewrite wk_set_nextptr.
           replace (flog w2) with (fst (wk w1)) by (rewrite <- E; reflexivity).
           replace (w_nextptr w2) with (snd (wk w1)) by (rewrite <- E; reflexivity).
           destruct (wk w1) as [l n]. apply step_create.
         - split; [cbn; lia|]. rewrite wk_add_free.
           change (flog (set_nextptr w2 (w_nextptr w2 + 1))) with (flog w2).
           change (w_nextptr (set_nextptr w2 (w_nextptr w2 + 1))) with (w_nextptr w2 + 1).
           replace (flog w2) with (fst (wk w1)) by (rewrite <- E; reflexivity).
           replace (w_nextptr w2) with (snd (wk w1)) by (rewrite <- E; reflexivity).
           destruct (wk w1) as [l n]. apply step_replace. }
    all: cbv beta match; (split; [cbn; lia|]); rewrite wk_set_nextptr;
         replace (flog w2) with (fst (wk w1)) by (rewrite <- E; reflexivity);
         replace (w_nextptr w2) with (snd (wk w1)) by (rewrite <- E; reflexivity);
         destruct (wk w1) as [l n]; apply step_create.
Qed.

Lemma so_body_inv w c o txt :
  wf_o o -> 0 < w_nextptr w ->
  InvO w o (fst (fst (so_body strtod_o initd w c o txt))) (snd (fst (so_body strtod_o initd w c o txt))).
Proof.
  intros W P. unfold so_body.
  pose proof (so_reset_inv w o W P) as H0. destruct (so_reset w o) as [w0 o0]. unfold fst, snd in H0.
  destruct (so_slot c w0 o0 txt) as [[[w1 o1] idx]|] eqn:S.
  - destruct (so_slot_inv _ _ _ _ _ _ _ S) as [E [Hi Ho]].
    assert (H1 : InvO w o w1 o1).
    { destruct Ho as [->| ->].
      - eapply InvO_wk; [exact H0|exact E].
      - destruct H0 as [W0 T0]. destruct (addval_inv o0 W0) as [Wa Fa]. split; [exact Wa|].
        rewrite Fa. eapply Tr_wk; eauto. }
    eapply InvO_trans; [exact H1|]. destruct H1 as [W1 T1].
    apply so_conv_inv; [exact W1|exact (Tr_pos _ _ _ _ T1)|exact Hi].
  - unfold fst, snd. eapply InvO_wk; [exact H0|].
    match goal with |- context [if ?b then _ else _] => destruct b end; [apply wk_add_diags|reflexivity].
Qed.

End SetoptLevel.

(* ================================================================== *)
(* 9. lifting to contexts                                               *)
(* ================================================================== *)

Lemma Inv_refl w c : wf_c c -> 0 < w_nextptr w -> Inv w c w c.
Proof. intros W P. split; [exact W|apply Tr_refl; exact P]. Qed.

Lemma Inv_trans w c w1 c1 w2 c2 : Inv w c w1 c1 -> Inv w1 c1 w2 c2 -> Inv w c w2 c2.
Proof. intros [_ T1] [W2 T2]. split; [exact W2|]. eapply Tr_trans; eauto. Qed.

Lemma Inv_cur w c w1 c1 : Inv w c w1 c1 -> wf_c c1 /\ 0 < w_nextptr w1.
Proof. intros [W [P _]]. split; assumption. Qed.

Lemma Inv_same w c w1 c1 w2 c2 : Inv w c w1 c1 -> wk w2 = wk w1 -> c_opts c2 = c_opts c1 -> Inv w c w2 c2.
Proof.
  intros [W T] E Ec. split.
  - unfold wf_c in *. rewrite (wfb_c_opts _ _ Ec). exact W.
  - rewrite (frees_c_opts _ _ Ec). eapply Tr_wk; eauto.
Qed.

Lemma Inv_opt w c w1 c1 r o w2 o2 :
  Inv w c w1 c1 -> get_opt c1 r = Some o -> InvO w1 o w2 o2 -> Inv w c w2 (put_opt c1 r o2).
Proof.
  intros [W T] G [Wo To]. split.
  - apply wf_put_opt; assumption.
  - destruct (frees_upd_opt _ _ _ G) as [p [q [E U]]]. unfold put_opt. rewrite U.
    eapply Tr_trans; [exact T|]. rewrite E. apply Tr_frame. exact To.
Qed.

Lemma Inv_optf w c w1 c1 r o w2 o2 c2 :
  Inv w c w1 c1 -> get_opt c1 r = Some o -> wk w2 = wk w1 -> fk o2 = fk o ->
  c_opts c2 = c_opts (put_opt c1 r o2) -> Inv w c w2 c2.
Proof.
  intros H G E Ef Ec. destruct (Inv_cur _ _ _ _ H) as [W1 P1].
  eapply Inv_same; [|reflexivity|exact Ec].
  eapply Inv_opt; [exact H|exact G|].
  eapply InvO_wk; [|exact E]. eapply InvO_fk; [|exact Ef].
  apply InvO_refl; [|exact P1]. eapply get_opt_wf; eauto.
Qed.

Lemma Inv_updfk w c w1 c1 r f w2 :
  Inv w c w1 c1 -> (forall o, fk (f o) = fk o) -> wk w2 = wk w1 -> Inv w c w2 (upd_opt c1 r f).
Proof.
  intros [W T] Hf E. destruct (upd_opt_fk c1 r f Hf) as [Fe We]. split; [apply We; exact W|].
  rewrite Fe. eapply Tr_wk; eauto.
Qed.

Lemma InvO_frees w o w' o' o2 : InvO w o w' o' -> wf_o o2 -> frees_o o2 = frees_o o' -> InvO w o w' o2.
Proof. intros [_ T] W2 E. split; [exact W2|]. rewrite E. exact T. Qed.

(* ---------- cfg_opt_getval ---------- *)

Lemma o_kind_addval o : o_kind (addval o) = o_kind o. Proof. destruct o; reflexivity. Qed.

Lemma opt_getval_wf o index o2 idx fr :
  opt_getval o index = Some (o2, idx, fr) -> wf_o o ->
  wf_o o2 /\ o_kind o2 = o_kind o /\
  ((fr = frees_o o /\ frees_o o2 = []) \/ (fr = [] /\ frees_o o2 = frees_o o)).
Proof.
  unfold opt_getval. intros H W.
  destruct (negb (index =? 0)%N && negb (oflag o CFGF_LIST) && negb (oflag o CFGF_MULTI)); [discriminate|].
  destruct (oflag o CFGF_RESET).
  - destruct (free_value_inv o W) as [W1 F1]. pose proof (free_value_fk o) as K1. pose proof (free_value_snd o) as S1.
    destruct (free_value o) as [x f]. unfold fst, snd in *.
    assert (Kx : o_kind x = o_kind o) by (unfold fk in K1; congruence).
    cbv beta match zeta in H.
    assert (W2 : wf_o (o_clrf x CFGF_RESET)) by (unfold wf_o in *; rewrite (fk_wfb _ _ (fk_clrf x _)); exact W1).
    assert (F2 : frees_o (o_clrf x CFGF_RESET) = []) by (rewrite (fk_frees _ _ (fk_clrf x _)); exact F1).
    destruct (N.of_nat (length (o_vals (o_clrf x CFGF_RESET))) <=? index)%N; injection H as <- <- <-.
    + destruct (addval_inv _ W2) as [Wa Fa]. split; [exact Wa|].
      split; [rewrite o_kind_addval, o_kind_clrf; exact Kx|]. left. split; [exact S1|]. rewrite Fa. exact F2.
    + split; [exact W2|]. split; [rewrite o_kind_clrf; exact Kx|]. left. split; [exact S1|exact F2].
  - cbv beta match zeta in H.
    destruct (N.of_nat (length (o_vals o)) <=? index)%N; injection H as <- <- <-.
    + destruct (addval_inv _ W) as [Wa Fa]. split; [exact Wa|]. split; [apply o_kind_addval|]. right. split; [reflexivity|exact Fa].
    + split; [exact W|]. split; [reflexivity|]. right. split; reflexivity.
Qed.

Lemma opt_getval_InvO o index o2 idx fr w :
  opt_getval o index = Some (o2, idx, fr) -> wf_o o -> 0 < w_nextptr w -> InvO w o (log_frees w fr) o2.
Proof.
  intros H W P. destruct (opt_getval_wf _ _ _ _ _ H W) as [W2 [_ [[-> F]|[-> F]]]].
  - split; [exact W2|]. rewrite F. apply Tr_log_frees. exact P.
  - split; [exact W2|]. rewrite F. apply Tr_refl. exact P.
Qed.

Lemma setn_wf o idx v :
  wf_o o -> (forall c, v <> VSec (Some c)) ->
  wf_o (o_setf (set_vals o (upd_nth (o_vals o) idx (fun _ => v))) CFGF_MODIFIED).
Proof.
  intros W Hv. unfold wf_o. rewrite (fk_wfb _ _ (fk_setf _ _)).
  apply wf_o_parts in W. destruct W as [Wk [Wvs Ws]].
  apply wf_o_parts. rewrite o_kind_set_vals, o_cbs_set_vals, o_vals_set_vals, o_sub_set_vals.
  split; [exact Wk|]. split; [|exact Ws].
  apply forallb_upd_nth; [exact Wvs|]. intros. apply wfb_v_other. exact Hv.
Qed.

Lemma o_kind_setn o idx v :
  o_kind (o_setf (set_vals o (upd_nth (o_vals o) idx (fun _ : value => v))) CFGF_MODIFIED) = o_kind o.
Proof. destruct o; reflexivity. Qed.

(* the default of a scalar option *)
Lemma id_default o v :
  wf_o o -> (forall c, v <> VSec (Some c)) ->
  let o2 := match opt_getval o 0 with
            | Some (o2, idx, _) => o_setf (set_vals o2 (upd_nth (o_vals o2) idx (fun _ => v))) CFGF_MODIFIED
            | None => o end in
  wf_o o2 /\ o_kind o2 = o_kind o.
Proof.
  intros W Hv. cbv zeta. destruct (opt_getval o 0) as [[[oo idx] fr]|] eqn:G.
  - destruct (opt_getval_wf _ _ _ _ _ G W) as [W2 [K2 _]]. split; [apply setn_wf; assumption|].
    rewrite o_kind_setn. exact K2.
  - split; [exact W|reflexivity].
Qed.

(* ================================================================== *)
(* 10. cfg_init_defaults, one level                                     *)
(* ================================================================== *)

Section InitLevel.
Variable so : pw -> cfg -> opt -> option str -> pw * opt * option nat.
Variable pi : pw -> cfg -> nat -> pst -> pw * cfg * prc.
Hypothesis Hso : forall w c o txt, wf_o o -> 0 < w_nextptr w ->
  InvO w o (fst (fst (so w c o txt))) (snd (fst (so w c o txt))).
Hypothesis Hpi : forall w c l p, wf_c c -> 0 < w_nextptr w ->
  Inv w c (fst (fst (pi w c l p))) (snd (fst (pi w c l p))).

Lemma id_loop_inv todo : forall i w0 c0 w c,
  Inv w0 c0 w c -> Inv w0 c0 (fst (id_loop so pi todo i w c)) (snd (id_loop so pi todo i w c)).
Proof.
  induction todo as [|x todo IH]; intros i w0 c0 w c H; [exact H|].
  cbn [id_loop]. fold (id_loop so pi).
  destruct (nth_error (c_opts c) i) as [o|] eqn:No; [|exact H].
  cbv zeta.
  match goal with |- context [if ?d then add_diags w ?m else w] =>
    set (w1 := if d then add_diags w m else w);
    assert (E1 : wk w1 = wk w) by (subst w1; destruct d; reflexivity); clearbody w1 end.
  assert (H1 : Inv w0 c0 w1 c) by (eapply Inv_same; [exact H|exact E1|reflexivity]).
  assert (G : get_opt c ([], i) = Some o) by exact No.
  destruct (Inv_cur _ _ _ _ H1) as [Wc P1].
  pose proof (get_opt_wf _ _ _ Wc G) as Wo.
  destruct (oflag o CFGF_NODEFAULT); [apply IH; exact H1|].
  destruct (negb (kind_eqb (o_kind o) KSec)) eqn:Kn.
  - assert (H2 : Inv w0 c0 w1 (put_opt c ([], i) (o_setf o CFGF_DEFINIT))).
    { eapply Inv_optf; [exact H1|exact G|reflexivity|apply fk_setf|reflexivity]. }
    destruct (oflag (o_setf o CFGF_DEFINIT) CFGF_LIST || _).
    + destruct (d_parsed (o_def (o_setf o CFGF_DEFINIT))) as [[|b buf]|].
      * apply IH. exact H2.
      * match goal with |- context [pi ?a ?b ?c ?d] =>
          assert (H3 : Inv w0 c0 (fst (fst (pi a b c d))) (snd (fst (pi a b c d))));
          [|destruct (pi a b c d) as [[w2 c2] rc]] end.
        { destruct (Inv_cur _ _ _ _ H2) as [Wc2 _].
          eapply Inv_trans; [eapply Inv_same; [exact H2| |reflexivity]|apply Hpi; [exact Wc2|exact P1]].
          reflexivity. }
        unfold fst, snd in H3.
        destruct rc.
        -- apply IH. eapply Inv_updfk; [exact H3| |reflexivity].
           intro o'. rewrite fk_clrf, fk_setf. reflexivity.
        -- apply IH. eapply Inv_updfk; [exact H3| |reflexivity].
           intro o'. rewrite fk_clrf, fk_setf. reflexivity.
        -- unfold fst, snd. eapply Inv_same; [exact H3|reflexivity|reflexivity].
      * apply IH. exact H2.
    + apply IH.
      eapply Inv_opt; [exact H1|exact G|].
      assert (Ks : o_kind o <> KSec).
      { intro K. rewrite K in Kn. discriminate. }
      set (o1 := o_setf o CFGF_DEFINIT).
      assert (W1 : wf_o o1) by (unfold wf_o, o1; rewrite (fk_wfb _ _ (fk_setf _ _)); exact Wo).
      assert (K1 : o_kind o1 = o_kind o) by apply o_kind_setf.
      assert (F1 : frees_o o1 = frees_o o) by (apply fk_frees, fk_setf).
      match goal with |- InvO _ _ _ (o_clrf (o_setf ?o2 _) _) =>
        assert (H4 : wf_o o2 /\ frees_o o2 = frees_o o) end.
      { destruct (o_kind o1) eqn:K; try (split; assumption).
        - destruct (id_default o1 (VInt (d_num (o_def o1))) W1) as [W2 K2]; [discriminate|].
          cbv zeta in W2, K2. split; [exact W2|].
          rewrite !scalar_frees_nil; try assumption; try reflexivity; congruence.
        - destruct (id_default o1 (VFloat (d_fp (o_def o1))) W1) as [W2 K2]; [discriminate|].
          cbv zeta in W2, K2. split; [exact W2|].
          rewrite !scalar_frees_nil; try assumption; try reflexivity; congruence.
        - destruct (id_default o1 (VStr (d_str (o_def o1))) W1) as [W2 K2]; [discriminate|].
          cbv zeta in W2, K2. split; [exact W2|].
          rewrite !scalar_frees_nil; try assumption; try reflexivity; congruence.
        - destruct (id_default o1 (VBool (d_bool (o_def o1))) W1) as [W2 K2]; [discriminate|].
          cbv zeta in W2, K2. split; [exact W2|].
          rewrite !scalar_frees_nil; try assumption; try reflexivity; congruence. }
      destruct H4 as [W2 F2].
      eapply InvO_frees; [apply InvO_refl; [exact Wo|exact P1]| |].
      * unfold wf_o. rewrite (fk_wfb _ _ (fk_clrf _ _)), (fk_wfb _ _ (fk_setf _ _)). exact W2.
      * rewrite (fk_frees _ _ (fk_clrf _ _)), (fk_frees _ _ (fk_setf _ _)). exact F2.
  - destruct (negb (oflag o CFGF_MULTI)); [|apply IH; exact H1].
    pose proof (Hso w1 c o None Wo P1) as Hs.
    destruct (so w1 c o None) as [[w2 o1] res]. unfold fst, snd in Hs.
    apply IH. eapply Inv_opt; [exact H1|exact G|].
    eapply InvO_fk; [exact Hs|apply fk_setf].
Qed.

End InitLevel.

(* ================================================================== *)
(* 11. cfg_parse_internal, one level                                    *)
(* ================================================================== *)

Lemma Inv_wk w c w1 c1 w2 : Inv w c w1 c1 -> wk w2 = wk w1 -> Inv w c w2 c1.
Proof. intros H E. eapply Inv_same; [exact H|exact E|reflexivity]. Qed.

Lemma T_next fl w0 c0 w c :
  Inv w0 c0 w c ->
  Inv w0 c0 (fst (fst (fst (next_token fl w c)))) (snd (fst (fst (next_token fl w c)))).
Proof.
  intro H. unfold next_token. cbv zeta. unfold fst, snd.
  eapply Inv_same; [exact H| |apply c_opts_set_pos].
  destruct (r_fuel_out _); destruct (c_err c); reflexivity.
Qed.

Lemma T_fv w0 c0 w c r o :
  Inv w0 c0 w c -> get_opt c r = Some o ->
  Inv w0 c0 (log_frees w (snd (free_value o))) (put_opt c r (fst (free_value o))).
Proof.
  intros H G. destruct (Inv_cur _ _ _ _ H) as [W P].
  eapply Inv_opt; [exact H|exact G|]. apply free_value_InvO; [|exact P]. eapply get_opt_wf; eauto.
Qed.

Lemma T_hd w0 c0 w c r :
  Inv w0 c0 w c -> Inv w0 c0 (fst (handle_deprecated w c r)) (snd (handle_deprecated w c r)).
Proof.
  intro H. unfold handle_deprecated.
  destruct (get_opt c r) as [o|] eqn:G; [|exact H].
  destruct (oflag o CFGF_DEPRECATED); [|exact H].
  destruct (oflag o CFGF_DROP).
  - pose proof (T_fv w0 c0 (add_diags w (cfg_diag c "dropping deprecated configuration option '%s'")) c r o) as H1.
    destruct (free_value o) as [o1 fr]. unfold fst, snd in *. apply H1; [|exact G].
    eapply Inv_wk; [exact H|reflexivity].
  - unfold fst, snd. eapply Inv_wk; [exact H|reflexivity].
Qed.

Lemma T_addopt w0 c0 w c k : Inv w0 c0 w c -> Inv w0 c0 w (fst (addopt c k)).
Proof.
  intros [W T]. unfold addopt, fst. split.
  - unfold wf_c in *. rewrite wfb_c_eq, c_opts_set_opts, forallb_app. rewrite wfb_c_eq in W. rewrite W. reflexivity.
  - rewrite (frees_c_eq (set_opts _ _)), c_opts_set_opts, flat_map_app. cbn [flat_map].
    change (frees_o (Opt k KStr 0 [] [] defv0 None cbset0)) with (@nil N).
    rewrite !app_nil_r, <- frees_c_eq. exact T.
Qed.

Lemma T_li w0 c0 w c a :
  Inv w0 c0 w c ->
  Inv w0 c0 (fst (fst (lexer_include w c a))) (snd (fst (lexer_include w c a))).
Proof.
  intro H. unfold lexer_include. destruct (Nat.leb _ _).
  - unfold fst, snd. eapply Inv_wk; [exact H|reflexivity].
  - destruct (match w_path w with [] => _ | _ => _ end).
    + destruct (open_input _ _).
      * unfold fst, snd. eapply Inv_same; [exact H|reflexivity|]. rewrite c_opts_set_line, c_opts_set_file. reflexivity.
      * unfold fst, snd. eapply Inv_wk; [exact H|reflexivity].
    + unfold fst, snd. eapply Inv_wk; [exact H|reflexivity].
Qed.

Definition Inv3 (w0 : pw) (c0 : cfg) (res : pw * cfg * prc) : Prop :=
  Inv w0 c0 (fst (fst res)) (snd (fst res)).

Lemma Inv3_ret w0 c0 w c rc : Inv w0 c0 w c -> Inv3 w0 c0 (w, c, rc).
Proof. intro H. exact H. Qed.

Section ParseLevel.
Variable so : pw -> cfg -> opt -> option str -> pw * opt * option nat.
Variable pi : pw -> cfg -> nat -> pst -> pw * cfg * prc.
Hypothesis Hso : forall w c o txt, wf_o o -> 0 < w_nextptr w ->
  InvO w o (fst (fst (so w c o txt))) (snd (fst (so w c o txt))).
Hypothesis Hpi : forall w c l p, wf_c c -> 0 < w_nextptr w ->
  Inv w c (fst (fst (pi w c l p))) (snd (fst (pi w c l p))).

Lemma Inv3_pi w0 c0 w c l p : Inv w0 c0 w c -> Inv3 w0 c0 (pi w c l p).
Proof.
  intro H. destruct (Inv_cur _ _ _ _ H) as [W P]. unfold Inv3.
  eapply Inv_trans; [exact H|apply Hpi; assumption].
Qed.

Lemma T_so w0 c0 w c r o txt :
  Inv w0 c0 w c -> get_opt c r = Some o ->
  Inv w0 c0 (fst (fst (so w c o txt))) (put_opt c r (snd (fst (so w c o txt)))).
Proof.
  intros H G. destruct (Inv_cur _ _ _ _ H) as [W P].
  eapply Inv_opt; [exact H|exact G|]. apply Hso; [|exact P]. eapply get_opt_wf; eauto.
Qed.

Lemma nth_sec_nth o idx sec : nth_sec o idx = Some sec -> nth_error (o_vals o) idx = Some (VSec (Some sec)).
Proof.
  unfold nth_sec. destruct (nth_error (o_vals o) idx) as [x|]; [|discriminate].
  destruct x as [| | | |[s|]|]; try discriminate. intro H; injection H as ->. reflexivity.
Qed.

(* the body of a section is parsed and written back *)
Lemma T_sec w0 c0 w c r o idx sec s2 l p :
  Inv w0 c0 w c -> get_opt c r = Some o -> nth_sec o idx = Some sec -> c_opts s2 = c_opts sec ->
  Inv w0 c0 (fst (fst (pi w s2 l p)))
      (put_opt c r (set_vals o (upd_nth (o_vals o) idx (fun _ => VSec (Some (snd (fst (pi w s2 l p)))))))).
Proof.
  intros H G Ns Es. destruct (Inv_cur _ _ _ _ H) as [W P].
  pose proof (get_opt_wf _ _ _ W G) as Wo.
  apply nth_sec_nth in Ns.
  pose proof Wo as Wp. apply wf_o_parts in Wp. destruct Wp as [Wk [Wvs Wsub]].
  pose proof (forallb_nth_error _ _ _ _ Wvs Ns) as Ws. rewrite wfb_v_sec in Ws.
  apply andb_true_iff in Ws. destruct Ws as [Kk Ws].
  assert (W2 : wf_c s2) by (unfold wf_c; rewrite (wfb_c_opts _ _ Es); exact Ws).
  destruct (Hpi w s2 l p W2 P) as [W3 T3].
  eapply Inv_opt; [exact H|exact G|].
  destruct (frees_o_upd o idx _ Ns) as [pre [post [E U]]].
  split.
  - apply wf_o_parts. rewrite o_kind_set_vals, o_cbs_set_vals, o_vals_set_vals, o_sub_set_vals.
    split; [exact Wk|]. split; [|exact Wsub].
    apply forallb_upd_nth; [exact Wvs|]. intros. rewrite wfb_v_sec, Kk. exact W3.
  - rewrite E, U. apply Tr_frame. rewrite !frees_v_sec. rewrite <- (frees_c_opts _ _ Es). exact T3.
Qed.

Ltac wk_norm :=
  rewrite ?wk_add_diags, ?wk_set_crash, ?wk_upd_lex, ?wk_set_open, ?wk_set_oof, ?wk_add_func, ?wk_set_cnt;
  reflexivity.
Ltac copts_norm :=
  rewrite ?c_opts_set_line, ?c_opts_set_file, ?c_opts_set_err, ?c_opts_set_pos; reflexivity.
Ltac fk_norm := rewrite ?fk_setf, ?fk_clrf, ?fk_opt_setcomment; reflexivity.

Ltac close_inv :=
  match goal with
  | H : Inv ?w0 ?c0 ?w1 ?c1 |- Inv ?w0 ?c0 ?w2 ?c2 =>
      first
      [ exact H
      | eapply Inv_same; [exact H | wk_norm | copts_norm]
      | match goal with
        | G : get_opt c1 ?r = Some ?o |- _ =>
            eapply (Inv_optf w0 c0 w1 c1 r o); [exact H | exact G | wk_norm | | copts_norm]; fk_norm
        end ]
  end.

Ltac leaf :=
  lazymatch goal with
  | |- Inv3 _ _ (pi _ _ _ _) => apply Inv3_pi; close_inv
  | |- Inv3 _ _ (_, _, _) => apply Inv3_ret; close_inv
  end.

Ltac sec_side :=
  repeat match goal with |- context [match ?x with _ => _ end] => destruct x end;
  rewrite ?c_opts_set_file, ?c_opts_set_err, ?c_opts_set_line; reflexivity.

Ltac head_on x :=
  lazymatch x with
  | match ?y with _ => _ end => head_on y
  | handle_deprecated ?w ?c ?r =>
      match goal with H : Inv ?w0 ?c0 w c |- _ =>
        apply (T_hd w0 c0 w c r) in H;
        destruct (handle_deprecated w c r) as [? ?]; unfold fst, snd in H end
  | addopt ?c ?k =>
      match goal with H : Inv ?w0 ?c0 ?w c |- _ =>
        apply (T_addopt w0 c0 w c k) in H;
        destruct (addopt c k) as [? ?]; unfold fst in H end
  | lexer_include ?w ?c ?a =>
      match goal with H : Inv ?w0 ?c0 w c |- _ =>
        apply (T_li w0 c0 w c a) in H;
        destruct (lexer_include w c a) as [[? ?] ?]; unfold fst, snd in H end
  | so ?w ?c ?o ?txt =>
      match goal with H : Inv ?w0 ?c0 w c, G : get_opt c ?r = Some o |- _ =>
        let G' := fresh "G" in
        pose proof (get_put_opt c r o (snd (fst (so w c o txt))) G) as G';
        apply (T_so w0 c0 w c r o txt) in H; [|exact G];
        destruct (so w c o txt) as [[? ?] ?]; unfold fst, snd in H, G' end
  | free_value ?o =>
      match goal with H : Inv ?w0 ?c0 ?w ?c, G : get_opt ?c ?r = Some o |- _ =>
        apply (T_fv w0 c0 w c r o) in H; [|exact G];
        destruct (free_value o) as [? ?]; unfold fst, snd in H end
  | pi ?w ?s2 ?l ?pp =>
      match goal with H : Inv ?w0 ?c0 w ?c, G : get_opt ?c ?r = Some ?o, Ns : nth_sec ?o ?idx = Some ?sec |- _ =>
        apply (T_sec w0 c0 w c r o idx sec s2 l pp) in H; [|exact G|exact Ns|sec_side];
        destruct (pi w s2 l pp) as [[? ?] ?]; unfold fst, snd in H end
  | run_validcb ?w ?o =>
      match goal with H : Inv ?w0 ?c0 w ?c |- _ =>
        let E := fresh "E" in
        pose proof (wk_run_validcb w o) as E;
        destruct (run_validcb w o) as [? ?]; unfold fst in E;
        apply (fun h => Inv_wk _ _ _ _ _ h E) in H; clear E end
  | tick ?w =>
      match goal with H : Inv ?w0 ?c0 w ?c |- _ =>
        let E := fresh "E" in
        pose proof (wk_tick w) as E;
        destruct (tick w) as [? ?]; unfold fst in E;
        apply (fun h => Inv_wk _ _ _ _ _ h E) in H; clear E end
  | get_opt _ _ => destruct x eqn:?
  | nth_sec _ _ => destruct x eqn:?
  | _ => destruct x
  end.

Ltac head_step :=
  lazymatch goal with
  | |- Inv3 _ _ (match ?x with _ => _ end) => head_on x; cbv beta match zeta
  end.

(* a leaf whose arguments still contain a case distinction *)
Ltac inner_step :=
  match goal with
  | |- context [match ?x with _ => _ end] => destruct x
  end; cbv beta match zeta.

Ltac step := first [ leaf | head_step | inner_step ].

Lemma pi_body_inv fl w0 c0 w c level p :
  Inv w0 c0 w c -> Inv3 w0 c0 (pi_body so pi fl w c level p).
Proof.
  intro H. unfold pi_body.
  apply (T_next fl) in H.
  destruct (next_token fl w c) as [[[w1 c1] t] yylval]. unfold fst, snd in H.
  cbv zeta.
  destruct (s_opt p) as [r0|]; cbv beta match.
  all: repeat step.
Qed.

End ParseLevel.

(* ================================================================== *)
(* 12. the three mutually recursive functions                           *)
(* ================================================================== *)

Lemma init_defaults_O strtod_o w c : init_defaults strtod_o 0 w c = (set_oof w, c).
Proof. reflexivity. Qed.

Lemma parse_internal_O strtod_o w c l p : parse_internal strtod_o 0 w c l p = (set_oof w, c, PERR).
Proof. reflexivity. Qed.

Lemma mutual_inv strtod_o fuel :
  (forall w c o txt, wf_o o -> 0 < w_nextptr w ->
     InvO w o (fst (fst (setopt strtod_o fuel w c o txt))) (snd (fst (setopt strtod_o fuel w c o txt)))) /\
  (forall w c, wf_c c -> 0 < w_nextptr w ->
     Inv w c (fst (init_defaults strtod_o fuel w c)) (snd (init_defaults strtod_o fuel w c))) /\
  (forall w c l p, wf_c c -> 0 < w_nextptr w ->
     Inv w c (fst (fst (parse_internal strtod_o fuel w c l p))) (snd (fst (parse_internal strtod_o fuel w c l p)))).
Proof.
  induction fuel as [|fuel [IHs [IHi IHp]]].
  - split; [|split].
    + intros w c o txt W P. rewrite setopt_O. unfold fst, snd.
      eapply InvO_wk; [apply InvO_refl; assumption|reflexivity].
    + intros w c W P. rewrite init_defaults_O. unfold fst, snd.
      eapply Inv_wk; [apply Inv_refl; assumption|reflexivity].
    + intros w c l p W P. rewrite parse_internal_O. unfold fst, snd.
      eapply Inv_wk; [apply Inv_refl; assumption|reflexivity].
  - split; [|split].
    + intros w c o txt W P. rewrite setopt_S.
      apply (so_body_inv strtod_o (init_defaults strtod_o fuel) IHi); assumption.
    + intros w c W P. rewrite init_defaults_S.
      apply (id_loop_inv (setopt strtod_o fuel) (parse_internal strtod_o fuel) IHs IHp).
      apply Inv_refl; assumption.
    + intros w c l p W P. rewrite parse_internal_S.
      change (Inv3 w c (pi_body (setopt strtod_o fuel) (parse_internal strtod_o fuel) fuel w c l p)).
      apply (pi_body_inv (setopt strtod_o fuel) (parse_internal strtod_o fuel) IHs IHp).
      apply Inv_refl; assumption.
Qed.

Lemma setopt_InvO strtod_o fuel w c o txt :
  wf_o o -> 0 < w_nextptr w ->
  InvO w o (fst (fst (setopt strtod_o fuel w c o txt))) (snd (fst (setopt strtod_o fuel w c o txt))).
Proof. apply mutual_inv. Qed.

Lemma init_defaults_Inv strtod_o fuel w c :
  wf_c c -> 0 < w_nextptr w ->
  Inv w c (fst (init_defaults strtod_o fuel w c)) (snd (init_defaults strtod_o fuel w c)).
Proof. apply mutual_inv. Qed.

Lemma parse_internal_Inv strtod_o fuel w c l p :
  wf_c c -> 0 < w_nextptr w ->
  Inv w c (fst (fst (parse_internal strtod_o fuel w c l p))) (snd (fst (parse_internal strtod_o fuel w c l p))).
Proof. apply mutual_inv. Qed.

(* ================================================================== *)
(* 13. the vocabulary of C07                                            *)
(* ================================================================== *)

Definition ptrs_o (o : opt) : list N := frees_o o.
Definition ptrs_c (c : cfg) : list N := frees_c c.

(* the ids handed out between w and w' *)
Definition created (w w' : pw) : list N := iv (w_nextptr w) (w_nextptr w').

(* the ids the release callback received between w and w', in the order of the calls *)
Definition freed (w w' : pw) : list N :=
  rev (firstn (length (flog w') - length (flog w)) (flog w')).

(* the release log only grows *)
Definition grows (w w' : pw) : Prop := flog w' = rev (freed w w') ++ flog w.

Lemma firstn_app_len {A} (n l : list A) : firstn (length (n ++ l) - length l) (n ++ l) = n.
Proof.
  rewrite app_length, Nat.add_sub. rewrite <- (Nat.add_0_r (length n)), firstn_app_2.
  cbn [firstn]. apply app_nil_r.
Qed.

Lemma freed_new w w' new : flog w' = new ++ flog w -> freed w w' = rev new.
Proof. intro E. unfold freed. rewrite E, firstn_app_len. reflexivity. Qed.

(* what a transition says in that vocabulary *)
Lemma Tr_spec w A w' A' :
  Tr w A w' A' ->
  w_nextptr w <= w_nextptr w' /\ grows w w' /\ Permutation (A ++ created w w') (A' ++ freed w w').
Proof.
  intros [_ [L [new [E Pm]]]]. unfold wk in *. cbn [fst snd] in *.
  pose proof (freed_new _ _ _ E) as F.
  split; [exact L|]. split.
  - unfold grows. rewrite F, rev_involutive. exact E.
  - unfold created. rewrite F. rewrite Pm. apply Permutation_app_head. apply Permutation_rev.
Qed.

Lemma NoDup_app_intro {A} (l1 l2 : list A) :
  NoDup l1 -> NoDup l2 -> (forall x, In x l1 -> ~ In x l2) -> NoDup (l1 ++ l2).
Proof.
  induction l1 as [|a l1 IH]; intros N1 N2 D; [exact N2|].
  inversion N1 as [|? ? Na N1']; subst. cbn [app]. constructor.
  - rewrite in_app_iff. intros [I|I]; [contradiction|]. apply (D a); [left; reflexivity|exact I].
  - apply IH; [exact N1'|exact N2|]. intros x Hx. apply D. right. exact Hx.
Qed.

Lemma NoDup_app_elim {A} (l1 l2 : list A) :
  NoDup (l1 ++ l2) -> NoDup l1 /\ NoDup l2 /\ (forall x, In x l1 -> ~ In x l2).
Proof.
  induction l1 as [|a l1 IH]; intro N.
  - split; [constructor|]. split; [exact N|]. intros x [].
  - cbn [app] in N. inversion N as [|? ? Na N']; subst. destruct (IH N') as [N1 [N2 D]].
    split; [|split].
    + constructor; [|exact N1]. intro I. apply Na. apply in_or_app. left. exact I.
    + exact N2.
    + intros x [<-|Hx]; [|apply D; exact Hx]. intro I. apply Na. apply in_or_app. right. exact I.
Qed.

(* the ids held are pairwise distinct and below the counter *)
Definition Fresh (w : pw) (A : list N) : Prop :=
  0 < w_nextptr w /\ NoDup A /\ (forall id, In id A -> id < w_nextptr w).

Lemma Tr_fresh w A w' A' :
  Tr w A w' A' -> Fresh w A ->
  Fresh w' A' /\ NoDup (freed w w') /\
  (forall id, In id (freed w w') -> (In id A \/ In id (created w w')) /\ ~ In id A') /\
  (forall id, In id A \/ In id (created w w') -> In id A' \/ In id (freed w w')).
Proof.
  intros T [P0 [ND Lt]]. pose proof (Tr_pos _ _ _ _ T) as P'.
  destruct (Tr_spec _ _ _ _ T) as [L [_ Pm]].
  assert (NL : NoDup (A ++ created w w')).
  { apply NoDup_app_intro; [exact ND|apply iv_NoDup|].
    intros x Hx I. unfold created in I. apply iv_In in I. specialize (Lt x Hx). lia. }
  pose proof (Permutation_NoDup Pm NL) as NR.
  destruct (NoDup_app_elim _ _ NR) as [N1 [N2 D]].
  split; [|split; [exact N2|split]].
  - split; [exact P'|]. split; [exact N1|].
    intros id Hid. assert (I : In id (A ++ created w w')).
    { eapply Permutation_in; [symmetry; exact Pm|]. apply in_or_app. left. exact Hid. }
    apply in_app_or in I. destruct I as [I|I].
    + specialize (Lt id I). lia.
    + unfold created in I. apply iv_In in I. lia.
  - intros id Hid. split.
    + apply in_app_or. eapply Permutation_in; [symmetry; exact Pm|]. apply in_or_app. right. exact Hid.
    + intro I. exact (D id I Hid).
  - intros id Hid. apply in_app_or. eapply Permutation_in; [exact Pm|]. apply in_or_app. exact Hid.
Qed.

(* ---------- cfg_free ---------- *)

Lemma wk_cfg_free w c : wk (cfg_free w c) = (rev (frees_c c) ++ flog w, w_nextptr w).
Proof.
  unfold cfg_free. cbv zeta. destruct (str_eqb (c_name c) (M "root")).
  - rewrite wk_upd_lex. apply wk_log_frees.
  - apply wk_log_frees.
Qed.

Lemma cfg_free_freed w c : freed w (cfg_free w c) = frees_c c.
Proof.
  pose proof (wk_cfg_free w c) as E. unfold wk in E. injection E as E _.
  rewrite (freed_new _ _ _ E). apply rev_involutive.
Qed.

Lemma cfg_free_Tr w c : 0 < w_nextptr w -> Tr w (frees_c c) (cfg_free w c) [].
Proof.
  intro P. eapply Tr_wk; [apply (Tr_log_frees w (frees_c c)); exact P|].
  rewrite wk_cfg_free, wk_log_frees. reflexivity.
Qed.

(* ================================================================== *)
(* 14. the API calls of Api.v                                           *)
(* ================================================================== *)

Definition InvO3 {R} (w : pw) (o : opt) (res : pw * opt * R) : Prop := InvO w o (fst (fst res)) (snd (fst res)).
Definition InvC3 {R} (w0 : pw) (c0 : cfg) (res : pw * cfg * R) : Prop := Inv w0 c0 (fst (fst res)) (snd (fst res)).

Lemma with_opt_inv w0 c0 w c name f :
  Inv w0 c0 w c ->
  (forall w1 r o, wf_o o -> 0 < w_nextptr w1 -> InvO3 w1 o (f w1 r o)) ->
  InvC3 w0 c0 (with_opt w c name f).
Proof.
  intros H Hf. unfold with_opt, InvC3.
  destruct (cfg_getopt c name) as [ro ds].
  assert (H1 : Inv w0 c0 (add_diags w ds) c) by (eapply Inv_wk; [exact H|reflexivity]).
  destruct ro as [r|]; [|exact H1].
  destruct (get_opt c r) as [o|] eqn:G; [|exact H1].
  destruct (Inv_cur _ _ _ _ H1) as [W P].
  pose proof (Hf (add_diags w ds) r o (get_opt_wf _ _ _ W G) P) as Ho. unfold InvO3 in Ho.
  destruct (f (add_diags w ds) r o) as [[w1 o1] rc]. unfold fst, snd in *.
  eapply Inv_opt; [exact H1|exact G|exact Ho].
Qed.

(* cfg_opt_setnint & co: the stored value is a scalar (or the call is refused) *)
Lemma opt_setn_inv w o k v index :
  wf_o o -> 0 < w_nextptr w ->
  (k <> KSec /\ k <> KPtr /\ (forall c, v <> VSec (Some c))) \/ o_kind o <> k ->
  InvO3 w o (opt_setn w o k v index).
Proof.
  intros W P Hk. unfold opt_setn, InvO3.
  destruct (kind_eqb (o_kind o) k) eqn:K; cbn [negb]; [|apply InvO_refl; assumption].
  apply kind_eqb_eq in K.
  destruct Hk as [[K1 [K2 Hv]]|Hk]; [|contradiction].
  destruct (opt_getval o index) as [[[o1 idx] fr]|] eqn:G; [|apply InvO_refl; assumption].
  unfold fst, snd.
  destruct (opt_getval_wf _ _ _ _ _ G W) as [W1 [Ko _]].
  eapply InvO_frees; [eapply opt_getval_InvO; eauto|apply setn_wf; assumption|].
  rewrite !scalar_frees_nil; try reflexivity; try assumption; try congruence.
  - apply setn_wf; assumption.
  - rewrite o_kind_setn. congruence.
  - rewrite o_kind_setn. congruence.
Qed.

Lemma InvO3_wk {R} w o w1 (res : pw * opt * R) :
  wk w1 = wk w -> 0 < w_nextptr w -> InvO3 w1 o res -> InvO3 w o res.
Proof.
  intros E P [W [P' S]]. split; [exact W|]. split; [exact P'|]. rewrite <- E. exact S.
Qed.

Lemma pos_wk w w1 : wk w1 = wk w -> 0 < w_nextptr w -> 0 < w_nextptr w1.
Proof. intros E P. change (0 < snd (wk w1)). rewrite E. exact P. Qed.

Lemma cfg_setnint_inv w0 c0 w c name z index :
  Inv w0 c0 w c -> InvC3 w0 c0 (cfg_setnint w c name z index).
Proof.
  intro H. unfold cfg_setnint. apply with_opt_inv; [exact H|]. intros w1 r o W P.
  pose proof (wk_run_validcb2 w1 o (V2Int z)) as E.
  destruct (run_validcb2 w1 o (V2Int z)) as [[w2 a] f]. unfold fst in E.
  destruct f.
  - unfold InvO3, fst, snd. eapply InvO_wk; [apply InvO_refl; assumption|exact E].
  - eapply InvO3_wk; [exact E|exact P|]. apply opt_setn_inv; [exact W|exact (pos_wk _ _ E P)|].
    left. repeat split; discriminate.
Qed.

Lemma cfg_setnfloat_inv w0 c0 w c name b index :
  Inv w0 c0 w c -> InvC3 w0 c0 (cfg_setnfloat w c name b index).
Proof.
  intro H. unfold cfg_setnfloat. apply with_opt_inv; [exact H|]. intros w1 r o W P.
  pose proof (wk_run_validcb2 w1 o (V2Float b)) as E.
  destruct (run_validcb2 w1 o (V2Float b)) as [[w2 a] f]. unfold fst in E.
  destruct f.
  - unfold InvO3, fst, snd. eapply InvO_wk; [apply InvO_refl; assumption|exact E].
  - eapply InvO3_wk; [exact E|exact P|]. apply opt_setn_inv; [exact W|exact (pos_wk _ _ E P)|].
    left. repeat split; discriminate.
Qed.

Lemma cfg_setnbool_inv w0 c0 w c name b index :
  Inv w0 c0 w c -> InvC3 w0 c0 (cfg_setnbool w c name b index).
Proof.
  intro H. unfold cfg_setnbool. apply with_opt_inv; [exact H|]. intros w1 r o W P.
  apply opt_setn_inv; [exact W|exact P|]. left. repeat split; discriminate.
Qed.

Lemma cfg_setnstr_inv w0 c0 w c name s index :
  Inv w0 c0 w c -> InvC3 w0 c0 (cfg_setnstr w c name s index).
Proof.
  intro H. unfold cfg_setnstr. apply with_opt_inv; [exact H|]. intros w1 r o W P.
  pose proof (wk_run_validcb2 w1 o (V2Str s)) as E.
  destruct (run_validcb2 w1 o (V2Str s)) as [[w2 a] f]. unfold fst in E.
  destruct f.
  - unfold InvO3, fst, snd. eapply InvO_wk; [apply InvO_refl; assumption|exact E].
  - eapply InvO3_wk; [exact E|exact P|]. apply opt_setn_inv; [exact W|exact (pos_wk _ _ E P)|].
    left. repeat split; discriminate.
Qed.

(* cfg_addlist_internal *)
Lemma al_step_inv w o v :
  wf_o o -> 0 < w_nextptr w -> InvO w o (fst (al_step (w, o) v)) (snd (al_step (w, o) v)).
Proof.
  intros W P. unfold al_step. cbv zeta.
  destruct (o_kind o) eqn:K; try (apply InvO_refl; assumption).
  all: destruct v as [z|b|b|s|s|id]; cbv beta match;
    match goal with |- context [opt_setn ?w ?o ?k ?v ?i] =>
      let Hs := fresh "Hs" in
      assert (Hs : InvO3 w o (opt_setn w o k v i));
      [ apply opt_setn_inv; [exact W|exact P|];
        first [ left; repeat split; discriminate | right; rewrite K; discriminate ]
      | unfold InvO3 in Hs; destruct (opt_setn w o k v i) as [[w1 o1] rc]; exact Hs ]
    end.
Qed.

Lemma addlist_internal_inv vs : forall w0 o0 w o,
  InvO w0 o0 w o -> InvO w0 o0 (fst (addlist_internal w o vs)) (snd (addlist_internal w o vs)).
Proof.
  induction vs as [|v vs IH]; intros w0 o0 w o H; [exact H|].
  rewrite addlist_internal_eq. cbn [fold_left]. 
  pose proof (al_step_inv w o v (proj1 H) (Tr_pos _ _ _ _ (proj2 H))) as Hs.
  destruct (al_step (w, o) v) as [w1 o1]. unfold fst, snd in Hs.
  rewrite <- addlist_internal_eq. apply IH. eapply InvO_trans; eauto.
Qed.

Lemma cfg_setlist_inv w0 c0 w c name vs :
  Inv w0 c0 w c -> InvC3 w0 c0 (cfg_setlist w c name vs).
Proof.
  intro H. unfold cfg_setlist. apply with_opt_inv; [exact H|]. intros w1 r o W P.
  destruct (negb (oflag o CFGF_LIST)); [apply InvO_refl; assumption|].
  pose proof (free_value_InvO w1 o W P) as Hf.
  destruct (free_value o) as [o1 fr]. unfold fst, snd in Hf.
  assert (Hm : InvO w1 o (log_frees w1 fr) (o_setf o1 CFGF_MODIFIED)) by (eapply InvO_fk; [exact Hf|apply fk_setf]).
  pose proof (addlist_internal_inv vs _ _ _ _ Hm) as Ha.
  destruct (addlist_internal (log_frees w1 fr) (o_setf o1 CFGF_MODIFIED) vs) as [w2 o2]. exact Ha.
Qed.

Lemma cfg_addlist_inv w0 c0 w c name vs :
  Inv w0 c0 w c -> InvC3 w0 c0 (cfg_addlist w c name vs).
Proof.
  intro H. unfold cfg_addlist. apply with_opt_inv; [exact H|]. intros w1 r o W P.
  destruct (negb (oflag o CFGF_LIST)); [apply InvO_refl; assumption|].
  assert (Hm : InvO w1 o w1 (o_clrf o CFGF_RESET)) by (eapply InvO_fk; [apply InvO_refl; assumption|apply fk_clrf]).
  pose proof (addlist_internal_inv vs _ _ _ _ Hm) as Ha.
  destruct (addlist_internal w1 (o_clrf o CFGF_RESET) vs) as [w2 o2]. exact Ha.
Qed.

(* cfg_opt_setmulti *)
Lemma sm_go_inv strtod_o fuel c vs : forall w0 o0 w o,
  InvO w0 o0 w o ->
  InvO w0 o0 (fst (fst (sm_go strtod_o fuel c vs w o))) (snd (fst (sm_go strtod_o fuel c vs w o))).
Proof.
  induction vs as [|v r IH]; intros w0 o0 w o H; [exact H|].
  cbn [sm_go].
  pose proof (setopt_InvO strtod_o fuel w c o v (proj1 H) (Tr_pos _ _ _ _ (proj2 H))) as Hs.
  destruct (setopt strtod_o fuel w c o v) as [[w1 o1] res]. unfold fst, snd in Hs.
  pose proof (InvO_trans _ _ _ _ _ _ H Hs) as H1.
  destruct res; [apply IH; exact H1|exact H1].
Qed.

Lemma set_vals_nil_inv o : wf_o o -> wf_o (set_vals (set_comment o None) []) /\ frees_o (set_vals (set_comment o None) []) = [].
Proof.
  intro W. apply wf_o_parts in W. destruct W as [Wk [_ Ws]].
  split.
  - apply wf_o_parts. destruct o. split; [exact Wk|]. split; [reflexivity|exact Ws].
  - rewrite frees_o_set_vals. reflexivity.
Qed.

Lemma opt_setmulti_inv strtod_o fuel w c o vals :
  wf_o o -> 0 < w_nextptr w -> InvO3 w o (opt_setmulti strtod_o fuel w c o vals).
Proof.
  intros W P. unfold InvO3. rewrite opt_setmulti_eq.
  destruct vals as [|v0 vs]; [apply InvO_refl; assumption|].
  set (fresh := set_vals (set_comment o None) []).
  destruct (set_vals_nil_inv o W) as [Wf Ff]. fold fresh in Wf, Ff.
  pose proof (sm_go_inv strtod_o fuel c (v0 :: vs) w fresh w fresh (InvO_refl _ _ Wf P)) as Hg.
  pose proof (sm_go_frame strtod_o fuel c (v0 :: vs) w fresh) as Fr.
  destruct (sm_go strtod_o fuel c (v0 :: vs) w fresh) as [[w1 o1] ok]. unfold fst, snd in Hg, Fr.
  destruct Hg as [W1 T1]. rewrite Ff in T1. pose proof (Tr_pos _ _ _ _ T1) as P1.
  unfold sm_finish. cbv zeta.
  destruct ok.
  - unfold fst, snd. split.
    + unfold wf_o. rewrite (fk_wfb _ _ (fk_setf _ _)), (fk_wfb _ _ (fk_set_comment _ _)). exact W1.
    + rewrite (fk_frees _ _ (fk_setf _ _)), (fk_frees _ _ (fk_set_comment o1 _)).
      rewrite (fk_frees _ _ (fk_set_comment o None)).
      eapply Tr_trans.
      * pose proof (Tr_frame _ _ _ _ [] (frees_o o) T1) as T2. cbn [app] in T2. exact T2.
      * pose proof (Tr_frame _ _ _ _ (frees_o o1) [] (Tr_log_frees w1 (frees_o o) P1)) as T3.
        rewrite !app_nil_r in T3. exact T3.
  - pose proof (free_value_InvO w1 o1 W1 P1) as Hf. pose proof (free_value_fk o1) as Kf.
    destruct (free_value_inv o1 W1) as [_ F2].
    destruct (free_value o1) as [o2 fr]. unfold fst, snd in *.
    destruct Hf as [W2 T2].
    assert (Fo : frame o o1).
    { eapply frame_trans; [|exact Fr]. unfold fresh.
      eapply frame_trans; [apply frame_set_comment_none|apply frame_set_vals]. }
    match goal with |- InvO _ _ _ ?R => assert (Ef : fk R = fk o) end.
    { unfold fk in Kf |- *. injection Kf as K2 _ S2 C2.
      destruct Fo as [_ Fk Fs _ Fc _ _].
      destruct o2, o. cbn in *. congruence. }
    split.
    + unfold wf_o. rewrite (fk_wfb _ _ Ef). exact W.
    + rewrite (fk_frees _ _ Ef).
      pose proof (Tr_trans _ _ _ _ _ _ T1 T2) as T3.
      rewrite F2 in T3.
      pose proof (Tr_frame _ _ _ _ [] (frees_o o) T3) as T4. cbn [app] in T4. exact T4.
Qed.

Lemma cfg_setmulti_inv strtod_o fuel w0 c0 w c name vals :
  Inv w0 c0 w c -> InvC3 w0 c0 (cfg_setmulti strtod_o fuel w c name vals).
Proof.
  intro H. unfold cfg_setmulti. apply with_opt_inv; [exact H|]. intros w1 r o W P.
  apply opt_setmulti_inv; assumption.
Qed.

(* on failure the option is the one passed in: its pointers are kept, the new ones were released *)
Lemma opt_setmulti_fail_ptrs strtod_o fuel w c o vals w' o' :
  opt_setmulti strtod_o fuel w c o vals = (w', o', FAIL) -> frees_o o' = frees_o o.
Proof. intro H. rewrite (opt_setmulti_reverts _ _ _ _ _ _ _ _ H). reflexivity. Qed.

(* cfg_setopt by name *)
Lemma cfg_setopt_cmd_inv strtod_o fuel w0 c0 w c name v :
  Inv w0 c0 w c ->
  Inv w0 c0 (fst (fst (cfg_setopt_cmd strtod_o fuel w c name v))) (snd (fst (cfg_setopt_cmd strtod_o fuel w c name v))).
Proof.
  intro H. unfold cfg_setopt_cmd.
  destruct (cfg_getopt c name) as [ro ds].
  assert (H1 : Inv w0 c0 (add_diags w ds) c) by (eapply Inv_wk; [exact H|reflexivity]).
  destruct ro as [r|]; [|exact H1].
  destruct (get_opt c r) as [o|] eqn:G; [|exact H1].
  destruct (Inv_cur _ _ _ _ H1) as [W P].
  pose proof (setopt_InvO strtod_o fuel (add_diags w ds) c o v (get_opt_wf _ _ _ W G) P) as Ho.
  destruct (setopt strtod_o fuel (add_diags w ds) c o v) as [[w1 o1] res]. unfold fst, snd in *.
  eapply Inv_opt; [exact H1|exact G|exact Ho].
Qed.

Lemma cfg_setcomment_inv w0 c0 w c name cm :
  Inv w0 c0 w c -> InvC3 w0 c0 (cfg_setcomment w c name cm).
Proof.
  intro H. unfold cfg_setcomment. apply with_opt_inv; [exact H|]. intros w1 r o W P.
  destruct cm; [|apply InvO_refl; assumption].
  unfold InvO3, fst, snd. eapply InvO_fk; [apply InvO_refl; assumption|apply fk_opt_setcomment].
Qed.

(* cfg_opt_rmnsec *)
Lemma nth_error_cut {A} (l : list A) i x : nth_error l i = Some x -> l = firstn i l ++ x :: skipn (S i) l.
Proof.
  revert i. induction l as [|a l IH]; intros i H.
  - destruct i; discriminate.
  - destruct i as [|i]; cbn [nth_error] in H.
    + injection H as ->. reflexivity.
    + cbn [firstn skipn app]. f_equal. apply IH. exact H.
Qed.

Lemma opt_rmnsec_inv w o index :
  wf_o o -> 0 < w_nextptr w -> InvO3 w o (opt_rmnsec w o index).
Proof.
  intros W P. unfold opt_rmnsec, InvO3.
  destruct (kind_eqb (o_kind o) KSec) eqn:K; cbn [negb]; [|apply InvO_refl; assumption].
  apply kind_eqb_eq in K. cbv zeta.
  destruct (N.of_nat (length (o_vals o)) <=? index) eqn:Le; [apply InvO_refl; assumption|].
  apply N.leb_gt in Le. unfold fst, snd.
  destruct (nth_error (o_vals o) (N.to_nat index)) as [v|] eqn:Nv.
  2:{ apply nth_error_None in Nv. lia. }
  assert (Fc : fcb o = false) by (apply fcb_false; rewrite K; discriminate).
  pose proof (nth_error_cut _ _ _ Nv) as Cut.
  set (pre := firstn (N.to_nat index) (o_vals o)) in *.
  set (post := skipn (S (N.to_nat index)) (o_vals o)) in *.
  pose proof W as Wp. apply wf_o_parts in Wp. destruct Wp as [Wk [Wvs Ws]].
  rewrite Cut, forallb_app in Wvs. cbn [forallb] in Wvs.
  apply andb_true_iff in Wvs. destruct Wvs as [Wpre Wpost]. apply andb_true_iff in Wpost. destruct Wpost as [_ Wpost].
  split.
  - apply wf_o_parts. rewrite o_kind_set_vals, o_cbs_set_vals, o_vals_set_vals, o_sub_set_vals.
    split; [exact Wk|]. split; [|exact Ws]. rewrite forallb_app, Wpre, Wpost. reflexivity.
  - rewrite frees_o_set_vals, (frees_o_eq o), Fc. rewrite Cut at 1.
    rewrite !flat_map_app. cbn [flat_map].
    pose proof (Tr_frame _ _ _ _ (flat_map (frees_v false) pre) (flat_map (frees_v false) post)
                  (Tr_log_frees w (frees_v false v) P)) as T.
    cbn [app] in T. exact T.
Qed.

Lemma cfg_rmnsec_inv w0 c0 w c name index :
  Inv w0 c0 w c -> InvC3 w0 c0 (cfg_rmnsec w c name index).
Proof.
  intro H. unfold cfg_rmnsec. apply with_opt_inv; [exact H|]. intros w1 r o W P.
  apply opt_rmnsec_inv; assumption.
Qed.

Lemma cfg_rmtsec_inv w0 c0 w c name title :
  Inv w0 c0 w c -> InvC3 w0 c0 (cfg_rmtsec w c name title).
Proof.
  intro H. unfold cfg_rmtsec. apply with_opt_inv; [exact H|]. intros w1 r o W P.
  destruct title as [t|]; [|apply InvO_refl; assumption].
  destruct (negb (oflag o CFGF_TITLE)); [apply InvO_refl; assumption|].
  destruct (gettsecidx o t); [|apply InvO_refl; assumption].
  apply opt_rmnsec_inv; assumption.
Qed.

Lemma cfg_rmsec_inv w0 c0 w c name :
  Inv w0 c0 w c -> InvC3 w0 c0 (cfg_rmsec w c name).
Proof.
  intro H. unfold cfg_rmsec, InvC3. cbv zeta.
  assert (H1 : Inv w0 c0 (add_diags w (rs_diags (getopt_secidx c name true))) c) by (eapply Inv_wk; [exact H|reflexivity]).
  destruct (rs_opt (getopt_secidx c name true)) as [r|]; [|exact H1].
  destruct (get_opt c r) as [o|] eqn:G; [|exact H1].
  destruct (Inv_cur _ _ _ _ H1) as [W P].
  pose proof (opt_rmnsec_inv (add_diags w (rs_diags (getopt_secidx c name true))) o
                (to_uint (rs_index (getopt_secidx c name true))) (get_opt_wf _ _ _ W G) P) as Ho.
  unfold InvO3 in Ho.
  destruct (opt_rmnsec _ o _) as [[w1 o1] rc]. unfold fst, snd in *.
  eapply Inv_opt; [exact H1|exact G|exact Ho].
Qed.

(* cfg_addtsec *)
Lemma sec_touch o idx s s1 :
  nth_error (o_vals o) idx = Some (VSec (Some s)) -> c_opts s1 = c_opts s -> wf_o o ->
  wf_o (set_vals o (upd_nth (o_vals o) idx (fun _ => VSec (Some s1)))) /\
  frees_o (set_vals o (upd_nth (o_vals o) idx (fun _ => VSec (Some s1)))) = frees_o o.
Proof.
  intros Nx Es W.
  pose proof W as Wp. apply wf_o_parts in Wp. destruct Wp as [Wk [Wvs Ws]].
  pose proof (forallb_nth_error _ _ _ _ Wvs Nx) as Wx.
  destruct (frees_o_upd o idx _ Nx) as [pre [post [E U]]]. split.
  - apply wf_o_parts. rewrite o_kind_set_vals, o_cbs_set_vals, o_vals_set_vals, o_sub_set_vals.
    split; [exact Wk|]. split; [|exact Ws].
    apply forallb_upd_nth; [exact Wvs|]. intros. rewrite wfb_v_sec in *. rewrite (wfb_c_opts _ _ Es). exact Wx.
  - rewrite U, E, !frees_v_sec, (frees_c_opts _ _ Es). reflexivity.
Qed.

Lemma cfg_addtsec_inv strtod_o fuel w0 c0 w c name title :
  Inv w0 c0 w c -> InvC3 w0 c0 (cfg_addtsec strtod_o fuel w c name title).
Proof.
  intro H. unfold cfg_addtsec, InvC3.
  destruct (cfg_getopt c name) as [ro ds].
  assert (H1 : Inv w0 c0 (add_diags w ds) c) by (eapply Inv_wk; [exact H|reflexivity]).
  match goal with |- context [if ?b then _ else _] => destruct b end; [exact H1|].
  assert (H2 : Inv w0 c0 (add_diags (add_diags w ds) ds) c) by (eapply Inv_wk; [exact H|reflexivity]).
  destruct ro as [r|]; [|eapply Inv_wk; [exact H|reflexivity]].
  destruct (get_opt c r) as [o|] eqn:G; [|exact H2].
  destruct (negb (kind_eqb (o_kind o) KSec)); [exact H2|].
  destruct (Inv_cur _ _ _ _ H2) as [W P].
  pose proof (setopt_InvO strtod_o fuel (add_diags (add_diags w ds) ds) c o title (get_opt_wf _ _ _ W G) P) as Ho.
  destruct (setopt strtod_o fuel (add_diags (add_diags w ds) ds) c o title) as [[w1 o1] res]. unfold fst, snd in Ho.
  destruct res as [idx|]; [|unfold fst, snd; eapply Inv_opt; [exact H2|exact G|exact Ho]].
  destruct (nth_error (o_vals o1) idx) as [x|] eqn:Nx.
  2:{ unfold fst, snd. eapply Inv_wk; [eapply Inv_opt; [exact H2|exact G|exact Ho]|reflexivity]. }
  destruct x as [| | | |[s|]|];
    try (unfold fst, snd; eapply Inv_wk; [eapply Inv_opt; [exact H2|exact G|exact Ho]|reflexivity]).
  unfold fst, snd. eapply Inv_opt; [exact H2|exact G|].
  destruct (sec_touch o1 idx s (set_err (set_line s 1) (c_err c)) Nx) as [W2 F2].
  { rewrite c_opts_set_err, c_opts_set_line. reflexivity. }
  { exact (proj1 Ho). }
  eapply InvO_frees; [exact Ho|exact W2|exact F2].
Qed.

(* ================================================================== *)
(* 15. entry points and histories                                       *)
(* ================================================================== *)

Lemma wk_include_unwind n : forall w d, wk (include_unwind n w d) = wk w.
Proof.
  induction n as [|n IH]; intros w d; [reflexivity|].
  cbn [include_unwind]. destruct (l_inc (w_lex w)); [reflexivity|].
  destruct (Nat.ltb _ _); [|reflexivity]. rewrite IH. reflexivity.
Qed.

Lemma parse_fp_gen_inv sd fuel w0 c0 w c content :
  Inv w0 c0 w c -> InvC3 w0 c0 (parse_fp_gen sd fuel w c content).
Proof.
  intro H. unfold parse_fp_gen, InvC3. cbv zeta.
  match goal with |- context [parse_internal sd fuel ?w1 ?c2 0 (pst0 0 None)] =>
    assert (H1 : Inv w0 c0 w1 c2) end.
  { eapply Inv_same; [exact H|reflexivity|]. rewrite c_opts_set_line. destruct (c_file c); [reflexivity|apply c_opts_set_file]. }
  destruct (Inv_cur _ _ _ _ H1) as [W P].
  match goal with |- context [parse_internal sd fuel ?w1 ?c2 0 (pst0 0 None)] =>
    pose proof (parse_internal_Inv sd fuel w1 c2 0 (pst0 0 None) W P) as H2;
    destruct (parse_internal sd fuel w1 c2 0 (pst0 0 None)) as [[w2 c3] rc] end.
  unfold fst, snd in *.
  eapply Inv_trans; [exact H1|]. eapply Inv_wk; [exact H2|].
  rewrite wk_upd_lex, wk_include_unwind. reflexivity.
Qed.

Lemma parse_buf_inv sd fuel w0 c0 w c buf :
  Inv w0 c0 w c -> InvC3 w0 c0 (parse_buf sd fuel w c buf).
Proof.
  intro H. unfold parse_buf. destruct buf as [b|]; [|exact H].
  apply parse_fp_gen_inv. eapply Inv_same; [exact H|reflexivity|apply c_opts_set_file].
Qed.

Lemma parse_file_inv sd fuel w0 c0 w c fn :
  Inv w0 c0 w c -> InvC3 w0 c0 (parse_file sd fuel w c fn).
Proof.
  intro H. unfold parse_file.
  destruct (match w_path w with [] => _ | _ => _ end); [|exact H].
  assert (H1 : Inv w0 c0 w (set_file c (Some s))) by (eapply Inv_same; [exact H|reflexivity|apply c_opts_set_file]).
  destruct (open_input (w_fs w) s); [|exact H1].
  apply parse_fp_gen_inv. exact H1.
Qed.

Lemma cfg_init_inv sd fuel w decls flags :
  0 < w_nextptr w -> forallb tmplb decls = true ->
  wf_c (snd (cfg_init sd fuel w decls flags)) /\
  Tr w [] (fst (cfg_init sd fuel w decls flags)) (frees_c (snd (cfg_init sd fuel w decls flags))).
Proof.
  intros P Hd. unfold cfg_init.
  destruct (tmpls_wf (M "root") None flags decls None 0 false None Hd) as [W F].
  pose proof (init_defaults_Inv sd fuel w _ W P) as H. unfold Inv in H. rewrite F in H.
  destruct (init_defaults sd fuel w (Cfg (M "root") None flags decls None 0 false None)) as [w1 c1].
  unfold fst, snd in *. destruct H as [W1 T1]. split.
  - unfold wf_c. rewrite (wfb_c_opts _ _ (c_opts_set_err c1 true)). exact W1.
  - rewrite (frees_c_opts _ _ (c_opts_set_err c1 true)). exact T1.
Qed.

(* what an application can do with one context between cfg_init and cfg_free *)
Inductive event :=
| EParseFp (fuel : nat) (content : option str)          (* cfg_parse_fp; None: unreadable stream *)
| EParseBuf (fuel : nat) (buf : option str)             (* cfg_parse_buf *)
| EParseFile (fuel : nat) (filename : str)              (* cfg_parse *)
| ESetInt (name : str) (z : Z) (index : N)
| ESetFloat (name : str) (b : N) (index : N)
| ESetBool (name : str) (b : bool) (index : N)
| ESetStr (name : str) (s : option str) (index : N)
| ESetList (name : str) (vs : list value)
| EAddList (name : str) (vs : list value)
| ESetMulti (fuel : nat) (name : str) (vals : list (option str))
| ESetOpt (fuel : nat) (name : str) (v : option str)    (* cfg_setopt(cfg, cfg_getopt(cfg, name), v) *)
| ESetComment (name : str) (cm : option str)
| EAddTsec (fuel : nat) (name : str) (title : option str)
| ERmNsec (name : str) (index : N)
| ERmTsec (name : str) (title : option str)
| ERmSec (name : str).

Definition run_event (sd : str -> strtod_res) (e : event) (s : pw * cfg) : pw * cfg :=
  let w := fst s in let c := snd s in
  match e with
  | EParseFp fuel content => fst (parse_fp_gen sd fuel w c content)
  | EParseBuf fuel buf => fst (parse_buf sd fuel w c buf)
  | EParseFile fuel fn => fst (parse_file sd fuel w c fn)
  | ESetInt name z index => fst (cfg_setnint w c name z index)
  | ESetFloat name b index => fst (cfg_setnfloat w c name b index)
  | ESetBool name b index => fst (cfg_setnbool w c name b index)
  | ESetStr name s0 index => fst (cfg_setnstr w c name s0 index)
  | ESetList name vs => fst (cfg_setlist w c name vs)
  | EAddList name vs => fst (cfg_addlist w c name vs)
  | ESetMulti fuel name vals => fst (cfg_setmulti sd fuel w c name vals)
  | ESetOpt fuel name v => fst (cfg_setopt_cmd sd fuel w c name v)
  | ESetComment name cm => fst (cfg_setcomment w c name cm)
  | EAddTsec fuel name title => fst (cfg_addtsec sd fuel w c name title)
  | ERmNsec name index => fst (cfg_rmnsec w c name index)
  | ERmTsec name title => fst (cfg_rmtsec w c name title)
  | ERmSec name => fst (cfg_rmsec w c name)
  end.

Fixpoint run (sd : str -> strtod_res) (es : list event) (s : pw * cfg) : pw * cfg :=
  match es with [] => s | e :: r => run sd r (run_event sd e s) end.

Lemma run_event_inv sd e w0 c0 s :
  Inv w0 c0 (fst s) (snd s) -> Inv w0 c0 (fst (run_event sd e s)) (snd (run_event sd e s)).
Proof.
  intro H. destruct e; unfold run_event; cbv zeta.
  - apply parse_fp_gen_inv, H.
  - apply parse_buf_inv, H.
  - apply parse_file_inv, H.
  - apply cfg_setnint_inv, H.
  - apply cfg_setnfloat_inv, H.
  - apply cfg_setnbool_inv, H.
  - apply cfg_setnstr_inv, H.
  - apply cfg_setlist_inv, H.
  - apply cfg_addlist_inv, H.
  - apply cfg_setmulti_inv, H.
  - apply cfg_setopt_cmd_inv, H.
  - apply cfg_setcomment_inv, H.
  - apply cfg_addtsec_inv, H.
  - apply cfg_rmnsec_inv, H.
  - apply cfg_rmtsec_inv, H.
  - apply cfg_rmsec_inv, H.
Qed.

Lemma run_inv sd es : forall w0 c0 s,
  Inv w0 c0 (fst s) (snd s) -> Inv w0 c0 (fst (run sd es s)) (snd (run sd es s)).
Proof.
  induction es as [|e r IH]; intros w0 c0 s H; [exact H|].
  cbn [run]. apply IH. apply run_event_inv. exact H.
Qed.

(* ================================================================== *)
(* 16. the statements of C07                                            *)
(* ================================================================== *)

(* from world w, where the ids A are held, to world w', where A' are held: the id counter did not
   go back, the release log only grew, and  held before + created  =  held after + released *)
Definition conserves (w : pw) (A : list N) (w' : pw) (A' : list N) : Prop :=
  w_nextptr w <= w_nextptr w' /\ grows w w' /\ Permutation (A ++ created w w') (A' ++ freed w w').

Lemma Tr_conserves w A w' A' : Tr w A w' A' -> conserves w A w' A'.
Proof. apply Tr_spec. Qed.

Lemma setopt_conserves (sd : str -> strtod_res) (fuel : nat) (w : pw) (c : cfg) (o : opt) (txt : option str) :
  wf_o o -> 0 < w_nextptr w ->
  let r := setopt sd fuel w c o txt in
  wf_o (snd (fst r)) /\ conserves w (ptrs_o o) (fst (fst r)) (ptrs_o (snd (fst r))).
Proof.
  intros W P. cbv zeta. destruct (setopt_InvO sd fuel w c o txt W P) as [W1 T1].
  split; [exact W1|apply Tr_conserves; exact T1].
Qed.

Lemma init_defaults_conserves (sd : str -> strtod_res) (fuel : nat) (w : pw) (c : cfg) :
  wf_c c -> 0 < w_nextptr w ->
  let r := init_defaults sd fuel w c in
  wf_c (snd r) /\ conserves w (ptrs_c c) (fst r) (ptrs_c (snd r)).
Proof.
  intros W P. cbv zeta. destruct (init_defaults_Inv sd fuel w c W P) as [W1 T1].
  split; [exact W1|apply Tr_conserves; exact T1].
Qed.

Lemma parse_internal_conserves (sd : str -> strtod_res) (fuel : nat) (w : pw) (c : cfg) (level : nat) (p : pst) :
  wf_c c -> 0 < w_nextptr w ->
  let r := parse_internal sd fuel w c level p in
  wf_c (snd (fst r)) /\ conserves w (ptrs_c c) (fst (fst r)) (ptrs_c (snd (fst r))).
Proof.
  intros W P. cbv zeta. destruct (parse_internal_Inv sd fuel w c level p W P) as [W1 T1].
  split; [exact W1|apply Tr_conserves; exact T1].
Qed.

(* exactly once, from conservation alone *)
Lemma conserves_exactly_once (w : pw) (A : list N) (w' : pw) (A' : list N) :
  conserves w A w' A' -> Fresh w A ->
  Fresh w' A' /\ NoDup (freed w w') /\
  (forall id, In id (freed w w') -> (In id A \/ In id (created w w')) /\ ~ In id A') /\
  (forall id, In id A \/ In id (created w w') -> In id A' \/ In id (freed w w')).
Proof.
  intros [L [_ Pm]] [P0 [ND Lt]].
  assert (P' : 0 < w_nextptr w') by lia.
  assert (NL : NoDup (A ++ created w w')).
  { apply NoDup_app_intro; [exact ND|apply iv_NoDup|].
    intros x Hx I. unfold created in I. apply iv_In in I. specialize (Lt x Hx). lia. }
  pose proof (Permutation_NoDup Pm NL) as NR.
  destruct (NoDup_app_elim _ _ NR) as [N1 [N2 D]].
  split; [|split; [exact N2|split]].
  - split; [exact P'|]. split; [exact N1|].
    intros id Hid. assert (I : In id (A ++ created w w')).
    { eapply Permutation_in; [symmetry; exact Pm|]. apply in_or_app. left. exact Hid. }
    apply in_app_or in I. destruct I as [I|I].
    + specialize (Lt id I). lia.
    + unfold created in I. apply iv_In in I. lia.
  - intros id Hid. split.
    + apply in_app_or. eapply Permutation_in; [symmetry; exact Pm|]. apply in_or_app. right. exact Hid.
    + intro I. exact (D id I Hid).
  - intros id Hid. apply in_app_or. eapply Permutation_in; [exact Pm|]. apply in_or_app. exact Hid.
Qed.

Lemma cfg_free_releases_all (w : pw) (c : cfg) : freed w (cfg_free w c) = ptrs_c c.
Proof. apply cfg_free_freed. Qed.

Lemma cfg_free_conserves (w : pw) (c : cfg) :
  0 < w_nextptr w -> conserves w (ptrs_c c) (cfg_free w c) [] /\ created w (cfg_free w c) = [].
Proof.
  intro P. split; [apply Tr_conserves, cfg_free_Tr; exact P|].
  unfold created. pose proof (wk_cfg_free w c) as E. unfold wk in E. injection E as _ E. rewrite E. apply iv_nil.
Qed.

(* each live pointer exactly once *)
Lemma cfg_free_exactly_once (w : pw) (c : cfg) :
  Fresh w (ptrs_c c) ->
  NoDup (freed w (cfg_free w c)) /\ forall id, In id (ptrs_c c) <-> In id (freed w (cfg_free w c)).
Proof.
  intros [_ [ND _]]. rewrite cfg_free_releases_all. split; [exact ND|]. intro id. reflexivity.
Qed.

(* option level API *)
Lemma opt_setn_conserves (w : pw) (o : opt) (k : kind) (v : value) (index : N) :
  wf_o o -> 0 < w_nextptr w ->
  (k <> KSec /\ k <> KPtr /\ (forall c, v <> VSec (Some c))) \/ o_kind o <> k ->
  let r := opt_setn w o k v index in
  wf_o (snd (fst r)) /\ conserves w (ptrs_o o) (fst (fst r)) (ptrs_o (snd (fst r))).
Proof.
  intros W P Hk. cbv zeta. destruct (opt_setn_inv w o k v index W P Hk) as [W1 T1].
  split; [exact W1|apply Tr_conserves; exact T1].
Qed.

Lemma opt_setmulti_conserves (sd : str -> strtod_res) (fuel : nat) (w : pw) (c : cfg) (o : opt) (vals : list (option str)) :
  wf_o o -> 0 < w_nextptr w ->
  let r := opt_setmulti sd fuel w c o vals in
  wf_o (snd (fst r)) /\ conserves w (ptrs_o o) (fst (fst r)) (ptrs_o (snd (fst r))) /\
  (snd r = FAIL -> ptrs_o (snd (fst r)) = ptrs_o o).
Proof.
  intros W P. cbv zeta. destruct (opt_setmulti_inv sd fuel w c o vals W P) as [W1 T1].
  split; [exact W1|]. split; [apply Tr_conserves; exact T1|].
  destruct (opt_setmulti sd fuel w c o vals) as [[w' o'] rc] eqn:E. unfold fst, snd. intros ->.
  exact (opt_setmulti_fail_ptrs _ _ _ _ _ _ _ _ E).
Qed.

Lemma opt_rmnsec_conserves (w : pw) (o : opt) (index : N) :
  wf_o o -> 0 < w_nextptr w ->
  let r := opt_rmnsec w o index in
  wf_o (snd (fst r)) /\ conserves w (ptrs_o o) (fst (fst r)) (ptrs_o (snd (fst r))).
Proof.
  intros W P. cbv zeta. destruct (opt_rmnsec_inv w o index W P) as [W1 T1].
  split; [exact W1|apply Tr_conserves; exact T1].
Qed.

(* every by-name call and every parse entry point, on a whole context *)
Lemma event_conserves (sd : str -> strtod_res) (e : event) (w : pw) (c : cfg) :
  wf_c c -> 0 < w_nextptr w ->
  let s := run_event sd e (w, c) in
  wf_c (snd s) /\ conserves w (ptrs_c c) (fst s) (ptrs_c (snd s)).
Proof.
  intros W P. cbv zeta.
  destruct (run_event_inv sd e w c (w, c) (Inv_refl w c W P)) as [W1 T1].
  split; [exact W1|apply Tr_conserves; exact T1].
Qed.

Lemma events_conserve (sd : str -> strtod_res) (es : list event) (w : pw) (c : cfg) :
  wf_c c -> 0 < w_nextptr w ->
  let s := run sd es (w, c) in
  wf_c (snd s) /\ conserves w (ptrs_c c) (fst s) (ptrs_c (snd s)).
Proof.
  intros W P. cbv zeta.
  destruct (run_inv sd es w c (w, c) (Inv_refl w c W P)) as [W1 T1].
  split; [exact W1|apply Tr_conserves; exact T1].
Qed.

(* the live ids stay pairwise distinct and below the counter along any history *)
Lemma events_fresh (sd : str -> strtod_res) (es : list event) (w : pw) (c : cfg) :
  wf_c c -> Fresh w (ptrs_c c) ->
  let s := run sd es (w, c) in
  wf_c (snd s) /\ Fresh (fst s) (ptrs_c (snd s)) /\ NoDup (freed w (fst s)).
Proof.
  intros W F. cbv zeta. destruct (events_conserve sd es w c W (proj1 F)) as [W1 C1].
  destruct (conserves_exactly_once _ _ _ _ C1 F) as [F1 [N1 _]].
  split; [exact W1|]. split; assumption.
Qed.

(* THE HISTORY THEOREM, from an arbitrary well-formed context: whatever is done with the context,
   cfg_free at the end has released every id that was live at the start or created on the way,
   each exactly once *)
Lemma history_from (sd : str -> strtod_res) (es : list event) (w : pw) (c : cfg) :
  wf_c c -> Fresh w (ptrs_c c) ->
  let s := run sd es (w, c) in
  let wend := cfg_free (fst s) (snd s) in
  grows w wend /\ Permutation (freed w wend) (ptrs_c c ++ created w wend) /\ NoDup (freed w wend).
Proof.
  intros W F. cbv zeta.
  pose proof (run_inv sd es w c (w, c) (Inv_refl w c W (proj1 F))) as [W1 T1].
  pose proof (cfg_free_Tr (fst (run sd es (w, c))) (snd (run sd es (w, c))) (Tr_pos _ _ _ _ T1)) as T2.
  pose proof (Tr_trans _ _ _ _ _ _ T1 T2) as T.
  pose proof (Tr_conserves _ _ _ _ T) as C.
  destruct (conserves_exactly_once _ _ _ _ C F) as [_ [N _]].
  destruct C as [_ [G Pm]]. split; [exact G|]. split; [|exact N].
  symmetry. exact Pm.
Qed.

(* ... and from cfg_init: released = created, nothing twice *)
Lemma history (sd : str -> strtod_res) (fuel : nat) (w0 : pw) (decls : list opt) (flags : N) (es : list event) :
  0 < w_nextptr w0 -> forallb tmplb decls = true ->
  let s1 := cfg_init sd fuel w0 decls flags in
  let sn := run sd es s1 in
  let wend := cfg_free (fst sn) (snd sn) in
  grows w0 wend /\ Permutation (freed w0 wend) (created w0 wend) /\ NoDup (freed w0 wend).
Proof.
  intros P Hd. cbv zeta.
  destruct (cfg_init_inv sd fuel w0 decls flags P Hd) as [W1 T1].
  set (s1 := cfg_init sd fuel w0 decls flags) in *.
  assert (H1 : Inv (fst s1) (snd s1) (fst s1) (snd s1)) by (apply Inv_refl; [exact W1|exact (Tr_pos _ _ _ _ T1)]).
  pose proof (run_inv sd es _ _ s1 H1) as [Wn Tn].
  pose proof (cfg_free_Tr (fst (run sd es s1)) (snd (run sd es s1)) (Tr_pos _ _ _ _ Tn)) as Tf.
  pose proof (Tr_trans _ _ _ _ _ _ (Tr_trans _ _ _ _ _ _ T1 Tn) Tf) as T.
  pose proof (Tr_conserves _ _ _ _ T) as [_ [G Pm]]. cbn [app] in Pm.
  split; [exact G|]. split; [symmetry; exact Pm|].
  eapply Permutation_NoDup; [exact Pm|]. apply iv_NoDup.
Qed.

(* the context cfg_init hands back is well-formed and its ids are fresh: the hypotheses of history_from hold *)
Lemma cfg_init_fresh (sd : str -> strtod_res) (fuel : nat) (w0 : pw) (decls : list opt) (flags : N) :
  0 < w_nextptr w0 -> forallb tmplb decls = true ->
  let s1 := cfg_init sd fuel w0 decls flags in
  wf_c (snd s1) /\ Fresh (fst s1) (ptrs_c (snd s1)) /\ conserves w0 [] (fst s1) (ptrs_c (snd s1)).
Proof.
  intros P Hd. cbv zeta. destruct (cfg_init_inv sd fuel w0 decls flags P Hd) as [W1 T1].
  pose proof (Tr_conserves _ _ _ _ T1) as C.
  assert (F0 : Fresh w0 []). { split; [exact P|]. split; [constructor|]. intros id []. }
  destruct (conserves_exactly_once _ _ _ _ C F0) as [F1 _].
  split; [exact W1|]. split; [exact F1|exact C].
Qed.

(* ================================================================== *)
(* 17. the whole callback log only grows                                *)
(* ================================================================== *)

Definition ext (w w' : pw) : Prop := exists new, w_cbs w' = new ++ w_cbs w.

Lemma ext_refl w : ext w w. Proof. exists []. reflexivity. Qed.
Lemma ext_trans w w1 w2 : ext w w1 -> ext w1 w2 -> ext w w2.
Proof. intros [n1 E1] [n2 E2]. exists (n2 ++ n1). rewrite E2, E1. apply app_assoc. Qed.
Lemma ext_same w w1 w2 : ext w w1 -> w_cbs w2 = w_cbs w1 -> ext w w2.
Proof. intros [n E] H. exists n. rewrite H. exact E. Qed.

Lemma ext_add_cb w w1 e : ext w w1 -> ext w (add_cb w1 e).
Proof. intros [n E]. exists (e :: n). cbn [add_cb w_cbs]. rewrite E. reflexivity. Qed.
Lemma ext_upd_lex w w1 l : ext w w1 -> ext w (upd_lex w1 l). Proof. intro H. eapply ext_same; [exact H|reflexivity]. Qed.
Lemma ext_add_diags w w1 l : ext w w1 -> ext w (add_diags w1 l). Proof. intro H. eapply ext_same; [exact H|reflexivity]. Qed.
Lemma ext_set_cnt w w1 l : ext w w1 -> ext w (set_cnt w1 l). Proof. intro H. eapply ext_same; [exact H|reflexivity]. Qed.
Lemma ext_set_nextptr w w1 l : ext w w1 -> ext w (set_nextptr w1 l). Proof. intro H. eapply ext_same; [exact H|reflexivity]. Qed.
Lemma ext_set_open w w1 l : ext w w1 -> ext w (set_open w1 l). Proof. intro H. eapply ext_same; [exact H|reflexivity]. Qed.
Lemma ext_set_crash w w1 l : ext w w1 -> ext w (set_crash w1 l). Proof. intro H. eapply ext_same; [exact H|reflexivity]. Qed.
Lemma ext_set_oof w w1 : ext w w1 -> ext w (set_oof w1). Proof. intro H. eapply ext_same; [exact H|reflexivity]. Qed.
Lemma ext_log_frees ids : forall w w1, ext w w1 -> ext w (log_frees w1 ids).
Proof.
  induction ids as [|a r IH]; intros w w1 H; [exact H|].
  change (log_frees w1 (a :: r)) with (log_frees (add_cb w1 (CbFree a)) r). apply IH. apply ext_add_cb. exact H.
Qed.

Ltac ext_close H :=
  repeat lazymatch goal with
  | |- ext _ (add_cb _ _) => apply ext_add_cb
  | |- ext _ (upd_lex _ _) => apply ext_upd_lex
  | |- ext _ (add_diags _ _) => apply ext_add_diags
  | |- ext _ (set_cnt _ _) => apply ext_set_cnt
  | |- ext _ (set_nextptr _ _) => apply ext_set_nextptr
  | |- ext _ (set_open _ _) => apply ext_set_open
  | |- ext _ (set_crash _ _) => apply ext_set_crash
  | |- ext _ (set_oof _) => apply ext_set_oof
  | |- ext _ (log_frees _ _) => apply ext_log_frees
  | |- ext ?a ?a => apply ext_refl
  | |- _ => exact H
  end.

Lemma ext_tick w0 w : ext w0 w -> ext w0 (fst (tick w)).
Proof. intro H. unfold tick, fst. ext_close H. Qed.
Lemma ext_run_validcb w0 w o : ext w0 w -> ext w0 (fst (run_validcb w o)).
Proof. intro H. unfold run_validcb, tick. destruct (cb_valid (o_cbs o)); unfold fst; ext_close H. Qed.
Lemma ext_run_parsecb w0 w k o v : ext w0 w -> ext w0 (fst (run_parsecb w k o v)).
Proof. intro H. unfold run_parsecb, tick, fst. ext_close H. Qed.
Lemma ext_run_validcb2 w0 w o a : ext w0 w -> ext w0 (fst (fst (run_validcb2 w o a))).
Proof. intro H. unfold run_validcb2, tick. destruct (cb_valid2 (o_cbs o)); unfold fst; ext_close H. Qed.

Lemma so_slot_cbs c w0 o0 txt w1 o1 idx : so_slot c w0 o0 txt = Some (w1, o1, idx) -> w_cbs w1 = w_cbs w0.
Proof.
  unfold so_slot. cbv zeta.
  repeat match goal with |- context [match ?x with _ => _ end] => destruct x end;
  intro H; try discriminate; injection H as <- _ _; reflexivity.
Qed.

Section LogSetopt.
Variable strtod_o : str -> strtod_res.
Variable initd : pw -> cfg -> pw * cfg.
Hypothesis Hid : forall w c, ext w (fst (initd w c)).

Lemma so_body_ext w c o txt : ext w (fst (fst (so_body strtod_o initd w c o txt))).
Proof.
  unfold so_body.
  assert (H0 : ext w (fst (so_reset w o))).
  { unfold so_reset. destruct (oflag o CFGF_RESET); [|apply ext_refl].
    destruct (free_value o) as [x fr]. unfold fst. apply ext_log_frees, ext_refl. }
  destruct (so_reset w o) as [w0 o0]. unfold fst in H0.
  destruct (so_slot c w0 o0 txt) as [[[w1 o1] idx]|] eqn:S.
  - apply so_slot_cbs in S. assert (H1 : ext w w1) by (eapply ext_same; eauto). clear S H0.
    unfold so_conv, so_store. cbv zeta.
    destruct (o_kind o1).
    6:{ (* KSec *)
      destruct (nth_error (o_vals o1) idx) as [[| | | |[s|]|]|]; cbv beta match;
      repeat match goal with
      | |- context [initd ?a ?b] => let Hi := fresh "Hi" in pose proof (Hid a b) as Hi; destruct (initd a b) as [? ?]; unfold fst in Hi
      | |- context [if ?b then _ else _] => destruct b
      end; unfold fst, snd;
      try (eapply ext_trans; [|eassumption]); ext_close H1. }
    all: repeat match goal with
      | |- context [run_parsecb ?a ?k ?o ?t] =>
          let Hp := fresh "Hp" in pose proof (ext_run_parsecb w a k o t H1) as Hp;
          destruct (run_parsecb a k o t) as [? ?]; unfold fst in Hp
      | |- context [match ?x with _ => _ end] => destruct x
      end; unfold fst, snd; ext_close H1;
      try (match goal with Hp : ext _ _ |- _ => solve [ext_close Hp] end).
  - unfold fst, snd. match goal with |- context [if ?b then _ else _] => destruct b end; ext_close H0.
Qed.
End LogSetopt.

Lemma ext_next_token fl w0 w c : ext w0 w -> ext w0 (fst (fst (fst (next_token fl w c)))).
Proof.
  intro H. unfold next_token. cbv zeta. unfold fst. apply ext_set_open.
  destruct (c_err c); [apply ext_add_diags|]; apply ext_upd_lex; destruct (r_fuel_out _); ext_close H.
Qed.

Lemma ext_hd w0 w c r : ext w0 w -> ext w0 (fst (handle_deprecated w c r)).
Proof.
  intro H. unfold handle_deprecated.
  repeat match goal with |- context [match ?x with _ => _ end] => destruct x end; unfold fst; ext_close H.
Qed.

Lemma ext_li w0 w c a : ext w0 w -> ext w0 (fst (fst (lexer_include w c a))).
Proof.
  intro H. unfold lexer_include.
  repeat match goal with |- context [match ?x with _ => _ end] => destruct x end; unfold fst; ext_close H.
Qed.

Section LogLevel.
Variable so : pw -> cfg -> opt -> option str -> pw * opt * option nat.
Variable pi : pw -> cfg -> nat -> pst -> pw * cfg * prc.
Hypothesis Hso : forall w c o txt, ext w (fst (fst (so w c o txt))).
Hypothesis Hpi : forall w c l p, ext w (fst (fst (pi w c l p))).

Lemma id_loop_ext todo : forall i w0 w c, ext w0 w -> ext w0 (fst (id_loop so pi todo i w c)).
Proof.
  induction todo as [|x todo IH]; intros i w0 w c H; [exact H|].
  cbn [id_loop]. fold (id_loop so pi).
  destruct (nth_error (c_opts c) i) as [o|]; [|exact H].
  cbv zeta.
  match goal with |- context [if ?d then add_diags w ?m else w] =>
    set (w1 := if d then add_diags w m else w);
    assert (H1 : ext w0 w1) by (subst w1; destruct d; ext_close H); clearbody w1 end.
  destruct (oflag o CFGF_NODEFAULT); [apply IH; exact H1|].
  destruct (negb (kind_eqb (o_kind o) KSec)).
  - destruct (oflag (o_setf o CFGF_DEFINIT) CFGF_LIST || _).
    + destruct (d_parsed (o_def (o_setf o CFGF_DEFINIT))) as [[|b buf]|]; try (apply IH; exact H1).
      match goal with |- context [pi ?a ?b ?c ?d] =>
        pose proof (Hpi a b c d) as H2; destruct (pi a b c d) as [[w2 c2] rc] end.
      unfold fst in H2.
      assert (H3 : ext w0 w2) by (eapply ext_trans; [|exact H2]; ext_close H1).
      destruct rc; try (apply IH; ext_close H3). unfold fst. ext_close H3.
    + apply IH. exact H1.
  - destruct (negb (oflag o CFGF_MULTI)); [|apply IH; exact H1].
    pose proof (Hso w1 c o None) as H2. destruct (so w1 c o None) as [[w2 o1] res]. unfold fst in H2.
    apply IH. eapply ext_trans; eauto.
Qed.

Definition Ext3 (w0 : pw) (res : pw * cfg * prc) : Prop := ext w0 (fst (fst res)).

Lemma Ext3_pi w0 w c l p : ext w0 w -> Ext3 w0 (pi w c l p).
Proof. intro H. unfold Ext3. eapply ext_trans; [exact H|apply Hpi]. Qed.
Lemma Ext3_ret w0 w (c : cfg) (rc : prc) : ext w0 w -> Ext3 w0 (w, c, rc).
Proof. intro H. exact H. Qed.

Ltac ext_any :=
  match goal with H : ext ?w0 _ |- ext ?w0 _ => ext_close H end.

Ltac eleaf :=
  lazymatch goal with
  | |- Ext3 _ (pi _ _ _ _) => apply Ext3_pi; ext_any
  | |- Ext3 _ (_, _, _) => apply Ext3_ret; ext_any
  end.

Ltac ehead_on x :=
  lazymatch x with
  | match ?y with _ => _ end => ehead_on y
  | handle_deprecated ?w ?c ?r =>
      match goal with H : ext ?w0 _ |- _ =>
        let H' := fresh "HE" in assert (H' : ext w0 (fst (handle_deprecated w c r))) by (apply ext_hd; ext_close H); clear H;
        destruct (handle_deprecated w c r) as [? ?]; unfold fst in H' end
  | lexer_include ?w ?c ?a =>
      match goal with H : ext ?w0 _ |- _ =>
        let H' := fresh "HE" in assert (H' : ext w0 (fst (fst (lexer_include w c a)))) by (apply ext_li; ext_close H); clear H;
        destruct (lexer_include w c a) as [[? ?] ?]; unfold fst in H' end
  | so ?w ?c ?o ?txt =>
      match goal with H : ext ?w0 _ |- _ =>
        let H' := fresh "HE" in assert (H' : ext w0 (fst (fst (so w c o txt)))) by (eapply ext_trans; [|apply Hso]; ext_close H); clear H;
        destruct (so w c o txt) as [[? ?] ?]; unfold fst in H' end
  | pi ?w ?c ?l ?pp =>
      match goal with H : ext ?w0 _ |- _ =>
        let H' := fresh "HE" in assert (H' : ext w0 (fst (fst (pi w c l pp)))) by (eapply ext_trans; [|apply Hpi]; ext_close H); clear H;
        destruct (pi w c l pp) as [[? ?] ?]; unfold fst in H' end
  | run_validcb ?w ?o =>
      match goal with H : ext ?w0 _ |- _ =>
        let H' := fresh "HE" in assert (H' : ext w0 (fst (run_validcb w o))) by (apply ext_run_validcb; ext_close H); clear H;
        destruct (run_validcb w o) as [? ?]; unfold fst in H' end
  | tick ?w =>
      match goal with H : ext ?w0 _ |- _ =>
        let H' := fresh "HE" in assert (H' : ext w0 (fst (tick w))) by (apply ext_tick; ext_close H); clear H;
        destruct (tick w) as [? ?]; unfold fst in H' end
  | _ => destruct x
  end.

Ltac ehead_step :=
  lazymatch goal with
  | |- Ext3 _ (match ?x with _ => _ end) => ehead_on x; cbv beta match zeta
  end.

Ltac estep := first [ eleaf | ehead_step ].

Lemma pi_body_ext fl w0 w c level p : ext w0 w -> Ext3 w0 (pi_body so pi fl w c level p).
Proof.
  intro H. unfold pi_body.
  apply (ext_next_token fl w0 w c) in H.
  destruct (next_token fl w c) as [[[w1 c1] t] yylval]. unfold fst in H.
  cbv zeta.
  destruct (s_opt p) as [r0|]; cbv beta match.
  all: repeat estep.
Qed.
End LogLevel.

Lemma mutual_ext strtod_o fuel :
  (forall w c o txt, ext w (fst (fst (setopt strtod_o fuel w c o txt)))) /\
  (forall w c, ext w (fst (init_defaults strtod_o fuel w c))) /\
  (forall w c l p, ext w (fst (fst (parse_internal strtod_o fuel w c l p)))).
Proof.
  induction fuel as [|fuel [IHs [IHi IHp]]].
  - split; [|split]; intros.
    + rewrite setopt_O. apply ext_set_oof, ext_refl.
    + rewrite init_defaults_O. apply ext_set_oof, ext_refl.
    + rewrite parse_internal_O. apply ext_set_oof, ext_refl.
  - split; [|split]; intros.
    + rewrite setopt_S. apply (so_body_ext strtod_o (init_defaults strtod_o fuel) IHi).
    + rewrite init_defaults_S. apply (id_loop_ext _ _ IHs IHp). apply ext_refl.
    + rewrite parse_internal_S.
      change (Ext3 w (pi_body (setopt strtod_o fuel) (parse_internal strtod_o fuel) fuel w c l p)).
      apply (pi_body_ext _ _ IHs IHp). apply ext_refl.
Qed.

(* what `freed` is in terms of the whole log *)
Lemma ext_freed w w' new : w_cbs w' = new ++ w_cbs w -> freed w w' = rev (cb_ids new).
Proof.
  intro E. apply freed_new. unfold flog, cb_ids. rewrite E. apply flat_map_app.
Qed.

Lemma setopt_ext sd fuel w c o txt : ext w (fst (fst (setopt sd fuel w c o txt))).
Proof. apply mutual_ext. Qed.
Lemma init_defaults_ext sd fuel w c : ext w (fst (init_defaults sd fuel w c)).
Proof. apply mutual_ext. Qed.
Lemma parse_internal_ext sd fuel w c l p : ext w (fst (fst (parse_internal sd fuel w c l p))).
Proof. apply mutual_ext. Qed.

Lemma cfg_free_ext w c : ext w (cfg_free w c).
Proof.
  unfold cfg_free. cbv zeta. destruct (str_eqb _ _); [apply ext_upd_lex|]; apply ext_log_frees, ext_refl.
Qed.

Lemma with_opt_ext w0 w c name f :
  ext w0 w -> (forall w1 r o, ext w1 (fst (fst (f w1 r o)))) -> ext w0 (fst (fst (with_opt w c name f))).
Proof.
  intros H Hf. unfold with_opt. destruct (cfg_getopt c name) as [ro ds].
  destruct ro as [r|]; [|unfold fst; ext_close H].
  destruct (get_opt c r) as [o|]; [|unfold fst; ext_close H].
  pose proof (Hf (add_diags w ds) r o) as H1.
  destruct (f (add_diags w ds) r o) as [[w1 o1] rc]. unfold fst in *.
  eapply ext_trans; [|exact H1]. ext_close H.
Qed.

Lemma opt_setn_ext w o k v index : ext w (fst (fst (opt_setn w o k v index))).
Proof.
  unfold opt_setn. destruct (negb _); [apply ext_refl|].
  destruct (opt_getval o index) as [[[o1 idx] fr]|]; unfold fst; [apply ext_log_frees|]; apply ext_refl.
Qed.

Lemma addlist_internal_ext vs : forall w0 w o, ext w0 w -> ext w0 (fst (addlist_internal w o vs)).
Proof.
  induction vs as [|v vs IH]; intros w0 w o H; [exact H|].
  rewrite addlist_internal_eq. cbn [fold_left].
  assert (H1 : ext w0 (fst (al_step (w, o) v))).
  { unfold al_step. cbv zeta. destruct (o_kind o); try exact H.
    all: match goal with |- context [opt_setn ?a ?b ?c ?d ?e] =>
           pose proof (opt_setn_ext a b c d e) as H2; destruct (opt_setn a b c d e) as [[? ?] ?] end;
         unfold fst in *; eapply ext_trans; eauto. }
  destruct (al_step (w, o) v) as [w1 o1]. rewrite <- addlist_internal_eq. apply IH. exact H1.
Qed.

Lemma sm_go_ext sd fuel c vs : forall w0 w o, ext w0 w -> ext w0 (fst (fst (sm_go sd fuel c vs w o))).
Proof.
  induction vs as [|v r IH]; intros w0 w o H; [exact H|].
  cbn [sm_go]. pose proof (setopt_ext sd fuel w c o v) as H1.
  destruct (setopt sd fuel w c o v) as [[w1 o1] res]. unfold fst in H1.
  destruct res; [apply IH|unfold fst]; eapply ext_trans; eauto.
Qed.

Lemma opt_setmulti_ext sd fuel w c o vals : ext w (fst (fst (opt_setmulti sd fuel w c o vals))).
Proof.
  rewrite opt_setmulti_eq. destruct vals as [|v0 vs]; [apply ext_refl|].
  pose proof (sm_go_ext sd fuel c (v0 :: vs) w w (set_vals (set_comment o None) []) (ext_refl w)) as H.
  destruct (sm_go sd fuel c (v0 :: vs) w (set_vals (set_comment o None) [])) as [[w1 o1] ok]. unfold fst in H.
  unfold sm_finish. cbv zeta. destruct ok; [unfold fst; ext_close H|].
  destruct (free_value o1) as [o2 fr]. unfold fst. ext_close H.
Qed.

Lemma opt_rmnsec_ext w o index : ext w (fst (fst (opt_rmnsec w o index))).
Proof.
  unfold opt_rmnsec. destruct (negb _); [apply ext_refl|]. cbv zeta.
  destruct (_ <=? _); [apply ext_refl|]. unfold fst.
  destruct (nth_error _ _); [apply ext_log_frees|]; apply ext_refl.
Qed.

Lemma wcbs_include_unwind n : forall w d, w_cbs (include_unwind n w d) = w_cbs w.
Proof.
  induction n as [|n IH]; intros w d; [reflexivity|].
  cbn [include_unwind]. destruct (l_inc (w_lex w)); [reflexivity|].
  destruct (Nat.ltb _ _); [|reflexivity]. rewrite IH. reflexivity.
Qed.

Lemma parse_fp_gen_ext sd fuel w0 w c content : ext w0 w -> ext w0 (fst (fst (parse_fp_gen sd fuel w c content))).
Proof.
  intro H. unfold parse_fp_gen. cbv zeta.
  match goal with |- context [parse_internal sd fuel ?w1 ?c2 0 (pst0 0 None)] =>
    pose proof (parse_internal_ext sd fuel w1 c2 0 (pst0 0 None)) as H2;
    destruct (parse_internal sd fuel w1 c2 0 (pst0 0 None)) as [[w2 c3] rc] end.
  unfold fst in *. apply ext_upd_lex. eapply ext_same; [|apply wcbs_include_unwind].
  eapply ext_trans; [|exact H2]. ext_close H.
Qed.

Lemma run_event_ext sd e w0 s : ext w0 (fst s) -> ext w0 (fst (run_event sd e s)).
Proof.
  intro H. destruct e; unfold run_event; cbv zeta.
  - apply parse_fp_gen_ext, H.
  - unfold parse_buf. destruct buf; [apply parse_fp_gen_ext|]; exact H.
  - unfold parse_file. destruct (match w_path (fst s) with [] => _ | _ => _ end); [|exact H].
    destruct (open_input _ _); [apply parse_fp_gen_ext|]; exact H.
  - apply with_opt_ext; [exact H|]. intros w1 r o.
    pose proof (ext_run_validcb2 w1 w1 o (V2Int z) (ext_refl w1)) as H1.
    destruct (run_validcb2 w1 o (V2Int z)) as [[w2 a] f]. unfold fst in H1.
    destruct f; [exact H1|]. eapply ext_trans; [exact H1|apply opt_setn_ext].
  - apply with_opt_ext; [exact H|]. intros w1 r o.
    pose proof (ext_run_validcb2 w1 w1 o (V2Float b) (ext_refl w1)) as H1.
    destruct (run_validcb2 w1 o (V2Float b)) as [[w2 a] f]. unfold fst in H1.
    destruct f; [exact H1|]. eapply ext_trans; [exact H1|apply opt_setn_ext].
  - apply with_opt_ext; [exact H|]. intros w1 r o. apply opt_setn_ext.
  - apply with_opt_ext; [exact H|]. intros w1 r o.
    pose proof (ext_run_validcb2 w1 w1 o (V2Str s0) (ext_refl w1)) as H1.
    destruct (run_validcb2 w1 o (V2Str s0)) as [[w2 a] f]. unfold fst in H1.
    destruct f; [exact H1|]. eapply ext_trans; [exact H1|apply opt_setn_ext].
  - apply with_opt_ext; [exact H|]. intros w1 r o.
    destruct (negb _); [apply ext_refl|]. destruct (free_value o) as [o1 fr].
    pose proof (addlist_internal_ext vs w1 (log_frees w1 fr) (o_setf o1 CFGF_MODIFIED) (ext_log_frees fr _ _ (ext_refl w1))) as H1.
    destruct (addlist_internal (log_frees w1 fr) (o_setf o1 CFGF_MODIFIED) vs) as [w2 o2]. exact H1.
  - apply with_opt_ext; [exact H|]. intros w1 r o.
    destruct (negb _); [apply ext_refl|].
    pose proof (addlist_internal_ext vs w1 w1 (o_clrf o CFGF_RESET) (ext_refl w1)) as H1.
    destruct (addlist_internal w1 (o_clrf o CFGF_RESET) vs) as [w2 o2]. exact H1.
  - apply with_opt_ext; [exact H|]. intros w1 r o. apply opt_setmulti_ext.
  - unfold cfg_setopt_cmd. destruct (cfg_getopt (snd s) name) as [ro ds].
    destruct ro as [r|]; [|unfold fst at 1 2; ext_close H].
    destruct (get_opt (snd s) r) as [o|]; [|unfold fst at 1 2; ext_close H].
    pose proof (setopt_ext sd fuel (add_diags (fst s) ds) (snd s) o v) as H1.
    destruct (setopt sd fuel (add_diags (fst s) ds) (snd s) o v) as [[w1 o1] res]. unfold fst at 1 2. unfold fst at 2 3 in H1.
    eapply ext_trans; [|exact H1]. ext_close H.
  - apply with_opt_ext; [exact H|]. intros w1 r o. destruct cm; apply ext_refl.
  - unfold cfg_addtsec. destruct (cfg_getopt (snd s) name) as [ro ds].
    match goal with |- context [if ?b then _ else _] => destruct b end; [unfold fst at 1 2; ext_close H|].
    destruct ro as [r|]; [|unfold fst at 1 2; ext_close H].
    destruct (get_opt (snd s) r) as [o|]; [|unfold fst at 1 2; ext_close H].
    destruct (negb _); [unfold fst at 1 2; ext_close H|].
    match goal with |- context [setopt sd fuel ?a ?b ?c ?d] =>
      pose proof (setopt_ext sd fuel a b c d) as H1; destruct (setopt sd fuel a b c d) as [[w1 o1] res] end.
    unfold fst at 2 3 in H1.
    assert (H2 : ext w0 w1) by (eapply ext_trans; [|exact H1]; ext_close H).
    destruct res as [idx|]; [|exact H2].
    destruct (nth_error (o_vals o1) idx) as [[| | | |[s1|]|]|]; unfold fst at 1 2; ext_close H2.
  - apply with_opt_ext; [exact H|]. intros w1 r o. apply opt_rmnsec_ext.
  - apply with_opt_ext; [exact H|]. intros w1 r o.
    destruct title; [|apply ext_refl]. destruct (negb _); [apply ext_refl|].
    destruct (gettsecidx o s0); [apply opt_rmnsec_ext|apply ext_refl].
  - unfold cfg_rmsec. cbv zeta.
    destruct (rs_opt _) as [r|]; [|unfold fst at 1 2; ext_close H].
    destruct (get_opt (snd s) r) as [o|]; [|unfold fst at 1 2; ext_close H].
    match goal with |- context [opt_rmnsec ?a ?b ?c] =>
      pose proof (opt_rmnsec_ext a b c) as H1; destruct (opt_rmnsec a b c) as [[w1 o1] rc] end.
    unfold fst at 1 2. unfold fst at 2 3 in H1. eapply ext_trans; [|exact H1]. ext_close H.
Qed.

Lemma run_ext sd es : forall w0 s, ext w0 (fst s) -> ext w0 (fst (run sd es s)).
Proof.
  induction es as [|e r IH]; intros w0 s H; [exact H|]. cbn [run]. apply IH, run_event_ext, H.
Qed.

Lemma cfg_init_ext sd fuel w decls flags : ext w (fst (cfg_init sd fuel w decls flags)).
Proof.
  unfold cfg_init.
  pose proof (init_defaults_ext sd fuel w (Cfg (M "root") None flags decls None 0 false None)) as H.
  destruct (init_defaults sd fuel w (Cfg (M "root") None flags decls None 0 false None)) as [w1 c1]. exact H.
Qed.

(* the callback log of a whole history extends the initial one; `freed` reads off the CbFree entries added *)
Lemma history_log (sd : str -> strtod_res) (fuel : nat) (w0 : pw) (decls : list opt) (flags : N) (es : list event) :
  let s1 := cfg_init sd fuel w0 decls flags in
  let sn := run sd es s1 in
  let wend := cfg_free (fst sn) (snd sn) in
  exists new, w_cbs wend = new ++ w_cbs w0 /\ freed w0 wend = rev (cb_ids new).
Proof.
  cbv zeta.
  assert (H : ext w0 (cfg_free (fst (run sd es (cfg_init sd fuel w0 decls flags))) (snd (run sd es (cfg_init sd fuel w0 decls flags))))).
  { eapply ext_trans; [|apply cfg_free_ext]. apply run_ext. apply cfg_init_ext. }
  destruct H as [new E]. exists new. split; [exact E|apply ext_freed; exact E].
Qed.

Lemma log_grows (sd : str -> strtod_res) (fuel : nat) (w : pw) (c : cfg) :
  (forall o txt, exists new, w_cbs (fst (fst (setopt sd fuel w c o txt))) = new ++ w_cbs w) /\
  (exists new, w_cbs (fst (init_defaults sd fuel w c)) = new ++ w_cbs w) /\
  (forall l p, exists new, w_cbs (fst (fst (parse_internal sd fuel w c l p))) = new ++ w_cbs w) /\
  (forall e, exists new, w_cbs (fst (run_event sd e (w, c))) = new ++ w_cbs w) /\
  (exists new, w_cbs (cfg_free w c) = new ++ w_cbs w).
Proof.
  split; [intros; apply setopt_ext|]. split; [apply init_defaults_ext|].
  split; [intros; apply parse_internal_ext|]. split; [|apply cfg_free_ext].
  intro e. apply (run_event_ext sd e w (w, c)). apply ext_refl.
Qed.
