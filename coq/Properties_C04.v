(* Properties_C04.v — C04: option values convert exactly as the numeral / boolean grammar says.
   Only statements here; proofs are in ConvProofs.v (MODEL: Conv.v, SPEC: ConvSpec.v). *)
From Coq Require String.
Import String.StringSyntax.
From Coq Require Import List Arith NArith ZArith Bool.
From Coq.Strings Require Import Byte.
From LC Require Import Bytes Conv Lexer ConvSpec ConvProofs.
Import ListNotations.
Local Open Scope string_scope.
Local Open Scope list_scope.

(* For every token that does not begin with white space (the lexer never produces one that does, and
   strtol would silently skip it), the integer conversion of cfg_setopt — radix guess, cfg_is_digits,
   strtol with its sign / 0x / octal rules, end-pointer and ERANGE checks — yields exactly what the
   numeral grammar says: the value if the token is a numeral within long, a range error if it is a
   numeral outside long, "invalid" otherwise. *)
Theorem C04_int_exact :
  forall t : str,
  (match t with c :: _ => is_space c = false | [] => True end) ->
  conv_int t = int_spec t.
Proof. exact conv_int_exact. Qed.
Print Assumptions C04_int_exact.

(* in particular on every token over the numeral alphabet [0-9a-fA-FxX+-.pP] *)
Theorem C04_int_alphabet :
  forall t, forallb numeral_alpha t = true -> conv_int t = int_spec t.
Proof. exact conv_int_alphabet. Qed.
Print Assumptions C04_int_alphabet.

(* nothing is accepted silently: an accepted value is the denotation of the token and fits a long *)
Theorem C04_int_no_silent :
  forall t z,
  (match t with c :: _ => is_space c = false | [] => True end) ->
  conv_int t = COk z -> int_numeral t = Some z /\ in_long z = true.
Proof. exact conv_int_no_silent. Qed.
Print Assumptions C04_int_no_silent.

(* the white-space hypothesis is necessary: strtol skips leading blanks, the grammar has none *)
Theorem C04_int_space_needed :
  conv_int (bs_of_string " 1") = COk 1%Z /\ int_spec (bs_of_string " 1") = CInvalid.
Proof. exact conv_int_space_counterexample. Qed.
Print Assumptions C04_int_space_needed.

(* cfg_parse_boolean accepts exactly the six words, in any letter case *)
Theorem C04_bool_exact : forall t, conv_bool t = bool_spec t.
Proof. exact conv_bool_exact. Qed.
Print Assumptions C04_bool_exact.

(* non-vacuity *)
Example C04_ex_hex : conv_int (bs_of_string "0x1F") = COk 31%Z.
Proof. vm_compute; reflexivity. Qed.
Example C04_ex_hex_empty : conv_int (bs_of_string "0x") = CInvalid.
Proof. vm_compute; reflexivity. Qed.
Example C04_ex_range : conv_int (bs_of_string "9223372036854775808") = CRange.
Proof. vm_compute; reflexivity. Qed.
Example C04_ex_neg_hex : conv_int (bs_of_string "-0x10") = COk (-16)%Z.
Proof. vm_compute; reflexivity. Qed.
Example C04_ex_min : conv_int (bs_of_string "-9223372036854775808") = COk LONG_MIN.
Proof. vm_compute; reflexivity. Qed.
Example C04_ex_bin : conv_int (bs_of_string "0b101") = COk 5%Z.
Proof. vm_compute; reflexivity. Qed.
Example C04_ex_octal : conv_int (bs_of_string "+010") = COk 8%Z /\ conv_int (bs_of_string "08") = CInvalid.
Proof. vm_compute; split; reflexivity. Qed.
Example C04_ex_spec : int_spec (bs_of_string "0x1F") = COk 31%Z /\ int_spec (bs_of_string "1e5") = CInvalid
  /\ int_spec (bs_of_string "-9223372036854775809") = CRange.
Proof. vm_compute; repeat split; reflexivity. Qed.
Example C04_ex_alpha : forallb numeral_alpha (bs_of_string "-0x1F.eP+") = true.
Proof. vm_compute; reflexivity. Qed.
Example C04_ex_bool :
  conv_bool (bs_of_string "YeS") = Some true /\ conv_bool (bs_of_string "oFF") = Some false
  /\ conv_bool (bs_of_string "1") = None.
Proof. vm_compute; repeat split; reflexivity. Qed.
