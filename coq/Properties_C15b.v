(* Properties_C15b.v — C15, first half, the LEXICAL step: inserting a comment of any style, or white space, after a
   delimiter never changes the tokens of a text (hence, with Properties_C15.C15_parser_transparent / the C01 refinement,
   neither whether it is accepted nor any resulting value).  Statements only; proofs are in
   LexComments.v (white space, the three comment forms), LexClasses.v (finite sweeps over the generated rule table) and
   LexCompose.v (composition at a delimiter).

   Vocabulary.
     lexL e s p                       one call of cfg_yylex from scanner state s at position p (canonical fuel).
     lex_all e fuel s p [] []         all tokens until end of input or error: (tokens, TEof|TErr, state, position, diagnostics).
     scan_begin lex_init t            a fresh scanner reading the text t.
     isws                             blank, TAB, LF, CR   (rules `[ \t]+`, `\n`, and `.` for CR: no token, LF counts a line).
     ctext c, cwf c                   the text of a comment form and its side condition:
                                        CHash body   = # body LF          body without LF
                                        CSlash body  = // body LF         body without LF
                                        CBlock body  = /* body */         body without the two bytes star-slash (nss)
                                      body may be empty; a CBlock body may contain LF, stars, slashes, end in stars.
     sealed a                         the condition on the text BEFORE the insertion point under which scanning composes:
                                        (1) the last byte of a is a delimiter: blank TAB LF CR { } ( ) = ,
                                        (2) every dollar-brace in a is followed by a closing brace (no_open_env)
                                        (3) there is no # and no // after the last LF of a (no_lc_tail).
                                      (2) and (3) are necessary: see the *_refuted theorems below.
     shift_tok n                      the same token, its line number increased by n. *)
From Coq Require String.
Import String.StringSyntax.
From Coq Require Import List Arith NArith ZArith Bool.
From Coq.Strings Require Import Byte.
From LC Require Import Bytes Consts Conv Flex LexAct Lexer LexSpec LexLemmas DqProofs SqProofs LexAll Files Store Parser Grammar
                       PP_Tok PP_Inv ParserProofs Properties_C01 Properties_C15 LexComments LexClasses LexCompose.
Import ListNotations.
Local Open Scope string_scope.
Local Open Scope list_scope.

(* ------------------------------------------------------------------------------------------------ *)
(* 1. white space is silent *)

(* one call of cfg_yylex: a run of white space in front of `rest` produces nothing; the call goes on with `rest`,
   the line counter advanced by the LF bytes of the run.  Any scanner state in INITIAL, any buffer stack. *)
Theorem C15_white_space_is_silent_yylex :
  forall (e : envt) (ws rest : str) (st : lexst) (p : pos) (id : nat) (others : list (nat * str)),
  Forall (fun c => isws c = true) ws -> l_sc st = INITIAL -> l_bufs st = (id, ws ++ rest) :: others ->
  lexL e st p = lexL e (set_bufs st ((id, rest) :: others)) (add_lines p (count_nl ws)).
Proof. exact ws_silent_lexL. Qed.
Print Assumptions C15_white_space_is_silent_yylex.

(* all tokens: the token list of `ws ++ rest` is the token list of `rest` scanned from the advanced position *)
Theorem C15_white_space_is_silent :
  forall (e : envt) (ws rest : str) (st : lexst) (p : pos) (id : nat) (others : list (nat * str))
         (fuel : nat) (acc : list ltok) (dacc : list diag),
  Forall (fun c => isws c = true) ws -> l_sc st = INITIAL -> l_bufs st = (id, ws ++ rest) :: others ->
  lex_all e (S fuel) st p acc dacc =
  lex_all e (S fuel) (set_bufs st ((id, rest) :: others)) (add_lines p (count_nl ws)) acc dacc.
Proof.
  intros e ws rest st p id others fuel acc dacc Hws Hsc Hb.
  exact (ws_silent_lex_all e ws rest st p id others (S fuel) acc dacc Hws Hsc Hb).
Qed.
Print Assumptions C15_white_space_is_silent.

(* the same on a fresh buffer, both scans started at the same position: same kinds and values, lines shifted *)
Theorem C15_white_space_tokens :
  forall (e : envt) (ws rest : str) (p : pos) (F : nat) (ts : list ltok) (x : tok) (s' : lexst) (p' : pos) (d : list diag),
  Forall (fun c => isws c = true) ws ->
  lex_all e (S F) (scan_begin lex_init rest) p [] [] = (ts, x, s', p', d) ->
  exists d', lex_all e (S F) (scan_begin lex_init (ws ++ rest)) p [] []
             = (map (shift_tok (count_nl ws)) ts, x, s', add_lines p' (count_nl ws), d').
Proof. exact ws_tokens. Qed.
Print Assumptions C15_white_space_tokens.

(* ------------------------------------------------------------------------------------------------ *)
(* 2. every comment form is exactly one TComment token *)

(* '#' body, then LF or the end of input: one call of cfg_yylex returns TComment with the trimmed text after the
   run of '#', stops in front of the LF, line counter unchanged.  (q_inv: the scratch buffer invariant.) *)
Theorem C15_hash_comment_yylex :
  forall (e : envt) (body rest : str) (st : lexst) (p : pos) (id : nat) (others : list (nat * str)),
  Forall (fun c => notnl c = true) body -> follows isnl rest ->
  l_sc st = INITIAL -> l_bufs st = (id, (hash :: body) ++ rest) :: others -> q_inv (l_q st) ->
  exists st', lexL e st p = mkres TComment (Some (trim_ws (cstr (drop_run hash (hash :: body))))) st' p [] 0
              /\ l_sc st' = INITIAL /\ l_bufs st' = (id, rest) :: others.
Proof.
  intros e body rest st p id others Hb Hf Hsc Hbuf Hq. eexists. split.
  - rewrite (hash_comment_token e body rest st p id others Hb Hf Hsc Hbuf), (qstr_val_inv hash _ _ Hq). reflexivity.
  - split; reflexivity.
Qed.
Print Assumptions C15_hash_comment_yylex.

Theorem C15_slash_comment_yylex :
  forall (e : envt) (body rest : str) (st : lexst) (p : pos) (id : nat) (others : list (nat * str)),
  Forall (fun c => notnl c = true) body -> follows isnl rest ->
  l_sc st = INITIAL -> l_bufs st = (id, (slash :: slash :: body) ++ rest) :: others -> q_inv (l_q st) ->
  exists st', lexL e st p = mkres TComment (Some (trim_ws (cstr (drop_run slash (slash :: slash :: body))))) st' p [] 0
              /\ l_sc st' = INITIAL /\ l_bufs st' = (id, rest) :: others.
Proof.
  intros e body rest st p id others Hb Hf Hsc Hbuf Hq. eexists. split.
  - rewrite (ss_comment_token e body rest st p id others Hb Hf Hsc Hbuf), (qstr_val_inv slash _ _ Hq). reflexivity.
  - split; reflexivity.
Qed.
Print Assumptions C15_slash_comment_yylex.

(* slash-star body star-slash: one call returns TComment (value: the trimmed scratch buffer, stated existentially),
   back in INITIAL in front of `rest`, the line counter advanced by the LF bytes of the body *)
Theorem C15_block_comment_yylex :
  forall (e : envt) (body rest : str) (st : lexst) (p : pos) (id : nat) (others : list (nat * str)),
  nss body = true -> l_sc st = INITIAL -> l_inc st = [] ->
  l_bufs st = (id, (slash :: star :: body ++ [star; slash]) ++ rest) :: others ->
  exists v st', lexL e st p = mkres TComment (Some v) st' (add_lines p (count_nl body)) [] 0
                /\ l_sc st' = INITIAL /\ l_bufs st' = (id, rest) :: others.
Proof.
  intros e body rest st p id others Hn Hsc Hi Hb.
  destruct (block_comment_token e body rest st p id others Hn Hsc Hi Hb) as (v & q' & H).
  exists v. eexists. split; [exact H|split; reflexivity].
Qed.
Print Assumptions C15_block_comment_yylex.

(* all three forms on the token list: in front of ANY text b (scanned to the end or to an error x), the text
   `ctext c ++ b` yields exactly ONE TComment token followed by the tokens of b *)
Theorem C15_comment_is_one_token :
  forall (e : envt) (c : cform) (b : str) (p : pos) (F : nat) (tb : list ltok) (x : tok) (sb : lexst) (pb : pos) (db : list diag),
  cwf c ->
  lex_all e (S F) (scan_begin lex_init b) (add_lines p (count_nl (ctext c))) [] [] = (tb, x, sb, pb, db) ->
  exists v s', cval_ok c v /\
    lex_all e (S (S F)) (scan_begin lex_init (ctext c ++ b)) p [] []
    = ({| lt_tok := TComment; lt_val := Some v; lt_line := (p_line p + cline c)%N |} :: tb, x, s', pb, db).
Proof. exact comment_one_token. Qed.
Print Assumptions C15_comment_is_one_token.

(* a one-line comment ended by the end of the input instead of LF: the comment token, then end of input, no error *)
Theorem C15_line_comment_at_eof :
  forall (e : envt) (body : str) (p : pos),
  Forall (fun x => notnl x = true) body ->
  (exists s', lex_all e 2 (scan_begin lex_init (hash :: body)) p [] []
              = ([cm_tok (trim_ws (cstr (drop_run hash (hash :: body)))) (p_line p)], TEof, s', p, []))
  /\ (exists s', lex_all e 2 (scan_begin lex_init (slash :: slash :: body)) p [] []
              = ([cm_tok (trim_ws (cstr (drop_run slash (slash :: slash :: body)))) (p_line p)], TEof, s', p, [])).
Proof. exact line_comment_at_eof. Qed.
Print Assumptions C15_line_comment_at_eof.

(* ------------------------------------------------------------------------------------------------ *)
(* 3. scanning composes at a sealed prefix *)

(* `a` sealed and scanned alone to the end of input; `b` ANY text, scanned alone from the position where the scan of
   `a` stopped, with whatever outcome x (end of input or error).  Then `a ++ b` yields the tokens of `a` followed by
   the tokens of `b`, same outcome, same final position, same diagnostics. *)
Theorem C15_lexing_composes :
  forall (e : envt) (a b : str) (p : pos) (fa : nat) (ta : list ltok) (sa : lexst) (pa : pos) (da : list diag)
         (F : nat) (tb : list ltok) (x : tok) (sb : lexst) (pb : pos) (db : list diag),
  sealed a ->
  lex_all e fa (scan_begin lex_init a) p [] [] = (ta, TEof, sa, pa, da) ->
  lex_all e (S F) (scan_begin lex_init b) pa [] [] = (tb, x, sb, pb, db) ->
  exists s', lex_all e (length ta + S F) (scan_begin lex_init (a ++ b)) p [] [] = (ta ++ tb, x, s', pb, da ++ db).
Proof. exact lexing_composes. Qed.
Print Assumptions C15_lexing_composes.

(* that position: same file, line advanced by the LF bytes of `a` *)
Theorem C15_scan_end_position :
  forall (e : envt) (a : str) (p : pos) (fa : nat) (ta : list ltok) (sa : lexst) (pa : pos) (da : list diag),
  sealed a -> lex_all e fa (scan_begin lex_init a) p [] [] = (ta, TEof, sa, pa, da) -> pa = add_lines p (count_nl a).
Proof. exact scan_end_pos. Qed.
Print Assumptions C15_scan_end_position.

(* for a text that ends in LF, condition (3) is vacuous *)
Theorem C15_sealed_newline : forall a' : str, no_open_env (a' ++ [nl]) -> sealed (a' ++ [nl]).
Proof. exact sealed_newline. Qed.
Print Assumptions C15_sealed_newline.

(* the munch-level fact behind it: for a sealed x, in every start condition, flex picks on `x ++ b` the match it picks
   on x; or x ends in a run of blanks that simply goes on into b; or (exclusive start conditions only) x is swallowed
   whole by a rule that stays in the start condition, so that the scan of x alone ends in "unterminated ..." *)
Theorem C15_munch_insensitive :
  forall (c0 : sc) (x : str), sealed x ->
  (forall b : str, munch (active_res c0) (x ++ b) 0 None = munch (active_res c0) x 0 None)
  \/ (c0 = INITIAL /\ munch (active_res c0) x 0 None = Some (bl_idx, length x) /\
      forall b : str, munch (active_res c0) (x ++ b) 0 None = Some (bl_idx, length x + length (take_while isbl b))%nat)
  \/ (c0 <> INITIAL /\ exists j r, munch (active_res c0) x 0 None = Some (j, length x) /\
      nth_error (active_rules c0) j = Some r /\ stays (r_act r) = true).
Proof. exact seal_cases. Qed.
Print Assumptions C15_munch_insensitive.

(* REFUTED without (2): a text ending in a blank, scanned alone without error, that does NOT compose *)
Definition P1 : pos := {| p_file := None; p_line := 1 |}.
Definition tk (t : str) :=
  let '(ts, x, _, _, _) := lex_all [] (S (length t)) (scan_begin lex_init t) P1 [] [] in (map (fun t => (lt_tok t, lt_val t)) ts, x).
Definition B := bs_of_string.

Theorem C15_compose_open_env_refuted :
  exists a b : str, ends_D a /\ snd (tk a) = TEof /\ snd (tk b) = TEof /\ tk (a ++ b) <> (fst (tk a) ++ fst (tk b), TEof).
Proof.
  exists (B "${x "), (B "}"). split; [apply isD_last_sound; vm_compute; reflexivity|].
  split; [vm_compute; reflexivity|]. split; [vm_compute; reflexivity|]. vm_compute. discriminate.
Qed.
Print Assumptions C15_compose_open_env_refuted.
(* REFUTED without (3): the blank after "# c" is inside the one-line comment *)
Theorem C15_compose_line_comment_refuted :
  exists a b : str, ends_D a /\ snd (tk a) = TEof /\ snd (tk b) = TEof /\ tk (a ++ b) <> (fst (tk a) ++ fst (tk b), TEof).
Proof.
  exists (B "# c "), (B "x"). split; [apply isD_last_sound; vm_compute; reflexivity|].
  split; [vm_compute; reflexivity|]. split; [vm_compute; reflexivity|]. vm_compute. discriminate.
Qed.
Print Assumptions C15_compose_line_comment_refuted.
(* REFUTED for a last byte outside the delimiter set: '+' (because of "+="), and an unquoted word: a comment written
   directly after a word, without a blank, is NOT a comment: x/**/=1 scans as the words "x/" and "/", then = and 1;
   x//c is one word *)
Theorem C15_compose_plus_refuted : tk (B "+" ++ B "=") <> (fst (tk (B "+")) ++ fst (tk (B "=")), TEof).
Proof. vm_compute. discriminate. Qed.
Print Assumptions C15_compose_plus_refuted.
Theorem C15_adjacent_comment_refuted :
  tk (B "x=1") = ([(TStr, Some (B "x")); (TPunct 61, Some (B "=")); (TStr, Some (B "1"))], TEof) /\
  tk (B "x/**/=1") = ([(TStr, Some (B "x/")); (TStr, Some (B "/")); (TPunct 61, Some (B "=")); (TStr, Some (B "1"))], TEof) /\
  tk (B "x//c") = ([(TStr, Some (B "x//c"))], TEof).
Proof. vm_compute. repeat split; reflexivity. Qed.
Print Assumptions C15_adjacent_comment_refuted.

(* ------------------------------------------------------------------------------------------------ *)
(* 4. inserting a comment or white space after a sealed prefix: the token lists *)

Theorem C15_insert_comment_tokens :
  forall (e : envt) (a : str) (c : cform) (b : str) (p : pos) (fa : nat) (ta : list ltok) (sa : lexst) (pa : pos) (da : list diag)
         (F : nat) (tb : list ltok) (x : tok) (sb : lexst) (pb : pos) (db : list diag),
  sealed a -> cwf c ->
  lex_all e fa (scan_begin lex_init a) p [] [] = (ta, TEof, sa, pa, da) ->
  lex_all e (S F) (scan_begin lex_init b) pa [] [] = (tb, x, sb, pb, db) ->
  exists v s' db', cval_ok c v /\
    lex_all e (length ta + S (S F)) (scan_begin lex_init (a ++ ctext c ++ b)) p [] [] =
    (ta ++ cm_tok v (p_line pa + cline c) :: map (shift_tok (count_nl (ctext c))) tb,
     x, s', add_lines pb (count_nl (ctext c)), da ++ db').
Proof. exact insert_comment_tokens. Qed.
Print Assumptions C15_insert_comment_tokens.

Theorem C15_insert_ws_tokens :
  forall (e : envt) (a ws b : str) (p : pos) (fa : nat) (ta : list ltok) (sa : lexst) (pa : pos) (da : list diag)
         (F : nat) (tb : list ltok) (x : tok) (sb : lexst) (pb : pos) (db : list diag),
  sealed a -> Forall (fun c => isws c = true) ws ->
  lex_all e fa (scan_begin lex_init a) p [] [] = (ta, TEof, sa, pa, da) ->
  lex_all e (S F) (scan_begin lex_init b) pa [] [] = (tb, x, sb, pb, db) ->
  exists s' db',
    lex_all e (length ta + S F) (scan_begin lex_init (a ++ ws ++ b)) p [] [] =
    (ta ++ map (shift_tok (count_nl ws)) tb, x, s', add_lines pb (count_nl ws), da ++ db').
Proof. exact insert_ws_tokens. Qed.
Print Assumptions C15_insert_ws_tokens.

(* ------------------------------------------------------------------------------------------------ *)
(* 5. the TEXTS: `a ++ b` and `a ++ comment ++ b` (resp. `a ++ white space ++ b`) are accepted or rejected alike by
   cfg_parse_buf and, when accepted, leave observably equal trees (obs_c forgets annotations, so this holds with
   annotation support on or off).  Hypotheses as in C15_parser_transparent: a ready world, a schema tree in Inv,
   enough fuel, no lexical error (a and b scan to the end of input), texts without NUL. *)
Theorem C15_text_transparent :
  forall (strtod_o : str -> strtod_res) (DC k : nat) (w : pw) (c : cfg) (a : str) (cm : cform) (b : str)
         (p : pos) (fa : nat) (ta : list ltok) (sa : lexst) (pa : pos) (da : list diag)
         (F : nat) (tb : list ltok) (sb : lexst) (pb : pos) (db : list diag) (fuel : nat),
  wready w -> Inv strtod_o (w_env w) DC k c ->
  sealed a -> cwf cm -> no_nul (a ++ ctext cm ++ b) ->
  lex_all (w_env w) fa (scan_begin lex_init a) p [] [] = (ta, TEof, sa, pa, da) ->
  lex_all (w_env w) (S F) (scan_begin lex_init b) pa [] [] = (tb, TEof, sb, pb, db) ->
  length (a ++ ctext cm ++ b) + measure (w_lex w) + S (length ta + length tb) + 2 * k + 4 + DC < fuel ->
  let '(w1, c1, rc1) := parse_buf strtod_o fuel w c (Some (a ++ b)) in
  let '(w2, c2, rc2) := parse_buf strtod_o fuel w c (Some (a ++ ctext cm ++ b)) in
  rc1 = rc2 /\ (rc1 = CFG_SUCCESS -> obs_c c1 = obs_c c2).
Proof. exact text_transparent_comment. Qed.
Print Assumptions C15_text_transparent.

Theorem C15_text_transparent_ws :
  forall (strtod_o : str -> strtod_res) (DC k : nat) (w : pw) (c : cfg) (a ws b : str)
         (p : pos) (fa : nat) (ta : list ltok) (sa : lexst) (pa : pos) (da : list diag)
         (F : nat) (tb : list ltok) (sb : lexst) (pb : pos) (db : list diag) (fuel : nat),
  wready w -> Inv strtod_o (w_env w) DC k c ->
  sealed a -> Forall (fun x => isws x = true) ws -> no_nul (a ++ b) ->
  lex_all (w_env w) fa (scan_begin lex_init a) p [] [] = (ta, TEof, sa, pa, da) ->
  lex_all (w_env w) (S F) (scan_begin lex_init b) pa [] [] = (tb, TEof, sb, pb, db) ->
  length (a ++ ws ++ b) + measure (w_lex w) + (length ta + length tb) + 2 * k + 4 + DC < fuel ->
  let '(w1, c1, rc1) := parse_buf strtod_o fuel w c (Some (a ++ b)) in
  let '(w2, c2, rc2) := parse_buf strtod_o fuel w c (Some (a ++ ws ++ b)) in
  rc1 = rc2 /\ (rc1 = CFG_SUCCESS -> obs_c c1 = obs_c c2).
Proof. exact text_transparent_ws. Qed.
Print Assumptions C15_text_transparent_ws.

(* ------------------------------------------------------------------------------------------------ *)
(* non-vacuity: the hypotheses hold on concrete texts (schema, world and oracle of Properties_C01.Ex) *)
Module Ex15.
Definition a : str := B "x = 5  l += 4 # old
  s { ".
Definition b : str := B "a = 10 in { z = 3 } }  name = 'n'".
Definition cm1 : cform := CBlock (B " two
 * lines **").
Definition cm2 : cform := CHash (B "## x = 6").
Definition cm3 : cform := CSlash [].
Definition cm4 : cform := CBlock [].
Definition ws : str := B "
 ".
Definition la := lex_all [] 100 (scan_begin lex_init a) P1 [] [].
Definition ta := let '(ts, _, _, _, _) := la in ts.
Definition pa := let '(_, _, _, p, _) := la in p.
Definition lb := lex_all [] 100 (scan_begin lex_init b) pa [] [].
Definition tb := let '(ts, _, _, _, _) := lb in ts.

Example C15b_hypotheses_hold :
  sealed a /\ cwf cm1 /\ cwf cm2 /\ cwf cm3 /\ cwf cm4 /\ Forall (fun x => isws x = true) ws /\
  no_nul (a ++ ctext cm1 ++ b) /\
  (exists sa da, lex_all [] 100 (scan_begin lex_init a) P1 [] [] = (ta, TEof, sa, pa, da)) /\
  (exists sb pb db, lex_all [] 100 (scan_begin lex_init b) pa [] [] = (tb, TEof, sb, pb, db)) /\
  length ta = 9 /\ length tb = 13 /\ p_line pa = 2%N.
Proof.
  split; [apply sealed_b_sound; vm_compute; reflexivity|].
  split; [vm_compute; reflexivity|]. split; [repeat constructor|]. split; [constructor|]. split; [reflexivity|].
  split; [repeat constructor|].
  split; [unfold no_nul; apply Forall_forall; intros c Hc E; subst c; revert Hc; vm_compute; intuition discriminate|].
  split; [vm_compute; do 2 eexists; reflexivity|]. split; [vm_compute; do 3 eexists; reflexivity|].
  vm_compute. repeat split; reflexivity.
Qed.

(* what the theorems then say, checked by computation: one more token, same grammar tokens, lines shifted by 1
   (the closing rule `[ \t]*"*"+"/"` swallows the blank and the stars in front of the final slash) *)
Example C15b_tokens_computed :
  let '(t0, x0, _, _, _) := lex_all [] 100 (scan_begin lex_init (a ++ b)) P1 [] [] in
  let '(t1, x1, _, _, _) := lex_all [] 100 (scan_begin lex_init (a ++ ctext cm1 ++ b)) P1 [] [] in
  t0 = ta ++ tb /\ x0 = TEof /\ x1 = TEof /\
  t1 = ta ++ cm_tok (B "two
 * lines") 3 :: map (shift_tok 1) tb.
Proof. vm_compute. repeat split; reflexivity. Qed.

Example C15b_parse_computed :
  wready Ex.w0 /\ Inv Ex.sd (w_env Ex.w0) 30 3 Ex.c0 /\
  let '(_, c1, rc1) := parse_buf Ex.sd 1000 Ex.w0 Ex.c0 (Some (a ++ b)) in
  let '(_, c2, rc2) := parse_buf Ex.sd 1000 Ex.w0 Ex.c0 (Some (a ++ ctext cm1 ++ b)) in
  let '(_, c3, rc3) := parse_buf Ex.sd 1000 Ex.w0 Ex.c0 (Some (a ++ ws ++ b)) in
  rc1 = CFG_SUCCESS /\ rc2 = CFG_SUCCESS /\ rc3 = CFG_SUCCESS /\ obs_c c1 = obs_c c2 /\ obs_c c1 = obs_c c3.
Proof.
  destruct Ex.C01_hypotheses_hold as (H1 & H2 & _). split; [exact H1|]. split; [exact H2|].
  vm_compute. repeat split; reflexivity.
Qed.
End Ex15.
