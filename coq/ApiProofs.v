(* ApiProofs.v — lemmas about cfg_setopt (Parser.v) and the setter / list / section API (Api.v)
   for C09 (typed store) and C10 (a rejected update leaves the option as it was). *)
From Coq Require String.
Import String.StringSyntax.
From Coq Require Import List Arith NArith ZArith Bool Lia.
From Coq.Strings Require Import Byte.
From LC Require Import Bytes Consts Conv Lexer Files Store Parser Api HdrProofs.
Import ListNotations.
Local Open Scope string_scope.
Local Open Scope list_scope.

(* ================================================================== *)
(* cfg_setopt, one level, with cfg_init_defaults abstracted            *)
(* ================================================================== *)

Definition so_reset (w : pw) (o : opt) : pw * opt :=
  if oflag o CFGF_RESET
  then let '(x, fr) := free_value o in (log_frees w fr, o_clrf x CFGF_RESET) else (w, o).

Definition so_look (c : cfg) (txt : option str) : list value -> nat -> option nat + unit :=
  fix look (vals : list value) (i : nat) : option nat + unit :=
  match vals with
  | [] => inl None
  | VSec (Some s) :: r =>
      match c_title s, txt with
      | Some t, Some v => if name_eqb (cflag c CFGF_NOCASE) v t then inl (Some i) else look r (S i)
      | _, _ => inr tt
      end
  | _ :: _ => inr tt
  end.

Definition so_slot (c : cfg) (w0 : pw) (o0 : opt) (txt : option str) : option (pw * opt * nat) :=
  let n := length (o_vals o0) in
  if Nat.eqb n 0 || oflag o0 CFGF_MULTI || oflag o0 CFGF_LIST then
    if kind_eqb (o_kind o0) KSec && oflag o0 CFGF_TITLE then
      if negb (Nat.eqb n 0) && match txt with None => true | Some _ => false end then None
      else
        match so_look c txt (o_vals o0) 0%nat with
        | inr _ => Some (set_crash w0 "null-deref:cfg_setopt:title", addval o0, n)
        | inl (Some i) => if oflag o0 CFGF_NO_TITLE_DUPES then None else Some (w0, o0, i)
        | inl None => Some (w0, addval o0, n)
        end
    else Some (w0, addval o0, n)
  else Some (w0, o0, 0%nat).

Definition so_store (o1 : opt) (idx : nat) (w : pw) (v : value) : pw * opt * option nat :=
  (w, o_setf (set_vals o1 (upd_nth (o_vals o1) idx (fun _ => v))) CFGF_MODIFIED, Some idx).

Definition so_conv (strtod_o : str -> strtod_res) (initd : pw -> cfg -> pw * cfg)
           (c : cfg) (w1 : pw) (o1 : opt) (idx : nat) (txt : option str) : pw * opt * option nat :=
  let store := so_store o1 idx in
  match o_kind o1 with
  | KInt =>
      match cb_parse (o_cbs o1) with
      | Some k => let '(w2, f) := run_parsecb w1 k o1 txt in
                  if f then (w2, o1, None) else store w2 (VInt (Z.of_nat (strlen_opt txt) + Z.of_N k))
      | None =>
          match txt with
          | None => (w1, o1, None)
          | Some v =>
              match conv_int v with
              | COk z => store w1 (VInt z)
              | CInvalid => (add_diags w1 (cfg_diag c "invalid integer value for option '%s'"), o1, None)
              | CRange => (add_diags w1 (cfg_diag c "integer value for option '%s' is out of range"), o1, None)
              end
          end
      end
  | KFloat =>
      match cb_parse (o_cbs o1) with
      | Some k => let '(w2, f) := run_parsecb w1 k o1 txt in
                  if f then (w2, o1, None)
                  else store w2 (VFloat (double_of_N (N.of_nat (strlen_opt txt) + k)))
      | None =>
          match txt with
          | None => (w1, o1, None)
          | Some v =>
              match conv_float strtod_o v with
              | COk b => store w1 (VFloat b)
              | CInvalid => (add_diags w1 (cfg_diag c "invalid floating point value for option '%s'"), o1, None)
              | CRange => (add_diags w1 (cfg_diag c "floating point value for option '%s' is out of range"), o1, None)
              end
          end
      end
  | KStr =>
      match cb_parse (o_cbs o1) with
      | Some k => let '(w2, f) := run_parsecb w1 k o1 txt in
                  if f then (w2, o1, None) else store w2 (VStr (Some (rev (sval txt))))
      | None =>
          match txt with
          | None => (w1, o1, None)
          | Some v => store w1 (VStr (Some v))
          end
      end
  | KBool =>
      match cb_parse (o_cbs o1) with
      | Some k => let '(w2, f) := run_parsecb w1 k o1 txt in
                  if f then (w2, o1, None) else store w2 (VBool (Nat.odd (strlen_opt txt)))
      | None =>
          match txt with
          | None => (add_diags w1 (cfg_diag c "invalid boolean value for option '%s'"), o1, None)
          | Some v =>
              match conv_bool v with
              | Some b => store w1 (VBool b)
              | None => (add_diags w1 (cfg_diag c "invalid boolean value for option '%s'"), o1, None)
              end
          end
      end
  | KPtr =>
      match cb_parse (o_cbs o1) with
      | None => (add_diags w1 (cfg_diag c "no value parser for option '%s'"), o1, None)
      | Some k =>
          let '(w2, f) := run_parsecb w1 k o1 txt in
          if f then (w2, o1, None)
          else
            let id := w_nextptr w2 in
            let w3 := set_nextptr w2 (id + 1)%N in
            let w4 := match nth_error (o_vals o1) idx with
                      | Some (VPtr old) => if cb_free (o_cbs o1) && negb (old =? 0)%N then add_cb w3 (CbFree old) else w3
                      | _ => w3 end in
            store w4 (VPtr id)
      end
  | KSec =>
      let existing := match nth_error (o_vals o1) idx with Some (VSec (Some s)) => Some s | _ => None end in
      let '(w3, sec') :=
        if oflag o1 CFGF_MULTI || match existing with None => true | Some _ => false end then
          let w' := match existing with Some s => log_frees w1 (frees_c s) | None => w1 end in
          initd w'
            (Cfg (o_name o1) txt
                 (if oflag o1 CFGF_KEYSTRVAL then setf (c_flags c) CFGF_KEYSTRVAL else c_flags c)
                 (o_sub o1) (c_file c) (c_line c) (c_err c) None)
        else (w1, match existing with Some s => s | None => Cfg [] None 0 [] None 0 false None end) in
      store w3 (VSec (Some sec'))
  | _ => (add_diags w1 (cfg_diag c "internal error in cfg_setopt(%s, %s)"), o1, None)
  end.

Definition so_body (strtod_o : str -> strtod_res) (initd : pw -> cfg -> pw * cfg)
           (w : pw) (c : cfg) (o : opt) (txt : option str) : pw * opt * option nat :=
  let '(w0, o0) := so_reset w o in
  match so_slot c w0 o0 txt with
  | None =>
      let dup := kind_eqb (o_kind o0) KSec && oflag o0 CFGF_TITLE && oflag o0 CFGF_NO_TITLE_DUPES
                 && match txt with Some _ => true | None => false end in
      ((if dup then add_diags w0 (cfg_diag c "found duplicate title '%s'") else w0), o0, None)
  | Some (w1, o1, idx) => so_conv strtod_o initd c w1 o1 idx txt
  end.

(* the ONE unfolding equation of the mutual fixpoint *)
Lemma setopt_S strtod_o fuel w c o txt :
  setopt strtod_o (S fuel) w c o txt = so_body strtod_o (init_defaults strtod_o fuel) w c o txt.
Proof. reflexivity. Qed.

Lemma setopt_O strtod_o w c o txt : setopt strtod_o 0 w c o txt = (set_oof w, o, None).
Proof. reflexivity. Qed.

(* ================================================================== *)
(* bit algebra on the flag word                                         *)
(* ================================================================== *)

Definition RM : N := N.lor CFGF_RESET CFGF_MODIFIED.

Lemma ldiff_lor_sub f m k : N.ldiff m k = 0%N -> N.ldiff (N.lor f m) k = N.ldiff f k.
Proof.
  intro H. apply N.bits_inj; intro n.
  assert (Hn := f_equal (fun x => N.testbit x n) H). cbv beta in Hn.
  rewrite N.ldiff_spec, N.bits_0 in Hn.
  rewrite !N.ldiff_spec, N.lor_spec.
  destruct (N.testbit f n), (N.testbit m n), (N.testbit k n); try reflexivity; discriminate.
Qed.

Lemma ldiff_ldiff_sub f m k : N.ldiff m k = 0%N -> N.ldiff (N.ldiff f m) k = N.ldiff f k.
Proof.
  intro H. apply N.bits_inj; intro n.
  assert (Hn := f_equal (fun x => N.testbit x n) H). cbv beta in Hn.
  rewrite N.ldiff_spec, N.bits_0 in Hn.
  rewrite !N.ldiff_spec.
  destruct (N.testbit f n), (N.testbit m n), (N.testbit k n); try reflexivity; discriminate.
Qed.

(* what the revert branch of cfg_opt_setmulti computes *)
Lemma flags_restore f f' :
  N.ldiff f' RM = N.ldiff f RM ->
  N.lor (clrf (clrf f' CFGF_RESET) CFGF_MODIFIED) (N.land f (N.lor CFGF_RESET CFGF_MODIFIED)) = f.
Proof.
  intro H. unfold clrf. rewrite N.ldiff_ldiff_l. fold RM. rewrite H.
  apply N.bits_inj; intro n. rewrite N.lor_spec, N.ldiff_spec, N.land_spec.
  destruct (N.testbit f n), (N.testbit RM n); reflexivity.
Qed.

(* a mask disjoint from m is not affected by setting / clearing m *)
Lemma has_lor_disj f m k : N.land m k = 0%N -> has (N.lor f m) k = has f k.
Proof.
  intro H. unfold has. f_equal. f_equal.
  apply N.bits_inj; intro n.
  assert (Hn := f_equal (fun x => N.testbit x n) H). cbv beta in Hn.
  rewrite N.land_spec, N.bits_0 in Hn.
  rewrite !N.land_spec, N.lor_spec.
  destruct (N.testbit f n), (N.testbit m n), (N.testbit k n); try reflexivity; discriminate.
Qed.

Lemma has_ldiff_disj f m k : N.land m k = 0%N -> has (N.ldiff f m) k = has f k.
Proof.
  intro H. unfold has. f_equal. f_equal.
  apply N.bits_inj; intro n.
  assert (Hn := f_equal (fun x => N.testbit x n) H). cbv beta in Hn.
  rewrite N.land_spec, N.bits_0 in Hn.
  rewrite !N.land_spec, N.ldiff_spec.
  destruct (N.testbit f n), (N.testbit m n), (N.testbit k n); try reflexivity; discriminate.
Qed.

(* single-bit masks *)
Lemma has_pow2 f b : has f (2 ^ b) = N.testbit f b.
Proof.
  unfold has.
  destruct (N.testbit f b) eqn:T.
  - destruct (N.eqb_spec (N.land f (2 ^ b)) 0) as [E|]; [|reflexivity].
    assert (Hn := f_equal (fun x => N.testbit x b) E). cbv beta in Hn.
    rewrite N.land_spec, N.bits_0, T, N.pow2_bits_true in Hn. discriminate.
  - destruct (N.eqb_spec (N.land f (2 ^ b)) 0) as [|NE]; [reflexivity|].
    exfalso. apply NE. apply N.bits_inj; intro n.
    rewrite N.land_spec, N.bits_0.
    destruct (N.eq_dec b n) as [->|D].
    + rewrite T. reflexivity.
    + rewrite (N.pow2_bits_false _ _ D). apply andb_false_r.
Qed.

Lemma has_setf_same f b : has (setf f (2 ^ b)) (2 ^ b) = true.
Proof. rewrite has_pow2. unfold setf. rewrite N.lor_spec, N.pow2_bits_true. apply orb_true_r. Qed.

Lemma has_clrf_same f b : has (clrf f (2 ^ b)) (2 ^ b) = false.
Proof. rewrite has_pow2. unfold clrf. rewrite N.ldiff_spec, N.pow2_bits_true. apply andb_false_r. Qed.

(* ================================================================== *)
(* the frame of cfg_setopt on the option record                         *)
(* ================================================================== *)

Record frame (o o' : opt) : Prop := {
  fr_name : o_name o' = o_name o;
  fr_kind : o_kind o' = o_kind o;
  fr_sub : o_sub o' = o_sub o;
  fr_def : o_def o' = o_def o;
  fr_cbs : o_cbs o' = o_cbs o;
  fr_flags : N.ldiff (o_flags o') RM = N.ldiff (o_flags o) RM;
  fr_comment : o_comment o = None -> o_comment o' = None
}.

Lemma frame_refl o : frame o o.
Proof. constructor; auto. Qed.

Lemma frame_trans a b c : frame a b -> frame b c -> frame a c.
Proof.
  intros [] []. constructor; try congruence. auto.
Qed.

Lemma frame_set_vals o v : frame o (set_vals o v).
Proof. destruct o; constructor; auto. Qed.

Lemma frame_set_comment_none o : frame o (set_comment o None).
Proof. destruct o; constructor; auto. Qed.

Lemma frame_clrf_reset o : frame o (o_clrf o CFGF_RESET).
Proof.
  destruct o; constructor; auto. unfold o_clrf, set_flags, o_flags, clrf.
  apply ldiff_ldiff_sub. reflexivity.
Qed.

Lemma frame_setf_modified o : frame o (o_setf o CFGF_MODIFIED).
Proof.
  destruct o; constructor; auto. unfold o_setf, set_flags, o_flags, setf.
  apply ldiff_lor_sub. reflexivity.
Qed.

Lemma frame_free_value o : frame o (fst (free_value o)).
Proof.
  unfold free_value. cbv beta zeta. unfold fst.
  eapply frame_trans; [|apply frame_set_vals].
  destruct (match o_comment o with Some _ => negb (oflag o CFGF_RESET) | None => false end).
  - apply frame_set_comment_none.
  - apply frame_refl.
Qed.

Lemma frame_addval o : frame o (addval o).
Proof.
  unfold addval. eapply frame_trans; [apply frame_set_vals|apply frame_setf_modified].
Qed.

Lemma frame_so_reset w o : frame o (snd (so_reset w o)).
Proof.
  unfold so_reset. destruct (oflag o CFGF_RESET); [|apply frame_refl].
  pose proof (frame_free_value o) as H. destruct (free_value o) as [x fr]. unfold fst in H. unfold snd.
  eapply frame_trans; [exact H|apply frame_clrf_reset].
Qed.

Lemma so_look_bound c txt vals i j :
  so_look c txt vals i = inl (Some j) -> i <= j < i + length vals.
Proof.
  revert i. induction vals as [|v r IH]; intros i H.
  - discriminate.
  - cbn [so_look] in H. cbn [length].
    destruct v as [| | | |[s|]|]; try discriminate.
    destruct (c_title s); try discriminate. destruct txt; try discriminate.
    destruct (name_eqb (cflag c CFGF_NOCASE) s1 s0).
    + injection H as <-. lia.
    + apply IH in H. lia.
Qed.

(* the slot chosen is an existing one of the option, or one zero slot appended *)
Lemma so_slot_cases c w0 o0 txt w1 o1 idx :
  so_slot c w0 o0 txt = Some (w1, o1, idx) ->
  (o1 = o0 /\ idx < length (o_vals o0)) \/ (o1 = addval o0 /\ idx = length (o_vals o0)).
Proof.
  unfold so_slot. cbv zeta.
  destruct (Nat.eqb (length (o_vals o0)) 0 || oflag o0 CFGF_MULTI || oflag o0 CFGF_LIST) eqn:E1.
  - destruct (kind_eqb (o_kind o0) KSec && oflag o0 CFGF_TITLE).
    + destruct (negb (Nat.eqb (length (o_vals o0)) 0) && match txt with None => true | Some _ => false end); [discriminate|].
      destruct (so_look c txt (o_vals o0) 0) as [[j|]|] eqn:L.
      * destruct (oflag o0 CFGF_NO_TITLE_DUPES); [discriminate|].
        intro H; injection H as <- <- <-. left. split; auto. apply so_look_bound in L. lia.
      * intro H; injection H as <- <- <-. right; auto.
      * intro H; injection H as <- <- <-. right; auto.
    + intro H; injection H as <- <- <-. right; auto.
  - intro H; injection H as <- <- <-. left. split; auto.
    apply orb_false_iff in E1. destruct E1 as [E1 _]. apply orb_false_iff in E1. destruct E1 as [E1 _].
    apply Nat.eqb_neq in E1. lia.
Qed.

Lemma so_slot_frame c w0 o0 txt w1 o1 idx :
  so_slot c w0 o0 txt = Some (w1, o1, idx) -> frame o0 o1.
Proof.
  intro H. apply so_slot_cases in H. destruct H as [[-> _]|[-> _]].
  - apply frame_refl.
  - apply frame_addval.
Qed.

(* the conversion step either refuses and leaves the option alone, or stores exactly one value *)
Lemma so_conv_cases strtod_o initd c w1 o1 idx txt :
  (exists w', so_conv strtod_o initd c w1 o1 idx txt = (w', o1, None)) \/
  (exists w' v, so_conv strtod_o initd c w1 o1 idx txt = so_store o1 idx w' v).
Proof.
  unfold so_conv. cbv zeta.
  destruct (o_kind o1).
  - left; eexists; reflexivity.
  - destruct (cb_parse (o_cbs o1)).
    + destruct (run_parsecb w1 n o1 txt) as [w2 f]. destruct f; [left|right]; repeat eexists.
    + destruct txt; [|left; eexists; reflexivity].
      destruct (conv_int s); [right|left|left]; repeat eexists.
  - destruct (cb_parse (o_cbs o1)).
    + destruct (run_parsecb w1 n o1 txt) as [w2 f]. destruct f; [left|right]; repeat eexists.
    + destruct txt; [|left; eexists; reflexivity].
      destruct (conv_float strtod_o s); [right|left|left]; repeat eexists.
  - destruct (cb_parse (o_cbs o1)).
    + destruct (run_parsecb w1 n o1 txt) as [w2 f]. destruct f; [left|right]; repeat eexists.
    + destruct txt; [right|left]; repeat eexists.
  - destruct (cb_parse (o_cbs o1)).
    + destruct (run_parsecb w1 n o1 txt) as [w2 f]. destruct f; [left|right]; repeat eexists.
    + destruct txt; [|left; eexists; reflexivity].
      destruct (conv_bool s); [right|left]; repeat eexists.
  - right.
    destruct (oflag o1 CFGF_MULTI || _).
    + destruct (initd _ _) as [w3 sec']. repeat eexists.
    + repeat eexists.
  - left; eexists; reflexivity.
  - destruct (cb_parse (o_cbs o1)); [|left; eexists; reflexivity].
    destruct (run_parsecb w1 n o1 txt) as [w2 f]. destruct f; [left|right]; repeat eexists.
Qed.

Lemma frame_so_store o1 idx w v : frame o1 (snd (fst (so_store o1 idx w v))).
Proof.
  unfold so_store, fst, snd. eapply frame_trans; [apply frame_set_vals|apply frame_setf_modified].
Qed.

Lemma so_conv_frame strtod_o initd c w1 o1 idx txt :
  frame o1 (snd (fst (so_conv strtod_o initd c w1 o1 idx txt))).
Proof.
  destruct (so_conv_cases strtod_o initd c w1 o1 idx txt) as [[w' ->]|[w' [v ->]]].
  - apply frame_refl.
  - apply frame_so_store.
Qed.

Lemma so_body_frame strtod_o initd w c o txt :
  frame o (snd (fst (so_body strtod_o initd w c o txt))).
Proof.
  unfold so_body.
  pose proof (frame_so_reset w o) as H0. destruct (so_reset w o) as [w0 o0]. unfold snd in H0.
  destruct (so_slot c w0 o0 txt) as [[[w1 o1] idx]|] eqn:S.
  - eapply frame_trans; [exact H0|]. eapply frame_trans; [eapply so_slot_frame; exact S|].
    apply so_conv_frame.
  - exact H0.
Qed.

(* cfg_setopt changes only the values, the RESET and MODIFIED bits, and can only drop the annotation *)
Lemma setopt_frame strtod_o fuel w c o txt :
  frame o (snd (fst (setopt strtod_o fuel w c o txt))).
Proof.
  destruct fuel.
  - rewrite setopt_O. apply frame_refl.
  - rewrite setopt_S. apply so_body_frame.
Qed.

(* ================================================================== *)
(* C10 (a): cfg_opt_setmulti reverts on failure                         *)
(* ================================================================== *)

Definition sm_go (strtod_o : str -> strtod_res) (fuel : nat) (c : cfg)
  : list (option str) -> pw -> opt -> pw * opt * bool :=
  fix go (vs : list (option str)) (w : pw) (o : opt) : pw * opt * bool :=
    match vs with
    | [] => (w, o, true)
    | v :: r => let '(w1, o1, res) := setopt strtod_o fuel w c o v in
                match res with Some _ => go r w1 o1 | None => (w1, o1, false) end
    end.

Definition sm_finish (o : opt) (res : pw * opt * bool) : pw * opt * Z :=
  let comment := o_comment o in
  let old := set_comment o None in
  let '(w1, o1, ok) := res in
  if ok then
    let w2 := log_frees w1 (frees_o old) in
    (w2, o_setf (set_comment o1 comment) CFGF_MODIFIED, OK)
  else
    let '(o2, fr) := free_value o1 in
    let w2 := log_frees w1 fr in
    let fl := N.lor (clrf (clrf (o_flags o2) CFGF_RESET) CFGF_MODIFIED)
                    (N.land (o_flags old) (N.lor CFGF_RESET CFGF_MODIFIED)) in
    (w2, set_comment (set_flags (set_vals o2 (o_vals old)) fl) comment, FAIL).

Lemma opt_setmulti_eq strtod_o fuel w c o vals :
  opt_setmulti strtod_o fuel w c o vals =
  match vals with
  | [] => (w, o, FAIL)
  | _ => sm_finish o (sm_go strtod_o fuel c vals w (set_vals (set_comment o None) []))
  end.
Proof. destruct vals; reflexivity. Qed.

Lemma sm_go_frame strtod_o fuel c vs : forall w o,
  frame o (snd (fst (sm_go strtod_o fuel c vs w o))).
Proof.
  induction vs as [|v r IH]; intros w o.
  - apply frame_refl.
  - cbn [sm_go].
    pose proof (setopt_frame strtod_o fuel w c o v) as H.
    destruct (setopt strtod_o fuel w c o v) as [[w1 o1] res]. unfold fst, snd in H.
    destruct res.
    + eapply frame_trans; [exact H|apply IH].
    + exact H.
Qed.

Lemma FAIL_ne_OK : FAIL <> OK.
Proof. discriminate. Qed.

Lemma opt_setmulti_reverts strtod_o fuel w c o vals w' o' :
  opt_setmulti strtod_o fuel w c o vals = (w', o', FAIL) -> o' = o.
Proof.
  rewrite opt_setmulti_eq. destruct vals as [|v0 vs].
  - intro H; injection H as _ <-. reflexivity.
  - set (fresh := set_vals (set_comment o None) []).
    pose proof (sm_go_frame strtod_o fuel c (v0 :: vs) w fresh) as F.
    destruct (sm_go strtod_o fuel c (v0 :: vs) w fresh) as [[w1 o1] ok]. unfold fst, snd in F.
    assert (F0 : frame o fresh).
    { eapply frame_trans; [apply frame_set_comment_none|apply frame_set_vals]. }
    assert (C1 : o_comment o1 = None).
    { apply (fr_comment _ _ F). subst fresh. destruct o; reflexivity. }
    pose proof (frame_trans _ _ _ F0 F) as G.
    unfold sm_finish. cbv zeta.
    destruct ok.
    + intro H. exfalso. injection H as _ _ H. symmetry in H. exact (FAIL_ne_OK H).
    + unfold free_value. rewrite C1.
      intro H. injection H as _ <-.
      destruct G as [Gn Gk Gs Gd Gc Gf _].
      destruct o as [n k f v s d cm cb], o1 as [n1 k1 f1 v1 s1 d1 cm1 cb1].
      cbn [o_name o_kind o_sub o_def o_cbs o_flags o_vals o_comment set_vals set_comment set_flags] in *.
      subst. f_equal. apply flags_restore. exact Gf.
Qed.

(* ================================================================== *)
(* writing back what was read is the identity                           *)
(* ================================================================== *)

Lemma upd_nth_id {A} (l : list A) i f :
  (forall x, nth_error l i = Some x -> f x = x) -> upd_nth l i f = l.
Proof.
  revert i. induction l as [|a l IH]; intros i H.
  - destruct i; reflexivity.
  - destruct i; cbn [upd_nth].
    + rewrite (H a); reflexivity.
    + f_equal. apply IH. intros x Hx. apply H. exact Hx.
Qed.

Lemma upd_nth_same {A} (l : list A) i x :
  nth_error l i = Some x -> upd_nth l i (fun _ => x) = l.
Proof.
  intro H. apply upd_nth_id. intros y Hy. congruence.
Qed.

Lemma set_vals_same o : set_vals o (o_vals o) = o.
Proof. destruct o; reflexivity. Qed.

Lemma set_opts_same c : set_opts c (c_opts c) = c.
Proof. destruct c; reflexivity. Qed.

Lemma upd_sec_id steps : forall c s f,
  get_sec c steps = Some s -> f s = s -> upd_sec c steps f = c.
Proof.
  induction steps as [|[i v] r IH]; intros c s f G Hf.
  - cbn [get_sec] in G. injection G as <-. exact Hf.
  - cbn [get_sec] in G. cbn [upd_sec].
    destruct (nth_error (c_opts c) i) as [o|] eqn:No; [|discriminate].
    unfold nth_sec in G.
    destruct (nth_error (o_vals o) v) as [x|] eqn:Nv; [|discriminate].
    destruct x as [| | | |[s0|]|]; try discriminate.
    rewrite upd_nth_id; [apply set_opts_same|].
    intros o' Ho'. rewrite No in Ho'. injection Ho' as <-.
    rewrite upd_nth_id; [apply set_vals_same|].
    intros x Hx. rewrite Nv in Hx. injection Hx as <-.
    rewrite (IH s0 s f G Hf). reflexivity.
Qed.

Lemma put_opt_same c r o : get_opt c r = Some o -> put_opt c r o = c.
Proof.
  unfold get_opt, put_opt, upd_opt. intro H.
  destruct (get_sec c (fst r)) as [s|] eqn:G; [|discriminate].
  eapply upd_sec_id; [exact G|].
  rewrite upd_nth_same; [apply set_opts_same|exact H].
Qed.

(* ================================================================== *)
(* refusals                                                             *)
(* ================================================================== *)

(* the call returned `rc` and the tree is the one passed in *)
Definition refused {R} (res : pw * cfg * R) (c : cfg) (rc : R) : Prop :=
  snd (fst res) = c /\ snd res = rc.

Lemma with_opt_unresolved w c name f :
  fst (cfg_getopt c name) = None -> refused (with_opt w c name f) c FAIL.
Proof.
  unfold with_opt. destruct (cfg_getopt c name) as [ro ds]. unfold fst at 1. intros ->. split; reflexivity.
Qed.

Lemma with_opt_dangling w c name f r :
  fst (cfg_getopt c name) = Some r -> get_opt c r = None -> refused (with_opt w c name f) c FAIL.
Proof.
  unfold with_opt. destruct (cfg_getopt c name) as [ro ds]. unfold fst at 1. intros -> ->. split; reflexivity.
Qed.

Lemma with_opt_refuse w c name f r o :
  fst (cfg_getopt c name) = Some r -> get_opt c r = Some o ->
  (forall w0, exists w1, f w0 r o = (w1, o, FAIL)) ->
  refused (with_opt w c name f) c FAIL.
Proof.
  unfold with_opt. destruct (cfg_getopt c name) as [ro ds]. unfold fst at 1. intros -> G H. rewrite G.
  destruct (H (add_diags w ds)) as [w1 ->]. split; [|reflexivity].
  unfold fst, snd. apply put_opt_same. exact G.
Qed.

(* the general form: whenever the per-option step is atomic, so is the call *)
Lemma with_opt_fail_atomic w c name f w' c' :
  (forall w0 r o w1 o1, f w0 r o = (w1, o1, FAIL) -> o1 = o) ->
  with_opt w c name f = (w', c', FAIL) -> c' = c.
Proof.
  unfold with_opt. intro Hf. destruct (cfg_getopt c name) as [ro ds].
  destruct ro as [r|]; [|intro H; injection H as _ <-; reflexivity].
  destruct (get_opt c r) as [o|] eqn:G; [|intro H; injection H as _ <-; reflexivity].
  destruct (f (add_diags w ds) r o) as [[w1 o1] rc] eqn:E.
  intro H. injection H as _ <- ->.
  apply Hf in E. subst o1. apply put_opt_same. exact G.
Qed.

(* --- opt_setn --- *)
Lemma opt_setn_kind w o k v index :
  kind_eqb (o_kind o) k = false -> opt_setn w o k v index = (w, o, FAIL).
Proof. unfold opt_setn. intros ->. reflexivity. Qed.

Lemma opt_getval_index o index :
  index <> 0%N -> oflag o CFGF_LIST = false -> oflag o CFGF_MULTI = false -> opt_getval o index = None.
Proof.
  intros Hi Hl Hm. unfold opt_getval. rewrite Hl, Hm.
  destruct (N.eqb_spec index 0); [contradiction|reflexivity].
Qed.

Lemma opt_setn_index w o k v index :
  index <> 0%N -> oflag o CFGF_LIST = false -> oflag o CFGF_MULTI = false ->
  opt_setn w o k v index = (w, o, FAIL).
Proof.
  intros Hi Hl Hm. unfold opt_setn. rewrite (opt_getval_index o index Hi Hl Hm).
  destruct (negb (kind_eqb (o_kind o) k)); reflexivity.
Qed.

Lemma opt_setn_fail_atomic w o k v index w1 o1 :
  opt_setn w o k v index = (w1, o1, FAIL) -> o1 = o.
Proof.
  unfold opt_setn. destruct (negb (kind_eqb (o_kind o) k)).
  - intro H; injection H as _ <-; reflexivity.
  - destruct (opt_getval o index) as [[[o2 idx] fr]|].
    + intro H. exfalso. injection H as _ _ H. exact (FAIL_ne_OK (eq_sym H)).
    + intro H; injection H as _ <-; reflexivity.
Qed.

Lemma kind_eqb_eq a b : kind_eqb a b = true <-> a = b.
Proof. destruct a, b; split; intro H; try reflexivity; discriminate. Qed.

Lemma kind_eqb_neq a b : a <> b -> kind_eqb a b = false.
Proof. intro H. destruct (kind_eqb a b) eqn:E; [|reflexivity]. apply kind_eqb_eq in E. contradiction. Qed.

(* --- the scripted validcb2 does not look at the diagnostics --- *)
Lemma run_validcb2_failed_add_diags w d o a :
  snd (run_validcb2 (add_diags w d) o a) = snd (run_validcb2 w o a).
Proof.
  unfold run_validcb2. destruct (cb_valid2 (o_cbs o)); reflexivity.
Qed.

Lemma with_opt_refuse_at w c name f r o :
  fst (cfg_getopt c name) = Some r -> get_opt c r = Some o ->
  (exists w1, f (add_diags w (snd (cfg_getopt c name))) r o = (w1, o, FAIL)) ->
  refused (with_opt w c name f) c FAIL.
Proof.
  unfold with_opt. destruct (cfg_getopt c name) as [ro ds]. unfold fst at 1, snd at 1. intros -> G H. rewrite G.
  destruct H as [w1 ->]. split; [|reflexivity].
  unfold fst, snd. apply put_opt_same. exact G.
Qed.

Section Setters.
Variable strtod_o : str -> strtod_res.
Variables (w : pw) (c : cfg) (name : str) (index : N).

(* (b1) the name does not resolve *)
Lemma setters_unresolved z b bl s vs ms cm :
  fst (cfg_getopt c name) = None ->
  refused (cfg_setnint w c name z index) c FAIL /\
  refused (cfg_setnfloat w c name b index) c FAIL /\
  refused (cfg_setnbool w c name bl index) c FAIL /\
  refused (cfg_setnstr w c name s index) c FAIL /\
  refused (cfg_setlist w c name vs) c FAIL /\
  refused (cfg_addlist w c name vs) c FAIL /\
  (forall fuel, refused (cfg_setmulti strtod_o fuel w c name ms) c FAIL) /\
  refused (cfg_setcomment w c name cm) c FAIL.
Proof.
  intro H. repeat split; try intro; apply with_opt_unresolved; exact H.
Qed.

Variables (r : optref) (o : opt).
Hypothesis Hres : fst (cfg_getopt c name) = Some r.
Hypothesis Hget : get_opt c r = Some o.

(* (b2) the option's kind differs *)
Lemma setnint_kind z : o_kind o <> KInt -> refused (cfg_setnint w c name z index) c FAIL.
Proof.
  intro K. eapply with_opt_refuse_at; [exact Hres|exact Hget|]. cbv beta.
  destruct (run_validcb2 _ o (V2Int z)) as [[w1 a] f]. destruct f; [eexists; reflexivity|].
  rewrite opt_setn_kind; [eexists; reflexivity|apply kind_eqb_neq; exact K].
Qed.

Lemma setnfloat_kind b : o_kind o <> KFloat -> refused (cfg_setnfloat w c name b index) c FAIL.
Proof.
  intro K. eapply with_opt_refuse_at; [exact Hres|exact Hget|]. cbv beta.
  destruct (run_validcb2 _ o (V2Float b)) as [[w1 a] f]. destruct f; [eexists; reflexivity|].
  rewrite opt_setn_kind; [eexists; reflexivity|apply kind_eqb_neq; exact K].
Qed.

Lemma setnbool_kind b : o_kind o <> KBool -> refused (cfg_setnbool w c name b index) c FAIL.
Proof.
  intro K. eapply with_opt_refuse_at; [exact Hres|exact Hget|]. cbv beta.
  rewrite opt_setn_kind; [eexists; reflexivity|apply kind_eqb_neq; exact K].
Qed.

Lemma setnstr_kind s : o_kind o <> KStr -> refused (cfg_setnstr w c name s index) c FAIL.
Proof.
  intro K. eapply with_opt_refuse_at; [exact Hres|exact Hget|]. cbv beta.
  destruct (run_validcb2 _ o (V2Str s)) as [[w1 a] f]. destruct f; [eexists; reflexivity|].
  rewrite opt_setn_kind; [eexists; reflexivity|apply kind_eqb_neq; exact K].
Qed.

(* (b3) an index other than 0 on an option that is neither a list nor multi *)
Section Index.
Hypothesis Hi : index <> 0%N.
Hypothesis Hl : oflag o CFGF_LIST = false.
Hypothesis Hm : oflag o CFGF_MULTI = false.

Lemma setnint_index z : refused (cfg_setnint w c name z index) c FAIL.
Proof.
  eapply with_opt_refuse_at; [exact Hres|exact Hget|]. cbv beta.
  destruct (run_validcb2 _ o (V2Int z)) as [[w1 a] f]. destruct f; [eexists; reflexivity|].
  rewrite opt_setn_index by assumption. eexists; reflexivity.
Qed.

Lemma setnfloat_index b : refused (cfg_setnfloat w c name b index) c FAIL.
Proof.
  eapply with_opt_refuse_at; [exact Hres|exact Hget|]. cbv beta.
  destruct (run_validcb2 _ o (V2Float b)) as [[w1 a] f]. destruct f; [eexists; reflexivity|].
  rewrite opt_setn_index by assumption. eexists; reflexivity.
Qed.

Lemma setnbool_index b : refused (cfg_setnbool w c name b index) c FAIL.
Proof.
  eapply with_opt_refuse_at; [exact Hres|exact Hget|]. cbv beta.
  rewrite opt_setn_index by assumption. eexists; reflexivity.
Qed.

Lemma setnstr_index s : refused (cfg_setnstr w c name s index) c FAIL.
Proof.
  eapply with_opt_refuse_at; [exact Hres|exact Hget|]. cbv beta.
  destruct (run_validcb2 _ o (V2Str s)) as [[w1 a] f]. destruct f; [eexists; reflexivity|].
  rewrite opt_setn_index by assumption. eexists; reflexivity.
Qed.
End Index.

(* (b4) the scripted validcb2 fails *)
Lemma setnint_validcb2 z :
  snd (run_validcb2 w o (V2Int z)) = true -> refused (cfg_setnint w c name z index) c FAIL.
Proof.
  intro V. eapply with_opt_refuse_at; [exact Hres|exact Hget|]. cbv beta.
  rewrite <- (run_validcb2_failed_add_diags w (snd (cfg_getopt c name))) in V.
  destruct (run_validcb2 _ o (V2Int z)) as [[w1 a] f]. unfold snd in V. subst f. eexists; reflexivity.
Qed.

Lemma setnfloat_validcb2 b :
  snd (run_validcb2 w o (V2Float b)) = true -> refused (cfg_setnfloat w c name b index) c FAIL.
Proof.
  intro V. eapply with_opt_refuse_at; [exact Hres|exact Hget|]. cbv beta.
  rewrite <- (run_validcb2_failed_add_diags w (snd (cfg_getopt c name))) in V.
  destruct (run_validcb2 _ o (V2Float b)) as [[w1 a] f]. unfold snd in V. subst f. eexists; reflexivity.
Qed.

Lemma setnstr_validcb2 s :
  snd (run_validcb2 w o (V2Str s)) = true -> refused (cfg_setnstr w c name s index) c FAIL.
Proof.
  intro V. eapply with_opt_refuse_at; [exact Hres|exact Hget|]. cbv beta.
  rewrite <- (run_validcb2_failed_add_diags w (snd (cfg_getopt c name))) in V.
  destruct (run_validcb2 _ o (V2Str s)) as [[w1 a] f]. unfold snd in V. subst f. eexists; reflexivity.
Qed.

(* (b5) list operations on an option without the LIST flag *)
Lemma setlist_nolist vs : oflag o CFGF_LIST = false -> refused (cfg_setlist w c name vs) c FAIL.
Proof.
  intro L. eapply with_opt_refuse_at; [exact Hres|exact Hget|]. cbv beta. rewrite L. eexists; reflexivity.
Qed.

Lemma addlist_nolist vs : oflag o CFGF_LIST = false -> refused (cfg_addlist w c name vs) c FAIL.
Proof.
  intro L. eapply with_opt_refuse_at; [exact Hres|exact Hget|]. cbv beta. rewrite L. eexists; reflexivity.
Qed.

(* (b6) cfg_setmulti with no values, cfg_setcomment with NULL *)
Lemma setmulti_nil fuel : refused (cfg_setmulti strtod_o fuel w c name []) c FAIL.
Proof.
  eapply with_opt_refuse_at; [exact Hres|exact Hget|]. cbv beta. eexists; reflexivity.
Qed.

Lemma setcomment_none : refused (cfg_setcomment w c name None) c FAIL.
Proof.
  eapply with_opt_refuse_at; [exact Hres|exact Hget|]. cbv beta. eexists; reflexivity.
Qed.

End Setters.

(* ================================================================== *)
(* the general form: FAIL implies the tree is the one passed in          *)
(* ================================================================== *)

Lemma opt_rmnsec_fail_atomic w o index w1 o1 :
  opt_rmnsec w o index = (w1, o1, FAIL) -> o1 = o.
Proof.
  unfold opt_rmnsec. destruct (negb (kind_eqb (o_kind o) KSec)).
  - intro H; injection H as _ <-; reflexivity.
  - cbv zeta. destruct (N.of_nat (length (o_vals o)) <=? index)%N.
    + intro H; injection H as _ <-; reflexivity.
    + intro H. exfalso. injection H as _ _ H. exact (FAIL_ne_OK (eq_sym H)).
Qed.

Section FailAtomic.
Variable strtod_o : str -> strtod_res.

Lemma cfg_setnint_fail_atomic w c name z index w' c' :
  cfg_setnint w c name z index = (w', c', FAIL) -> c' = c.
Proof.
  apply with_opt_fail_atomic. intros w0 r o w1 o1.
  destruct (run_validcb2 w0 o (V2Int z)) as [[w2 a] f]. destruct f.
  - intro H; injection H as _ <-; reflexivity.
  - apply opt_setn_fail_atomic.
Qed.

Lemma cfg_setnfloat_fail_atomic w c name b index w' c' :
  cfg_setnfloat w c name b index = (w', c', FAIL) -> c' = c.
Proof.
  apply with_opt_fail_atomic. intros w0 r o w1 o1.
  destruct (run_validcb2 w0 o (V2Float b)) as [[w2 a] f]. destruct f.
  - intro H; injection H as _ <-; reflexivity.
  - apply opt_setn_fail_atomic.
Qed.

Lemma cfg_setnbool_fail_atomic w c name b index w' c' :
  cfg_setnbool w c name b index = (w', c', FAIL) -> c' = c.
Proof.
  apply with_opt_fail_atomic. intros w0 r o w1 o1. apply opt_setn_fail_atomic.
Qed.

Lemma cfg_setnstr_fail_atomic w c name s index w' c' :
  cfg_setnstr w c name s index = (w', c', FAIL) -> c' = c.
Proof.
  apply with_opt_fail_atomic. intros w0 r o w1 o1.
  destruct (run_validcb2 w0 o (V2Str s)) as [[w2 a] f]. destruct f.
  - intro H; injection H as _ <-; reflexivity.
  - apply opt_setn_fail_atomic.
Qed.

Lemma cfg_setlist_fail_atomic w c name vs w' c' :
  cfg_setlist w c name vs = (w', c', FAIL) -> c' = c.
Proof.
  apply with_opt_fail_atomic. intros w0 r o w1 o1.
  destruct (negb (oflag o CFGF_LIST)).
  - intro H; injection H as _ <-; reflexivity.
  - destruct (free_value o) as [o2 fr]. destruct (addlist_internal _ _ vs) as [w2 o3].
    intro H. exfalso. injection H as _ _ H. exact (FAIL_ne_OK (eq_sym H)).
Qed.

Lemma cfg_addlist_fail_atomic w c name vs w' c' :
  cfg_addlist w c name vs = (w', c', FAIL) -> c' = c.
Proof.
  apply with_opt_fail_atomic. intros w0 r o w1 o1.
  destruct (negb (oflag o CFGF_LIST)).
  - intro H; injection H as _ <-; reflexivity.
  - destruct (addlist_internal _ _ vs) as [w2 o3].
    intro H. exfalso. injection H as _ _ H. exact (FAIL_ne_OK (eq_sym H)).
Qed.

Lemma cfg_setmulti_fail_atomic fuel w c name vals w' c' :
  cfg_setmulti strtod_o fuel w c name vals = (w', c', FAIL) -> c' = c.
Proof.
  apply with_opt_fail_atomic. intros w0 r o w1 o1. apply opt_setmulti_reverts.
Qed.

Lemma cfg_setcomment_fail_atomic w c name cm w' c' :
  cfg_setcomment w c name cm = (w', c', FAIL) -> c' = c.
Proof.
  apply with_opt_fail_atomic. intros w0 r o w1 o1. destruct cm.
  - intro H. exfalso. injection H as _ _ H. exact (FAIL_ne_OK (eq_sym H)).
  - intro H; injection H as _ <-; reflexivity.
Qed.

Lemma cfg_rmnsec_fail_atomic w c name index w' c' :
  cfg_rmnsec w c name index = (w', c', FAIL) -> c' = c.
Proof.
  apply with_opt_fail_atomic. intros w0 r o w1 o1. apply opt_rmnsec_fail_atomic.
Qed.

Lemma cfg_rmtsec_fail_atomic w c name title w' c' :
  cfg_rmtsec w c name title = (w', c', FAIL) -> c' = c.
Proof.
  apply with_opt_fail_atomic. intros w0 r o w1 o1. destruct title as [t|].
  - destruct (negb (oflag o CFGF_TITLE)); [intro H; injection H as _ <-; reflexivity|].
    destruct (gettsecidx o t); [apply opt_rmnsec_fail_atomic|intro H; injection H as _ <-; reflexivity].
  - intro H; injection H as _ <-; reflexivity.
Qed.

Lemma cfg_rmsec_fail_atomic w c name w' c' :
  cfg_rmsec w c name = (w', c', FAIL) -> c' = c.
Proof.
  unfold cfg_rmsec. cbv zeta.
  destruct (rs_opt (getopt_secidx c name true)) as [ref|]; [|intro H; injection H as _ <-; reflexivity].
  destruct (get_opt c ref) as [o|] eqn:G; [|intro H; injection H as _ <-; reflexivity].
  destruct (opt_rmnsec _ o _) as [[w1 o1] rc] eqn:E.
  intro H. injection H as _ <- ->. apply opt_rmnsec_fail_atomic in E. subst o1. apply put_opt_same; exact G.
Qed.

End FailAtomic.

(* ================================================================== *)
(* C10 (c): section refusals                                            *)
(* ================================================================== *)

Section SecRefusals.
Variable strtod_o : str -> strtod_res.
Variables (w : pw) (c : cfg) (name : str).

Lemma addtsec_unresolved fuel title :
  fst (cfg_getopt c name) = None -> refused (cfg_addtsec strtod_o fuel w c name title) c false.
Proof.
  unfold cfg_addtsec. destruct (cfg_getopt c name) as [ro ds]. unfold fst at 1. intros ->.
  split; reflexivity.
Qed.

Lemma rmsec_unresolved :
  rs_opt (getopt_secidx c name true) = None -> refused (cfg_rmsec w c name) c FAIL.
Proof.
  unfold cfg_rmsec. cbv zeta. intros ->. split; reflexivity.
Qed.

Lemma rmsec_dangling ref :
  rs_opt (getopt_secidx c name true) = Some ref -> get_opt c ref = None -> refused (cfg_rmsec w c name) c FAIL.
Proof.
  unfold cfg_rmsec. cbv zeta. intros -> ->. split; reflexivity.
Qed.

Variables (r : optref) (o : opt).
Hypothesis Hres : fst (cfg_getopt c name) = Some r.
Hypothesis Hget : get_opt c r = Some o.

Lemma addtsec_exists fuel t i :
  oflag o CFGF_TITLE = true -> o_kind o = KSec -> gettsecidx o t = Some i ->
  refused (cfg_addtsec strtod_o fuel w c name (Some t)) c false.
Proof.
  intros T K G. unfold cfg_addtsec. destruct (cfg_getopt c name) as [ro ds]. unfold fst at 1 in Hres. subst ro.
  rewrite Hget, T, K, G. split; reflexivity.
Qed.

Lemma addtsec_notsec fuel title :
  o_kind o <> KSec -> refused (cfg_addtsec strtod_o fuel w c name title) c false.
Proof.
  intros K. apply kind_eqb_neq in K.
  unfold cfg_addtsec. destruct (cfg_getopt c name) as [ro ds]. unfold fst at 1 in Hres. subst ro.
  rewrite Hget, K. rewrite andb_false_r. cbn [andb negb].
  destruct title; split; reflexivity.
Qed.

Lemma opt_rmnsec_range w0 index :
  (N.of_nat (length (o_vals o)) <= index)%N -> opt_rmnsec w0 o index = (w0, o, FAIL).
Proof.
  intro H. unfold opt_rmnsec. cbv zeta. apply N.leb_le in H. rewrite H.
  destruct (negb (kind_eqb (o_kind o) KSec)); reflexivity.
Qed.

Lemma rmnsec_range index :
  (N.of_nat (length (o_vals o)) <= index)%N -> refused (cfg_rmnsec w c name index) c FAIL.
Proof.
  intro H. eapply with_opt_refuse_at; [exact Hres|exact Hget|]. cbv beta.
  rewrite opt_rmnsec_range by exact H. eexists; reflexivity.
Qed.

Lemma rmnsec_notsec index :
  o_kind o <> KSec -> refused (cfg_rmnsec w c name index) c FAIL.
Proof.
  intro K. apply kind_eqb_neq in K.
  eapply with_opt_refuse_at; [exact Hres|exact Hget|]. cbv beta.
  unfold opt_rmnsec. rewrite K. eexists; reflexivity.
Qed.

Lemma rmtsec_none : refused (cfg_rmtsec w c name None) c FAIL.
Proof.
  eapply with_opt_refuse_at; [exact Hres|exact Hget|]. cbv beta. eexists; reflexivity.
Qed.

Lemma rmtsec_notitle t : oflag o CFGF_TITLE = false -> refused (cfg_rmtsec w c name (Some t)) c FAIL.
Proof.
  intro T. eapply with_opt_refuse_at; [exact Hres|exact Hget|]. cbv beta. rewrite T. eexists; reflexivity.
Qed.

Lemma rmtsec_unknown t : gettsecidx o t = None -> refused (cfg_rmtsec w c name (Some t)) c FAIL.
Proof.
  intro G. eapply with_opt_refuse_at; [exact Hres|exact Hget|]. cbv beta. rewrite G.
  destruct (negb (oflag o CFGF_TITLE)); eexists; reflexivity.
Qed.

End SecRefusals.

(* ================================================================== *)
(* C09 (f): the algebra of cfg_opt_setn*                                *)
(* ================================================================== *)

Lemma has_frame_disj f f' k m :
  N.ldiff f' k = N.ldiff f k -> N.land m k = 0%N -> has f' m = has f m.
Proof.
  intros H D. unfold has. f_equal. f_equal.
  apply N.bits_inj; intro n.
  assert (Hn := f_equal (fun x => N.testbit x n) H). cbv beta in Hn.
  assert (Dn := f_equal (fun x => N.testbit x n) D). cbv beta in Dn.
  rewrite !N.ldiff_spec in Hn. rewrite N.land_spec, N.bits_0 in Dn.
  rewrite !N.land_spec.
  destruct (N.testbit f n), (N.testbit f' n), (N.testbit m n), (N.testbit k n); try reflexivity; discriminate.
Qed.

Lemma frame_oflag o o' m : frame o o' -> N.land m RM = 0%N -> oflag o' m = oflag o m.
Proof. intros F D. unfold oflag. eapply has_frame_disj; [apply (fr_flags _ _ F)|exact D]. Qed.

(* with RESET set cfg_free_value keeps the annotation *)
Lemma free_value_reset o : oflag o CFGF_RESET = true -> fst (free_value o) = set_vals o [].
Proof.
  intro R. unfold free_value. rewrite R. cbn [negb]. destruct (o_comment o); reflexivity.
Qed.

(* the option cfg_opt_getval works on after RESET handling *)
Definition getval_base (o : opt) : opt :=
  if oflag o CFGF_RESET then o_clrf (set_vals o []) CFGF_RESET else o.

Lemma opt_getval_some o index o1 idx fr :
  opt_getval o index = Some (o1, idx, fr) ->
  let b := getval_base o in
  if (N.of_nat (length (o_vals b)) <=? index)%N
  then o1 = addval b /\ idx = length (o_vals b)
  else o1 = b /\ idx = N.to_nat index.
Proof.
  unfold opt_getval, getval_base.
  destruct (negb (index =? 0)%N && negb (oflag o CFGF_LIST) && negb (oflag o CFGF_MULTI)); [discriminate|].
  destruct (oflag o CFGF_RESET) eqn:R.
  - pose proof (free_value_reset o R) as FV. destruct (free_value o) as [x f]. unfold fst in FV. subst x.
    cbv zeta.
    destruct (N.of_nat (length (o_vals (o_clrf (set_vals o []) CFGF_RESET))) <=? index)%N;
      intro H; injection H as <- <- _; split; reflexivity.
  - cbv zeta. destruct (N.of_nat (length (o_vals o)) <=? index)%N;
      intro H; injection H as <- <- _; split; reflexivity.
Qed.

Lemma opt_getval_legal o index :
  (index = 0%N \/ oflag o CFGF_LIST = true \/ oflag o CFGF_MULTI = true) ->
  exists o1 idx fr, opt_getval o index = Some (o1, idx, fr).
Proof.
  intro L. unfold opt_getval.
  assert (E : negb (index =? 0)%N && negb (oflag o CFGF_LIST) && negb (oflag o CFGF_MULTI) = false).
  { destruct L as [->|[->| ->]]; [reflexivity| |]; cbn [negb]; rewrite ?andb_false_r; reflexivity. }
  rewrite E.
  destruct (if oflag o CFGF_RESET then let '(x, f) := free_value o in (o_clrf x CFGF_RESET, f) else (o, [])) as [o1 fr].
  destruct (N.of_nat (length (o_vals o1)) <=? index)%N; repeat eexists.
Qed.

Lemma opt_setn_succeeds w o k v index :
  o_kind o = k ->
  (index = 0%N \/ oflag o CFGF_LIST = true \/ oflag o CFGF_MULTI = true) ->
  exists w' o', opt_setn w o k v index = (w', o', OK).
Proof.
  intros K L. unfold opt_setn. subst k.
  assert (E : kind_eqb (o_kind o) (o_kind o) = true) by (apply kind_eqb_eq; reflexivity).
  rewrite E. cbn [negb].
  destruct (opt_getval_legal o index L) as [o1 [idx [fr ->]]]. repeat eexists.
Qed.

Lemma upd_nth_app_last {A} (l : list A) (z v : A) :
  upd_nth (l ++ [z]) (length l) (fun _ => v) = l ++ [v].
Proof. induction l as [|a l IH]; cbn [app length upd_nth]; [reflexivity|f_equal; exact IH]. Qed.

Lemma upd_nth_length {A} (l : list A) i f : length (upd_nth l i f) = length l.
Proof.
  revert i; induction l as [|a l IH]; intro i; destruct i; cbn [upd_nth length]; auto.
Qed.

(* the values after a successful cfg_opt_setn*: one slot replaced or exactly one slot appended *)
Definition setn_vals (o : opt) (v : value) (index : N) : list value :=
  if oflag o CFGF_RESET then [v]
  else if (index <? N.of_nat (length (o_vals o)))%N
       then upd_nth (o_vals o) (N.to_nat index) (fun _ => v)
       else o_vals o ++ [v].

Lemma opt_setn_ok w o k v index w' o' :
  opt_setn w o k v index = (w', o', OK) ->
  o_kind o = k /\
  (index = 0%N \/ oflag o CFGF_LIST = true \/ oflag o CFGF_MULTI = true) /\
  o' = set_vals (set_flags o (setf (clrf (o_flags o) CFGF_RESET) CFGF_MODIFIED)) (setn_vals o v index).
Proof.
  unfold opt_setn.
  destruct (kind_eqb (o_kind o) k) eqn:K; cbn [negb]; [|intro H; exfalso; injection H as _ _ H; exact (FAIL_ne_OK H)].
  apply kind_eqb_eq in K.
  destruct (opt_getval o index) as [[[o1 idx] fr]|] eqn:G;
    [|intro H; exfalso; injection H as _ _ H; exact (FAIL_ne_OK H)].
  intro H. injection H as _ <-. split; [exact K|]. split.
  { unfold opt_getval in G.
    destruct (N.eqb_spec index 0); [left; assumption|right].
    destruct (oflag o CFGF_LIST); [left; reflexivity|right].
    destruct (oflag o CFGF_MULTI); [reflexivity|discriminate]. }
  apply opt_getval_some in G. cbv zeta in G. unfold getval_base in G. unfold setn_vals.
  destruct o as [n kd f vs s d cm cb].
  unfold oflag in *. cbn [o_flags o_vals set_vals set_flags o_clrf o_setf addval o_kind] in *.
  destruct (has f CFGF_RESET) eqn:R.
  - cbn [o_vals set_vals set_flags o_clrf o_flags length] in G.
    change (N.of_nat 0) with 0%N in G.
    assert (L : (0 <=? index)%N = true) by (apply N.leb_le; apply N.le_0_l).
    rewrite L in G. destruct G as [-> ->].
    cbn [addval o_vals set_vals o_setf set_flags o_flags o_kind o_clrf app length upd_nth].
    f_equal. unfold setf, clrf.
    rewrite <- N.lor_assoc. rewrite N.lor_diag. reflexivity.
  - assert (CF : clrf f CFGF_RESET = f).
    { unfold clrf. apply N.bits_inj; intro b. rewrite N.ldiff_spec.
      change CFGF_RESET with (2 ^ 6)%N in *. rewrite has_pow2 in R.
      destruct (N.eq_dec 6 b) as [<-|D].
      - rewrite R. reflexivity.
      - rewrite (N.pow2_bits_false _ _ D). apply andb_true_r. }
    rewrite CF. cbn [o_vals] in G.
    destruct (N.of_nat (length vs) <=? index)%N eqn:L.
    + destruct G as [-> ->].
      assert (L' : (index <? N.of_nat (length vs))%N = false).
      { apply N.ltb_ge. apply N.leb_le. exact L. }
      rewrite L'.
      cbn [addval o_vals set_vals o_setf set_flags o_flags o_kind].
      rewrite upd_nth_app_last. f_equal. unfold setf.
      rewrite <- N.lor_assoc. rewrite N.lor_diag. reflexivity.
    + destruct G as [-> ->].
      assert (L' : (index <? N.of_nat (length vs))%N = true).
      { apply N.ltb_lt. apply N.leb_gt. exact L. }
      rewrite L'. cbn [o_vals set_vals o_setf set_flags o_flags]. reflexivity.
Qed.

Lemma opt_setn_ok_reset_clear w o k v index w' o' :
  opt_setn w o k v index = (w', o', OK) -> oflag o' CFGF_RESET = false.
Proof.
  intro H. apply opt_setn_ok in H. destruct H as [_ [_ ->]].
  destruct o as [n kd f vs s d cm cb]. unfold oflag. cbn [set_vals set_flags o_flags].
  unfold setf. rewrite has_lor_disj by reflexivity.
  change CFGF_RESET with (2 ^ 6)%N. apply has_clrf_same.
Qed.

Lemma opt_setn_ok_modified w o k v index w' o' :
  opt_setn w o k v index = (w', o', OK) -> oflag o' CFGF_MODIFIED = true.
Proof.
  intro H. apply opt_setn_ok in H. destruct H as [_ [_ ->]].
  destruct o as [n kd f vs s d cm cb]. unfold oflag. cbn [set_vals set_flags o_flags].
  change CFGF_MODIFIED with (2 ^ 12)%N. apply has_setf_same.
Qed.

Lemma opt_setn_ok_frame w o k v index w' o' :
  opt_setn w o k v index = (w', o', OK) -> frame o o' /\ o_comment o' = o_comment o.
Proof.
  intro H. apply opt_setn_ok in H. destruct H as [_ [_ ->]].
  destruct o as [n kd f vs s d cm cb]. cbn [set_vals set_flags o_flags]. split; [|reflexivity].
  constructor; try reflexivity; auto.
  cbn [o_flags]. unfold setf, clrf. rewrite ldiff_lor_sub by reflexivity. apply ldiff_ldiff_sub. reflexivity.
Qed.

(* C09 (f) assembled *)
Lemma setn_algebra w o k v index w' o' :
  opt_setn w o k v index = (w', o', OK) ->
  o_vals o' = (if oflag o CFGF_RESET then [v]
               else if (index <? N.of_nat (length (o_vals o)))%N
                    then upd_nth (o_vals o) (N.to_nat index) (fun _ => v)
                    else o_vals o ++ [v]) /\
  oflag o' CFGF_RESET = false /\ oflag o' CFGF_MODIFIED = true /\
  o_name o' = o_name o /\ o_kind o' = o_kind o /\ o_sub o' = o_sub o /\ o_def o' = o_def o /\
  o_cbs o' = o_cbs o /\ o_comment o' = o_comment o /\
  (forall m, N.land m (N.lor CFGF_RESET CFGF_MODIFIED) = 0%N -> oflag o' m = oflag o m).
Proof.
  intro H.
  pose proof (opt_setn_ok_reset_clear _ _ _ _ _ _ _ H) as R.
  pose proof (opt_setn_ok_modified _ _ _ _ _ _ _ H) as M.
  pose proof (opt_setn_ok_frame _ _ _ _ _ _ _ H) as [F C].
  apply opt_setn_ok in H. destruct H as [_ [_ E]].
  split. { rewrite E. destruct o; reflexivity. }
  destruct F as [Fn Fk Fs Fd Fc Ff Fcm].
  repeat (split; [assumption|]).
  intros m D. apply frame_oflag; [constructor; assumption|exact D].
Qed.

Lemma setn_succeeds_iff w o k v index :
  (exists w' o', opt_setn w o k v index = (w', o', OK)) <->
  (o_kind o = k /\ (index = 0%N \/ oflag o CFGF_LIST = true \/ oflag o CFGF_MULTI = true)).
Proof.
  split.
  - intros [w' [o' H]]. apply opt_setn_ok in H. destruct H as [K [L _]]. split; assumption.
  - intros [K L]. apply opt_setn_succeeds; assumption.
Qed.

(* ================================================================== *)
(* C09 (i): typed values, scalar options                                *)
(* ================================================================== *)

Definition val_kind (v : value) : kind :=
  match v with
  | VInt _ => KInt | VFloat _ => KFloat | VBool _ => KBool | VStr _ => KStr | VSec _ => KSec | VPtr _ => KPtr
  end.

Definition typed (o : opt) : Prop := Forall (fun v => val_kind v = o_kind o) (o_vals o).

Definition scalar_ok (o : opt) : Prop :=
  oflag o CFGF_LIST = false -> oflag o CFGF_MULTI = false -> length (o_vals o) <= 1.

Lemma Forall_upd_nth {A} (P : A -> Prop) l i v :
  Forall P l -> P v -> Forall P (upd_nth l i (fun _ => v)).
Proof.
  intros H Pv. revert i. induction H as [|a l Pa H IH]; intro i.
  - destruct i; constructor.
  - destruct i; cbn [upd_nth]; constructor; auto.
Qed.

Lemma Forall_firstn {A} (P : A -> Prop) l n : Forall P l -> Forall P (firstn n l).
Proof.
  intro H. revert n. induction H as [|a l Pa H IH]; intro n; destruct n; cbn [firstn]; constructor; auto.
Qed.

Lemma Forall_skipn {A} (P : A -> Prop) l n : Forall P l -> Forall P (skipn n l).
Proof.
  intro H. revert n. induction H as [|a l Pa H IH]; intro n; destruct n; cbn [skipn]; auto.
Qed.

Lemma opt_setn_typed w o k v index :
  val_kind v = k -> typed o -> typed (snd (fst (opt_setn w o k v index))).
Proof.
  intros V T.
  destruct (opt_setn w o k v index) as [[w' o'] rc] eqn:E. unfold fst, snd.
  assert (D : rc = OK \/ rc = FAIL).
  { unfold opt_setn in E. destruct (negb (kind_eqb (o_kind o) k)); [injection E as _ _ <-; right; reflexivity|].
    destruct (opt_getval o index) as [[[? ?] ?]|]; injection E as _ _ <-; [left|right]; reflexivity. }
  destruct D as [-> | ->].
  - apply opt_setn_ok in E. destruct E as [K [_ ->]].
    unfold typed in *. destruct o as [n kd f vs s d cm cb]. cbn [set_vals set_flags o_vals o_kind o_flags] in *.
    unfold setn_vals, oflag. cbn [o_flags o_vals].
    assert (Pv : val_kind v = kd) by congruence.
    destruct (has f CFGF_RESET).
    + constructor; [exact Pv|constructor].
    + destruct (index <? N.of_nat (length vs))%N.
      * apply Forall_upd_nth; assumption.
      * apply Forall_app. split; [assumption|constructor; [exact Pv|constructor]].
  - apply opt_setn_fail_atomic in E. subst o'. exact T.
Qed.

Lemma opt_setn_scalar_ok w o k v index :
  scalar_ok o -> scalar_ok (snd (fst (opt_setn w o k v index))).
Proof.
  intros T.
  destruct (opt_setn w o k v index) as [[w' o'] rc] eqn:E. unfold fst, snd.
  assert (D : rc = OK \/ rc = FAIL).
  { unfold opt_setn in E. destruct (negb (kind_eqb (o_kind o) k)); [injection E as _ _ <-; right; reflexivity|].
    destruct (opt_getval o index) as [[[? ?] ?]|]; injection E as _ _ <-; [left|right]; reflexivity. }
  destruct D as [-> | ->].
  - pose proof (opt_setn_ok_frame _ _ _ _ _ _ _ E) as [F _].
    pose proof (setn_algebra _ _ _ _ _ _ _ E) as [V _].
    apply opt_setn_ok in E. destruct E as [_ [L _]].
    unfold scalar_ok in *. rewrite (frame_oflag _ _ CFGF_LIST F) by reflexivity.
    rewrite (frame_oflag _ _ CFGF_MULTI F) by reflexivity.
    intros NL NM. rewrite NL, NM in L. destruct L as [->|[L|L]]; try discriminate.
    specialize (T NL NM). rewrite V.
    destruct (oflag o CFGF_RESET); [cbn [length]; lia|].
    destruct (0 <? N.of_nat (length (o_vals o)))%N eqn:Z.
    + rewrite upd_nth_length. exact T.
    + apply N.ltb_ge in Z. assert (length (o_vals o) = 0) by lia.
      rewrite app_length. cbn [length]. lia.
  - apply opt_setn_fail_atomic in E. subst o'. exact T.
Qed.

Lemma opt_rmnsec_typed w o index : typed o -> typed (snd (fst (opt_rmnsec w o index))).
Proof.
  intro T. unfold opt_rmnsec. destruct (negb (kind_eqb (o_kind o) KSec)); [exact T|].
  cbv zeta. destruct (N.of_nat (length (o_vals o)) <=? index)%N; [exact T|].
  unfold fst, snd, typed in *. destruct o as [n kd f vs s d cm cb]. cbn [set_vals o_vals o_kind] in *.
  apply Forall_app. split; [apply Forall_firstn|apply Forall_skipn]; exact T.
Qed.

(* ================================================================== *)
(* C09 (g): removing an instance keeps the order of the others          *)
(* ================================================================== *)

Lemma nth_error_remove {A} (l : list A) i j :
  nth_error (firstn i l ++ skipn (S i) l) j = if j <? i then nth_error l j else nth_error l (S j).
Proof.
  revert i j. induction l as [|a l IH]; intros i j.
  - rewrite firstn_nil, skipn_nil. cbn [app]. destruct j; destruct (_ <? _); reflexivity.
  - destruct i.
    + cbn [firstn skipn app]. destruct j; reflexivity.
    + cbn [firstn app]. change (skipn (S (S i)) (a :: l)) with (skipn (S i) l).
      destruct j.
      * reflexivity.
      * cbn [nth_error]. rewrite IH. change (S j <? S i) with (j <? i). reflexivity.
Qed.

Lemma opt_rmnsec_ok w o index w' o' :
  opt_rmnsec w o index = (w', o', OK) ->
  o_kind o = KSec /\ N.to_nat index < length (o_vals o) /\
  o' = set_vals o (firstn (N.to_nat index) (o_vals o) ++ skipn (S (N.to_nat index)) (o_vals o)).
Proof.
  unfold opt_rmnsec. destruct (kind_eqb (o_kind o) KSec) eqn:K; cbn [negb];
    [|intro H; exfalso; injection H as _ _ H; exact (FAIL_ne_OK H)].
  cbv zeta. destruct (N.of_nat (length (o_vals o)) <=? index)%N eqn:L;
    [intro H; exfalso; injection H as _ _ H; exact (FAIL_ne_OK H)|].
  intro H. injection H as _ <-. apply kind_eqb_eq in K. apply N.leb_gt in L.
  split; [exact K|]. split; [lia|reflexivity].
Qed.

Lemma rmnsec_keeps_order w o index w' o' :
  opt_rmnsec w o index = (w', o', OK) ->
  let i := N.to_nat index in
  i < length (o_vals o) /\
  o_vals o' = firstn i (o_vals o) ++ skipn (S i) (o_vals o) /\
  length (o_vals o') = pred (length (o_vals o)) /\
  (forall j, j < i -> nth_error (o_vals o') j = nth_error (o_vals o) j) /\
  (forall j, i <= j -> nth_error (o_vals o') j = nth_error (o_vals o) (S j)) /\
  o_name o' = o_name o /\ o_kind o' = o_kind o /\ o_flags o' = o_flags o /\ o_sub o' = o_sub o /\
  o_def o' = o_def o /\ o_cbs o' = o_cbs o /\ o_comment o' = o_comment o.
Proof.
  intro H. apply opt_rmnsec_ok in H. destruct H as [_ [L ->]]. cbv zeta.
  destruct o as [n kd f vs s d cm cb]. cbn [set_vals o_vals o_name o_kind o_flags o_sub o_def o_cbs o_comment] in *.
  split; [exact L|]. split; [reflexivity|]. split.
  { rewrite app_length, firstn_length, skipn_length. lia. }
  split.
  { intros j Hj. rewrite nth_error_remove. apply Nat.ltb_lt in Hj. rewrite Hj. reflexivity. }
  split.
  { intros j Hj. rewrite nth_error_remove. apply Nat.ltb_ge in Hj. rewrite Hj. reflexivity. }
  repeat split; reflexivity.
Qed.

(* ================================================================== *)
(* C09 (e): cfg_addlist appends, cfg_setlist replaces                   *)
(* ================================================================== *)

Definition trunc (v : value) : value := match v with VInt z => VInt (to_sint32 z) | x => x end.

Definition scalar_kind (k : kind) : Prop := k = KInt \/ k = KFloat \/ k = KBool \/ k = KStr.

Definition al_step : pw * opt -> value -> pw * opt := fun '(w, o) v =>
  let k := match v with VInt _ => KInt | VFloat _ => KFloat | VBool _ => KBool | VStr _ => KStr | _ => KNone end in
  match o_kind o with
  | KInt | KFloat | KBool | KStr =>
      let v' := match v with VInt z => VInt (to_sint32 z) | x => x end in
      let '(w1, o1, _) := opt_setn w o k v' (N.of_nat (length (o_vals o))) in (w1, o1)
  | _ => (w, o)
  end.

Lemma addlist_internal_eq w o vs : addlist_internal w o vs = fold_left al_step vs (w, o).
Proof. reflexivity. Qed.

Lemma val_kind_trunc v : val_kind (trunc v) = val_kind v.
Proof. destruct v; reflexivity. Qed.

(* one element on a list option of the matching scalar kind *)
Lemma al_step_list w o v :
  oflag o CFGF_LIST = true -> scalar_kind (o_kind o) -> val_kind v = o_kind o ->
  exists w' o', al_step (w, o) v = (w', o') /\
    opt_setn w o (o_kind o) (trunc v) (N.of_nat (length (o_vals o))) = (w', o', OK).
Proof.
  intros L S V. unfold al_step.
  destruct (opt_setn_succeeds w o (o_kind o) (trunc v) (N.of_nat (length (o_vals o))) eq_refl
              (or_intror (or_introl L))) as [w' [o' E]].
  exists w', o'. split; [|exact E].
  assert (K : match v with VInt _ => KInt | VFloat _ => KFloat | VBool _ => KBool | VStr _ => KStr | _ => KNone end
              = o_kind o).
  { destruct S as [S|[S|[S|S]]]; rewrite S in V |- *; destruct v; try discriminate; reflexivity. }
  rewrite K. fold (trunc v).
  destruct S as [S|[S|[S|S]]]; rewrite S in E |- *; rewrite E; reflexivity.
Qed.

Lemma addlist_appends_gen vs : forall w o,
  oflag o CFGF_LIST = true -> oflag o CFGF_RESET = false -> scalar_kind (o_kind o) ->
  Forall (fun v => val_kind v = o_kind o) vs ->
  let o' := snd (fold_left al_step vs (w, o)) in
  o_vals o' = o_vals o ++ map trunc vs /\ frame o o' /\ o_comment o' = o_comment o /\
  oflag o' CFGF_RESET = false /\ (vs <> [] -> oflag o' CFGF_MODIFIED = true).
Proof.
  induction vs as [|v r IH]; intros w o L R S F; cbv zeta.
  - cbn [fold_left snd map]. rewrite app_nil_r. repeat split; auto using frame_refl; try congruence.
  - cbn [fold_left map]. inversion F as [|v0 r0 Fv Fr]; subst.
    destruct (al_step_list w o v L S Fv) as [w1 [o1 [E1 E2]]]. rewrite E1.
    pose proof (setn_algebra _ _ _ _ _ _ _ E2) as [V1 [R1 [M1 [_ [K1 [_ [_ [_ [C1 Fl]]]]]]]]].
    pose proof (opt_setn_ok_frame _ _ _ _ _ _ _ E2) as [F1 _].
    rewrite R in V1.
    assert (Lt : (N.of_nat (length (o_vals o)) <? N.of_nat (length (o_vals o)))%N = false)
      by (apply N.ltb_ge; apply N.le_refl).
    rewrite Lt in V1.
    assert (L1 : oflag o1 CFGF_LIST = true) by (rewrite Fl by reflexivity; exact L).
    assert (S1 : scalar_kind (o_kind o1)) by (rewrite K1; exact S).
    assert (Fr1 : Forall (fun v => val_kind v = o_kind o1) r) by (rewrite K1; exact Fr).
    destruct (IH w1 o1 L1 R1 S1 Fr1) as [V2 [F2 [C2 [R2 M2]]]].
    split. { rewrite V2, V1, <- app_assoc. reflexivity. }
    split. { eapply frame_trans; eassumption. }
    split. { congruence. }
    split. { exact R2. }
    intros _. destruct r as [|v2 r].
    + cbn [fold_left snd]. exact M1.
    + apply M2. discriminate.
Qed.

Lemma o_vals_clrf o m : o_vals (o_clrf o m) = o_vals o.
Proof. destruct o; reflexivity. Qed.
Lemma o_kind_clrf o m : o_kind (o_clrf o m) = o_kind o.
Proof. destruct o; reflexivity. Qed.
Lemma o_vals_setf o m : o_vals (o_setf o m) = o_vals o.
Proof. destruct o; reflexivity. Qed.
Lemma o_kind_setf o m : o_kind (o_setf o m) = o_kind o.
Proof. destruct o; reflexivity. Qed.
Lemma oflag_clrf_disj o m k : N.land m k = 0%N -> oflag (o_clrf o m) k = oflag o k.
Proof. intro D. destruct o. unfold oflag, o_clrf, set_flags, o_flags, clrf. apply has_ldiff_disj; exact D. Qed.
Lemma oflag_setf_disj o m k : N.land m k = 0%N -> oflag (o_setf o m) k = oflag o k.
Proof. intro D. destruct o. unfold oflag, o_setf, set_flags, o_flags, setf. apply has_lor_disj; exact D. Qed.
Lemma oflag_clrf_reset o : oflag (o_clrf o CFGF_RESET) CFGF_RESET = false.
Proof. destruct o. unfold oflag, o_clrf, set_flags, o_flags. change CFGF_RESET with (2 ^ 6)%N. apply has_clrf_same. Qed.

(* what cfg_addlist does to the option: the declared defaults are kept even when RESET was set *)
Lemma addlist_appends w o vs :
  oflag o CFGF_LIST = true -> scalar_kind (o_kind o) ->
  Forall (fun v => val_kind v = o_kind o) vs ->
  let o' := snd (addlist_internal w (o_clrf o CFGF_RESET) vs) in
  o_vals o' = o_vals o ++ map trunc vs /\ frame o o' /\ o_comment o' = o_comment o /\
  oflag o' CFGF_RESET = false.
Proof.
  intros L S F. cbv zeta. rewrite addlist_internal_eq.
  destruct (addlist_appends_gen vs w (o_clrf o CFGF_RESET)) as [V [Fr [C [R _]]]].
  - rewrite oflag_clrf_disj by reflexivity. exact L.
  - apply oflag_clrf_reset.
  - rewrite o_kind_clrf. exact S.
  - rewrite o_kind_clrf. exact F.
  - rewrite o_vals_clrf in V. split; [exact V|]. split.
    + eapply frame_trans; [apply frame_clrf_reset|exact Fr].
    + split; [|exact R]. rewrite C. destruct o; reflexivity.
Qed.

(* starting from no values the result is the new list, whatever RESET says *)
Lemma addlist_from_empty w o vs :
  oflag o CFGF_LIST = true -> scalar_kind (o_kind o) -> o_vals o = [] ->
  Forall (fun v => val_kind v = o_kind o) vs ->
  let o' := snd (addlist_internal w o vs) in
  o_vals o' = map trunc vs /\ frame o o' /\ o_comment o' = o_comment o.
Proof.
  intros L S E F. cbv zeta. rewrite addlist_internal_eq.
  destruct vs as [|v r].
  - cbn [fold_left snd map]. repeat split; auto using frame_refl.
  - cbn [fold_left map]. inversion F as [|v0 r0 Fv Fr]; subst.
    destruct (al_step_list w o v L S Fv) as [w1 [o1 [E1 E2]]]. rewrite E1.
    pose proof (setn_algebra _ _ _ _ _ _ _ E2) as [V1 [R1 [M1 [_ [K1 [_ [_ [_ [C1 Fl]]]]]]]]].
    pose proof (opt_setn_ok_frame _ _ _ _ _ _ _ E2) as [F1 _].
    rewrite E in V1. cbn [length app] in V1. change (N.of_nat 0) with 0%N in V1.
    assert (V1' : o_vals o1 = [trunc v]).
    { rewrite V1. destruct (oflag o CFGF_RESET); [reflexivity|].
      rewrite N.ltb_irrefl. reflexivity. }
    assert (L1 : oflag o1 CFGF_LIST = true) by (rewrite Fl by reflexivity; exact L).
    assert (S1 : scalar_kind (o_kind o1)) by (rewrite K1; exact S).
    assert (Fr1 : Forall (fun v => val_kind v = o_kind o1) r) by (rewrite K1; exact Fr).
    destruct (addlist_appends_gen r w1 o1 L1 R1 S1 Fr1) as [V2 [F2 [C2 _]]].
    split. { rewrite V2, V1'. reflexivity. }
    split. { eapply frame_trans; eassumption. }
    congruence.
Qed.

(* the effect of cfg_setlist / cfg_addlist on the tree *)
Section ListApi.
Variables (w : pw) (c : cfg) (name : str) (r : optref) (o : opt) (vs : list value).
Hypothesis Hres : fst (cfg_getopt c name) = Some r.
Hypothesis Hget : get_opt c r = Some o.
Hypothesis Hlist : oflag o CFGF_LIST = true.
Hypothesis Hkind : scalar_kind (o_kind o).
Hypothesis Hvs : Forall (fun v => val_kind v = o_kind o) vs.

Lemma cfg_addlist_appends :
  exists w' o', cfg_addlist w c name vs = (w', put_opt c r o', OK) /\
    o_vals o' = o_vals o ++ map trunc vs /\ frame o o' /\ o_comment o' = o_comment o /\
    oflag o' CFGF_RESET = false.
Proof.
  unfold cfg_addlist, with_opt. destruct (cfg_getopt c name) as [ro ds]. unfold fst at 1 in Hres. subst ro.
  rewrite Hget, Hlist. cbn [negb].
  pose proof (addlist_appends (add_diags w ds) o vs Hlist Hkind Hvs) as H. cbv zeta in H.
  destruct (addlist_internal (add_diags w ds) (o_clrf o CFGF_RESET) vs) as [w1 o2]. unfold snd in H.
  exists w1, o2. split; [reflexivity|exact H].
Qed.

Lemma cfg_setlist_replaces :
  exists w' o', cfg_setlist w c name vs = (w', put_opt c r o', OK) /\
    o_vals o' = map trunc vs /\ frame o o' /\ (o_comment o' = None \/ o_comment o' = o_comment o).
Proof.
  unfold cfg_setlist, with_opt. destruct (cfg_getopt c name) as [ro ds]. unfold fst at 1 in Hres. subst ro.
  rewrite Hget, Hlist. cbn [negb].
  pose proof (frame_free_value o) as F0.
  assert (V0 : o_vals (fst (free_value o)) = []).
  { unfold free_value; cbv zeta; unfold fst.
    match goal with |- o_vals (set_vals ?x []) = [] => destruct x; reflexivity end. }
  assert (C0 : o_comment (fst (free_value o)) = None \/ o_comment (fst (free_value o)) = o_comment o).
  { unfold free_value; cbv zeta; unfold fst.
    match goal with |- context [if ?b then set_comment o None else o] => destruct b end.
    - left. destruct o; reflexivity.
    - right. destruct o; reflexivity. }
  destruct (free_value o) as [o1 fr]. unfold fst in F0, V0, C0.
  set (o1m := o_setf o1 CFGF_MODIFIED).
  assert (Fm : frame o o1m) by (eapply frame_trans; [exact F0|apply frame_setf_modified]).
  assert (L1 : oflag o1m CFGF_LIST = true) by (rewrite (frame_oflag _ _ CFGF_LIST Fm) by reflexivity; exact Hlist).
  assert (K1 : o_kind o1m = o_kind o) by apply (fr_kind _ _ Fm).
  assert (S1 : scalar_kind (o_kind o1m)) by (rewrite K1; exact Hkind).
  assert (E1 : o_vals o1m = []) by (subst o1m; rewrite o_vals_setf; exact V0).
  assert (Fv : Forall (fun v => val_kind v = o_kind o1m) vs) by (rewrite K1; exact Hvs).
  pose proof (addlist_from_empty (log_frees (add_diags w ds) fr) o1m vs L1 S1 E1 Fv) as H. cbv zeta in H.
  destruct (addlist_internal (log_frees (add_diags w ds) fr) o1m vs) as [w1 o2]. unfold snd in H.
  destruct H as [V [F C]].
  exists w1, o2. split; [reflexivity|]. split; [exact V|]. split.
  - eapply frame_trans; eassumption.
  - rewrite C. subst o1m. destruct o1; exact C0.
Qed.
End ListApi.

(* typedness through cfg_addlist_internal: no hypothesis on the elements *)
Lemma al_step_typed a v : typed (snd a) -> typed (snd (al_step a v)).
Proof.
  destruct a as [w o]. unfold snd at 1. intro T. unfold al_step.
  set (k := match v with VInt _ => KInt | VFloat _ => KFloat | VBool _ => KBool | VStr _ => KStr | _ => KNone end).
  set (v' := match v with VInt z => VInt (to_sint32 z) | x => x end).
  assert (X : scalar_kind (o_kind o) -> typed (snd (fst (opt_setn w o k v' (N.of_nat (length (o_vals o))))))).
  { intro S.
    destruct (kind_eqb (o_kind o) k) eqn:K.
    - apply opt_setn_typed; [|exact T].
      apply kind_eqb_eq in K. subst k v'.
      destruct v; try reflexivity; exfalso; destruct S as [S|[S|[S|S]]]; rewrite S in K; discriminate.
    - rewrite opt_setn_kind by exact K. exact T. }
  destruct (opt_setn w o k v' (N.of_nat (length (o_vals o)))) as [[w1 o1] rc]. unfold fst, snd in X.
  unfold scalar_kind in X.
  destruct (o_kind o); try exact T; apply X; auto.
Qed.

Lemma addlist_internal_typed w o vs : typed o -> typed (snd (addlist_internal w o vs)).
Proof.
  rewrite addlist_internal_eq.
  change (typed o) with (typed (snd (w, o))). generalize (w, o) as a.
  induction vs as [|v r IH]; intros a T; cbn [fold_left]; [exact T|].
  apply IH. apply al_step_typed. exact T.
Qed.

(* ================================================================== *)
(* C09 (h): cfg_addtsec keeps titles unique                             *)
(* ================================================================== *)

Lemma byte_eqb_sym x y : Byte.eqb x y = Byte.eqb y x.
Proof.
  destruct (Byte.eqb x y) eqn:E.
  - apply Byte.byte_dec_bl in E. subst y. symmetry. apply Byte.byte_dec_lb. reflexivity.
  - destruct (Byte.eqb y x) eqn:E2; [|reflexivity].
    apply Byte.byte_dec_bl in E2. subst y. rewrite (Byte.byte_dec_lb eq_refl) in E. discriminate.
Qed.

Lemma str_eqb_sym a b : str_eqb a b = str_eqb b a.
Proof.
  destruct (str_eqb a b) eqn:E.
  - apply str_eqb_eq in E. subst b. symmetry. apply str_eqb_refl.
  - destruct (str_eqb b a) eqn:E2; [|reflexivity].
    apply str_eqb_eq in E2. subst b. rewrite str_eqb_refl in E. discriminate.
Qed.

Lemma str_caseeqb_sym a : forall b, str_caseeqb a b = str_caseeqb b a.
Proof.
  induction a as [|x a IH]; intros [|y b]; cbn [str_caseeqb]; try reflexivity.
  rewrite byte_eqb_sym, IH. reflexivity.
Qed.

Lemma str_caseeqb_refl a : str_caseeqb a a = true.
Proof.
  induction a as [|x a IH]; cbn [str_caseeqb]; [reflexivity|].
  rewrite IH, (Byte.byte_dec_lb eq_refl). reflexivity.
Qed.

Lemma name_eqb_sym nc a b : name_eqb nc a b = name_eqb nc b a.
Proof. unfold name_eqb. destruct nc; [apply str_caseeqb_sym|apply str_eqb_sym]. Qed.

(* different without regard to case implies different *)
Lemma name_eqb_weaken a b x y : name_eqb (a || b) x y = false -> name_eqb b x y = false.
Proof.
  destruct a; [|exact (fun H => H)]. destruct b; [exact (fun H => H)|].
  cbn [orb]. unfold name_eqb. intro H.
  destruct (str_eqb x y) eqn:E; [|reflexivity].
  apply str_eqb_eq in E. subst y. rewrite str_caseeqb_refl in H. discriminate.
Qed.

Definition inst_title (v : value) : option str :=
  match v with VSec (Some s) => c_title s | _ => None end.

Definition titles (o : opt) : list (option str) := map inst_title (o_vals o).

(* no two instances carry titles that the title lookup (cfg_opt_gettsecidx) would identify;
   nc = the NOCASE flag of the instances' contexts *)
Definition title_unique (nc : bool) (o : opt) : Prop :=
  forall i j a b, i <> j ->
    nth_error (titles o) i = Some (Some a) -> nth_error (titles o) j = Some (Some b) ->
    name_eqb (oflag o CFGF_NOCASE || nc) a b = false.

Definition titled_inst (nc : bool) (v : value) : Prop :=
  exists s t, v = VSec (Some s) /\ c_title s = Some t /\ cflag s CFGF_NOCASE = nc.

Definition all_titled (nc : bool) (o : opt) : Prop := Forall (titled_inst nc) (o_vals o).

Lemma gettsecidx_from_none on nc t vals : forall i,
  Forall (titled_inst nc) vals -> gettsecidx_from on vals t i = None ->
  Forall (fun v => forall t', inst_title v = Some t' -> name_eqb (on || nc) t t' = false) vals.
Proof.
  induction vals as [|v r IH]; intros i F G; [constructor|].
  pose proof (Forall_inv_tail F) as Fr. pose proof (Forall_inv F) as [s [t0 [-> [T N]]]].
  cbn [gettsecidx_from] in G. rewrite T, N in G.
  destruct (name_eqb (on || nc) t t0) eqn:E; [discriminate|].
  constructor.
  - cbn [inst_title]. intros t' Ht'. rewrite T in Ht'. injection Ht' as <-. exact E.
  - eapply IH; eassumption.
Qed.

Lemma so_look_none c t vals : forall i,
  Forall (titled_inst (cflag c CFGF_NOCASE)) vals ->
  Forall (fun v => forall t', inst_title v = Some t' -> name_eqb (cflag c CFGF_NOCASE) t t' = false) vals ->
  so_look c (Some t) vals i = inl None.
Proof.
  induction vals as [|v r IH]; intros i F G; [reflexivity|].
  pose proof (Forall_inv_tail F) as Fr. pose proof (Forall_inv F) as [s [t0 [-> [T N]]]].
  pose proof (Forall_inv_tail G) as Gr. pose proof (Forall_inv G) as Gv. cbv beta in Gv.
  cbn [so_look]. rewrite T. rewrite (Gv t0) by (cbn [inst_title]; exact T).
  apply IH; assumption.
Qed.

Lemma nth_error_app_last {A} (l : list A) x : nth_error (l ++ [x]) (length l) = Some x.
Proof. rewrite nth_error_app2 by lia. rewrite Nat.sub_diag. reflexivity. Qed.

(* cfg_setopt on a titled multi section whose lookup did not find the title: one instance appended *)
Lemma so_body_newsec strtod_o initd nc w c o title w1 o1 idx :
  (forall w c, c_title (snd (initd w c)) = c_title c /\ c_flags (snd (initd w c)) = c_flags c) ->
  o_kind o = KSec -> oflag o CFGF_TITLE = true -> oflag o CFGF_MULTI = true -> oflag o CFGF_RESET = false ->
  all_titled nc o -> cflag c CFGF_NOCASE = nc ->
  match title with Some t => gettsecidx o t = None | None => True end ->
  so_body strtod_o initd w c o title = (w1, o1, Some idx) ->
  idx = length (o_vals o) /\
  exists s, o_vals o1 = o_vals o ++ [VSec (Some s)] /\ c_title s = title /\ cflag s CFGF_NOCASE = nc /\ frame o o1.
Proof.
  intros Hi K T M R AT NC G.
  unfold so_body, so_reset. rewrite R.
  assert (SL : so_slot c w o title = None \/ so_slot c w o title = Some (w, addval o, length (o_vals o))).
  { unfold so_slot. cbv zeta. rewrite M, T, K. rewrite orb_true_r. cbn [orb kind_eqb andb].
    destruct (negb (Nat.eqb (length (o_vals o)) 0) && match title with None => true | Some _ => false end) eqn:E1;
      [left; reflexivity|right].
    destruct title as [t|].
    - rewrite so_look_none; [reflexivity| |].
      + rewrite NC. exact AT.
      + rewrite NC. unfold gettsecidx in G. apply (gettsecidx_from_none _ nc) in G; [|exact AT].
        eapply Forall_impl; [|exact G]. cbv beta. intros v Hv t' Ht'. eapply name_eqb_weaken. apply Hv. exact Ht'.
    - rewrite andb_true_r in E1. apply negb_false_iff in E1. apply Nat.eqb_eq in E1.
      destruct (o_vals o); [reflexivity|discriminate]. }
  destruct SL as [-> | ->].
  { intro H. discriminate. }
  unfold so_conv. cbv zeta.
  assert (K1 : o_kind (addval o) = KSec) by (rewrite <- K; apply (fr_kind _ _ (frame_addval o))).
  rewrite K1.
  assert (V1 : o_vals (addval o) = o_vals o ++ [zero_value (o_kind o)]) by (destruct o; reflexivity).
  rewrite V1, K. cbn [zero_value]. rewrite nth_error_app_last.
  assert (M1 : oflag (addval o) CFGF_MULTI = true).
  { rewrite (frame_oflag _ _ CFGF_MULTI (frame_addval o)) by reflexivity. exact M. }
  rewrite M1. cbn [orb].
  match goal with |- context [initd ?a ?b] => pose proof (Hi a b) as Ht; destruct (initd a b) as [w3 sec'] end.
  unfold snd in Ht. cbn [c_title c_flags] in Ht. destruct Ht as [Ht Hf].
  unfold so_store. intro H. injection H as _ <- <-.
  split; [reflexivity|].
  exists sec'. split.
  { rewrite o_vals_setf. destruct (addval o) eqn:EA. cbn [set_vals o_vals] in *. rewrite V1.
    apply upd_nth_app_last. }
  split; [exact Ht|].
  split.
  { unfold cflag. rewrite Hf. rewrite <- NC. unfold cflag.
    destruct (oflag (addval o) CFGF_KEYSTRVAL); [|reflexivity].
    unfold setf. apply has_lor_disj. reflexivity. }
  eapply frame_trans; [apply frame_addval|].
  eapply frame_trans; [apply frame_set_vals|apply frame_setf_modified].
Qed.

Lemma nth_error_titles_app o o' s :
  o_vals o' = o_vals o ++ [VSec (Some s)] ->
  titles o' = titles o ++ [c_title s].
Proof. intro H. unfold titles. rewrite H, map_app. reflexivity. Qed.

Lemma gettsecidx_none_titles nc o t :
  all_titled nc o -> gettsecidx o t = None ->
  forall i a, nth_error (titles o) i = Some (Some a) -> name_eqb (oflag o CFGF_NOCASE || nc) t a = false.
Proof.
  intros AT G. unfold gettsecidx in G. apply (gettsecidx_from_none _ nc) in G; [|exact AT].
  unfold titles. intros i a H.
  rewrite nth_error_map in H. destruct (nth_error (o_vals o) i) as [v|] eqn:N; [|discriminate].
  cbn [option_map] in H. injection H as H.
  rewrite Forall_forall in G. apply (G v); [eapply nth_error_In; exact N|exact H].
Qed.

Section AddTsec.
Variable strtod_o : str -> strtod_res.
Variables (fuel : nat) (w : pw) (c : cfg) (name : str) (title : option str) (r : optref) (o : opt) (nc : bool).
Hypothesis Hres : fst (cfg_getopt c name) = Some r.
Hypothesis Hget : get_opt c r = Some o.
Hypothesis Hkind : o_kind o = KSec.
Hypothesis Htitle : oflag o CFGF_TITLE = true.
Hypothesis Hmulti : oflag o CFGF_MULTI = true.
Hypothesis Hreset : oflag o CFGF_RESET = false.
Hypothesis Hall : all_titled nc o.
Hypothesis Hnc : cflag c CFGF_NOCASE = nc.

Lemma addtsec_appends w' c' :
  cfg_addtsec strtod_o fuel w c name title = (w', c', true) ->
  exists o' s,
    c' = put_opt c r o' /\
    o_vals o' = o_vals o ++ [VSec (Some s)] /\
    c_title s = title /\
    frame o o' /\
    (title <> None -> all_titled nc o') /\
    (title_unique nc o -> title_unique nc o').
Proof.
  unfold cfg_addtsec. destruct (cfg_getopt c name) as [ro ds]. unfold fst at 1 in Hres. subst ro.
  rewrite Hget, Htitle, Hkind. cbn [kind_eqb andb negb].
  assert (G : match title with Some t => gettsecidx o t = None | None => True end ->
              forall X : pw * cfg * bool,
              (let '(w1, o1, res) := setopt strtod_o fuel (add_diags (add_diags w ds) ds) c o title in
               match res with
               | None => (w1, put_opt c r o1, false)
               | Some idx =>
                   match nth_error (o_vals o1) idx with
                   | Some (VSec (Some s)) =>
                       let s1 := set_err (set_line s 1) (c_err c) in
                       (w1, put_opt c r (set_vals o1 (upd_nth (o_vals o1) idx (fun _ => VSec (Some s1)))), true)
                   | _ => (set_crash w1 "wild-write:cfg_addtsec", put_opt c r o1, false)
                   end
               end) = (w', c', true) ->
              exists o' s, c' = put_opt c r o' /\ o_vals o' = o_vals o ++ [VSec (Some s)] /\
                c_title s = title /\ frame o o' /\ (title <> None -> all_titled nc o') /\
                (title_unique nc o -> title_unique nc o')).
  { intros Gt _.
    destruct fuel as [|fuel'].
    { rewrite setopt_O. intro H. discriminate. }
    rewrite setopt_S.
    destruct (so_body strtod_o (init_defaults strtod_o fuel') (add_diags (add_diags w ds) ds) c o title)
      as [[w1 o1] res] eqn:E.
    destruct res as [idx|]; [|intro H; discriminate].
    apply (so_body_newsec strtod_o _ nc) in E; try assumption;
      [|intros w0 c0; split; [apply init_defaults_title|apply init_defaults_flags]].
    destruct E as [-> [s [V [Ts [Ns F]]]]].
    rewrite V, nth_error_app_last. cbv zeta.
    intro H. injection H as _ <-.
    set (s1 := set_err (set_line s 1) (c_err c)).
    exists (set_vals o1 (upd_nth (o_vals o ++ [VSec (Some s)]) (length (o_vals o)) (fun _ => VSec (Some s1)))), s1.
    split; [reflexivity|].
    assert (V' : o_vals (set_vals o1 (upd_nth (o_vals o ++ [VSec (Some s)]) (length (o_vals o)) (fun _ => VSec (Some s1))))
                 = o_vals o ++ [VSec (Some s1)]).
    { rewrite upd_nth_app_last. destruct o1; reflexivity. }
    assert (Ts1 : c_title s1 = title) by (subst s1; destruct s; exact Ts).
    assert (F' : frame o (set_vals o1 (upd_nth (o_vals o ++ [VSec (Some s)]) (length (o_vals o)) (fun _ => VSec (Some s1)))))
      by (eapply frame_trans; [exact F|apply frame_set_vals]).
    split; [exact V'|]. split; [exact Ts1|]. split; [exact F'|].
    split.
    { intro NN. unfold all_titled. rewrite V'. apply Forall_app. split; [exact Hall|].
      constructor; [|constructor].
      destruct title as [t|]; [|contradiction].
      exists s1, t. split; [reflexivity|]. split; [exact Ts1|].
      subst s1. destruct s; exact Ns. }
    (* uniqueness *)
    intro U. unfold title_unique.
    rewrite (frame_oflag _ _ CFGF_NOCASE F') by reflexivity.
    rewrite (nth_error_titles_app _ _ _ V'), Ts1.
    assert (Ln : length (titles o) = length (o_vals o)) by (unfold titles; apply map_length).
    intros i j a b D Hi Hj.
    destruct (Nat.lt_ge_cases i (length (titles o))) as [Li|Li];
      destruct (Nat.lt_ge_cases j (length (titles o))) as [Lj|Lj].
    - rewrite nth_error_app1 in Hi, Hj by assumption. eapply U; eassumption.
    - rewrite nth_error_app1 in Hi by assumption. rewrite nth_error_app2 in Hj by assumption.
      destruct (j - length (titles o)) as [|k]; [|destruct k; discriminate].
      cbn [nth_error] in Hj. injection Hj as Hj. rewrite Hj in Gt.
      rewrite name_eqb_sym. eapply gettsecidx_none_titles; eassumption.
    - rewrite nth_error_app1 in Hj by assumption. rewrite nth_error_app2 in Hi by assumption.
      destruct (i - length (titles o)) as [|k]; [|destruct k; discriminate].
      cbn [nth_error] in Hi. injection Hi as Hi. rewrite Hi in Gt.
      eapply gettsecidx_none_titles; eassumption.
    - exfalso. rewrite nth_error_app2 in Hi, Hj by assumption.
      destruct (i - length (titles o)) as [|k] eqn:Ei; [|destruct k; discriminate].
      destruct (j - length (titles o)) as [|k] eqn:Ej; [|destruct k; discriminate].
      lia. }
  destruct title as [t|].
  - destruct (gettsecidx o t) eqn:Gt.
    + intro H. discriminate.
    + apply (G eq_refl (w, c, true)).
  - apply (G I (w, c, true)).
Qed.

End AddTsec.

(* ================================================================== *)
(* C10 (d): cfg_setopt itself is not atomic (known finding)             *)
(* ================================================================== *)

Definition ex_sd (s : str) : strtod_res := {| sd_bits := 0; sd_consumed := 0; sd_erange := false |}.
Definition ex_w0 : pw :=
  {| w_lex := lex_init; w_env := []; w_fs := {| fs_root := bs_of_string "/R"; fs_ents := [] |};
     w_pw := {| pw_tab := []; pw_self := None |}; w_path := []; w_cbs := []; w_cnt := 0; w_failat := 0;
     w_nextptr := 1; w_diags := []; w_open := 0; w_crash := None; w_oof := false |}.
Definition ex_root : cfg := Cfg (bs_of_string "root") None 0 [] None 0 true None.
Definition ex_pristine : opt := Opt (bs_of_string "i") KInt CFGF_RESET [VInt 7] [] defv0 None cbset0.

Lemma setopt_text_not_atomic :
  exists (strtod_o : str -> strtod_res) (fuel : nat) (w : pw) (c : cfg) (o : opt) (txt : str),
    o_kind o = KInt /\ oflag o CFGF_RESET = true /\ o_vals o = [VInt 7] /\
    snd (setopt strtod_o fuel w c o (Some txt)) = None /\
    o_vals (snd (fst (setopt strtod_o fuel w c o (Some txt)))) = [VInt 0] /\
    oflag (snd (fst (setopt strtod_o fuel w c o (Some txt)))) CFGF_RESET = false /\
    w_oof (fst (fst (setopt strtod_o fuel w c o (Some txt)))) = false.
Proof.
  exists ex_sd, 1, ex_w0, ex_root, ex_pristine, (bs_of_string "x").
  vm_compute. repeat split; reflexivity.
Qed.

(* ================================================================== *)
(* the C10 statements assembled                                         *)
(* ================================================================== *)

Lemma setter_refusals (strtod_o : str -> strtod_res) (w : pw) (c : cfg) (name : str) (index : N) :
  (* the name does not resolve *)
  (fst (cfg_getopt c name) = None ->
   forall z b bl s vs ms cm fuel,
     refused (cfg_setnint w c name z index) c FAIL /\
     refused (cfg_setnfloat w c name b index) c FAIL /\
     refused (cfg_setnbool w c name bl index) c FAIL /\
     refused (cfg_setnstr w c name s index) c FAIL /\
     refused (cfg_setlist w c name vs) c FAIL /\
     refused (cfg_addlist w c name vs) c FAIL /\
     refused (cfg_setmulti strtod_o fuel w c name ms) c FAIL /\
     refused (cfg_setcomment w c name cm) c FAIL) /\
  (* the name resolves to the option o *)
  (forall r o, fst (cfg_getopt c name) = Some r -> get_opt c r = Some o ->
   (* the kind differs *)
   (forall z, o_kind o <> KInt -> refused (cfg_setnint w c name z index) c FAIL) /\
   (forall b, o_kind o <> KFloat -> refused (cfg_setnfloat w c name b index) c FAIL) /\
   (forall b, o_kind o <> KBool -> refused (cfg_setnbool w c name b index) c FAIL) /\
   (forall s, o_kind o <> KStr -> refused (cfg_setnstr w c name s index) c FAIL) /\
   (* an index on a plain option *)
   (index <> 0%N -> oflag o CFGF_LIST = false -> oflag o CFGF_MULTI = false ->
    forall z b bl s,
      refused (cfg_setnint w c name z index) c FAIL /\
      refused (cfg_setnfloat w c name b index) c FAIL /\
      refused (cfg_setnbool w c name bl index) c FAIL /\
      refused (cfg_setnstr w c name s index) c FAIL) /\
   (* the validation callback objects *)
   (forall z, snd (run_validcb2 w o (V2Int z)) = true -> refused (cfg_setnint w c name z index) c FAIL) /\
   (forall b, snd (run_validcb2 w o (V2Float b)) = true -> refused (cfg_setnfloat w c name b index) c FAIL) /\
   (forall s, snd (run_validcb2 w o (V2Str s)) = true -> refused (cfg_setnstr w c name s index) c FAIL) /\
   (* list calls on a non-list *)
   (oflag o CFGF_LIST = false ->
    forall vs, refused (cfg_setlist w c name vs) c FAIL /\ refused (cfg_addlist w c name vs) c FAIL) /\
   (* nothing to set *)
   (forall fuel, refused (cfg_setmulti strtod_o fuel w c name []) c FAIL) /\
   refused (cfg_setcomment w c name None) c FAIL).
Proof.
  split.
  - intros H z b bl s vs ms cm fuel.
    destruct (setters_unresolved strtod_o w c name index z b bl s vs ms cm H)
      as [H1 [H2 [H3 [H4 [H5 [H6 [H7 H8]]]]]]].
    split; [exact H1|]. split; [exact H2|]. split; [exact H3|]. split; [exact H4|].
    split; [exact H5|]. split; [exact H6|]. split; [apply H7|exact H8].
  - intros r o Hr Hg.
    split. { intros; eapply setnint_kind; eassumption. }
    split. { intros; eapply setnfloat_kind; eassumption. }
    split. { intros; eapply setnbool_kind; eassumption. }
    split. { intros; eapply setnstr_kind; eassumption. }
    split. { intros Hi Hl Hm z b bl s.
             split; [eapply setnint_index; eassumption|].
             split; [eapply setnfloat_index; eassumption|].
             split; [eapply setnbool_index; eassumption|eapply setnstr_index; eassumption]. }
    split. { intros; eapply setnint_validcb2; eassumption. }
    split. { intros; eapply setnfloat_validcb2; eassumption. }
    split. { intros; eapply setnstr_validcb2; eassumption. }
    split. { intros L vs. split; [eapply setlist_nolist|eapply addlist_nolist]; eassumption. }
    split. { intros; eapply setmulti_nil; eassumption. }
    eapply setcomment_none; eassumption.
Qed.

Lemma section_refusals (strtod_o : str -> strtod_res) (w : pw) (c : cfg) (name : str) :
  (fst (cfg_getopt c name) = None ->
   forall fuel title, refused (cfg_addtsec strtod_o fuel w c name title) c false) /\
  (rs_opt (getopt_secidx c name true) = None -> refused (cfg_rmsec w c name) c FAIL) /\
  (forall r o, fst (cfg_getopt c name) = Some r -> get_opt c r = Some o ->
   (* cfg_addtsec: the title is taken / not a section *)
   (forall fuel t i, oflag o CFGF_TITLE = true -> o_kind o = KSec -> gettsecidx o t = Some i ->
      refused (cfg_addtsec strtod_o fuel w c name (Some t)) c false) /\
   (forall fuel title, o_kind o <> KSec -> refused (cfg_addtsec strtod_o fuel w c name title) c false) /\
   (* cfg_rmnsec: index out of range / not a section *)
   (forall index, (N.of_nat (length (o_vals o)) <= index)%N -> refused (cfg_rmnsec w c name index) c FAIL) /\
   (forall index, o_kind o <> KSec -> refused (cfg_rmnsec w c name index) c FAIL) /\
   (* cfg_rmtsec: no title given / option without TITLE / unknown title *)
   refused (cfg_rmtsec w c name None) c FAIL /\
   (forall t, oflag o CFGF_TITLE = false -> refused (cfg_rmtsec w c name (Some t)) c FAIL) /\
   (forall t, gettsecidx o t = None -> refused (cfg_rmtsec w c name (Some t)) c FAIL)).
Proof.
  split. { intros; apply addtsec_unresolved; assumption. }
  split. { intros; apply rmsec_unresolved; assumption. }
  intros r o Hr Hg.
  split. { intros; eapply addtsec_exists; eassumption. }
  split. { intros; eapply addtsec_notsec; eassumption. }
  split. { intros; eapply rmnsec_range; eassumption. }
  split. { intros; eapply rmnsec_notsec; eassumption. }
  split. { eapply rmtsec_none; eassumption. }
  split. { intros; eapply rmtsec_notitle; eassumption. }
  intros; eapply rmtsec_unknown; eassumption.
Qed.

(* every by-name call that answers CFG_FAIL hands back the tree it was given *)
Lemma fail_atomic (strtod_o : str -> strtod_res) (w : pw) (c : cfg) (name : str) (w' : pw) (c' : cfg) :
  (forall z index, cfg_setnint w c name z index = (w', c', FAIL) -> c' = c) /\
  (forall b index, cfg_setnfloat w c name b index = (w', c', FAIL) -> c' = c) /\
  (forall b index, cfg_setnbool w c name b index = (w', c', FAIL) -> c' = c) /\
  (forall s index, cfg_setnstr w c name s index = (w', c', FAIL) -> c' = c) /\
  (forall vs, cfg_setlist w c name vs = (w', c', FAIL) -> c' = c) /\
  (forall vs, cfg_addlist w c name vs = (w', c', FAIL) -> c' = c) /\
  (forall fuel vals, cfg_setmulti strtod_o fuel w c name vals = (w', c', FAIL) -> c' = c) /\
  (forall cm, cfg_setcomment w c name cm = (w', c', FAIL) -> c' = c) /\
  (forall index, cfg_rmnsec w c name index = (w', c', FAIL) -> c' = c) /\
  (forall title, cfg_rmtsec w c name title = (w', c', FAIL) -> c' = c) /\
  (cfg_rmsec w c name = (w', c', FAIL) -> c' = c).
Proof.
  split. { intros; eapply cfg_setnint_fail_atomic; eassumption. }
  split. { intros; eapply cfg_setnfloat_fail_atomic; eassumption. }
  split. { intros; eapply cfg_setnbool_fail_atomic; eassumption. }
  split. { intros; eapply cfg_setnstr_fail_atomic; eassumption. }
  split. { intros; eapply cfg_setlist_fail_atomic; eassumption. }
  split. { intros; eapply cfg_addlist_fail_atomic; eassumption. }
  split. { intros; eapply cfg_setmulti_fail_atomic; eassumption. }
  split. { intros; eapply cfg_setcomment_fail_atomic; eassumption. }
  split. { intros; eapply cfg_rmnsec_fail_atomic; eassumption. }
  split. { intros; eapply cfg_rmtsec_fail_atomic; eassumption. }
  intros; eapply cfg_rmsec_fail_atomic; eassumption.
Qed.

(* C09 (i) assembled *)
Lemma typed_preserved :
  (forall w o k v index, val_kind v = k -> typed o -> typed (snd (fst (opt_setn w o k v index)))) /\
  (forall w o vs, typed o -> typed (snd (addlist_internal w o vs))) /\
  (forall w o index, typed o -> typed (snd (fst (opt_rmnsec w o index)))) /\
  (forall w o k v index, scalar_ok o -> scalar_ok (snd (fst (opt_setn w o k v index)))).
Proof.
  split; [exact opt_setn_typed|]. split; [exact addlist_internal_typed|].
  split; [exact opt_rmnsec_typed|exact opt_setn_scalar_ok].
Qed.

Lemma setopt_frame_fields (strtod_o : str -> strtod_res) (fuel : nat) (w : pw) (c : cfg) (o : opt) (txt : option str) :
  let o' := snd (fst (setopt strtod_o fuel w c o txt)) in
  o_name o' = o_name o /\ o_kind o' = o_kind o /\ o_sub o' = o_sub o /\ o_def o' = o_def o /\
  o_cbs o' = o_cbs o /\
  N.ldiff (o_flags o') (N.lor CFGF_RESET CFGF_MODIFIED) = N.ldiff (o_flags o) (N.lor CFGF_RESET CFGF_MODIFIED) /\
  (o_comment o = None -> o_comment o' = None).
Proof.
  cbv zeta. destruct (setopt_frame strtod_o fuel w c o txt) as [A B C D E F G].
  repeat split; assumption.
Qed.
