(* IncProofs.v — C06 (2), with includes: whatever is included, every diagnostic names the file parsed at
   entry, the file of a pending include frame, or a file that cfg_include() was able to open. *)
From Coq Require String.
Import String.StringSyntax.
From Coq Require Import List Arith NArith ZArith Bool Lia.
From Coq.Strings Require Import Byte.
From LC Require Import Bytes Consts Conv Flex LexAct LexRules Lexer LexLemmas LexAll LineProofs Files Store Parser
     HdrProofs ApiProofs BalanceProofs PathProofs DiagGen DiagProofs DiagGenJ PosProofs.
Import ListNotations.
Set Warnings "-unused-intro-pattern".
Local Open Scope string_scope.
Local Open Scope list_scope.

Section Files.
Variable F : option str -> Prop.          (* the acceptable file tags *)

Definition frames_ok (l : lexst) : Prop := Forall (fun fr => F (i_file fr)) (l_inc l).

Lemma lex_step_files e s p : frames_ok s -> F (p_file p) ->
  frames_ok (step_state (lex_step e s p)) /\ F (p_file (step_pos (lex_step e s p))) /\
  (forall t v s2 p2 d k, lex_step e s p = LRet t v s2 p2 d k -> forall x, In x d -> d_file x = p_file p2).
Proof.
  intros Hf Hp. unfold lex_step. destruct (l_bufs s) as [|[id inp] others] eqn:Hb.
  - cbn [step_state step_pos]. split; [exact Hf|]. split; [exact Hp|].
    intros ? ? ? ? ? ? HH; inversion HH; subst. intros x [].
  - destruct (munch (active_res (l_sc s)) inp 0 None) as [[i n]|] eqn:Hm.
    + destruct (nth_error (active_rules (l_sc s)) i) as [r|] eqn:Hr.
      * pose proof (run_action_frame e (r_act r) (firstn n inp) (set_bufs s ((id, skipn n inp) :: others)) p) as (_ & F2 & _).
        pose proof (run_action_line e (r_act r) (firstn n inp) (set_bufs s ((id, skipn n inp) :: others)) p) as (L1 & _).
        destruct (run_action e (r_act r) (firstn n inp) (set_bufs s ((id, skipn n inp) :: others)) p) eqn:Ha;
          cbn [step_state step_pos out_state out_pos] in *.
        -- split; [unfold frames_ok; rewrite F2; exact Hf|]. split; [rewrite L1; exact Hp|].
           intros ? ? ? ? ? ? HH; discriminate HH.
        -- split; [unfold frames_ok; rewrite F2; exact Hf|]. split; [rewrite L1; exact Hp|].
           intros ? ? ? ? ? ? HH; inversion HH; subst. intros x Hx. eapply run_action_diag; eassumption.
      * cbn [step_state step_pos]. split; [exact Hf|]. split; [exact Hp|].
        intros ? ? ? ? ? ? HH; inversion HH; subst. intros x [].
    + destruct inp as [|c rest].
      * unfold run_eof. destruct (eof_action_of (l_sc s)) as [[| | |k0]|];
          try (cbn [step_state step_pos]; split; [exact Hf|]; split; [exact Hp|];
               intros ? ? ? ? ? ? HH; inversion HH; subst; intros x Hx; cbn [In] in Hx;
               first [contradiction | destruct Hx as [<-|[]]; reflexivity]).
        destruct (l_rderr s).
        -- cbn [step_state step_pos]. split; [exact Hf|]. split; [exact Hp|].
           intros ? ? ? ? ? ? HH; inversion HH; subst; intros x Hx; cbn [In] in Hx.
           destruct Hx as [<-|[]]; reflexivity.
        -- destruct (l_inc s) as [|fr rest] eqn:Ei.
           ++ cbn [step_state step_pos]. split; [exact Hf|]. split; [exact Hp|].
              intros ? ? ? ? ? ? HH; inversion HH; subst. intros x [].
           ++ unfold frames_ok in Hf. rewrite Ei in Hf. inversion Hf; subst.
              destruct (match cur_buf_id s with Some id0 => Nat.eqb id0 (i_buf fr) | None => false end);
                cbn [step_state step_pos scan_end set_inc l_inc p_file].
              ** split; [assumption|]. split; [assumption|]. intros ? ? ? ? ? ? HH; discriminate HH.
              ** split; [unfold frames_ok; rewrite Ei; exact Hf|]. split; [exact Hp|].
                 intros ? ? ? ? ? ? HH; inversion HH; subst. intros x [].
      * cbn [step_state step_pos]. split; [exact Hf|]. split; [exact Hp|].
        intros ? ? ? ? ? ? HH; discriminate HH.
Qed.

Lemma yylex_files e : forall fuel s p closed, frames_ok s -> F (p_file p) ->
  let r := yylex e fuel s p closed in
  frames_ok (r_st r) /\ F (p_file (r_pos r)) /\ (forall x, In x (r_diags r) -> d_file x = p_file (r_pos r)).
Proof.
  induction fuel as [|fuel IH]; intros s p closed Hf Hp; cbn [yylex].
  - cbn. split; [exact Hf|]. split; [exact Hp|]. intros x [].
  - destruct (lex_step_files e s p Hf Hp) as (A & B & C).
    destruct (lex_step e s p) as [s2 p2 k|t v s2 p2 d k] eqn:Hs; cbn [step_state step_pos] in *.
    + apply IH; assumption.
    + cbn. split; [exact A|]. split; [exact B|]. eapply C. reflexivity.
Qed.

Variable fs0 : fsys.
Variable D0 : list diag.
Hypothesis F_some : forall x, F x -> x <> None.
Hypothesis F_open : forall name content, open_input fs0 name = Some content -> F (Some name).

Definition Wst (w : pw) : Prop :=
  w_fs w = fs0 /\ frames_ok (w_lex w) /\ exists ds, w_diags w = ds ++ D0 /\ Forall (fun d => F (d_file d)) ds.
Definition Rw (w w' : pw) : Prop := Wst w -> Wst w'.
Definition J (w : pw) (c : cfg) : Prop := Wst w /\ F (c_file c).

Lemma Rw_add w w' ds : l_inc (w_lex w') = l_inc (w_lex w) -> w_fs w' = w_fs w -> w_diags w' = ds ++ w_diags w ->
  (Wst w -> Forall (fun d => F (d_file d)) ds) -> Rw w w'.
Proof.
  intros El Ef Ed Hds Hw. pose proof (Hds Hw) as Hd. destruct Hw as (A & B & ds0 & E1 & E2).
  split; [congruence|]. split; [unfold frames_ok in *; rewrite El; exact B|].
  exists (ds ++ ds0). split; [rewrite Ed, E1; apply app_assoc|]. apply Forall_app. auto.
Qed.

Lemma Rw_same w w' : l_inc (w_lex w') = l_inc (w_lex w) -> w_fs w' = w_fs w -> w_diags w' = w_diags w -> Rw w w'.
Proof. intros A B C. apply (Rw_add w w' []); auto. Qed.

Lemma Rw_diag w c m : J w c -> Rw w (add_diags w (cfg_diag c m)).
Proof.
  intros (Hw & Hf). apply (Rw_add _ _ (rev (cfg_diag c m))); try reflexivity.
  intros _. unfold cfg_diag. destruct (c_err c); [|constructor].
  cbn [rev app]. constructor; [exact Hf|constructor].
Qed.

Lemma NT fl w c w1 c1 t v : J w c -> next_token fl w c = (w1, c1, t, v) -> Rw w w1 /\ J w1 c1.
Proof.
  intros (Hw & Hf) H. pose proof Hw as (A & B & ds0 & E1 & E2).
  pose proof (next_token_proj fl w c) as P. cbv zeta in P. rewrite H in P. unfold fst, snd in P.
  destruct P as (P1 & P2 & P3 & P4).
  destruct (yylex_files (w_env w) fl (w_lex w) (c_pos c) 0 B Hf) as (I1 & I2 & I3). cbv zeta in *.
  assert (Hw1 : Wst w1).
  { split; [congruence|]. rewrite P1. split; [exact I1|].
    exists ((if c_err c then rev (r_diags (yylex (w_env w) fl (w_lex w) (c_pos c) 0)) else []) ++ ds0).
    split; [rewrite P3, E1; apply app_assoc|]. apply Forall_app. split; [|exact E2].
    destruct (c_err c); [|constructor]. apply Forall_forall. intros x Hx. apply in_rev in Hx.
    rewrite (I3 x Hx). exact I2. }
  split; [intros _; exact Hw1|]. split; [exact Hw1|]. subst c1. rewrite c_file_set_pos. exact I2.
Qed.

Lemma INC w c a w1 c1 fl : J w c -> lexer_include w c a = (w1, c1, fl) -> Rw w w1 /\ J w1 c1.
Proof.
  intros HJ H. pose proof HJ as ((A & B & ds0 & E1 & E2) & Hf).
  revert H. unfold lexer_include.
  assert (Hd : forall m, Rw w (add_diags w (cfg_diag c m)) /\ J (add_diags w (cfg_diag c m)) c).
  { intro m. pose proof (Rw_diag w c m HJ) as R. split; [exact R|]. split; [apply R; apply HJ|exact Hf]. }
  destruct (Nat.leb _ _); [intro H; injection H as <- <- _; apply Hd|].
  destruct (match w_path w with [] => _ | _ => _ end) as [xf|]; [|intro H; injection H as <- <- _; apply Hd].
  destruct (open_input (w_fs w) xf) as [content|] eqn:Eo; [|intro H; injection H as <- <- _; apply Hd].
  intro H; injection H as <- <- _.
  assert (Hx : F (Some xf)) by (rewrite A in Eo; eapply F_open; exact Eo).
  assert (Hw1 : Wst (set_open (upd_lex w (scan_begin (set_inc (w_lex w)
                   ({| i_file := c_file c; i_line := c_line c; i_buf := l_next (w_lex w) |} :: l_inc (w_lex w))) content))
                   (S (w_open w)))).
  { split; [exact A|]. split; [|exists ds0; split; [exact E1|exact E2]].
    unfold frames_ok. cbn [set_open upd_lex w_lex scan_begin set_inc l_inc]. constructor; [exact Hf|exact B]. }
  split; [intros _; exact Hw1|]. split; [exact Hw1|].
  destruct c; cbn [set_line set_file c_file]. exact Hx.
Qed.

Theorem files_all strtod_o fuel :
  (forall w c o txt, J w c -> Rw w (fst (fst (setopt strtod_o fuel w c o txt)))) /\
  (forall w c, J w c -> Rw w (fst (init_defaults strtod_o fuel w c)) /\
                        J (fst (init_defaults strtod_o fuel w c)) (snd (init_defaults strtod_o fuel w c))) /\
  (forall w c l p, J w c -> Rw w (fst (fst (parse_internal strtod_o fuel w c l p))) /\
                            J (fst (fst (parse_internal strtod_o fuel w c l p)))
                              (snd (fst (parse_internal strtod_o fuel w c l p)))).
Proof.
  apply RJ_all.
  - intros w H; exact H.
  - intros a b c H1 H2 H; auto.
  - intros w w' c HR (Hw & Hf). split; [apply HR; exact Hw|exact Hf].
  - intros w c c' E (Hw & Hf). split; [exact Hw|]. unfold c_pos in E. injection E as E1 _. rewrite E1. exact Hf.
  - intros w c (_ & Hf). apply F_some. exact Hf.
  - intros w c s (Hw & Hf) _. split; [exact Hw|]. destruct c; exact Hf.
  - exact Rw_diag.
  - intros; apply Rw_same; reflexivity.
  - intros; apply Rw_same; reflexivity.
  - intros; apply Rw_same; reflexivity.
  - intros; apply Rw_same; reflexivity.
  - intros; apply Rw_same; reflexivity.
  - intros; apply Rw_same; reflexivity.
  - intros w buf w2 H Hw. assert (Hw1 : Wst (upd_lex w (scan_begin (w_lex w) buf))) by (apply (Rw_same w); [reflexivity..|exact Hw]).
    specialize (H Hw1). revert H. apply Rw_same; reflexivity.
  - intros w c buf w2 c2 _ _ (Hw2 & Hf). split; [|exact Hf]. revert Hw2. apply Rw_same; reflexivity.
  - exact NT.
  - exact INC.
Qed.
End Files.

(* the file tags a parse can report *)
Definition file_ok (w : pw) (c : cfg) (x : option str) : Prop :=
  exists name, x = Some name /\
    (c_file c = Some name \/ In (Some name) (map i_file (l_inc (w_lex w))) \/
     exists content, open_input (w_fs w) name = Some content).

Theorem parse_internal_diag_files strtod_o fuel w c l p w' c' rc :
  c_file c <> None -> Forall (fun fr => i_file fr <> None) (l_inc (w_lex w)) ->
  parse_internal strtod_o fuel w c l p = (w', c', rc) ->
  exists ds, w_diags w' = ds ++ w_diags w /\ (forall d, In d ds -> file_ok w c (d_file d)) /\ file_ok w c (c_file c').
Proof.
  intros Hc Hfr H.
  assert (F_some : forall x, file_ok w c x -> x <> None) by (intros x (n & -> & _); discriminate).
  assert (F_open : forall name content, open_input (w_fs w) name = Some content -> file_ok w c (Some name)).
  { intros name content E. exists name. split; [reflexivity|]. right; right. eauto. }
  assert (HJ : J (file_ok w c) (w_fs w) (w_diags w) w c).
  { split; [split; [reflexivity|split]|].
    - unfold frames_ok. rewrite Forall_forall in *. intros fr Hin. specialize (Hfr fr Hin).
      destruct (i_file fr) as [n|] eqn:E; [|congruence]. exists n. split; [reflexivity|]. right; left.
      apply in_map_iff. exists fr. auto.
    - exists []. split; [reflexivity|constructor].
    - destruct (c_file c) as [n|] eqn:E; [|congruence]. exists n. auto. }
  destruct (files_all (file_ok w c) (w_fs w) (w_diags w) F_some F_open strtod_o fuel) as (_ & _ & P).
  destruct (P w c l p HJ) as (PR & PJ). rewrite H in PR, PJ. unfold fst, snd in PR, PJ.
  destruct PJ as ((_ & _ & ds & E1 & E2) & Hf'). exists ds. split; [exact E1|]. split; [|exact Hf'].
  rewrite Forall_forall in E2. exact E2.
Qed.

(* ---- an example world with an include file ---- *)
Definition ex_cbinc : cbset :=
  {| cb_parse := None; cb_valid := None; cb_valid2 := None; cb_print := None; cb_free := false; cb_func := Some FInclude |}.
Definition ex_oinc := Opt (exB "include") KFunc 0 [] [] defv0 None ex_cbinc.
Definition ex_fs1 : fsys :=
  {| fs_root := exB "/R";
     fs_ents := [(exB "bad.conf", FFile (exB "a = 2

bogus = 1
"))] |}.
Definition ex_w1 : pw :=
  {| w_lex := lex_init; w_env := []; w_fs := ex_fs1;
     w_pw := {| pw_tab := []; pw_self := None |}; w_path := []; w_cbs := []; w_cnt := 0; w_failat := 0;
     w_nextptr := 1; w_diags := []; w_open := 0; w_crash := None; w_oof := false |}.
Definition ex_init1 := cfg_init ex_sd 50 ex_w1 [ex_oa; ex_oinc] 0.
Definition ex_run1 (t : String.string) := parse_buf ex_sd 300 (fst ex_init1) (snd ex_init1) (Some (exB t)).
