(* Bytes.v — byte strings, C-string view, character classes, case folding. *)
From Coq Require Import List Arith NArith ZArith Bool Lia.
From Coq.Strings Require Import Byte.
Import ListNotations.

Definition str := list byte.

(* all 256 byte values, for finite sweeps *)
Definition all_bytes : list byte :=
  map (fun n => match Byte.of_nat n with Some b => b | None => x00 end) (seq 0 256).

Lemma all_bytes_complete : forall b, In b all_bytes.
Proof.
  intro b. unfold all_bytes. apply in_map_iff. exists (Byte.to_nat b). split.
  - rewrite Byte.of_to_nat. reflexivity.
  - apply in_seq. pose proof (Byte.to_nat_bounded b). lia.
Qed.

Lemma sweep (P : byte -> bool) : forallb P all_bytes = true -> forall b, P b = true.
Proof. intros H b. rewrite forallb_forall in H. apply H, all_bytes_complete. Qed.

Lemma byte_eqb_eq a b : Byte.eqb a b = true <-> a = b.
Proof. split; [apply Byte.byte_dec_bl | apply Byte.byte_dec_lb]. Qed.

Lemma byte_eqb_neq a b : Byte.eqb a b = false <-> a <> b.
Proof.
  split; intros H.
  - intros E. apply byte_eqb_eq in E. congruence.
  - destruct (Byte.eqb a b) eqn:E; [apply byte_eqb_eq in E; contradiction|reflexivity].
Qed.

Definition bN (b : byte) : N := Byte.to_N b.
Definition Nb (n : N) : byte := match Byte.of_N (n mod 256) with Some b => b | None => x00 end.

Fixpoint str_eqb (a b : str) : bool :=
  match a, b with
  | [], [] => true
  | x :: a', y :: b' => Byte.eqb x y && str_eqb a' b'
  | _, _ => false
  end.

Lemma str_eqb_eq a b : str_eqb a b = true <-> a = b.
Proof.
  revert b; induction a as [|x a IH]; destruct b as [|y b]; cbn; split; intros H; try discriminate; auto.
  - apply andb_prop in H as [H1 H2]. apply byte_eqb_eq in H1. apply IH in H2. subst; reflexivity.
  - inversion H; subst. apply andb_true_intro; split; [apply byte_eqb_eq; reflexivity|apply IH; reflexivity].
Qed.

Lemma str_eqb_refl a : str_eqb a a = true.
Proof. apply str_eqb_eq; reflexivity. Qed.

(* C-string view: cut at the first NUL *)
Fixpoint cstr (s : str) : str :=
  match s with
  | [] => []
  | c :: r => if Byte.eqb c x00 then [] else c :: cstr r
  end.

Definition no_nul (s : str) : Prop := Forall (fun c => c <> x00) s.

Lemma cstr_no_nul s : no_nul s -> cstr s = s.
Proof.
  induction 1 as [|c s Hc _ IH]; cbn; [reflexivity|].
  apply byte_eqb_neq in Hc. rewrite Hc, IH. reflexivity.
Qed.

Lemma cstr_is_no_nul s : no_nul (cstr s).
Proof.
  induction s as [|c s IH]; cbn; [constructor|].
  destruct (Byte.eqb c x00) eqn:E; [constructor|]. constructor; [apply byte_eqb_neq; exact E|exact IH].
Qed.

Lemma cstr_idem s : cstr (cstr s) = cstr s.
Proof. apply cstr_no_nul, cstr_is_no_nul. Qed.

(* character classes (C locale) *)
Definition in_range (lo hi : N) (c : byte) : bool := (lo <=? bN c)%N && (bN c <=? hi)%N.
Definition is_digit (c : byte) := in_range 48 57 c.
Definition is_octal (c : byte) := in_range 48 55 c.
Definition is_upper (c : byte) := in_range 65 90 c.
Definition is_lower (c : byte) := in_range 97 122 c.
Definition is_hex (c : byte) := is_digit c || in_range 65 70 c || in_range 97 102 c.
(* isspace in the C locale: space, \t \n \v \f \r *)
Definition is_space (c : byte) := Byte.eqb c x20 || in_range 9 13 c.

Definition to_lower (c : byte) : byte := if is_upper c then Nb (bN c + 32) else c.

(* strcasecmp(a,b) == 0 *)
Fixpoint str_caseeqb (a b : str) : bool :=
  match a, b with
  | [], [] => true
  | x :: a', y :: b' => Byte.eqb (to_lower x) (to_lower y) && str_caseeqb a' b'
  | _, _ => false
  end.

(* name comparison under a NOCASE flag *)
Definition name_eqb (nocase : bool) (a b : str) : bool :=
  if nocase then str_caseeqb a b else str_eqb a b.

Definition digit_val (c : byte) : option N :=
  if is_digit c then Some (bN c - 48)%N
  else if in_range 97 122 c then Some (bN c - 87)%N
  else if in_range 65 90 c then Some (bN c - 55)%N
  else None.

(* literal byte strings from ASCII text, for readable models *)
Definition bs_of_string (s : String.string) : str := String.list_byte_of_string s.
