(* FlatRoundProofs.v — C05, structural step for flat configurations: the text cfg_print writes for a
   section-free list of scalar int / bool / string options, parsed by cfg_parse_buf into a context with
   the same declarations, stores exactly the printed values. *)
From Coq Require String.
Import String.StringSyntax.
From Coq Require Import List Arith NArith ZArith Bool Lia.
From Coq.Strings Require Import Byte.
From LC Require Import Bytes Consts Conv Flex LexAct LexRules Lexer LexLemmas DqProofs LexAll Files Store Parser Print
                       HdrProofs ApiProofs PrintProofs RoundProofs NumRoundProofs.
Import ListNotations.
Local Open Scope string_scope.
Local Open Scope list_scope.

(* ================================================================== *)
(* A. the scanner on the pieces of a printed line                       *)
(* ================================================================== *)

Definition lexinv (st : lexst) (id : nat) (text : str) (others : list (nat * list byte)) : Prop :=
  l_sc st = INITIAL /\ l_bufs st = (id, text) :: others /\ l_inc st = [] /\ l_rderr st = false.

Lemma lexinv_set_bufs st id text others text' :
  lexinv st id text others -> lexinv (set_bufs st ((id, text') :: others)) id text' others.
Proof. intros (H1 & H2 & H3 & H4). unfold lexinv, set_bufs. cbn. auto. Qed.

(* the read-error flag is never raised by scanning *)
Lemma run_action_rderr e a y s p : l_rderr (out_state (run_action e a y s p)) = l_rderr s.
Proof. destruct a; cbn [run_action]; split_action e y; reflexivity. Qed.

Lemma lex_step_rderr e s p : l_rderr s = false -> l_rderr (step_state (lex_step e s p)) = false.
Proof.
  intros Hr. unfold lex_step. destruct (l_bufs s) as [|[id inp] others] eqn:Hb; [exact Hr|].
  destruct (munch (active_res (l_sc s)) inp 0 None) as [[i n]|] eqn:Hm.
  - destruct (nth_error (active_rules (l_sc s)) i) as [r|]; [|exact Hr].
    pose proof (run_action_rderr e (r_act r) (firstn n inp) (set_bufs s ((id, skipn n inp) :: others)) p) as H.
    destruct (run_action _ _ _ _ _); cbn [step_state out_state] in *; rewrite H; exact Hr.
  - destruct inp as [|c rest]; [|exact Hr].
    unfold run_eof. destruct (eof_action_of (l_sc s)) as [[| | |k]|]; cbn [step_state]; try exact Hr.
    rewrite Hr. destruct (l_inc s) as [|f r]; [exact Hr|].
    destruct (match cur_buf_id s with Some id0 => Nat.eqb id0 (i_buf f) | None => false end); cbn [step_state]; exact Hr.
Qed.

Lemma yylex_rderr e : forall fuel s p closed, l_rderr s = false -> l_rderr (r_st (yylex e fuel s p closed)) = false.
Proof.
  induction fuel as [|fuel IH]; intros s p closed H; cbn [yylex]; [exact H|].
  pose proof (lex_step_rderr e s p H) as H'.
  destruct (lex_step e s p) as [s2 p2 k|t v s2 p2 d k]; cbn [step_state] in H'; [apply IH, H'|exact H'].
Qed.

Definition tokres (t : tok) (v : option str) (st : lexst) (p : pos) : lexres :=
  {| r_tok := t; r_val := v; r_st := st; r_pos := p; r_diags := []; r_closed := 0; r_fuel_out := false |}.

(* a newline in front of the next token *)
Lemma nl_ok_initial : unit_ok INITIAL [x0a] A_line any = true.
Proof. vm_compute. reflexivity. Qed.
Lemma eq_ok_initial : unit_ok INITIAL [x3d] (A_punct 61) any = true.
Proof. vm_compute. reflexivity. Qed.

Lemma yylex_skip_nl e st p closed id text others fuel :
  lexinv st id (x0a :: text) others ->
  yylex e (S fuel) st p closed = yylex e fuel (set_bufs st ((id, text) :: others)) (line_incr p) closed.
Proof.
  intros (Hsc & Hb & _ & _).
  destruct (unit_ok_munch INITIAL [x0a] _ any text nl_ok_initial (follows_any text)) as (j & r & Hm & Hn & Ha).
  change (x0a :: text) with ([x0a] ++ text) in Hb.
  rewrite (yylex_step INITIAL e fuel st p closed id [x0a] text others j r Hsc Hb Hm Hn). rewrite Ha. reflexivity.
Qed.

Lemma yylex_eq e st p id text others fuel :
  lexinv st id (x3d :: text) others ->
  yylex e (S fuel) st p 0 = tokres (TPunct 61) (Some [x3d]) (set_bufs st ((id, text) :: others)) p.
Proof.
  intros (Hsc & Hb & _ & _).
  destruct (unit_ok_munch INITIAL [x3d] _ any text eq_ok_initial (follows_any text)) as (j & r & Hm & Hn & Ha).
  change (x3d :: text) with ([x3d] ++ text) in Hb.
  rewrite (yylex_step INITIAL e fuel st p 0 id [x3d] text others j r Hsc Hb Hm Hn). rewrite Ha. reflexivity.
Qed.

Lemma eof_action_INITIAL' : eof_action_of INITIAL = Some E_pop_or_eof.
Proof. vm_compute. reflexivity. Qed.

Lemma yylex_eof e st p id others fuel :
  lexinv st id [] others -> yylex e (S fuel) st p 0 = tokres TEof None st p.
Proof.
  intros (Hsc & Hb & Hi & Hr). cbn [yylex]. unfold lex_step. rewrite Hb, Hsc. cbn [munch].
  rewrite eof_action_INITIAL'. unfold run_eof. rewrite Hr, Hi. reflexivity.
Qed.

(* zero or one newline in front *)
Definition pre_ok (pre : str) : Prop := pre = [] \/ pre = [x0a].
Definition pre_pos (pre : str) (p : pos) : pos := match pre with [] => p | _ => line_incr p end.

Lemma yylex_name_pre e st p id pre c run rest others fuel :
  pre_ok pre -> lexinv st id (pre ++ (c :: run) ++ rest) others ->
  word_start c = true -> Forall (fun b => word_mid b = true) run -> follows word_delim rest ->
  exists st1, lexinv st1 id rest others /\
    yylex e (S (S fuel)) st p 0 = tokres TStr (Some (cstr (c :: run))) st1 (pre_pos pre p).
Proof.
  intros [->| ->] H Hc Hrun Hf.
  - cbn [app pre_pos] in *. exists (set_bufs st ((id, rest) :: others)).
    split; [eapply lexinv_set_bufs; exact H|].
    destruct H as (Hsc & Hb & _ & _). apply word_token; assumption.
  - cbn [app pre_pos] in *. rewrite (yylex_skip_nl e st p 0 id _ others (S fuel) H).
    pose proof (lexinv_set_bufs _ _ _ _ ((c :: run) ++ rest) H) as H1.
    exists (set_bufs (set_bufs st ((id, (c :: run) ++ rest) :: others)) ((id, rest) :: others)).
    split; [eapply lexinv_set_bufs; exact H1|].
    destruct H1 as (Hsc & Hb & _ & _). apply word_token; assumption.
Qed.

Lemma yylex_eof_pre e st p id pre others fuel :
  pre_ok pre -> lexinv st id pre others ->
  exists st1, lexinv st1 id [] others /\ yylex e (S (S fuel)) st p 0 = tokres TEof None st1 (pre_pos pre p).
Proof.
  intros [->| ->] H.
  - exists st. split; [exact H|]. apply (yylex_eof e st p id others (S fuel) H).
  - rewrite (yylex_skip_nl e st p 0 id _ others (S fuel) H).
    pose proof (lexinv_set_bufs _ _ _ _ [] H) as H1. eexists. split; [exact H1|].
    apply (yylex_eof e _ _ id others fuel H1).
Qed.

(* a scalar word value: the printed integer or boolean *)
Lemma yylex_word_value e st p id w rest others fuel :
  lexinv st id (w ++ rest) others -> follows word_delim rest ->
  (exists z, w = print_Z z) \/ (exists b, w = print_bool b) ->
  yylex e (S fuel) st p 0 = tokres TStr (Some w) (set_bufs st ((id, rest) :: others)) p.
Proof.
  intros (Hsc & Hb & _ & _) Hf [[z ->]|[b ->]].
  - apply int_token_reads_back; assumption.
  - apply bool_token_reads_back; assumption.
Qed.

(* a quoted string value *)
Lemma yylex_quoted e st p id s rest others fuel :
  lexinv st id (quoted (Some s) ++ rest) others -> Forall (fun c => c <> x00) s -> (S (length s) < fuel)%nat ->
  exists st1, lexinv st1 id rest others /\
    yylex e fuel st p 0 = tokres TStr (Some s) st1 {| p_file := p_file p; p_line := p_line p + count_nl s |}.
Proof.
  intros (Hsc & Hb & Hi & Hr) Hs Hf.
  pose proof (quoted_reads_back e s st p 0 id rest others fuel Hs Hsc Hb Hf) as H.
  pose proof (yylex_rderr e fuel st p 0 Hr) as Hr'.
  destruct (yylex e fuel st p 0) as [t v st1 p1 d k oof].
  unfold observe in H. cbn [r_tok r_val r_st r_pos r_diags r_closed r_fuel_out] in H, Hr'.
  injection H as Ht Hv Hbufs Hsc1 Hline Hfile Hd _ Hinc Hk Hoof. subst.
  exists st1. split; [unfold lexinv; rewrite Hinc; auto|].
  unfold tokres. destruct p1 as [pf pl]. cbn [p_file p_line] in *. subst. reflexivity.
Qed.

(* ================================================================== *)
(* B. the world: everything but the scanner state and the callback log  *)
(* ================================================================== *)

Definition wrel (w w' : pw) : Prop :=
  w_env w' = w_env w /\ w_fs w' = w_fs w /\ w_pw w' = w_pw w /\ w_path w' = w_path w /\
  w_cnt w' = w_cnt w /\ w_failat w' = w_failat w /\ w_nextptr w' = w_nextptr w /\
  w_diags w' = w_diags w /\ w_open w' = w_open w /\ w_crash w' = w_crash w /\ w_oof w' = w_oof w.

Lemma wrel_refl w : wrel w w.
Proof. unfold wrel. repeat split. Qed.

Lemma wrel_trans a b c : wrel a b -> wrel b c -> wrel a c.
Proof.
  unfold wrel. intros (A1 & A2 & A3 & A4 & A5 & A6 & A7 & A8 & A9 & A10 & A11)
    (B1 & B2 & B3 & B4 & B5 & B6 & B7 & B8 & B9 & B10 & B11).
  repeat split; congruence.
Qed.

Lemma wrel_upd_lex w l : wrel w (upd_lex w l).
Proof. unfold wrel, upd_lex. cbn. repeat split. Qed.

Lemma wrel_add_diags_nil w : wrel w (add_diags w []).
Proof. unfold wrel, add_diags. cbn. repeat split. Qed.

Lemma wrel_add_cb w e : wrel w (add_cb w e).
Proof. unfold wrel, add_cb. cbn. repeat split. Qed.

Lemma wrel_log_frees ids : forall w, wrel w (log_frees w ids) /\ w_lex (log_frees w ids) = w_lex w.
Proof.
  unfold log_frees. induction ids as [|i ids IH]; intros w; cbn [fold_left].
  - split; [apply wrel_refl|reflexivity].
  - destruct (IH (add_cb w (CbFree i))) as [H1 H2]. split.
    + eapply wrel_trans; [apply wrel_add_cb|exact H1].
    + rewrite H2. reflexivity.
Qed.

(* one successful call of cfg_yylex on behalf of the parser *)
Lemma next_token_ok fl w c t v st' p' :
  yylex (w_env w) fl (w_lex w) (c_pos c) 0 = tokres t v st' p' ->
  exists w', next_token fl w c = (w', set_pos c p', t, v) /\ wrel w w' /\ w_lex w' = st'.
Proof.
  intros H. unfold next_token. rewrite H. unfold tokres.
  cbn [r_tok r_val r_st r_pos r_diags r_closed r_fuel_out]. eexists. split; [reflexivity|].
  destruct (c_err c); unfold wrel, set_open, add_diags, upd_lex; cbn; repeat split; lia.
Qed.

(* ================================================================== *)
(* C. flat contexts                                                     *)
(* ================================================================== *)

Lemma get_opt_flat c i : get_opt c ([], i) = nth_error (c_opts c) i.
Proof. reflexivity. Qed.

Lemma put_opt_flat c i o : put_opt c ([], i) o = set_opts c (upd_nth (c_opts c) i (fun _ => o)).
Proof. reflexivity. Qed.

Lemma c_opts_set_pos c p : c_opts (set_pos c p) = c_opts c. Proof. destruct c; reflexivity. Qed.
Lemma c_flags_set_pos c p : c_flags (set_pos c p) = c_flags c. Proof. destruct c; reflexivity. Qed.
Lemma c_opts_set_opts c l : c_opts (set_opts c l) = l. Proof. destruct c; reflexivity. Qed.
Lemma c_flags_set_opts c l : c_flags (set_opts c l) = c_flags c. Proof. destruct c; reflexivity. Qed.
Lemma c_pff_set_pos c p : c_pff (set_pos c p) = c_pff c. Proof. destruct c; reflexivity. Qed.
Lemma c_pff_set_opts c l : c_pff (set_opts c l) = c_pff c. Proof. destruct c; reflexivity. Qed.

Lemma upd_nth_mid {A} (l1 : list A) x l2 f : upd_nth (l1 ++ x :: l2) (length l1) f = l1 ++ f x :: l2.
Proof. induction l1 as [|a l1 IH]; cbn [app length upd_nth]; [reflexivity|]. rewrite IH. reflexivity. Qed.

Lemma nth_error_mid {A} (l1 : list A) x l2 : nth_error (l1 ++ x :: l2) (length l1) = Some x.
Proof. induction l1 as [|a l1 IH]; cbn [app length nth_error]; [reflexivity|exact IH]. Qed.

Definition nondep (o : opt) : Prop := oflag o CFGF_DEPRECATED = false.

Lemma handle_deprecated_flat w c j : Forall nondep (c_opts c) -> handle_deprecated w c ([], j) = (w, c).
Proof.
  intros H. unfold handle_deprecated. rewrite get_opt_flat.
  destruct (nth_error (c_opts c) j) as [o|] eqn:E; [|reflexivity].
  rewrite Forall_forall in H. rewrite (H o (nth_error_In _ _ E)). reflexivity.
Qed.

Definition sopt_flat (p : pst) : Prop := s_opt p = None \/ exists j, s_opt p = Some ([], j).

Lemma handle_deprecated_sopt w c p : Forall nondep (c_opts c) -> sopt_flat p ->
  match s_opt p with Some r => handle_deprecated w c r | None => (w, c) end = (w, c).
Proof. intros H [->|[j ->]]; [reflexivity|apply handle_deprecated_flat; exact H]. Qed.

(* name lookup *)
Lemma strcspn_all s rej : Forall (fun b => rej b = false) s -> strcspn s rej = length s.
Proof. induction 1 as [|b s Hb _ IH]; cbn [strcspn length]; [reflexivity|]. rewrite Hb, IH. reflexivity. Qed.

Lemma find_idx_mid {A} (f : A -> bool) l1 x l2 : forall k,
  Forall (fun a => f a = false) l1 -> f x = true -> find_idx f (l1 ++ x :: l2) k = Some (k + length l1)%nat.
Proof.
  induction l1 as [|a l1 IH]; intros k H1 Hx; cbn [app find_idx length].
  - rewrite Hx. f_equal. lia.
  - inversion H1 as [|? ? Ha H1']; subst. rewrite Ha, IH by assumption. f_equal. lia.
Qed.

Lemma cfg_getopt_flat c name i :
  name <> [] -> Forall (fun b => is_bar_eq b = false) name -> getopt_leaf c name = Some i ->
  cfg_getopt c name = (Some ([], i), []).
Proof.
  intros Hne Hb Hl. unfold cfg_getopt, getopt_secidx. destruct name as [|b r]; [contradiction|].
  cbn [secidx_loop length]. rewrite (strcspn_all _ _ Hb), skipn_all. cbn [negb andb]. rewrite Hl. reflexivity.
Qed.

(* ================================================================== *)
(* D. the four transitions of cfg_parse_internal used by a printed line *)
(* ================================================================== *)

Lemma oflag_setf_disj o m k : N.land m k = 0%N -> oflag (o_setf o m) k = oflag o k.
Proof. intros H. destruct o. unfold oflag, o_setf, set_flags, o_flags, setf. apply has_lor_disj. exact H. Qed.

Definition scalar3 (k : kind) : Prop := k = KInt \/ k = KBool \/ k = KStr \/ k = KFloat.

Section Steps.
Variable so : pw -> cfg -> opt -> option str -> pw * opt * option nat.
Variable pi : pw -> cfg -> nat -> pst -> pw * cfg * prc.

(* state 0, the option name *)
Lemma pi_name fl w c p w1 p' name i o :
  next_token fl w c = (w1, set_pos c p', TStr, Some name) ->
  s_state p = 0%nat -> sopt_flat p -> Forall nondep (c_opts c) ->
  cfg_getopt (set_pos c p') name = (Some ([], i), []) ->
  nth_error (c_opts c) i = Some o -> scalar3 (o_kind o) ->
  exists w2, pi_body so pi fl w c 0 p = pi w2 (set_pos c p') 0 (st_state (st_opt p (Some ([], i))) 1)
             /\ wrel w1 w2 /\ w_lex w2 = w_lex w1.
Proof.
  intros Hnt Hs Hso Hnd Hg Hn Hk. unfold pi_body. rewrite Hnt. cbv beta iota zeta. rewrite Hs.
  rewrite handle_deprecated_sopt by (rewrite ?c_opts_set_pos; assumption).
  cbn [sval]. rewrite Hg. rewrite get_opt_flat, c_opts_set_pos, Hn.
  exists (add_diags w1 []). split.
  - destruct Hk as [->|[->|[->| ->]]]; reflexivity.
  - split; [apply wrel_add_diags_nil|reflexivity].
Qed.

(* state 1, the equal sign *)
Lemma pi_eq fl w c p w1 c1 v i o :
  next_token fl w c = (w1, c1, TPunct 61, v) ->
  s_state p = 1%nat -> s_opt p = Some ([], i) -> nth_error (c_opts c1) i = Some o -> oflag o CFGF_LIST = false ->
  pi_body so pi fl w c 0 p =
  pi w1 (put_opt c1 ([], i) (o_setf (o_setf o CFGF_RESET) CFGF_MODIFIED)) 0 (st_state p 2).
Proof.
  intros Hnt Hs Hso Hn Hl. unfold pi_body. rewrite Hnt. cbv beta iota zeta. rewrite Hs, Hso.
  rewrite get_opt_flat, Hn. cbn [tok_is N.eqb Pos.eqb].
  rewrite !oflag_setf_disj by reflexivity. rewrite Hl. reflexivity.
Qed.

(* state 2, the value *)
Lemma pi_val fl w c p w1 c1 vt i o w2 o1 idx :
  next_token fl w c = (w1, c1, TStr, Some vt) ->
  s_state p = 2%nat -> s_opt p = Some ([], i) -> s_comment p = None ->
  nth_error (c_opts c1) i = Some o ->
  so w1 c1 o (Some vt) = (w2, o1, Some idx) -> cb_valid (o_cbs o1) = None -> oflag o1 CFGF_LIST = false ->
  pi_body so pi fl w c 0 p =
  pi w2 (put_opt (put_opt c1 ([], i) o1) ([], i) o1) 0 (st_state (st_comment p None) 0).
Proof.
  intros Hnt Hs Hso Hcm Hn Hset Hv Hl. unfold pi_body. rewrite Hnt. cbv beta iota zeta. rewrite Hs, Hso.
  rewrite get_opt_flat, Hn. cbn [tok_is tok_is_str andb negb]. rewrite Hset.
  unfold run_validcb. rewrite Hv, Hcm, Hl. reflexivity.
Qed.

(* state 0, end of input at the top level *)
Lemma pi_eof fl w c p w1 c1 v :
  next_token fl w c = (w1, c1, TEof, v) ->
  s_state p = 0%nat -> sopt_flat p -> Forall nondep (c_opts c1) ->
  pi_body so pi fl w c 0 p = (w1, c1, PEOF).
Proof.
  intros Hnt Hs Hso Hnd. unfold pi_body. rewrite Hnt. cbv beta iota zeta. rewrite Hs.
  cbn [Nat.eqb negb andb]. rewrite handle_deprecated_sopt by assumption. reflexivity.
Qed.
End Steps.

(* ================================================================== *)
(* E. cfg_setopt on a scalar option that "=" has just marked RESET      *)
(* ================================================================== *)

Section Oracles.
Variable fmt_f : N -> str.                    (* printf("%f") *)
Variable strtod_o : str -> strtod_res.        (* strtod *)

Definition conv_ok (k : kind) (vt : str) (v : value) : Prop :=
  match k with
  | KFloat => exists x, v = VFloat x /\ conv_float strtod_o vt = COk x
  | KInt => exists z, v = VInt z /\ conv_int vt = COk z
  | KBool => exists b, v = VBool b /\ conv_bool vt = Some b
  | KStr => v = VStr (Some vt)
  | _ => False
  end.

Lemma free_value_fst o :
  o_vals (fst (free_value o)) = [] /\ o_kind (fst (free_value o)) = o_kind o /\ o_cbs (fst (free_value o)) = o_cbs o.
Proof.
  unfold free_value. cbn [fst].
  destruct (match o_comment o with Some _ => negb (oflag o CFGF_RESET) | None => false end);
    destruct o; repeat split; reflexivity.
Qed.

Lemma o_vals_setf o m : o_vals (o_setf o m) = o_vals o. Proof. destruct o; reflexivity. Qed.
Lemma o_kind_setf o m : o_kind (o_setf o m) = o_kind o. Proof. destruct o; reflexivity. Qed.
Lemma o_cbs_setf o m : o_cbs (o_setf o m) = o_cbs o. Proof. destruct o; reflexivity. Qed.
Lemma o_cbs_clrf o m : o_cbs (o_clrf o m) = o_cbs o. Proof. destruct o; reflexivity. Qed.
Lemma o_vals_set_vals o v : o_vals (set_vals o v) = v. Proof. destruct o; reflexivity. Qed.
Lemma o_kind_set_vals o v : o_kind (set_vals o v) = o_kind o. Proof. destruct o; reflexivity. Qed.
Lemma o_cbs_set_vals o v : o_cbs (set_vals o v) = o_cbs o. Proof. destruct o; reflexivity. Qed.

Lemma so_body_scalar initd w c o vt v :
  oflag o CFGF_RESET = true -> cb_parse (o_cbs o) = None -> conv_ok (o_kind o) vt v ->
  exists w' o', so_body strtod_o initd w c o (Some vt) = (w', o', Some 0%nat) /\
    o_vals o' = [v] /\ frame o o' /\ wrel w w' /\ w_lex w' = w_lex w.
Proof.
  intros Hr Hp Hc.
  pose proof (so_body_frame strtod_o initd w c o (Some vt)) as Hfr.
  assert (exists w' o', so_body strtod_o initd w c o (Some vt) = (w', o', Some 0%nat) /\
            o_vals o' = [v] /\ wrel w w' /\ w_lex w' = w_lex w) as (w' & o' & E & Hv & Hw & Hl).
  { unfold so_body, so_reset. rewrite Hr.
    destruct (free_value_fst o) as (F1 & F2 & F3).
    destruct (free_value o) as [x fr]. cbn [fst] in F1, F2, F3.
    set (o0 := o_clrf x CFGF_RESET).
    assert (o_vals o0 = []) as V0 by (unfold o0; rewrite o_vals_clrf; exact F1).
    assert (o_kind o0 = o_kind o) as K0 by (unfold o0; rewrite o_kind_clrf; exact F2).
    assert (o_cbs o0 = o_cbs o) as C0 by (unfold o0; rewrite o_cbs_clrf; exact F3).
    assert (kind_eqb (o_kind o0) KSec = false) as KS.
    { rewrite K0. destruct (o_kind o); try reflexivity. contradiction. }
    assert (so_slot c (log_frees w fr) o0 (Some vt) = Some (log_frees w fr, addval o0, 0%nat)) as ->.
    { unfold so_slot. rewrite V0, KS. reflexivity. }
    set (o1 := addval o0).
    assert (o_kind o1 = o_kind o) as K1.
    { unfold o1, addval. rewrite o_kind_setf, o_kind_set_vals. exact K0. }
    assert (cb_parse (o_cbs o1) = None) as C1.
    { unfold o1, addval. rewrite o_cbs_setf, o_cbs_set_vals, C0. exact Hp. }
    assert (exists zv, o_vals o1 = [zv]) as (zv & V1).
    { unfold o1, addval. rewrite o_vals_setf, o_vals_set_vals, V0. eexists. reflexivity. }
    destruct (wrel_log_frees fr w) as [W1 W2].
    unfold so_conv. cbv zeta. rewrite K1, C1. unfold conv_ok in Hc.
    destruct (o_kind o); try contradiction.
    - destruct Hc as (z & -> & Hz). rewrite Hz. unfold so_store. eexists. eexists. split; [reflexivity|].
      rewrite o_vals_setf, o_vals_set_vals, V1. split; [reflexivity|split; assumption].
    - destruct Hc as (xf & -> & Hx). rewrite Hx. unfold so_store. eexists. eexists. split; [reflexivity|].
      rewrite o_vals_setf, o_vals_set_vals, V1. split; [reflexivity|split; assumption].
    - subst v. unfold so_store. eexists. eexists. split; [reflexivity|].
      rewrite o_vals_setf, o_vals_set_vals, V1. split; [reflexivity|split; assumption].
    - destruct Hc as (b & -> & Hb). rewrite Hb. unfold so_store. eexists. eexists. split; [reflexivity|].
      rewrite o_vals_setf, o_vals_set_vals, V1. split; [reflexivity|split; assumption]. }
  rewrite E in Hfr. cbn [fst snd] in Hfr. exists w', o'. split; [exact E|]. split; [exact Hv|]. split; [exact Hfr|]. split; assumption.
Qed.

(* ================================================================== *)
(* F. one printed line  NAME=VALUE\n  through the parser                *)
(* ================================================================== *)

Definition item := (str * value)%type.

Definition vtext (v : value) : str :=
  match v with
  | VInt z => print_Z z
  | VBool b => print_bool b
  | VStr (Some s) => quoted (Some s)
  | VFloat x => fmt_f x
  | _ => []
  end.

(* a word the scanner returns whole *)
Definition simple_word (t : str) : Prop :=
  exists c run, t = c :: run /\ word_start c = true /\ Forall (fun b => word_mid b = true) run /\
                Forall (fun b => b <> x00) t.

(* the libc oracles round-trip this double: "%f" writes a simple word that strtod reads back, whole, as x *)
Definition float_ok (x : N) : Prop :=
  simple_word (fmt_f x) /\
  strtod_o (fmt_f x) = {| sd_bits := x; sd_consumed := length (fmt_f x); sd_erange := false |}.

Definition val_ok (k : kind) (v : value) : Prop :=
  match k, v with
  | KInt, VInt z => (- 2 ^ 63 <= z < 2 ^ 63)%Z
  | KBool, VBool _ => True
  | KStr, VStr (Some s) => Forall (fun c => c <> x00) s
  | KFloat, VFloat x => float_ok x
  | _, _ => False
  end.

Definition vlen (v : value) : nat := match v with VStr (Some s) => length s | _ => 0%nat end.

(* an option name the printer can write unquoted and the parser resolves in one step *)
Definition name_ok (n : str) : Prop :=
  exists c run, n = c :: run /\ word_start c = true /\ Forall (fun b => word_mid b = true) run /\
                Forall (fun b => b <> x00) n /\ Forall (fun b => Byte.eqb b x7c = false) n.

Definition decl_ok (o : opt) : Prop :=
  scalar3 (o_kind o) /\ oflag o CFGF_LIST = false /\ nondep o /\
  cb_parse (o_cbs o) = None /\ cb_valid (o_cbs o) = None.

Definition item_decl (M : nat) (it : item) (o : opt) : Prop :=
  o_name o = fst it /\ name_ok (fst it) /\ val_ok (o_kind o) (snd it) /\ decl_ok o /\ (vlen (snd it) <= M)%nat.

Lemma word_mid_not_eq_sweep : forallb (fun b => implb (word_mid b) (negb (Byte.eqb b x3d))) all_bytes = true.
Proof. vm_compute. reflexivity. Qed.

Lemma name_ok_bar n : name_ok n -> Forall (fun b => is_bar_eq b = false) n.
Proof.
  intros (c & run & -> & Hc & Hrun & _ & Hbar).
  assert (Forall (fun b => word_mid b = true) (c :: run)) as Hm.
  { constructor; [|exact Hrun]. unfold word_start in Hc. apply andb_prop in Hc as [Hc _]. exact Hc. }
  rewrite Forall_forall in *. intros b Hb. unfold is_bar_eq. rewrite (Hbar b Hb). cbn [orb].
  apply negb_true_iff. exact (sweep_impl _ _ word_mid_not_eq_sweep b (Hm b Hb)).
Qed.

Lemma name_eqb_refl nc a : name_eqb nc a a = true.
Proof.
  unfold name_eqb. destruct nc; [|apply str_eqb_refl].
  induction a as [|x a IH]; cbn [str_caseeqb]; [reflexivity|]. rewrite IH.
  replace (Byte.eqb (to_lower x) (to_lower x)) with true by (symmetry; apply byte_eqb_eq; reflexivity). reflexivity.
Qed.

Lemma frame_setf_reset o : frame o (o_setf o CFGF_RESET).
Proof.
  destruct o; constructor; auto. unfold o_setf, set_flags, o_flags, setf.
  apply ldiff_lor_sub. reflexivity.
Qed.

Lemma oflag_setf_reset o : oflag (o_setf (o_setf o CFGF_RESET) CFGF_MODIFIED) CFGF_RESET = true.
Proof.
  rewrite oflag_setf_disj by reflexivity. destruct o. unfold oflag, o_setf, set_flags, o_flags.
  change CFGF_RESET with (2 ^ 6)%N. apply has_setf_same.
Qed.

(* the value token *)
Lemma value_token e st p id k v rest others fuel :
  val_ok k v -> lexinv st id (vtext v ++ rest) others -> follows word_delim rest -> (S (S (vlen v)) < fuel)%nat ->
  exists st1 p1 vt, lexinv st1 id rest others /\ yylex e fuel st p 0 = tokres TStr (Some vt) st1 p1 /\ conv_ok k vt v.
Proof.
  intros Hv Hl Hf Hfu. destruct fuel as [|fuel]; [lia|].
  destruct k; try contradiction; destruct v as [z|bits|b|[s|]| |]; try contradiction; cbn [val_ok vtext vlen] in *.
  - exists (set_bufs st ((id, rest) :: others)), p, (print_Z z).
    split; [eapply lexinv_set_bufs; exact Hl|]. split.
    + apply yylex_word_value; [exact Hl|exact Hf|left; eauto].
    + exists z. split; [reflexivity|apply conv_int_print_Z; exact Hv].
  - destruct Hv as ((c0 & run & Ew & Hc0 & Hrun & Hnul) & Hsd).
    exists (set_bufs st ((id, rest) :: others)), p, (fmt_f bits).
    split; [eapply lexinv_set_bufs; exact Hl|]. split.
    + destruct Hl as (Hsc & Hb & _ & _). rewrite Ew in Hb.
      rewrite (word_token e c0 run st p 0 id rest others fuel Hc0 Hrun Hf Hsc Hb).
      rewrite <- Ew, (cstr_no_nul _ Hnul). reflexivity.
    + exists bits. split; [reflexivity|].
      apply conv_float_print_modulo_libc; [rewrite Ew; discriminate|exact Hsd].
  - destruct (yylex_quoted e st p id s rest others (S fuel) Hl Hv ltac:(lia)) as (st1 & H1 & H2).
    exists st1. eexists. exists s. split; [exact H1|]. split; [exact H2|reflexivity].
  - exists (set_bufs st ((id, rest) :: others)), p, (print_bool b).
    split; [eapply lexinv_set_bufs; exact Hl|]. split.
    + apply yylex_word_value; [exact Hl|exact Hf|right; eauto].
    + exists b. split; [reflexivity|apply conv_bool_print].
Qed.

Lemma cflag_set_pos c p m : cflag (set_pos c p) m = cflag c m.
Proof. unfold cflag. rewrite c_flags_set_pos. reflexivity. Qed.

Lemma parse_line M fuel w c p done o todo (it : item) id pre rest others :
  (M + 3 <= fuel)%nat -> pre_ok pre ->
  lexinv (w_lex w) id (pre ++ fst it ++ x3d :: vtext (snd it) ++ x0a :: rest) others ->
  s_state p = 0%nat -> s_comment p = None -> sopt_flat p ->
  c_opts c = done ++ o :: todo -> Forall nondep (c_opts c) -> item_decl M it o ->
  Forall (fun d => name_eqb (cflag c CFGF_NOCASE) (o_name d) (o_name o) = false) done ->
  exists w5 c4 p3 o',
    parse_internal strtod_o (S (S (S fuel))) w c 0 p = parse_internal strtod_o fuel w5 c4 0 p3 /\
    wrel w w5 /\ lexinv (w_lex w5) id (x0a :: rest) others /\
    s_state p3 = 0%nat /\ s_comment p3 = None /\ sopt_flat p3 /\
    c_opts c4 = done ++ o' :: todo /\ c_flags c4 = c_flags c /\ c_pff c4 = c_pff c /\ frame o o' /\ o_vals o' = [snd it].
Proof.
  intros Hfu Hpre Hlex Hs Hcm Hso Hopts Hnd (Hname & Hnok & Hvok & (Hk & Hlist & Hdep & Hpc & Hvc) & Hlen) Hdist.
  destruct it as [n v]. cbn [fst snd] in *.
  pose proof (name_ok_bar n Hnok) as Hbar.
  destruct Hnok as (c0 & run & En & Hc0 & Hrun & Hnul & _).
  set (i := length done).
  (* ---- token 1: the name ---- *)
  rewrite parse_internal_S.
  assert (exists st1, lexinv st1 id (x3d :: vtext v ++ x0a :: rest) others /\
          yylex (w_env w) (S (S fuel)) (w_lex w) (c_pos c) 0 = tokres TStr (Some n) st1 (pre_pos pre (c_pos c)))
    as (st1 & L1 & Y1).
  { rewrite En in Hlex.
    destruct (yylex_name_pre (w_env w) (w_lex w) (c_pos c) id pre c0 run (x3d :: vtext v ++ x0a :: rest) others fuel
                Hpre Hlex Hc0 Hrun eq_refl) as (st1 & H1 & H2).
    exists st1. split; [exact H1|]. rewrite H2, <- En, (cstr_no_nul n Hnul). reflexivity. }
  destruct (next_token_ok _ _ _ _ _ _ _ Y1) as (w1 & NT1 & W1 & X1).
  set (c1 := set_pos c (pre_pos pre (c_pos c))) in *.
  assert (nth_error (c_opts c) i = Some o) as Hnth by (rewrite Hopts; apply nth_error_mid).
  assert (cfg_getopt c1 n = (Some ([], i), [])) as Hg.
  { apply cfg_getopt_flat; [rewrite En; discriminate|exact Hbar|].
    unfold getopt_leaf, c1. rewrite c_opts_set_pos, cflag_set_pos, Hopts.
    apply (find_idx_mid _ done o todo 0%nat).
    - eapply Forall_impl; [|exact Hdist]. cbv beta. intros d Hd. rewrite <- Hname. exact Hd.
    - rewrite Hname. apply name_eqb_refl. }
  destruct (pi_name (setopt strtod_o (S (S fuel))) (parse_internal strtod_o (S (S fuel))) (S (S fuel))
              w c p w1 _ n i o NT1 Hs Hso Hnd Hg Hnth Hk) as (w2 & E1 & W2 & X2).
  rewrite E1. clear E1. fold c1.
  set (p1 := st_state (st_opt p (Some ([], i))) 1).
  (* ---- token 2: the equal sign ---- *)
  rewrite parse_internal_S.
  assert (w_lex w2 = st1) as X2' by (rewrite X2; exact X1).
  assert (lexinv (w_lex w2) id (x3d :: vtext v ++ x0a :: rest) others) as L2 by (rewrite X2'; exact L1).
  pose proof (yylex_eq (w_env w2) (w_lex w2) (c_pos c1) id (vtext v ++ x0a :: rest) others fuel L2) as Y2.
  destruct (next_token_ok _ _ _ _ _ _ _ Y2) as (w3 & NT2 & W3 & X3).
  set (c2 := set_pos c1 (c_pos c1)) in *.
  assert (nth_error (c_opts c2) i = Some o) as Hnth2 by (unfold c2, c1; rewrite !c_opts_set_pos; exact Hnth).
  rewrite (pi_eq (setopt strtod_o (S fuel)) (parse_internal strtod_o (S fuel)) (S fuel)
             w2 c1 p1 w3 c2 _ i o NT2 eq_refl eq_refl Hnth2 Hlist).
  set (oR := o_setf (o_setf o CFGF_RESET) CFGF_MODIFIED).
  set (c3 := put_opt c2 ([], i) oR).
  set (p2 := st_state p1 2).
  assert (c_opts c3 = done ++ oR :: todo) as Hopts3.
  { unfold c3. rewrite put_opt_flat, c_opts_set_opts. unfold c2, c1. rewrite !c_opts_set_pos, Hopts.
    apply upd_nth_mid. }
  (* ---- token 3: the value ---- *)
  rewrite parse_internal_S.
  assert (lexinv (w_lex w3) id (vtext v ++ x0a :: rest) others) as L3.
  { rewrite X3. apply (lexinv_set_bufs _ _ _ _ _ L2). }
  destruct (value_token (w_env w3) (w_lex w3) (c_pos c3) id (o_kind o) v (x0a :: rest) others fuel
              Hvok L3 eq_refl ltac:(lia)) as (st4 & p4 & vt & L4 & Y3 & Hconv).
  destruct (next_token_ok _ _ _ _ _ _ _ Y3) as (w4 & NT3 & W4 & X4).
  set (c4 := set_pos c3 p4) in *.
  assert (nth_error (c_opts c4) i = Some oR) as Hnth4.
  { unfold c4. rewrite c_opts_set_pos, Hopts3. apply nth_error_mid. }
  destruct fuel as [|fuel']; [lia|].
  assert (o_kind oR = o_kind o) as KR by (unfold oR; rewrite !o_kind_setf; reflexivity).
  assert (o_cbs oR = o_cbs o) as CR by (unfold oR; rewrite !o_cbs_setf; reflexivity).
  destruct (so_body_scalar (init_defaults strtod_o fuel') w4 c4 oR vt v (oflag_setf_reset o)
              ltac:(rewrite CR; exact Hpc) ltac:(rewrite KR; exact Hconv))
    as (w5 & o' & Eso & Hvals & Hfr & W5 & X5).
  rewrite <- setopt_S in Eso.
  assert (frame o oR) as FR.
  { unfold oR. eapply frame_trans; [apply frame_setf_reset|apply frame_setf_modified]. }
  assert (frame o o') as FO by (eapply frame_trans; [exact FR|exact Hfr]).
  assert (cb_valid (o_cbs o') = None) as Hvc' by (rewrite (fr_cbs _ _ FO); exact Hvc).
  assert (oflag o' CFGF_LIST = false) as Hlist' by (rewrite (frame_oflag o o' CFGF_LIST FO eq_refl); exact Hlist).
  rewrite (pi_val (setopt strtod_o (S fuel')) (parse_internal strtod_o (S fuel')) (S fuel')
             w3 c3 p2 w4 c4 vt i oR w5 o' 0%nat NT3 eq_refl eq_refl Hcm Hnth4 Eso Hvc' Hlist').
  (* ---- the result ---- *)
  eexists w5, _, _, o'. split; [reflexivity|].
  split; [eapply wrel_trans; [exact W1|]; eapply wrel_trans; [exact W2|]; eapply wrel_trans; [exact W3|];
          eapply wrel_trans; [exact W4|exact W5]|].
  split; [rewrite X5, X4; exact L4|].
  split; [reflexivity|]. split; [reflexivity|]. split; [right; exists i; reflexivity|].
  split.
  - rewrite !put_opt_flat, !c_opts_set_opts. unfold c4. rewrite c_opts_set_pos, Hopts3.
    unfold i. rewrite upd_nth_mid, upd_nth_mid. reflexivity.
  - split; [|split; [|split; [exact FO|exact Hvals]]].
    + rewrite !put_opt_flat, !c_flags_set_opts. unfold c4, c3. rewrite c_flags_set_pos, put_opt_flat, c_flags_set_opts.
      unfold c2, c1. rewrite !c_flags_set_pos. reflexivity.
    + rewrite !put_opt_flat, !c_pff_set_opts. unfold c4, c3. rewrite c_pff_set_pos, put_opt_flat, c_pff_set_opts.
      unfold c2, c1. rewrite !c_pff_set_pos. reflexivity.
Qed.

(* ================================================================== *)
(* G. all the lines                                                     *)
(* ================================================================== *)

Definition line_text (it : item) : str := fst it ++ x3d :: vtext (snd it) ++ [x0a].
Definition render_items (l : list item) : str := flat_map line_text l.

(* no option name equals (under the context's case rule) a later one *)
Fixpoint names_distinct (nc : bool) (l : list str) : Prop :=
  match l with
  | [] => True
  | n :: r => Forall (fun m => name_eqb nc n m = false) r /\ names_distinct nc r
  end.

Lemma line_text_app it R : line_text it ++ R = fst it ++ x3d :: vtext (snd it) ++ x0a :: R.
Proof. unfold line_text. rewrite <- app_assoc. cbn [app]. rewrite <- app_assoc. reflexivity. Qed.

Lemma cflag_of_flags c c' m : c_flags c' = c_flags c -> cflag c' m = cflag c m.
Proof. unfold cflag. intros ->. reflexivity. Qed.

Lemma parse_items M : forall its fuel w c p done todo pre id others,
  (3 * length its + M + 3 <= fuel)%nat -> pre_ok pre ->
  lexinv (w_lex w) id (pre ++ render_items its) others ->
  s_state p = 0%nat -> s_comment p = None -> sopt_flat p ->
  c_opts c = done ++ todo -> Forall nondep (c_opts c) ->
  Forall2 (item_decl M) its todo ->
  (forall d t, In d done -> In t todo -> name_eqb (cflag c CFGF_NOCASE) (o_name d) (o_name t) = false) ->
  names_distinct (cflag c CFGF_NOCASE) (map o_name todo) ->
  exists w' c' todo',
    parse_internal strtod_o fuel w c 0 p = (w', c', PEOF) /\ wrel w w' /\ lexinv (w_lex w') id [] others /\
    c_opts c' = done ++ todo' /\ c_flags c' = c_flags c /\ c_pff c' = c_pff c /\
    Forall2 (fun io o' => frame (snd io) o' /\ o_vals o' = [snd (fst io)]) (combine its todo) todo'.
Proof.
  induction its as [|it its IH]; intros fuel w c p done todo pre id others Hfu Hpre Hlex Hs Hcm Hso Hopts Hnd Hdecl Hdt Hdist.
  - (* end of input *)
    inversion Hdecl; subst. cbn [render_items flat_map] in Hlex. rewrite app_nil_r in Hlex.
    destruct fuel as [|[|[|f]]]; try (cbn [length] in Hfu; lia).
    rewrite parse_internal_S.
    destruct (yylex_eof_pre (w_env w) (w_lex w) (c_pos c) id pre others f Hpre Hlex) as (st1 & L1 & Y1).
    destruct (next_token_ok _ _ _ _ _ _ _ Y1) as (w1 & NT1 & W1 & X1).
    rewrite (pi_eof _ _ _ w c p w1 _ None NT1 Hs Hso) by (rewrite c_opts_set_pos; exact Hnd).
    exists w1. eexists. exists []. split; [reflexivity|]. split; [exact W1|].
    split; [rewrite X1; exact L1|]. split; [rewrite c_opts_set_pos; exact Hopts|].
    split; [apply c_flags_set_pos|]. split; [apply c_pff_set_pos|constructor].
  - (* one more line *)
    inversion Hdecl as [|? o ? todo' Hit Hdecl']; subst.
    destruct fuel as [|[|[|fuel']]]; try (cbn [length] in Hfu; lia).
    cbn [render_items flat_map] in Hlex. fold (render_items its) in Hlex. rewrite line_text_app in Hlex.
    assert (Forall (fun d => name_eqb (cflag c CFGF_NOCASE) (o_name d) (o_name o) = false) done) as Hd.
    { apply Forall_forall. intros d Hin. apply Hdt; [exact Hin|left; reflexivity]. }
    destruct (parse_line M fuel' w c p done o todo' it id pre (render_items its) others
                ltac:(cbn [length] in Hfu; lia) Hpre Hlex Hs Hcm Hso Hopts Hnd Hit Hd)
      as (w5 & c4 & p3 & o' & E & W5 & L5 & Hs3 & Hcm3 & Hso3 & Hopts4 & Hfl4 & Hpf4 & FO & Hvals).
    rewrite E.
    rewrite Hopts in Hnd. apply Forall_app in Hnd as [Hnd1 Hnd2]. inversion Hnd2 as [|? ? Hndo Hnd3]; subst.
    cbn [map names_distinct] in Hdist. destruct Hdist as [Hdo Hdist'].
    destruct (IH fuel' w5 c4 p3 (done ++ [o']) todo' [x0a] id others) as (w' & c' & todo'' & E' & W' & L' & Ho' & Hf' & Hp' & F2).
    + cbn [length] in Hfu. lia.
    + right. reflexivity.
    + exact L5.
    + exact Hs3.
    + exact Hcm3.
    + exact Hso3.
    + rewrite Hopts4, <- app_assoc. reflexivity.
    + rewrite Hopts4. apply Forall_app. split; [exact Hnd1|]. constructor; [|exact Hnd3].
      unfold nondep in *. rewrite (frame_oflag o o' CFGF_DEPRECATED FO eq_refl). exact Hndo.
    + exact Hdecl'.
    + intros d t Hin Ht. rewrite (cflag_of_flags c c4 _ Hfl4). apply in_app_or in Hin. destruct Hin as [Hin|[<-|[]]].
      * apply Hdt; [exact Hin|right; exact Ht].
      * rewrite (fr_name _ _ FO). rewrite Forall_forall in Hdo. apply Hdo. apply in_map. exact Ht.
    + rewrite (cflag_of_flags c c4 _ Hfl4). exact Hdist'.
    + exists w', c', (o' :: todo''). split; [exact E'|]. split; [eapply wrel_trans; eassumption|].
      split; [exact L'|]. split; [rewrite Ho', <- app_assoc; reflexivity|].
      split; [rewrite Hf'; exact Hfl4|]. split; [rewrite Hp'; exact Hpf4|]. cbn [combine]. constructor; [|exact F2].
      cbn [fst snd]. split; [exact FO|exact Hvals].
Qed.

(* ================================================================== *)
(* H. the printer writes exactly those lines; cfg_parse_buf reads them  *)
(* ================================================================== *)

(* what makes a source option print as  NAME=VALUE\n  *)
Definition printable (o : opt) (v : value) : Prop :=
  scalar3 (o_kind o) /\ oflag o CFGF_LIST = false /\ o_comment o = None /\ cb_print (o_cbs o) = None /\
  o_vals o = [v] /\ val_ok (o_kind o) v /\ Forall (fun b => b <> x00) (o_name o).

Definition item_of (o : opt) : item := (o_name o, hd (VInt 0) (o_vals o)).

Lemma print_opt_line o v : printable o v -> print_opt fmt_f o None 0 = line_text (o_name o, v).
Proof.
  intros (Hk & Hl & Hc & Hp & Hv & Hok & Hn).
  destruct o as [name k flags vals sub def comment cbs].
  cbn [o_kind o_comment o_cbs o_vals o_name] in *. unfold oflag in Hl. cbn [o_flags] in Hl. subst comment vals.
  unfold line_text. cbn [fst snd].
  destruct Hk as [->|[->|[->| ->]]]; destruct v as [z|bits|b|[s|]| |]; try contradiction;
    cbn [print_opt]; rewrite Hl; unfold print_value, nprint_var; cbn [o_cbs o_kind o_vals nth_error o_name];
    rewrite Hp; cbn [length Nat.eqb orb kind_eqb andb indent_str repeat concat app vtext];
    rewrite (cstr_no_nul name Hn); reflexivity.
Qed.

Lemma print_cfg_flat c :
  c_pff c = None -> Forall (fun o => exists v, printable o v) (c_opts c) ->
  print_cfg fmt_f c None 0 = render_items (map item_of (c_opts c)).
Proof.
  intros Hp H. rewrite (C19_no_filter_pf fmt_f c 0 Hp).
  induction H as [|o opts (v & Ho) _ IH]; [reflexivity|].
  cbn [map concat render_items flat_map]. fold (render_items (map item_of opts)). rewrite IH.
  rewrite (print_opt_line o v Ho). unfold item_of.
  destruct Ho as (_ & _ & _ & _ & -> & _). reflexivity.
Qed.

(* the printed text has no NUL byte *)
Lemma esc1_no_nul c : c <> x00 -> no_nul (esc1 c).
Proof.
  intros H. unfold esc1. destruct (Byte.eqb c dq); [repeat constructor; discriminate|].
  destruct (Byte.eqb c bsl); [repeat constructor; discriminate|].
  destruct (Byte.eqb c x24); [repeat constructor; discriminate|].
  repeat constructor. exact H.
Qed.

Lemma vtext_no_nul k v : val_ok k v -> no_nul (vtext v).
Proof.
  destruct k; try contradiction; destruct v as [z|bits|b|[s|]| |]; try contradiction; cbn [val_ok vtext]; intros H.
  - eapply Forall_impl; [|apply print_Z_numeric]. intros a Ha. apply (numeric_word a Ha).
  - destruct H as ((c0 & run & _ & _ & _ & Hnul) & _). exact Hnul.
  - unfold quoted. rewrite (cstr_no_nul s H). constructor; [discriminate|]. apply Forall_app. split.
    + unfold escape. induction H as [|c s Hc _ IH]; cbn [flat_map]; [constructor|].
      apply Forall_app. split; [apply esc1_no_nul; exact Hc|exact IH].
    + repeat constructor. discriminate.
  - destruct b; repeat constructor; discriminate.
Qed.

Lemma render_no_nul M : forall its todo, Forall2 (item_decl M) its todo -> no_nul (render_items its).
Proof.
  induction 1 as [|it o its todo Hit _ IH]; [constructor|].
  cbn [render_items flat_map]. apply Forall_app. split; [|exact IH].
  destruct Hit as (_ & (c & run & _ & _ & _ & Hn & _) & Hv & _).
  unfold line_text. apply Forall_app. split; [exact Hn|]. constructor; [discriminate|].
  apply Forall_app. split; [eapply vtext_no_nul; exact Hv|repeat constructor; discriminate].
Qed.

(* source option and target declaration belong together *)
Definition same_decl (M : nat) (so to : opt) : Prop :=
  exists v, printable so v /\ item_decl M (o_name so, v) to.

Lemma same_decl_items M : forall src tgt,
  Forall2 (same_decl M) src tgt ->
  Forall (fun o => exists v, printable o v) src /\ Forall2 (item_decl M) (map item_of src) tgt.
Proof.
  induction 1 as [|so to src tgt (v & Hp & Hd) _ [IH1 IH2]]; [split; constructor|].
  split; [constructor; [exists v; exact Hp|exact IH1]|].
  cbn [map]. constructor; [|exact IH2]. unfold item_of.
  destruct Hp as (_ & _ & _ & _ & -> & _). exact Hd.
Qed.

Lemma include_unwind_noinc n w d : l_inc (w_lex w) = [] -> include_unwind n w d = w.
Proof. intros H. destruct n; cbn [include_unwind]; [reflexivity|]. rewrite H. reflexivity. Qed.

Lemma c_opts_hdr c f l : c_opts (set_line (set_file c f) l) = c_opts c. Proof. destruct c; reflexivity. Qed.
Lemma c_flags_hdr c f l : c_flags (set_line (set_file c f) l) = c_flags c. Proof. destruct c; reflexivity. Qed.

Theorem flat_roundtrip M (cs ct : cfg) (w : pw) fuel :
  c_pff cs = None ->
  Forall2 (same_decl M) (c_opts cs) (c_opts ct) ->
  names_distinct (cflag ct CFGF_NOCASE) (map o_name (c_opts ct)) ->
  l_inc (w_lex w) = [] ->
  (3 * length (c_opts cs) + M + 3 <= fuel)%nat ->
  exists w' ct',
    parse_buf strtod_o fuel w ct (Some (print_cfg fmt_f cs None 0)) = (w', ct', CFG_SUCCESS) /\
    wrel w w' /\ c_flags ct' = c_flags ct /\ c_pff ct' = c_pff ct /\
    Forall2 (fun so_to to' => frame (snd so_to) to' /\ o_vals to' = o_vals (fst so_to))
            (combine (c_opts cs) (c_opts ct)) (c_opts ct').
Proof.
  intros Hpff Hsame Hdist Hinc Hfu.
  destruct (same_decl_items M _ _ Hsame) as [Hprint Hdecl].
  rewrite (print_cfg_flat cs Hpff Hprint).
  set (its := map item_of (c_opts cs)) in *.
  unfold parse_buf, parse_fp, parse_fp_gen.
  rewrite (cstr_no_nul _ (render_no_nul M its (c_opts ct) Hdecl)).
  cbv zeta.
  set (c2 := set_line (match c_file (set_file ct (Some (Lexer.M "[buf]"))) with
                       | Some _ => set_file ct (Some (Lexer.M "[buf]"))
                       | None => set_file (set_file ct (Some (Lexer.M "[buf]"))) (Some (Lexer.M "FILE")) end) 1).
  assert (c_opts c2 = c_opts ct /\ c_flags c2 = c_flags ct /\ c_pff c2 = c_pff ct) as (Ho2 & Hf2 & Hp2).
  { unfold c2. destruct ct; cbn. repeat split; reflexivity. }
  set (w1 := upd_lex w (scan_begin (w_lex w) (render_items its))).
  assert (lexinv (w_lex w1) (l_next (w_lex w)) ([] ++ render_items its) (l_bufs (w_lex w))) as L1.
  { unfold w1, lexinv, scan_begin. cbn. auto. }
  destruct (parse_items M its fuel w1 c2 (pst0 0 None) [] (c_opts ct) [] _ _
              ltac:(unfold its; rewrite map_length; exact Hfu) (or_introl eq_refl) L1 eq_refl eq_refl (or_introl eq_refl))
    as (w2 & c3 & todo' & E & W2 & L2 & Ho3 & Hf3 & Hp3 & F2).
  - rewrite Ho2. reflexivity.
  - rewrite Ho2. destruct (same_decl_items M _ _ Hsame) as [_ Hd].
    clear - Hd. induction Hd as [|it o its todo (_ & _ & _ & (_ & _ & Hnd & _) & _) _ IH]; constructor; assumption.
  - exact Hdecl.
  - intros d t [].
  - rewrite (cflag_of_flags ct c2 _ Hf2). exact Hdist.
  - rewrite E. cbv beta iota.
    destruct L2 as (_ & _ & Hi2 & _).
    rewrite (include_unwind_noinc _ w2 _ Hi2).
    eexists. exists c3. split; [reflexivity|].
    split; [eapply wrel_trans; [apply wrel_upd_lex|]; eapply wrel_trans; [exact W2|apply wrel_upd_lex]|].
    split; [rewrite Hf3; exact Hf2|]. split; [rewrite Hp3; exact Hp2|].
    rewrite Ho3. cbn [app].
    (* relate items back to the source options *)
    clear - F2 Hsame. unfold its in F2. revert todo' F2.
    induction Hsame as [|so to src tgt (v & Hp & _) _ IH]; intros todo' F2.
    + inversion F2; subst. constructor.
    + cbn [map combine] in F2. inversion F2 as [|? o' ? todo'' [Hfr Hv] F2']; subst.
      cbn [combine]. constructor; [|apply IH; exact F2'].
      cbn [fst snd] in *. split; [exact Hfr|]. rewrite Hv. unfold item_of. cbn [snd].
      destruct Hp as (_ & _ & _ & _ & -> & _). reflexivity.
Qed.

(* ---- printing the re-parsed context gives the same text ---- *)
Definition plain_decl (o : opt) : Prop := o_comment o = None /\ cb_print (o_cbs o) = None.

Lemma reprint_lists M : forall src tgt,
  Forall2 (same_decl M) src tgt -> Forall plain_decl tgt ->
  forall res, Forall2 (fun so_to to' => frame (snd so_to) to' /\ o_vals to' = o_vals (fst so_to)) (combine src tgt) res ->
  Forall (fun o => exists v, printable o v) res /\ map item_of res = map item_of src.
Proof.
  induction 1 as [|so to src tgt (v & Hp & Hd) _ IH]; intros Hpl res F.
  - inversion F; subst. split; [constructor|reflexivity].
  - cbn [combine] in F. inversion F as [|? to' ? res' [Hfr Hv] F']; subst. cbn [fst snd] in *.
    inversion Hpl as [|? ? [Hcm Hcp] Hpl']; subst.
    destruct (IH Hpl' res' F') as [IH1 IH2].
    destruct Hp as (Hk & Hl & Hc & Hpr & Hvals & Hok & Hn).
    destruct Hd as (Hname & _ & Hvok & (Hk' & Hl' & _) & _). cbn [fst snd] in *.
    rewrite Hvals in Hv.
    assert (printable to' v) as Hp'.
    { unfold printable. rewrite (fr_kind _ _ Hfr), (fr_cbs _ _ Hfr), (fr_name _ _ Hfr), Hname.
      rewrite (frame_oflag to to' CFGF_LIST Hfr eq_refl).
      repeat split; try assumption. apply (fr_comment _ _ Hfr). exact Hcm. }
    split; [constructor; [exists v; exact Hp'|exact IH1]|].
    cbn [map]. rewrite IH2. f_equal. unfold item_of. rewrite Hv, Hvals, (fr_name _ _ Hfr), Hname. reflexivity.
Qed.

Theorem flat_reprint M (cs ct ct' : cfg) :
  c_pff cs = None -> c_pff ct' = None ->
  Forall2 (same_decl M) (c_opts cs) (c_opts ct) -> Forall plain_decl (c_opts ct) ->
  Forall2 (fun so_to to' => frame (snd so_to) to' /\ o_vals to' = o_vals (fst so_to))
          (combine (c_opts cs) (c_opts ct)) (c_opts ct') ->
  print_cfg fmt_f ct' None 0 = print_cfg fmt_f cs None 0.
Proof.
  intros Hps Hpt Hsame Hpl F.
  destruct (reprint_lists M _ _ Hsame Hpl _ F) as [H1 H2].
  destruct (same_decl_items M _ _ Hsame) as [H3 _].
  rewrite (print_cfg_flat ct' Hpt H1), (print_cfg_flat cs Hps H3), H2. reflexivity.
Qed.

(* both together: parse the printed text into a context with the same plain declarations, print again *)
Theorem flat_roundtrip_idempotent M (cs ct : cfg) (w : pw) fuel :
  c_pff cs = None -> c_pff ct = None ->
  Forall2 (same_decl M) (c_opts cs) (c_opts ct) -> Forall plain_decl (c_opts ct) ->
  names_distinct (cflag ct CFGF_NOCASE) (map o_name (c_opts ct)) ->
  l_inc (w_lex w) = [] ->
  (3 * length (c_opts cs) + M + 3 <= fuel)%nat ->
  exists w' ct',
    parse_buf strtod_o fuel w ct (Some (print_cfg fmt_f cs None 0)) = (w', ct', CFG_SUCCESS) /\
    wrel w w' /\
    Forall2 (fun so to' => o_name to' = o_name so /\ o_kind to' = o_kind so /\ o_vals to' = o_vals so)
            (c_opts cs) (c_opts ct') /\
    print_cfg fmt_f ct' None 0 = print_cfg fmt_f cs None 0.
Proof.
  intros Hps Hpt Hsame Hpl Hdist Hinc Hfu.
  destruct (flat_roundtrip M cs ct w fuel Hps Hsame Hdist Hinc Hfu)
    as (w' & ct' & E & W & _ & Hp' & F).
  exists w', ct'. split; [exact E|]. split; [exact W|]. split.
  - clear - Hsame F. revert F. generalize (c_opts ct'). induction Hsame as [|so to src tgt (v & Hp & Hd) _ IH]; intros res F.
    + inversion F; subst. constructor.
    + cbn [combine] in F. inversion F as [|? to' ? res' [Hfr Hv] F']; subst. cbn [fst snd] in *.
      constructor; [|apply IH; exact F'].
      destruct Hd as (Hname & _ & Hvok & _). destruct Hp as (Hk & _ & _ & _ & Hvals & Hok & _). cbn [fst snd] in *.
      split; [rewrite (fr_name _ _ Hfr); exact Hname|]. split; [|exact Hv].
      rewrite (fr_kind _ _ Hfr).
      destruct (o_kind to); try contradiction; destruct (o_kind so); try contradiction; try reflexivity;
        destruct v as [z|bits|b|[s|]| |]; contradiction.
  - apply (flat_reprint M cs ct ct' Hps); [rewrite Hp'; exact Hpt|exact Hsame|exact Hpl|exact F].
Qed.

End Oracles.

(* ================================================================== *)
(* I. the token list of one printed integer line (the `lex` view)       *)
(* ================================================================== *)

Lemma lex_fuel_ge2 st id c text others : l_bufs st = (id, c :: text) :: others -> exists k, lex_fuel st = S (S k).
Proof.
  intros H. unfold lex_fuel. rewrite H. cbn [fold_left snd length]. rewrite fold_measure_shift.
  eexists. reflexivity.
Qed.

Lemma lex_all_S e f s p acc dacc :
  lex_all e (S f) s p acc dacc =
  let r := yylex e (lex_fuel s) s p 0 in
  match r_tok r with
  | TEof => (rev acc, TEof, r_st r, r_pos r, dacc ++ r_diags r)
  | TErr => (rev acc, TErr, r_st r, r_pos r, dacc ++ r_diags r)
  | t => lex_all e f (r_st r) (r_pos r)
           ({| lt_tok := t; lt_val := r_val r; lt_line := p_line (r_pos r) |} :: acc) (dacc ++ r_diags r)
  end.
Proof. reflexivity. Qed.

Theorem int_line_tokens e st p id others c run z :
  word_start c = true -> Forall (fun b => word_mid b = true) run -> Forall (fun b => b <> x00) (c :: run) ->
  lexinv st id ((c :: run) ++ x3d :: print_Z z ++ [x0a]) others ->
  exists st',
    lex_all e 4 st p [] [] =
    ([ {| lt_tok := TStr; lt_val := Some (c :: run); lt_line := p_line p |};
       {| lt_tok := TPunct 61; lt_val := Some [x3d]; lt_line := p_line p |};
       {| lt_tok := TStr; lt_val := Some (print_Z z); lt_line := p_line p |} ],
     TEof, st', line_incr p, []) /\ lexinv st' id [] others.
Proof.
  intros Hc Hrun Hnul L0.
  (* the name *)
  destruct (lex_fuel_ge2 st id c _ others (proj1 (proj2 L0))) as (k0 & F0).
  destruct (yylex_name_pre e st p id [] c run (x3d :: print_Z z ++ [x0a]) others k0 (or_introl eq_refl) L0 Hc Hrun eq_refl)
    as (st1 & L1 & Y1).
  rewrite (cstr_no_nul _ Hnul) in Y1. cbn [pre_pos] in Y1.
  rewrite lex_all_S, F0, Y1. cbv zeta. cbn [tokres r_tok r_val r_st r_pos r_diags app p_line].
  (* the equal sign *)
  pose proof (yylex_eq e st1 p id (print_Z z ++ [x0a]) others (pred (lex_fuel st1)) L1) as Y2.
  change (S (pred (lex_fuel st1))) with (lex_fuel st1) in Y2.
  rewrite lex_all_S, Y2. cbv zeta. cbn [tokres r_tok r_val r_st r_pos r_diags app p_line].
  pose proof (lexinv_set_bufs st1 id _ others (print_Z z ++ [x0a]) L1) as L2.
  set (st2 := set_bufs st1 ((id, print_Z z ++ [x0a]) :: others)) in *.
  (* the value *)
  pose proof (yylex_word_value e st2 p id (print_Z z) [x0a] others (pred (lex_fuel st2)) L2 eq_refl
                (or_introl (ex_intro _ z eq_refl))) as Y3.
  change (S (pred (lex_fuel st2))) with (lex_fuel st2) in Y3.
  rewrite lex_all_S, Y3. cbv zeta. cbn [tokres r_tok r_val r_st r_pos r_diags app p_line].
  pose proof (lexinv_set_bufs st2 id _ others [x0a] L2) as L3.
  set (st3 := set_bufs st2 ((id, [x0a]) :: others)) in *.
  (* newline, end of input *)
  destruct (lex_fuel_ge2 st3 id x0a [] others (proj1 (proj2 L3))) as (k3 & F3).
  destruct (yylex_eof_pre e st3 p id [x0a] others k3 (or_intror eq_refl) L3) as (st4 & L4 & Y4).
  rewrite lex_all_S, F3, Y4. cbv zeta. cbn [tokres r_tok r_val r_st r_pos r_diags app p_line pre_pos rev].
  exists st4. split; [reflexivity|exact L4].
Qed.
