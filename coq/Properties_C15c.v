(* Properties_C15c.v — C15, second sentence: annotations.
     "With annotation support on, a comment placed immediately before the assignment of a scalar or non-empty list
      option becomes, trimmed, that option's annotation: it is returned by the comment getter, written by print and
      read back by a re-parse."
   Statements only; the proofs are in AnnotProofs.v.

   MODEL  Parser.parse_internal (cfg_parse_internal: the local `comment` is pst.s_comment), Parser.setopt (cfg_setopt),
          Store.free_value (cfg_free_value: the annotation survives while CFGF_RESET is set), Store.opt_setcomment,
          Print.print_opt / print_cfg (cfg_opt_print_pff_indent / cfg_print_pff_indent).  The comment getter
          cfg_opt_getcomment returns the field Store.o_comment.
   LEVEL  tokens.  The token source is PP_Tok.yields (the scanner delivers these tokens, then end of input; C01 / C15b
          tie it to the scanner model).  The text of a comment token is whatever the scanner stored for it:
          AnnotProofs takes `sval (lt_val t)`; that the scanner has trimmed it is LexComments.qstr_val_inv /
          Properties_C15b.C15_hash_comment_yylex, C15_slash_comment_yylex (value = trim_ws ...) — for a block comment
          C15_block_comment_yylex gives the value only existentially; AnnotLexProofs.v computes it
          (C15c_block_comment_value, C15c_annot_comment_tokens), which closes the comment side of statement 8.

   Vocabulary (AnnotProofs.v):
     iscm t / ispunct t x / isstr t v     t is a comment token / the punctuation x ('=' 61, "+=" 43, '{' 123, '}' 125,
                                          ',' 44) / a string token with text v
     conf e fuel w L ts                   world w reads the tokens ts, then end of input, from scanner state L
                                          (PP_Tok.wst, yieldsc) and  measure L + |ts| + 1 < fuel
     nodep c p                            the option the machine handled last (s_opt p) is not CFGF_DEPRECATED
     pend on cs d                         the pending comment after the comment tokens cs read in state 0, starting
                                          from d:  the text of the LAST of cs if on (= cflag c CFGF_COMMENTS) and cs is
                                          not empty, else d
     lopt o                               (PP_Machine) kind int / float / bool / string, no parse and no validate callback
     lbody 2 body vs                      body is the inside of a braced list up to and including '}', with comment
                                          tokens anywhere, trailing comma allowed; vs are the value texts in it
     uitem item                           item is what may follow the name of an unknown option: (comments) = | += (comments) v;
                                          = | += { tokens up to the first '}';  ( tokens up to the first ')';
                                          { tokens up to the matching '}' (braces 1);  title { ... likewise
     assigned pc o o' vals                o' is o after the assignment with pending comment pc:
                                            shape o' = shape o (same declaration), o_vals o' = vals, RESET cleared,
                                            o_comment o' = (if pc = Some cm then Some cm else o_comment o),
                                            CFGF_COMMENTS bit of o' = (if pc = Some _ then set else as in o)
     done e level r pc fuel w c p o vals ts
                                          from (fuel, w, c, p) the machine reaches, without leaving the loop,
                                          parse_internal f w' c' level p' with  f <= fuel, conf e f w' L' ts (the rest of
                                          the tokens),  c' = c except position and the option at r, which is o'
                                          (ceq c' (put_opt c r o'), get_opt c' r = Some o'),  assigned pc o o' vals,
                                          p' in state 0 with NO pending comment, title / forced as in p, s_opt p' = Some r.

   FINDINGS (all by the model = the C code; none contradicts the sentence above, all concern comments the sentence
   does not speak about; see the Examples at the end):
     * a pending comment is used by the next VALUE stored, not by the next item: a comment in front of a section,
       of a function call (include) or of `name = {}` stays pending and becomes the annotation of the next scalar /
       non-empty list assignment at the same level (C15c_comment_migrates_*; proved for the empty list:
       C15c_empty_list_keeps_pending).
     * print writes an unset option as a `# name=...` comment line; re-parsing the printed text with annotation support
       on turns that line into the annotation of the next option (C15c_reparse_spurious_annotation): the round trip
       print -> parse does not give back the same annotations in general. *)
From Coq Require String.
From Coq Require Import List Arith NArith ZArith Bool.
From Coq.Strings Require Import Byte.
From LC Require Import Bytes Flex LexAct Consts Conv Lexer LexLemmas LexAll Files Store Parser Grammar Print
  PP_Base PP_Step PP_Tok PP_Inv PP_Machine ParserProofs AnnotLexProofs AnnotProofs.
Import ListNotations.
Import String.StringSyntax.
Local Open Scope string_scope.
Local Open Scope list_scope.
Local Open Scope nat_scope.

(* 0. cfg_setopt never changes the annotation or the option's CFGF_COMMENTS bit (any kind, any callbacks, any fuel):
      the RESET rule of cfg_free_value at work *)
Theorem C15c_setopt_keeps_annotation :
  forall (strtod_o : str -> strtod_res) (f : nat) (w : pw) (c : cfg) (o : opt) (txt : option str),
  o_comment (snd (fst (setopt strtod_o f w c o txt))) = o_comment o /\
  oflag (snd (fst (setopt strtod_o f w c o txt))) CFGF_COMMENTS = oflag o CFGF_COMMENTS.
Proof. intros. split; [apply setopt_comment|apply setopt_oflagC]. Qed.
Print Assumptions C15c_setopt_keeps_annotation.

(* 1-4, general form.  [comments cs]  name  [k1] = [k2] v   for a scalar option, from state 0:
      the option gets the value and the pending comment pend (COMMENTS?) cs (s_comment p) *)
Theorem C15c_item_scalar :
  forall (strtod_o : str -> strtod_res) (e : ctx) (level : nat) (cs : list ltok) (tn : ltok) (k1 : list ltok) (teq : ltok)
         (k2 : list ltok) (tv : ltok) (ts : list ltok) (L : lexst) (w : pw) (c : cfg) (p : pst) (fuel : nat)
         (name : str) (r : optref) (o : opt) (v : str) (x : value),
  conf e fuel w L (cs ++ tn :: k1 ++ teq :: k2 ++ tv :: ts) ->
  Forall iscm cs -> isstr tn name -> Forall iscm k1 -> ispunct teq 61 -> Forall iscm k2 -> isstr tv v ->
  s_state p = 0 -> nodep c p -> fst (cfg_getopt c name) = Some r -> get_opt c r = Some o -> lopt o ->
  oflag o CFGF_LIST = false -> conv_value strtod_o (o_kind o) v = Some x ->
  done strtod_o e level r (pend (cflag c CFGF_COMMENTS) cs (s_comment p)) fuel w c p o [x] ts.
Proof. exact item_scalar. Qed.
Print Assumptions C15c_item_scalar.

(* the same for a list option written  name = v  or  name += v  (ap = true: "+=") *)
Theorem C15c_item_single :
  forall (strtod_o : str -> strtod_res) (e : ctx) (level : nat) (cs : list ltok) (tn : ltok) (k1 : list ltok) (top : ltok)
         (k2 : list ltok) (tv : ltok) (ts : list ltok) (L : lexst) (w : pw) (c : cfg) (p : pst) (fuel : nat)
         (name : str) (r : optref) (o : opt) (v : str) (x : value) (ap : bool),
  conf e fuel w L (cs ++ tn :: k1 ++ top :: k2 ++ tv :: ts) ->
  Forall iscm cs -> isstr tn name -> Forall iscm k1 -> ispunct top (opk ap) -> Forall iscm k2 -> isstr tv v ->
  s_state p = 0 -> nodep c p -> fst (cfg_getopt c name) = Some r -> get_opt c r = Some o -> lopt o ->
  oflag o CFGF_LIST = true -> conv_value strtod_o (o_kind o) v = Some x ->
  done strtod_o e level r (pend (cflag c CFGF_COMMENTS) cs (s_comment p)) fuel w c p o
       ((if ap then o_vals o else []) ++ [x]) ts.
Proof. exact item_single. Qed.
Print Assumptions C15c_item_single.

(* the same for  name = { v, ... }  or  name += { v, ... }  with at least one value: the comment is attached with the
   FIRST value; comments inside the braces, later values and the closing brace do not change it *)
Theorem C15c_item_braced :
  forall (strtod_o : str -> strtod_res) (e : ctx) (level : nat) (cs : list ltok) (tn : ltok) (k1 : list ltok) (top : ltok)
         (k2 : list ltok) (tlb : ltok) (body ts : list ltok) (L : lexst) (w : pw) (c : cfg) (p : pst) (fuel : nat)
         (name : str) (r : optref) (o : opt) (v : str) (vs : list str) (x : value) (xs : list value) (ap : bool),
  conf e fuel w L (cs ++ tn :: k1 ++ top :: k2 ++ tlb :: body ++ ts) ->
  Forall iscm cs -> isstr tn name -> Forall iscm k1 -> ispunct top (opk ap) -> Forall iscm k2 -> ispunct tlb 123 ->
  lbody 2 body (v :: vs) ->
  s_state p = 0 -> nodep c p -> fst (cfg_getopt c name) = Some r -> get_opt c r = Some o -> lopt o ->
  oflag o CFGF_LIST = true -> Forall2 (fun v x => conv_value strtod_o (o_kind o) v = Some x) (v :: vs) (x :: xs) ->
  done strtod_o e level r (pend (cflag c CFGF_COMMENTS) cs (s_comment p)) fuel w c p o
       ((if ap then o_vals o else []) ++ x :: xs) ts.
Proof. exact item_braced. Qed.
Print Assumptions C15c_item_braced.

(* what is pending: the last comment when annotation support is on, nothing new when it is off or no comment stands there *)
Theorem C15c_pending :
  (forall c cs0 tc d, cflag c CFGF_COMMENTS = true -> pend (cflag c CFGF_COMMENTS) (cs0 ++ [tc]) d = Some (sval (lt_val tc))) /\
  (forall c cs d, cflag c CFGF_COMMENTS = false -> pend (cflag c CFGF_COMMENTS) cs d = d) /\
  (forall on d, pend on [] d = d).
Proof. split; [exact pend_last|split; [exact pend_noflag|exact pend_nil]]. Qed.
Print Assumptions C15c_pending.

(* 1 + 2. ATTACH, scalar: annotation support on, comments cs0 ++ [tc] in front (the nearest, tc, wins), comments k1, k2
   inside the item are skipped: the option's annotation is the text of tc *)
Theorem C15c_attach_scalar :
  forall (strtod_o : str -> strtod_res) (e : ctx) (level : nat) (cs0 : list ltok) (tc tn : ltok) (k1 : list ltok) (teq : ltok)
         (k2 : list ltok) (tv : ltok) (ts : list ltok) (L : lexst) (w : pw) (c : cfg) (p : pst) (fuel : nat)
         (name : str) (r : optref) (o : opt) (v : str) (x : value),
  conf e fuel w L ((cs0 ++ [tc]) ++ tn :: k1 ++ teq :: k2 ++ tv :: ts) ->
  Forall iscm cs0 -> iscm tc -> isstr tn name -> Forall iscm k1 -> ispunct teq 61 -> Forall iscm k2 -> isstr tv v ->
  cflag c CFGF_COMMENTS = true ->
  s_state p = 0 -> nodep c p -> fst (cfg_getopt c name) = Some r -> get_opt c r = Some o -> lopt o ->
  oflag o CFGF_LIST = false -> conv_value strtod_o (o_kind o) v = Some x ->
  done strtod_o e level r (Some (sval (lt_val tc))) fuel w c p o [x] ts.
Proof. exact attach_scalar. Qed.
Print Assumptions C15c_attach_scalar.

Theorem C15c_attach_braced :
  forall (strtod_o : str -> strtod_res) (e : ctx) (level : nat) (cs0 : list ltok) (tc tn : ltok) (k1 : list ltok) (top : ltok)
         (k2 : list ltok) (tlb : ltok) (body ts : list ltok) (L : lexst) (w : pw) (c : cfg) (p : pst) (fuel : nat)
         (name : str) (r : optref) (o : opt) (v : str) (vs : list str) (x : value) (xs : list value) (ap : bool),
  conf e fuel w L ((cs0 ++ [tc]) ++ tn :: k1 ++ top :: k2 ++ tlb :: body ++ ts) ->
  Forall iscm cs0 -> iscm tc -> isstr tn name -> Forall iscm k1 -> ispunct top (opk ap) -> Forall iscm k2 -> ispunct tlb 123 ->
  lbody 2 body (v :: vs) -> cflag c CFGF_COMMENTS = true ->
  s_state p = 0 -> nodep c p -> fst (cfg_getopt c name) = Some r -> get_opt c r = Some o -> lopt o ->
  oflag o CFGF_LIST = true -> Forall2 (fun v x => conv_value strtod_o (o_kind o) v = Some x) (v :: vs) (x :: xs) ->
  done strtod_o e level r (Some (sval (lt_val tc))) fuel w c p o ((if ap then o_vals o else []) ++ x :: xs) ts.
Proof. exact attach_braced. Qed.
Print Assumptions C15c_attach_braced.

Theorem C15c_attach_single :
  forall (strtod_o : str -> strtod_res) (e : ctx) (level : nat) (cs0 : list ltok) (tc tn : ltok) (k1 : list ltok) (top : ltok)
         (k2 : list ltok) (tv : ltok) (ts : list ltok) (L : lexst) (w : pw) (c : cfg) (p : pst) (fuel : nat)
         (name : str) (r : optref) (o : opt) (v : str) (x : value) (ap : bool),
  conf e fuel w L ((cs0 ++ [tc]) ++ tn :: k1 ++ top :: k2 ++ tv :: ts) ->
  Forall iscm cs0 -> iscm tc -> isstr tn name -> Forall iscm k1 -> ispunct top (opk ap) -> Forall iscm k2 -> isstr tv v ->
  cflag c CFGF_COMMENTS = true ->
  s_state p = 0 -> nodep c p -> fst (cfg_getopt c name) = Some r -> get_opt c r = Some o -> lopt o ->
  oflag o CFGF_LIST = true -> conv_value strtod_o (o_kind o) v = Some x ->
  done strtod_o e level r (Some (sval (lt_val tc))) fuel w c p o ((if ap then o_vals o else []) ++ [x]) ts.
Proof. exact attach_single. Qed.
Print Assumptions C15c_attach_single.

(* 3. annotation support OFF: nothing is attached, the annotation the option has is kept *)
Theorem C15c_off_keeps_scalar :
  forall (strtod_o : str -> strtod_res) (e : ctx) (level : nat) (cs : list ltok) (tn : ltok) (k1 : list ltok) (teq : ltok)
         (k2 : list ltok) (tv : ltok) (ts : list ltok) (L : lexst) (w : pw) (c : cfg) (p : pst) (fuel : nat)
         (name : str) (r : optref) (o : opt) (v : str) (x : value),
  conf e fuel w L (cs ++ tn :: k1 ++ teq :: k2 ++ tv :: ts) ->
  Forall iscm cs -> isstr tn name -> Forall iscm k1 -> ispunct teq 61 -> Forall iscm k2 -> isstr tv v ->
  cflag c CFGF_COMMENTS = false -> s_comment p = None ->
  s_state p = 0 -> nodep c p -> fst (cfg_getopt c name) = Some r -> get_opt c r = Some o -> lopt o ->
  oflag o CFGF_LIST = false -> conv_value strtod_o (o_kind o) v = Some x ->
  done strtod_o e level r None fuel w c p o [x] ts.
Proof. exact off_keeps_scalar. Qed.
Print Assumptions C15c_off_keeps_scalar.

(* 4. a later assignment WITHOUT a comment keeps the annotation: scalar, braced list, single list value; "+=" too *)
Theorem C15c_bare_keeps_scalar :
  forall (strtod_o : str -> strtod_res) (e : ctx) (level : nat) (tn : ltok) (k1 : list ltok) (teq : ltok)
         (k2 : list ltok) (tv : ltok) (ts : list ltok) (L : lexst) (w : pw) (c : cfg) (p : pst) (fuel : nat)
         (name : str) (r : optref) (o : opt) (v : str) (x : value),
  conf e fuel w L (tn :: k1 ++ teq :: k2 ++ tv :: ts) ->
  isstr tn name -> Forall iscm k1 -> ispunct teq 61 -> Forall iscm k2 -> isstr tv v -> s_comment p = None ->
  s_state p = 0 -> nodep c p -> fst (cfg_getopt c name) = Some r -> get_opt c r = Some o -> lopt o ->
  oflag o CFGF_LIST = false -> conv_value strtod_o (o_kind o) v = Some x ->
  done strtod_o e level r None fuel w c p o [x] ts.
Proof. exact bare_keeps_scalar. Qed.
Print Assumptions C15c_bare_keeps_scalar.

Theorem C15c_bare_keeps_braced :
  forall (strtod_o : str -> strtod_res) (e : ctx) (level : nat) (tn : ltok) (k1 : list ltok) (top : ltok)
         (k2 : list ltok) (tlb : ltok) (body ts : list ltok) (L : lexst) (w : pw) (c : cfg) (p : pst) (fuel : nat)
         (name : str) (r : optref) (o : opt) (v : str) (vs : list str) (x : value) (xs : list value) (ap : bool),
  conf e fuel w L (tn :: k1 ++ top :: k2 ++ tlb :: body ++ ts) ->
  isstr tn name -> Forall iscm k1 -> ispunct top (opk ap) -> Forall iscm k2 -> ispunct tlb 123 ->
  lbody 2 body (v :: vs) -> s_comment p = None ->
  s_state p = 0 -> nodep c p -> fst (cfg_getopt c name) = Some r -> get_opt c r = Some o -> lopt o ->
  oflag o CFGF_LIST = true -> Forall2 (fun v x => conv_value strtod_o (o_kind o) v = Some x) (v :: vs) (x :: xs) ->
  done strtod_o e level r None fuel w c p o ((if ap then o_vals o else []) ++ x :: xs) ts.
Proof. exact bare_keeps_braced. Qed.
Print Assumptions C15c_bare_keeps_braced.

Theorem C15c_bare_keeps_single :
  forall (strtod_o : str -> strtod_res) (e : ctx) (level : nat) (tn : ltok) (k1 : list ltok) (top : ltok)
         (k2 : list ltok) (tv : ltok) (ts : list ltok) (L : lexst) (w : pw) (c : cfg) (p : pst) (fuel : nat)
         (name : str) (r : optref) (o : opt) (v : str) (x : value) (ap : bool),
  conf e fuel w L (tn :: k1 ++ top :: k2 ++ tv :: ts) ->
  isstr tn name -> Forall iscm k1 -> ispunct top (opk ap) -> Forall iscm k2 -> isstr tv v -> s_comment p = None ->
  s_state p = 0 -> nodep c p -> fst (cfg_getopt c name) = Some r -> get_opt c r = Some o -> lopt o ->
  oflag o CFGF_LIST = true -> conv_value strtod_o (o_kind o) v = Some x ->
  done strtod_o e level r None fuel w c p o ((if ap then o_vals o else []) ++ [x]) ts.
Proof. exact bare_keeps_single. Qed.
Print Assumptions C15c_bare_keeps_single.

(* 5. an unknown option  name = v | name += v  skipped under CFGF_IGNORE_UNKNOWN: the pending comment is DROPPED
      (state 0, no pending comment afterwards, tree unchanged except position) ... *)
Theorem C15c_unknown_drops :
  forall (strtod_o : str -> strtod_res) (e : ctx) (level : nat) (cs : list ltok) (tn : ltok) (k1 : list ltok) (top : ltok)
         (k2 : list ltok) (tv : ltok) (ts : list ltok) (L : lexst) (w : pw) (c : cfg) (p : pst) (fuel : nat)
         (name v : str) (ap : bool),
  conf e fuel w L (cs ++ tn :: k1 ++ top :: k2 ++ tv :: ts) ->
  Forall iscm cs -> isstr tn name -> Forall iscm k1 -> ispunct top (opk ap) -> Forall iscm k2 -> isstr tv v ->
  s_state p = 0 -> nodep c p -> fst (cfg_getopt c name) = None -> cflag c CFGF_IGNORE_UNKNOWN = true ->
  exists f w' c' L' p', parse_internal strtod_o fuel w c level p = parse_internal strtod_o f w' c' level p' /\
    conf e f w' L' ts /\ f <= fuel /\ ceq c' c /\ pz0 p p' /\ s_opt p' = None.
Proof. exact unknown_drops. Qed.
Print Assumptions C15c_unknown_drops.

(* ... and so it is not attached to the declared option that follows *)
Theorem C15c_unknown_then_scalar :
  forall (strtod_o : str -> strtod_res) (e : ctx) (level : nat) (cs : list ltok) (tu : ltok) (j1 : list ltok) (top : ltok)
         (j2 : list ltok) (tuv tn : ltok) (k1 : list ltok) (teq : ltok) (k2 : list ltok) (tv : ltok) (ts : list ltok)
         (L : lexst) (w : pw) (c : cfg) (p : pst) (fuel : nat) (uname uv : str) (ap : bool) (name : str) (r : optref)
         (o : opt) (v : str) (x : value),
  conf e fuel w L (cs ++ tu :: j1 ++ top :: j2 ++ tuv :: tn :: k1 ++ teq :: k2 ++ tv :: ts) ->
  Forall iscm cs -> isstr tu uname -> Forall iscm j1 -> ispunct top (opk ap) -> Forall iscm j2 -> isstr tuv uv ->
  isstr tn name -> Forall iscm k1 -> ispunct teq 61 -> Forall iscm k2 -> isstr tv v ->
  s_state p = 0 -> nodep c p -> cflag c CFGF_IGNORE_UNKNOWN = true -> fst (cfg_getopt c uname) = None ->
  fst (cfg_getopt c name) = Some r -> get_opt c r = Some o -> lopt o ->
  oflag o CFGF_LIST = false -> conv_value strtod_o (o_kind o) v = Some x ->
  done strtod_o e level r None fuel w c p o [x] ts.
Proof. exact unknown_then_scalar. Qed.
Print Assumptions C15c_unknown_then_scalar.

(* every form of an unknown item (uitem, AnnotProofs.v):  = v | += v | = { ... } | += { ... } | ( ... ) | { ... nested ... } |
   title { ... }, with comments between its first tokens: state 10 clears the pending comment and states 11 - 14 never set it *)
Theorem C15c_unknown_drops_any :
  forall (strtod_o : str -> strtod_res) (e : ctx) (level : nat) (cs : list ltok) (tn : ltok) (item ts : list ltok)
         (L : lexst) (w : pw) (c : cfg) (p : pst) (fuel : nat) (name : str),
  conf e fuel w L (cs ++ tn :: item ++ ts) -> Forall iscm cs -> isstr tn name -> uitem item ->
  s_state p = 0 -> nodep c p -> fst (cfg_getopt c name) = None -> cflag c CFGF_IGNORE_UNKNOWN = true ->
  exists f w' c' L' p', parse_internal strtod_o fuel w c level p = parse_internal strtod_o f w' c' level p' /\
    conf e f w' L' ts /\ f <= fuel /\ ceq c' c /\ pz0 p p' /\ s_opt p' = None.
Proof. exact unknown_drops_any. Qed.
Print Assumptions C15c_unknown_drops_any.

Theorem C15c_unknown_any_then_scalar :
  forall (strtod_o : str -> strtod_res) (e : ctx) (level : nat) (cs : list ltok) (tu : ltok) (item : list ltok) (tn : ltok)
         (k1 : list ltok) (teq : ltok) (k2 : list ltok) (tv : ltok) (ts : list ltok)
         (L : lexst) (w : pw) (c : cfg) (p : pst) (fuel : nat) (uname name : str) (r : optref) (o : opt) (v : str) (x : value),
  conf e fuel w L (cs ++ tu :: item ++ tn :: k1 ++ teq :: k2 ++ tv :: ts) ->
  Forall iscm cs -> isstr tu uname -> uitem item ->
  isstr tn name -> Forall iscm k1 -> ispunct teq 61 -> Forall iscm k2 -> isstr tv v ->
  s_state p = 0 -> nodep c p -> cflag c CFGF_IGNORE_UNKNOWN = true -> fst (cfg_getopt c uname) = None ->
  fst (cfg_getopt c name) = Some r -> get_opt c r = Some o -> lopt o ->
  oflag o CFGF_LIST = false -> conv_value strtod_o (o_kind o) v = Some x ->
  done strtod_o e level r None fuel w c p o [x] ts.
Proof. exact unknown_any_then_scalar. Qed.
Print Assumptions C15c_unknown_any_then_scalar.

(* 6. free-form section (CFGF_KEYSTRVAL, unknown names allowed): the comment annotates the key the assignment creates.
      kv_add c name appends the fresh string option kv_opt name to c; kv_ref c refers to it *)
Theorem C15c_item_kv :
  forall (strtod_o : str -> strtod_res) (e : ctx) (level : nat) (cs : list ltok) (tn : ltok) (k1 : list ltok) (teq : ltok)
         (k2 : list ltok) (tv : ltok) (ts : list ltok) (L : lexst) (w : pw) (c : cfg) (p : pst) (fuel : nat) (name v : str),
  conf e fuel w L (cs ++ tn :: k1 ++ teq :: k2 ++ tv :: ts) ->
  Forall iscm cs -> isstr tn name -> Forall iscm k1 -> ispunct teq 61 -> Forall iscm k2 -> isstr tv v ->
  s_state p = 0 -> nodep c p -> fst (cfg_getopt c name) = None ->
  cflag c CFGF_IGNORE_UNKNOWN = false -> cflag c CFGF_KEYSTRVAL = true -> name <> [] ->
  exists f w' c' L' p' o', parse_internal strtod_o fuel w c level p = parse_internal strtod_o f w' c' level p' /\
    conf e f w' L' ts /\ f <= fuel /\
    ceq c' (put_opt (kv_add c name) (kv_ref c) o') /\ get_opt c' (kv_ref c) = Some o' /\
    assigned (pend (cflag c CFGF_COMMENTS) cs (s_comment p)) (kv_opt name) o' [VStr (Some v)] /\
    pz0 p p' /\ s_opt p' = Some (kv_ref c).
Proof. exact item_kv. Qed.
Print Assumptions C15c_item_kv.

(* FINDING.  `name = {}` (empty list): the values are released, the option keeps the annotation it had, and the comment
   in front is NOT used: it stays pending (s_comment p') for whatever value is stored next *)
Theorem C15c_empty_list_keeps_pending :
  forall (strtod_o : str -> strtod_res) (e : ctx) (level : nat) (cs : list ltok) (tn : ltok) (k1 : list ltok) (teq : ltok)
         (k2 : list ltok) (tlb : ltok) (k3 : list ltok) (trb : ltok) (ts : list ltok) (L : lexst) (w : pw) (c : cfg) (p : pst)
         (fuel : nat) (name : str) (r : optref) (o : opt),
  conf e fuel w L (cs ++ tn :: k1 ++ teq :: k2 ++ tlb :: k3 ++ trb :: ts) ->
  Forall iscm cs -> isstr tn name -> Forall iscm k1 -> ispunct teq 61 -> Forall iscm k2 -> ispunct tlb 123 ->
  Forall iscm k3 -> ispunct trb 125 ->
  s_state p = 0 -> nodep c p -> fst (cfg_getopt c name) = Some r -> get_opt c r = Some o -> lopt o ->
  oflag o CFGF_LIST = true ->
  exists f w' c' L' p' o', parse_internal strtod_o fuel w c level p = parse_internal strtod_o f w' c' level p' /\
    conf e f w' L' ts /\ f <= fuel /\
    ceq c' (put_opt c r o') /\ get_opt c' r = Some o' /\
    o_vals o' = [] /\ o_comment o' = o_comment o /\ shape o' = shape o /\
    s_state p' = 0 /\ s_opt p' = Some r /\ s_comment p' = pend (cflag c CFGF_COMMENTS) cs (s_comment p).
Proof. exact item_empty_list. Qed.
Print Assumptions C15c_empty_list_keeps_pending.

(* after an item: ready for the next item, or for the end of the input (level 0) *)
Theorem C15c_done_next :
  forall (strtod_o : str -> strtod_res) (e : ctx) (level : nat) (r : optref) (pc : option str) (fuel : nat) (w : pw) (c : cfg)
         (p : pst) (o : opt) (vals : list value) (ts : list ltok),
  done strtod_o e level r pc fuel w c p o vals ts -> oflag o CFGF_DEPRECATED = false ->
  exists f w' c' L' p' o', parse_internal strtod_o fuel w c level p = parse_internal strtod_o f w' c' level p' /\
    conf e f w' L' ts /\ f <= fuel /\
    ceq c' (put_opt c r o') /\ get_opt c' r = Some o' /\ assigned pc o o' vals /\ pz0 p p' /\ nodep c' p'.
Proof. exact done_next. Qed.
Print Assumptions C15c_done_next.

Theorem C15c_done_eof :
  forall (strtod_o : str -> strtod_res) (e : ctx) (level : nat) (r : optref) (pc : option str) (fuel : nat) (w : pw) (c : cfg)
         (p : pst) (o : opt) (vals : list value),
  done strtod_o e level r pc fuel w c p o vals [] -> oflag o CFGF_DEPRECATED = false -> (level = 0 \/ s_forced p = true) ->
  exists w' c' o', parse_internal strtod_o fuel w c level p = (w', c', PEOF) /\ w_oof w' = false /\
    ceq c' (put_opt c r o') /\ get_opt c' r = Some o' /\ assigned pc o o' vals.
Proof. exact done_eof. Qed.
Print Assumptions C15c_done_eof.

(* 7. PRINT.  An option with annotation cm (and the CFGF_COMMENTS bit cfg_opt_setcomment sets) prints as the line
      indent "/* " cm " */" LF  followed by exactly what it prints without the annotation *)
Theorem C15c_print_opt_annot :
  forall (fmt_f : N -> str) (o : opt) (pff : option (list str)) (indent : nat) (cm : str),
  o_comment o = Some cm -> oflag o CFGF_COMMENTS = true ->
  print_opt fmt_f o pff indent =
    (indent_str indent ++ M "/* " ++ cstr cm ++ M " */" ++ [nl]) ++ print_opt fmt_f (set_comment o None) pff indent.
Proof. exact print_opt_annot. Qed.
Print Assumptions C15c_print_opt_annot.

Theorem C15c_cfg_opt_print_annot :
  forall (fmt_f : N -> str) (o : opt) (cm : str),
  o_comment o = Some cm -> oflag o CFGF_COMMENTS = true ->
  cfg_opt_print fmt_f o = M "/* " ++ cstr cm ++ M " */" ++ [nl] ++ cfg_opt_print fmt_f (set_comment o None).
Proof. exact cfg_opt_print_annot. Qed.
Print Assumptions C15c_cfg_opt_print_annot.

(* cfg_print_indent of a context (no print filter) with options pre ++ o :: post *)
Theorem C15c_cfg_print_annot :
  forall (fmt_f : N -> str) n t f (pre : list opt) (o : opt) (post : list opt) fi l e (indent : nat) (cm : str),
  o_comment o = Some cm -> oflag o CFGF_COMMENTS = true ->
  cfg_print_indent fmt_f (Cfg n t f (pre ++ o :: post) fi l e None) indent =
    cfg_print_indent fmt_f (Cfg n t f pre fi l e None) indent ++
    annot_line indent cm ++ print_opt fmt_f (set_comment o None) None indent ++
    cfg_print_indent fmt_f (Cfg n t f post fi l e None) indent.
Proof. exact print_cfg_annot. Qed.
Print Assumptions C15c_cfg_print_annot.

(* what the parser leaves after an annotated assignment is what print needs *)
Theorem C15c_assigned_prints :
  forall (fmt_f : N -> str) (cm : str) (o o' : opt) (vals : list value) (pff : option (list str)) (indent : nat),
  assigned (Some cm) o o' vals ->
  print_opt fmt_f o' pff indent = annot_line indent cm ++ print_opt fmt_f (set_comment o' None) pff indent.
Proof. exact assigned_prints. Qed.
Print Assumptions C15c_assigned_prints.

(* 8. RE-PARSE at token level: the tokens  comment(cm)  name  =  v  — which is what the scanner delivers for the two
      printed lines  "/* cm */"  and  "name=v"  when cm has no leading / trailing white space and no star-slash
      (ASSUMED here as the hypothesis on the token list; computed for concrete texts in the Examples) — parsed from
      the top into a context with annotation support give the annotation cm again *)
Theorem C15c_reparse_scalar :
  forall (strtod_o : str -> strtod_res) (e : ctx) (tc tn teq tv : ltok) (L : lexst) (w : pw) (c : cfg) (fuel : nat)
         (name : str) (r : optref) (o : opt) (v : str) (x : value),
  conf e fuel w L [tc; tn; teq; tv] -> iscm tc -> isstr tn name -> ispunct teq 61 -> isstr tv v ->
  cflag c CFGF_COMMENTS = true ->
  fst (cfg_getopt c name) = Some r -> get_opt c r = Some o -> lopt o -> oflag o CFGF_LIST = false ->
  oflag o CFGF_DEPRECATED = false -> conv_value strtod_o (o_kind o) v = Some x ->
  exists w' c' o', parse_internal strtod_o fuel w c 0 (pst0 0 None) = (w', c', PEOF) /\ w_oof w' = false /\
    ceq c' (put_opt c r o') /\ get_opt c' r = Some o' /\ assigned (Some (sval (lt_val tc))) o o' [x].
Proof. exact reparse_scalar. Qed.
Print Assumptions C15c_reparse_scalar.

(* the same on cfg_parse_buf: a text whose tokens (Lexer.lex_all) are  comment name = v  *)
Theorem C15c_reparse_scalar_buf :
  forall (strtod_o : str -> strtod_res) (w : pw) (c : cfg) (b : str) (tc tn teq tv : ltok) (lf : nat) (p0 : pos) (s' : lexst)
         (p' : pos) (d : list diag) (fuel : nat) (name : str) (r : optref) (o : opt) (v : str) (x : value),
  wready w ->
  lex_all (w_env w) lf (scan_begin lex_init (cstr b)) p0 [] [] = ([tc; tn; teq; tv], TEof, s', p', d) ->
  iscm tc -> isstr tn name -> ispunct teq 61 -> isstr tv v ->
  length (cstr b) + measure (w_lex w) + 7 < fuel ->
  cflag c CFGF_COMMENTS = true ->
  fst (cfg_getopt c name) = Some r -> get_opt c r = Some o -> lopt o -> oflag o CFGF_LIST = false ->
  oflag o CFGF_DEPRECATED = false -> conv_value strtod_o (o_kind o) v = Some x ->
  let '(w', c', rc) := parse_buf strtod_o fuel w c (Some b) in
  rc = CFG_SUCCESS /\ w_oof w' = false /\
  exists o', ceq c' (put_opt c r o') /\ get_opt c' r = Some o' /\ assigned (Some (sval (lt_val tc))) o o' [x].
Proof. exact reparse_scalar_buf. Qed.
Print Assumptions C15c_reparse_scalar_buf.

(* 8, the scanner side closed.  A block comment's token VALUE (LexComments gave it existentially): the scratch buffer
   receives the body except a final run of blanks-then-stars in front of the closing star-slash; qend() trims it *)
Theorem C15c_block_comment_value :
  forall (e : envt) (body rest : str) (st : lexst) (p : pos) (id : nat) (others : list (nat * str)),
  LexComments.nss body = true -> no_nul body -> l_sc st = INITIAL -> l_inc st = [] -> q_inv (l_q st) ->
  l_bufs st = (id, (SqProofs.slash :: SqProofs.star :: body ++ [SqProofs.star; SqProofs.slash]) ++ rest) :: others ->
  exists (kept bl sts : str) q', body = kept ++ bl ++ sts /\
    Forall (fun c => LexComments.isbl c = true) bl /\ Forall (fun c => LexComments.isstar c = true) sts /\
    LexComments.lexL e st p =
    LexComments.mkres TComment (Some (trim_ws kept)) (set_q (set_sc (set_bufs st ((id, rest) :: others)) INITIAL) q')
          (add_lines p (count_nl body)) [] 0.
Proof. exact AnnotLexProofs.block_comment_token_val. Qed.
Print Assumptions C15c_block_comment_value.

(* the text print writes for an annotation cm — slash-star SP cm SP star-slash (annot_text cm) — in front of any text b:
   ONE comment token with value exactly cm, then the tokens of b.  clean cm: not empty, no white space at either end;
   nss: no star-slash inside *)
Theorem C15c_annot_comment_tokens :
  forall (e : envt) (cm b : str) (p : pos) (F : nat) (tb : list ltok) (x : tok) (sb : lexst) (pb : pos) (db : list diag),
  AnnotLexProofs.clean cm -> no_nul cm -> LexComments.nss (AnnotLexProofs.annot_body cm) = true ->
  lex_all e (S F) (scan_begin lex_init b) (add_lines p (count_nl (AnnotLexProofs.annot_body cm))) [] [] = (tb, x, sb, pb, db) ->
  exists s',
    lex_all e (S (S F)) (scan_begin lex_init (AnnotLexProofs.annot_text cm ++ b)) p [] []
    = ({| lt_tok := TComment; lt_val := Some cm; lt_line := (p_line p + count_nl (AnnotLexProofs.annot_body cm))%N |} :: tb,
       x, s', pb, db).
Proof. exact AnnotLexProofs.annot_comment_tokens. Qed.
Print Assumptions C15c_annot_comment_tokens.

(* PRINT THEN PARSE.  cfg_opt_print of an option oa annotated cm, parsed by cfg_parse_buf into a context with annotation
   support in which the name resolves to the scalar option o: o gets the value and the annotation cm.  The one
   hypothesis left about the scanner concerns the UNANNOTATED line (LF, then what oa prints without its annotation):
   that it scans to  name = v  — the C05 read-back facts (C05_word_token, C05_int_token_reads_back, ...) *)
Theorem C15c_print_parse_annot :
  forall (strtod_o : str -> strtod_res) (fmt_f : N -> str) (w : pw) (c : cfg) (oa : opt) (cm : str) (tn teq tv : ltok) (F : nat)
         (p0 : pos) (s' : lexst) (p' : pos) (d : list diag) (fuel : nat) (name : str) (r : optref) (o : opt) (v : str) (x : value),
  wready w ->
  o_comment oa = Some cm -> oflag oa CFGF_COMMENTS = true ->
  AnnotLexProofs.clean cm -> no_nul cm -> LexComments.nss (AnnotLexProofs.annot_body cm) = true ->
  no_nul (cfg_opt_print fmt_f (set_comment oa None)) ->
  lex_all (w_env w) (S F) (scan_begin lex_init (Print.nl :: cfg_opt_print fmt_f (set_comment oa None)))
          (add_lines p0 (count_nl (AnnotLexProofs.annot_body cm))) [] [] = ([tn; teq; tv], TEof, s', p', d) ->
  isstr tn name -> ispunct teq 61 -> isstr tv v ->
  length (cfg_opt_print fmt_f oa) + measure (w_lex w) + 7 < fuel ->
  cflag c CFGF_COMMENTS = true ->
  fst (cfg_getopt c name) = Some r -> get_opt c r = Some o -> lopt o -> oflag o CFGF_LIST = false ->
  oflag o CFGF_DEPRECATED = false -> conv_value strtod_o (o_kind o) v = Some x ->
  let '(w', c', rc) := parse_buf strtod_o fuel w c (Some (cfg_opt_print fmt_f oa)) in
  rc = CFG_SUCCESS /\ w_oof w' = false /\
  exists o', ceq c' (put_opt c r o') /\ get_opt c' r = Some o' /\ assigned (Some cm) o o' [x].
Proof. exact print_parse_annot. Qed.
Print Assumptions C15c_print_parse_annot.

(* ---------------------------------------------------------------------------------------------
   Examples (vm_compute on cfg_parse_buf / cfg_print, schema of Properties_C01.Ex):
   the hypotheses are satisfiable and the byte-level behaviour is the one stated above *)
From LC Require Import Properties_C01.
Module Ex15.
Import Properties_C01.Ex.
Definition cC := snd (cfg_init sd 1000 w0 decls 2048).        (* CFGF_COMMENTS *)
Definition cCI := snd (cfg_init sd 1000 w0 decls 2304).       (* CFGF_COMMENTS | CFGF_IGNORE_UNKNOWN *)
Definition parse_bs (c : cfg) (t : str) : cfg * Z :=
  let '(_, c', rc) := parse_buf sd 1000 w0 c (Some t) in (c', rc).
Definition parse (c : cfg) (t : String.string) : cfg * Z := parse_bs c (B t).
(* annotation and values of the i-th option:  0 x (int)  1 b (bool)  2 name (string)  3 l (int list)  4 e (string list) *)
Definition look (c : cfg) (i : nat) : option (option str * list value) :=
  option_map (fun o => (o_comment o, o_vals o)) (nth_error (c_opts c) i).
Definition fmt0 (n : N) : str := [].

(* attached, trimmed; scalar *)
Example C15c_ex_scalar :
  let '(c', rc) := parse cC "/*   about x   */ x = 5" in
  rc = CFG_SUCCESS /\ look c' 0 = Some (Some (B "about x"), [VInt 5]).
Proof. vm_compute. split; reflexivity. Qed.

(* list with braces (a comment inside the braces does not replace it), "+=" without braces, all three comment forms *)
Example C15c_ex_lists :
  let '(c', rc) := parse cC "# the list
 l = {1, /* inner */ 2}  // more
 e += c" in
  rc = CFG_SUCCESS /\ look c' 3 = Some (Some (B "the list"), [VInt 1; VInt 2]) /\
  look c' 4 = Some (Some (B "more"), [VStr (Some (B "c"))]).
Proof. vm_compute. repeat split; reflexivity. Qed.

(* the nearest of several comments; comments inside the item are skipped *)
Example C15c_ex_nearest :
  let '(c', rc) := parse cC "/* far */ # nearer
 /* near */ x /* in1 */ = /* in2 */ 1" in
  rc = CFG_SUCCESS /\ look c' 0 = Some (Some (B "near"), [VInt 1]).
Proof. vm_compute. split; reflexivity. Qed.

(* the key created in a free-form section *)
Example C15c_ex_kv :
  let '(c', rc) := parse cC "kv { /* key note */ colour = red }" in
  rc = CFG_SUCCESS /\
  match nth_error (c_opts c') 9 with
  | Some o => match o_vals o with
              | [VSec (Some s)] => map (fun k => (o_name k, o_comment k, o_vals k)) (c_opts s)
              | _ => [] end
  | None => [] end = [(B "colour", Some (B "key note"), [VStr (Some (B "red"))])].
Proof. vm_compute. split; reflexivity. Qed.

(* kept by a second, bare assignment: in the same text, and in a second text parsed into the same context *)
Example C15c_ex_kept :
  (let '(c', rc) := parse cC "/* a */ x = 5  x = 6  /* L */ l = {1}  l += 2  l = {3}" in
   rc = CFG_SUCCESS /\ look c' 0 = Some (Some (B "a"), [VInt 6]) /\ look c' 3 = Some (Some (B "L"), [VInt 3])) /\
  (let '(c1, _) := parse cC "/* a */ x = 5" in let '(c2, rc) := parse c1 "x = 6" in
   rc = CFG_SUCCESS /\ look c2 0 = Some (Some (B "a"), [VInt 6])).
Proof. vm_compute. repeat split; reflexivity. Qed.

(* an unknown option under CFGF_IGNORE_UNKNOWN | CFGF_COMMENTS drops the comment, whatever its form *)
Example C15c_ex_unknown :
  (let '(c', rc) := parse cCI "/* lost */ nosuch = 1 x = 5" in rc = CFG_SUCCESS /\ look c' 0 = Some (None, [VInt 5])) /\
  (let '(c', rc) := parse cCI "/* lost */ nosuch { a = 1 } x = 5" in rc = CFG_SUCCESS /\ look c' 0 = Some (None, [VInt 5])) /\
  (let '(c', rc) := parse cCI "/* lost */ nosuch(1, 2) x = 5" in rc = CFG_SUCCESS /\ look c' 0 = Some (None, [VInt 5])) /\
  (let '(c', rc) := parse cCI "/* lost */ nosuch += {1, 2} x = 5" in rc = CFG_SUCCESS /\ look c' 0 = Some (None, [VInt 5])).
Proof. vm_compute. repeat split; reflexivity. Qed.

(* annotation support off: nothing attached *)
Example C15c_ex_off :
  let '(c', rc) := parse c0 "/* c */ x = 5" in rc = CFG_SUCCESS /\ look c' 0 = Some (None, [VInt 5]).
Proof. vm_compute. split; reflexivity. Qed.

(* print: the option alone, and the head of the whole context *)
Example C15c_ex_print :
  let '(c', _) := parse cC "/*   about x   */ x = 5 /* the l */ l = {4}" in
  option_map (cfg_opt_print fmt0) (nth_error (c_opts c') 0) = Some (B "/* about x */
x=5
") /\
  firstn 64 (cfg_print_indent fmt0 c' 0) = B "/* about x */
x=5
b=true
name=""dflt""
/* the l */
l = {4}
e = {}
".
Proof. vm_compute. split; reflexivity. Qed.

(* the hypothesis of C15c_reparse_scalar: the printed lines scan to  comment(cm) name = v *)
Example C15c_ex_printed_tokens :
  map (fun t => (lt_tok t, lt_val t)) (toks_of (B "/* about x */
x=5
")) = [(TComment, Some (B "about x")); (TStr, Some (B "x")); (TPunct 61, Some (B "=")); (TStr, Some (B "5"))].
Proof. vm_compute. reflexivity. Qed.

(* round trip: parse, print, parse the printed text into a fresh context: same annotations and values *)
Example C15c_ex_round_trip :
  let '(c1, _) := parse cC "/*   about x   */ x = 5 /* the l */ l = {4} # for e
 e = {p, q}" in
  let '(c2, rc) := parse_bs cC (cfg_print_indent fmt0 c1 0) in
  rc = CFG_SUCCESS /\ map (look c2) [0; 1; 2; 3; 4] = map (look c1) [0; 1; 2; 3; 4] /\
  look c2 0 = Some (Some (B "about x"), [VInt 5]) /\ look c2 4 = Some (Some (B "for e"), [VStr (Some (B "p")); VStr (Some (B "q"))]).
Proof. vm_compute. repeat split; reflexivity. Qed.
(* the hypotheses of the token-level statements are satisfiable: C15c_reparse_scalar on the scanner reading the printed lines *)
Example C15c_ex_hypotheses_hold :
  let L := scan_begin lex_init (cstr (B "/* about x */
x=5
")) in
  let w := upd_lex w0 L in
  exists tc tn teq tv o,
    conf ([], []) 100 w L [tc; tn; teq; tv] /\ iscm tc /\ isstr tn (B "x") /\ ispunct teq 61 /\ isstr tv (B "5") /\
    sval (lt_val tc) = B "about x" /\ cflag cC CFGF_COMMENTS = true /\
    fst (cfg_getopt cC (B "x")) = Some ([], 0) /\ get_opt cC ([], 0) = Some o /\ lopt o /\ oflag o CFGF_LIST = false /\
    oflag o CFGF_DEPRECATED = false /\ conv_value sd (o_kind o) (B "5") = Some (VInt 5).
Proof.
  cbv zeta.
  pose (ts := toks_of (B "/* about x */
x=5
")).
  assert (Y : yields [] (scan_begin lex_init (cstr (B "/* about x */
x=5
"))) ts).
  { eapply (C01_tokens_from_scanner [] 100 _ {| p_file := None; p_line := 1 |}); [reflexivity|]. vm_compute. reflexivity. }
  vm_compute in ts.
  match eval unfold ts in ts with [?a; ?b; ?c; ?d] => exists a, b, c, d end.
  exists (match get_opt cC ([], 0) with Some o => o | None => kv_opt [] end). split.
  { split; [|split; [exact Y|vm_compute; repeat constructor]].
    unfold wst, tbs. cbn. repeat split; try reflexivity. }
  repeat split; vm_compute; reflexivity.
Qed.

(* ... and of C15c_reparse_scalar_buf, on the text print wrote for the annotated x *)
Example C15c_ex_buf_hypotheses_hold :
  let b := B "/* about x */
x=5
" in
  wready w0 /\
  (exists tc tn teq tv s' p' d,
     lex_all (w_env w0) 100 (scan_begin lex_init (cstr b)) {| p_file := None; p_line := 1 |} [] [] = ([tc; tn; teq; tv], TEof, s', p', d) /\
     iscm tc /\ isstr tn (B "x") /\ ispunct teq 61 /\ isstr tv (B "5") /\ sval (lt_val tc) = B "about x") /\
  (length (cstr b) + measure (w_lex w0) + 7 <? 1000) = true.
Proof.
  cbv zeta. split; [split; [reflexivity|split; [reflexivity|apply q_inv_empty]]|]. split; [|vm_compute; reflexivity].
  vm_compute. do 7 eexists. split; [reflexivity|]. repeat split; reflexivity.
Qed.

(* the hypotheses of C15c_print_parse_annot hold for the x option annotated by parsing, printed, and parsed into cC *)
Example C15c_ex_print_parse_hypotheses_hold :
  let '(c1, _) := parse cC "/*   about x   */ x = 5" in
  match nth_error (c_opts c1) 0 with
  | None => False
  | Some oa =>
      let cm := B "about x" in
      wready w0 /\ o_comment oa = Some cm /\ oflag oa CFGF_COMMENTS = true /\
      AnnotLexProofs.clean cm /\ no_nul cm /\ LexComments.nss (AnnotLexProofs.annot_body cm) = true /\
      no_nul (cfg_opt_print fmt0 (set_comment oa None)) /\
      (exists tn teq tv s' p' d,
         lex_all (w_env w0) 100 (scan_begin lex_init (Print.nl :: cfg_opt_print fmt0 (set_comment oa None)))
                 (add_lines {| p_file := None; p_line := 1 |} (count_nl (AnnotLexProofs.annot_body cm))) [] []
           = ([tn; teq; tv], TEof, s', p', d) /\ isstr tn (B "x") /\ ispunct teq 61 /\ isstr tv (B "5")) /\
      (length (cfg_opt_print fmt0 oa) + measure (w_lex w0) + 7 <? 1000) = true
  end.
Proof.
  vm_compute. split; [split; [reflexivity|split; [reflexivity|apply q_inv_empty]]|].
  split; [reflexivity|]. split; [reflexivity|]. split; [split; reflexivity|].
  split; [repeat constructor; discriminate|]. split; [reflexivity|]. split; [repeat constructor; discriminate|].
  split; [|reflexivity]. do 6 eexists. split; [reflexivity|]. repeat split; reflexivity.
Qed.

(* FINDINGS, computed.  Schema: u string (unset), x int, e string list, s section, f function *)
Definition decls2 : list opt :=
  [ mk "u" KStr 0%N []; mkd "x" KInt 0%N 7; mk "e" KStr 2%N []; mk "s" KSec 0%N [mkd "a" KInt 0%N 1];
    Opt (B "f") KFunc 0 [] [] defv0 None
        {| cb_parse := None; cb_valid := None; cb_valid2 := None; cb_print := None; cb_free := false; cb_func := Some (FUser 1) |} ].
Definition c2C := snd (cfg_init sd 1000 w0 decls2 2048).

(* a comment in front of a section, of an empty list or of a function call is not consumed by that item:
   it becomes the annotation of the next value assignment *)
Example C15c_comment_migrates_section :
  let '(c', rc) := parse c2C "/* about s */ s { a = 3 }  x = 5" in rc = CFG_SUCCESS /\ look c' 1 = Some (Some (B "about s"), [VInt 5]).
Proof. vm_compute. split; reflexivity. Qed.
Example C15c_comment_migrates_empty_list :
  let '(c', rc) := parse c2C "/* about e */ e = {}  x = 5" in
  rc = CFG_SUCCESS /\ look c' 2 = Some (None, []) /\ look c' 1 = Some (Some (B "about e"), [VInt 5]).
Proof. vm_compute. repeat split; reflexivity. Qed.
Example C15c_comment_migrates_function :
  let '(c', rc) := parse c2C "/* about f */ f(1)  x = 5" in rc = CFG_SUCCESS /\ look c' 1 = Some (Some (B "about f"), [VInt 5]).
Proof. vm_compute. split; reflexivity. Qed.

(* print writes the unset option u as a comment line; the re-parse (annotation support on) hands that line to x:
   "print then parse gives the same annotations" is REFUTED in general *)
Example C15c_reparse_spurious_annotation :
  cfg_print_indent fmt0 c2C 0 = B "# u=""""
x=7
e = {}
s {
  a=1
}
" /\
  look c2C 1 = Some (None, [VInt 7]) /\
  let '(c', rc) := parse_bs c2C (cfg_print_indent fmt0 c2C 0) in
  rc = CFG_SUCCESS /\ look c' 1 = Some (Some (B "u="""""), [VInt 7]).
Proof. vm_compute. repeat split; reflexivity. Qed.
(* the same two findings as refutations of the statements one might expect *)
(* "an option's annotation comes from a comment placed immediately before ITS assignment": refuted *)
Theorem C15c_annotation_from_own_comment_refuted :
  exists (c : cfg) (t : str), let '(c', rc) := parse_bs c t in
    rc = CFG_SUCCESS /\ t = B "/* about s */ s { a = 3 }  x = 5" /\ look c 1 = Some (None, [VInt 7]) /\
    look c' 1 = Some (Some (B "about s"), [VInt 5]).
Proof. exists c2C, (B "/* about s */ s { a = 3 }  x = 5"). vm_compute. repeat split; reflexivity. Qed.

(* "parsing what cfg_print wrote (annotation support on) gives back the same annotations": refuted *)
Theorem C15c_print_parse_same_annotations_refuted :
  exists (c : cfg), let '(c', rc) := parse_bs c (cfg_print_indent fmt0 c 0) in
    rc = CFG_SUCCESS /\ map o_comment (c_opts c') <> map o_comment (c_opts c).
Proof. exists c2C. vm_compute. split; [reflexivity|discriminate]. Qed.
End Ex15.
