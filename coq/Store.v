(* Store.v — the configuration tree (cfg_t / cfg_opt_t / cfg_value_t), flags,
   single-level lookup, the path resolver cfg_getopt_secidx with parse_title,
   cfg_addval, cfg_free_value, cfg_opt_getval.  No proofs here. *)
From Coq Require String.
Import String.StringSyntax.
From Coq Require Import List Arith NArith ZArith Bool.
From Coq.Strings Require Import Byte.
From LC Require Import Bytes Consts Conv Lexer.
Import ListNotations.
Local Open Scope string_scope.
Local Open Scope list_scope.

(* ---------- flags ---------- *)
Definition has (fl mask : N) : bool := negb (N.land fl mask =? 0)%N.
Definition setf (fl mask : N) : N := N.lor fl mask.
Definition clrf (fl mask : N) : N := N.ldiff fl mask.

(* ---------- the tree ---------- *)
Inductive kind := KNone | KInt | KFloat | KStr | KBool | KSec | KFunc | KPtr.
Definition kind_eqb (a b : kind) : bool :=
  match a, b with
  | KNone, KNone | KInt, KInt | KFloat, KFloat | KStr, KStr | KBool, KBool | KSec, KSec | KFunc, KFunc | KPtr, KPtr => true
  | _, _ => false
  end.

Inductive funcid := FInclude | FUser (k : N).

Record defv := { d_num : Z; d_fp : N; d_bool : bool; d_str : option str; d_parsed : option str }.
Definition defv0 : defv := {| d_num := 0; d_fp := 0; d_bool := false; d_str := None; d_parsed := None |}.

Record cbset := { cb_parse : option N; cb_valid : option N; cb_valid2 : option N; cb_print : option N;
                  cb_free : bool; cb_func : option funcid }.
Definition cbset0 : cbset :=
  {| cb_parse := None; cb_valid := None; cb_valid2 := None; cb_print := None; cb_free := false; cb_func := None |}.

Inductive value :=
| VInt (z : Z)
| VFloat (bits : N)
| VBool (b : bool)
| VStr (s : option str)
| VSec (c : option cfg)
| VPtr (id : N)                       (* 0 = NULL *)
with opt :=
| Opt (name : str) (k : kind) (flags : N) (vals : list value) (sub : list opt)
      (def : defv) (comment : option str) (cbs : cbset)
with cfg :=
| Cfg (name : str) (title : option str) (flags : N) (opts : list opt)
      (file : option str) (line : N) (err : bool) (pff : option (list str)).

Definition o_name o := match o with Opt n _ _ _ _ _ _ _ => n end.
Definition o_kind o := match o with Opt _ k _ _ _ _ _ _ => k end.
Definition o_flags o := match o with Opt _ _ f _ _ _ _ _ => f end.
Definition o_vals o := match o with Opt _ _ _ v _ _ _ _ => v end.
Definition o_sub o := match o with Opt _ _ _ _ s _ _ _ => s end.
Definition o_def o := match o with Opt _ _ _ _ _ d _ _ => d end.
Definition o_comment o := match o with Opt _ _ _ _ _ _ c _ => c end.
Definition o_cbs o := match o with Opt _ _ _ _ _ _ _ c => c end.

Definition c_name c := match c with Cfg n _ _ _ _ _ _ _ => n end.
Definition c_title c := match c with Cfg _ t _ _ _ _ _ _ => t end.
Definition c_flags c := match c with Cfg _ _ f _ _ _ _ _ => f end.
Definition c_opts c := match c with Cfg _ _ _ o _ _ _ _ => o end.
Definition c_file c := match c with Cfg _ _ _ _ f _ _ _ => f end.
Definition c_line c := match c with Cfg _ _ _ _ _ l _ _ => l end.
Definition c_err c := match c with Cfg _ _ _ _ _ _ e _ => e end.
Definition c_pff c := match c with Cfg _ _ _ _ _ _ _ p => p end.

Definition set_flags o f := match o with Opt n k _ v s d c cb => Opt n k f v s d c cb end.
Definition set_vals o v := match o with Opt n k f _ s d c cb => Opt n k f v s d c cb end.
Definition set_comment o c := match o with Opt n k f v s d _ cb => Opt n k f v s d c cb end.
Definition set_cbs o cb := match o with Opt n k f v s d c _ => Opt n k f v s d c cb end.

Definition set_opts c o := match c with Cfg n t f _ fi l e p => Cfg n t f o fi l e p end.
Definition set_file c fi := match c with Cfg n t f o _ l e p => Cfg n t f o fi l e p end.
Definition set_line c l := match c with Cfg n t f o fi _ e p => Cfg n t f o fi l e p end.
Definition set_err c e := match c with Cfg n t f o fi l _ p => Cfg n t f o fi l e p end.
Definition set_pff c p := match c with Cfg n t f o fi l e _ => Cfg n t f o fi l e p end.

Definition c_pos (c : cfg) : pos := {| p_file := c_file c; p_line := c_line c |}.
Definition set_pos (c : cfg) (p : pos) : cfg := set_line (set_file c (p_file p)) (p_line p).

Definition oflag (o : opt) (m : N) : bool := has (o_flags o) m.
Definition cflag (c : cfg) (m : N) : bool := has (c_flags c) m.
Definition o_setf o m := set_flags o (setf (o_flags o) m).
Definition o_clrf o m := set_flags o (clrf (o_flags o) m).

(* the value calloc() gives *)
Definition zero_value (k : kind) : value :=
  match k with
  | KInt => VInt 0 | KFloat => VFloat 0 | KBool => VBool false | KStr => VStr None
  | KSec => VSec None | _ => VPtr 0
  end.

(* ---------- diagnostics ---------- *)
(* cfg_error(cfg, fmt, ...): recorded iff the context has the error function installed *)
Definition cfg_diag (c : cfg) (fmt : String.string) : list diag :=
  if c_err c then [mkdiag (c_pos c) fmt] else [].

(* ---------- single-level lookup ---------- *)
Fixpoint find_idx {A} (f : A -> bool) (l : list A) (i : nat) : option nat :=
  match l with [] => None | x :: r => if f x then Some i else find_idx f r (S i) end.

(* cfg_getopt_leaf *)
Definition getopt_leaf (c : cfg) (name : str) : option nat :=
  find_idx (fun o => name_eqb (cflag c CFGF_NOCASE) (o_name o) name) (c_opts c) 0.

(* ---------- references into the tree ---------- *)
(* an option reached from a context by (option index, value index) section steps, then an option index *)
Definition optref := (list (nat * nat) * nat)%type.

Definition nth_sec (o : opt) (v : nat) : option cfg :=
  match nth_error (o_vals o) v with Some (VSec (Some s)) => Some s | _ => None end.

Fixpoint get_sec (c : cfg) (steps : list (nat * nat)) : option cfg :=
  match steps with
  | [] => Some c
  | (i, v) :: r =>
      match nth_error (c_opts c) i with
      | Some o => match nth_sec o v with Some s => get_sec s r | None => None end
      | None => None
      end
  end.

Definition get_opt (c : cfg) (r : optref) : option opt :=
  match get_sec c (fst r) with Some s => nth_error (c_opts s) (snd r) | None => None end.

Fixpoint upd_nth {A} (l : list A) (i : nat) (f : A -> A) : list A :=
  match l, i with
  | [], _ => []
  | x :: r, O => f x :: r
  | x :: r, S k => x :: upd_nth r k f
  end.

Fixpoint upd_sec (c : cfg) (steps : list (nat * nat)) (f : cfg -> cfg) : cfg :=
  match steps with
  | [] => f c
  | (i, v) :: r =>
      set_opts c (upd_nth (c_opts c) i (fun o =>
        set_vals o (upd_nth (o_vals o) v (fun x =>
          match x with VSec (Some s) => VSec (Some (upd_sec s r f)) | _ => x end))))
  end.

Definition upd_opt (c : cfg) (r : optref) (f : opt -> opt) : cfg :=
  upd_sec c (fst r) (fun s => set_opts s (upd_nth (c_opts s) (snd r) f)).

Definition put_opt (c : cfg) (r : optref) (o : opt) : cfg := upd_opt c r (fun _ => o).

(* ---------- release: the ids handed to the free callback, in cfg_free() order ---------- *)
Fixpoint frees_v (freecb : bool) (v : value) : list N :=
  match v with
  | VSec (Some c) => frees_c c
  | VPtr id => if freecb && negb (id =? 0)%N then [id] else []
  | _ => []
  end
with frees_o (o : opt) : list N :=
  match o with
  | Opt _ k _ vals _ _ _ cbs =>
      (fix go (l : list value) : list N :=
         match l with [] => [] | v :: r => frees_v (match k with KPtr => cb_free cbs | _ => false end) v ++ go r end) vals
  end
with frees_c (c : cfg) : list N :=
  match c with
  | Cfg _ _ _ opts _ _ _ _ =>
      (fix go (l : list opt) : list N := match l with [] => [] | o :: r => frees_o o ++ go r end) opts
  end.

(* cfg_free_value: returns the option and the released pointer ids *)
Definition free_value (o : opt) : opt * list N :=
  let o1 := if match o_comment o with Some _ => negb (oflag o CFGF_RESET) | None => false end
            then set_comment o None else o in
  (set_vals o1 [], frees_o o).

(* cfg_addval *)
Definition addval (o : opt) : opt :=
  o_setf (set_vals o (o_vals o ++ [zero_value (o_kind o)])) CFGF_MODIFIED.

(* cfg_opt_getval: Some (option', index of the slot) or None (EINVAL) *)
Definition opt_getval (o : opt) (index : N) : option (opt * nat * list N) :=
  if negb (index =? 0)%N && negb (oflag o CFGF_LIST) && negb (oflag o CFGF_MULTI) then None
  else
    let '(o1, fr) := if oflag o CFGF_RESET then let '(x, f) := free_value o in (o_clrf x CFGF_RESET, f) else (o, []) in
    let n := length (o_vals o1) in
    if (N.of_nat n <=? index)%N then Some (addval o1, n, fr) else Some (o1, N.to_nat index, fr).

(* cfg_opt_setcomment (comment non-NULL) *)
Definition opt_setcomment (o : opt) (c : str) : opt :=
  o_setf (o_setf (set_comment o (Some c)) CFGF_COMMENTS) CFGF_MODIFIED.

(* ---------- the path mini-language ---------- *)

Fixpoint strcspn (s : str) (rej : byte -> bool) : nat :=
  match s with [] => 0 | c :: r => if rej c then 0 else S (strcspn r rej) end.
Fixpoint strspn (s : str) (acc : byte -> bool) : nat :=
  match s with [] => 0 | c :: r => if acc c then S (strspn r acc) else 0 end.

Definition is_bar (c : byte) := Byte.eqb c x7c.
Definition is_bar_eq (c : byte) := Byte.eqb c x7c || Byte.eqb c x3d.
Definition is_quote_bs (c : byte) := Byte.eqb c x27 || Byte.eqb c x5c.

(* parse_title(name, &len): Some (title, len) or None *)
Fixpoint parse_quoted (fuel : nat) (s : str) (acc : str) (len : nat) : option (str * nat) :=
  match fuel with
  | O => None
  | S f =>
    let l := strcspn s is_quote_bs in
    let pre := firstn l s in
    match skipn l s with
    | [] => None                                        (* ran off the end: no closing quote *)
    | c :: r =>
        if Byte.eqb c x27 then Some (rev acc ++ pre, len + l + 1)
        else (* backslash *)
          match r with
          | d :: r' => if is_quote_bs d then parse_quoted f r' (d :: rev pre ++ acc) (len + l + 1 + 1)
                       else None
          | [] => None
          end
    end
  end.

Definition parse_title (name : str) : option (str * nat) :=
  match name with
  | c :: rest =>
      if Byte.eqb c x27 then parse_quoted (S (length rest)) rest [] 1
      else let l := strcspn name is_bar in if Nat.eqb l 0 then None else Some (firstn l name, l)
  | [] => None
  end.

(* cfg_opt_gettsecidx *)
Fixpoint gettsecidx_from (nocase : bool) (vals : list value) (title : str) (i : nat) : option nat :=
  match vals with
  | [] => None
  | VSec (Some s) :: r =>
      match c_title s with
      | None => None
      | Some t => if name_eqb (nocase || cflag s CFGF_NOCASE) title t then Some i else gettsecidx_from nocase r title (S i)
      end
  | _ :: _ => None
  end.
Definition gettsecidx (o : opt) (title : str) : option nat :=
  gettsecidx_from (oflag o CFGF_NOCASE) (o_vals o) title 0.

(* (unsigned int) of a long *)
Definition to_uint (z : Z) : N := Z.to_N (z mod 4294967296).

(* cfg_opt_getnsec(opt, index) with index an unsigned int *)
Definition opt_getnsec (o : opt) (index : N) : option cfg :=
  match o_kind o with
  | KSec => if (index <? N.of_nat (length (o_vals o)))%N then nth_sec o (N.to_nat index) else None
  | _ => None
  end.

Record resolved := { rs_opt : option optref; rs_index : Z; rs_diags : list diag }.

(* the loop of cfg_getopt_secidx; `steps` is the section path walked so far (reversed) *)
Fixpoint secidx_loop (fuel : nat) (root sec : cfg) (steps : list (nat * nat)) (name : str)
         (want_index : bool) (last : option optref) (index : Z) : resolved :=
  (* the `malformed:` exit: reported like an unknown option *)
  let mal := if cflag root CFGF_IGNORE_UNKNOWN then [] else cfg_diag root "no such option '%s'" in
  let finish (name : str) :=
    if want_index then {| rs_opt := last; rs_index := index; rs_diags := [] |}
    else match name with [] => {| rs_opt := None; rs_index := index; rs_diags := mal |} | _ =>
         match getopt_leaf sec name with
         | Some i => {| rs_opt := Some (rev steps, i); rs_index := index; rs_diags := [] |}
         | None => {| rs_opt := None; rs_index := index;
                      rs_diags := if negb (cflag root CFGF_IGNORE_UNKNOWN) &&
                                     negb (match steps with [] => cflag sec CFGF_KEYSTRVAL | _ => false end)
                                  then cfg_diag root "no such option '%s'" else [] |}
         end end in
  match fuel with
  | O => {| rs_opt := None; rs_index := index; rs_diags := [] |}
  | S fuel' =>
    match name with
    | [] => finish name
    | _ =>
      let len := strcspn name is_bar_eq in
      let after := skipn len name in
      if negb want_index && match after with [] => true | _ => false end then finish name
      else if Nat.eqb len 0 then {| rs_opt := None; rs_index := index; rs_diags := mal |}
      else
        let secname := firstn len name in
        (* the do { } while (0) block: (opt index if a section option, i, title, name', len') *)
        let '(oi, i, title, name1, len1) :=
          match getopt_leaf sec secname with
          | None => (None, (-1)%Z, None, name, len)
          | Some k =>
            match nth_error (c_opts sec) k with
            | None => (None, (-1)%Z, None, name, len)
            | Some o =>
              if negb (kind_eqb (o_kind o) KSec) then (None, (-1)%Z, None, name, len)
              else match after with
                   | c :: after' =>
                       if negb (Byte.eqb c x3d) then (Some k, 0%Z, None, name, len)
                       else if negb (oflag o CFGF_MULTI) then (Some k, (-1)%Z, None, name, len)
                       else
                         match parse_title after' with
                         | None => (Some k, (-1)%Z, None, after', len)   (* len is left as parse_title set it; unused: sec is NULL *)
                         | Some (t, l) =>
                             if oflag o CFGF_TITLE then
                               (Some k, match gettsecidx o t with Some j => Z.of_nat j | None => (-1)%Z end, Some t, after', l)
                             else
                               let r := strtol t 0 in
                               (Some k, match sl_rest r with
                                        | [] => if (sl_val r <=? 4294967295)%Z then sl_val r else (-1)%Z
                                        | _ => (-1)%Z end, Some t, after', l)
                         end
                   | [] => (Some k, 0%Z, None, name, len)
                   end
            end
          end in
        let index' := if want_index then i else index in
        let sec' := match oi with
                    | Some k => if (0 <=? i)%Z then
                                  match nth_error (c_opts sec) k with
                                  | Some o => match opt_getnsec o (to_uint i) with
                                              | Some s => Some (k, N.to_nat (to_uint i), s) | None => None end
                                  | None => None end
                                else None
                    | None => None
                    end in
        match sec' with
        | None =>
            let d := if cflag root CFGF_IGNORE_UNKNOWN then [] else
                     match oi with
                     | Some k => match nth_error (c_opts sec) k with
                                 | Some o => if negb (oflag o CFGF_MULTI) then cfg_diag root "no such option '%s'"
                                             else match title with
                                                  | Some _ => cfg_diag root "no sub-section '%s' in '%s'"
                                                  | None => cfg_diag root "no sub-section title/index for '%s'" end
                                 | None => [] end
                     | None => match title with
                               | Some _ => cfg_diag root "no sub-section '%s' in '%s'"
                               | None => cfg_diag root "no sub-section title/index for '%s'" end
                     end in
            {| rs_opt := None; rs_index := index'; rs_diags := d |}
        | Some (k, v, s) =>
            let name2 := skipn len1 name1 in
            let nbars := strspn name2 is_bar in
            let name3 := skipn nbars name2 in
            let garbage := match name2 with c :: _ => negb (is_bar c) | [] => false end in
            let trailing := match name3 with [] => negb (Nat.eqb nbars 0) | _ => false end in
            if garbage || trailing then {| rs_opt := None; rs_index := index'; rs_diags := mal |}
            else secidx_loop fuel' root s ((k, v) :: steps) name3 want_index (Some (rev steps, k)) index'
        end
    end
  end.

(* cfg_getopt_secidx(cfg, name, index) for a non-NULL, non-empty name *)
Definition getopt_secidx (c : cfg) (name : str) (want_index : bool) : resolved :=
  match name with
  | [] => {| rs_opt := None; rs_index := (-1)%Z; rs_diags := [] |}     (* EINVAL *)
  | _ => secidx_loop (S (length name)) c c [] name want_index None (-1)%Z
  end.

Definition cfg_getopt (c : cfg) (name : str) : option optref * list diag :=
  let r := getopt_secidx c name false in (rs_opt r, rs_diags r).
