(* PosProofs.v — C06 (2): where the diagnostics of cfg_setopt / cfg_init_defaults / cfg_parse_internal
   point to, when no include file can be opened. *)
From Coq Require String.
Import String.StringSyntax.
From Coq Require Import List Arith NArith ZArith Bool Lia.
From Coq.Strings Require Import Byte.
From LC Require Import Bytes Consts Conv Flex LexAct LexRules Lexer LexLemmas LexAll LineProofs Files Store Parser
     HdrProofs ApiProofs BalanceProofs PathProofs DiagGen DiagProofs DiagGenJ.
Import ListNotations.
Set Warnings "-unused-intro-pattern".
Local Open Scope string_scope.
Local Open Scope list_scope.

(* ================================================================== *)
(* the scanner without include frames                                   *)
(* ================================================================== *)
Lemma run_action_diag e a y s p t v s2 p2 d : run_action e a y s p = Return t v s2 p2 d ->
  forall x, In x d -> d_file x = p_file p2 /\ d_line x = p_line p2.
Proof.
  destruct a; cbn [run_action];
  repeat match goal with |- context [match ?x with _ => _ end] => destruct x end;
  intros H; inversion H; subst; intros x Hx; cbn [In] in Hx;
  first [contradiction | destruct Hx as [<-|[]]; split; reflexivity].
Qed.

Lemma count_nl_app a b : count_nl (a ++ b) = (count_nl a + count_nl b)%N.
Proof. unfold count_nl. rewrite filter_app, app_length, Nat2N.inj_add. reflexivity. Qed.

Ltac split5 := split; [|split; [|split; [|split]]].

Lemma lex_step_noinc e s p : l_inc s = [] ->
  l_inc (step_state (lex_step e s p)) = [] /\ l_next (step_state (lex_step e s p)) = l_next s /\
  p_file (step_pos (lex_step e s p)) = p_file p /\ (p_line p <= p_line (step_pos (lex_step e s p)))%N /\
  (forall t v s2 p2 d k, lex_step e s p = LRet t v s2 p2 d k ->
     forall x, In x d -> d_file x = p_file p2 /\ d_line x = p_line p2).
Proof.
  intro Hi. unfold lex_step. destruct (l_bufs s) as [|[id inp] others] eqn:Hb.
  - cbn [step_state step_pos]. split5; auto; try lia.
    intros ? ? ? ? ? ? HH; inversion HH; subst. intros x [].
  - destruct (munch (active_res (l_sc s)) inp 0 None) as [[i n]|] eqn:Hm.
    + destruct (nth_error (active_rules (l_sc s)) i) as [r|] eqn:Hr.
      * pose proof (run_action_frame e (r_act r) (firstn n inp) (set_bufs s ((id, skipn n inp) :: others)) p) as (F1 & F2 & _ & F4).
        pose proof (run_action_line e (r_act r) (firstn n inp) (set_bufs s ((id, skipn n inp) :: others)) p) as (L1 & L2).
        destruct (run_action e (r_act r) (firstn n inp) (set_bufs s ((id, skipn n inp) :: others)) p) eqn:Ha;
          cbn [step_state step_pos out_state out_pos] in *.
        -- split5; try congruence; try lia; try (intros ? ? ? ? ? ? HH; discriminate HH).
           ++ rewrite F2. exact Hi.
           ++ rewrite F4. reflexivity.
        -- split5; try congruence; try lia;
             try (intros ? ? ? ? ? ? HH; inversion HH; subst; eapply run_action_diag; exact Ha).
           ++ rewrite F2. exact Hi.
           ++ rewrite F4. reflexivity.
      * cbn [step_state step_pos set_bufs l_inc l_next]. split5; auto; try lia.
        intros ? ? ? ? ? ? HH; inversion HH; subst. intros x [].
    + destruct inp as [|c rest].
      * unfold run_eof. destruct (eof_action_of (l_sc s)) as [[| | |k0]|];
          try (cbn [step_state step_pos]; split5; auto; try lia;
               intros ? ? ? ? ? ? HH; inversion HH; subst; intros x Hx; cbn [In] in Hx;
               first [contradiction | destruct Hx as [<-|[]]; split; reflexivity]).
        destruct (l_rderr s).
        -- cbn [step_state step_pos clear_rderr l_inc l_next]. split5; auto; try lia.
           intros ? ? ? ? ? ? HH; inversion HH; subst; intros x Hx; cbn [In] in Hx.
           destruct Hx as [<-|[]]; split; reflexivity.
        -- rewrite Hi. cbn [step_state step_pos]. split5; auto; try lia.
           intros ? ? ? ? ? ? HH; inversion HH; subst. intros x [].
      * cbn [step_state step_pos add_echo set_bufs l_inc l_next]. split5; auto; try lia.
        intros ? ? ? ? ? ? HH; discriminate HH.
Qed.

Lemma yylex_noinc e : forall fuel s p closed, l_inc s = [] ->
  let r := yylex e fuel s p closed in
  l_inc (r_st r) = [] /\ l_next (r_st r) = l_next s /\ p_file (r_pos r) = p_file p /\
  (p_line p <= p_line (r_pos r))%N /\
  (forall x, In x (r_diags r) -> d_file x = p_file (r_pos r) /\ d_line x = p_line (r_pos r)).
Proof.
  induction fuel as [|fuel IH]; intros s p closed Hi; cbn [yylex].
  - cbn. split5; auto; try lia; try (intros x []).
  - destruct (lex_step_noinc e s p Hi) as (A & B & C & D & E).
    destruct (lex_step e s p) as [s2 p2 k|t v s2 p2 d k] eqn:Hs; cbn [step_state step_pos] in *.
    + destruct (IH s2 p2 (k + closed)%nat A) as (A' & B' & C' & D' & E'). cbv zeta in *.
      split5; try congruence; try lia; auto.
    + cbn. split5; auto. eapply E. reflexivity.
Qed.

(* ================================================================== *)
(* the invariant                                                        *)
(* ================================================================== *)
Definition noinc (w : pw) : Prop := forall x, open_input (w_fs w) x = None.
Definition top_rest (l : lexst) : str := match l_bufs l with (_, r) :: _ => r | [] => [] end.

Section Inst.
Variable f : str.                       (* the file of the parse *)
Variable L0 : N.                        (* the line at entry *)
Variable N0 : nat.                      (* l_next at entry: no buffer pushed since iff l_next = N0 *)
Variable id : nat.
Variable inp : str.                     (* the unread input of the current buffer at entry *)
Variable others : list (nat * list byte).
Variable D0 : list diag.                (* the diagnostics at entry *)

Definition hi (w : pw) : N := (L0 + (count_nl inp - count_nl (top_rest (w_lex w))))%N.

Definition dgood (w : pw) (d : diag) : Prop :=
  d_file d = Some f /\ (L0 <= d_line d)%N /\ (l_next (w_lex w) = N0 -> (d_line d <= hi w)%N).

Definition Wst (w : pw) : Prop :=
  noinc w /\ l_inc (w_lex w) = [] /\ N0 <= l_next (w_lex w) /\
  (l_next (w_lex w) = N0 -> exists u rest, l_bufs (w_lex w) = (id, rest) :: others /\ inp = u ++ rest) /\
  exists ds, w_diags w = ds ++ D0 /\ Forall (dgood w) ds.

Definition Rw (w w' : pw) : Prop :=
  Wst w -> Wst w' /\ l_next (w_lex w) <= l_next (w_lex w') /\ (l_next (w_lex w') = N0 -> (hi w <= hi w')%N).

Definition J (w : pw) (c : cfg) : Prop :=
  Wst w /\ c_file c = Some f /\ (L0 <= c_line c)%N /\ (l_next (w_lex w) = N0 -> (c_line c <= hi w)%N).

Lemma Rw_refl w : Rw w w.
Proof. intro H. split; [exact H|]. split; [lia|]. intros _. lia. Qed.

Lemma Rw_trans a b c : Rw a b -> Rw b c -> Rw a c.
Proof.
  intros H1 H2 Ha. destruct (H1 Ha) as (Hb & L1 & M1). destruct (H2 Hb) as (Hc & L2 & M2).
  split; [exact Hc|]. split; [lia|]. intro E.
  destruct Hb as (_ & _ & Nb & _). specialize (M2 E). assert (Eb : l_next (w_lex b) = N0) by lia.
  specialize (M1 Eb). lia.
Qed.

Lemma J_Rw w w' c : Rw w w' -> J w c -> J w' c.
Proof.
  intros HR (Hw & Hf & Hl & Hh). destruct (HR Hw) as (Hw' & L & M).
  split; [exact Hw'|]. split; [exact Hf|]. split; [exact Hl|]. intro E.
  destruct Hw as (_ & _ & Nw & _). assert (Ew : l_next (w_lex w) = N0) by lia.
  specialize (M E). specialize (Hh Ew). lia.
Qed.

Lemma J_pos w c c' : c_pos c' = c_pos c -> J w c -> J w c'.
Proof.
  intros E (Hw & Hf & Hl & Hh). unfold c_pos in E. injection E as E1 E2.
  split; [exact Hw|]. rewrite E1, E2. auto.
Qed.

Lemma J_file w c : J w c -> c_file c <> None.
Proof. intros (_ & Hf & _). congruence. Qed.

Lemma J_join w c s : J w c -> J w s -> J w (set_line c (c_line s)).
Proof.
  intros (Hw & Hf & _) (_ & _ & Hl & Hh). split; [exact Hw|].
  destruct c; cbn [set_line c_file c_line] in *. auto.
Qed.

Lemma dgood_lexeq w w' d : w_lex w' = w_lex w -> dgood w d -> dgood w' d.
Proof. intros E (A & B & C). unfold dgood, hi. rewrite E. auto. Qed.

(* a step that leaves scanner, file system alone and adds good diagnostics *)
Lemma Rw_add w w' ds : w_lex w' = w_lex w -> w_fs w' = w_fs w -> w_diags w' = ds ++ w_diags w ->
  (Wst w -> Forall (dgood w) ds) -> Rw w w'.
Proof.
  intros El Ef Ed Hds Hw. pose proof (Hds Hw) as Hd. destruct Hw as (A & B & C & D & ds0 & E1 & E2).
  split; [|split; [rewrite El; lia|intros _; unfold hi; rewrite El; lia]].
  split; [unfold noinc; rewrite Ef; exact A|]. rewrite El. split; [exact B|]. split; [exact C|]. split; [exact D|].
  exists (ds ++ ds0). split; [rewrite Ed, E1; apply app_assoc|].
  apply Forall_app. split; (eapply Forall_impl; [|eassumption]); intros d Hdg; apply (dgood_lexeq w w'); assumption.
Qed.

Lemma Rw_same w w' : w_lex w' = w_lex w -> w_fs w' = w_fs w -> w_diags w' = w_diags w -> Rw w w'.
Proof. intros A B C. apply (Rw_add w w' []); auto. Qed.

Lemma Rw_diag w c m : J w c -> Rw w (add_diags w (cfg_diag c m)).
Proof.
  intros (Hw & Hf & Hl & Hh). apply (Rw_add _ _ (rev (cfg_diag c m))); try reflexivity.
  intros _. unfold cfg_diag. destruct (c_err c); [|constructor].
  cbn [rev app]. constructor; [|constructor].
  unfold dgood, mkdiag, c_pos. cbn [d_file d_line p_file p_line]. auto.
Qed.

Lemma Rw_cb w e : Rw w (add_cb w e). Proof. apply Rw_same; reflexivity. Qed.
Lemma Rw_cnt w n : Rw w (set_cnt w n). Proof. apply Rw_same; reflexivity. Qed.
Lemma Rw_nextptr w n : Rw w (set_nextptr w n). Proof. apply Rw_same; reflexivity. Qed.
Lemma Rw_crash w k : Rw w (set_crash w k). Proof. apply Rw_same; reflexivity. Qed.
Lemma Rw_oof w : Rw w (set_oof w). Proof. apply Rw_same; reflexivity. Qed.

Lemma Wst_pushed w w' : Wst w -> w_fs w' = w_fs w -> w_diags w' = w_diags w ->
  l_inc (w_lex w') = [] -> N0 < l_next (w_lex w') -> Wst w'.
Proof.
  intros (A & B & C & D & ds0 & E1 & E2) Ef Ed Hi Hn.
  split; [unfold noinc; rewrite Ef; exact A|]. split; [exact Hi|]. split; [lia|]. split; [intro; lia|].
  exists ds0. split; [rewrite Ed; exact E1|].
  eapply Forall_impl; [|exact E2]. intros d (X & Y & _). split; [exact X|]. split; [exact Y|]. intro; lia.
Qed.

Lemma Rw_begin w buf : Rw w (upd_lex w (scan_begin (w_lex w) buf)).
Proof.
  intro Hw. pose proof Hw as (A & B & C & _).
  split; [|split; [cbn [upd_lex w_lex scan_begin l_next]; lia|cbn [upd_lex w_lex scan_begin l_next]; intro; lia]].
  apply (Wst_pushed w); try reflexivity; [exact Hw|exact B|].
  cbn [upd_lex w_lex scan_begin l_next]. lia.
Qed.

Lemma Rw_bracket w buf w2 :
  Rw (upd_lex w (scan_begin (w_lex w) buf)) w2 -> Rw w (upd_lex w2 (scan_end (w_lex w2))).
Proof.
  intros H Hw. pose proof Hw as (_ & _ & C & _).
  destruct (Rw_begin w buf Hw) as (Hw1 & _ & _). destruct (H Hw1) as (Hw2 & L2 & _).
  cbn [upd_lex w_lex scan_begin l_next] in L2.
  split; [|split; [cbn [upd_lex w_lex scan_end l_next]; lia|cbn [upd_lex w_lex scan_end l_next]; intro; lia]].
  apply (Wst_pushed w2); try reflexivity; [exact Hw2| |].
  - cbn [upd_lex w_lex scan_end l_inc]. apply Hw2.
  - cbn [upd_lex w_lex scan_end l_next]. lia.
Qed.

Lemma J_bracket w c buf w2 c2 : J w c ->
  Rw (upd_lex w (scan_begin (w_lex w) buf)) w2 -> J w2 c2 -> J (upd_lex w2 (scan_end (w_lex w2))) c2.
Proof.
  intros (Hw & _) H (Hw2 & Hf & Hl & _). pose proof Hw as (_ & _ & C & _).
  destruct (Rw_begin w buf Hw) as (Hw1 & _ & _). destruct (H Hw1) as (_ & L2 & _).
  cbn [upd_lex w_lex scan_begin l_next] in L2.
  split; [|split; [exact Hf|split; [exact Hl|cbn [upd_lex w_lex scan_end l_next]; intro; lia]]].
  apply (Wst_pushed w2); try reflexivity; [exact Hw2| |].
  - cbn [upd_lex w_lex scan_end l_inc]. apply Hw2.
  - cbn [upd_lex w_lex scan_end l_next]. lia.
Qed.

Lemma INC w c a w1 c1 fl : J w c -> lexer_include w c a = (w1, c1, fl) -> Rw w w1 /\ J w1 c1.
Proof.
  intros HJ H. assert (X : exists m, w1 = add_diags w (cfg_diag c m) /\ c1 = c).
  { revert H. unfold lexer_include. destruct (Nat.leb _ _); [intro H; injection H as <- <- _; eauto|].
    destruct (match w_path w with [] => _ | _ => _ end); [|intro H; injection H as <- <- _; eauto].
    destruct HJ as ((A & _) & _). rewrite A. intro H; injection H as <- <- _; eauto. }
  destruct X as (m & -> & ->). split; [apply Rw_diag; exact HJ|]. eapply J_Rw; [apply Rw_diag|]; exact HJ.
Qed.

Lemma next_token_proj fl w c :
  let r := yylex (w_env w) fl (w_lex w) (c_pos c) 0 in
  let w1 := fst (fst (fst (next_token fl w c))) in
  w_lex w1 = r_st r /\ w_fs w1 = w_fs w /\
  w_diags w1 = (if c_err c then rev (r_diags r) else []) ++ w_diags w /\
  snd (fst (fst (next_token fl w c))) = set_pos c (r_pos r).
Proof.
  unfold next_token. cbv zeta. unfold fst, snd.
  set (r := yylex (w_env w) fl (w_lex w) (c_pos c) 0).
  destruct (r_fuel_out r); destruct (c_err c); repeat split; reflexivity.
Qed.

Lemma c_file_set_pos c q : c_file (set_pos c q) = p_file q. Proof. destruct c; reflexivity. Qed.
Lemma c_line_set_pos c q : c_line (set_pos c q) = p_line q. Proof. destruct c; reflexivity. Qed.

Lemma NT fl w c w1 c1 t v : J w c -> next_token fl w c = (w1, c1, t, v) -> Rw w w1 /\ J w1 c1.
Proof.
  intros HJ H. pose proof HJ as (Hw & Hf & Hl & Hh). pose proof Hw as (A & B & C & D & ds0 & E1 & E2).
  pose proof (next_token_proj fl w c) as P. cbv zeta in P. rewrite H in P. unfold fst, snd in P.
  destruct P as (P1 & P2 & P3 & P4).
  destruct (yylex_noinc (w_env w) fl (w_lex w) (c_pos c) 0 B) as (I1 & I2 & I3 & I4 & I5). cbv zeta in *.
  set (r := yylex (w_env w) fl (w_lex w) (c_pos c) 0) in *.
  cbn [c_pos p_file p_line] in I3, I4.
  (* what the precise line invariant gives when no buffer was pushed *)
  assert (K : l_next (r_st r) = N0 -> exists k u rest,
                l_bufs (r_st r) = (id, rest) :: others /\ inp = u ++ rest /\
                hi w1 = (hi w + k)%N /\ p_line (r_pos r) = (c_line c + k)%N).
  { intro E. rewrite I2 in E. destruct (D E) as (u0 & rest & Hb & Hin).
    destruct (yylex_line_invariant (w_env w) fl (w_lex w) (c_pos c) 0 id rest others Hb B)
      as (u & rest' & Hr & Hb' & _ & _ & Hline & _). fold r in Hb', Hline. cbn [c_pos p_line] in Hline.
    exists (count_nl u), (u0 ++ u), rest'. split; [exact Hb'|]. split; [rewrite <- app_assoc, <- Hr; exact Hin|].
    split; [|exact Hline].
    unfold hi, top_rest. rewrite P1, Hb', Hb. rewrite Hin, Hr, !count_nl_app. lia. }
  assert (Hw1 : Wst w1).
  { split; [unfold noinc; rewrite P2; exact A|]. rewrite P1. split; [exact I1|]. split; [lia|].
    split; [intro E; destruct (K E) as (k & u & rest & X & Y & _); eauto|].
    exists ((if c_err c then rev (r_diags r) else []) ++ ds0). split; [rewrite P3, E1; apply app_assoc|].
    apply Forall_app. split.
    - destruct (c_err c); [|constructor]. apply Forall_forall. intros x Hx. apply in_rev in Hx.
      destruct (I5 x Hx) as (X1 & X2). unfold dgood. rewrite X1, X2, I3, P1. split; [exact Hf|]. split; [lia|].
      intro E. destruct (K E) as (k & _ & _ & _ & _ & Hk1 & Hk2). rewrite I2 in E. specialize (Hh E). lia.
    - eapply Forall_impl; [|exact E2]. intros d (X & Y & Z). unfold dgood. rewrite P1. split; [exact X|]. split; [exact Y|].
      intro E. destruct (K E) as (k & _ & _ & _ & _ & Hk1 & _). rewrite I2 in E. specialize (Z E). lia. }
  assert (HR : Rw w w1).
  { intros _. split; [exact Hw1|]. rewrite P1, I2. split; [lia|].
    intro E. rewrite <- I2 in E. destruct (K E) as (k & _ & _ & _ & _ & Hk1 & _). lia. }
  split; [exact HR|]. split; [exact Hw1|]. subst c1. rewrite c_file_set_pos, c_line_set_pos, I3.
  split; [exact Hf|]. split; [lia|]. rewrite P1. intro E. destruct (K E) as (k & _ & _ & _ & _ & Hk1 & Hk2).
  rewrite I2 in E. specialize (Hh E). lia.
Qed.

Theorem pos_all strtod_o fuel :
  (forall w c o txt, J w c -> Rw w (fst (fst (setopt strtod_o fuel w c o txt)))) /\
  (forall w c, J w c -> Rw w (fst (init_defaults strtod_o fuel w c)) /\
                        J (fst (init_defaults strtod_o fuel w c)) (snd (init_defaults strtod_o fuel w c))) /\
  (forall w c l p, J w c -> Rw w (fst (fst (parse_internal strtod_o fuel w c l p))) /\
                            J (fst (fst (parse_internal strtod_o fuel w c l p)))
                              (snd (fst (parse_internal strtod_o fuel w c l p)))).
Proof.
  apply RJ_all.
  - exact Rw_refl.
  - exact Rw_trans.
  - exact J_Rw.
  - exact J_pos.
  - exact J_file.
  - exact J_join.
  - exact Rw_diag.
  - exact Rw_cb.
  - exact Rw_cnt.
  - exact Rw_nextptr.
  - exact Rw_crash.
  - exact Rw_oof.
  - exact Rw_begin.
  - exact Rw_bracket.
  - exact J_bracket.
  - exact NT.
  - exact INC.
Qed.

End Inst.

(* ================================================================== *)
(* the statements                                                       *)
(* ================================================================== *)
Lemma J_entry f id inp others w c :
  noinc w -> l_inc (w_lex w) = [] -> l_bufs (w_lex w) = (id, inp) :: others -> c_file c = Some f ->
  J f (c_line c) (l_next (w_lex w)) id inp others (w_diags w) w c.
Proof.
  intros A B Hb Hf.
  assert (Hh : hi (c_line c) inp w = c_line c).
  { unfold hi, top_rest. rewrite Hb. lia. }
  split; [|split; [exact Hf|split; [lia|intros _; rewrite Hh; lia]]].
  split; [exact A|]. split; [exact B|]. split; [lia|]. split.
  - intros _. exists [], inp. split; [exact Hb|reflexivity].
  - exists []. split; [reflexivity|constructor].
Qed.

Lemma Wst_exit f L0 N0 id inp others D0 w' :
  Wst f L0 N0 id inp others D0 w' ->
  exists ds, w_diags w' = ds ++ D0 /\
    (forall d, In d ds -> d_file d = Some f /\ (L0 <= d_line d)%N) /\
    (l_next (w_lex w') = N0 ->
       exists u rest, inp = u ++ rest /\ l_bufs (w_lex w') = (id, rest) :: others /\
         hi L0 inp w' = (L0 + count_nl u)%N /\ forall d, In d ds -> (d_line d <= L0 + count_nl u)%N).
Proof.
  intros (A & B & C & D & ds & E1 & E2). exists ds. split; [exact E1|]. rewrite Forall_forall in E2. split.
  - intros d Hd. destruct (E2 d Hd) as (X & Y & _). auto.
  - intro E. destruct (D E) as (u & rest & Hb & Hin). exists u, rest. split; [exact Hin|]. split; [exact Hb|].
    assert (Hh : hi L0 inp w' = (L0 + count_nl u)%N).
    { unfold hi, top_rest. rewrite Hb, Hin, count_nl_app. lia. }
    split; [exact Hh|]. intros d Hd. destruct (E2 d Hd) as (_ & _ & Z). rewrite <- Hh. apply Z. exact E.
Qed.

Theorem parse_internal_diag_position strtod_o fuel w c l p w' c' rc f id inp others :
  noinc w -> l_inc (w_lex w) = [] -> l_bufs (w_lex w) = (id, inp) :: others -> c_file c = Some f ->
  parse_internal strtod_o fuel w c l p = (w', c', rc) ->
  exists ds, w_diags w' = ds ++ w_diags w /\ c_file c' = Some f /\ (c_line c <= c_line c')%N /\
    (forall d, In d ds -> d_file d = Some f /\ (c_line c <= d_line d)%N) /\
    (l_next (w_lex w') = l_next (w_lex w) ->
       exists u rest, inp = u ++ rest /\ l_bufs (w_lex w') = (id, rest) :: others /\
         (c_line c' <= c_line c + count_nl u)%N /\
         forall d, In d ds -> (d_line d <= c_line c + count_nl u)%N).
Proof.
  intros A B Hb Hf H.
  pose proof (J_entry f id inp others w c A B Hb Hf) as HJ.
  destruct (pos_all f (c_line c) (l_next (w_lex w)) id inp others (w_diags w) strtod_o fuel) as (_ & _ & P).
  destruct (P w c l p HJ) as (PR & PJ). rewrite H in PR, PJ. unfold fst, snd in PR, PJ.
  destruct PJ as (Hw' & Hf' & Hl' & Hh').
  destruct (Wst_exit _ _ _ _ _ _ _ _ Hw') as (ds & E1 & E2 & E3).
  exists ds. split; [exact E1|]. split; [exact Hf'|]. split; [exact Hl'|]. split; [exact E2|].
  intro E. destruct (E3 E) as (u & rest & X1 & X2 & X3 & X4). exists u, rest.
  split; [exact X1|]. split; [exact X2|]. split; [rewrite <- X3; apply Hh'; exact E|exact X4].
Qed.

Theorem setopt_diag_position strtod_o fuel w c o txt w' o' res f id inp others :
  noinc w -> l_inc (w_lex w) = [] -> l_bufs (w_lex w) = (id, inp) :: others -> c_file c = Some f ->
  setopt strtod_o fuel w c o txt = (w', o', res) ->
  exists ds, w_diags w' = ds ++ w_diags w /\
    (forall d, In d ds -> d_file d = Some f /\ (c_line c <= d_line d)%N) /\
    (l_next (w_lex w') = l_next (w_lex w) ->
       exists u rest, inp = u ++ rest /\ l_bufs (w_lex w') = (id, rest) :: others /\
         forall d, In d ds -> (d_line d <= c_line c + count_nl u)%N).
Proof.
  intros A B Hb Hf H.
  pose proof (J_entry f id inp others w c A B Hb Hf) as HJ.
  destruct (pos_all f (c_line c) (l_next (w_lex w)) id inp others (w_diags w) strtod_o fuel) as (P & _ & _).
  pose proof (P w c o txt HJ) as PR. rewrite H in PR. unfold fst in PR.
  destruct (PR (proj1 HJ)) as (Hw' & _ & _).
  destruct (Wst_exit _ _ _ _ _ _ _ _ Hw') as (ds & E1 & E2 & E3).
  exists ds. split; [exact E1|]. split; [exact E2|].
  intro E. destruct (E3 E) as (u & rest & X1 & X2 & X3 & X4). exists u, rest. auto.
Qed.

(* ================================================================== *)
(* the entry points                                                     *)
(* ================================================================== *)
Definition obs (w : pw) := (w_diags w, w_cbs w, w_oof w, w_crash w, w_fs w).

Lemma include_unwind_obs n : forall w d, obs (include_unwind n w d) = obs w.
Proof.
  induction n as [|n IH]; intros w d; cbn [include_unwind]; [reflexivity|].
  destruct (l_inc (w_lex w)) as [|fr rest]; [reflexivity|].
  destruct (Nat.ltb d _); [|reflexivity]. rewrite IH. reflexivity.
Qed.

Lemma include_unwind_noinc n w d : l_inc (w_lex w) = [] -> include_unwind n w d = w.
Proof. intro H. destruct n; cbn [include_unwind]; [reflexivity|]. rewrite H. reflexivity. Qed.

Lemma parse_fp_gen_unfold strtod_o fuel w c content :
  let c2 := set_line (match c_file c with None => set_file c (Some (M "FILE")) | Some _ => c end) 1 in
  let w1 := upd_lex w (match content with Some t => scan_begin (w_lex w) t | None => scan_begin_failing (w_lex w) end) in
  let r := parse_internal strtod_o fuel w1 c2 0 (pst0 0 None) in
  let w3 := include_unwind (S MAX_INCLUDE_DEPTH) (fst (fst r)) (length (l_inc (w_lex w))) in
  parse_fp_gen strtod_o fuel w c content =
    (upd_lex w3 (scan_end (w_lex w3)), snd (fst r), match snd r with PERR => CFG_PARSE_ERROR | _ => CFG_SUCCESS end).
Proof.
  cbv zeta. unfold parse_fp_gen.
  destruct (parse_internal strtod_o fuel _ _ 0 (pst0 0 None)) as [[w2 c3] rc]. reflexivity.
Qed.

(* C06 (1) for cfg_parse_fp / cfg_parse_buf *)
Theorem parse_fp_gen_error_reported strtod_o fuel w c content w' c' :
  parse_fp_gen strtod_o fuel w c content = (w', c', CFG_PARSE_ERROR) ->
  c_err c = true -> w_oof w' = false -> w_crash w' = None ->
  reported w w'.
Proof.
  intros H Hc Ho Hcr. rewrite parse_fp_gen_unfold in H. cbv zeta in H.
  set (c2 := set_line (match c_file c with None => set_file c (Some (M "FILE")) | Some _ => c end) 1) in *.
  set (w1 := upd_lex w _) in *.
  destruct (parse_internal strtod_o fuel w1 c2 0 (pst0 0 None)) as [[w2 c3] rc] eqn:E. unfold fst, snd in H.
  set (w3 := include_unwind (S MAX_INCLUDE_DEPTH) w2 (length (l_inc (w_lex w)))) in *.
  assert (O3 : obs w' = obs w2).
  { injection H as <- _ _. unfold w3. rewrite <- (include_unwind_obs (S MAX_INCLUDE_DEPTH) w2 (length (l_inc (w_lex w)))).
    reflexivity. }
  unfold obs in O3. injection O3 as Od Ob Oo Ocr _.
  destruct rc; try (injection H as _ _ H; discriminate H).
  assert (Hc2 : c_err c2 = true).
  { unfold c2. rewrite c_err_set_line. destruct (c_file c); [exact Hc|rewrite c_err_set_file; exact Hc]. }
  destruct (strict_all strtod_o fuel) as [_ P].
  assert (L : ev w1 < ev w2).
  { apply (P w1 c2 0 (pst0 0 None) w2 c3 E Hc2 I).
    - unfold oofn. rewrite <- Oo, Ho. reflexivity.
    - unfold crn. rewrite <- Ocr, Hcr. reflexivity. }
  destruct (grows_all strtod_o fuel) as (_ & _ & G). pose proof (G w1 c2 0 (pst0 0 None)) as G1.
  rewrite E in G1. unfold fst in G1.
  assert (R : reported w1 w2) by (apply grows_strict_reported; assumption).
  unfold reported in *. rewrite Od, Ob. exact R.
Qed.

Theorem parse_buf_error_reported strtod_o fuel w c b w' c' :
  parse_buf strtod_o fuel w c (Some b) = (w', c', CFG_PARSE_ERROR) ->
  c_err c = true -> w_oof w' = false -> w_crash w' = None ->
  reported w w'.
Proof.
  unfold parse_buf, parse_fp. intros H Hc. eapply parse_fp_gen_error_reported; [exact H|].
  rewrite c_err_set_file. exact Hc.
Qed.

(* C06 (2) for cfg_parse_buf: file "[buf]", lines within the text *)
Theorem parse_buf_diag_position strtod_o fuel w c b w' c' rc :
  noinc w -> l_inc (w_lex w) = [] ->
  parse_buf strtod_o fuel w c (Some b) = (w', c', rc) ->
  exists ds, w_diags w' = ds ++ w_diags w /\
    (forall d, In d ds -> d_file d = Some (M "[buf]") /\ (1 <= d_line d)%N) /\
    (l_next (w_lex w') = S (l_next (w_lex w)) ->
       forall d, In d ds -> (d_line d <= 1 + count_nl (cstr b))%N).
Proof.
  intros A B. unfold parse_buf, parse_fp. rewrite parse_fp_gen_unfold. cbv zeta.
  set (c0 := set_file c (Some (M "[buf]"))).
  assert (Ef : c_file c0 = Some (M "[buf]")) by (unfold c0; destruct c; reflexivity).
  rewrite Ef.
  set (c2 := set_line c0 1). set (w1 := upd_lex w (scan_begin (w_lex w) (cstr b))).
  destruct (parse_internal strtod_o fuel w1 c2 0 (pst0 0 None)) as [[w2 c3] rc2] eqn:E. unfold fst, snd.
  assert (Ef2 : c_file c2 = Some (M "[buf]")) by (unfold c2; destruct c0; exact Ef).
  assert (El2 : c_line c2 = 1%N) by (unfold c2; destruct c0; reflexivity).
  destruct (parse_internal_diag_position strtod_o fuel w1 c2 0 (pst0 0 None) w2 c3 rc2 (M "[buf]")
              (l_next (w_lex w)) (cstr b) (l_bufs (w_lex w)) A B eq_refl Ef2 E)
    as (ds & D1 & _ & _ & D4 & D5).
  assert (Hi2 : l_inc (w_lex w2) = []).
  { destruct (pos_all (M "[buf]") (c_line c2) (l_next (w_lex w1)) (l_next (w_lex w)) (cstr b) (l_bufs (w_lex w))
                (w_diags w1) strtod_o fuel) as (_ & _ & P).
    destruct (P w1 c2 0 (pst0 0 None) (J_entry _ _ _ _ w1 c2 A B eq_refl Ef2)) as (_ & (Hw2 & _)).
    rewrite E in Hw2. apply Hw2. }
  rewrite (include_unwind_noinc _ _ _ Hi2).
  intro H. injection H as <- _ _. cbn [upd_lex w_diags w_lex scan_end l_next].
  exists ds. split; [exact D1|]. rewrite El2 in *. split; [exact D4|].
  intro En. destruct (D5 En) as (u & rest & X1 & _ & _ & X4).
  intros d Hd. specialize (X4 d Hd). rewrite X1, count_nl_app. lia.
Qed.

(* ================================================================== *)
(* diagnostics only grow, as a plain statement                          *)
(* ================================================================== *)
Theorem diags_only_grow strtod_o fuel :
  (forall w c o txt, exists ds, w_diags (fst (fst (setopt strtod_o fuel w c o txt))) = ds ++ w_diags w) /\
  (forall w c, exists ds, w_diags (fst (init_defaults strtod_o fuel w c)) = ds ++ w_diags w) /\
  (forall w c l p, exists ds, w_diags (fst (fst (parse_internal strtod_o fuel w c l p))) = ds ++ w_diags w).
Proof.
  destruct (grows_all strtod_o fuel) as (A & B & C).
  split; [|split]; intros; [apply (A w c o txt)|apply (B w c)|apply (C w c l p)].
Qed.

Lemma include_unwind_diags n w d : w_diags (include_unwind n w d) = w_diags w.
Proof. pose proof (include_unwind_obs n w d) as O. unfold obs in O. congruence. Qed.

Theorem parse_buf_diags_only_grow strtod_o fuel w c buf :
  exists ds, w_diags (fst (fst (parse_buf strtod_o fuel w c buf))) = ds ++ w_diags w.
Proof.
  destruct buf as [b|]; [|exists []; reflexivity].
  unfold parse_buf, parse_fp. rewrite parse_fp_gen_unfold. cbv zeta.
  destruct (grows_all strtod_o fuel) as (_ & _ & G).
  match goal with |- context [parse_internal strtod_o fuel ?w1 ?c2 ?l ?p] =>
    destruct (G w1 c2 l p) as [[ds Hd] _]; destruct (parse_internal strtod_o fuel w1 c2 l p) as [[w2 c3] rc] end.
  unfold fst, snd in *. cbn [upd_lex w_diags] in *. rewrite include_unwind_diags.
  exists ds. exact Hd.
Qed.

(* ================================================================== *)
(* witnesses                                                            *)
(* ================================================================== *)
Lemma noinc_empty w : fs_ents (w_fs w) = [] -> noinc w.
Proof.
  intros H x. unfold open_input, fs_lookup. rewrite H.
  destruct (norm_path (fs_root (w_fs w)) x) as [[|b k]|]; reflexivity.
Qed.

Definition exB := bs_of_string.
Definition ex_oa := Opt (exB "a") KInt 0 [] [] defv0 None cbset0.
Definition ex_op := Opt (exB "p") KPtr 0 [] [] defv0 None cbset0.
Definition ex_os := Opt (exB "s") KSec 0 [] [ex_oa] defv0 None cbset0.
Definition ex_fs : fsys := {| fs_root := exB "/R"; fs_ents := [] |}.
Definition ex_wz : pw :=
  {| w_lex := lex_init; w_env := []; w_fs := ex_fs;
     w_pw := {| pw_tab := []; pw_self := None |}; w_path := []; w_cbs := []; w_cnt := 0; w_failat := 0;
     w_nextptr := 1; w_diags := []; w_open := 0; w_crash := None; w_oof := false |}.
Definition ex_init := cfg_init ex_sd 50 ex_wz [ex_oa; ex_op; ex_os] 0.
Definition ex_wI := fst ex_init.
Definition ex_root := snd ex_init.
Definition ex_run (t : String.string) := parse_buf ex_sd 300 ex_wI ex_root (Some (exB t)).

(* the line of the context returned by a failed parse is NOT an upper bound for the lines of its diagnostics:
   an error inside a section leaves the enclosing context at the line of the opening brace *)
Theorem diag_line_le_exit_line_refuted :
  exists strtod_o fuel w c b w' c' rc d,
    parse_buf strtod_o fuel w c (Some b) = (w', c', rc) /\ noinc w /\ l_inc (w_lex w) = [] /\
    In d (w_diags w') /\ (c_line c' < d_line d)%N.
Proof.
  exists ex_sd, 300, ex_wI, ex_root, (exB "s {

bogus"), (fst (fst (ex_run "s {

bogus"))), (snd (fst (ex_run "s {

bogus"))), CFG_PARSE_ERROR.
  eexists. split; [vm_compute; reflexivity|]. split; [apply noinc_empty; vm_compute; reflexivity|]. split; [vm_compute; reflexivity|].
  split; [vm_compute; left; reflexivity|]. vm_compute. reflexivity.
Qed.

(* ================================================================== *)
(* C06 (1) in list form                                                 *)
(* ================================================================== *)
Lemma oofn_false w : w_oof w = false -> oofn w = 0. Proof. unfold oofn. intros ->. reflexivity. Qed.
Lemma crn_none w : w_crash w = None -> crn w = 0. Proof. unfold crn. intros ->. reflexivity. Qed.

Theorem parse_internal_error_reported strtod_o fuel w c level p w' c' :
  parse_internal strtod_o fuel w c level p = (w', c', PERR) ->
  c_err c = true -> pok c p -> w_oof w' = false -> w_crash w' = None ->
  reported w w'.
Proof.
  intros H Hc Hp Ho Hcr. destruct (strict_all strtod_o fuel) as [_ P].
  pose proof (P w c level p w' c' H Hc Hp (oofn_false _ Ho) (crn_none _ Hcr)) as L.
  destruct (grows_all strtod_o fuel) as (_ & _ & G). pose proof (G w c level p) as G1. rewrite H in G1.
  apply grows_strict_reported; assumption.
Qed.

Theorem setopt_error_reported strtod_o fuel w c o txt w' o' :
  setopt strtod_o fuel w c o txt = (w', o', None) ->
  c_err c = true -> w_oof w' = false -> w_crash w' = None ->
  reported w w' \/ einval o txt.
Proof.
  intros H Hc Ho Hcr. destruct (strict_all strtod_o fuel) as [P _].
  destruct (P w c o txt w' o' H Hc (oofn_false _ Ho) (crn_none _ Hcr)) as [L|S]; [left|right; exact S].
  destruct (grows_all strtod_o fuel) as (G & _ & _). pose proof (G w c o txt) as G1. rewrite H in G1.
  apply grows_strict_reported; assumption.
Qed.

