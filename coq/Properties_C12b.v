(* Properties_C12b.v — C12 at any item boundary and any nesting depth, on the reference meaning and on the parser model.
   Only statements here; proofs are in SkipAnyProofs.v.

   Properties_C12.v proves "an unknown item is skipped" for an item at the HEAD of the token list handed to
   Grammar.meaning.  Here the item `name <utoks u>` (u any well-formed unknown item of SkipProofs.uwf: assignment,
   append, braced list, call, plain or titled section with any brace-balanced body) is inserted anywhere:

     SkipAnyProofs.Ins name u c top t t'    t' is t with the item inserted at an item boundary of t, read in context c
                                            (top = not inside braces); the boundaries are those of the descent itself
        Ins_here    at the head of the list (which may be empty or, inside braces, start with the closing '}');
                    name is not declared in c  (fst (cfg_getopt c name) = None)
        Ins_later   after one complete item  n pre  (SkipAnyProofs.item: scalar / list assignment or append, unknown
                    item, free-form key, or a WHOLE section item with its body) which takes c to c1: inserted in the
                    rest, relative to c1
        Ins_inside  inside the body of the section item  n [title] {  at the head (SkipAnyProofs.opens: the instance
                    it opens is the existing one of a plain section, a fresh one, or the re-opened titled one):
                    inserted in the body relative to that instance; the text after the body's '}' is untouched
     SkipAnyProofs.ignoring c               c and every section instance nested in it carry CFGF_IGNORE_UNKNOWN (fresh
                                            instances get the flags of the context that opens them, Grammar.instance)

   item / opens / close are tied to Grammar.meaning by statements 3 and 4, so the relation speaks about meaning's own
   recursion.  Limit of the relation: Ins_later asks the preceding item to be accepted, so for a REJECTED text it covers
   the insertion points up to the item at which the descent stops (both texts are then rejected alike).

   Side conditions found: `ignoring` after cfg_init needs declarations without pre-set section values
   (Example C12b_cfg_init_needs_templates: a declaration that already holds an instance created without the flag
   keeps it); the statement takes the template hypothesis of the C01 refinement. *)
From Coq Require String.
From Coq Require Import List Arith NArith ZArith Bool.
From Coq.Strings Require Import Byte.
From LC Require Import Bytes Consts Conv Lexer LexLemmas LexAll Files Store Parser Grammar
  PP_Tok PP_Inv PP_Spec PP_SpecLemmas PP_LexYields PP_LexFrame ParserProofs SkipProofs SkipAnyProofs Properties_C01.
Import ListNotations.

(* 1. cfg_init with CFGF_IGNORE_UNKNOWN builds an `ignoring` tree (which also meets the C01 invariant) *)
Theorem C12b_ignoring_established :
  forall (strtod_o : str -> strtod_res) (e : ctx) (DC k : nat) (w : pw) (L : lexst) (decls : list opt) (flags : N) (fuel : nat),
  wst w e L -> forallb (tmplO (dtext_okb strtod_o (fst e) DC) k) decls = true -> measure L + DC + 2 * k + 1 <= fuel ->
  has flags CFGF_IGNORE_UNKNOWN = true ->
  ignoring (snd (cfg_init strtod_o fuel w decls flags)) /\ Inv strtod_o (fst e) DC k (snd (cfg_init strtod_o fuel w decls flags)).
Proof. exact cfg_init_ignoring. Qed.
Print Assumptions C12b_ignoring_established.

(* 2. it is kept by every accepted text, it only depends on the observation of the tree, and it holds for the instance
      a section item opens *)
Theorem C12b_ignoring_preserved :
  forall strtod_o F c top g c' rest, meaning strtod_o F c top g = Some (c', rest) -> ignoring c -> ignoring c'.
Proof. exact meaning_ign. Qed.
Print Assumptions C12b_ignoring_preserved.

Theorem C12b_ignoring_observational : forall c c', obs_c c = obs_c c' -> ign_c c = ign_c c'.
Proof. exact ign_obs. Qed.
Print Assumptions C12b_ignoring_observational.

Theorem C12b_ignoring_enters_sections :
  forall strtod_o c name r ti sec r2, opens strtod_o c name r = Some (ti, sec, r2) -> ignoring c -> ignoring sec.
Proof. exact opens_ign. Qed.
Print Assumptions C12b_ignoring_enters_sections.

(* 3. the meaning is the iteration of `item` *)
Theorem C12b_meaning_iterates_item :
  forall strtod_o f c top name r,
  meaning strtod_o (S f) c top (GS name :: r) =
  match item strtod_o f c name r with Some (c1, r1) => meaning strtod_o f c1 top r1 | None => None end.
Proof. exact meaning_item. Qed.
Print Assumptions C12b_meaning_iterates_item.

(* 4. a section item: the body is read in the instance `opens` gives, and `close` puts the result back *)
Theorem C12b_item_of_section :
  forall strtod_o c name r ti sec r2, opens strtod_o c name r = Some (ti, sec, r2) ->
  forall F, item strtod_o F c name r =
            match meaning strtod_o F sec false r2 with Some (sec', r3) => Some (close strtod_o c name ti sec', r3) | None => None end.
Proof. exact item_opens. Qed.
Print Assumptions C12b_item_of_section.

(* 5. fuel above the number of tokens is irrelevant; an accepted section body is read the same whatever follows its '}' *)
Theorem C12b_fuel_irrelevant :
  forall strtod_o F1 F2 c top g, length g < F1 -> length g < F2 -> meaning strtod_o F1 c top g = meaning strtod_o F2 c top g.
Proof. exact meaning_fuel. Qed.
Print Assumptions C12b_fuel_irrelevant.

Theorem C12b_body_independent_of_rest :
  forall strtod_o F s g s' rest, meaning strtod_o F s false g = Some (s', rest) ->
  exists pre, g = pre ++ rest /\
    forall F' rest', length (pre ++ rest') < F' -> meaning strtod_o F' s false (pre ++ rest') = Some (s', rest').
Proof. exact meaning_prefix. Qed.
Print Assumptions C12b_body_independent_of_rest.

(* 6. MAIN (SPEC level): inserting a well-formed undeclared item at any item boundary, at any depth, of a text read in an
      `ignoring` context changes nothing: same rejection, or same resulting tree and same rest *)
Theorem C12b_insertion_anywhere :
  forall strtod_o name u c top t t', uwf u -> Ins strtod_o name u c top t t' -> ignoring c ->
  forall F F', length t < F -> length t' < F' -> meaning strtod_o F' c top t' = meaning strtod_o F c top t.
Proof. exact meaning_insertion. Qed.
Print Assumptions C12b_insertion_anywhere.

(* 7. parser model: cfg_parse_internal on the two token streams returns the same code, and when it accepts, trees with
      the same observation (hypotheses: those of C01_machine for each stream) *)
Theorem C12_parser_insertion_anywhere :
  forall (strtod_o : str -> strtod_res) (e : ctx) (DC k : nat) (name : str) (u : uitem) (ts ts' : list ltok) (L L' : lexst)
         (w w' : pw) (c : cfg) (fuel fuel' : nat),
  uwf u -> Ins strtod_o name u c true (gtoks ts) (gtoks ts') -> ignoring c -> Inv strtod_o (fst e) DC k c ->
  wst w e L -> yieldsc e L ts -> enough DC k L ts fuel ->
  wst w' e L' -> yieldsc e L' ts' -> enough DC k L' ts' fuel' ->
  exists w1 c1 w2 c2 rc,
    parse_internal strtod_o fuel w c 0 (pst0 0 None) = (w1, c1, rc) /\
    parse_internal strtod_o fuel' w' c 0 (pst0 0 None) = (w2, c2, rc) /\
    w_oof w1 = false /\ w_oof w2 = false /\ (rc = PEOF \/ rc = PERR) /\
    (rc = PEOF -> obs_c c2 = obs_c c1 /\ ignoring c2 /\ Inv strtod_o (fst e) DC k c2).
Proof. exact c12_parser_insertion. Qed.
Print Assumptions C12_parser_insertion_anywhere.

(* 8. byte level: cfg_parse_buf on two texts without lexical error whose token lists are Ins-related *)
Theorem C12_parse_buf_insertion_anywhere :
  forall (strtod_o : str -> strtod_res) (DC k : nat) (name : str) (u : uitem) (w : pw) (c : cfg) (b b' : str) (ts ts' : list ltok)
         (lf lf' : nat) (p0 p0' : pos) (s1 s1' : lexst) (p1 p1' : pos) (d1 d1' : list diag) (fuel : nat),
  uwf u -> wready w -> Inv strtod_o (w_env w) DC k c -> ignoring c ->
  lex_all (w_env w) lf (scan_begin lex_init (cstr b)) p0 [] [] = (ts, TEof, s1, p1, d1) ->
  lex_all (w_env w) lf' (scan_begin lex_init (cstr b')) p0' [] [] = (ts', TEof, s1', p1', d1') ->
  Ins strtod_o name u c true (gtoks ts) (gtoks ts') ->
  length (cstr b) + measure (w_lex w) + length ts + 2 * k + 4 + DC < fuel ->
  length (cstr b') + measure (w_lex w) + length ts' + 2 * k + 4 + DC < fuel ->
  let '(w1, c1, rc1) := parse_buf strtod_o fuel w c (Some b) in
  let '(w2, c2, rc2) := parse_buf strtod_o fuel w c (Some b') in
  rc2 = rc1 /\ w_oof w1 = false /\ w_oof w2 = false /\ (rc1 = CFG_SUCCESS \/ rc1 = CFG_PARSE_ERROR) /\
  (rc1 = CFG_SUCCESS -> obs_c c2 = obs_c c1 /\ ignoring c2 /\ Inv strtod_o (w_env w) DC k c2).
Proof. exact c12_parse_buf_insertion. Qed.
Print Assumptions C12_parse_buf_insertion_anywhere.

(* the template hypothesis of statement 1 is needed *)
Example C12b_cfg_init_needs_templates : exists sd w decls, ign_c (snd (cfg_init sd 100 w decls 256)) = false.
Proof. exact cfg_init_ignoring_needs_templates. Qed.

(* ---------------------------------------------------------------------------------------------
   Example: the schema of Properties_C01.Ex created with CFGF_IGNORE_UNKNOWN; an unknown titled section with nested
   content inserted two levels deep (inside  s { in { ... } }), between two items, after other items at every level *)
Module Ex12.
Import String.StringSyntax.
Local Open Scope string_scope.
Local Open Scope list_scope.
Import Properties_C01.Ex.

Definition c256 := snd (cfg_init sd 1000 w0 decls 256).
Definition txt_a  := B "x = 5  s { a = 10 in { z = 3                                              w += x } a = 11 }  m { a = 2 } t one { a = 4 } s { in { z = 4 } }".
Definition txt_b  := B "x = 5  s { a = 10 in { z = 3  junk 'ttl' { q = 1 deep { r = {1, 2} } v += 7 }  w += x } a = 11 }  m { a = 2 } t one { a = 4 } s { in { z = 4 } }".
Definition toks_a := gtoks (toks_of txt_a).
Definition toks_b := gtoks (toks_of txt_b).
Definition nm := B "junk".
Definition body := gtoks (toks_of (B "q = 1 deep { r = {1, 2} } v += 7")).
Definition u := USec (Some (B "ttl")) body.

(* the hypotheses of statement 1 hold, hence its conclusion *)
Example C12b_created_ignoring :
  forallb (tmplO (dtext_okb sd (w_env w0) 30) 3) decls = true /\ ign_c c256 = true /\ invC (dtext_okb sd (w_env w0) 30) 3 c256 = true.
Proof. vm_compute. repeat split; reflexivity. Qed.

Lemma bal_toks : forall l, forallb (fun t => negb (is_p t 123) && negb (is_p t 125)) l = true -> balanced l.
Proof.
  induction l as [|t l IH]; intros H; [constructor|]. cbn [forallb] in H. apply andb_prop in H as [A C]. apply andb_prop in A as [A1 A2].
  apply bal_tok; [destruct (is_p t 123); [discriminate|reflexivity]|destruct (is_p t 125); [discriminate|reflexivity]|apply IH, C].
Qed.

Example C12b_item_wellformed : uwf u.
Proof.
  (* q = 1 deep { r = { 1 , 2 } } v += 7 *)
  change (balanced body).
  replace body with ([GS (B "q"); GP 61; GS (B "1"); GS (B "deep")] ++
                     (GP 123 :: ([GS (B "r"); GP 61] ++ (GP 123 :: [GS (B "1"); GP 44; GS (B "2")] ++ GP 125 :: [])) ++
                      GP 125 :: [GS (B "v"); GP 43; GS (B "7")])) by (vm_compute; reflexivity).
  apply balanced_app; [apply bal_toks; reflexivity|].
  apply bal_grp; [|apply bal_toks; reflexivity].
  apply balanced_app; [apply bal_toks; reflexivity|].
  apply bal_grp; [apply bal_toks; reflexivity|constructor].
Qed.

(* the two token lists are Ins-related: after `x = 5`, inside `s {`, after `a = 10`, inside `in {`, after `z = 3` *)
Example C12b_insertion_two_levels_deep : Ins sd nm u c256 true toks_a toks_b.
Proof.
  vm_compute.
  apply (Ins_later_at sd _ _ 2 100). vm_compute. split; [reflexivity|split; [reflexivity|]].
  apply Ins_inside_at. vm_compute. split; [reflexivity|].
  apply (Ins_later_at sd _ _ 2 100). vm_compute. split; [reflexivity|split; [reflexivity|]].
  apply Ins_inside_at. vm_compute. split; [reflexivity|].
  apply (Ins_later_at sd _ _ 2 100). vm_compute. split; [reflexivity|split; [reflexivity|]].
  apply Ins_here. vm_compute. reflexivity.
Qed.

(* hence (statement 6) the meanings agree; here both sides by computation: same tree, and the value two levels deep is there *)
Example C12b_same_meaning :
  meaning sd (S (length toks_b)) c256 true toks_b = meaning sd (S (length toks_a)) c256 true toks_a /\
  meaning sd (S (length toks_a)) c256 true toks_a <> None /\ length toks_a = 43 /\ length toks_b = 63.
Proof. vm_compute. repeat split; try reflexivity. discriminate. Qed.

(* and (statement 8) cfg_parse_buf of the model returns the same code and the same observable tree *)
Example C12b_same_parse :
  let '(w1, c1, rc1) := parse_buf sd 1000 w0 c256 (Some txt_a) in
  let '(w2, c2, rc2) := parse_buf sd 1000 w0 c256 (Some txt_b) in
  rc1 = CFG_SUCCESS /\ rc2 = CFG_SUCCESS /\ obs_c c2 = obs_c c1 /\ Some (obs_c c1) = text_meaning sd c256 (toks_of txt_a).
Proof. vm_compute. repeat split; reflexivity. Qed.

(* the hypotheses of statement 8 hold for these texts *)
Example C12b_hypotheses_hold :
  wready w0 /\ Inv sd (w_env w0) 30 3 c256 /\ ignoring c256 /\
  (exists s' p' d, lex_all (w_env w0) (S (length txt_a)) (scan_begin lex_init (cstr txt_a)) {| p_file := None; p_line := 1 |} [] [] = (toks_of txt_a, TEof, s', p', d)) /\
  (exists s' p' d, lex_all (w_env w0) (S (length txt_b)) (scan_begin lex_init (cstr txt_b)) {| p_file := None; p_line := 1 |} [] [] = (toks_of txt_b, TEof, s', p', d)) /\
  (length (cstr txt_a) + measure (w_lex w0) + length (toks_of txt_a) + 2 * 3 + 4 + 30 <? 1000) = true /\
  (length (cstr txt_b) + measure (w_lex w0) + length (toks_of txt_b) + 2 * 3 + 4 + 30 <? 1000) = true.
Proof.
  split; [split; [reflexivity|split; [reflexivity|apply q_inv_empty]]|]. split; [vm_compute; reflexivity|]. split; [vm_compute; reflexivity|].
  split; [vm_compute; do 3 eexists; reflexivity|]. split; [vm_compute; do 3 eexists; reflexivity|]. split; vm_compute; reflexivity.
Qed.

(* a second insertion point: at the very end of the body of the RE-OPENED plain section  s { in { z = 4 <here> } },
   after whole section items of every sort (plain with nested body, multi, titled) at top level; the item is an assignment *)
Definition txt_c  := B "x = 5  s { a = 10 in { z = 3 w += x } a = 11 }  m { a = 2 } t one { a = 4 } s { in { z = 4 zz = 1 } }".
Definition toks_c := gtoks (toks_of txt_c).
Example C12b_insertion_in_reopened_section : Ins sd (B "zz") (UAssign false (B "1")) c256 true toks_a toks_c.
Proof.
  vm_compute.
  apply (Ins_later_at sd _ _ 2 100). vm_compute. split; [reflexivity|split; [reflexivity|]].     (* x = 5 *)
  apply (Ins_later_at sd _ _ 17 100). vm_compute. split; [reflexivity|split; [reflexivity|]].    (* s { ... in { ... } ... } *)
  apply (Ins_later_at sd _ _ 5 100). vm_compute. split; [reflexivity|split; [reflexivity|]].     (* m { a = 2 } *)
  apply (Ins_later_at sd _ _ 6 100). vm_compute. split; [reflexivity|split; [reflexivity|]].     (* t one { a = 4 } *)
  apply Ins_inside_at. vm_compute. split; [reflexivity|].                                        (* s {   (merged into the existing instance) *)
  apply Ins_inside_at. vm_compute. split; [reflexivity|].                                        (* in { *)
  apply (Ins_later_at sd _ _ 2 100). vm_compute. split; [reflexivity|split; [reflexivity|]].     (* z = 4 *)
  apply Ins_here. vm_compute. reflexivity.                                                       (* in front of  } } *)
Qed.

Example C12b_same_meaning_reopened :
  meaning sd (S (length toks_c)) c256 true toks_c = meaning sd (S (length toks_a)) c256 true toks_a.
Proof. vm_compute. reflexivity. Qed.

(* without the flag the longer text is rejected, the shorter accepted *)
Example C12b_flag_matters :
  snd (parse_buf sd 1000 w0 c0 (Some txt_a)) = CFG_SUCCESS /\ snd (parse_buf sd 1000 w0 c0 (Some txt_b)) = CFG_PARSE_ERROR.
Proof. vm_compute. split; reflexivity. Qed.
End Ex12.
