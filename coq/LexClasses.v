(* LexClasses.v — C15, lexical level, part 2a (definitions and finite sweeps for LexCompose.v): scanning composes at a delimiter.
   If the text `a` ends in a delimiter byte (white space or one of { } ( ) = ,), has no unclosed ${ and no one-line
   comment open on its last line, then the tokens of `a ++ b` are the tokens of `a` followed by the tokens of `b`.
   Method: the reachable residual vectors of every start condition (LineProofs.reach_sc, already proved closed) are
   classified by finite sweeps; `munch` on `x ++ b` is shown to pick the same match as on `x` for every suffix x of `a`. *)
From Coq Require Import List Arith NArith Bool Lia.
From Coq.Strings Require Import Byte.
From LC Require Import Bytes Flex LexAct LexRules Consts Lexer LexSpec LexLemmas DqProofs SqProofs LexAll
                       Files Store Parser Grammar PP_Step PP_Tok PP_LexYields PP_LexFrame LineProofs LexComments.
Import ListNotations.

(* ================================================================== *)
(* 1. the hypotheses on the text before the cut *)

Definition isD (c : byte) : bool := isws c || existsb (Byte.eqb c) [x7b; x7d; x28; x29; x3d; x2c].

Definition ends_D (a : str) : Prop := exists (a' : str) d, a = a' ++ [d] /\ isD d = true.

(* every dollar-brace is closed by a later brace *)
Definition no_open_env (a : str) : Prop := forall (u1 u2 : str), a = u1 ++ dollar :: lbrace :: u2 -> In rbrace u2.

(* no hash and no slash-slash after the last newline *)
Definition lc_start (u : str) : bool :=
  match u with
  | c :: r => if Byte.eqb c hash then true else if Byte.eqb c slash then match r with d :: _ => Byte.eqb d slash | [] => false end else false
  | [] => false
  end.
Definition no_lc_tail (a : str) : Prop := forall (u1 u2 : str), a = u1 ++ u2 -> ~ In nl u2 -> lc_start u2 = false.

Definition sealed (a : str) : Prop := ends_D a /\ no_open_env a /\ no_lc_tail a.

Lemma sealed_suffix (u v : str) : sealed (u ++ v) -> v <> [] -> sealed v.
Proof.
  intros ((a' & d & E & Hd) & Ho & Hl) Hv. split; [|split].
  - destruct (exists_last Hv) as (v' & d' & ->). exists v', d'. split; [reflexivity|].
    rewrite app_assoc in E. apply app_inj_tail in E as [_ ->]. exact Hd.
  - intros u1 u2 E2. apply (Ho (u ++ u1) u2). rewrite E2, <- app_assoc. reflexivity.
  - intros u1 u2 E2. apply (Hl (u ++ u1) u2). rewrite E2, <- app_assoc. reflexivity.
Qed.

Lemma sealed_nonempty a : sealed a -> a <> [].
Proof. intros ((a' & d & -> & _) & _). destruct a'; discriminate. Qed.

(* boolean checkers, for examples *)
Fixpoint open_env_b (a : str) : bool :=
  match a with
  | [] => false
  | c :: r => if (if Byte.eqb c dollar then match r with d :: r' => if Byte.eqb d lbrace then negb (existsb (Byte.eqb rbrace) r') else false | [] => false end else false)
              then true else open_env_b r
  end.

Lemma open_env_b_sound a : open_env_b a = false -> no_open_env a.
Proof.
  induction a as [|c r IH]; intros H u1 u2 E.
  - destruct u1; discriminate.
  - cbn [open_env_b] in H. destruct u1 as [|x u1].
    + cbn [app] in E. injection E as -> ->. change (Byte.eqb dollar dollar) with true in H.
      change (Byte.eqb lbrace lbrace) with true in H. cbv iota in H.
      destruct (existsb (Byte.eqb rbrace) u2) eqn:Ex; [|discriminate].
      apply existsb_exists in Ex as (y & Hy & Hyy). apply byte_eqb_eq in Hyy. subst y. exact Hy.
    + cbn [app] in E. injection E as -> ->.
      destruct (if Byte.eqb x dollar then _ else false); [discriminate|]. exact (IH H u1 u2 eq_refl).
Qed.

Fixpoint lc_tail_b (a : str) : bool :=
  match a with
  | [] => false
  | c :: r => if (if lc_start a then negb (existsb (Byte.eqb nl) a) else false) then true else lc_tail_b r
  end.

Lemma lc_tail_b_sound a : lc_tail_b a = false -> no_lc_tail a.
Proof.
  induction a as [|c r IH]; intros H u1 u2 E Hn.
  - destruct u1, u2; try discriminate. reflexivity.
  - destruct u1 as [|x u1].
    + cbn [app] in E. subst u2. cbn [lc_tail_b] in H.
      destruct (lc_start (c :: r)) eqn:El; [|reflexivity].
      destruct (existsb (Byte.eqb nl) (c :: r)) eqn:Ex.
      * exfalso. apply existsb_exists in Ex as (y & Hy & Hyy). apply byte_eqb_eq in Hyy. subst y. exact (Hn Hy).
      * discriminate.
    + cbn [app] in E. injection E as -> ->. cbn [lc_tail_b] in H.
      destruct (if lc_start (x :: u1 ++ u2) then _ else false); [discriminate|]. exact (IH H u1 u2 eq_refl Hn).
Qed.

Definition isD_last (a : str) : bool := match rev a with d :: _ => isD d | [] => false end.
Lemma isD_last_sound a : isD_last a = true -> ends_D a.
Proof.
  unfold isD_last. destruct (rev a) as [|d r] eqn:E; [discriminate|]. intros H.
  exists (rev r), d. split; [|exact H]. rewrite <- (rev_involutive a), E. reflexivity.
Qed.

Definition sealed_b (a : str) : bool := isD_last a && negb (open_env_b a) && negb (lc_tail_b a).
Lemma sealed_b_sound a : sealed_b a = true -> sealed a.
Proof.
  unfold sealed_b. intros H. apply andb_prop in H as [H H3]. apply andb_prop in H as [H1 H2].
  apply negb_true_iff in H2, H3.
  split; [apply isD_last_sound, H1|]. split; [apply open_env_b_sound, H2|apply lc_tail_b_sound, H3].
Qed.

(* ================================================================== *)
(* 2. classes of residual vectors, lazily evaluated so that the sweeps stay cheap *)

Definition allb (P Q : byte -> bool) : bool := forallb (fun c => if P c then Q c else true) all_bytes.
Lemma allb_elim P Q c : allb P Q = true -> P c = true -> Q c = true.
Proof. intros H Hp. pose proof (sweep _ H c) as Hc. cbv beta in Hc. rewrite Hp in Hc. exact Hc. Qed.

Definition sc_is_initial (c : sc) : bool := match c with INITIAL => true | _ => false end.

(* inside dollar-brace: nothing accepted, every byte but the closing brace keeps the vector *)
Definition envl (V : list re) : bool :=
  match first_nullable V 0 with
  | Some _ => false
  | None => if forallb is_emp V then false else allb notrbrace (fun c => vec_eqb (map (deriv c) V) V)
  end.
Definition envpre (V : list re) : bool := if envl V then false else envl (map (deriv lbrace) V).

(* inside a one-line comment: a qstr rule accepts and some byte extends the match *)
Definition is_qstr (a : action) : bool := match a with A_qstr _ => true | _ => false end.
Definition lcl (V : list re) : bool :=
  match first_nullable V 0 with
  | Some j => match nth_error (active_rules INITIAL) j with
              | Some r => if is_qstr (r_act r) then negb (dead V) else false
              | None => false end
  | None => false end.
Definition slpre (V : list re) : bool := if lcl V then false else lcl (map (deriv slash) V).

(* inside a run of blanks *)
Definition wsl (V : list re) : bool := existsb (vec_eqb V) bl_states.

(* an accepting rule whose action keeps the (exclusive) start condition and continues *)
Definition stays (a : action) : bool := match a with A_qput | A_put_all => true | _ => false end.
Definition contacc (c0 : sc) (V : list re) : bool :=
  match first_nullable V 0 with
  | Some j => match nth_error (active_rules c0) j with Some r => stays (r_act r) | None => false end
  | None => false end.

Definition cls (c0 : sc) (W : list re) : bool :=
  if forallb is_emp W then true else
  if envl W then true else
  if sc_is_initial c0 then (if wsl W then true else if lcl W then true else dead W)
  else (if contacc c0 W then true else dead W).

Definition over_reach (f : sc -> list re -> byte -> bool) : bool :=
  forallb (fun c0 => forallb (fun st => forallb (fun c => f c0 (fst st) c) all_bytes) (reach_sc c0)) all_sc.

Lemma over_reach_elim f : over_reach f = true -> forall c0 V k c, In (V, k) (reach_sc c0) -> f c0 V c = true.
Proof.
  unfold over_reach. intros H c0 V k c Hin. rewrite forallb_forall in H. specialize (H c0 (all_sc_complete c0)).
  rewrite forallb_forall in H. specialize (H (V, k) Hin). exact (sweep _ H c).
Qed.

Lemma class_sweep : over_reach (fun c0 V d => if isD d then cls c0 (map (deriv d) V) else true) = true.
Proof. vm_compute. reflexivity. Qed.
Lemma e1_sweep : over_reach (fun c0 V c => if envl (map (deriv c) V)
    then (if envl V then notrbrace c else if Byte.eqb c lbrace then envpre V else false) else true) = true.
Proof. vm_compute. reflexivity. Qed.
Lemma e2_sweep : over_reach (fun c0 V c => if envpre (map (deriv c) V) then Byte.eqb c dollar else true) = true.
Proof. vm_compute. reflexivity. Qed.
Lemma e0_sweep : forallb (fun c0 => negb (envl (active_res c0)) && negb (envpre (active_res c0))) all_sc = true.
Proof. vm_compute. reflexivity. Qed.
Lemma l1_sweep : over_reach (fun c0 V c => if sc_is_initial c0 then
    (if lcl (map (deriv c) V)
     then (if notnl c then (if lcl V then true else if Byte.eqb c hash then true else if Byte.eqb c slash then slpre V else false) else false)
     else true) else true) = true.
Proof. vm_compute. reflexivity. Qed.
Lemma l2_sweep : over_reach (fun c0 V c => if sc_is_initial c0 then
    (if slpre (map (deriv c) V) then Byte.eqb c slash else true) else true) = true.
Proof. vm_compute. reflexivity. Qed.
Lemma l0_sweep : negb (lcl (active_res INITIAL)) && negb (slpre (active_res INITIAL)) = true.
Proof. vm_compute. reflexivity. Qed.
