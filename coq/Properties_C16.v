(* Properties_C16.v — C16: a context owns a private copy of its schema and shares nothing. *)
From Coq Require Import List Arith NArith ZArith Bool.
From Coq.Strings Require Import Byte.
From LC Require Import Bytes Store Dup TreeProofs.
Import ListNotations.

(* cfg_dupopt_array, written field by field as in confuse.c (name, sub-options recursively, both default
   strings and the comment are copied; scalars and callbacks by value), leaves NO reference into caller
   memory, for every declaration tree of any depth and every caller memory. *)
Theorem C16_no_alias : forall m o, own_o (dup_o m o) = true.
Proof. exact dup_no_alias. Qed.
Print Assumptions C16_no_alias.

(* Hence whatever the caller later does to its memory (overwrite, free: any other memory m2), the
   context reads its declarations the same. *)
Theorem C16_poison_inert : forall o, own_o o = true -> forall m1 m2, view_o m1 o = view_o m2 o.
Proof. exact own_view_independent. Qed.
Print Assumptions C16_poison_inert.

(* And what it reads is what the declarations said at cfg_init time: sub-options and defaults of every
   section instance created later come from this copy. *)
Theorem C16_copy_faithful : forall m o v, view_o m o = Some v -> forall m', view_o m' (dup_o m o) = Some v.
Proof. exact dup_view_faithful. Qed.
Print Assumptions C16_copy_faithful.

(* Frame: an update inside one section instance — values, annotations, callbacks, free-form keys, all
   are updates of that instance's subtree — is invisible in every instance whose position differs,
   e.g. the sibling instance of the same multi section. *)
Theorem C16_siblings_frame :
  forall common c a p b q f,
  a <> b -> get_sec (upd_sec c (common ++ a :: p) f) (common ++ b :: q) = get_sec c (common ++ b :: q).
Proof. exact get_upd_sec_diverge. Qed.
Print Assumptions C16_siblings_frame.

Theorem C16_options_frame :
  forall common c a p b q i j f,
  a <> b -> get_opt (upd_opt c (common ++ a :: p, i) f) (common ++ b :: q, j) = get_opt c (common ++ b :: q, j).
Proof. exact get_opt_upd_opt_diverge. Qed.
Print Assumptions C16_options_frame.

(* non-vacuity: a declaration whose every pointer field lives in caller memory, two levels deep *)
Example C16_example :
  let m := {| cm_str := fun a => Some [Nb (N.of_nat (97 + a))]; cm_arr := fun _ => None |} in
  let inner := DOpt (SCaller 1) KStr 0 ANull 0 0 false (SCaller 2) SNull SNull cbset0 in
  let o := DOpt (SCaller 0) KSec 1 (ASub true [inner]) 0 0 false SNull (SCaller 3) (SCaller 4) cbset0 in
  own_o o = false /\ own_o (dup_o m o) = true /\
  view_o {| cm_str := fun _ => None; cm_arr := fun _ => None |} (dup_o m o) = view_o m o.
Proof. vm_compute. repeat split. Qed.
