Example C16_placeholder : True. Proof. exact I. Qed.
