(* Properties_C11.v — C11: a '|'-separated path denotes what step-by-step navigation reaches.
   Only statements here; proofs are in PathProofs.v.

   MODEL  Store.secidx_loop / getopt_secidx / cfg_getopt, Api.cfg_getsec, Api.with_opt
          (line-by-line transcription of cfg_getopt_secidx's cursor loop)
   SPEC   PathSpec.split_path (grammar) + walk / navigate_opt / navigate_sec (single-level accessors)

   Side condition (defined in PathProofs.v, decidable by counts_okb):
     counts_ok c : every option of every section reachable from c holds at most 4294967295 values.
   nvalues is an unsigned int in C, so every tree the library can build meets it; the model's lists
   are unbounded and it casts the index with to_uint, so without the bound a section option with
   2^32 or more instances would make the model pick instance (j mod 2^32) where select picks j.

   An earlier version of the C code (and model) deviated from the SPEC: an empty step after a
   separator ("m|=x") silently ended a cfg_getsec path, and cfg_getopt could reach options named ""
   or starting with '|' / '='.  Both are repaired; the former counterexamples are Examples below
   and now give None on both sides. *)
From Coq Require String.
From Coq Require Import List Arith NArith ZArith Bool.
From Coq.Strings Require Import Byte.
From LC Require Import Bytes Consts Conv Lexer Files Store Parser Api PathSpec PathProofs.
Import ListNotations.

(* 1. cfg_getopt(path) is navigation: split the path by the grammar, walk the section steps with the
      single-level accessors, look the last name up in the section reached. *)
Theorem C11_getopt_is_navigation :
  forall (c : cfg) (p : str), counts_ok c ->
  rs_opt (getopt_secidx c p false) = navigate_opt c p.
Proof. exact getopt_is_navigation_ok. Qed.
Print Assumptions C11_getopt_is_navigation.

(* 2. cfg_getsec(path) is navigation: every step is a section step (for the empty path both are None). *)
Theorem C11_getsec_is_navigation :
  forall (w : pw) (c : cfg) (p : str), counts_ok c ->
  snd (cfg_getsec w c p) = navigate_sec c p.
Proof. exact getsec_is_navigation_ok. Qed.
Print Assumptions C11_getsec_is_navigation.

(* 3. |p|+1 iterations suffice: more fuel changes nothing (both variants, any tree, no side condition). *)
Theorem C11_terminates :
  forall (c : cfg) (p : str) (wi : bool) (fuel' : nat), S (length p) <= fuel' ->
  rs_opt (secidx_loop fuel' c c [] p wi None (-1)%Z) =
  rs_opt (secidx_loop (S (length p)) c c [] p wi None (-1)%Z).
Proof. exact terminates. Qed.
Print Assumptions C11_terminates.

(* the whole result record, diagnostics and index included *)
Theorem C11_terminates_full :
  forall (c : cfg) (p : str) (wi : bool) (fuel' : nat), S (length p) <= fuel' ->
  secidx_loop fuel' c c [] p wi None (-1)%Z = secidx_loop (S (length p)) c c [] p wi None (-1)%Z.
Proof. exact terminates_full. Qed.
Print Assumptions C11_terminates_full.

(* 4. a by-path setter whose path does not resolve leaves the tree as it was *)
Theorem C11_not_found_changes_nothing :
  forall (w : pw) (c : cfg) (name : str) (f : pw -> optref -> opt -> pw * opt * Z),
  fst (cfg_getopt c name) = None -> snd (fst (with_opt w c name f)) = c.
Proof. exact not_found_changes_nothing. Qed.
Print Assumptions C11_not_found_changes_nothing.

(* 5. a path that is empty, or begins with a stray separator '|' or a stray '=', resolves to nothing,
      on every tree — for the option getter and for the section getter *)
Theorem C11_stray_head_not_found :
  forall (w : pw) (c : cfg) (ch : byte) (p : str), counts_ok c ->
  is_bar_eq ch = true ->
  rs_opt (getopt_secidx c (ch :: p) false) = None /\ snd (cfg_getsec w c (ch :: p)) = None.
Proof. exact stray_head_not_found. Qed.
Print Assumptions C11_stray_head_not_found.

Theorem C11_empty_path_not_found :
  forall (w : pw) (c : cfg), counts_ok c ->
  rs_opt (getopt_secidx c [] false) = None /\ snd (cfg_getsec w c []) = None.
Proof. exact empty_path_not_found. Qed.
Print Assumptions C11_empty_path_not_found.

(* 6. a path that ends with a stray separator '|' resolves to nothing, on every tree, whatever precedes
      the separator (quoted titles with escapes included) — for both getters *)
Theorem C11_stray_tail_not_found :
  forall (w : pw) (c : cfg) (b : byte) (p : str), counts_ok c ->
  is_bar b = true ->
  rs_opt (getopt_secidx c (p ++ [b]) false) = None /\ snd (cfg_getsec w c (p ++ [b])) = None.
Proof. exact stray_tail_not_found. Qed.
Print Assumptions C11_stray_tail_not_found.

(* 7. what one step of the navigation selects: an unqualified step means the FIRST instance; a qualifier
      on a single (non-MULTI) section selects nothing; whatever is selected is an existing instance
      (an index out of range or an unknown title selects nothing) *)
Theorem C11_step_selection :
  forall (o : opt),
  (forall v vs, o_vals o = v :: vs -> select o None = Some 0) /\
  (forall t, oflag o CFGF_MULTI = false -> select o (Some t) = None) /\
  (forall q v, select o q = Some v -> v < length (o_vals o)).
Proof.
  intro o. split; [exact (select_first o) | split; [exact (select_single_qualified o) | exact (select_in_range o)]].
Qed.
Print Assumptions C11_step_selection.

Example C11_stray_heads : is_bar_eq x7c = true /\ is_bar_eq x3d = true /\ is_bar_eq x61 = false /\ is_bar x7c = true.
Proof. vm_compute. repeat split. Qed.

(* the side condition is decidable on a concrete tree *)
Theorem C11_counts_checkable :
  forall c : cfg, counts_okb c = true -> counts_ok c.
Proof. exact counts_okb_sound. Qed.
Print Assumptions C11_counts_checkable.

(* ---------------------------------------------------------------------------------------------
   Examples on the PathTest tree *)
Module Ex.
Import String.StringSyntax.
Local Open Scope string_scope.
Local Open Scope list_scope.
Definition B := bs_of_string.
Definition mk n k fl sub := Opt (B n) k fl [] sub defv0 None cbset0.
Definition decls := [ mk "x" KInt 0%N []; mk "s" KSec 0%N [mk "a" KInt 0%N []];
  mk "m" KSec 1%N [mk "a" KInt 0%N []; mk "n" KSec 9%N [mk "z" KInt 0%N []]];
  mk "t" KSec 9%N [mk "a" KInt 0%N []] ].
Definition sd (s : str) : strtod_res := {| sd_bits := 0; sd_consumed := 0; sd_erange := false |}.
Definition w0 : pw := {| w_lex := lex_init; w_env := []; w_fs := {| fs_root := B "/R"; fs_ents := [] |};
  w_pw := {| pw_tab := []; pw_self := None |}; w_path := []; w_cbs := []; w_cnt := 0; w_failat := 0; w_nextptr := 1;
  w_diags := []; w_open := 0; w_crash := None; w_oof := false |}.
Definition c0 := snd (cfg_init sd 1000 w0 decls 0).
Definition txt := B "m { a = 1 n u { z = 1 } n 'v|w' { z = 2 } } m { a = 2 } t one { a = 5 } t 'tw''o' { a = 6 } t ""q'r"" {a=7}".
Definition c1 := snd (fst (parse_buf sd 5000 w0 c0 (Some txt))).
Definition paths := map B ["x"; "s|a"; "m|a"; "m=1|a"; "m=0|n=u|z"; "m=0|n='v|w'|z"; "m=0|n=v|w|z"; "t=one|a"; "t='q\'r'|a"; "t=one"; "t=one|";
  "|x"; "x|"; "s=0|a"; "m=2|a"; "m=-1|a"; "m=4294967296|a"; "m= 1|a"; "m=+1|a"; "m=0x1|a"; "m||a"; "m=|a"; "m=1"; "t='one'a"; "t='one'|a"; "t='one|a"; "="; "m=0|n"; "t"; "t=zzz|a"; "m=1|n=u|z"; "s|a|b"; ""; "m=01|a"; "t=one=x|a";
  "m=0|n=u"; "m=1|n"; "t=one|a|"; "m|n=u|z"; "m=0||n=u|z"; "t='one'"; "t=''"; "t='"; "t='\'"; "m=1x|a"; "s=x|a"; "x=1"; "m=00|a"; "m=0|a=1";
  "m"; "s"; "x"; "m||n=u"; "m|n='v|w'"; "m|n=u|"; "=x"; "|m"; "m=0|n=u=3"; "m='0'|n='u'"; "m=0|n='u'x"; "m|n=u||"; "t='q\'r'"; "t=q'r"; "s|"; "s="; "m=-0"; "m= 0";
  "m=4294967297"; "m=-4294967295"; "m=18446744073709551616"; "m=0x"; "m=1|"; "m|n|z"].
Definition stray := map B ["m|=x"; "m|="; "m=0|=x"; "m=0|n=u||=|"].

(* the sample tree meets the side condition, so statements 1 and 2 apply to it *)
Example C11_sample_tree_ok : counts_okb c1 = true /\ c_opts c1 <> [].
Proof. vm_compute. split; [reflexivity|discriminate]. Qed.

(* some resolved paths, both variants *)
Example C11_sample_results :
  map (fun p => rs_opt (getopt_secidx c1 (B p) false)) ["x"; "s|a"; "m=1|a"; "m=0|n='v|w'|z"; "t=one|a"; "m=0|n"; "m=0x1|a"; "m=1"]
  = [Some ([], 0); Some ([(1, 0)], 0); Some ([(2, 1)], 0); Some ([(2, 0); (1, 1)], 0); Some ([(3, 0)], 0);
     Some ([(2, 0)], 1); Some ([(2, 1)], 0); None] /\
  map (fun p => snd (cfg_getsec w0 c1 (B p))) ["m"; "m=1"; "s"; "m|n=u"; "m=0|n='v|w'"; "t='one'"; "x"; "m=2"; "m|n=u|"]
  = [Some [(2, 0)]; Some [(2, 1)]; Some [(1, 0)]; Some [(2, 0); (1, 0)]; Some [(2, 0); (1, 1)]; Some [(3, 0)]; None; None; None].
Proof. vm_compute. split; reflexivity. Qed.

(* model = SPEC on 77 sample paths, both variants *)
Example C11_sample_paths_opt :
  map (fun p => rs_opt (getopt_secidx c1 p false)) (paths ++ stray) = map (navigate_opt c1) (paths ++ stray).
Proof. vm_compute. reflexivity. Qed.

Example C11_sample_paths_sec :
  map (fun p => snd (cfg_getsec w0 c1 p)) (paths ++ stray) = map (navigate_sec c1) (paths ++ stray).
Proof. vm_compute. reflexivity. Qed.

(* FORMER COUNTEREXAMPLE (section variant): a stray "=..." step after a separator used to be ignored
   and the section reached so far returned; now not found, as the grammar says *)
Example C11_getsec_stray_step :
  map (fun p => snd (cfg_getsec w0 c1 p)) stray = [None; None; None; None] /\
  map (navigate_sec c1) stray = [None; None; None; None] /\
  map split_path stray = [None; None; None; None].
Proof. vm_compute. repeat split; reflexivity. Qed.

(* FORMER COUNTEREXAMPLES (option variant): options with odd names used to be reachable by paths the
   grammar rejects; now not found, while options with ordinary names next to them still are *)
Definition mkc opts := Cfg [] None 0%N opts None 0%N false None.
Definition ca := mkc [mk "=x" KInt 0%N []; mk "y" KInt 0%N []].
Definition cbar := mkc [mk "|y" KInt 0%N []; mk "y" KInt 0%N []].
Definition cb := mkc [Opt (B "m") KSec 1%N [VSec (Some (mkc [mk "" KInt 0%N []; mk "y" KInt 0%N []]))] [] defv0 None cbset0].

Example C11_getopt_odd_name_eq :
  rs_opt (getopt_secidx ca (B "=x") false) = None /\ navigate_opt ca (B "=x") = None /\
  rs_opt (getopt_secidx ca (B "y") false) = Some ([], 1) /\ counts_okb ca = true.
Proof. vm_compute. repeat split; reflexivity. Qed.

Example C11_getopt_odd_name_bar :
  rs_opt (getopt_secidx cbar (B "|y") false) = None /\ navigate_opt cbar (B "|y") = None /\
  rs_opt (getopt_secidx cbar (B "y") false) = Some ([], 1) /\ counts_okb cbar = true.
Proof. vm_compute. repeat split; reflexivity. Qed.

Example C11_getopt_odd_name_empty :
  rs_opt (getopt_secidx cb (B "m=0") false) = None /\ navigate_opt cb (B "m=0") = None /\
  rs_opt (getopt_secidx cb (B "m=0|y") false) = Some ([(0, 0)], 1) /\ counts_okb cb = true.
Proof. vm_compute. repeat split; reflexivity. Qed.

(* the fuel the resolver is given is never exhausted: ten times as much gives the same record *)
Example C11_fuel_example :
  map (fun p => secidx_loop (10 * S (length p)) c1 c1 [] p true None (-1)%Z) (paths ++ stray)
  = map (fun p => secidx_loop (S (length p)) c1 c1 [] p true None (-1)%Z) (paths ++ stray).
Proof. vm_compute. reflexivity. Qed.

(* a setter through a path that does not resolve: tree unchanged, CFG_FAIL *)
Example C11_not_found_example :
  let r := cfg_setnint w0 c1 (B "m=7|a") 5 0 in snd (fst r) = c1 /\ snd r = CFG_FAIL.
Proof. vm_compute. split; reflexivity. Qed.
End Ex.
