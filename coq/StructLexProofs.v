(* StructLexProofs.v — C05, structural round trip, lexical layer: the token list of the text cfg_print
   writes for list lines and section blocks (any indentation).  Pieces are composed with `Lexes`:
   a printed piece, scanned after at most one pending newline, yields exactly its tokens and leaves at
   most one newline pending. *)
From Coq Require String.
Import String.StringSyntax.
From Coq Require Import List Arith NArith ZArith Bool Lia.
From Coq.Strings Require Import Byte.
From LC Require Import Bytes Consts Conv Flex LexAct LexRules Lexer LexLemmas DqProofs LexAll Files Store Parser Print
                       Grammar PrintProofs RoundProofs NumRoundProofs PP_LexYields FlatRoundProofs.
Import ListNotations.
Local Open Scope string_scope.
Local Open Scope list_scope.

(* ================================================================== *)
(* A. white space in front of a token                                   *)
(* ================================================================== *)
Definition spaces (n : nat) : str := repeat x20 n.

Lemma spaces_app a b : spaces a ++ spaces b = spaces (a + b).
Proof. unfold spaces. rewrite repeat_app. reflexivity. Qed.

Lemma indent_spaces d : indent_str d = spaces (2 * d).
Proof.
  unfold indent_str, spaces. induction d as [|d IH]; [reflexivity|].
  cbn [repeat concat]. rewrite IH. replace (2 * S d)%nat with (S (S (2 * d))) by lia. reflexivity.
Qed.

Lemma spaces_length n : length (spaces n) = n.
Proof. apply repeat_length. Qed.

(* not a blank: what may follow a run of blanks *)
Definition nsp (c : byte) : bool := negb (Byte.eqb c x20) && negb (Byte.eqb c x09).

Lemma measure_bufs st id t others :
  l_bufs st = (id, t) :: others ->
  measure st = (S (length t) + fold_left (fun acc (b : nat * list byte) => acc + S (length (snd b))) others 0)%nat.
Proof. intros H. unfold measure. rewrite H. cbn [fold_left snd]. rewrite fold_measure_shift. lia. Qed.

(* one scanning step that does not return, restated at the canonical fuel *)
Lemma yylex_cont_step e st p id u rest others j r s2 p2 :
  lexinv st id (u ++ rest) others -> u <> [] ->
  munch (active_res INITIAL) (u ++ rest) 0 None = Some (j, length u) -> nth_error (active_rules INITIAL) j = Some r ->
  run_action e (r_act r) u (set_bufs st ((id, rest) :: others)) p = Continue s2 p2 ->
  l_bufs s2 = (id, rest) :: others ->
  yylex e (lex_fuel st) st p 0 = yylex e (lex_fuel s2) s2 p2 0.
Proof.
  intros (Hsc & Hb & _ & _) Hu Hm Hn Ha Hb2.
  rewrite lex_fuel_measure.
  rewrite (yylex_step INITIAL e (measure st) st p 0 id u rest others j r Hsc Hb Hm Hn). rewrite Ha.
  apply yylex_enough_fuel.
  rewrite (measure_bufs st id _ others Hb), (measure_bufs s2 id _ others Hb2), app_length.
  destruct u; [contradiction|cbn [length]; lia].
Qed.

Lemma yylex_ret_step e st p id u rest others j r t v s2 p2 :
  lexinv st id (u ++ rest) others ->
  munch (active_res INITIAL) (u ++ rest) 0 None = Some (j, length u) -> nth_error (active_rules INITIAL) j = Some r ->
  run_action e (r_act r) u (set_bufs st ((id, rest) :: others)) p = Return t v s2 p2 [] ->
  yylex e (lex_fuel st) st p 0 = tokres t v s2 p2.
Proof.
  intros (Hsc & Hb & _ & _) Hm Hn Ha.
  rewrite lex_fuel_measure.
  rewrite (yylex_step INITIAL e (measure st) st p 0 id u rest others j r Hsc Hb Hm Hn). rewrite Ha. reflexivity.
Qed.

(* the rule table on a run of spaces *)
Definition sp_ok (R : list re) (A : list rule) : bool :=
  let V1 := map (deriv x20) R in
  let V2 := map (deriv x20) V1 in
  match first_nullable V1 0, first_nullable V2 0 with
  | Some i, Some j => Nat.eqb i j && match nth_error A i with Some r => action_eqb (r_act r) A_skip | None => false end
  | _, _ => false
  end &&
  negb (forallb is_emp V1) && negb (forallb is_emp V2) && vec_eqb (map (deriv x20) V2) V2 &&
  forallb (fun c => implb (nsp c) (dies_on V1 c && dies_on V2 c)) all_bytes.

Lemma sp_ok_true : sp_ok (active_res INITIAL) (active_rules INITIAL) = true.
Proof. vm_compute. reflexivity. Qed.

Lemma space_munch_gen R A : sp_ok R A = true ->
  forall n rest, follows nsp rest ->
  exists j r, munch R (spaces (S n) ++ rest) 0 None = Some (j, S n) /\ nth_error A j = Some r /\ r_act r = A_skip.
Proof.
  unfold sp_ok. set (V1 := map (deriv x20) R). set (V2 := map (deriv x20) V1). intros H n rest Hf.
  apply andb_prop in H as [H S3]. apply andb_prop in H as [H S2]. apply andb_prop in H as [H N2]. apply andb_prop in H as [H N1].
  apply negb_true_iff in N1, N2. apply vec_eqb_eq in S2.
  destruct (first_nullable V1 0) as [i|] eqn:F1; [|discriminate].
  destruct (first_nullable V2 0) as [j|] eqn:F2; [|discriminate].
  apply andb_prop in H as [Hij H]. apply Nat.eqb_eq in Hij. subst j.
  destruct (nth_error A i) as [r|] eqn:Hr; [|discriminate]. apply action_eqb_eq in H.
  exists i, r. split; [|split; assumption].
  unfold spaces. cbn [repeat app]. rewrite munch_cons_alive by (fold V1; exact N1). fold V1. rewrite F1.
  destruct n as [|n].
  - cbn [repeat app]. destruct rest as [|x rest]; [reflexivity|].
    apply munch_dies. pose proof (sweep_impl _ _ S3 x Hf) as Hx. apply andb_prop in Hx as [Hx _]. exact Hx.
  - cbn [repeat app]. rewrite munch_cons_alive by (fold V2; exact N2). fold V2. rewrite F2.
    rewrite (munch_loop_follow V2 (fun c => Byte.eqb c x20) nsp i F2 N2).
    + rewrite repeat_length. reflexivity.
    + intros c Hc. apply byte_eqb_eq in Hc. subst c. exact S2.
    + intros c Hc. pose proof (sweep_impl _ _ S3 c Hc) as Hx. apply andb_prop in Hx as [_ Hx]. exact Hx.
    + apply Forall_forall. intros c Hc. apply repeat_spec in Hc. subst c. reflexivity.
    + exact Hf.
Qed.

Lemma space_munch n rest : follows nsp rest ->
  exists j r, munch (active_res INITIAL) (spaces (S n) ++ rest) 0 None = Some (j, S n)
              /\ nth_error (active_rules INITIAL) j = Some r /\ r_act r = A_skip.
Proof. apply space_munch_gen. exact sp_ok_true. Qed.

Lemma skip_sp e n text st id others p :
  lexinv st id (spaces n ++ text) others -> follows nsp text ->
  exists st1, lexinv st1 id text others /\ yylex e (lex_fuel st) st p 0 = yylex e (lex_fuel st1) st1 p 0.
Proof.
  intros H Hf. destruct n as [|n].
  - exists st. split; [exact H|reflexivity].
  - destruct (space_munch n text Hf) as (j & r & Hm & Hn & Ha).
    exists (set_bufs st ((id, text) :: others)). split; [eapply lexinv_set_bufs; exact H|].
    apply (yylex_cont_step e st p id (spaces (S n)) text others j r); try assumption.
    + discriminate.
    + rewrite spaces_length. exact Hm.
    + rewrite Ha. reflexivity.
    + reflexivity.
Qed.

Lemma skip_nl e text st id others p :
  lexinv st id (x0a :: text) others ->
  exists st1, lexinv st1 id text others /\ yylex e (lex_fuel st) st p 0 = yylex e (lex_fuel st1) st1 (line_incr p) 0.
Proof.
  intros H.
  destruct (unit_ok_munch INITIAL [x0a] _ any text nl_ok_initial (follows_any text)) as (j & r & Hm & Hn & Ha).
  exists (set_bufs st ((id, text) :: others)). split; [eapply lexinv_set_bufs; exact H|].
  apply (yylex_cont_step e st p id [x0a] text others j r); try assumption.
  - discriminate.
  - rewrite Ha. reflexivity.
  - reflexivity.
Qed.

(* at most one newline, then any number of spaces *)
Lemma skip_ws e pre n text st id others p :
  pre_ok pre -> lexinv st id (pre ++ spaces n ++ text) others -> follows nsp text ->
  exists st1 p1, lexinv st1 id text others /\ yylex e (lex_fuel st) st p 0 = yylex e (lex_fuel st1) st1 p1 0.
Proof.
  intros [->| ->] H Hf; cbn [app] in H.
  - destruct (skip_sp e n text st id others p H Hf) as (st1 & L1 & E1). exists st1, p. split; assumption.
  - destruct (skip_nl e _ st id others p H) as (st1 & L1 & E1).
    destruct (skip_sp e n text st1 id others (line_incr p) L1 Hf) as (st2 & L2 & E2).
    exists st2, (line_incr p). split; [exact L2|]. rewrite E1. exact E2.
Qed.

(* ================================================================== *)
(* B. token sequences of lex_all                                         *)
(* ================================================================== *)
Definition LX (e : envt) (st : lexst) (p : pos) (toks : list ltok) (st' : lexst) (p' : pos) : Prop :=
  forall f acc dacc, lex_all e (length toks + f) st p acc dacc = lex_all e f st' p' (rev toks ++ acc) dacc.

Lemma LX_nil e st p : LX e st p [] st p.
Proof. intros f acc dacc. reflexivity. Qed.

Lemma LX_app e a pa t1 b pb t2 c pc : LX e a pa t1 b pb -> LX e b pb t2 c pc -> LX e a pa (t1 ++ t2) c pc.
Proof.
  intros H1 H2 f acc dacc. rewrite app_length, <- Nat.add_assoc, H1, H2, rev_app_distr, <- app_assoc. reflexivity.
Qed.

Definition real_tok (t : tok) : Prop := match t with TStr | TPunct _ => True | _ => False end.

Lemma LX_one e st p t v st1 p1 :
  yylex e (lex_fuel st) st p 0 = tokres t v st1 p1 -> real_tok t ->
  LX e st p [ {| lt_tok := t; lt_val := v; lt_line := p_line p1 |} ] st1 p1.
Proof.
  intros Y Ht f acc dacc. cbn [length Nat.add rev app].
  rewrite PP_LexYields.lex_all_S, Y. cbn [tokres r_tok r_val r_st r_pos r_diags]. rewrite app_nil_r.
  destruct t; try contradiction; reflexivity.
Qed.

Lemma gtoks_app a b : gtoks (a ++ b) = gtoks a ++ gtoks b.
Proof. unfold gtoks. apply flat_map_app. Qed.

Lemma gtoks_one tk g : gtok_of tk = Some g -> gtoks [tk] = [g].
Proof. intros H. unfold gtoks. cbn [flat_map]. rewrite H. reflexivity. Qed.

(* the scanned tokens are exactly gs: no comment token, no other token in between *)
Definition TK (toks : list ltok) (gs : list gtok) : Prop := map gtok_of toks = map Some gs.

Lemma TK_nil : TK [] []. Proof. reflexivity. Qed.
Lemma TK_cons tk g toks gs : gtok_of tk = Some g -> TK toks gs -> TK (tk :: toks) (g :: gs).
Proof. unfold TK. intros H1 H2. cbn [map]. rewrite H1, H2. reflexivity. Qed.
Lemma TK_app a ga b gb : TK a ga -> TK b gb -> TK (a ++ b) (ga ++ gb).
Proof. unfold TK. intros H1 H2. rewrite !map_app, H1, H2. reflexivity. Qed.
Lemma TK_one tk g : gtok_of tk = Some g -> TK [tk] [g].
Proof. intros H. apply TK_cons; [exact H|apply TK_nil]. Qed.
Lemma TK_gtoks toks : forall gs, TK toks gs -> gtoks toks = gs.
Proof.
  unfold TK. induction toks as [|t toks IH]; intros [|g gs] H; cbn [map] in H; try discriminate; [reflexivity|].
  injection H as H1 H2. unfold gtoks. cbn [flat_map]. rewrite H1. cbn [app]. f_equal. apply IH, H2.
Qed.
Lemma TK_length toks gs : TK toks gs -> length toks = length gs.
Proof. unfold TK. intros H. rewrite <- (map_length gtok_of toks), H, map_length. reflexivity. Qed.

(* one token after optional white space *)
Definition one_tok (e : envt) (st : lexst) (p : pos) (id : nat) (rest : str) (others : list (nat * list byte)) (g : gtok) : Prop :=
  exists st1 p1 tk, LX e st p [tk] st1 p1 /\ gtok_of tk = Some g /\ lexinv st1 id rest others.

Lemma nsp_word_sweep : forallb (fun c => implb (word_start c) (nsp c)) all_bytes = true.
Proof. vm_compute. reflexivity. Qed.

Lemma lx_word e st p id pre n c run rest others :
  pre_ok pre -> lexinv st id (pre ++ spaces n ++ (c :: run) ++ rest) others ->
  word_start c = true -> Forall (fun b => word_mid b = true) run -> follows word_delim rest -> no_nul (c :: run) ->
  one_tok e st p id rest others (GS (c :: run)).
Proof.
  intros Hpre H Hc Hrun Hf Hnul.
  destruct (skip_ws e pre n _ st id others p Hpre H (sweep_impl _ _ nsp_word_sweep c Hc)) as (st1 & p1 & L1 & E1).
  pose proof L1 as (Hsc & Hb & _ & _).
  pose proof (word_token e c run st1 p1 0 id rest others (measure st1) Hc Hrun Hf Hsc Hb) as Y.
  rewrite (cstr_no_nul _ Hnul) in Y. change (S (measure st1)) with (lex_fuel st1) in Y. rewrite <- E1 in Y.
  eexists _, p1, _. split; [apply (LX_one e st p TStr _ _ p1 Y I)|]. split; [reflexivity|].
  eapply lexinv_set_bufs. exact L1.
Qed.

Lemma lx_punct e st p id pre n b code rest others :
  unit_ok INITIAL [b] (A_punct code) any = true -> nsp b = true ->
  pre_ok pre -> lexinv st id (pre ++ spaces n ++ b :: rest) others ->
  one_tok e st p id rest others (GP code).
Proof.
  intros Hu Hb Hpre H.
  destruct (skip_ws e pre n _ st id others p Hpre H Hb) as (st1 & p1 & L1 & E1).
  destruct (unit_ok_munch INITIAL [b] _ any rest Hu (follows_any rest)) as (j & r & Hm & Hn & Ha).
  pose proof (yylex_ret_step e st1 p1 id [b] rest others j r (TPunct code) (Some (cstr [b]))
                (set_bufs st1 ((id, rest) :: others)) p1 L1 Hm Hn) as Y.
  rewrite Ha in Y. specialize (Y eq_refl). rewrite <- E1 in Y.
  eexists _, p1, _. split; [apply (LX_one e st p (TPunct code) _ _ p1 Y I)|]. split; [reflexivity|].
  eapply lexinv_set_bufs. exact L1.
Qed.

Lemma punct_ok_eq : unit_ok INITIAL [x3d] (A_punct 61) any = true. Proof. vm_compute. reflexivity. Qed.
Lemma punct_ok_lb : unit_ok INITIAL [x7b] (A_punct 123) any = true. Proof. vm_compute. reflexivity. Qed.
Lemma punct_ok_rb : unit_ok INITIAL [x7d] (A_punct 125) any = true. Proof. vm_compute. reflexivity. Qed.
Lemma punct_ok_comma : unit_ok INITIAL [x2c] (A_punct 44) any = true. Proof. vm_compute. reflexivity. Qed.

Lemma lx_quoted e st p id pre n s rest others :
  no_nul s -> pre_ok pre -> lexinv st id (pre ++ spaces n ++ quoted (Some s) ++ rest) others ->
  one_tok e st p id rest others (GS s).
Proof.
  intros Hs Hpre H.
  assert (follows nsp (quoted (Some s) ++ rest)) as Hf by reflexivity.
  destruct (skip_ws e pre n _ st id others p Hpre H Hf) as (st1 & p1 & L1 & E1).
  destruct (yylex_quoted e st1 p1 id s rest others (lex_fuel st1 + S (S (length s))) L1 Hs ltac:(lia)) as (st2 & L2 & Y).
  rewrite yylex_enough_fuel in Y by (rewrite lex_fuel_measure; lia). rewrite <- E1 in Y.
  eexists st2, _, _. split; [apply (LX_one e st p TStr _ _ _ Y I)|]. split; [reflexivity|exact L2].
Qed.

(* ================================================================== *)
(* C. printed values                                                    *)
(* ================================================================== *)
Section Oracles.
Variable fmt_f : N -> str.
Variable strtod_o : str -> strtod_res.

Notation val_ok := (val_ok fmt_f strtod_o).
Notation vtext := (vtext fmt_f).

(* the token value the printed value scans as *)
Definition vtokval (v : value) : str :=
  match v with
  | VInt z => print_Z z
  | VBool b => print_bool b
  | VStr (Some s) => s
  | VFloat x => fmt_f x
  | _ => []
  end.

Lemma print_Z_simple z : simple_word (print_Z z).
Proof.
  destruct (print_Z_nonempty z) as (c & run & E). pose proof (print_Z_numeric z) as H. rewrite E in *.
  inversion H as [|? ? Hc Hrun]; subst. exists c, run. split; [reflexivity|].
  split; [apply (numeric_word c Hc)|]. split.
  - eapply Forall_impl; [|exact Hrun]. intros a Ha. apply (numeric_word a Ha).
  - eapply Forall_impl; [|exact H]. intros a Ha. apply (numeric_word a Ha).
Qed.

Lemma print_bool_simple b : simple_word (print_bool b).
Proof.
  destruct b.
  - exists x74, [x72; x75; x65]. split; [reflexivity|]. split; [reflexivity|].
    split; repeat constructor; discriminate.
  - exists x66, [x61; x6c; x73; x65]. split; [reflexivity|]. split; [reflexivity|].
    split; repeat constructor; discriminate.
Qed.

Lemma lx_value e st p id pre n k v rest others :
  val_ok k v -> pre_ok pre -> lexinv st id (pre ++ spaces n ++ vtext v ++ rest) others -> follows word_delim rest ->
  one_tok e st p id rest others (GS (vtokval v)).
Proof.
  intros Hv Hpre H Hf.
  assert (forall t, simple_word t -> lexinv st id (pre ++ spaces n ++ t ++ rest) others -> one_tok e st p id rest others (GS t)) as W.
  { intros t (c & run & -> & Hc & Hrun & Hnul) H'. apply (lx_word e st p id pre n c run rest others); assumption. }
  destruct k; try contradiction; destruct v as [z|bits|b|[s|]| |]; try contradiction; cbn [FlatRoundProofs.val_ok FlatRoundProofs.vtext vtokval] in *.
  - apply W; [apply print_Z_simple|exact H].
  - apply W; [exact (proj1 Hv)|exact H].
  - apply (lx_quoted e st p id pre n s rest others Hv Hpre H).
  - apply W; [apply print_bool_simple|exact H].
Qed.

Lemma conv_value_vtokval k v : val_ok k v -> conv_value strtod_o k (vtokval v) = Some v.
Proof.
  intros Hv. destruct k; try contradiction; destruct v as [z|bits|b|[s|]| |]; try contradiction;
    cbn [FlatRoundProofs.val_ok vtokval conv_value] in *.
  - rewrite (conv_int_print_Z z Hv). reflexivity.
  - destruct Hv as ((c0 & run & Ew & _) & Hsd).
    rewrite (conv_float_print_modulo_libc fmt_f strtod_o bits bits); [reflexivity|rewrite Ew; discriminate|exact Hsd].
  - reflexivity.
  - rewrite conv_bool_print. reflexivity.
Qed.

(* ================================================================== *)
(* D. printed pieces                                                    *)
(* ================================================================== *)
(* a printed piece scanned after at most one pending newline gives exactly the tokens gs and leaves at most
   one newline pending *)
Definition Lexes (e : envt) (text : str) (gs : list gtok) : Prop :=
  forall st id pre rest others p, pre_ok pre -> lexinv st id (pre ++ text ++ rest) others ->
  exists toks st' p' pre', pre_ok pre' /\ LX e st p toks st' p' /\ TK toks gs /\ (length toks <= length text)%nat /\
                           lexinv st' id (pre' ++ rest) others.

Lemma Lexes_nil e : Lexes e [] [].
Proof.
  intros st id pre rest others p Hpre H. exists [], st, p, pre. split; [exact Hpre|]. split; [apply LX_nil|].
  split; [apply TK_nil|]. split; [apply Nat.le_refl|exact H].
Qed.

Lemma Lexes_app e t1 g1 t2 g2 : Lexes e t1 g1 -> Lexes e t2 g2 -> Lexes e (t1 ++ t2) (g1 ++ g2).
Proof.
  intros H1 H2 st id pre rest others p Hpre H. rewrite <- app_assoc in H.
  destruct (H1 st id pre (t2 ++ rest) others p Hpre H) as (k1 & st1 & p1 & pre1 & Hp1 & X1 & G1 & N1 & L1).
  destruct (H2 st1 id pre1 rest others p1 Hp1 L1) as (k2 & st2 & p2 & pre2 & Hp2 & X2 & G2 & N2 & L2).
  exists (k1 ++ k2), st2, p2, pre2. split; [exact Hp2|]. split; [eapply LX_app; eassumption|].
  split; [apply TK_app; assumption|]. split; [rewrite !app_length; lia|exact L2].
Qed.

Lemma Lexes_concat e (A : Type) (F : A -> str) (G : A -> list gtok) (l : list A) :
  Forall (fun x => Lexes e (F x) (G x)) l -> Lexes e (concat (map F l)) (flat_map G l).
Proof.
  induction 1 as [|x l Hx _ IH]; cbn [map concat flat_map]; [apply Lexes_nil|]. apply Lexes_app; assumption.
Qed.

Ltac lx_chain := repeat (eapply LX_app; [eassumption|]); eassumption.

Tactic Notation "one_tok" constr(H) "as" ident(st1) ident(p1) ident(tk) ident(X) ident(G) ident(L) :=
  destruct H as (st1 & p1 & tk & X & G & L).

Lemma name_ok_parts name : name_ok name ->
  exists c run, name = c :: run /\ word_start c = true /\ Forall (fun b => word_mid b = true) run /\ no_nul (c :: run).
Proof. intros (c & run & -> & Hc & Hrun & Hnul & _). exists c, run. repeat split; assumption. Qed.

(* NAME=VALUE\n *)
Lemma lexes_scalar_line e d name k v :
  name_ok name -> val_ok k v ->
  Lexes e (indent_str d ++ name ++ x3d :: vtext v ++ [x0a]) [GS name; GP 61; GS (vtokval v)].
Proof.
  intros Hn Hv st id pre rest others p Hpre H.
  destruct (name_ok_parts name Hn) as (c & run & -> & Hc & Hrun & Hnul).
  rewrite indent_spaces in H. rewrite <- !app_assoc in H. cbn [app] in H. rewrite <- app_assoc in H. cbn [app] in H.
  one_tok (lx_word e st p id pre (2 * d) c run _ others Hpre H Hc Hrun eq_refl Hnul) as sa pa ta Xa Ga La.
  one_tok (lx_punct e sa pa id [] 0 x3d 61 _ others punct_ok_eq eq_refl (or_introl eq_refl) La) as sb pb tb Xb Gb Lb.
  one_tok (lx_value e sb pb id [] 0 k v (x0a :: rest) others Hv (or_introl eq_refl) Lb eq_refl) as sc pc tc Xc Gc Lc.
  exists ([ta] ++ [tb] ++ [tc]), sc, pc, [x0a]. split; [right; reflexivity|].
  split; [lx_chain|].
  split; [cbn [app]; repeat (apply TK_cons; [assumption|]); apply TK_nil|].
  split; [rewrite !app_length; cbn [length]; rewrite !app_length; cbn [length]; lia|exact Lc].
Qed.

(* the values of a list after the first one, the closing brace *)
Definition list_tail_text (vs : list value) : str := concat (map (fun v => M ", " ++ vtext v) vs) ++ [x7d].
Definition list_tail_toks (vs : list value) : list gtok := flat_map (fun v => [GP 44; GS (vtokval v)]) vs ++ [GP 125].

Lemma list_tail_delim vs rest : follows word_delim (list_tail_text vs ++ rest).
Proof. destruct vs; reflexivity. Qed.

Lemma list_tail_text_cons v vs rest :
  list_tail_text (v :: vs) ++ rest = x2c :: x20 :: vtext v ++ list_tail_text vs ++ rest.
Proof. unfold list_tail_text. cbn [map concat]. rewrite <- !app_assoc. reflexivity. Qed.

Lemma lexes_list_tail e k : forall vs st id rest others p,
  Forall (val_ok k) vs -> lexinv st id (list_tail_text vs ++ rest) others ->
  exists toks st' p', LX e st p toks st' p' /\ TK toks (list_tail_toks vs) /\ length toks = (2 * length vs + 1)%nat /\
                      lexinv st' id rest others.
Proof.
  induction vs as [|v vs IH]; intros st id rest others p Hvs H.
  - unfold list_tail_text in H. cbn [map concat app] in H.
    one_tok (lx_punct e st p id [] 0 x7d 125 _ others punct_ok_rb eq_refl (or_introl eq_refl) H) as sa pa ta Xa Ga La.
    exists [ta], sa, pa. split; [exact Xa|]. split; [apply TK_one; exact Ga|]. split; [reflexivity|exact La].
  - inversion Hvs as [|? ? Hv Hvs']; subst.
    rewrite list_tail_text_cons in H.
    one_tok (lx_punct e st p id [] 0 x2c 44 _ others punct_ok_comma eq_refl (or_introl eq_refl) H) as sa pa ta Xa Ga La.
    change (x20 :: ?x) with ([] ++ spaces 1 ++ x) in La.
    one_tok (lx_value e sa pa id [] 1 k v _ others Hv (or_introl eq_refl) La (list_tail_delim vs rest)) as sb pb tb Xb Gb Lb.
    destruct (IH sb id rest others pb Hvs' Lb) as (toks & st' & p' & X' & G' & N' & L').
    exists ([ta] ++ [tb] ++ toks), st', p'.
    split; [lx_chain|].
    split.
    + cbn [app]. unfold list_tail_toks. cbn [flat_map app]. apply TK_cons; [exact Ga|]. apply TK_cons; [exact Gb|]. exact G'.
    + split; [rewrite !app_length; cbn [length]; rewrite N'; lia|exact L'].
Qed.

Lemma list_tail_text_length vs : (2 * length vs + 1 <= length (list_tail_text vs))%nat.
Proof.
  unfold list_tail_text. rewrite app_length. cbn [length].
  induction vs as [|v vs IH]; cbn [map concat length]; [lia|]. rewrite !app_length.
  change (length (M ", ")) with 2%nat. cbn [length] in *. lia.
Qed.

Lemma sep_by_cons sep x r : sep_by sep (x :: r) = x ++ concat (map (fun y => sep ++ y) r).
Proof.
  revert x. induction r as [|y r IH]; intros x; [cbn [sep_by map concat]; rewrite app_nil_r; reflexivity|].
  change (sep_by sep (x :: y :: r)) with (x ++ sep ++ sep_by sep (y :: r)).
  rewrite IH. cbn [map concat]. rewrite <- app_assoc. reflexivity.
Qed.

(* the text between the braces of a list line *)
Definition list_body_text (vs : list value) : str := sep_by (M ", ") (map vtext vs) ++ [x7d].
Definition list_body_toks (vs : list value) : list gtok :=
  match vs with [] => [GP 125] | v :: r => GS (vtokval v) :: list_tail_toks r end.

Lemma list_body_text_cons v r : list_body_text (v :: r) = vtext v ++ list_tail_text r.
Proof.
  unfold list_body_text, list_tail_text. cbn [map]. rewrite sep_by_cons, map_map, <- app_assoc. reflexivity.
Qed.

(* NAME = {V, V, ...}\n *)
Definition list_line_text (d : nat) (name : str) (vs : list value) : str :=
  indent_str d ++ name ++ M " = {" ++ list_body_text vs ++ [x0a].
Definition list_line_toks (name : str) (vs : list value) : list gtok :=
  GS name :: GP 61 :: GP 123 :: list_body_toks vs.

Lemma lexes_list_line e d name k vs :
  name_ok name -> Forall (val_ok k) vs -> Lexes e (list_line_text d name vs) (list_line_toks name vs).
Proof.
  intros Hn Hvs st id pre rest others p Hpre H. unfold list_line_text in H.
  destruct (name_ok_parts name Hn) as (c & run & -> & Hc & Hrun & Hnul).
  rewrite indent_spaces in H. rewrite <- !app_assoc in H.
  change (M " = {" ++ ?x) with (x20 :: x3d :: x20 :: x7b :: x) in H.
  one_tok (lx_word e st p id pre (2 * d) c run _ others Hpre H Hc Hrun eq_refl Hnul) as sa pa ta Xa Ga La.
  change (x20 :: x3d :: ?x) with ([] ++ spaces 1 ++ x3d :: x) in La.
  one_tok (lx_punct e sa pa id [] 1 x3d 61 _ others punct_ok_eq eq_refl (or_introl eq_refl) La) as sb pb tb Xb Gb Lb.
  change (x20 :: x7b :: ?x) with ([] ++ spaces 1 ++ x7b :: x) in Lb.
  one_tok (lx_punct e sb pb id [] 1 x7b 123 _ others punct_ok_lb eq_refl (or_introl eq_refl) Lb) as sc pc tc Xc Gc Lc.
  assert (exists toks st' p', LX e sc pc toks st' p' /\ TK toks (list_body_toks vs) /\
            (length toks <= S (length (list_body_text vs)))%nat /\ lexinv st' id (x0a :: rest) others) as (toks & st' & p' & X' & G' & N' & L').
  { destruct vs as [|v r].
    - unfold list_body_text in Lc. cbn [map sep_by app] in Lc.
      one_tok (lx_punct e sc pc id [] 0 x7d 125 _ others punct_ok_rb eq_refl (or_introl eq_refl) Lc) as sd pd td Xd Gd Ld.
      exists [td], sd, pd. split; [exact Xd|]. split; [apply TK_one; exact Gd|]. split; [cbn; lia|exact Ld].
    - inversion Hvs as [|? ? Hv Hvs']; subst. rewrite list_body_text_cons in Lc |- *. rewrite <- app_assoc in Lc.
      one_tok (lx_value e sc pc id [] 0 k v _ others Hv (or_introl eq_refl) Lc (list_tail_delim r _)) as sd pd td Xd Gd Ld.
      destruct (lexes_list_tail e k r sd id _ others pd Hvs' Ld) as (toks & st' & p' & X' & G' & N' & L').
      exists ([td] ++ toks), st', p'. split; [lx_chain|].
      split; [cbn [app list_body_toks]; apply TK_cons; [exact Gd|exact G']|].
      split; [|exact L']. rewrite !app_length. cbn [length]. rewrite N'. pose proof (list_tail_text_length r). lia. }
  exists ([ta] ++ [tb] ++ [tc] ++ toks), st', p', [x0a]. split; [right; reflexivity|].
  split; [lx_chain|].
  split.
  - cbn [app]. unfold list_line_toks. repeat (apply TK_cons; [assumption|]). exact G'.
  - split; [|exact L']. unfold list_line_text. rewrite !app_length. change (length (M " = {")) with 4%nat. cbn [length]. lia.
Qed.

(* NAME ["TITLE"] {\n BODY INDENT }\n *)
Definition sec_block_text (d : nat) (name : str) (title : option str) (body : str) : str :=
  indent_str d ++ name ++ (match title with Some t => M " " ++ quoted (Some t) | None => [] end) ++ M " {" ++ [x0a] ++
  body ++ indent_str d ++ M "}" ++ [x0a].
Definition sec_block_toks (name : str) (title : option str) (body : list gtok) : list gtok :=
  GS name :: (match title with Some t => [GS t] | None => [] end) ++ GP 123 :: body ++ [GP 125].

Lemma lexes_sec_block e d name title body gb :
  name_ok name -> (forall t, title = Some t -> no_nul t) -> Lexes e body gb ->
  Lexes e (sec_block_text d name title body) (sec_block_toks name title gb).
Proof.
  intros Hn Ht Hbody st id pre rest others p Hpre H. unfold sec_block_text in H.
  destruct (name_ok_parts name Hn) as (c & run & -> & Hc & Hrun & Hnul).
  rewrite indent_spaces in H. rewrite <- !app_assoc in H.
  assert (follows word_delim ((match title with Some t => M " " ++ quoted (Some t) | None => [] end) ++ M " {" ++ [x0a] ++
            body ++ spaces (2 * d) ++ M "}" ++ [x0a] ++ rest)) as Hf by (destruct title; reflexivity).
  one_tok (lx_word e st p id pre (2 * d) c run _ others Hpre H Hc Hrun Hf Hnul) as sa pa ta Xa Ga La.
  (* the title *)
  assert (exists tt st' p', LX e sa pa tt st' p' /\ TK tt (match title with Some t => [GS t] | None => [] end) /\
            length tt = (match title with Some _ => 1 | None => 0 end)%nat /\
            lexinv st' id (M " {" ++ [x0a] ++ body ++ spaces (2 * d) ++ M "}" ++ [x0a] ++ rest) others)
    as (tt & sb & pb & Xb & Gb & Nb & Lb).
  { destruct title as [t|].
    - rewrite <- app_assoc in La. change (M " " ++ ?x) with ([] ++ spaces 1 ++ x) in La.
      one_tok (lx_quoted e sa pa id [] 1 t _ others (Ht t eq_refl) (or_introl eq_refl) La) as sb pb tb Xb Gb Lb.
      exists [tb], sb, pb. split; [exact Xb|]. split; [apply TK_one; exact Gb|]. split; [reflexivity|exact Lb].
    - exists [], sa, pa. split; [apply LX_nil|]. split; [apply TK_nil|]. split; [reflexivity|exact La]. }
  change (M " {" ++ [x0a] ++ ?x) with ([] ++ spaces 1 ++ x7b :: x0a :: x) in Lb.
  one_tok (lx_punct e sb pb id [] 1 x7b 123 _ others punct_ok_lb eq_refl (or_introl eq_refl) Lb) as sc pc tc Xc Gc Lc.
  change (x0a :: body ++ ?x) with ([x0a] ++ body ++ x) in Lc.
  destruct (Hbody sc id [x0a] _ others pc (or_intror eq_refl) Lc) as (tb & sd & pd & pre3 & Hp3 & Xd & Gd & Nd & Ld).
  change (M "}" ++ [x0a] ++ rest) with (x7d :: x0a :: rest) in Ld.
  one_tok (lx_punct e sd pd id pre3 (2 * d) x7d 125 _ others punct_ok_rb eq_refl Hp3 Ld) as se pe te Xe Ge Le.
  exists ([ta] ++ tt ++ [tc] ++ tb ++ [te]), se, pe, [x0a]. split; [right; reflexivity|].
  split; [lx_chain|].
  split.
  - unfold sec_block_toks. cbn [app]. apply TK_cons; [exact Ga|]. apply TK_app; [exact Gb|].
    apply TK_cons; [exact Gc|]. apply TK_app; [exact Gd|]. apply TK_one; exact Ge.
  - split; [|exact Le]. unfold sec_block_text. rewrite !app_length. cbn [length]. rewrite Nb.
    change (length (M " {")) with 2%nat. change (length (M "}")) with 1%nat.
    destruct title; cbn [length app]; rewrite ?app_length; cbn [length]; lia.
Qed.

End Oracles.

(* ================================================================== *)
(* E. the whole text                                                    *)
(* ================================================================== *)
Lemma lex_fuel_ge2_or_eof e st p id pre others :
  pre_ok pre -> lexinv st id pre others -> exists st2 p2, yylex e (lex_fuel st) st p 0 = tokres TEof None st2 p2.
Proof.
  intros Hpre H. pose proof H as (_ & Hb & _ & _).
  rewrite lex_fuel_measure, (measure_bufs st id pre others Hb). cbn [Nat.add].
  match goal with |- context [yylex e (S (S ?f))] => destruct (yylex_eof_pre e st p id pre others f Hpre H) as (st1 & _ & Y) end.
  eauto.
Qed.

Lemma Lexes_lex_all e text gs st id others p :
  Lexes e text gs -> lexinv st id text others ->
  exists toks st' p', lex_all e (S (length toks)) st p [] [] = (toks, TEof, st', p', []) /\ TK toks gs /\
                      (length toks <= length text)%nat.
Proof.
  intros HL H.
  rewrite <- (app_nil_r text) in H.
  destruct (HL st id [] [] others p (or_introl eq_refl) H) as (toks & st1 & p1 & pre1 & Hp1 & X1 & G1 & N1 & L1).
  rewrite app_nil_r in L1.
  destruct (lex_fuel_ge2_or_eof e st1 p1 id pre1 others Hp1 L1) as (st2 & p2 & Y).
  exists toks, st2, p2. split; [|split; assumption].
  replace (S (length toks)) with (length toks + 1)%nat by lia. rewrite X1.
  rewrite PP_LexYields.lex_all_S, Y. cbn [tokres r_tok r_st r_pos r_diags]. rewrite app_nil_r, rev_involutive. reflexivity.
Qed.
