(* StructRoundProofs.v — C05, the structural round trip: lists, sections (plain, MULTI, MULTI|TITLE), any nesting.
   Route: the printed text scans to a known token list (StructLexProofs.v); the reference meaning
   (Grammar.meaning) of that token list in a target context with the same declarations is the tree with the
   printed values; the C01 refinement (ParserProofs.c01_parse_buf) carries this over to cfg_parse_buf. *)
From Coq Require String.
Import String.StringSyntax.
From Coq Require Import List Arith NArith ZArith Bool Lia.
From Coq.Strings Require Import Byte.
From LC Require Import Bytes Consts Conv Flex LexAct LexRules Lexer LexLemmas DqProofs LexAll Files Store Parser Print
                       Grammar PrintProofs RoundProofs NumRoundProofs FlatRoundProofs StructLexProofs
                       PP_Base PP_Step PP_Tok PP_Setopt PP_Inv PP_Machine PP_Spec PP_SpecLemmas PP_Inst ParserProofs
                       StructCleanProofs.
Import ListNotations.
Local Open Scope string_scope.
Local Open Scope list_scope.

Section Oracles.
Variable fmt_f : N -> str.                    (* printf("%f") *)
Variable strtod_o : str -> strtod_res.        (* strtod *)

Notation val_ok := (FlatRoundProofs.val_ok fmt_f strtod_o).
Notation vtext := (FlatRoundProofs.vtext fmt_f).
Notation vtokval := (StructLexProofs.vtokval fmt_f).

(* ================================================================== *)
(* A. the source side: what is printed, its text and its tokens         *)
(* ================================================================== *)

(* one option of the printed configuration; `recP` describes the section instances it may hold *)
Definition src_opt (recP : cfg -> Prop) (o : opt) : Prop :=
  name_ok (o_name o) /\ o_comment o = None /\
  match o_kind o with
  | KSec =>
      Forall (fun v => match v with
                       | VSec (Some s) => (oflag o CFGF_TITLE = true -> exists t, c_title s = Some t /\ no_nul t) /\ recP s
                       | _ => False end) (o_vals o)
  | KInt | KFloat | KBool | KStr =>
      cb_print (o_cbs o) = None /\
      (if oflag o CFGF_LIST then Forall (val_ok (o_kind o)) (o_vals o)
       else exists v, o_vals o = [v] /\ val_ok (o_kind o) v)
  | _ => False
  end.

(* a printable configuration of nesting depth at most k: no print filter, no annotations, no print callbacks;
   every scalar option set to a value the printer / scanner pair handles (val_ok), list values likewise;
   section options hold sections only, titled (no NUL) when CFGF_TITLE *)
Fixpoint src_ok (k : nat) (c : cfg) : Prop :=
  c_pff c = None /\ Forall (src_opt (match k with O => fun _ => False | S k' => src_ok k' end)) (c_opts c).

Definition sec_title (o : opt) (s : cfg) : option str := if oflag o CFGF_TITLE then c_title s else None.

(* the text of one option at depth d; recT prints a nested context *)
Definition opt_text (recT : cfg -> nat -> str) (d : nat) (o : opt) : str :=
  match o_kind o with
  | KSec => concat (map (fun v => match v with
                                  | VSec (Some s) => sec_block_text d (o_name o) (sec_title o s) (recT s (S d))
                                  | _ => [] end) (o_vals o))
  | _ => if oflag o CFGF_LIST then list_line_text fmt_f d (o_name o) (o_vals o)
         else indent_str d ++ o_name o ++ x3d :: vtext (hd (VInt 0) (o_vals o)) ++ [x0a]
  end.

(* its tokens *)
Definition gt_opt (recG : cfg -> list gtok) (o : opt) : list gtok :=
  match o_kind o with
  | KSec => flat_map (fun v => match v with
                               | VSec (Some s) => sec_block_toks (o_name o) (sec_title o s) (recG s)
                               | _ => [] end) (o_vals o)
  | _ => if oflag o CFGF_LIST then list_line_toks fmt_f (o_name o) (o_vals o)
         else [GS (o_name o); GP 61; GS (vtokval (hd (VInt 0) (o_vals o)))]
  end.

Fixpoint gt (k : nat) (c : cfg) : list gtok :=
  flat_map (gt_opt (match k with O => fun _ => [] | S k' => gt k' end)) (c_opts c).

(* ---- the printer writes opt_text ---- *)
Lemma nprint_var_vtext o i v :
  nth_error (o_vals o) i = Some v -> val_ok (o_kind o) v -> nprint_var fmt_f o i = vtext v.
Proof.
  intros Hn Hv. unfold nprint_var. rewrite Hn.
  destruct (o_kind o); try contradiction; destruct v as [z|bits|b|[s|]| |]; try contradiction; reflexivity.
Qed.

Lemma print_values_vtext o : cb_print (o_cbs o) = None -> forall l pre,
  o_vals o = pre ++ l -> Forall (val_ok (o_kind o)) l ->
  map (fun i => print_value fmt_f o i) (seq (length pre) (length l)) = map vtext l.
Proof.
  intros Hp. induction l as [|v l IH]; intros pre Hv Hl; [reflexivity|].
  inversion Hl as [|? ? Hv1 Hl']; subst. cbn [length seq map]. f_equal.
  - unfold print_value. rewrite Hp. apply nprint_var_vtext; [|exact Hv1]. rewrite Hv. apply nth_error_mid.
  - replace (S (length pre)) with (length (pre ++ [v])) by (rewrite app_length; cbn; lia).
    apply IH; [rewrite Hv, <- app_assoc; reflexivity|exact Hl'].
Qed.

Lemma name_ok_no_nul n : name_ok n -> no_nul n.
Proof. intros (c & run & -> & _ & _ & H & _). exact H. Qed.

Lemma print_opt_text recP o d :
  src_opt recP o -> print_opt fmt_f o None d = opt_text (fun s d' => print_cfg fmt_f s None d') d o.
Proof.
  intros (Hn & Hc & Hk). pose proof (name_ok_no_nul _ Hn) as Hnul.
  destruct o as [name k flags vals sub def comment cbs]. cbn [o_name o_comment o_kind o_cbs o_vals] in *. subst comment.
  unfold opt_text. cbn [o_kind o_name o_vals].
  destruct k; try contradiction.
  1-4: destruct Hk as [Hp Hv]; unfold oflag in *; cbn [o_flags] in *; cbn [print_opt app];
       destruct (has flags CFGF_LIST) eqn:HL.
  1,3,5,7: unfold list_line_text, list_body_text; rewrite (cstr_no_nul name Hnul);
           match goal with |- context [print_value fmt_f ?o] =>
             let E := fresh "E" in pose proof (print_values_vtext o Hp vals [] eq_refl Hv) as E; cbn [length o_vals] in E; rewrite E end;
           rewrite <- !app_assoc; reflexivity.
  1-4: destruct Hv as (v & -> & Hv); cbn [length Nat.eqb orb kind_eqb andb hd nth_error];
       unfold print_value; cbn [o_cbs]; rewrite Hp, (cstr_no_nul name Hnul);
       match goal with |- context [nprint_var fmt_f ?o] => rewrite (nprint_var_vtext o 0 v eq_refl Hv) end;
       destruct v as [z|bits|b|[s|]| |]; try contradiction; reflexivity.
  (* sections *)
  rewrite C19_section_body_pf. unfold annotation. cbn [app]. f_equal.
  apply map_ext_in. intros v Hin. rewrite Forall_forall in Hk. specialize (Hk v Hin).
  destruct v as [| | | |[s|]|]; try contradiction. destruct Hk as [Ht _].
  unfold sec_block, sec_block_text, sec_header, sec_title, oflag in *. cbn [o_flags] in *.
  rewrite (cstr_no_nul name Hnul).
  destruct (has flags CFGF_TITLE).
  - destruct (Ht eq_refl) as (t & -> & _). rewrite <- !app_assoc. reflexivity.
  - rewrite <- !app_assoc. reflexivity.
Qed.

Lemma print_cfg_text k c d :
  src_ok k c ->
  print_cfg fmt_f c None d = concat (map (opt_text (fun s d' => print_cfg fmt_f s None d') d) (c_opts c)).
Proof.
  intros H. destruct k; destruct H as [Hp Ho]; rewrite (C19_no_filter_pf fmt_f c d Hp); f_equal;
    apply map_ext_in; intros o Hin; rewrite Forall_forall in Ho; exact (print_opt_text _ o d (Ho o Hin)).
Qed.

(* ---- and it scans to gt ---- *)
Lemma lexes_opt e (recP : cfg -> Prop) (recG : cfg -> list gtok) :
  (forall s d, recP s -> Lexes e (print_cfg fmt_f s None d) (recG s)) ->
  forall o d, src_opt recP o -> Lexes e (opt_text (fun s d' => print_cfg fmt_f s None d') d o) (gt_opt recG o).
Proof.
  intros IH o d (Hn & Hc & Hk). unfold opt_text, gt_opt.
  destruct (o_kind o) eqn:K; try contradiction.
  1-4: destruct Hk as [Hp Hv]; destruct (oflag o CFGF_LIST);
       [apply (lexes_list_line fmt_f strtod_o e d (o_name o) _ (o_vals o) Hn Hv)
       |destruct Hv as (v & -> & Hv); cbn [hd]; apply (lexes_scalar_line fmt_f strtod_o e d (o_name o) _ v Hn Hv)].
  apply Lexes_concat. eapply Forall_impl; [|exact Hk]. cbv beta. intros v Hv.
  destruct v as [| | | |[s|]|]; try contradiction. destruct Hv as [Ht Hs].
  apply lexes_sec_block; [exact Hn| |apply IH; exact Hs].
  intros t Et. unfold sec_title in Et. destruct (oflag o CFGF_TITLE); [|discriminate].
  destruct (Ht eq_refl) as (t' & E' & Hnul). congruence.
Qed.

Lemma lexes_print e : forall k c d, src_ok k c -> Lexes e (print_cfg fmt_f c None d) (gt k c).
Proof.
  induction k as [|k IH]; intros c d H; rewrite (print_cfg_text _ c d H); destruct H as [_ Ho]; cbn [gt];
    apply Lexes_concat; eapply Forall_impl; try exact Ho; cbv beta; intros o Hs; apply (lexes_opt e _ _) with (2 := Hs).
  - intros s d' [].
  - intros s d' Hs'. apply IH. exact Hs'.
Qed.

(* ================================================================== *)
(* B. the target side                                                   *)
(* ================================================================== *)
Notation MEAN := (meaning strtod_o).
Notation INST := (instance strtod_o).

(* the instance a (non-MULTI) section item is parsed into: the existing one, or a fresh one *)
Definition tgt_of (fl : N) (to : opt) : cfg :=
  match o_vals to with
  | VSec (Some t) :: _ => t
  | _ => INST fl to None
  end.

(* the titles of the printed instances: each differs (under the case rule nc) from the earlier ones *)
Fixpoint titles_fresh (nc : bool) (seen : list str) (vals : list value) : Prop :=
  match vals with
  | [] => True
  | VSec (Some s) :: r =>
      match c_title s with
      | Some t => Forall (fun u => name_eqb nc t u = false) seen /\ titles_fresh nc (seen ++ [t]) r
      | None => False
      end
  | _ => False
  end.

(* source option so against the declaration / current state `to` of the context the text is parsed into *)
Definition tg_opt (recT : cfg -> cfg -> Prop) (fl : N) (nc : bool) (so to : opt) : Prop :=
  o_name to = o_name so /\ o_kind to = o_kind so /\ oflag to CFGF_DEPRECATED = false /\
  match o_kind so with
  | KSec =>
      oflag to CFGF_TITLE = oflag so CFGF_TITLE /\
      (if oflag to CFGF_MULTI
       then o_vals to = [] /\ (oflag to CFGF_TITLE = true -> titles_fresh nc [] (o_vals so))
       else oflag to CFGF_TITLE = false /\ length (o_vals so) = 1%nat /\
            (o_vals to = [] \/ exists t, o_vals to = [VSec (Some t)])) /\
      Forall (fun v => match v with VSec (Some s) => recT s (tgt_of fl to) | _ => False end) (o_vals so)
  | _ => oflag to CFGF_LIST = oflag so CFGF_LIST /\ cb_print (o_cbs to) = None
  end.

Fixpoint tg_ok (k : nat) (cs ct : cfg) : Prop :=
  names_distinct (cflag ct CFGF_NOCASE) (map o_name (c_opts ct)) /\
  Forall2 (tg_opt (match k with O => fun _ _ => False | S k' => tg_ok k' end) (c_flags ct) (cflag ct CFGF_NOCASE))
          (c_opts cs) (c_opts ct).

(* what the round trip preserves: names, kinds, values, list lengths, section instances in order, titles *)
Definition same_opt (recS : cfg -> cfg -> Prop) (a b : opt) : Prop :=
  o_name b = o_name a /\ o_kind b = o_kind a /\
  match o_kind a with
  | KSec => oflag b CFGF_TITLE = oflag a CFGF_TITLE /\
            Forall2 (fun va vb => match va, vb with
                                  | VSec (Some sa), VSec (Some sb) =>
                                      (oflag a CFGF_TITLE = true -> c_title sb = c_title sa) /\ recS sa sb
                                  | _, _ => False end) (o_vals a) (o_vals b)
  | _ => oflag b CFGF_LIST = oflag a CFGF_LIST /\ o_vals b = o_vals a /\ cb_print (o_cbs b) = None
  end.

Fixpoint same (k : nat) (a b : cfg) : Prop :=
  Forall2 (same_opt (match k with O => fun _ _ => False | S k' => same k' end)) (c_opts a) (c_opts b).

(* tg_ok only looks at the flags and the options of the target *)
Lemma tg_ok_ext k cs a b : c_flags a = c_flags b -> c_opts a = c_opts b -> tg_ok k cs a -> tg_ok k cs b.
Proof. intros Hf Ho. destruct k; cbn [tg_ok]; unfold cflag; rewrite Hf, Ho; auto. Qed.

Lemma instance_set_vals fl to v ti : INST fl (set_vals to v) ti = INST fl to ti.
Proof. destruct to; reflexivity. Qed.

Lemma instance_flags_opts fl to t1 t2 : c_flags (INST fl to t1) = c_flags (INST fl to t2) /\ c_opts (INST fl to t1) = c_opts (INST fl to t2).
Proof. rewrite !instance_eq. split; reflexivity. Qed.

Lemma instance_title fl to ti : c_title (INST fl to ti) = ti.
Proof. rewrite instance_eq. reflexivity. Qed.

(* ---- small facts about the reference meaning ---- *)
Lemma after_item_nodep o : oflag o CFGF_DEPRECATED = false -> after_item o = o.
Proof. intros H. unfold after_item. rewrite H. reflexivity. Qed.

Lemma val_res_eq_val k l v g2 x :
  conv_value strtod_o k v = Some x -> val_res strtod_o k l (GP 61 :: GS v :: g2) = Some (false, [x], g2).
Proof. intros H. unfold val_res. cbn [N.eqb Pos.eqb orb andb]. rewrite H. reflexivity. Qed.

Lemma val_res_eq_list k g2 vs r :
  braced strtod_o (S (length g2)) k g2 [] = Some (vs, r) ->
  val_res strtod_o k true (GP 61 :: GP 123 :: g2) = Some (false, vs, r).
Proof. intros H. unfold val_res. cbn [N.eqb Pos.eqb orb andb negb]. rewrite H. reflexivity. Qed.

Lemma list_tail_toks_cons v r rest :
  list_tail_toks fmt_f (v :: r) ++ rest = GP 44 :: GS (vtokval v) :: list_tail_toks fmt_f r ++ rest.
Proof. unfold list_tail_toks. cbn [flat_map]. rewrite <- !app_assoc. reflexivity. Qed.

Lemma braced_values k : forall r v acc F rest,
  val_ok k v -> Forall (val_ok k) r -> (length r < F)%nat ->
  braced strtod_o F k (GS (vtokval v) :: list_tail_toks fmt_f r ++ rest) acc = Some (acc ++ v :: r, rest).
Proof.
  induction r as [|v2 r IH]; intros v acc F rest Hv Hr HF; (destruct F as [|f]; [cbn in HF; lia|]);
    rewrite braced_GS, (conv_value_vtokval fmt_f strtod_o k v Hv).
  - reflexivity.
  - inversion Hr as [|? ? Hv2 Hr']; subst. rewrite list_tail_toks_cons. cbn [N.eqb Pos.eqb].
    rewrite (IH v2 (acc ++ [v]) f rest Hv2 Hr' ltac:(cbn [length] in HF; lia)), <- app_assoc. reflexivity.
Qed.

Lemma braced_body k vs F rest :
  Forall (val_ok k) vs -> (length vs < F)%nat ->
  braced strtod_o F k (list_body_toks fmt_f vs ++ rest) [] = Some (vs, rest).
Proof.
  intros Hvs HF. destruct vs as [|v r].
  - destruct F as [|f]; [lia|]. cbn [list_body_toks app]. rewrite braced_GP. reflexivity.
  - inversion Hvs as [|? ? Hv Hr]; subst. cbn [list_body_toks app].
    apply (braced_values k r v [] F rest Hv Hr). cbn [length] in HF. lia.
Qed.

Lemma list_body_toks_length vs : (length vs <= length (list_body_toks fmt_f vs))%nat.
Proof.
  destruct vs as [|v r]; cbn [list_body_toks length]; [lia|]. unfold list_tail_toks. rewrite app_length.
  assert (length r <= length (flat_map (fun v0 : value => [GP 44; GS (vtokval v0)]) r))%nat.
  { induction r as [|x r IH]; cbn [flat_map length app]; lia. }
  cbn [length]. lia.
Qed.

(* ---- name lookup in a flat context ---- *)
Lemma names_distinct_app nc l1 n l2 :
  names_distinct nc (l1 ++ n :: l2) -> Forall (fun m => name_eqb nc m n = false) l1.
Proof.
  induction l1 as [|a l1 IH]; cbn [app names_distinct]; intros H; [constructor|].
  destruct H as [H1 H2]. constructor; [|apply IH; exact H2].
  apply Forall_app in H1 as [_ H1]. inversion H1; assumption.
Qed.

Lemma lookup_at c done o todo :
  c_opts c = done ++ o :: todo -> names_distinct (cflag c CFGF_NOCASE) (map o_name (c_opts c)) -> name_ok (o_name o) ->
  cfg_getopt c (o_name o) = (Some ([], length done), []).
Proof.
  intros Ho Hd Hn.
  apply cfg_getopt_flat; [destruct Hn as (c0 & run & -> & _); discriminate|apply name_ok_bar; exact Hn|].
  unfold getopt_leaf. rewrite Ho in *. rewrite map_app in Hd. cbn [map] in Hd.
  pose proof (names_distinct_app _ _ _ _ Hd) as Hf.
  rewrite (find_idx_mid _ done o todo 0%nat); [reflexivity| |apply name_eqb_refl].
  rewrite Forall_map in Hf. exact Hf.
Qed.

Lemma put_at c done o todo o' :
  c_opts c = done ++ o :: todo -> put_opt c ([], length done) o' = set_opts c (done ++ o' :: todo).
Proof. intros H. rewrite put_opt_flat, H, upd_nth_mid. reflexivity. Qed.

(* ================================================================== *)
(* C. the meaning of the printed tokens, one nesting level              *)
(* ================================================================== *)
Section Level.
Variable recP : cfg -> Prop.
Variable recT : cfg -> cfg -> Prop.
Variable recG : cfg -> list gtok.
Variable recS : cfg -> cfg -> Prop.
Hypothesis recT_ext : forall s a b, c_flags a = c_flags b -> c_opts a = c_opts b -> recT s a -> recT s b.
Hypothesis IH : forall s t top F rest,
  recP s -> recT s t -> (length (recG s) < F)%nat ->
  exists t' F', (F <= F' + length (recG s))%nat /\
    MEAN F t top (recG s ++ rest) = MEAN F' t' top rest /\
    recS s t' /\ c_flags t' = c_flags t /\ c_title t' = c_title t.

(* a scalar or list line *)
Lemma gt_opt_nonsec so : o_kind so <> KSec ->
  gt_opt recG so = if oflag so CFGF_LIST then list_line_toks fmt_f (o_name so) (o_vals so)
                   else [GS (o_name so); GP 61; GS (vtokval (hd (VInt 0) (o_vals so)))].
Proof. intros H. unfold gt_opt. destruct (o_kind so); try reflexivity. contradiction. Qed.

Lemma level_value c done to todo so top F rest :
  c_opts c = done ++ to :: todo -> names_distinct (cflag c CFGF_NOCASE) (map o_name (c_opts c)) ->
  src_opt recP so -> tg_opt recT (c_flags c) (cflag c CFGF_NOCASE) so to -> o_kind so <> KSec ->
  (length (gt_opt recG so) < F)%nat ->
  exists to' F', (F <= F' + length (gt_opt recG so))%nat /\
    MEAN F c top (gt_opt recG so ++ rest) = MEAN F' (set_opts c (done ++ to' :: todo)) top rest /\
    same_opt recS so to' /\ o_name to' = o_name to.
Proof.
  intros Ho Hd (Hn & Hcm & Hs) (Tn & Tk & Tdep & Tt) Hns HF.
  assert (scalar_kind (o_kind so) = true /\ is_sec (o_kind so) = false) as [Ksc Kns].
  { destruct (o_kind so); try contradiction; split; reflexivity. }
  assert (cb_print (o_cbs so) = None /\
          (if oflag so CFGF_LIST then Forall (val_ok (o_kind so)) (o_vals so)
           else exists v, o_vals so = [v] /\ val_ok (o_kind so) v)) as [Hp Hv].
  { destruct (o_kind so); try contradiction; exact Hs. }
  assert (oflag to CFGF_LIST = oflag so CFGF_LIST /\ cb_print (o_cbs to) = None) as [Tl Tp].
  { destruct (o_kind so); try contradiction; exact Tt. }
  rewrite <- Tn in Hn.
  pose proof (lookup_at c done to todo Ho Hd Hn) as Hg. rewrite Tn in Hg.
  rewrite (gt_opt_nonsec so Hns) in *.
  assert (forall vs, vs = o_vals so -> same_opt recS so (set_vals to vs)) as Hsame.
  { intros vs ->. unfold same_opt.
    rewrite o_name_set_vals, o_kind_set_vals, !oflag_set_vals, o_vals_set_vals, o_cbs_set_vals.
    repeat (split; [assumption|]). destruct (o_kind so); try contradiction; auto. }
  destruct F as [|f]; [lia|].
  destruct (oflag so CFGF_LIST) eqn:HL.
  - (* a list *)
    exists (set_vals to (o_vals so)), f. split; [cbn [list_line_toks length] in *; lia|].
    split; [|split; [apply Hsame; reflexivity|apply o_name_set_vals]].
    rewrite meaning_unfold. unfold mbody, list_line_toks. cbn [app]. rewrite Hg. cbn [fst].
    rewrite get_opt_flat, Ho, nth_error_mid, Tk, Kns, Ksc, Tl.
    rewrite (val_res_eq_list _ _ (o_vals so) rest)
      by (apply braced_body; [exact Hv|rewrite app_length; pose proof (list_body_toks_length (o_vals so)); lia]).
    cbn [app]. rewrite after_item_nodep by (rewrite oflag_set_vals; exact Tdep).
    rewrite (put_at c done to todo _ Ho). reflexivity.
  - (* a scalar *)
    destruct Hv as (v & Ev & Hv). clear Hs Tt. rewrite Ev in HF |- *. cbn [hd] in *.
    exists (set_vals to [v]), f. split; [cbn [length]; lia|].
    split; [|split; [apply Hsame; symmetry; exact Ev|apply o_name_set_vals]].
    rewrite meaning_unfold. unfold mbody. cbn [app]. rewrite Hg. cbn [fst].
    rewrite get_opt_flat, Ho, nth_error_mid, Tk, Kns, Ksc.
    rewrite (val_res_eq_val _ _ _ rest v (conv_value_vtokval fmt_f strtod_o _ v Hv)).
    cbn [app]. rewrite after_item_nodep by (rewrite oflag_set_vals; exact Tdep).
    rewrite (put_at c done to todo _ Ho). reflexivity.
Qed.


(* ---- one section instance ---- *)
Lemma find_idx_none {A} (P : A -> bool) l : forall i, Forall (fun a => P a = false) l -> find_idx P l i = None.
Proof. induction l as [|a l IHl]; intros i H; [reflexivity|]. inversion H as [|? ? Ha Hl]; subst. cbn [find_idx]. rewrite Ha. apply IHl, Hl. Qed.

Lemma open_inst_cases fl nc to cur ti :
  (oflag to CFGF_MULTI = true -> oflag to CFGF_TITLE = true ->
     exists t, ti = Some t /\ Forall (fun v => title_pred nc t v = false) cur) ->
  (oflag to CFGF_MULTI = false -> cur = [] \/ exists t0, cur = [VSec (Some t0)]) ->
  exists vals' idx sec,
    open_instance strtod_o fl nc (set_vals to cur) ti = Some (vals', idx) /\
    nth_error vals' idx = Some (VSec (Some sec)) /\
    (forall x, upd_nth vals' idx (fun _ => x) = if oflag to CFGF_MULTI then cur ++ [x] else [x]) /\
    (oflag to CFGF_MULTI = true -> sec = INST fl to ti) /\
    (oflag to CFGF_MULTI = false -> cur = [] -> sec = INST fl to ti) /\
    (oflag to CFGF_MULTI = false -> forall t0, cur = [VSec (Some t0)] -> sec = t0).
Proof.
  intros HM HN. unfold open_instance. rewrite !oflag_set_vals, o_vals_set_vals, instance_set_vals.
  destruct (oflag to CFGF_MULTI) eqn:M; cbn [negb].
  - assert (exists vals' idx, (if negb (oflag to CFGF_TITLE) then Some (cur ++ [VSec (Some (INST fl to ti))], length cur)
            else match ti with
                 | Some t => match find_idx (fun v => match v with
                                       | VSec (Some s) => match c_title s with Some t' => name_eqb nc t t' | None => false end
                                       | _ => false end) cur 0 with
                             | Some i => if oflag to CFGF_NO_TITLE_DUPES then None
                                         else Some (upd_nth cur i (fun _ => VSec (Some (INST fl to ti))), i)
                             | None => Some (cur ++ [VSec (Some (INST fl to ti))], length cur) end
                 | None => None end) = Some (vals', idx) /\ vals' = cur ++ [VSec (Some (INST fl to ti))] /\ idx = length cur)
      as (vals' & idx & E & -> & ->).
    { destruct (oflag to CFGF_TITLE) eqn:T; cbn [negb]; [|eauto].
      destruct (HM eq_refl eq_refl) as (t & -> & Hf).
      change (fun v : value => match v with
                               | VSec (Some s) => match c_title s with Some t' => name_eqb nc t t' | None => false end
                               | _ => false end) with (title_pred nc t).
      rewrite (find_idx_none _ cur 0 Hf). eauto. }
    exists (cur ++ [VSec (Some (INST fl to ti))]), (length cur), (INST fl to ti).
    split; [exact E|]. split; [apply nth_error_mid|]. split; [intros x; apply upd_nth_mid|].
    repeat split; intros; try discriminate; reflexivity.
  - destruct (HN eq_refl) as [->|(t0 & ->)].
    + exists [VSec (Some (INST fl to ti))], 0%nat, (INST fl to ti). repeat split; intros; try discriminate; auto.
    + exists [VSec (Some t0)], 0%nat, t0. repeat split; intros; try discriminate; auto. congruence.
Qed.

Lemma sec_head_block o title body rest :
  (oflag o CFGF_TITLE = true -> title <> None) -> (oflag o CFGF_TITLE = false -> title = None) ->
  sec_head o ((match title with Some t => [GS t] | None => [] end) ++ GP 123 :: body ++ rest) = Some (title, body ++ rest).
Proof.
  intros H1 H2. unfold sec_head. destruct (oflag o CFGF_TITLE).
  - destruct title as [t|]; [reflexivity|]. exfalso. apply (H1 eq_refl). reflexivity.
  - rewrite (H2 eq_refl). reflexivity.
Qed.

Definition vrel (so : opt) (va vb : value) : Prop :=
  match va, vb with
  | VSec (Some sa), VSec (Some sb) => (oflag so CFGF_TITLE = true -> c_title sb = c_title sa) /\ recS sa sb
  | _, _ => False
  end.

Lemma level_instance c done to cur todo so s top F rest :
  c_opts c = done ++ set_vals to cur :: todo ->
  names_distinct (cflag c CFGF_NOCASE) (map o_name (c_opts c)) ->
  name_ok (o_name so) -> o_name to = o_name so -> o_kind to = KSec -> oflag to CFGF_DEPRECATED = false ->
  oflag to CFGF_TITLE = oflag so CFGF_TITLE ->
  (oflag so CFGF_TITLE = true -> exists t, c_title s = Some t /\ no_nul t) ->
  recP s -> recT s (tgt_of (c_flags c) to) ->
  (oflag to CFGF_MULTI = true -> o_vals to = [] /\
     (oflag to CFGF_TITLE = true -> forall t, c_title s = Some t -> Forall (fun v => title_pred (cflag c CFGF_NOCASE) t v = false) cur)) ->
  (oflag to CFGF_MULTI = false -> oflag to CFGF_TITLE = false /\ cur = o_vals to /\ (cur = [] \/ exists t0, cur = [VSec (Some t0)])) ->
  (length (sec_block_toks (o_name so) (sec_title so s) (recG s)) < F)%nat ->
  exists s' F', (F <= F' + length (sec_block_toks (o_name so) (sec_title so s) (recG s)))%nat /\
    MEAN F c top (sec_block_toks (o_name so) (sec_title so s) (recG s) ++ rest) =
    MEAN F' (set_opts c (done ++ set_vals to (if oflag to CFGF_MULTI then cur ++ [VSec (Some s')] else [VSec (Some s')]) :: todo)) top rest /\
    vrel so (VSec (Some s)) (VSec (Some s')) /\ (oflag so CFGF_TITLE = true -> c_title s' = c_title s).
Proof.
  intros Ho Hd Hn Tn Tk Tdep Ttl Hti HP HT HM HN HF.
  set (o := set_vals to cur) in *.
  assert (o_name o = o_name so) as On by (unfold o; rewrite o_name_set_vals; exact Tn).
  rewrite <- On in Hn.
  pose proof (lookup_at c done o todo Ho Hd Hn) as Hg. rewrite On in Hg.
  set (ti := sec_title so s) in *.
  assert (oflag so CFGF_TITLE = true -> ti <> None) as Ti1.
  { intros E. unfold ti, sec_title. rewrite E. destruct (Hti E) as (t & -> & _). discriminate. }
  assert (oflag so CFGF_TITLE = false -> ti = None) as Ti2.
  { intros E. unfold ti, sec_title. rewrite E. reflexivity. }
  destruct (open_inst_cases (c_flags c) (cflag c CFGF_NOCASE) to cur ti) as (vals' & idx & sec & Eop & Enth & Eupd & Es1 & Es2 & Es3).
  { intros M T. destruct (HM M) as [_ H]. rewrite Ttl in T. destruct (Hti T) as (t & Et & _).
    exists t. split; [unfold ti, sec_title; rewrite T; exact Et|]. apply H; [rewrite Ttl; exact T|exact Et]. }
  { intros M. destruct (HN M) as (_ & _ & H). exact H. }
  (* the section that is opened is one the source instance fits, and it carries the printed title *)
  assert (recT s sec /\ (oflag so CFGF_TITLE = true -> c_title sec = c_title s)) as [HTs HTt].
  { destruct (oflag to CFGF_MULTI) eqn:M.
    - rewrite (Es1 eq_refl). destruct (HM eq_refl) as [V0 _]. unfold tgt_of in HT. rewrite V0 in HT.
      destruct (instance_flags_opts (c_flags c) to None ti) as [A B]. split; [exact (recT_ext s _ _ A B HT)|].
      intros T. rewrite instance_title. unfold ti, sec_title. rewrite T. reflexivity.
    - destruct (HN eq_refl) as (T0 & Ec & [E0|(t0 & E0)]).
      + rewrite (Es2 eq_refl E0). rewrite Ttl in T0. rewrite (Ti2 T0). unfold tgt_of in HT. rewrite <- Ec, E0 in HT.
        split; [exact HT|]. intros T. congruence.
      + rewrite (Es3 eq_refl t0 E0). unfold tgt_of in HT. rewrite <- Ec, E0 in HT.
        split; [exact HT|]. intros T. rewrite Ttl in T0. congruence. }
  destruct F as [|f]; [lia|].
  assert (length (recG s) < f)%nat as Hf.
  { unfold sec_block_toks in HF. cbn [length] in HF. rewrite !app_length in HF. cbn [length] in HF. rewrite app_length in HF. lia. }
  destruct (IH s sec false f (GP 125 :: rest) HP HTs Hf) as (s' & F1 & HF1 & EM & HS & Hfl & Htt).
  destruct F1 as [|f1]; [lia|].
  exists s', f. split; [unfold sec_block_toks; cbn [length]; lia|].
  split; [|split].
  - rewrite meaning_unfold. unfold mbody, sec_block_toks. cbn [app]. rewrite Hg. cbn [fst].
    rewrite get_opt_flat, Ho, nth_error_mid. unfold o at 1. rewrite o_kind_set_vals, Tk. cbn [is_sec].
    rewrite <- !app_assoc. cbn [app].
    replace ((recG s ++ [GP 125]) ++ rest) with (recG s ++ GP 125 :: rest) by (rewrite <- app_assoc; reflexivity).
    rewrite (sec_head_block o ti (recG s) (GP 125 :: rest))
      by (unfold o; rewrite oflag_set_vals, Ttl; assumption).
    change (set_vals to cur) with o in Eop. rewrite Eop, Enth, EM, meaning_unfold. unfold mbody. cbn [N.eqb Pos.eqb].
    rewrite Eupd. unfold o. rewrite set_vals_set_vals.
    rewrite after_item_nodep by (rewrite oflag_set_vals; exact Tdep).
    rewrite (put_at c done _ todo _ Ho). reflexivity.
  - cbn [vrel]. split; [|exact HS]. intros T. rewrite Htt. apply HTt, T.
  - intros T. rewrite Htt. apply HTt, T.
Qed.


(* ---- all the instances of a MULTI section option ---- *)
Definition block (so : opt) (v : value) : list gtok :=
  match v with VSec (Some s) => sec_block_toks (o_name so) (sec_title so s) (recG s) | _ => [] end.

Lemma ctx_step c done o o' todo :
  c_opts c = done ++ o :: todo -> o_name o' = o_name o ->
  c_opts (set_opts c (done ++ o' :: todo)) = done ++ o' :: todo /\
  c_flags (set_opts c (done ++ o' :: todo)) = c_flags c /\
  map o_name (c_opts (set_opts c (done ++ o' :: todo))) = map o_name (c_opts c).
Proof.
  intros Ho Hn. rewrite c_opts_set_opts, c_flags_set_opts, Ho, !map_app. cbn [map]. rewrite Hn. auto.
Qed.

Lemma titles_unseen nc t : forall seen cur,
  Forall (fun u => name_eqb nc t u = false) seen ->
  Forall2 (fun u v => match v with VSec (Some s') => c_title s' = Some u | _ => False end) seen cur ->
  Forall (fun v => title_pred nc t v = false) cur.
Proof.
  intros seen cur Hs H2. induction H2 as [|u v seen cur Huv _ IH2]; [constructor|].
  inversion Hs as [|? ? Hu Hs']; subst. constructor; [|apply IH2; exact Hs'].
  destruct v as [| | | |[s'|]|]; try contradiction. cbn [title_pred]. rewrite Huv. exact Hu.
Qed.

Lemma level_multi done to todo so top : forall vs c cur seen F rest,
  c_opts c = done ++ set_vals to cur :: todo ->
  names_distinct (cflag c CFGF_NOCASE) (map o_name (c_opts c)) ->
  name_ok (o_name so) -> o_name to = o_name so -> o_kind to = KSec -> oflag to CFGF_DEPRECATED = false ->
  oflag to CFGF_TITLE = oflag so CFGF_TITLE -> oflag to CFGF_MULTI = true -> o_vals to = [] ->
  Forall (fun v => match v with
                   | VSec (Some s) => (oflag so CFGF_TITLE = true -> exists t, c_title s = Some t /\ no_nul t) /\ recP s
                   | _ => False end) vs ->
  Forall (fun v => match v with VSec (Some s) => recT s (tgt_of (c_flags c) to) | _ => False end) vs ->
  (oflag to CFGF_TITLE = true ->
     titles_fresh (cflag c CFGF_NOCASE) seen vs /\
     Forall2 (fun u v => match v with VSec (Some s') => c_title s' = Some u | _ => False end) seen cur) ->
  (length (flat_map (block so) vs) < F)%nat ->
  exists new F', (F <= F' + length (flat_map (block so) vs))%nat /\
    MEAN F c top (flat_map (block so) vs ++ rest) = MEAN F' (set_opts c (done ++ set_vals to (cur ++ new) :: todo)) top rest /\
    Forall2 (vrel so) vs new.
Proof.
  induction vs as [|v vs IHvs]; intros c cur seen F rest Ho Hd Hn Tn Tk Tdep Ttl TM TV HS HT HTi HF.
  - exists [], F. split; [cbn; lia|]. split; [|constructor].
    cbn [flat_map app]. rewrite app_nil_r, <- Ho, set_opts_same. reflexivity.
  - inversion HS as [|? ? HSv HS']; subst. inversion HT as [|? ? HTv HT']; subst.
    destruct v as [| | | |[s|]|]; try contradiction. destruct HSv as [Hti HP].
    cbn [flat_map block] in HF |- *. rewrite app_length in HF. rewrite <- app_assoc.
    destruct (level_instance c done to cur todo so s top F (flat_map (block so) vs ++ rest) Ho Hd Hn Tn Tk Tdep Ttl Hti HP HTv)
      as (s' & F1 & HF1 & EM & HV & Hts).
    + intros _. split; [exact TV|]. intros T t Et. destruct (HTi T) as [Hfr H2]. cbn [titles_fresh] in Hfr. rewrite Et in Hfr.
      apply (titles_unseen _ t seen cur (proj1 Hfr) H2).
    + intros M. congruence.
    + lia.
    + rewrite TM in EM.
      destruct (ctx_step c done (set_vals to cur) (set_vals to (cur ++ [VSec (Some s')])) todo Ho
                  ltac:(rewrite !o_name_set_vals; reflexivity)) as (Ho1 & Hf1 & Hn1).
      set (c1 := set_opts c (done ++ set_vals to (cur ++ [VSec (Some s')]) :: todo)) in *.
      assert (cflag c1 CFGF_NOCASE = cflag c CFGF_NOCASE) as Hnc by (unfold cflag; rewrite Hf1; reflexivity).
      destruct (IHvs c1 (cur ++ [VSec (Some s')]) (seen ++ match c_title s with Some t => [t] | None => [] end) F1 rest Ho1)
        as (new & F2 & HF2 & EM2 & HV2); try assumption.
      * rewrite Hnc, Hn1. exact Hd.
      * rewrite Hf1. exact HT'.
      * intros T. destruct (HTi T) as [Hfr H2]. cbn [titles_fresh] in Hfr. rewrite Ttl in T.
        destruct (Hti T) as (t & Et & _). rewrite Et in Hfr |- *. destruct Hfr as [_ Hfr]. rewrite Hnc.
        split; [exact Hfr|]. apply Forall2_app; [exact H2|]. constructor; [|constructor]. rewrite (Hts T). exact Et.
      * lia.
      * exists (VSec (Some s') :: new), F2. split; [rewrite app_length; lia|].
        split; [|constructor; assumption].
        rewrite EM, EM2. unfold c1. rewrite set_opts_set_opts, <- app_assoc. reflexivity.
Qed.

(* ---- one option ---- *)
Lemma level_opt c done to todo so top F rest :
  c_opts c = done ++ to :: todo -> names_distinct (cflag c CFGF_NOCASE) (map o_name (c_opts c)) ->
  src_opt recP so -> tg_opt recT (c_flags c) (cflag c CFGF_NOCASE) so to ->
  (length (gt_opt recG so) < F)%nat ->
  exists to' F', (F <= F' + length (gt_opt recG so))%nat /\
    MEAN F c top (gt_opt recG so ++ rest) = MEAN F' (set_opts c (done ++ to' :: todo)) top rest /\
    same_opt recS so to' /\ o_name to' = o_name to.
Proof.
  intros Ho Hd Hs Ht HF.
  destruct (kind_eqb (o_kind so) KSec) eqn:K.
  2:{ apply (level_value c done to todo so top F rest Ho Hd Hs Ht); [|exact HF].
      intros E. rewrite E in K. discriminate. }
  assert (o_kind so = KSec) as Ks by (destruct (o_kind so); try discriminate; reflexivity). clear K.
  destruct Hs as (Hn & Hcm & Hs). destruct Ht as (Tn & Tk & Tdep & Tt). rewrite Ks in Hs, Tt, Tk.
  destruct Tt as (Ttl & Tm & HT).
  assert (gt_opt recG so = flat_map (block so) (o_vals so)) as Eg by (unfold gt_opt; rewrite Ks; reflexivity).
  rewrite Eg in *. rewrite <- (set_vals_same to) in Ho.
  destruct (oflag to CFGF_MULTI) eqn:M.
  - destruct Tm as [TV Tfr]. rewrite TV in Ho.
    destruct (level_multi done to todo so top (o_vals so) c [] [] F rest Ho Hd Hn Tn Tk Tdep Ttl M TV Hs HT) as (new & F' & HF' & EM & HV).
    + intros T. split; [apply Tfr; exact T|constructor].
    + exact HF.
    + exists (set_vals to new), F'. split; [exact HF'|]. split; [exact EM|]. split; [|apply o_name_set_vals].
      unfold same_opt. rewrite o_name_set_vals, o_kind_set_vals, o_vals_set_vals, Ks, ?oflag_set_vals.
      repeat (split; [assumption|]). exact HV.
  - destruct Tm as (T0 & Hlen & Hcur).
    destruct (o_vals so) as [|v [|v2 vs]] eqn:Ev; try discriminate Hlen.
    inversion Hs as [|? ? HSv _]; subst. inversion HT as [|? ? HTv _]; subst.
    destruct v as [| | | |[s|]|]; try contradiction. destruct HSv as [Hti HP].
    cbn [flat_map block] in HF |- *. rewrite app_nil_r in HF |- *.
    destruct (level_instance c done to (o_vals to) todo so s top F rest Ho Hd Hn Tn Tk Tdep Ttl Hti HP HTv)
      as (s' & F1 & HF1 & EM & HV & Hts).
    + intros E. congruence.
    + intros _. auto.
    + exact HF.
    + rewrite M in EM. exists (set_vals to [VSec (Some s')]), F1. split; [exact HF1|]. split; [exact EM|].
      split; [|apply o_name_set_vals].
      unfold same_opt. rewrite o_name_set_vals, o_kind_set_vals, o_vals_set_vals, Ks, Ev, ?oflag_set_vals.
      repeat (split; [assumption|]). constructor; [exact HV|constructor].
Qed.

(* ---- all the options of one context ---- *)
Lemma level_opts top : forall srcs done todo c F rest,
  c_opts c = done ++ todo -> names_distinct (cflag c CFGF_NOCASE) (map o_name (c_opts c)) ->
  Forall (src_opt recP) srcs -> Forall2 (tg_opt recT (c_flags c) (cflag c CFGF_NOCASE)) srcs todo ->
  (length (flat_map (gt_opt recG) srcs) < F)%nat ->
  exists todo' F', (F <= F' + length (flat_map (gt_opt recG) srcs))%nat /\
    MEAN F c top (flat_map (gt_opt recG) srcs ++ rest) = MEAN F' (set_opts c (done ++ todo')) top rest /\
    Forall2 (same_opt recS) srcs todo'.
Proof.
  induction srcs as [|so srcs IHs]; intros done todo c F rest Ho Hd HS HT HF.
  - inversion HT; subst. exists [], F. split; [cbn; lia|]. split; [|constructor].
    cbn [flat_map app]. rewrite <- Ho, set_opts_same. reflexivity.
  - inversion HT as [|? to ? todo1 HTo HT']; subst. inversion HS as [|? ? HSo HS']; subst.
    cbn [flat_map] in HF |- *. rewrite app_length in HF. rewrite <- app_assoc.
    destruct (level_opt c done to todo1 so top F (flat_map (gt_opt recG) srcs ++ rest) Ho Hd HSo HTo ltac:(lia))
      as (to' & F1 & HF1 & EM & Hsame & Hname).
    destruct (ctx_step c done to to' todo1 Ho Hname) as (Ho1 & Hf1 & Hn1).
    set (c1 := set_opts c (done ++ to' :: todo1)) in *.
    assert (cflag c1 CFGF_NOCASE = cflag c CFGF_NOCASE) as Hnc by (unfold cflag; rewrite Hf1; reflexivity).
    destruct (IHs (done ++ [to']) todo1 c1 F1 rest) as (todo' & F2 & HF2 & EM2 & HV2).
    + rewrite Ho1, <- app_assoc. reflexivity.
    + rewrite Hnc, Hn1. exact Hd.
    + exact HS'.
    + rewrite Hf1, Hnc. exact HT'.
    + lia.
    + exists (to' :: todo'), F2. split; [rewrite app_length; lia|]. split; [|constructor; assumption].
      rewrite EM, EM2. unfold c1. rewrite set_opts_set_opts, <- app_assoc. reflexivity.
Qed.

End Level.

(* ================================================================== *)
(* D. any nesting depth                                                 *)
(* ================================================================== *)
Theorem meaning_printed : forall k cs ct top F rest,
  src_ok k cs -> tg_ok k cs ct -> (length (gt k cs) < F)%nat ->
  exists ct' F', (F <= F' + length (gt k cs))%nat /\
    MEAN F ct top (gt k cs ++ rest) = MEAN F' ct' top rest /\
    same k cs ct' /\ c_flags ct' = c_flags ct /\ c_title ct' = c_title ct.
Proof.
  induction k as [|k IHk]; intros cs ct top F rest [_ HS] [Hd HT] HF; cbn [gt] in *.
  - destruct (level_opts (fun _ => False) (fun _ _ => False) (fun _ => []) (fun _ _ => False)
                (fun s a b _ _ H => H) ltac:(intros s t top0 F0 rest0 []) top (c_opts cs) [] (c_opts ct) ct F rest eq_refl Hd HS HT HF)
      as (todo' & F' & HF' & EM & HV).
    exists (set_opts ct todo'), F'. split; [exact HF'|]. split; [exact EM|]. split; [cbn [same]; rewrite c_opts_set_opts; exact HV|].
    destruct ct; split; reflexivity.
  - destruct (level_opts (src_ok k) (tg_ok k) (gt k) (same k) (tg_ok_ext k) IHk top (c_opts cs) [] (c_opts ct) ct F rest eq_refl Hd HS HT HF)
      as (todo' & F' & HF' & EM & HV).
    exists (set_opts ct todo'), F'. split; [exact HF'|]. split; [exact EM|]. split; [cbn [same]; rewrite c_opts_set_opts; exact HV|].
    destruct ct; split; reflexivity.
Qed.

(* the reference meaning of the printed token list, as a whole text *)
Corollary text_meaning_printed k cs ct ts :
  src_ok k cs -> tg_ok k cs ct -> gtoks ts = gt k cs ->
  exists ct', text_meaning strtod_o ct ts = Some (obs_c ct') /\ same k cs ct' /\ c_flags ct' = c_flags ct.
Proof.
  intros HS HT Eg. unfold text_meaning. rewrite Eg.
  destruct (meaning_printed k cs ct true (S (length (gt k cs))) [] HS HT (Nat.lt_succ_diag_r _))
    as (ct' & F' & HF' & EM & Hsame & Hfl & _).
  rewrite app_nil_r in EM. rewrite EM. destruct F' as [|f']; [lia|].
  exists ct'. rewrite meaning_unfold. cbn [mbody]. auto.
Qed.

(* ================================================================== *)
(* E. the printed text has no NUL byte                                  *)
(* ================================================================== *)
Lemma no_nul_app a b : no_nul a -> no_nul b -> no_nul (a ++ b).
Proof. intros A B. apply Forall_app. split; assumption. Qed.

Lemma no_nul_indent d : no_nul (indent_str d).
Proof. rewrite indent_spaces. apply Forall_forall. intros c Hc. apply repeat_spec in Hc. subst c. discriminate. Qed.

Lemma no_nul_concat l : Forall no_nul l -> no_nul (concat l).
Proof. induction 1 as [|x l Hx _ IHl]; [constructor|]. cbn [concat]. apply no_nul_app; assumption. Qed.

Ltac nn_lit := repeat constructor; discriminate.

Lemma no_nul_quoted t : no_nul t -> no_nul (quoted (Some t)).
Proof. intros H. exact (vtext_no_nul fmt_f strtod_o KStr (VStr (Some t)) H). Qed.

Lemma no_nul_list_body k vs : Forall (val_ok k) vs -> no_nul (list_body_text fmt_f vs).
Proof.
  intros H. unfold list_body_text. apply no_nul_app; [|nn_lit].
  destruct vs as [|v r]; [constructor|]. cbn [map]. rewrite sep_by_cons.
  inversion H as [|? ? Hv Hr]; subst. apply no_nul_app; [exact (vtext_no_nul _ _ k v Hv)|].
  apply no_nul_concat. rewrite Forall_map, Forall_map. eapply Forall_impl; [|exact Hr]. cbv beta. intros x Hx.
  apply no_nul_app; [nn_lit|exact (vtext_no_nul _ _ k x Hx)].
Qed.

Lemma opt_text_no_nul (recP : cfg -> Prop) :
  (forall s d, recP s -> no_nul (print_cfg fmt_f s None d)) ->
  forall o d, src_opt recP o -> no_nul (opt_text (fun s d' => print_cfg fmt_f s None d') d o).
Proof.
  intros IH o d (Hn & Hc & Hk). pose proof (name_ok_no_nul _ Hn) as Hnul. unfold opt_text.
  destruct (o_kind o) eqn:K; try contradiction.
  1-4: destruct Hk as [Hp Hv]; destruct (oflag o CFGF_LIST);
       [unfold list_line_text; apply no_nul_app; [apply no_nul_indent|]; apply no_nul_app; [exact Hnul|];
        apply no_nul_app; [nn_lit|]; apply no_nul_app; [apply (no_nul_list_body _ _ Hv)|nn_lit]
       |destruct Hv as (v & -> & Hv); cbn [hd]; apply no_nul_app; [apply no_nul_indent|]; apply no_nul_app; [exact Hnul|];
        constructor; [discriminate|]; apply no_nul_app; [exact (vtext_no_nul _ _ _ v Hv)|nn_lit]].
  apply no_nul_concat. rewrite Forall_map. eapply Forall_impl; [|exact Hk]. cbv beta. intros v Hv.
  destruct v as [| | | |[s|]|]; try contradiction. destruct Hv as [Ht Hs].
  unfold sec_block_text. apply no_nul_app; [apply no_nul_indent|]. apply no_nul_app; [exact Hnul|].
  apply no_nul_app.
  - unfold sec_title. destruct (oflag o CFGF_TITLE); [|constructor].
    destruct (Ht eq_refl) as (t & -> & Htn). apply no_nul_app; [nn_lit|apply no_nul_quoted; exact Htn].
  - apply no_nul_app; [nn_lit|]. apply no_nul_app; [nn_lit|]. apply no_nul_app; [apply IH; exact Hs|].
    apply no_nul_app; [apply no_nul_indent|]. apply no_nul_app; nn_lit.
Qed.

Lemma print_no_nul : forall k c d, src_ok k c -> no_nul (print_cfg fmt_f c None d).
Proof.
  induction k as [|k IHk]; intros c d H; rewrite (print_cfg_text _ c d H); destruct H as [_ Ho];
    apply no_nul_concat; rewrite Forall_map; eapply Forall_impl; try exact Ho; cbv beta; intros o Hs;
    apply (opt_text_no_nul _) with (2 := Hs).
  - intros s d' [].
  - intros s d' Hs'. apply IHk. exact Hs'.
Qed.

(* ================================================================== *)
(* F. `same` only depends on the observation of the result              *)
(* ================================================================== *)
Lemma val_ok_plain k v : val_ok k v -> plainv v = true.
Proof. destruct k; try contradiction; destruct v as [z|bits|b|[s|]| |]; try contradiction; reflexivity. Qed.

Lemma map_obs_plain : forall l l', forallb plainv l = true -> map obs_v l = map obs_v l' -> l' = l.
Proof.
  induction l as [|a l IHl]; intros [|y l'] Hp E; cbn [map] in E; try discriminate; [reflexivity|].
  cbn [forallb] in Hp. apply andb_prop in Hp as [Ha Hl]. injection E as Ey El. f_equal; [|apply IHl; assumption].
  destruct a as [| | | |[c|]|]; try discriminate Ha; destruct y as [| | | |[c'|]|]; cbn [obs_v] in Ey; congruence.
Qed.

Lemma Forall2_map_transfer {A B C} (R R' : A -> B -> Prop) (f : B -> C) : forall la lb lb',
  Forall2 R la lb -> map f lb = map f lb' ->
  (forall a x y, In a la -> R a x -> f x = f y -> R' a y) -> Forall2 R' la lb'.
Proof.
  intros la lb lb' H. revert lb'. induction H as [|a x la lb Hax _ IH2]; intros [|y lb'] E Hf; cbn [map] in E; try discriminate; [constructor|].
  injection E as Exy El. constructor; [apply (Hf a x y); [left; reflexivity|exact Hax|exact Exy]|].
  apply IH2; [exact El|]. intros a0 x0 y0 Hin. apply Hf. right. exact Hin.
Qed.

Lemma same_opt_obs (recP : cfg -> Prop) (recS : cfg -> cfg -> Prop) :
  (forall sa sb sb', recP sa -> obs_c sb = obs_c sb' -> recS sa sb -> recS sa sb') ->
  forall a x y, src_opt recP a -> same_opt recS a x -> obs_o x = obs_o y -> same_opt recS a y.
Proof.
  intros IH a x y (Hn & Hc & Hk) (Sn & Sk & Sr) E.
  apply obs_o_split in E as [Sh Ev].
  unfold same_opt. rewrite <- (shape_name _ _ Sh), <- (shape_kind _ _ Sh).
  split; [exact Sn|]. split; [exact Sk|].
  destruct (o_kind a) eqn:K; try contradiction.
  1-4: destruct Sr as (Sl & Sv & Sp); destruct Hk as [_ Hv];
       rewrite <- (shape_oflag x y CFGF_LIST Sh eq_refl), <- (shape_cbs _ _ Sh);
       (split; [exact Sl|]); (split; [|exact Sp]); rewrite <- Sv; apply map_obs_plain; [|exact Ev];
       rewrite Sv; apply forallb_forall; intros v Hin;
       (destruct (oflag a CFGF_LIST);
        [rewrite Forall_forall in Hv; exact (val_ok_plain _ v (Hv v Hin))
        |destruct Hv as (v0 & Ev0 & Hv0); rewrite Ev0 in Hin; destruct Hin as [<-|[]]; exact (val_ok_plain _ _ Hv0)]).
  destruct Sr as [St Sv]. rewrite <- (shape_oflag x y CFGF_TITLE Sh eq_refl). split; [exact St|].
  refine (Forall2_map_transfer _ _ obs_v _ _ _ Sv Ev _).
  intros va vx vy Hin Hr Eo. rewrite Forall_forall in Hk. specialize (Hk va Hin).
  destruct va as [| | | |[sa|]|]; try contradiction. destruct vx as [| | | |[sb|]|]; try contradiction.
  destruct vy as [| | | |[sb'|]|]; cbn [obs_v] in Eo; try discriminate. injection Eo as Eo.
  destruct Hr as [Ht Hs]. destruct Hk as [_ HP]. split.
  - intros T. rewrite <- (Ht T). symmetry. apply (obs_c_inj_parts _ _ Eo).
  - exact (IH sa sb sb' HP Eo Hs).
Qed.

Lemma same_obs : forall k a b b', src_ok k a -> obs_c b = obs_c b' -> same k a b -> same k a b'.
Proof.
  induction k as [|k IHk]; intros a b b' [_ HS] E H; cbn [same] in *;
    destruct (obs_c_inj_parts _ _ E) as (_ & _ & _ & Eo);
    refine (Forall2_map_transfer _ _ obs_o _ _ _ H Eo _); intros o x y Hin Hr Ex;
    rewrite Forall_forall in HS; eapply same_opt_obs; try exact Hr; try exact Ex; try exact (HS o Hin).
  - intros sa sb sb' [].
  - intros sa sb sb'. apply IHk.
Qed.

(* ================================================================== *)
(* G. a clean result equal in the sense of `same` prints the same text  *)
(* ================================================================== *)
Lemma same_src_opt (recP : cfg -> Prop) (recS : cfg -> cfg -> Prop) :
  (forall sa sb, recP sa -> recS sa sb -> cleanC sb = true -> recP sb) ->
  forall a b, src_opt recP a -> same_opt recS a b -> cleanO b = true -> src_opt recP b.
Proof.
  intros IH a b (Hn & Hc & Hk) (Sn & Sk & Sr) Hcl. destruct (cleanO_parts b Hcl) as (Cc & Cv & _).
  unfold src_opt. rewrite Sn, Sk. split; [exact Hn|]. split; [exact Cc|].
  destruct (o_kind a) eqn:K; try contradiction.
  1-4: destruct Sr as (Sl & Sv & Sp); rewrite Sl, Sv; split; [exact Sp|exact (proj2 Hk)].
  destruct Sr as [St Sv]. rewrite St.
  clear - IH Hk Sv Cv. induction Sv as [|va vb la lb Hab _ IH2]; [constructor|].
  inversion Hk as [|? ? Hva Hla]; subst. cbn [forallb] in Cv. apply andb_prop in Cv as [Cvb Clb].
  constructor; [|apply IH2; assumption].
  destruct va as [| | | |[sa|]|]; try contradiction. destruct vb as [| | | |[sb|]|]; try contradiction.
  destruct Hab as [Ht Hs]. destruct Hva as [Hta HP]. split.
  - intros T. rewrite (Ht T). exact (Hta T).
  - exact (IH sa sb HP Hs Cvb).
Qed.

Lemma same_src : forall k a b, src_ok k a -> same k a b -> cleanC b = true -> src_ok k b.
Proof.
  induction k as [|k IHk]; intros a b [_ HS] H Hcl; destruct (cleanC_parts b Hcl) as (Cp & _ & Co);
    (split; [exact Cp|]); cbn [same] in H.
  all: revert HS Co; induction H as [|oa ob la lb Hab _ IH2]; intros HS Co; [constructor|];
       inversion HS as [|? ? Hoa Hla]; subst; cbn [forallb] in Co; apply andb_prop in Co as [Cob Clb];
       (constructor; [|apply IH2; assumption]); eapply same_src_opt; try exact Hoa; try exact Hab; try exact Cob.
  - intros sa sb [].
  - intros sa sb. apply IHk.
Qed.

Lemma same_opt_text (recP : cfg -> Prop) (recS : cfg -> cfg -> Prop) d :
  (forall sa sb d', recP sa -> recP sb -> recS sa sb -> print_cfg fmt_f sb None d' = print_cfg fmt_f sa None d') ->
  forall a b, src_opt recP a -> src_opt recP b -> same_opt recS a b ->
  opt_text (fun s d' => print_cfg fmt_f s None d') d b = opt_text (fun s d' => print_cfg fmt_f s None d') d a.
Proof.
  intros IH a b (_ & _ & Ha) (_ & _ & Hb) (Sn & Sk & Sr). unfold opt_text. rewrite Sn, Sk. rewrite Sk in Hb.
  destruct (o_kind a) eqn:K; try contradiction.
  1-4: destruct Sr as (Sl & Sv & _); rewrite Sl, Sv; reflexivity.
  destruct Sr as [St Sv]. f_equal.
  clear - IH Ha Hb St Sv. induction Sv as [|va vb la lb Hab _ IH2]; [reflexivity|].
  inversion Ha as [|? ? Hva Hla]; subst. inversion Hb as [|? ? Hvb Hlb]; subst. cbn [map]. rewrite (IH2 Hla Hlb). f_equal.
  destruct va as [| | | |[sa|]|]; try contradiction. destruct vb as [| | | |[sb|]|]; try contradiction.
  destruct Hab as [Ht Hs]. unfold sec_title. rewrite St.
  rewrite (IH sa sb (S d) (proj2 Hva) (proj2 Hvb) Hs).
  destruct (oflag a CFGF_TITLE); [rewrite (Ht eq_refl)|]; reflexivity.
Qed.

Lemma same_print : forall k a b d, src_ok k a -> src_ok k b -> same k a b ->
  print_cfg fmt_f b None d = print_cfg fmt_f a None d.
Proof.
  induction k as [|k IHk]; intros a b d Ha Hb H; rewrite (print_cfg_text _ a d Ha), (print_cfg_text _ b d Hb);
    destruct Ha as [_ Ha]; destruct Hb as [_ Hb]; cbn [same] in H; f_equal.
  all: revert Ha Hb; induction H as [|oa ob la lb Hab _ IH2]; intros Ha Hb; [reflexivity|];
       inversion Ha as [|? ? Hoa Hla]; subst; inversion Hb as [|? ? Hob Hlb]; subst; cbn [map]; rewrite (IH2 Hla Hlb); f_equal;
       eapply same_opt_text; try exact Hoa; try exact Hob; try exact Hab.
  - intros sa sb d' [].
  - intros sa sb d'. apply IHk.
Qed.

(* ================================================================== *)
(* H. the round trip through cfg_parse_buf                              *)
(* ================================================================== *)
Theorem struct_roundtrip k DC cs ct w fuel :
  wready w -> Inv strtod_o (w_env w) DC k ct ->
  src_ok k cs -> tg_ok k cs ct -> cleanC ct = true ->
  (2 * length (print_cfg fmt_f cs None 0) + measure (w_lex w) + 2 * k + 4 + DC < fuel)%nat ->
  exists w' ct',
    parse_buf strtod_o fuel w ct (Some (print_cfg fmt_f cs None 0)) = (w', ct', CFG_SUCCESS) /\
    w_oof w' = false /\ same k cs ct' /\
    print_cfg fmt_f ct' None 0 = print_cfg fmt_f cs None 0 /\
    src_ok k ct' /\ cleanC ct' = true /\ c_flags ct' = c_flags ct /\
    Inv strtod_o (w_env w) DC k ct' /\ wready w' /\ w_env w' = w_env w.
Proof.
  intros Hw HI HS HT Hcl Hfu.
  set (b := print_cfg fmt_f cs None 0) in *.
  pose proof (print_no_nul k cs 0 HS) as Hnul. fold b in Hnul.
  assert (lexinv (scan_begin lex_init b) 0 b []) as L0 by (unfold lexinv, scan_begin; cbn; auto).
  destruct (Lexes_lex_all (w_env w) b (gt k cs) _ 0 [] pos1 (lexes_print (w_env w) k cs 0 HS) L0)
    as (toks & st' & p' & EL & EG & NL).
  destruct (text_meaning_printed k cs ct toks HS HT (TK_gtoks _ _ EG)) as (ct2 & ETM & Hsame & Hfl).
  pose proof (c01_parse_buf strtod_o DC k w ct b toks (S (length toks)) pos1 st' p' [] fuel Hw HI) as HC.
  rewrite (cstr_no_nul b Hnul) in HC. specialize (HC EL ltac:(lia)).
  pose proof (parse_buf_clean strtod_o fuel w ct (Some b) Hcl) as Hcl'.
  destruct (parse_buf strtod_o fuel w ct (Some b)) as [[w' ct'] rc]. cbn [fst snd] in Hcl'.
  destruct HC as [Hoof HC]. rewrite ETM in HC. destruct HC as (-> & Eobs & HI' & Hw' & He' & _).
  pose proof (same_obs k cs ct2 ct' HS (eq_sym Eobs) Hsame) as Hsame'.
  pose proof (same_src k cs ct' HS Hsame' Hcl') as HS'.
  exists w', ct'. split; [reflexivity|]. split; [exact Hoof|]. split; [exact Hsame'|].
  split; [exact (same_print k cs ct' 0 HS HS' Hsame')|]. split; [exact HS'|]. split; [exact Hcl'|].
  split; [|auto].
  destruct (obs_c_inj_parts _ _ Eobs) as (_ & _ & Ef & _). rewrite Ef. exact Hfl.
Qed.

(* ================================================================== *)
(* I. decidable versions of the hypotheses (for the examples)           *)
(* ================================================================== *)
Definition no_nulb (s : str) : bool := forallb (fun c => negb (Byte.eqb c x00)) s.

Lemma no_nulb_ok s : no_nulb s = true -> no_nul s.
Proof.
  unfold no_nulb. intros H. apply Forall_forall. intros c Hc. rewrite forallb_forall in H.
  apply byte_eqb_neq, negb_true_iff, H, Hc.
Qed.

Definition name_okb (n : str) : bool :=
  match n with
  | [] => false
  | c :: run => word_start c && forallb word_mid run && no_nulb n && forallb (fun b => negb (Byte.eqb b x7c)) n
  end.

Lemma name_okb_ok n : name_okb n = true -> name_ok n.
Proof.
  destruct n as [|c run]; [discriminate|]. unfold name_okb. intros H.
  apply andb_prop in H as [H H4]. apply andb_prop in H as [H H3]. apply andb_prop in H as [H1 H2].
  exists c, run. split; [reflexivity|]. split; [exact H1|]. split; [|split].
  - apply Forall_forall. rewrite forallb_forall in H2. exact H2.
  - apply no_nulb_ok, H3.
  - apply Forall_forall. intros b Hb. rewrite forallb_forall in H4. apply negb_true_iff, H4, Hb.
Qed.

Definition simple_wordb (t : str) : bool :=
  match t with [] => false | c :: run => word_start c && forallb word_mid run && no_nulb t end.

Lemma simple_wordb_ok t : simple_wordb t = true -> simple_word t.
Proof.
  destruct t as [|c run]; [discriminate|]. unfold simple_wordb. intros H.
  apply andb_prop in H as [H H3]. apply andb_prop in H as [H1 H2].
  exists c, run. split; [reflexivity|]. split; [exact H1|]. split; [|apply no_nulb_ok, H3].
  apply Forall_forall. rewrite forallb_forall in H2. exact H2.
Qed.

Definition sd_eqb (a b : strtod_res) : bool :=
  (sd_bits a =? sd_bits b)%N && Nat.eqb (sd_consumed a) (sd_consumed b) && Bool.eqb (sd_erange a) (sd_erange b).

Lemma sd_eqb_ok a b : sd_eqb a b = true -> a = b.
Proof.
  unfold sd_eqb. intros H. apply andb_prop in H as [H H3]. apply andb_prop in H as [H1 H2].
  apply N.eqb_eq in H1. apply Nat.eqb_eq in H2. apply Bool.eqb_prop in H3. destruct a, b. cbn in *. congruence.
Qed.

Definition val_okb (k : kind) (v : value) : bool :=
  match k, v with
  | KInt, VInt z => (- 2 ^ 63 <=? z)%Z && (z <? 2 ^ 63)%Z
  | KBool, VBool _ => true
  | KStr, VStr (Some s) => no_nulb s
  | KFloat, VFloat x =>
      simple_wordb (fmt_f x) &&
      sd_eqb (strtod_o (fmt_f x)) {| sd_bits := x; sd_consumed := length (fmt_f x); sd_erange := false |}
  | _, _ => false
  end.

Lemma val_okb_ok k v : val_okb k v = true -> val_ok k v.
Proof.
  destruct k; try discriminate; destruct v as [z|bits|b|[s|]| |]; try discriminate; cbn [val_okb FlatRoundProofs.val_ok]; intros H.
  - apply andb_prop in H as [H1 H2]. apply Z.leb_le in H1. apply Z.ltb_lt in H2. split; assumption.
  - apply andb_prop in H as [H1 H2]. split; [apply simple_wordb_ok, H1|apply sd_eqb_ok, H2].
  - apply no_nulb_ok, H.
  - exact I.
Qed.

Definition src_optb (rec : cfg -> bool) (o : opt) : bool :=
  name_okb (o_name o) && is_none (o_comment o) &&
  match o_kind o with
  | KSec =>
      forallb (fun v => match v with
                        | VSec (Some s) =>
                            (if oflag o CFGF_TITLE then match c_title s with Some t => no_nulb t | None => false end else true) && rec s
                        | _ => false end) (o_vals o)
  | KInt | KFloat | KBool | KStr =>
      is_none (cb_print (o_cbs o)) &&
      (if oflag o CFGF_LIST then forallb (val_okb (o_kind o)) (o_vals o)
       else match o_vals o with [v] => val_okb (o_kind o) v | _ => false end)
  | _ => false
  end.

Fixpoint src_okb (k : nat) (c : cfg) : bool :=
  is_none (c_pff c) && forallb (src_optb (match k with O => fun _ => false | S k' => src_okb k' end)) (c_opts c).

Lemma is_none_ok {A} (x : option A) : is_none x = true -> x = None.
Proof. destruct x; [discriminate|reflexivity]. Qed.

Lemma forallb_Forall {A} (P : A -> bool) (Q : A -> Prop) l : (forall x, P x = true -> Q x) -> forallb P l = true -> Forall Q l.
Proof. intros H Hl. apply Forall_forall. intros x Hx. rewrite forallb_forall in Hl. apply H, Hl, Hx. Qed.

Lemma src_optb_ok (rec : cfg -> bool) (recP : cfg -> Prop) :
  (forall s, rec s = true -> recP s) -> forall o, src_optb rec o = true -> src_opt recP o.
Proof.
  intros IH o H. unfold src_optb in H. apply andb_prop in H as [H H3]. apply andb_prop in H as [H1 H2].
  unfold src_opt. split; [apply name_okb_ok, H1|]. split; [apply is_none_ok, H2|].
  destruct (o_kind o) eqn:K; try discriminate.
  1-4: apply andb_prop in H3 as [Hp Hv]; (split; [apply is_none_ok, Hp|]);
       (destruct (oflag o CFGF_LIST);
        [eapply forallb_Forall; [|exact Hv]; intros x; apply val_okb_ok
        |destruct (o_vals o) as [|v [|v2 r]]; try discriminate; exists v; split; [reflexivity|apply val_okb_ok, Hv]]).
  eapply forallb_Forall; [|exact H3]. intros v Hv. destruct v as [| | | |[s|]|]; try discriminate.
  apply andb_prop in Hv as [Ht Hs]. split; [|apply IH, Hs].
  intros T. rewrite T in Ht. destruct (c_title s) as [t|]; [|discriminate]. exists t. split; [reflexivity|apply no_nulb_ok, Ht].
Qed.

Lemma src_okb_ok : forall k c, src_okb k c = true -> src_ok k c.
Proof.
  induction k as [|k IHk]; intros c H; cbn [src_okb] in H; apply andb_prop in H as [H1 H2];
    (split; [apply is_none_ok, H1|]); eapply forallb_Forall; try exact H2; apply src_optb_ok.
  - intros s Hs. discriminate.
  - exact (IHk).
Qed.

(* the target side *)
Fixpoint names_distinctb (nc : bool) (l : list str) : bool :=
  match l with [] => true | n :: r => forallb (fun m => negb (name_eqb nc n m)) r && names_distinctb nc r end.

Lemma names_distinctb_ok nc l : names_distinctb nc l = true -> names_distinct nc l.
Proof.
  induction l as [|n r IHl]; cbn [names_distinctb names_distinct]; intros H; [exact I|].
  apply andb_prop in H as [H1 H2]. split; [|apply IHl, H2].
  eapply forallb_Forall; [|exact H1]. intros m Hm. apply negb_true_iff, Hm.
Qed.

Fixpoint titles_freshb (nc : bool) (seen : list str) (vals : list value) : bool :=
  match vals with
  | [] => true
  | VSec (Some s) :: r =>
      match c_title s with
      | Some t => forallb (fun u => negb (name_eqb nc t u)) seen && titles_freshb nc (seen ++ [t]) r
      | None => false
      end
  | _ => false
  end.

Lemma titles_freshb_ok nc : forall vals seen, titles_freshb nc seen vals = true -> titles_fresh nc seen vals.
Proof.
  induction vals as [|v r IHl]; intros seen H; [exact I|]. cbn [titles_freshb titles_fresh] in *.
  destruct v as [| | | |[s|]|]; try discriminate. destruct (c_title s) as [t|]; [|discriminate].
  apply andb_prop in H as [H1 H2]. split; [|apply IHl, H2].
  eapply forallb_Forall; [|exact H1]. intros m Hm. apply negb_true_iff, Hm.
Qed.

Fixpoint forall2b {A B} (P : A -> B -> bool) (la : list A) (lb : list B) : bool :=
  match la, lb with
  | [], [] => true
  | a :: ra, b :: rb => P a b && forall2b P ra rb
  | _, _ => false
  end.

Lemma forall2b_ok {A B} (P : A -> B -> bool) (Q : A -> B -> Prop) :
  (forall a b, P a b = true -> Q a b) -> forall la lb, forall2b P la lb = true -> Forall2 Q la lb.
Proof.
  intros H. induction la as [|a ra IHl]; intros [|b rb] E; cbn [forall2b] in E; try discriminate; [constructor|].
  apply andb_prop in E as [E1 E2]. constructor; [apply H, E1|apply IHl, E2].
Qed.

Definition tg_optb (rec : cfg -> cfg -> bool) (fl : N) (nc : bool) (so to : opt) : bool :=
  str_eqb (o_name to) (o_name so) && kind_eqb (o_kind to) (o_kind so) && negb (oflag to CFGF_DEPRECATED) &&
  match o_kind so with
  | KSec =>
      Bool.eqb (oflag to CFGF_TITLE) (oflag so CFGF_TITLE) &&
      (if oflag to CFGF_MULTI
       then is_nil (o_vals to) && (if oflag to CFGF_TITLE then titles_freshb nc [] (o_vals so) else true)
       else negb (oflag to CFGF_TITLE) && Nat.eqb (length (o_vals so)) 1 &&
            match o_vals to with [] => true | [VSec (Some _)] => true | _ => false end) &&
      forallb (fun v => match v with VSec (Some s) => rec s (tgt_of fl to) | _ => false end) (o_vals so)
  | _ => Bool.eqb (oflag to CFGF_LIST) (oflag so CFGF_LIST) && is_none (cb_print (o_cbs to))
  end.

Fixpoint tg_okb (k : nat) (cs ct : cfg) : bool :=
  names_distinctb (cflag ct CFGF_NOCASE) (map o_name (c_opts ct)) &&
  forall2b (tg_optb (match k with O => fun _ _ => false | S k' => tg_okb k' end) (c_flags ct) (cflag ct CFGF_NOCASE))
           (c_opts cs) (c_opts ct).

Lemma tg_optb_ok (rec : cfg -> cfg -> bool) (recT : cfg -> cfg -> Prop) fl nc :
  (forall s t, rec s t = true -> recT s t) -> forall so to, tg_optb rec fl nc so to = true -> tg_opt recT fl nc so to.
Proof.
  intros IH so to H. unfold tg_optb in H.
  apply andb_prop in H as [H H4]. apply andb_prop in H as [H H3]. apply andb_prop in H as [H1 H2].
  apply str_eqb_eq in H1. apply negb_true_iff in H3.
  assert (o_kind to = o_kind so) as H2' by (destruct (o_kind to), (o_kind so); try discriminate; reflexivity).
  clear H2. rename H2' into H2.
  unfold tg_opt. split; [exact H1|]. split; [exact H2|]. split; [exact H3|].
  destruct (o_kind so) eqn:K.
  1-5,7-8: apply andb_prop in H4 as [A B]; split; [apply Bool.eqb_prop, A|apply is_none_ok, B].
  apply andb_prop in H4 as [H4 H7]. apply andb_prop in H4 as [H5 H6].
  split; [apply Bool.eqb_prop, H5|]. split.
  - destruct (oflag to CFGF_MULTI).
    + apply andb_prop in H6 as [A B]. split; [destruct (o_vals to); [reflexivity|discriminate]|].
      intros T. rewrite T in B. apply titles_freshb_ok, B.
    + apply andb_prop in H6 as [A C]. apply andb_prop in A as [A B]. apply negb_true_iff in A. apply Nat.eqb_eq in B.
      split; [exact A|]. split; [exact B|].
      destruct (o_vals to) as [|[| | | |[t|]|] [|v2 r]]; try discriminate; [left; reflexivity|right; exists t; reflexivity].
  - eapply forallb_Forall; [|exact H7]. intros v Hv. destruct v as [| | | |[s|]|]; try discriminate. apply IH, Hv.
Qed.

Lemma tg_okb_ok : forall k cs ct, tg_okb k cs ct = true -> tg_ok k cs ct.
Proof.
  induction k as [|k IHk]; intros cs ct H; cbn [tg_okb] in H; apply andb_prop in H as [H1 H2];
    (split; [apply names_distinctb_ok, H1|]); eapply forall2b_ok; try exact H2; apply tg_optb_ok.
  - intros s t Hs. discriminate.
  - exact (IHk).
Qed.

(* the relation `same`, decidable up to the equality of values and titles it contains *)
Definition opt_str_eqb (a b : option str) : bool :=
  match a, b with Some x, Some y => str_eqb x y | None, None => true | _, _ => false end.

(* ================================================================== *)
(* J. the statements of Properties_C05c.v                               *)
(* ================================================================== *)

(* 1. a list line and its tokens *)
Theorem list_line_tokens e d o st id others p :
  name_ok (o_name o) -> o_comment o = None -> cb_print (o_cbs o) = None ->
  (o_kind o = KInt \/ o_kind o = KBool \/ o_kind o = KStr \/ o_kind o = KFloat) -> oflag o CFGF_LIST = true ->
  Forall (val_ok (o_kind o)) (o_vals o) ->
  print_opt fmt_f o None d =
    indent_str d ++ o_name o ++ M " = {" ++ sep_by (M ", ") (map vtext (o_vals o)) ++ M "}" ++ [x0a] /\
  (lexinv st id (print_opt fmt_f o None d) others ->
   exists ts st' p',
     lex_all e (S (length ts)) st p [] [] = (ts, TEof, st', p', []) /\
     map gtok_of ts = map Some (GS (o_name o) :: GP 61 :: GP 123 ::
                                match o_vals o with
                                | [] => [GP 125]
                                | v :: r => GS (vtokval v) :: flat_map (fun x => [GP 44; GS (vtokval x)]) r ++ [GP 125]
                                end)).
Proof.
  intros Hn Hc Hp Hk Hl Hv.
  assert (src_opt (fun _ => False) o) as Hs.
  { unfold src_opt. split; [exact Hn|]. split; [exact Hc|]. rewrite Hl.
    destruct Hk as [K|[K|[K|K]]]; rewrite K in *; split; assumption. }
  assert (o_kind o <> KSec) as Hns by (destruct Hk as [->|[->|[->| ->]]]; discriminate).
  assert (opt_text (fun s d' => print_cfg fmt_f s None d') d o = list_line_text fmt_f d (o_name o) (o_vals o)) as Et.
  { unfold opt_text. rewrite Hl. destruct (o_kind o); try reflexivity. contradiction. }
  rewrite (print_opt_text _ o d Hs), Et. split.
  - unfold list_line_text, list_body_text. rewrite <- !app_assoc. reflexivity.
  - intros L0.
    destruct (Lexes_lex_all e _ _ st id others p (lexes_list_line fmt_f strtod_o e d (o_name o) _ (o_vals o) Hn Hv) L0)
      as (toks & st' & p' & EL & EG & _).
    exists toks, st', p'. split; [exact EL|exact EG].
Qed.

Lemma Forall2_impl' {A B} (R1 R2 : A -> B -> Prop) : (forall a b, R1 a b -> R2 a b) ->
  forall l1 l2, Forall2 R1 l1 l2 -> Forall2 R2 l1 l2.
Proof. intros H l1 l2 H2. induction H2; constructor; auto. Qed.

(* 2. flat configurations: scalars and lists *)
Definition same_flat (a b : cfg) : Prop :=
  Forall2 (fun so to' => o_name to' = o_name so /\ o_kind to' = o_kind so /\ o_vals to' = o_vals so) (c_opts a) (c_opts b).

Lemma same0_flat a b : same 0 a b -> same_flat a b.
Proof.
  cbn [same]. unfold same_flat. apply Forall2_impl'. intros so to' (Sn & Sk & Sr). split; [exact Sn|]. split; [exact Sk|].
  destruct (o_kind so); try exact (proj1 (proj2 Sr)).
  destruct Sr as [_ Sv]. inversion Sv as [|va vb la lb Hab _ Ea Eb]; [reflexivity|].
  destruct va as [| | | |[sa|]|]; try contradiction. destruct vb as [| | | |[sb|]|]; try contradiction. destruct Hab as [_ []].
Qed.

Theorem list_roundtrip DC cs ct w fuel :
  wready w -> Inv strtod_o (w_env w) DC 0 ct ->
  src_ok 0 cs -> tg_ok 0 cs ct -> cleanC ct = true ->
  (2 * length (print_cfg fmt_f cs None 0) + measure (w_lex w) + 4 + DC < fuel)%nat ->
  exists w' ct',
    parse_buf strtod_o fuel w ct (Some (print_cfg fmt_f cs None 0)) = (w', ct', CFG_SUCCESS) /\
    w_oof w' = false /\ same_flat cs ct' /\
    print_cfg fmt_f ct' None 0 = print_cfg fmt_f cs None 0.
Proof.
  intros Hw HI HS HT Hcl Hfu.
  destruct (struct_roundtrip 0 DC cs ct w fuel Hw HI HS HT Hcl ltac:(lia)) as (w' & ct' & E & O & Hs & Hp & _).
  exists w', ct'. split; [exact E|]. split; [exact O|]. split; [apply same0_flat, Hs|exact Hp].
Qed.

(* 3. one level of sections *)
Definition same_sec1 (so to' : opt) : Prop :=
  o_name to' = o_name so /\ o_kind to' = o_kind so /\
  match o_kind so with
  | KSec => Forall2 (fun va vb => match va, vb with
                                  | VSec (Some sa), VSec (Some sb) =>
                                      (oflag so CFGF_TITLE = true -> c_title sb = c_title sa) /\ same_flat sa sb
                                  | _, _ => False end) (o_vals so) (o_vals to')
  | _ => o_vals to' = o_vals so
  end.

Lemma same1_sec a b : same 1 a b -> Forall2 same_sec1 (c_opts a) (c_opts b).
Proof.
  cbn [same]. apply Forall2_impl'. intros so to' (Sn & Sk & Sr). split; [exact Sn|]. split; [exact Sk|].
  destruct (o_kind so); try exact (proj1 (proj2 Sr)).
  destruct Sr as [_ Sv]. revert Sv. apply Forall2_impl'. intros va vb Hab.
  destruct va as [| | | |[sa|]|]; try contradiction. destruct vb as [| | | |[sb|]|]; try contradiction.
  destruct Hab as [Ht Hs]. split; [exact Ht|]. apply same0_flat. exact Hs.
Qed.

Theorem section_roundtrip DC cs ct w fuel :
  wready w -> Inv strtod_o (w_env w) DC 1 ct ->
  src_ok 1 cs -> tg_ok 1 cs ct -> cleanC ct = true ->
  (2 * length (print_cfg fmt_f cs None 0) + measure (w_lex w) + 6 + DC < fuel)%nat ->
  exists w' ct',
    parse_buf strtod_o fuel w ct (Some (print_cfg fmt_f cs None 0)) = (w', ct', CFG_SUCCESS) /\
    w_oof w' = false /\ Forall2 same_sec1 (c_opts cs) (c_opts ct') /\
    print_cfg fmt_f ct' None 0 = print_cfg fmt_f cs None 0.
Proof.
  intros Hw HI HS HT Hcl Hfu.
  destruct (struct_roundtrip 1 DC cs ct w fuel Hw HI HS HT Hcl ltac:(lia)) as (w' & ct' & E & O & Hs & Hp & _).
  exists w', ct'. split; [exact E|]. split; [exact O|]. split; [apply same1_sec, Hs|exact Hp].
Qed.

(* 4. printing is idempotent through a parse, and the result can be printed and parsed again *)
Theorem print_idempotent k DC cs ct w fuel :
  wready w -> Inv strtod_o (w_env w) DC k ct ->
  src_ok k cs -> tg_ok k cs ct -> cleanC ct = true ->
  (2 * length (print_cfg fmt_f cs None 0) + measure (w_lex w) + 2 * k + 4 + DC < fuel)%nat ->
  let '(w', ct', rc) := parse_buf strtod_o fuel w ct (Some (print_cfg fmt_f cs None 0)) in
  rc = CFG_SUCCESS /\ print_cfg fmt_f ct' None 0 = print_cfg fmt_f cs None 0.
Proof.
  intros Hw HI HS HT Hcl Hfu.
  destruct (struct_roundtrip k DC cs ct w fuel Hw HI HS HT Hcl Hfu) as (w' & ct' & E & _ & _ & Hp & _).
  rewrite E. split; [reflexivity|exact Hp].
Qed.

(* the unfolding equations of the three recursive predicates *)
Lemma src_ok_unfold k c :
  src_ok (S k) c <-> c_pff c = None /\ Forall (src_opt (src_ok k)) (c_opts c).
Proof. reflexivity. Qed.
Lemma src_ok_unfold0 c :
  src_ok 0 c <-> c_pff c = None /\ Forall (src_opt (fun _ => False)) (c_opts c).
Proof. reflexivity. Qed.
Lemma tg_ok_unfold k cs ct :
  tg_ok (S k) cs ct <->
  names_distinct (cflag ct CFGF_NOCASE) (map o_name (c_opts ct)) /\
  Forall2 (tg_opt (tg_ok k) (c_flags ct) (cflag ct CFGF_NOCASE)) (c_opts cs) (c_opts ct).
Proof. reflexivity. Qed.
Lemma same_unfold k a b :
  same (S k) a b <-> Forall2 (same_opt (same k)) (c_opts a) (c_opts b).
Proof. reflexivity. Qed.

End Oracles.
