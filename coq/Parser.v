(* Parser.v — cfg_setopt, cfg_init_defaults, the token state machine
   cfg_parse_internal, cfg_lexer_include, cfg_parse_fp / cfg_parse_buf / cfg_parse,
   cfg_init and cfg_free as an executable model.  The three mutually recursive C
   functions recurse on explicit fuel; exhaustion is reported in w_oof.  No proofs here. *)
From Coq Require String.
Import String.StringSyntax.
From Coq Require Import List Arith NArith ZArith Bool.
From Coq.Strings Require Import Byte.
From LC Require Import Bytes Consts Conv Flex LexAct Lexer Files Store.
Import ListNotations.
Local Open Scope string_scope.
Local Open Scope list_scope.

(* ---------- callback log ---------- *)
Inductive v2arg := V2Int (z : Z) | V2Float (bits : N) | V2Str (s : option str).

Inductive cbent :=
| CbParse (k : N) (name : str) (v : option str) (failed : bool)
| CbValid (k : N) (name : str) (size : nat) (failed : bool)
| CbValid2 (k : N) (name : str) (arg : v2arg) (failed : bool)
| CbFunc (k : N) (name : str) (args : list str) (failed : bool)
| CbFree (id : N).

(* ---------- the process-level state a parse threads through ---------- *)
Record pw := {
  w_lex : lexst;
  w_env : envt;
  w_fs : fsys;
  w_pw : passwd;
  w_path : searchpath;         (* the search path every context of the running parse points to *)
  w_cbs : list cbent;          (* most recent first *)
  w_cnt : N;                   (* callback invocation counter *)
  w_failat : N;                (* the invocation that fails; 0 = none *)
  w_nextptr : N;               (* next user pointer id *)
  w_diags : list diag;         (* most recent first *)
  w_open : nat;                (* FILEs opened by cfg_lexer_include and not yet closed *)
  w_crash : option str;        (* Some k: the C code would have crashed here (k names the kind) *)
  w_oof : bool                 (* model ran out of fuel *)
}.

Definition upd_lex w l := {| w_lex := l; w_env := w_env w; w_fs := w_fs w; w_pw := w_pw w; w_path := w_path w;
  w_cbs := w_cbs w; w_cnt := w_cnt w; w_failat := w_failat w; w_nextptr := w_nextptr w; w_diags := w_diags w;
  w_open := w_open w; w_crash := w_crash w; w_oof := w_oof w |}.
Definition add_diags w (d : list diag) := {| w_lex := w_lex w; w_env := w_env w; w_fs := w_fs w; w_pw := w_pw w; w_path := w_path w;
  w_cbs := w_cbs w; w_cnt := w_cnt w; w_failat := w_failat w; w_nextptr := w_nextptr w; w_diags := rev d ++ w_diags w;
  w_open := w_open w; w_crash := w_crash w; w_oof := w_oof w |}.
Definition add_cb w (e : cbent) := {| w_lex := w_lex w; w_env := w_env w; w_fs := w_fs w; w_pw := w_pw w; w_path := w_path w;
  w_cbs := e :: w_cbs w; w_cnt := w_cnt w; w_failat := w_failat w; w_nextptr := w_nextptr w; w_diags := w_diags w;
  w_open := w_open w; w_crash := w_crash w; w_oof := w_oof w |}.
Definition set_cnt w n := {| w_lex := w_lex w; w_env := w_env w; w_fs := w_fs w; w_pw := w_pw w; w_path := w_path w;
  w_cbs := w_cbs w; w_cnt := n; w_failat := w_failat w; w_nextptr := w_nextptr w; w_diags := w_diags w;
  w_open := w_open w; w_crash := w_crash w; w_oof := w_oof w |}.
Definition set_nextptr w n := {| w_lex := w_lex w; w_env := w_env w; w_fs := w_fs w; w_pw := w_pw w; w_path := w_path w;
  w_cbs := w_cbs w; w_cnt := w_cnt w; w_failat := w_failat w; w_nextptr := n; w_diags := w_diags w;
  w_open := w_open w; w_crash := w_crash w; w_oof := w_oof w |}.
Definition set_open w n := {| w_lex := w_lex w; w_env := w_env w; w_fs := w_fs w; w_pw := w_pw w; w_path := w_path w;
  w_cbs := w_cbs w; w_cnt := w_cnt w; w_failat := w_failat w; w_nextptr := w_nextptr w; w_diags := w_diags w;
  w_open := n; w_crash := w_crash w; w_oof := w_oof w |}.
Definition set_crash w (k : String.string) := {| w_lex := w_lex w; w_env := w_env w; w_fs := w_fs w; w_pw := w_pw w; w_path := w_path w;
  w_cbs := w_cbs w; w_cnt := w_cnt w; w_failat := w_failat w; w_nextptr := w_nextptr w; w_diags := w_diags w;
  w_open := w_open w; w_crash := match w_crash w with Some x => Some x | None => Some (M k) end; w_oof := w_oof w |}.
Definition set_oof w := {| w_lex := w_lex w; w_env := w_env w; w_fs := w_fs w; w_pw := w_pw w; w_path := w_path w;
  w_cbs := w_cbs w; w_cnt := w_cnt w; w_failat := w_failat w; w_nextptr := w_nextptr w; w_diags := w_diags w;
  w_open := w_open w; w_crash := w_crash w; w_oof := true |}.
Definition set_path w p := {| w_lex := w_lex w; w_env := w_env w; w_fs := w_fs w; w_pw := w_pw w; w_path := p;
  w_cbs := w_cbs w; w_cnt := w_cnt w; w_failat := w_failat w; w_nextptr := w_nextptr w; w_diags := w_diags w;
  w_open := w_open w; w_crash := w_crash w; w_oof := w_oof w |}.

Definition log_frees w (ids : list N) : pw := fold_left (fun w id => add_cb w (CbFree id)) ids w.

(* one scripted callback invocation: bump the counter; does this one fail? *)
Definition tick (w : pw) : pw * bool :=
  let n := (w_cnt w + 1)%N in
  (set_cnt w n, negb (w_failat w =? 0)%N && (n =? w_failat w)%N).

(* (double) of a small non-negative integer, as IEEE-754 bits *)
Definition double_of_N (n : N) : N :=
  match n with
  | 0%N => 0%N
  | _ => let e := N.log2 n in
         ((1023 + e) * 4503599627370496 + (N.shiftl n (52 - e) - 4503599627370496))%N
  end.

Definition strlen_opt (v : option str) : nat := match v with Some s => length s | None => 0 end.

(* STATE_* return codes of cfg_parse_internal *)
Inductive prc := PEOF | PCONT | PERR.

(* locals of cfg_parse_internal *)
Record pst := {
  s_state : nat;
  s_comment : option str;
  s_title : option str;
  s_opt : option optref;
  s_args : list str;           (* funcopt values, in order *)
  s_ignore : N;
  s_skip : nat;
  s_num : nat;
  s_forced : bool              (* force_opt != NULL: parsing a default-value string *)
}.
Definition pst0 (state : nat) (o : option optref) : pst :=
  {| s_state := state; s_comment := None; s_title := None; s_opt := o; s_args := []; s_ignore := 0; s_skip := 0; s_num := 0;
     s_forced := match o with Some _ => true | None => false end |}.
Definition st_state p n := {| s_state := n; s_comment := s_comment p; s_title := s_title p; s_opt := s_opt p; s_args := s_args p;
  s_ignore := s_ignore p; s_skip := s_skip p; s_num := s_num p; s_forced := s_forced p |}.
Definition st_comment p c := {| s_state := s_state p; s_comment := c; s_title := s_title p; s_opt := s_opt p; s_args := s_args p;
  s_ignore := s_ignore p; s_skip := s_skip p; s_num := s_num p; s_forced := s_forced p |}.
Definition st_title p t := {| s_state := s_state p; s_comment := s_comment p; s_title := t; s_opt := s_opt p; s_args := s_args p;
  s_ignore := s_ignore p; s_skip := s_skip p; s_num := s_num p; s_forced := s_forced p |}.
Definition st_opt p o := {| s_state := s_state p; s_comment := s_comment p; s_title := s_title p; s_opt := o; s_args := s_args p;
  s_ignore := s_ignore p; s_skip := s_skip p; s_num := s_num p; s_forced := s_forced p |}.
Definition st_args p a := {| s_state := s_state p; s_comment := s_comment p; s_title := s_title p; s_opt := s_opt p; s_args := a;
  s_ignore := s_ignore p; s_skip := s_skip p; s_num := s_num p; s_forced := s_forced p |}.
Definition st_ignore p i := {| s_state := s_state p; s_comment := s_comment p; s_title := s_title p; s_opt := s_opt p; s_args := s_args p;
  s_ignore := i; s_skip := s_skip p; s_num := s_num p; s_forced := s_forced p |}.
Definition st_skip p k := {| s_state := s_state p; s_comment := s_comment p; s_title := s_title p; s_opt := s_opt p; s_args := s_args p;
  s_ignore := s_ignore p; s_skip := k; s_num := s_num p; s_forced := s_forced p |}.
Definition st_num p k := {| s_state := s_state p; s_comment := s_comment p; s_title := s_title p; s_opt := s_opt p; s_args := s_args p;
  s_ignore := s_ignore p; s_skip := s_skip p; s_num := k; s_forced := s_forced p |}.

Section WithOracles.
Variable strtod_o : str -> strtod_res.

(* opt->validcb(cfg, opt) *)
Definition run_validcb (w : pw) (o : opt) : pw * bool :=
  match cb_valid (o_cbs o) with
  | None => (w, false)
  | Some k => let '(w1, f) := tick w in (add_cb w1 (CbValid k (o_name o) (length (o_vals o)) f), f)
  end.

(* the scripted parse callbacks *)
Definition run_parsecb (w : pw) (k : N) (o : opt) (v : option str) : pw * bool :=
  let '(w1, f) := tick w in (add_cb w1 (CbParse k (o_name o) v f), f).

(* cfg_lexer_include(cfg, filename): returns the new world, the context and 0 / 1 *)
Definition lexer_include (w : pw) (c : cfg) (filename : str) : pw * cfg * bool (* failed *) :=
  if Nat.leb MAX_INCLUDE_DEPTH (length (l_inc (w_lex w))) then
    (add_diags w (cfg_diag c "includes nested too deeply"), c, true)
  else
    let x := match w_path w with
             | [] => Some (tilde_expand (w_pw w) filename)
             | p => cfg_searchpath (w_fs w) p filename
             end in
    match x with
    | None => (add_diags w (cfg_diag c "%s: Not found in search path"), c, true)
    | Some xfilename =>
        match open_input (w_fs w) xfilename with
        | None => (add_diags w (cfg_diag c "%s: %s"), c, true)
        | Some content =>
            let l := w_lex w in
            let fr := {| i_file := c_file c; i_line := c_line c; i_buf := l_next l |} in
            let l1 := scan_begin (set_inc l (fr :: l_inc l)) content in
            (set_open (upd_lex w l1) (S (w_open w)), set_line (set_file c (Some xfilename)) 1, false)
        end
    end.

(* one call of cfg_yylex on behalf of context c *)
Definition next_token (fuel : nat) (w : pw) (c : cfg) : pw * cfg * tok * option str :=
  let r := yylex (w_env w) fuel (w_lex w) (c_pos c) 0 in
  let w := if r_fuel_out r then set_oof w else w in
  let w1 := upd_lex w (r_st r) in
  let w2 := if c_err c then add_diags w1 (r_diags r) else w1 in
  let w3 := set_open w2 (w_open w2 - r_closed r) in
  (w3, set_pos c (r_pos r), r_tok r, r_val r).

(* cfg_handle_deprecated *)
Definition handle_deprecated (w : pw) (c : cfg) (r : optref) : pw * cfg :=
  match get_opt c r with
  | None => (w, c)
  | Some o =>
      if oflag o CFGF_DEPRECATED then
        if oflag o CFGF_DROP then
          let '(o1, fr) := free_value o in
          (log_frees (add_diags w (cfg_diag c "dropping deprecated configuration option '%s'")) fr, put_opt c r o1)
        else (add_diags w (cfg_diag c "found deprecated option '%s', please update configuration file."), c)
      else (w, c)
  end.

(* cfg_addopt *)
Definition addopt (c : cfg) (key : str) : cfg * optref :=
  (set_opts c (c_opts c ++ [Opt key KStr 0 [] [] defv0 None cbset0]), ([], length (c_opts c))).

Definition tok_is (t : tok) (ch : N) : bool := match t with TPunct x => (x =? ch)%N | _ => false end.
Definition tok_is_str (t : tok) : bool := match t with TStr => true | _ => false end.
Definition tok_code (t : tok) : N :=
  match t with TPunct x => x | TStr => 3 | TComment => 8 | TEof => 1000 | TErr => 0 end.

Definition sval (v : option str) : str := match v with Some s => s | None => [] end.

(* cfg_setopt, cfg_init_defaults, cfg_parse_internal *)
Fixpoint setopt (fuel : nat) (w : pw) (c : cfg) (o : opt) (txt : option str) {struct fuel}
  : pw * opt * option nat :=
  match fuel with
  | O => (set_oof w, o, None)
  | S fuel' =>
    (* RESET: drop what is there *)
    let '(w0, o0) := if oflag o CFGF_RESET
                     then let '(x, fr) := free_value o in (log_frees w fr, o_clrf x CFGF_RESET) else (w, o) in
    let n := length (o_vals o0) in
    (* which slot: Some (w, option, index) or None = return NULL *)
    let slot : option (pw * opt * nat) :=
      if Nat.eqb n 0 || oflag o0 CFGF_MULTI || oflag o0 CFGF_LIST then
        if kind_eqb (o_kind o0) KSec && oflag o0 CFGF_TITLE then
          if negb (Nat.eqb n 0) && match txt with None => true | Some _ => false end then None
          else
            let found :=
              (fix look (vals : list value) (i : nat) : option nat + unit (* inr: would crash *) :=
                 match vals with
                 | [] => inl None
                 | VSec (Some s) :: r =>
                     match c_title s, txt with
                     | Some t, Some v => if name_eqb (cflag c CFGF_NOCASE) v t then inl (Some i) else look r (S i)
                     | _, _ => inr tt
                     end
                 | _ :: _ => inr tt
                 end) (o_vals o0) 0%nat in
            match found with
            | inr _ => Some (set_crash w0 "null-deref:cfg_setopt:title", addval o0, n)
            | inl (Some i) =>
                if oflag o0 CFGF_NO_TITLE_DUPES
                then None     (* the diagnostic is added below *)
                else Some (w0, o0, i)
            | inl None => Some (w0, addval o0, n)
            end
        else Some (w0, addval o0, n)
      else Some (w0, o0, 0%nat) in
    match slot with
    | None =>
        let dup := kind_eqb (o_kind o0) KSec && oflag o0 CFGF_TITLE && oflag o0 CFGF_NO_TITLE_DUPES
                   && match txt with Some _ => true | None => false end in
        ((if dup then add_diags w0 (cfg_diag c "found duplicate title '%s'") else w0), o0, None)
    | Some (w1, o1, idx) =>
      let store (w : pw) (v : value) : pw * opt * option nat :=
        (w, o_setf (set_vals o1 (upd_nth (o_vals o1) idx (fun _ => v))) CFGF_MODIFIED, Some idx) in
      match o_kind o1 with
      | KInt =>
          match cb_parse (o_cbs o1) with
          | Some k => let '(w2, f) := run_parsecb w1 k o1 txt in
                      if f then (w2, o1, None) else store w2 (VInt (Z.of_nat (strlen_opt txt) + Z.of_N k))
          | None =>
              match txt with
              | None => (w1, o1, None)
              | Some v =>
                  match conv_int v with
                  | COk z => store w1 (VInt z)
                  | CInvalid => (add_diags w1 (cfg_diag c "invalid integer value for option '%s'"), o1, None)
                  | CRange => (add_diags w1 (cfg_diag c "integer value for option '%s' is out of range"), o1, None)
                  end
              end
          end
      | KFloat =>
          match cb_parse (o_cbs o1) with
          | Some k => let '(w2, f) := run_parsecb w1 k o1 txt in
                      if f then (w2, o1, None)
                      else store w2 (VFloat (double_of_N (N.of_nat (strlen_opt txt) + k)))
          | None =>
              match txt with
              | None => (w1, o1, None)
              | Some v =>
                  match conv_float strtod_o v with
                  | COk b => store w1 (VFloat b)
                  | CInvalid => (add_diags w1 (cfg_diag c "invalid floating point value for option '%s'"), o1, None)
                  | CRange => (add_diags w1 (cfg_diag c "floating point value for option '%s' is out of range"), o1, None)
                  end
              end
          end
      | KStr =>
          match cb_parse (o_cbs o1) with
          | Some k => let '(w2, f) := run_parsecb w1 k o1 txt in
                      if f then (w2, o1, None) else store w2 (VStr (Some (rev (sval txt))))
          | None =>
              match txt with
              | None => (w1, o1, None)
              | Some v => store w1 (VStr (Some v))
              end
          end
      | KBool =>
          match cb_parse (o_cbs o1) with
          | Some k => let '(w2, f) := run_parsecb w1 k o1 txt in
                      if f then (w2, o1, None) else store w2 (VBool (Nat.odd (strlen_opt txt)))
          | None =>
              match txt with
              | None => (add_diags w1 (cfg_diag c "invalid boolean value for option '%s'"), o1, None)
              | Some v =>
                  match conv_bool v with
                  | Some b => store w1 (VBool b)
                  | None => (add_diags w1 (cfg_diag c "invalid boolean value for option '%s'"), o1, None)
                  end
              end
          end
      | KPtr =>
          match cb_parse (o_cbs o1) with
          | None => (add_diags w1 (cfg_diag c "no value parser for option '%s'"), o1, None)
          | Some k =>
              let '(w2, f) := run_parsecb w1 k o1 txt in
              if f then (w2, o1, None)
              else
                let id := w_nextptr w2 in
                let w3 := set_nextptr w2 (id + 1)%N in
                let w4 := match nth_error (o_vals o1) idx with
                          | Some (VPtr old) => if cb_free (o_cbs o1) && negb (old =? 0)%N then add_cb w3 (CbFree old) else w3
                          | _ => w3 end in
                store w4 (VPtr id)
          end
      | KSec =>
          let existing := match nth_error (o_vals o1) idx with Some (VSec (Some s)) => Some s | _ => None end in
          let '(w3, sec') :=
            if oflag o1 CFGF_MULTI || match existing with None => true | Some _ => false end then
              let w' := match existing with Some s => log_frees w1 (frees_c s) | None => w1 end in
              init_defaults fuel' w'
                (Cfg (o_name o1) txt
                     (if oflag o1 CFGF_KEYSTRVAL then setf (c_flags c) CFGF_KEYSTRVAL else c_flags c)
                     (o_sub o1) (c_file c) (c_line c) (c_err c) None)
            else (w1, match existing with Some s => s | None => Cfg [] None 0 [] None 0 false None end) in
          store w3 (VSec (Some sec'))
      | _ => (add_diags w1 (cfg_diag c "internal error in cfg_setopt(%s, %s)"), o1, None)
      end
    end
  end

with init_defaults (fuel : nat) (w : pw) (c : cfg) {struct fuel} : pw * cfg :=
  match fuel with
  | O => (set_oof w, c)
  | S fuel' =>
    (fix loop (todo : list opt) (i : nat) (w : pw) (c : cfg) {struct todo} : pw * cfg :=
       match todo with
       | [] => (w, c)
       | _ :: todo' =>
         match nth_error (c_opts c) i with
         | None => (w, c)
         | Some o =>
           (* duplicate names only produce a diagnostic *)
           let dup := existsb (fun j => match nth_error (c_opts c) j with
                                        | Some oj => name_eqb (has (N.lor (o_flags o) (o_flags oj)) CFGF_NOCASE) (o_name o) (o_name oj)
                                        | None => false end) (seq 0 i) in
           let w := if dup then add_diags w (cfg_diag c "duplicate option '%s' not allowed") else w in
           if oflag o CFGF_NODEFAULT then loop todo' (S i) w c
           else if negb (kind_eqb (o_kind o) KSec) then
             let o1 := o_setf o CFGF_DEFINIT in
             let c1 := put_opt c ([], i) o1 in
             if oflag o1 CFGF_LIST || match d_parsed (o_def o1) with Some _ => true | None => false end then
               match d_parsed (o_def o1) with
               | None => loop todo' (S i) w c1
               | Some [] => loop todo' (S i) w c1
               | Some buf =>
                   let xstate := if oflag o1 CFGF_LIST then 3%nat
                                 else if kind_eqb (o_kind o1) KFunc then 0%nat else 2%nat in
                   let w1 := upd_lex w (scan_begin (w_lex w) (cstr buf)) in
                   let '(w2, c2, rc) := parse_internal fuel' w1 c1 1 (pst0 xstate (Some ([], i))) in
                   let w3 := upd_lex w2 (scan_end (w_lex w2)) in
                   match rc with
                   | PERR => (set_crash w3 "abort:cfg_init_defaults", c2)
                   | _ => let c3 := upd_opt c2 ([], i) (fun x => o_clrf (o_setf x CFGF_RESET) CFGF_MODIFIED) in
                          loop todo' (S i) w3 c3
                   end
               end
             else
               let d := o_def o1 in
               let setn (v : value) : opt :=
                 match opt_getval o1 0 with
                 | Some (o2, idx, _) => o_setf (set_vals o2 (upd_nth (o_vals o2) idx (fun _ => v))) CFGF_MODIFIED
                 | None => o1
                 end in
               let o2 := match o_kind o1 with
                         | KInt => setn (VInt (d_num d))
                         | KFloat => setn (VFloat (d_fp d))
                         | KBool => setn (VBool (d_bool d))
                         | KStr => setn (VStr (d_str d))
                         | _ => o1
                         end in
               let o3 := o_clrf (o_setf o2 CFGF_RESET) CFGF_MODIFIED in
               loop todo' (S i) w (put_opt c ([], i) o3)
           else if negb (oflag o CFGF_MULTI) then
             let '(w1, o1, _) := setopt fuel' w c o None in
             loop todo' (S i) w1 (put_opt c ([], i) (o_setf o1 CFGF_DEFINIT))
           else loop todo' (S i) w c
         end
       end) (c_opts c) 0%nat w c
  end

with parse_internal (fuel : nat) (w : pw) (c : cfg) (level : nat) (p : pst) {struct fuel} : pw * cfg * prc :=
  match fuel with
  | O => (set_oof w, c, PERR)
  | S fuel' =>
    let '(w, c, t, yylval) := next_token fuel' w c in
    let error (w : pw) (c : cfg) : pw * cfg * prc := (w, c, PERR) in
    let errd (w : pw) (c : cfg) (m : String.string) := (add_diags w (cfg_diag c m), c, PERR) in
    let continue (w : pw) (c : cfg) (p : pst) := parse_internal fuel' w c level p in
    let curopt : option opt := match s_opt p with Some r => get_opt c r | None => None end in
    let oname_known := true in
    match t with
    | TErr => error w c
    | TEof =>
        if negb (Nat.eqb (s_state p) 0) then errd w c "premature end of file"
        else if negb (Nat.eqb level 0) && negb (s_forced p) then errd w c "missing closing brace for section '%s'"
        else
          let '(w, c) := match s_opt p with Some r => handle_deprecated w c r | None => (w, c) end in
          (w, c, PEOF)
    | _ =>
      if match t with TComment => negb (Nat.eqb (s_state p) 0) | _ => false end then continue w c p
      else
      match s_state p with
      | 0%nat =>
          let '(w, c) := match s_opt p with Some r => handle_deprecated w c r | None => (w, c) end in
          match t with
          | TPunct 125 =>
              if Nat.eqb level 0 then errd w c "unexpected closing brace" else (w, c, PEOF)
          | TComment =>
              if negb (cflag c CFGF_COMMENTS) then continue w c p
              else continue w c (st_comment p (Some (sval yylval)))
          | TStr =>
              let name := sval yylval in
              let '(ro, ds) := cfg_getopt c name in
              let w := add_diags w ds in
              match ro with
              | None =>
                  if cflag c CFGF_IGNORE_UNKNOWN then continue w c (st_state (st_opt p None) 10)
                  else if cflag c CFGF_KEYSTRVAL && negb (match name with [] => true | _ => false end) then
                    let '(c1, r) := addopt c name in continue w c1 (st_state (st_opt p (Some r)) 1)
                  else match name with
                       | [] => errd w c "no such option '%s'"
                       | _ => error w c
                       end
              | Some r =>
                  match get_opt c r with
                  | None => error w c
                  | Some o =>
                      let st := match o_kind o with
                                | KSec => if oflag o CFGF_TITLE then 6%nat else 5%nat
                                | KFunc => 7%nat
                                | _ => 1%nat end in
                      continue w c (st_state (st_opt p (Some r)) st)
                  end
              end
          | _ => errd w c "unexpected token '%s'"
          end
      | 1%nat =>
          match s_opt p, curopt with
          | Some r, Some o =>
              let after (o : opt) :=
                let o := o_setf o CFGF_MODIFIED in
                let c := put_opt c r o in
                if oflag o CFGF_LIST then continue w c (st_num (st_state p 3) 0) else continue w c (st_state p 2) in
              if tok_is t 43 then
                if negb (oflag o CFGF_LIST) then errd w c "attempt to append to non-list option '%s'"
                else after (o_clrf o CFGF_RESET)
              else if tok_is t 61 then after (o_setf o CFGF_RESET)
              else errd w c "missing equal sign after option '%s'"
          | _, _ => error w c
          end
      | 2%nat =>
          match s_opt p, curopt with
          | Some r, Some o =>
              if tok_is t 125 && oflag o CFGF_LIST then
                if Nat.eqb (s_num p) 0 && oflag o CFGF_RESET then
                  let '(o1, fr) := free_value o in continue (log_frees w fr) (put_opt c r o1) (st_state p 0)
                else continue w c (st_state p 0)
              else if negb (tok_is_str t) then errd w c "unexpected token '%s'"
              else
                let '(w1, o1, res) := setopt fuel' w c o yylval in
                let c1 := put_opt c r o1 in
                match res with
                | None => error w1 c1
                | Some _ =>
                    let '(w2, f) := run_validcb w1 o1 in
                    if f then error w2 c1
                    else
                      let o2 := match s_comment p with Some cm => opt_setcomment o1 cm | None => o1 end in
                      let c2 := put_opt c1 r o2 in
                      let p1 := st_comment p None in
                      if oflag o2 CFGF_LIST then continue w2 c2 (st_state (st_num p1 (S (s_num p1))) 4)
                      else continue w2 c2 (st_state p1 0)
                end
          | _, _ => (set_crash w "null-deref:state2", c, PERR)
          end
      | 3%nat =>
          match s_opt p, curopt with
          | Some r, Some o =>
              if tok_is t 123 then continue w c (st_state p 2)
              else if negb (tok_is_str t) then errd w c "unexpected token '%s'"
              else
                let '(w1, o1, res) := setopt fuel' w c o yylval in
                let c1 := put_opt c r o1 in
                match res with
                | None => error w1 c1
                | Some _ =>
                    let '(w2, f) := run_validcb w1 o1 in
                    if f then error w2 c1
                    else
                      let o2 := match s_comment p with Some cm => opt_setcomment o1 cm | None => o1 end in
                      let c2 := put_opt c1 r o2 in
                      let p1 := st_comment p None in
                      continue w2 c2 (st_state (st_num p1 (S (s_num p1))) 0)
                end
          | _, _ => (set_crash w "null-deref:state3", c, PERR)
          end
      | 4%nat =>
          if tok_is t 44 then continue w c (st_state p 2)
          else if tok_is t 125 then
            match curopt with
            | Some o => let '(w1, f) := run_validcb w o in if f then error w1 c else continue w1 c (st_state p 0)
            | None => continue w c (st_state p 0)
            end
          else errd w c "unexpected token '%s'"
      | 5%nat =>
          if negb (tok_is t 123) then errd w c "missing opening brace for section '%s'"
          else
          match s_opt p, curopt with
          | Some r, Some o =>
              let '(w1, o1, res) := setopt fuel' w c o (s_title p) in
              let c1 := put_opt c r o1 in
              match res with
              | None => error w1 c1
              | Some idx =>
                  let p1 := st_title p None in
                  match nth_sec o1 idx with
                  | None => (set_crash w1 "null-deref:state5", c1, PERR)
                  | Some sec =>
                      let sec1 := set_err (set_line sec (c_line c1)) (c_err c1) in
                      let sec2 := match c_file c1 with
                                  | Some fn => match c_file sec1 with
                                               | Some sf => if str_eqb sf fn then sec1 else set_file sec1 (Some fn)
                                               | None => set_file sec1 (Some fn) end
                                  | None => sec1 end in
                      let '(w2, sec3, rc) := parse_internal fuel' w1 sec2 (S level) (pst0 0 None) in
                      let o2 := set_vals o1 (upd_nth (o_vals o1) idx (fun _ => VSec (Some sec3))) in
                      let c2 := put_opt c1 r o2 in
                      match rc with
                      | PEOF =>
                          let c3 := set_line c2 (c_line sec3) in
                          let '(w3, f) := run_validcb w2 o2 in
                          if f then error w3 c3 else continue w3 c3 (st_state p1 0)
                      | _ => error w2 c2
                      end
                  end
              end
          | _, _ => (set_crash w "null-deref:state5", c, PERR)
          end
      | 6%nat =>
          if negb (tok_is_str t) then errd w c "missing title for section '%s'"
          else continue w c (st_state (st_title p (Some (sval yylval))) 5)
      | 7%nat =>
          if negb (tok_is t 40) then errd w c "missing parenthesis for function '%s'"
          else continue w c (st_state p 8)
      | 8%nat | 9%nat =>
          let call (w : pw) (c : cfg) :=
            match curopt with
            | None => (set_crash w "null-deref:call_function", c, PERR)
            | Some o =>
                let args := s_args p in
                let p1 := st_args p [] in
                match cb_func (o_cbs o) with
                | Some FInclude =>
                    match args with
                    | [a] => let '(w1, c1, failed) := lexer_include w c a in
                             if failed then error w1 c1 else continue w1 c1 (st_state p1 0)
                    | _ => errd w c "wrong number of arguments to cfg_include()"
                    end
                | Some (FUser k) =>
                    let '(w1, f) := tick w in
                    let w2 := add_cb w1 (CbFunc k (o_name o) args f) in
                    if f then error w2 c else continue w2 c (st_state p1 0)
                | None => (set_crash w "null-call:call_function", c, PERR)
                end
            end in
          if Nat.eqb (s_state p) 8 then
            if tok_is t 41 then call w c
            else if tok_is_str t then continue w c (st_state (st_args p (s_args p ++ [sval yylval])) 9)
            else errd w c "syntax error in call of function '%s'"
          else
            if tok_is t 41 then call w c
            else if tok_is t 44 then continue w c (st_state p 8)
            else errd w c "syntax error in call of function '%s'"
      | 10%nat =>
          let p := st_comment p None in
          if tok_is t 43 || tok_is t 61 then continue w c (st_state p 14)
          else if tok_is t 40 then continue w c (st_state (st_ignore p 41) 13)
          else if tok_is t 123 then continue w c (st_state (st_skip p 1) 12)
          else if tok_is_str t then continue w c (st_state p 11)
          else errd w c "unexpected token '%s'"
      | 11%nat =>
          if negb (tok_is t 123) then errd w c "unexpected token '%s'"
          else continue w c (st_state (st_skip p 1) 12)
      | 12%nat =>
          if tok_is t 123 then continue w c (st_skip p (S (s_skip p)))
          else if tok_is t 125 then
            (if Nat.eqb (s_skip p) 1 then continue w c (st_state (st_skip p 0) 0) else continue w c (st_skip p (pred (s_skip p))))
          else continue w c p
      | 13%nat =>
          if (tok_code t =? s_ignore p)%N then continue w c (st_state (st_ignore p 0) 0) else continue w c p
      | 14%nat =>
          if tok_is t 123 then continue w c (st_state (st_ignore p 125) 13)
          else if negb (tok_is_str t) then errd w c "unexpected token '%s'"
          else continue w c (st_state p 0)
      | _ => errd w c "Internal error in cfg_parse_internal(), unknown state %d"
      end
    end
  end.

(* ---------- entry points ---------- *)

(* cfg_lexer_include_unwind(depth) *)
Fixpoint include_unwind (n : nat) (w : pw) (depth : nat) : pw :=
  match n with
  | O => w
  | S n' =>
    match l_inc (w_lex w) with
    | _ :: rest =>
        if Nat.ltb depth (length (l_inc (w_lex w)))
        then include_unwind n' (set_open (upd_lex w (scan_end (set_inc (w_lex w) rest))) (pred (w_open w))) depth
        else w
    | [] => w
    end
  end.

Definition big_fuel (w : pw) (extra : nat) : nat := (extra + 64)%nat.

(* cfg_parse_fp(cfg, fp) where fp reads `content` *)
Definition parse_fp_gen (fuel : nat) (w : pw) (c : cfg) (content : option str) : pw * cfg * Z :=
  let depth := length (l_inc (w_lex w)) in
  let c1 := match c_file c with None => set_file c (Some (M "FILE")) | Some _ => c end in
  let c2 := set_line c1 1 in
  let w1 := upd_lex w (match content with Some t => scan_begin (w_lex w) t | None => scan_begin_failing (w_lex w) end) in
  let '(w2, c3, rc) := parse_internal fuel w1 c2 0 (pst0 0 None) in
  let w3 := include_unwind (S MAX_INCLUDE_DEPTH) w2 depth in
  let w4 := upd_lex w3 (scan_end (w_lex w3)) in
  (w4, c3, match rc with PERR => CFG_PARSE_ERROR | _ => CFG_SUCCESS end).

Definition parse_fp (fuel : nat) (w : pw) (c : cfg) (content : str) : pw * cfg * Z := parse_fp_gen fuel w c (Some content).
(* cfg_parse_fp on a stream that delivers `content` and then reports a read error *)
Definition parse_fp_partial (fuel : nat) (w : pw) (c : cfg) (content : str) : pw * cfg * Z :=
  let depth := length (l_inc (w_lex w)) in
  let c1 := match c_file c with None => set_file c (Some (M "FILE")) | Some _ => c end in
  let c2 := set_line c1 1 in
  let w1 := upd_lex w (scan_begin_partial (w_lex w) content) in
  let '(w2, c3, rc) := parse_internal fuel w1 c2 0 (pst0 0 None) in
  let w3 := include_unwind (S MAX_INCLUDE_DEPTH) w2 depth in
  let w4 := upd_lex w3 (scan_end (w_lex w3)) in
  (w4, c3, match rc with PERR => CFG_PARSE_ERROR | _ => CFG_SUCCESS end).
(* the stream cannot be read (the application opened a directory) *)
Definition parse_fp_unreadable (fuel : nat) (w : pw) (c : cfg) : pw * cfg * Z := parse_fp_gen fuel w c None.

(* cfg_parse_buf(cfg, buf) *)
Definition parse_buf (fuel : nat) (w : pw) (c : cfg) (buf : option str) : pw * cfg * Z :=
  match buf with
  | None => (w, c, CFG_SUCCESS)
  | Some b => parse_fp fuel w (set_file c (Some (M "[buf]"))) (cstr b)
  end.

(* cfg_parse(cfg, filename) *)
Definition parse_file (fuel : nat) (w : pw) (c : cfg) (filename : str) : pw * cfg * Z :=
  let fn := match w_path w with
            | [] => Some (tilde_expand (w_pw w) filename)
            | p => cfg_searchpath (w_fs w) p filename
            end in
  match fn with
  | None => (w, c, CFG_FILE_ERROR)
  | Some f =>
      let c1 := set_file c (Some f) in
      match open_input (w_fs w) f with
      | None => (w, c1, CFG_FILE_ERROR)
      | Some content => parse_fp fuel w c1 content
      end
  end.

(* cfg_init(opts, flags); the harness installs the error function right afterwards *)
Definition cfg_init (fuel : nat) (w : pw) (decls : list opt) (flags : N) : pw * cfg :=
  let c := Cfg (M "root") None flags decls None 0 false None in
  let '(w1, c1) := init_defaults fuel w c in
  (w1, set_err c1 true).

(* cfg_free(cfg) of a root: release callbacks, then cfg_yylex_destroy() *)
Definition cfg_free (w : pw) (c : cfg) : pw :=
  let w1 := log_frees w (frees_c c) in
  if str_eqb (c_name c) (M "root") then upd_lex w1 (lex_destroy (w_lex w1)) else w1.

End WithOracles.
