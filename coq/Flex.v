(* Flex.v — semantics of a flex scanner specification: regular expressions,
   Brzozowski derivatives with ACI-normalised alternation (needed for the
   derivative closure to be finite), longest match / first rule wins. *)
From Coq Require Import List Arith NArith Bool Lia.
From Coq.Strings Require Import Byte.
From LC Require Import Bytes.
Import ListNotations.
Local Open Scope N_scope.

Definition cset := list (N * N).
Definition cmem (c : byte) (s : cset) : bool :=
  let n := Byte.to_N c in existsb (fun r => (fst r <=? n) && (n <=? snd r)) s.

Inductive re := Emp | Eps | Chr (pos : bool) (s : cset) | Seq (a b : re) | Alt (a b : re) | Star (a : re).

Fixpoint nullable r := match r with
| Emp => false | Eps => true | Chr _ _ => false
| Seq a b => nullable a && nullable b | Alt a b => nullable a || nullable b | Star _ => true end.

Fixpoint lbeq {A} (f : A -> A -> bool) (a b : list A) :=
  match a, b with [], [] => true | x::a', y::b' => f x y && lbeq f a' b' | _, _ => false end.
Fixpoint re_eqb (a b : re) : bool := match a, b with
| Emp, Emp => true | Eps, Eps => true
| Chr p s, Chr q t => Bool.eqb p q && (lbeq (fun x y => (fst x =? fst y) && (snd x =? snd y)) s t)
| Seq a1 a2, Seq b1 b2 => re_eqb a1 b1 && re_eqb a2 b2
| Alt a1 a2, Alt b1 b2 => re_eqb a1 b1 && re_eqb a2 b2
| Star a, Star b => re_eqb a b | _, _ => false end.

Fixpoint alts (r : re) : list re := match r with Alt a b => alts a ++ alts b | Emp => [] | _ => [r] end.
Fixpoint dedup (l : list re) : list re :=
  match l with [] => [] | x :: r => if existsb (re_eqb x) r then dedup r else x :: dedup r end.
Fixpoint mkalt (l : list re) : re := match l with [] => Emp | [x] => x | x :: r => Alt x (mkalt r) end.
Definition seq' a b := match a, b with Emp, _ => Emp | _, Emp => Emp | Eps, _ => b | _, Eps => a | _, _ => Seq a b end.
Definition alt' a b := mkalt (dedup (alts a ++ alts b)).

Fixpoint deriv (c : byte) r := match r with
| Emp => Emp | Eps => Emp
| Chr p s => if Bool.eqb (cmem c s) p then Eps else Emp
| Seq a b => if nullable a then alt' (seq' (deriv c a) b) (deriv c b) else seq' (deriv c a) b
| Alt a b => alt' (deriv c a) (deriv c b)
| Star a => seq' (deriv c a) (Star a) end.

Definition is_emp r := match r with Emp => true | _ => false end.
Fixpoint first_nullable (rs : list re) (i : nat) : option nat :=
  match rs with [] => None | r :: rs' => if nullable r then Some i else first_nullable rs' (S i) end.

(* flex: longest match, earliest rule on ties; returns (rule index, length >= 1) *)
Fixpoint munch (rs : list re) (inp : list byte) (n : nat) (best : option (nat * nat)) : option (nat * nat) :=
  match inp with
  | [] => best
  | c :: inp' =>
    let rs' := map (deriv c) rs in
    if forallb is_emp rs' then best else
    let best' := match first_nullable rs' 0 with Some i => Some (i, S n) | None => best end in
    munch rs' inp' (S n) best'
  end.

(* derived forms used by the generated rule table *)
Definition plus r := Seq r (Star r).
Definition optional r := Alt r Eps.   (* r? — not named opt: extraction would rename the option type of the store *)
Fixpoint rep_exact (n : nat) (r : re) : re := match n with O => Eps | S k => Seq r (rep_exact k r) end.
Fixpoint rep_upto (n : nat) (r : re) : re := match n with O => Eps | S k => Alt Eps (Seq r (rep_upto k r)) end.
Definition rep (m : nat) (n : option nat) (r : re) : re :=      (* r{m,n} ; n = None means {m,} *)
  match n with
  | None => Seq (rep_exact m r) (Star r)
  | Some k => Seq (rep_exact m r) (rep_upto (k - m) r)
  end.
Definition ch (c : N) := Chr true [(c,c)].
Definition cls (s : cset) := Chr true s.
Definition ncls (s : cset) := Chr false s.
Definition lit (l : list N) := fold_right (fun c r => Seq (ch c) r) Eps l.
Definition dot := Chr false [(10,10)].

(* ---- reflection lemmas for proofs over a rule vector ---- *)

Definition dead (rs : list re) : bool := forallb (fun c => forallb is_emp (map (deriv c) rs)) all_bytes.

Lemma munch_dead rs inp n best : dead rs = true -> munch rs inp n best = best.
Proof.
  intros H. destruct inp as [|c inp]; [reflexivity|]. cbn [munch].
  pose proof (sweep _ H c) as Hc. cbv beta in Hc. rewrite Hc. reflexivity.
Qed.

Definition decisive1 (rs : list re) (c : byte) (i : nat) : bool :=
  let rs' := map (deriv c) rs in
  negb (forallb is_emp rs') && dead rs' && match first_nullable rs' 0 with Some j => Nat.eqb i j | None => false end.

Lemma munch_decisive1 rs c i rest : decisive1 rs c i = true -> munch rs (c :: rest) 0 None = Some (i, 1%nat).
Proof.
  unfold decisive1. intros H. apply andb_prop in H as [H H3]. apply andb_prop in H as [H1 H2].
  cbn [munch]. apply negb_true_iff in H1. rewrite H1.
  rewrite munch_dead by exact H2.
  destruct (first_nullable _ 0) as [j|]; [|discriminate]. apply Nat.eqb_eq in H3. subst. reflexivity.
Qed.

Definition decisive2 (rs : list re) (c d : byte) (i : nat) : bool :=
  let r1 := map (deriv c) rs in let r2 := map (deriv d) r1 in
  negb (forallb is_emp r1) && negb (forallb is_emp r2) && dead r2 &&
  match first_nullable r2 0 with Some j => Nat.eqb i j | None => false end.

Lemma munch_decisive2 rs c d i rest : decisive2 rs c d i = true -> munch rs (c :: d :: rest) 0 None = Some (i, 2%nat).
Proof.
  unfold decisive2. intros H. apply andb_prop in H as [H H4]. apply andb_prop in H as [H H3]. apply andb_prop in H as [H1 H2].
  cbn [munch]. apply negb_true_iff in H1, H2. rewrite H1, H2.
  rewrite munch_dead by exact H3.
  destruct (first_nullable (map (deriv d) _) 0) as [j|]; [|discriminate]. apply Nat.eqb_eq in H4. subst. reflexivity.
Qed.

(* soundness of structural equality, so that a computed fixpoint check is a real equation *)
Lemma lbeq_eq {A} (f : A -> A -> bool) (Hf : forall x y, f x y = true -> x = y) :
  forall a b, lbeq f a b = true -> a = b.
Proof.
  induction a as [|x a IH]; destruct b as [|y b]; cbn; intros H; try discriminate; auto.
  apply andb_prop in H as [H1 H2]. f_equal; auto.
Qed.
Lemma re_eqb_eq : forall a b, re_eqb a b = true -> a = b.
Proof.
  induction a; destruct b; cbn; intros H; try discriminate; auto.
  - apply andb_prop in H as [H1 H2]. apply Bool.eqb_prop in H1. subst. f_equal.
    apply (lbeq_eq _) in H2; auto. intros [x1 x2] [y1 y2] H. cbn in H. apply andb_prop in H as [Ha Hb].
    apply N.eqb_eq in Ha, Hb. subst. reflexivity.
  - apply andb_prop in H as [H1 H2]. f_equal; auto.
  - apply andb_prop in H as [H1 H2]. f_equal; auto.
  - f_equal; auto.
Qed.
Definition vec_eqb := lbeq re_eqb.
Lemma vec_eqb_eq a b : vec_eqb a b = true -> a = b.
Proof. apply lbeq_eq, re_eqb_eq. Qed.

(* A residual vector is a K-loop accepting rule i: bytes in K keep it, bytes outside kill it *)
Definition kloop (rs : list re) (K : byte -> bool) (i : nat) : bool :=
  negb (forallb is_emp rs) &&
  match first_nullable rs 0 with Some j => Nat.eqb i j | None => false end &&
  forallb (fun c => if K c then vec_eqb (map (deriv c) rs) rs else forallb is_emp (map (deriv c) rs)) all_bytes.

Lemma munch_kloop rs K i : kloop rs K i = true ->
  forall run rest n, Forall (fun c => K c = true) run -> (match rest with [] => True | c :: _ => K c = false end) ->
  munch rs (run ++ rest) n (Some (i, n)) = Some (i, (n + length run)%nat).
Proof.
  unfold kloop. intros H. apply andb_prop in H as [H H3]. apply andb_prop in H as [H1 H2].
  apply negb_true_iff in H1.
  destruct (first_nullable rs 0) as [j|] eqn:Hfn; [|discriminate]. apply Nat.eqb_eq in H2. subst j.
  induction run as [|c run IH]; intros rest n HK Hrest.
  - cbn [app length]. rewrite Nat.add_0_r. destruct rest as [|c rest]; [reflexivity|]. cbn [munch].
    pose proof (sweep _ H3 c) as Hc. cbv beta in Hc. rewrite Hrest in Hc. rewrite Hc. reflexivity.
  - inversion HK as [|? ? Hc HK']; subst. cbn [app munch].
    pose proof (sweep _ H3 c) as Hs. cbv beta in Hs. rewrite Hc in Hs. apply vec_eqb_eq in Hs. rewrite Hs, H1, Hfn.
    rewrite IH by assumption. cbn [length]. f_equal. f_equal. lia.
Qed.
