Example C18_placeholder : True. Proof. exact I. Qed.
