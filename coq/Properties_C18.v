(* ====================================================================== *)
(*  Properties_C18.v                                                       *)
(*                                                                        *)
(*  C18:  If any single memory allocation made by the library's own code   *)
(*  fails ..., the call either completes or reports failure through its    *)
(*  return value; the process is not aborted, no freed or half-built       *)
(*  object stays reachable, and the context can still be queried and freed *)
(*  without error or leak.                                                 *)
(*                                                                        *)
(*  Statements only; every proof is [exact <lemma of OomProofs3>].         *)
(*                                                                        *)
(*  Reading guide.  [run m h k] runs the model function m on heap h, the   *)
(*  k-th allocation request fails (k = 0: none).  The result is            *)
(*  [Ok v s] (normal return, possibly reporting Failed / NULL), [Crash]    *)
(*  (some step touched a block that is not live, double free, NULL or      *)
(*  out-of-bounds access) or [Fuel].  Every theorem says [run ... = Ok ..] *)
(*  -- this is (a) SAFETY.  The final fault counter [k - N] also says that *)
(*  the call makes exactly N requests when no fault occurs.                *)
(*  [HeapOK h L h' L'] is (b): the new footprint L' is well formed in h'   *)
(*  (every owned block live with the recorded contents, no block owned     *)
(*  twice), blocks of h outside the old footprint L are untouched, and     *)
(*  live blocks of h' = blocks of L' + live foreign blocks of h.           *)
(*  The last two conjuncts are (c) and (d).                                *)
(* ====================================================================== *)
Require Import List Arith Bool.
Import ListNotations.
Require Import LC.Oom LC.OomProofs LC.OomProofs2 LC.OomProofs3.

(* ---------------------------------------------------------------------- *)
(* (1) cfg_addval : requests = realloc(values), calloc(value cell)         *)
(*     partial effect on failure: the pointer array may have been moved /  *)
(*     grown (spare capacity), the value list is unchanged.                *)
(* ---------------------------------------------------------------------- *)
Theorem C18_addval : forall h g k,
  Sep h (cells_gopt g) ->
  exists h' g' out,
    run (cfg_addval (rec_of_gopt g)) h k = Ok (rec_of_gopt g', out) (mkst h' (k - 2)) /\
    HeapOK h (cells_gopt g) h' (cells_gopt g') /\
    (hits k 2 -> out = Failed /\ abs_opt g' = abs_opt g) /\
    (~ hits k 2 -> exists cv, out = Done cv /\ abs_opt g' = add_value (abs_opt g) None /\
                              In cv (addrs (cells_gopt g'))).
Proof. exact C18_addval_lemma. Qed.
Print Assumptions C18_addval.

(* ---------------------------------------------------------------------- *)
(* (2) cfg_opt_setnstr(opt, value, index) : requests, in this order,       *)
(*       [strdup if value]  then  [realloc, calloc  if index >= nvalues]   *)
(*     The copy is made FIRST, cfg_opt_getval afterwards; when getval      *)
(*     fails the copy is freed again (it is not live in h', by HeapOK).    *)
(*     Failed is benign for EVERY fault index: the value list is           *)
(*     unchanged (no appended NULL entry any more).  The only partial      *)
(*     effect left is that of cfg_addval when its calloc fails (k = 3 with *)
(*     a value, k = 2 without): the pointer array may have been moved /    *)
(*     grown (spare capacity), nvalues and the values are unchanged.       *)
(* ---------------------------------------------------------------------- *)
Theorem C18_setnstr : forall h g k value index,
  Sep h (cells_gopt g) ->
  let nv := length (a_values (abs_opt g)) in
  let N := nreq_setnstr nv index value in
  exists h' g' out,
    run (cfg_opt_setnstr (rec_of_gopt g) value index) h k = Ok (rec_of_gopt g', out) (mkst h' (k - N)) /\
    HeapOK h (cells_gopt g) h' (cells_gopt g') /\
    (hits k N -> out = Failed /\ abs_opt g' = abs_opt g) /\
    (~ hits k N -> out = Done tt /\
       abs_opt g' = if index <? nv then set_value (abs_opt g) index value
                    else add_value (abs_opt g) value).
Proof. exact C18_setnstr_lemma. Qed.
Print Assumptions C18_setnstr.

(* ---------------------------------------------------------------------- *)
(* (3) cfg_opt_setcomment : requests = strdup(comment)                     *)
(* ---------------------------------------------------------------------- *)
Theorem C18_setcomment : forall h g k s,
  Sep h (cells_gopt g) ->
  exists h' g' out,
    run (cfg_opt_setcomment (rec_of_gopt g) s) h k = Ok (rec_of_gopt g', out) (mkst h' (k - 1)) /\
    HeapOK h (cells_gopt g) h' (cells_gopt g') /\
    (hits k 1 -> out = Failed /\ abs_opt g' = abs_opt g) /\
    (~ hits k 1 -> out = Done tt /\ abs_opt g' = set_comment (abs_opt g) s).
Proof. exact C18_setcomment_lemma. Qed.
Print Assumptions C18_setcomment.

(* ---------------------------------------------------------------------- *)
(* (4) cfg_add_searchpath : requests = [malloc(user) if "~user"],          *)
(*     malloc(expanded) or strdup(filename), malloc(cfg_searchpath_t)      *)
(*     On failure even the ghost structure is unchanged (c' = c).          *)
(* ---------------------------------------------------------------------- *)
Theorem C18_add_searchpath : forall h c k t,
  Sep h (cells_gcfg c) ->
  let N := nreq_texp t + 1 in
  exists h' c' out,
    run (cfg_add_searchpath (gc_addr c) t) h k = Ok out (mkst h' (k - N)) /\
    gc_addr c' = gc_addr c /\
    HeapOK h (cells_gcfg c) h' (cells_gcfg c') /\
    (hits k N -> out = Failed /\ c' = c) /\
    (~ hits k N -> out = Done tt /\ abs_cfg c' = add_path (abs_cfg c) (texp_result t)).
Proof. exact C18_add_searchpath_lemma. Qed.
Print Assumptions C18_add_searchpath.

(* ---------------------------------------------------------------------- *)
(* (5) cfg_addopt, CURRENT code : requests = reallocarray(opts), strdup    *)
(*     partial effect on failure of the strdup: the array has been moved / *)
(*     grown, it still ends at the same CFG_END slot.                      *)
(* ---------------------------------------------------------------------- *)
Theorem C18_addopt : forall h c k key,
  Sep h (cells_gcfg c) ->
  exists h' c' out,
    run (cfg_addopt (gc_addr c) key) h k = Ok out (mkst h' (k - 2)) /\
    gc_addr c' = gc_addr c /\
    HeapOK h (cells_gcfg c) h' (cells_gcfg c') /\
    (hits k 2 -> out = Failed /\ abs_cfg c' = abs_cfg c) /\
    (~ hits k 2 -> out = Done (gs_addr (gc_opts c'), length (c_opts (abs_cfg c))) /\
                   abs_cfg c' = add_opt (abs_cfg c) (new_aopt key)).
Proof. exact C18_addopt_lemma. Qed.
Print Assumptions C18_addopt.

(* the PREVIOUS cfg_addopt (free(opts) on strdup failure, after cfg->opts = opts)
   violates (b): a concrete well-formed cfg, key and fault index after which
   the cfg is no longer well formed (cfg->opts is a freed block) *)
Theorem C18_addopt_old_refuted :
  exists h ca key k,
    WF_cfg h ca /\
    exists h', run (cfg_addopt_old ca key) h k = Ok Failed (mkst h' 0) /\ ~ WF_cfg h' ca.
Proof. exact C18_addopt_old_refuted_lemma. Qed.
Print Assumptions C18_addopt_old_refuted.

(* ---------------------------------------------------------------------- *)
(* (6) cfg_dupopt_array on a template array without sub-options :          *)
(*     requests = calloc(array), then per option strdup(name),             *)
(*     [strdup(def.parsed)], [strdup(def.string)], [strdup(comment)]       *)
(*     The source is only read.  On failure NOTHING new stays allocated    *)
(*     (goto err -> cfg_free_opt_array), on success the copy is handed to  *)
(*     the caller as a fresh well-formed array with the same abstract      *)
(*     value.                                                              *)
(* ---------------------------------------------------------------------- *)
Theorem C18_dupopt_flat : forall fuel h Gs k,
  template Gs -> Holds h (cells_gopts Gs) ->
  let N := 1 + nreq_opts (gs_opts Gs) in
  exists h' out,
    run (cfg_dupopt_array (S fuel) (gs_addr Gs)) h k = Ok out (mkst h' (k - N)) /\
    (hits k N -> out = None /\ HeapOK h [] h' []) /\
    (~ hits k N -> exists G', out = Some (gs_addr G') /\ template G' /\ gs_spare G' = [] /\
                              HeapOK h [] h' (cells_gopts G') /\
                              map abs_opt (gs_opts G') = map abs_opt (gs_opts Gs)).
Proof. exact C18_dupopt_flat_lemma. Qed.
Print Assumptions C18_dupopt_flat.

(* cfg_free_opt_array releases exactly the footprint of a template array (no request) *)
Theorem C18_free_opt_array : forall fuel h G k,
  template G -> Sep h (cells_gopts G) ->
  exists h', run (cfg_free_opt_array (S fuel) (gs_addr G)) h k = Ok tt (mkst h' k) /\
             HeapOK h (cells_gopts G) h' [].
Proof. exact C18_free_opt_array_lemma. Qed.
Print Assumptions C18_free_opt_array.

(* ---------------------------------------------------------------------- *)
(* (7) cfg_init (without cfg_init_defaults) : requests = calloc(cfg_t),    *)
(*     strdup("root"), then those of cfg_dupopt_array                      *)
(* ---------------------------------------------------------------------- *)
Theorem C18_init_flat : forall fuel h Gs k,
  template Gs -> Holds h (cells_gopts Gs) ->
  let N := nreq_init (gs_opts Gs) in
  exists h' out,
    run (cfg_init (S fuel) (gs_addr Gs)) h k = Ok out (mkst h' (k - N)) /\
    (hits k N -> out = Failed /\ HeapOK h [] h' []) /\
    (~ hits k N -> exists c, out = Done (gc_addr c) /\ HeapOK h [] h' (cells_gcfg c) /\
                             abs_cfg c = mkACfg (Some root_name) (map abs_opt (gs_opts Gs)) []).
Proof. exact C18_init_flat_lemma. Qed.
Print Assumptions C18_init_flat.

(* ---------------------------------------------------------------------- *)
(*  Exhaustive fault enumeration on the fixed instances of Oom.v, PART III *)
(*  (fault indices 0 .. 10; index 0 = no fault)                            *)
(* ---------------------------------------------------------------------- *)
Notation D := KDone.  Notation F := KFailed.

(* the instances satisfy the hypotheses of the theorems *)
Example inst_cfg_well_formed : WF_cfg inst_cfg_heap inst_cfg.
Proof. exists inst_gcfg. exact inst_cfg_wf. Qed.

(* 1: cfg_addval on a string option without values *)
Example enum_addval : map (inst_kind 1) (seq 0 11) = [D; F; F; D; D; D; D; D; D; D; D].
Proof. vm_compute. reflexivity. Qed.

(* 2: cfg_opt_setnstr(opt, "v", 0) on an option without values : strdup, realloc, calloc *)
Example enum_setnstr_new : map (inst_kind 2) (seq 0 11) = [D; F; F; F; D; D; D; D; D; D; D].
Proof. vm_compute. reflexivity. Qed.

(* 2, the three failing runs: no fresh block stays live except (k = 3, calloc of
   cfg_addval failed) the moved pointer array at address 2, which the option owns;
   the copy at address 1 has been freed again; nvalues is still 0 *)
Example enum_setnstr_new_failed :
  map (fun k => match run (cfg_opt_setnstr inst_opt (Some s_v) 0) inst_opt_heap k with
                | Ok (o, Failed) s => Some (fresh_live inst_opt_heap (heap_of s), o_values o, o_nvalues o)
                | _ => None end) [1; 2; 3]
  = [Some ([], None, 0); Some ([], None, 0); Some ([2], Some 2, 0)].
Proof. vm_compute. reflexivity. Qed.

(* 21: cfg_opt_setnstr(opt, "v", 0) on an option that has value 0 : strdup only *)
Example enum_setnstr_old : map (inst_kind 21) (seq 0 11) = [D; F; D; D; D; D; D; D; D; D; D].
Proof. vm_compute. reflexivity. Qed.

(* 3: cfg_opt_setcomment *)
Example enum_setcomment : map (inst_kind 3) (seq 0 11) = [D; F; D; D; D; D; D; D; D; D; D].
Proof. vm_compute. reflexivity. Qed.

(* 4: cfg_add_searchpath(cfg, "/etc") : strdup, malloc *)
Example enum_searchpath_plain : map (inst_kind 4) (seq 0 11) = [D; F; F; D; D; D; D; D; D; D; D].
Proof. vm_compute. reflexivity. Qed.

(* 41: cfg_add_searchpath(cfg, "~root/x"), passwd entry found : malloc user, malloc expanded, malloc node *)
Example enum_searchpath_user : map (inst_kind 41) (seq 0 11) = [D; F; F; F; D; D; D; D; D; D; D].
Proof. vm_compute. reflexivity. Qed.

(* 5: cfg_addopt(cfg, "k") on the initialised 3-option cfg *)
Example enum_addopt : map (inst_kind 5) (seq 0 11) = [D; F; F; D; D; D; D; D; D; D; D].
Proof. vm_compute. reflexivity. Qed.

(* 6: cfg_dupopt_array of { INT a; STR b = "x"; STR_LIST l = "{p}" } :
      calloc, name a, name b, string b, name l, parsed l *)
Example enum_dupopt : map (inst_kind 6) (seq 0 11) = [D; F; F; F; F; F; F; D; D; D; D].
Proof. vm_compute. reflexivity. Qed.

(* 7: cfg_init of the same template : calloc cfg, strdup "root", then the six above *)
Example enum_init : map (inst_kind 7) (seq 0 11) = [D; F; F; F; F; F; F; F; F; D; D].
Proof. vm_compute. reflexivity. Qed.

(* no instance ever crashes or runs out of fuel, for any fault index 0..40 *)
Example enum_no_crash :
  forallb (fun i => forallb (fun k => match inst_kind i k with KDone | KFailed => true | _ => false end)
                            (seq 0 41))
          [1; 2; 21; 3; 4; 41; 5; 6; 61; 7; 71] = true.
Proof. vm_compute. reflexivity. Qed.

(* ---------------------------------------------------------------------- *)
(*  PARTIAL: one level of sub-options (the recursive call of               *)
(*  cfg_dupopt_array / cfg_free_opt_array).  NOT covered by a general      *)
(*  theorem; checked by computation, for EVERY fault index, on the         *)
(*  instance { SEC s { INT i; STR t = "x" }; STR b = "x" } :               *)
(*  requests = calloc, name s, [calloc, name i, name t, string t],         *)
(*  name b, string b.  [dup_result_ok] checks: no Crash; old blocks        *)
(*  untouched; Failed => no new block is live; Done d => the new live      *)
(*  blocks are exactly the blocks reachable from d, each reached once.     *)
(* ---------------------------------------------------------------------- *)
Example dupopt_nested_partial_kinds :
  map (inst_kind 61) (seq 0 12) = [D; F; F; F; F; F; F; F; F; D; D; D].
Proof. vm_compute. reflexivity. Qed.

Example dupopt_nested_partial_no_leak_no_dangling :
  forallb (fun k => dup_result_ok inst_nested_heap
                      (run (cfg_dupopt_array 2 inst_nested) inst_nested_heap k)) (seq 0 41) = true.
Proof. vm_compute. reflexivity. Qed.

(* the same executable check agrees with the theorem on the flat instance 6 *)
Example dupopt_flat_check :
  forallb (fun k => dup_result_ok inst_template_heap
                      (run (cfg_dupopt_array 1 inst_template) inst_template_heap k)) (seq 0 41) = true.
Proof. vm_compute. reflexivity. Qed.

(* 71: cfg_init of the nested template : 2 + 8 requests *)
Example init_nested_partial_kinds :
  map (inst_kind 71) (seq 0 13) = [D; F; F; F; F; F; F; F; F; F; F; D; D].
Proof. vm_compute. reflexivity. Qed.

(* the table that OomExtract.v extracts *)
Example oom_table_value :
  oom_table tt = [ (1, [1; 2]); (2, [1; 2; 3]); (21, [1]); (3, [1]); (4, [1; 2]); (41, [1; 2; 3]);
                   (5, [1; 2]); (6, [1; 2; 3; 4; 5; 6]); (61, [1; 2; 3; 4; 5; 6; 7; 8]);
                   (7, [1; 2; 3; 4; 5; 6; 7; 8]); (71, [1; 2; 3; 4; 5; 6; 7; 8; 9; 10]) ].
Proof. vm_compute. reflexivity. Qed.

(* the old cfg_addopt on instance 5 with fault index 2: reports Failed as well,
   but leaves cfg->opts pointing to a freed block (see C18_addopt_old_refuted) *)
Example enum_addopt_old :
  map (fun k => kind_res kind_of_outcome (run (cfg_addopt_old inst_cfg s_k) inst_cfg_heap k)) (seq 0 5)
  = [D; F; F; D; D].
Proof. vm_compute. reflexivity. Qed.
