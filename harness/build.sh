#!/bin/sh
# build.sh VARIANT OUTDIR -- build OUTDIR/implrun from the CURRENT working tree of $REPO (default /repo).
#
#   VARIANT  plain  gcc -O1 -g
#            asan   gcc -O1 -g -fsanitize=address,undefined -fno-sanitize-recover=all -fno-omit-frame-pointer
#            count  gcc -O1 -g, confuse.c compiled with -include allocwrap.h, plus allocwrap.c
#                   (linked with ld --wrap for free/realloc/fclose, see allocwrap.c)
#   env      REPO, CC, EXTRA_CFLAGS, EXTRA_LDFLAGS, STATIC (default 1; 0 = do not pass -static)
#
# The library (confuse.c + freshly generated lexer.c) is linked into the executable, which is a fully
# static one for plain and count (the sanitizer runtime of asan cannot be linked with -static, there
# only the library is static).  Nothing under $REPO is written.  Exit status is non-zero when any
# step fails.
set -u

VARIANT=${1:-}
OUT=${2:-}
if [ -z "$VARIANT" ] || [ -z "$OUT" ]; then
	echo "usage: $0 plain|asan|count OUTDIR" >&2
	exit 2
fi
REPO=${REPO:-/repo}
CC=${CC:-gcc}
HERE=$(cd "$(dirname "$0")" && pwd) || exit 1
EXTRA_CFLAGS=${EXTRA_CFLAGS:-}
EXTRA_LDFLAGS=${EXTRA_LDFLAGS:-}

CFLAGS="-O1 -g"
CONFUSE_EXTRA=""
HARNESS_DEFS=""
LDEXTRA=""
[ "${STATIC:-1}" = 1 ] && LDEXTRA="-static"
case "$VARIANT" in
plain) ;;
asan)  LDEXTRA=""
       CFLAGS="$CFLAGS -fsanitize=address,undefined -fno-sanitize-recover=all -fno-omit-frame-pointer" ;;
count) CONFUSE_EXTRA="-include $HERE/allocwrap.h"
       HARNESS_DEFS="-DVERIF_COUNT"
       LDEXTRA="$LDEXTRA -Wl,--wrap=free -Wl,--wrap=realloc -Wl,--wrap=fclose" ;;
*)     echo "$0: unknown variant '$VARIANT'" >&2; exit 2 ;;
esac

mkdir -p "$OUT" || exit 1
flex -Pcfg_yy -o "$OUT/lexer.c" "$REPO/src/lexer.l" || { echo "$0: flex failed" >&2; exit 1; }

# library translation units: the flags prescribed for the project
libcc() {
	# shellcheck disable=SC2086
	$CC $CFLAGS $EXTRA_CFLAGS -DHAVE_CONFIG_H -D_GNU_SOURCE '-DLOCALEDIR="/x"' -I"$REPO" -I"$REPO/src" "$@"
}
# harness translation units
hcc() {
	# shellcheck disable=SC2086
	$CC $CFLAGS $EXTRA_CFLAGS -Wall -Wextra -D_GNU_SOURCE $HARNESS_DEFS -I"$REPO/src" -I"$HERE" "$@"
}

PIDS=""
# shellcheck disable=SC2086
libcc $CONFUSE_EXTRA -c "$REPO/src/confuse.c" -o "$OUT/confuse.o" & PIDS="$PIDS $!"
libcc -w -c "$OUT/lexer.c" -o "$OUT/lexer.o" & PIDS="$PIDS $!"
hcc -c "$HERE/implrun.c" -o "$OUT/implrun.o" & PIDS="$PIDS $!"
OBJS="$OUT/confuse.o $OUT/lexer.o $OUT/implrun.o"
if [ "$VARIANT" = count ]; then
	hcc -c "$HERE/allocwrap.c" -o "$OUT/allocwrap.o" & PIDS="$PIDS $!"
	OBJS="$OBJS $OUT/allocwrap.o"
fi
FAIL=0
for p in $PIDS; do
	wait "$p" || FAIL=1
done
if [ "$FAIL" -ne 0 ]; then
	echo "$0: compilation failed" >&2
	exit 1
fi

rm -f "$OUT/implrun"
# shellcheck disable=SC2086
$CC $CFLAGS $EXTRA_CFLAGS $OBJS $LDEXTRA $EXTRA_LDFLAGS -o "$OUT/implrun" || { echo "$0: link failed" >&2; exit 1; }
exit 0
