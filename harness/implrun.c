/*
 * implrun.c -- scenario interpreter for libconfuse (C side of /verif/docs/SCENARIO.md).
 *
 *   implrun FILE ROOT
 *
 * Reads a multi-scenario file, runs every scenario in a forked child and writes
 * the canonical result lines to its own stdout.  All harness functions are
 * prefixed h_ (except main and the interposed getpwnam/getpwuid), so that the
 * sanitizer summary can skip harness frames.
 */
#ifndef _GNU_SOURCE
# define _GNU_SOURCE
#endif
#include <errno.h>
#include <sys/resource.h>
#include <fcntl.h>
#include <ftw.h>
#include <limits.h>
#include <pwd.h>
#include <signal.h>
#include <stdarg.h>
#include <stdint.h>
#include <stdio.h>
#include <stdlib.h>
#include <string.h>
#include <sys/stat.h>
#include <sys/types.h>
#include <sys/wait.h>
#include <unistd.h>

#include "confuse.h"

/* library symbols that are not in confuse.h */
extern int cfg_yylex(cfg_t *cfg);
extern char *cfg_yylval;
extern void cfg_scan_fp_begin(FILE *fp);
extern void cfg_scan_fp_end(void);
extern int cfg_include_stack_ptr;

#ifdef VERIF_COUNT
extern void vw_failalloc(long k);
extern void vw_live(long *blocks, long *files);
extern void vw_report(FILE *to);
#endif

#if defined(__SANITIZE_ADDRESS__)
/* equivalent of ASAN_OPTIONS/UBSAN_OPTIONS/LSAN_OPTIONS; the environment is not
 * effective because every scenario child calls clearenv() and the runtime has
 * already started */
const char *__asan_default_options(void)
{
	return "detect_leaks=1:exitcode=77:abort_on_error=0:allocator_may_return_null=1";
}
const char *__ubsan_default_options(void) { return "print_stacktrace=1"; }
/* `exitcode` is one flag shared by ASan and LSan (an exitcode=78 here would also apply to ASan
 * errors), so the LSan exit status 78 is produced by an explicit leak check at the scenario end */
const char *__lsan_default_options(void) { return "print_suppressions=0"; }
extern int __lsan_do_recoverable_leak_check(void);
#endif

#define H_MAXID 64		/* context ids and schema ids are 0..63 */
#define H_MAXTOK 256
#define H_NK 4			/* scripted callbacks exist for K = 0..3 */

/* ------------------------------------------------------------------ buffers */

typedef struct { char *p; size_t n, cap; } h_buf;

static void h_die(const char *what)
{
	fprintf(stderr, "implrun: %s: %s\n", what, strerror(errno));
	exit(99);
}

static void *h_xrealloc(void *p, size_t n)
{
	p = realloc(p, n ? n : 1);
	if (!p)
		h_die("out of memory");
	return p;
}

static void h_buf_add(h_buf *b, const void *s, size_t n)
{
	if (b->n + n + 1 > b->cap) {
		b->cap = (b->n + n + 1) * 2;
		b->p = h_xrealloc(b->p, b->cap);
	}
	memcpy(b->p + b->n, s, n);
	b->n += n;
	b->p[b->n] = 0;
}

static void h_buf_puts(h_buf *b, const char *s) { h_buf_add(b, s, strlen(s)); }

static void h_buf_printf(h_buf *b, const char *fmt, ...)
{
	char tmp[128];
	va_list ap;

	va_start(ap, fmt);
	vsnprintf(tmp, sizeof(tmp), fmt, ap);	/* only used for short numeric pieces */
	va_end(ap);
	h_buf_puts(b, tmp);
}

/* HEX of n bytes, `.` for the empty string */
static void h_buf_hex(h_buf *b, const void *s, size_t n)
{
	static const char dig[] = "0123456789abcdef";
	const unsigned char *u = s;
	size_t i;

	if (n == 0)
		h_buf_puts(b, ".");
	for (i = 0; i < n; i++) {
		char two[2] = { dig[u[i] >> 4], dig[u[i] & 15] };
		h_buf_add(b, two, 2);
	}
}

/* HEX of a C string, `-` for NULL */
static void h_buf_hexs(h_buf *b, const char *s)
{
	if (!s)
		h_buf_puts(b, "-");
	else
		h_buf_hex(b, s, strlen(s));
}

static const char *h_buf_str(const h_buf *b) { return b->p ? b->p : ""; }
static void h_buf_reset(h_buf *b) { b->n = 0; if (b->p) b->p[0] = 0; }
static void h_buf_free(h_buf *b) { free(b->p); memset(b, 0, sizeof(*b)); }
static void h_buf_sep(h_buf *b) { if (b->n) h_buf_puts(b, ";"); }	/* before a new list entry */

static void h_buf_bits(h_buf *b, double d)
{
	uint64_t u;

	memcpy(&u, &d, sizeof(u));
	h_buf_printf(b, "%016llx", (unsigned long long)u);
}

/* ------------------------------------------------------------- global state */

static FILE *h_res;			/* result stream = dup of the original stdout */
static int h_capfd = -1;		/* temp file behind fd 1 of the child */
static char h_scndir[PATH_MAX];		/* absolute scenario directory, replaces @R */
static int h_saved_errno;
static h_buf h_diags, h_cbs;		/* pending diagnostics / callback log */
static long h_failat;			/* countdown of logged invocations, 0 = disarmed */
static int h_skip;			/* needplain seen in an instrumented build */
static int h_in_parse;			/* a parse command is running: callbacks get the owning context */
static int h_cberror;			/* refusing callbacks call cfg_error(cfg, ...) before they return */
static unsigned h_next_ptr_id;
static cfg_t *h_ctx[H_MAXID];
static cfg_t *h_lexcfg;
static cfg_opt_t h_noopts[1];		/* = { CFG_END() } */
static char h_setter;			/* 'i' 'f' 's' while setint/setfloat/setstr runs */
static char *h_strcb_buf;		/* result buffer of the str parse callback */

/* HEX of a path coming back from the library: a leading scenario directory is shown as @R */
static void h_buf_hexpath(h_buf *b, const char *s)
{
	size_t n = strlen(h_scndir);

	if (s && n && !strncmp(s, h_scndir, n) && (s[n] == '/' || !s[n])) {
		h_buf_hex(b, "@R", 2);
		if (s[n])
			h_buf_hexs(b, s + n);
	} else {
		h_buf_hexs(b, s);
	}
}

/* the library call sequence of a command sees/updates the scripted errno */
#define H_LIB(...) do { errno = h_saved_errno; __VA_ARGS__; h_saved_errno = errno; } while (0)

/* command line being interpreted */
static char *h_a[H_MAXTOK];
static int h_na;
static int h_bad;			/* malformed / missing argument seen */

/* per-command arena: decoded arguments live until the command is done */
static void **h_tmps;
static size_t h_ntmps, h_captmps;

static void *h_keep(void *p)
{
	if (h_ntmps == h_captmps) {
		h_captmps = h_captmps ? h_captmps * 2 : 64;
		h_tmps = h_xrealloc(h_tmps, h_captmps * sizeof(*h_tmps));
	}
	return h_tmps[h_ntmps++] = p;
}

static void h_tmp_free(void)
{
	while (h_ntmps)
		free(h_tmps[--h_ntmps]);
}

/* --------------------------------------------------------- argument decoding */

static int h_hexval(int c)
{
	if (c >= '0' && c <= '9') return c - '0';
	if (c >= 'a' && c <= 'f') return c - 'a' + 10;
	return -1;
}

/* HEX token -> arena bytes (NUL terminated); `-` -> NULL, `.` -> "" */
static char *h_unhex(const char *t, size_t *len)
{
	size_t i, n = strlen(t);
	char *r;

	*len = 0;
	if (!strcmp(t, "-"))
		return NULL;
	if (!strcmp(t, "."))
		n = 0;
	if (n % 2) {
		h_bad = 1;
		n = 0;
	}
	r = h_keep(h_xrealloc(NULL, n / 2 + 1));
	for (i = 0; i < n / 2; i++) {
		int hi = h_hexval(t[2 * i]), lo = h_hexval(t[2 * i + 1]);

		if (hi < 0 || lo < 0) {
			h_bad = 1;
			break;
		}
		r[i] = (char)(hi * 16 + lo);
	}
	r[i] = 0;
	*len = i;
	return r;
}

static const char *h_arg(int i)
{
	if (i < h_na)
		return h_a[i];
	h_bad = 1;
	return "";
}

static char *h_bytes(int i, size_t *len) { return h_unhex(h_arg(i), len); }
static char *h_str(int i) { size_t n; return h_unhex(h_arg(i), &n); }

/* path-valued HEX argument: a leading @R becomes the scenario directory */
static char *h_pathstr(int i)
{
	char *s = h_str(i), *r;

	if (!s || strncmp(s, "@R", 2))
		return s;
	r = h_keep(h_xrealloc(NULL, strlen(h_scndir) + strlen(s)));
	strcpy(r, h_scndir);
	strcat(r, s + 2);
	return r;
}

static long h_long(int i)
{
	const char *t = h_arg(i);
	char *end;
	long v;

	errno = 0;
	v = strtol(t, &end, 10);
	if (!*t || *end || errno)
		h_bad = 1;
	return v;
}

static unsigned int h_uint(int i)
{
	const char *t = h_arg(i);
	char *end;
	unsigned long v;

	errno = 0;
	v = strtoul(t, &end, 10);
	if (!*t || *t == '-' || *end || errno)
		h_bad = 1;
	return (unsigned int)v;		/* wider values wrap modulo 2^32 like a C caller's cast */
}

static double h_bits(int i)
{
	const char *t = h_arg(i);
	char *end;
	uint64_t u;
	double d;

	errno = 0;
	u = strtoull(t, &end, 16);
	if (strlen(t) != 16 || *end || errno)
		h_bad = 1;
	memcpy(&d, &u, sizeof(d));
	return d;
}

static int h_kidx(long k) { return (int)(((k % H_NK) + H_NK) % H_NK); }

/* ------------------------------------------------------------ result lines */

/* HEX of what the library wrote to (the child's) stdout since the last call */
static void h_capture(h_buf *hex)
{
	off_t n;
	char *tmp;

	fflush(stdout);
	n = lseek(h_capfd, 0, SEEK_END);
	if (n < 0)
		n = 0;
	tmp = h_xrealloc(NULL, (size_t)n + 1);
	n = pread(h_capfd, tmp, (size_t)n, 0);
	h_buf_hex(hex, tmp, n > 0 ? (size_t)n : 0);
	free(tmp);
	if (ftruncate(h_capfd, 0) != 0 || lseek(h_capfd, 0, SEEK_SET) != 0)
		h_die("captured stdout");
}

/* a line without the standard fields */
static void h_line(const char *fmt, ...)
{
	va_list ap;

	va_start(ap, fmt);
	vfprintf(h_res, fmt, ap);
	va_end(ap);
	fputc('\n', h_res);
}

/* `<cmd> <fields> diags=[..] cbs=[..] out=HEX incptr=N` */
static void h_std(const char *cmd, const char *fmt, ...)
{
	h_buf out = { 0 };
	va_list ap;

	fprintf(h_res, "%s ", cmd);
	va_start(ap, fmt);
	vfprintf(h_res, fmt, ap);
	va_end(ap);
	h_capture(&out);
	fprintf(h_res, " diags=[%s] cbs=[%s] out=%s incptr=%d\n", h_buf_str(&h_diags), h_buf_str(&h_cbs),
		h_buf_str(&out), cfg_include_stack_ptr);
	h_buf_free(&out);
}

/* ------------------------------------------- error function and callbacks */

static int h_errtag;		/* set by the second error function: its entries are tagged ALT_ */

static void h_errfunc(cfg_t *cfg, const char *fmt, va_list ap)
{
	const char *p;

	(void)ap;		/* the arguments are deliberately not formatted */
	h_buf_sep(&h_diags);
	h_buf_hexpath(&h_diags, cfg->filename);
	h_buf_printf(&h_diags, ",%d,%s", cfg->line, h_errtag ? "ALT_" : "");
	for (p = fmt; p && *p; p++) {
		int ok = (*p >= 'A' && *p <= 'Z') || (*p >= 'a' && *p <= 'z') || (*p >= '0' && *p <= '9') || *p == '%';
		char c = ok ? *p : '_';

		h_buf_add(&h_diags, &c, 1);
	}
}

/* a second error function (command `errfunc C 1`): same log, entries tagged */
static void h_errfunc_alt(cfg_t *cfg, const char *fmt, va_list ap)
{
	h_errtag = 1;
	h_errfunc(cfg, fmt, ap);
	h_errtag = 0;
}

#define h_cb_end(cfg, opt) h_cb_end_x(cfg, opt, 0)
/* start a callback log entry `<tag><K>:NAME` */
static void h_cb_begin(char tag, int k, cfg_opt_t *opt)
{
	h_buf_sep(&h_cbs);
	h_buf_printf(&h_cbs, "%c%d:", tag, k);
	h_buf_hexs(&h_cbs, opt->name);
}

/* finish a counted entry; returns 1 when this invocation has to fail (failat).  The context a callback
 * is handed is the one that owns the option: anything else is marked `?ctx` in the entry. */
static int h_cb_end_x(cfg_t *cfg, cfg_opt_t *opt, int owns)
{
	int i;

	for (i = 0; cfg && cfg->opts && cfg->opts[i].name; i++)
		if (&cfg->opts[i] == opt)
			owns = 1;
	if (!owns && h_in_parse && opt->type != CFGT_FUNC)
		h_buf_puts(&h_cbs, "?ctx");
	if (h_failat > 0 && --h_failat == 0) {
		h_buf_puts(&h_cbs, "!");
		if (h_cberror)
			cfg_error(cfg, "callback refused '%s'", opt->name);
		return 1;
	}
	return 0;
}

typedef struct { unsigned magic, id; } h_ptrblk;
#define H_PTR_MAGIC 0x70747221u

static int h_parse(int k, cfg_t *cfg, cfg_opt_t *opt, const char *value, void *result)
{
	size_t i, len = value ? strlen(value) : 0;

	(void)cfg;
	h_cb_begin('p', k, opt);
	h_buf_puts(&h_cbs, ":");
	h_buf_hexs(&h_cbs, value);
	if (h_cb_end(cfg, opt))
		return 1;
	switch (opt->type) {
	case CFGT_INT:
		*(long *)result = (long)len + k;
		break;
	case CFGT_FLOAT:
		*(double *)result = (double)(len + (size_t)k);
		break;
	case CFGT_BOOL:
		*(int *)result = (int)(len % 2);	/* cfg_setopt passes the address of an int */
		break;
	case CFGT_STR:
		free(h_strcb_buf);	/* the library strdup()s the result right after the call */
		h_strcb_buf = h_xrealloc(NULL, len + 1);
		for (i = 0; i < len; i++)
			h_strcb_buf[i] = value[len - 1 - i];
		h_strcb_buf[len] = 0;
		*(const char **)result = h_strcb_buf;
		break;
	case CFGT_PTR: {
		h_ptrblk *b = h_xrealloc(NULL, sizeof(*b));

		b->magic = H_PTR_MAGIC;
		b->id = ++h_next_ptr_id;
		*(void **)result = b;
		break;
	}
	default:
		break;
	}
	if (k == 3)
		errno = ERANGE;	/* script 3 also leaves a stale errno behind, as a callback calling strtol() may */
	return 0;
}

static void h_ptr_free(void *value)
{
	h_ptrblk *b = value;

	h_buf_sep(&h_cbs);
	if (b->magic != H_PTR_MAGIC) {	/* not (or no longer) one of our blocks: log, do not free */
		h_buf_puts(&h_cbs, "x:bad");
		return;
	}
	h_buf_printf(&h_cbs, "x:%u", b->id);
	b->magic = 0;
	free(b);
}

static int h_valid(int k, cfg_t *cfg, cfg_opt_t *opt)
{
	(void)cfg;
	h_cb_begin('v', k, opt);
	h_buf_printf(&h_cbs, ":%u", cfg_opt_size(opt));
	return h_cb_end(cfg, opt);
}

static int h_valid2(int k, cfg_t *cfg, cfg_opt_t *opt, void *value)
{
	/* what `value` is depends on the calling setter, not on the option type */
	char kind = h_setter ? h_setter : opt->type == CFGT_INT ? 'i' : opt->type == CFGT_FLOAT ? 'f' :
		    opt->type == CFGT_STR ? 's' : '?';

	(void)cfg;
	h_cb_begin('w', k, opt);
	h_buf_puts(&h_cbs, ":");
	if (kind == 'i')
		h_buf_printf(&h_cbs, "%ld", *(long *)value);
	else if (kind == 'f')
		h_buf_bits(&h_cbs, *(double *)value);
	else if (kind == 's')
		h_buf_hexs(&h_cbs, (const char *)value);
	else
		h_buf_puts(&h_cbs, "?");
	if (h_cb_end_x(cfg, opt, 1) /* a by-name setter hands over the context it was called with */)
		return 1;
	if (k == 1 && kind == 'i' && *(long *)value < 0)
		*(long *)value = (long)(0UL - (unsigned long)*(long *)value);	/* LONG_MIN stays LONG_MIN */
	if (k == 1 && kind == 'f') {
		uint64_t u;

		memcpy(&u, value, sizeof(u));
		u &= ~(1ULL << 63);	/* clear the sign bit (also of NaNs and -0.0) */
		memcpy(value, &u, sizeof(u));
	}
	return 0;
}

static int h_func(int k, cfg_t *cfg, cfg_opt_t *opt, int argc, const char **argv)
{
	int i;

	(void)cfg;
	h_cb_begin('f', k, opt);
	h_buf_printf(&h_cbs, ":%d:", argc);
	for (i = 0; i < argc; i++) {
		if (i)
			h_buf_puts(&h_cbs, ",");
		h_buf_hexs(&h_cbs, argv[i]);
	}
	return h_cb_end(cfg, opt);
}

/* `nest:K` function option: parses its first argument as a text into context K while the calling parse is
 * still running (the scanner supports that), and logs `nK:NAME:TEXT` followed by an entry `r:RC` */
static int h_nest(int k, cfg_t *cfg, cfg_opt_t *opt, int argc, const char **argv)
{
	int rc = -99;

	(void)cfg;
	h_cb_begin('n', k, opt);
	h_buf_puts(&h_cbs, ":");
	h_buf_hexs(&h_cbs, argc > 0 ? argv[0] : NULL);
	if (h_cb_end(cfg, opt))
		return 1;
	if (argc > 0 && h_ctx[k])
		rc = cfg_parse_buf(h_ctx[k], argv[0]);
	h_buf_sep(&h_cbs);
	h_buf_printf(&h_cbs, "r:%d", rc);
	return 0;
}

static void h_print(int k, cfg_opt_t *opt, unsigned int index, FILE *fp)
{
	(void)k;
	fprintf(fp, "<%s#%u>", opt->name, index);
}

/* C callbacks carry no closure: one function per script number K */
#define H_FAMILY(K) \
	static int h_parse_##K(cfg_t *c, cfg_opt_t *o, const char *v, void *r) { return h_parse(K, c, o, v, r); } \
	static int h_valid_##K(cfg_t *c, cfg_opt_t *o) { return h_valid(K, c, o); } \
	static int h_valid2_##K(cfg_t *c, cfg_opt_t *o, void *v) { return h_valid2(K, c, o, v); } \
	static int h_func_##K(cfg_t *c, cfg_opt_t *o, int n, const char **v) { return h_func(K, c, o, n, v); } \
	static int h_nest_##K(cfg_t *c, cfg_opt_t *o, int n, const char **v) { return h_nest(K, c, o, n, v); } \
	static void h_print_##K(cfg_opt_t *o, unsigned int i, FILE *fp) { h_print(K, o, i, fp); }
H_FAMILY(0) H_FAMILY(1) H_FAMILY(2) H_FAMILY(3)
#define H_TAB(name) { h_##name##_0, h_##name##_1, h_##name##_2, h_##name##_3 }
static const cfg_callback_t h_parse_tab[H_NK] = H_TAB(parse);
static const cfg_validate_callback_t h_valid_tab[H_NK] = H_TAB(valid);
static const cfg_validate_callback2_t h_valid2_tab[H_NK] = H_TAB(valid2);
static const cfg_func_t h_func_tab[H_NK] = H_TAB(func);
static const cfg_func_t h_nest_tab[H_NK] = H_TAB(nest);
static const cfg_print_func_t h_print_tab[H_NK] = H_TAB(print);

/* ------------------------------------------------------------- print filter */

typedef struct { cfg_t *sec; int ctx; char **names; int n; int slot; } h_filt;
static h_filt *h_filts;
static int h_nfilts;

/* The library hands a context's filter FUNCTION down to sections without one of their own, so the
 * name set must be bound to the function, not to the section being printed: one function per slot. */
#define H_NSLOT 16
static int h_filter_slot(int slot, cfg_opt_t *opt)
{
	int i, j;

	for (i = 0; i < h_nfilts; i++) {
		if (h_filts[i].slot != slot)
			continue;
		for (j = 0; j < h_filts[i].n; j++)
			if (opt->name && !strcmp(opt->name, h_filts[i].names[j]))
				return 1;
		return 0;
	}
	return 0;
}
#define H_FILT(k) static int h_filter_##k(cfg_t *cfg, cfg_opt_t *opt) { (void)cfg; return h_filter_slot(k, opt); }
H_FILT(0) H_FILT(1) H_FILT(2) H_FILT(3) H_FILT(4) H_FILT(5) H_FILT(6) H_FILT(7)
H_FILT(8) H_FILT(9) H_FILT(10) H_FILT(11) H_FILT(12) H_FILT(13) H_FILT(14) H_FILT(15)
static const cfg_print_filter_func_t h_filter_fn[H_NSLOT] = {
	h_filter_0, h_filter_1, h_filter_2, h_filter_3, h_filter_4, h_filter_5, h_filter_6, h_filter_7,
	h_filter_8, h_filter_9, h_filter_10, h_filter_11, h_filter_12, h_filter_13, h_filter_14, h_filter_15 };

static void h_filt_drop(int i)
{
	while (h_filts[i].n)
		free(h_filts[i].names[--h_filts[i].n]);
	free(h_filts[i].names);
	h_filts[i] = h_filts[--h_nfilts];
}

/* position of `target` (a cfg_opt_t* or a section cfg_t*) below cfg: /i.v/j... */
static int h_find(cfg_t *cfg, const void *target, h_buf *b)
{
	unsigned int i, v, n = cfg_num(cfg);

	for (i = 0; i < n; i++) {
		cfg_opt_t *o = cfg_getnopt(cfg, i);
		size_t mark = b->n;

		if (o == target) {
			h_buf_printf(b, "/%u", i);
			return 1;
		}
		if (o->type != CFGT_SEC)
			continue;
		for (v = 0; v < cfg_opt_size(o); v++) {
			cfg_t *s = cfg_opt_getnsec(o, v);

			if (!s)
				continue;
			h_buf_printf(b, "/%u.%u", i, v);
			if (s == target || h_find(s, target, b))
				return 1;
			b->n = mark;
			b->p[mark] = 0;
		}
	}
	return 0;
}

/* forget filter entries whose section is gone (its address may be recycled) */
static void h_filt_purge(void)
{
	int i;

	for (i = h_nfilts - 1; i >= 0; i--) {
		cfg_t *root = h_ctx[h_filts[i].ctx];
		h_buf b = { 0 };

		if (!root || (root != h_filts[i].sec && !h_find(root, h_filts[i].sec, &b)))
			h_filt_drop(i);
		h_buf_free(&b);
	}
}

/* ------------------------------------------------------------------ schemas */

typedef struct { void *p; size_t n; } h_blk;
typedef struct {
	int state;		/* 0 undefined, 1 live, 2 poisoned */
	cfg_opt_t *opts;
	h_blk *blk;		/* every block handed to the library, for poison */
	size_t nblk;
} h_schema;
static h_schema h_schemas[H_MAXID];

static void *h_salloc(h_schema *sc, size_t n)
{
	void *p = calloc(1, n ? n : 1);

	if (!p)
		h_die("out of memory");
	sc->blk = h_xrealloc(sc->blk, (sc->nblk + 1) * sizeof(*sc->blk));
	sc->blk[sc->nblk].p = p;
	sc->blk[sc->nblk++].n = n ? n : 1;
	return p;
}

/* a HEX token as an individually allocated schema string (NULL for `-`) */
static char *h_sstr(h_schema *sc, const char *tok)
{
	size_t n;
	char *s = h_unhex(tok, &n), *r;

	if (!s)
		return NULL;
	r = h_salloc(sc, strlen(s) + 1);
	strcpy(r, s);
	return r;
}

static void h_schema_release(h_schema *sc, int poison)
{
	size_t i;

	if (sc->state == 1)
		for (i = 0; i < sc->nblk; i++) {
			if (poison)
				memset(sc->blk[i].p, 0xAA, sc->blk[i].n);
			free(sc->blk[i].p);
		}
	free(sc->blk);
	sc->blk = NULL;
	sc->nblk = 0;
	sc->opts = NULL;
	sc->state = poison ? 2 : 0;
}

/* schema tokenizer: `(` and `)` are tokens of their own, blanks separate; "" at the end */
static char *h_stok(const char **pp)
{
	const char *p = *pp, *start;
	char *r;

	while (*p == ' ')
		p++;
	start = p;
	if (*p == '(' || *p == ')')
		p++;
	else
		while (*p && *p != ' ' && *p != '(' && *p != ')')
			p++;
	r = h_keep(h_xrealloc(NULL, (size_t)(p - start) + 1));
	memcpy(r, start, (size_t)(p - start));
	r[p - start] = 0;
	*pp = p;
	return r;
}

static long h_tok_long(const char *t)
{
	char *end;
	long v;

	errno = 0;
	v = strtol(t, &end, 10);
	if (!*t || *end || errno)
		h_bad = 1;
	return v;
}

static cfg_opt_t *h_schema_list(h_schema *sc, const char **pp);

/* one `(KIND NAME ...)`, the opening parenthesis already consumed */
static void h_schema_opt(h_schema *sc, const char **pp, cfg_opt_t *o)
{
	const char *kind = h_stok(pp), *t;
	size_t kl = strlen(kind);
	int list = kl > 3 && kind[kl - 1] == 'l' && strcmp(kind, "bool"), defparse = 0;

	memset(o, 0, sizeof(*o));
	o->name = h_sstr(sc, h_stok(pp));
	if (!strcmp(kind, "func")) {
		o->type = CFGT_FUNC;
		t = h_stok(pp);
		if (!strcmp(t, "include"))
			o->func = cfg_include;
		else if (!strncmp(t, "user:", 5))
			o->func = h_func_tab[h_kidx(h_tok_long(t + 5))];
		else if (!strncmp(t, "nest:", 5))
			o->func = h_nest_tab[h_kidx(h_tok_long(t + 5))];
		else
			h_bad = 1;
	} else {
		o->flags = (cfg_flag_t)h_tok_long(h_stok(pp)) | (list ? CFGF_LIST : 0);
		if (!strcmp(kind, "sec")) {
			o->type = CFGT_SEC;
			if (strcmp(h_stok(pp), "("))
				h_bad = 1;
			else
				o->subopts = h_schema_list(sc, pp);
		} else if (!strcmp(kind, "ptr")) {
			o->type = CFGT_PTR;
			defparse = 1;
		} else {
			t = h_stok(pp);		/* the default */
			if (list) {
				o->type = !strcmp(kind, "intl") ? CFGT_INT : !strcmp(kind, "fltl") ? CFGT_FLOAT :
					  !strcmp(kind, "booll") ? CFGT_BOOL : !strcmp(kind, "strl") ? CFGT_STR :
					  !strcmp(kind, "ptrl") ? CFGT_PTR : CFGT_NONE;
				o->def.parsed = h_sstr(sc, t);
				defparse = o->type == CFGT_PTR;
			} else if (!strcmp(kind, "sint")) {	/* CFG_SIMPLE_INT: the value lives in a user variable */
				static long h_simple_vars[64];
				static unsigned int h_simple_next;
				long *var = &h_simple_vars[h_simple_next++ % 64];

				o->type = CFGT_INT;
				*var = h_tok_long(t);
				o->simple_value.number = var;
			} else if (!strcmp(kind, "int")) {
				o->type = CFGT_INT;
				o->def.number = h_tok_long(t);
			} else if (!strcmp(kind, "flt")) {
				char *end;
				uint64_t u = strtoull(t, &end, 16);

				o->type = CFGT_FLOAT;
				if (strlen(t) != 16 || *end)
					h_bad = 1;
				memcpy(&o->def.fpnumber, &u, sizeof(u));
			} else if (!strcmp(kind, "bool")) {
				o->type = CFGT_BOOL;
				o->def.boolean = h_tok_long(t) ? cfg_true : cfg_false;
			} else if (!strcmp(kind, "str")) {
				o->type = CFGT_STR;
				o->def.string = h_sstr(sc, t);
			}
			if (o->type == CFGT_NONE)
				h_bad = 1;
		}
		if (o->type == CFGT_PTR)
			o->freecb = h_ptr_free;
	}
	/* CB* up to the closing parenthesis */
	while (!h_bad && strcmp(t = h_stok(pp), ")")) {
		const char *colon = strchr(t, ':');
		int k = colon ? h_kidx(h_tok_long(colon + 1)) : 0;

		if (!colon)
			h_bad = 1;
		else if (!strncmp(t, "parse:", 6))
			o->parsecb = h_parse_tab[k], defparse = 0;
		else if (!strncmp(t, "noparse:", 8))	/* a pointer option declared WITHOUT a value parser */
			o->parsecb = NULL, defparse = 0;
		else if (!strncmp(t, "valid:", 6))
			o->validcb = h_valid_tab[k];
		else if (!strncmp(t, "valid2:", 7))
			o->validcb2 = h_valid2_tab[k];
		else if (!strncmp(t, "print:", 6))
			o->pf = h_print_tab[k];
		else
			h_bad = 1;
	}
	if (defparse)
		o->parsecb = h_parse_tab[0];
}

/* `OPT* )` after an opening parenthesis -> CFG_END()-terminated array block */
static cfg_opt_t *h_schema_list(h_schema *sc, const char **pp)
{
	cfg_opt_t *tmp = NULL, *arr;
	size_t n = 0;

	while (!h_bad) {
		const char *t = h_stok(pp);

		if (!strcmp(t, ")"))
			break;
		if (strcmp(t, "(")) {
			h_bad = 1;
			break;
		}
		tmp = h_xrealloc(tmp, (n + 1) * sizeof(*tmp));
		h_schema_opt(sc, pp, &tmp[n++]);
	}
	arr = h_salloc(sc, (n + 1) * sizeof(*arr));	/* zeroed: last entry is CFG_END() */
	if (n)
		memcpy(arr, tmp, n * sizeof(*arr));
	free(tmp);
	return arr;
}

/* `schema S (OPT ...)`, parsed from the raw line */
static void h_c_schema(const char *line)
{
	const char *p = line + strlen("schema");
	long s = h_tok_long(h_stok(&p));
	h_schema *sc;

	if (h_bad || s < 0 || s >= H_MAXID || strcmp(h_stok(&p), "(")) {
		h_line("schema rc=badargs");
		return;
	}
	sc = &h_schemas[s];
	h_schema_release(sc, 0);
	sc->state = 1;
	sc->opts = h_schema_list(sc, &p);
	while (*p == ' ')
		p++;
	if (h_bad || *p) {
		h_schema_release(sc, 0);
		h_line("schema rc=badargs");
		return;
	}
	h_line("schema");
}

/* --------------------------------------------- fake passwd table, files */

typedef struct { char *user, *home; } h_pw;
static h_pw *h_pws;
static size_t h_npws;
static char *h_pwself;
static struct passwd h_pwent;

struct passwd *getpwnam(const char *name)
{
	size_t i;

	for (i = 0; i < h_npws; i++)
		if (!strcmp(h_pws[i].user, name)) {
			h_pwent.pw_name = h_pws[i].user;
			h_pwent.pw_passwd = (char *)"x";
			h_pwent.pw_uid = 1000;
			h_pwent.pw_gid = 1000;
			h_pwent.pw_gecos = (char *)"";
			h_pwent.pw_dir = h_pws[i].home;
			h_pwent.pw_shell = (char *)"/bin/sh";
			return &h_pwent;
		}
	return NULL;
}

struct passwd *getpwuid(uid_t uid)
{
	(void)uid;
	return h_pwself ? getpwnam(h_pwself) : NULL;
}

static int h_rm_cb(const char *path, const struct stat *st, int flag, struct FTW *ftw)
{
	(void)st; (void)flag; (void)ftw;
	return remove(path);
}

static void h_rmrf(const char *path) { nftw(path, h_rm_cb, 16, FTW_DEPTH | FTW_PHYS); }

/* mkdir -p of path (all = 1) or of its parent directories only */
static int h_mkdirs(const char *path, int all)
{
	char *copy = strdup(path), *p;
	int rc = 0;

	if (!copy)
		h_die("out of memory");
	for (p = copy + 1; *p; p++)
		if (*p == '/') {
			*p = 0;
			if (mkdir(copy, 0777) != 0 && errno != EEXIST)
				rc = -1;
			*p = '/';
		}
	if (all && mkdir(copy, 0777) != 0 && errno != EEXIST)
		rc = -1;
	free(copy);
	return rc;
}

/* the harness only ever touches files below the scenario directory */
static int h_path_ok(const char *p)
{
	size_t n = strlen(h_scndir);

	if (!p || !*p || strstr(p, "/../") || !strncmp(p, "../", 3) || !strcmp(p, "..") ||
	    (strlen(p) >= 3 && !strcmp(p + strlen(p) - 3, "/..")))
		return 0;
	return p[0] != '/' || (!strncmp(p, h_scndir, n) && p[n] == '/');
}

/* ---------------------------------------------------------------- commands */

/* ambient state: env unsetenv errno file passwd passwd_self failat */
static void h_c_ambient(const char *cmd, cfg_t *cfg)
{
	int ok = 1;

	(void)cfg;
	if (!strcmp(cmd, "env")) {
		char *name = h_str(1), *val = h_str(2);

		ok = !h_bad && name && val && setenv(name, val, 1) == 0;
	} else if (!strcmp(cmd, "envroot")) {	/* NAME := absolute name of the scenario directory */
		char *name = h_str(1);

		ok = !h_bad && name && setenv(name, h_scndir, 1) == 0;
	} else if (!strcmp(cmd, "unsetenv")) {
		char *name = h_str(1);

		ok = !h_bad && name && unsetenv(name) == 0;
	} else if (!strcmp(cmd, "errno")) {
		long v = h_long(1);

		if (!h_bad)
			h_saved_errno = (int)v;
	} else if (!strcmp(cmd, "failat")) {
		long v = h_long(1);

		if (!h_bad)
			h_failat = v > 0 ? v : 0;
	} else if (!strcmp(cmd, "stacklimit")) {	/* stacklimit KB: RLIMIT_STACK of this (forked) scenario process */
		long v = h_long(1);
		struct rlimit rl;

		if (!h_bad && v > 0 && getrlimit(RLIMIT_STACK, &rl) == 0) {
			rl.rlim_cur = (rlim_t)v * 1024;
			ok = setrlimit(RLIMIT_STACK, &rl) == 0;
		}
	} else if (!strcmp(cmd, "cberror")) {	/* a refusing callback reports through cfg_error() first (library only) */
		long v = h_long(1);

		if (!h_bad)
			h_cberror = v != 0;
	} else if (!strcmp(cmd, "passwd")) {
		char *user = h_str(1), *home = h_pathstr(2);
		size_t i;

		if (h_bad || !user || !home) {
			h_bad = 1;
			return;
		}
		for (i = 0; i < h_npws && strcmp(h_pws[i].user, user); i++)
			;
		if (i == h_npws) {
			h_pws = h_xrealloc(h_pws, (h_npws + 1) * sizeof(*h_pws));
			h_pws[h_npws].user = strdup(user);
			h_pws[h_npws++].home = NULL;
		}
		free(h_pws[i].home);
		h_pws[i].home = strdup(home);
	} else if (!strcmp(cmd, "passwd_self")) {
		char *user = h_str(1);

		if (h_bad || !user) {
			h_bad = 1;
			return;
		}
		free(h_pwself);
		h_pwself = strdup(user);
	} else {		/* file PATH KIND [HEX] */
		char *path = h_pathstr(1);
		const char *kind = h_arg(2);
		size_t len = 0;
		char *data = h_na > 3 ? h_bytes(3, &len) : NULL;

		if (h_bad)
			return;
		if (!h_path_ok(path)) {
			ok = 0;
		} else if (!strcmp(kind, "file")) {
			FILE *fp;

			h_mkdirs(path, 0);
			fp = fopen(path, "wb");
			ok = fp != NULL;
			if (fp && len && fwrite(data, 1, len, fp) != len)
				ok = 0;
			if (fp && fclose(fp) != 0)
				ok = 0;
		} else if (!strcmp(kind, "link")) {	/* file PATH link TARGET: a symbolic link to another scenario file */
			char *target = data && len ? h_pathstr(3) : NULL;
			char *abs;

			if (h_bad || !target || !h_path_ok(target)) {
				h_bad = 1;
				return;
			}
			abs = h_xrealloc(NULL, strlen(h_scndir) + strlen(target) + 2);
			if (target[0] == '/')
				strcpy(abs, target);
			else
				sprintf(abs, "%s/%s", h_scndir, target);
			h_mkdirs(path, 0);
			unlink(path);
			ok = symlink(abs, path) == 0;
			free(abs);
		} else if (!strcmp(kind, "dir")) {
			ok = h_mkdirs(path, 1) == 0;
		} else if (!strcmp(kind, "missing")) {
			h_rmrf(path);
		} else {
			h_bad = 1;
		}
	}
	if (!h_bad)
		h_line("%s%s", cmd, ok ? "" : " rc=fail");
}

static void h_c_init(const char *cmd, cfg_t *unused)
{
	long c = h_long(1), s = h_long(2), flags = h_long(3);
	cfg_t *cfg;

	(void)unused;
	if (h_bad || c < 0 || c >= H_MAXID) {
		h_bad = 1;
		return;
	}
	if (s < 0 || s >= H_MAXID || h_schemas[s].state != 1) {
		h_line("%s rc=noschema", cmd);
		return;
	}
	if (h_ctx[c]) {
		h_line("%s rc=exists", cmd);
		return;
	}
	H_LIB(cfg = cfg_init(h_schemas[s].opts, (cfg_flag_t)flags);
	      if (cfg) cfg_set_error_function(cfg, h_errfunc));
	h_ctx[c] = cfg;
	h_std(cmd, "rc=%s", cfg ? "ptr" : "null");
}

static void h_c_poison(const char *cmd, cfg_t *unused)
{
	long s = h_long(1);

	(void)unused;
	if (h_bad || s < 0 || s >= H_MAXID) {
		h_bad = 1;
		return;
	}
	if (h_schemas[s].state == 1)
		h_schema_release(&h_schemas[s], 1);
	h_line("%s", cmd);
}

static void h_c_free(const char *cmd, cfg_t *cfg)
{
	int rc, i;

	H_LIB(rc = cfg_free(cfg));
	for (i = 0; i < H_MAXID; i++)
		if (h_ctx[i] == cfg)
			h_ctx[i] = NULL;
	h_filt_purge();
	h_std(cmd, "rc=%d", rc);
}

/* parse_fpfail C HEX: cfg_parse_fp on a stream that delivers the bytes and then fails with EIO */
struct h_failing { const char *p; size_t left; };
static ssize_t h_failing_read(void *cookie, char *buf, size_t size)
{
	struct h_failing *f = cookie;
	size_t n = f->left < size ? f->left : size;

	if (!n) {
		errno = EIO;
		return -1;
	}
	memcpy(buf, f->p, n);
	f->p += n;
	f->left -= n;
	return (ssize_t)n;
}

static void h_c_parse_fpfail(const char *cmd, cfg_t *cfg)
{
	size_t len;
	char *text = h_bytes(2, &len);
	struct h_failing f;
	cookie_io_functions_t io = { h_failing_read, NULL, NULL, NULL };
	FILE *fp;
	int rc = 0;

	if (h_bad)
		return;
	f.p = text ? text : "";
	f.left = text ? len : 0;
	fp = fopencookie(&f, "r", io);
	if (!fp)
		h_die("fopencookie");
	h_in_parse++; H_LIB(rc = cfg_parse_fp(cfg, fp)); h_in_parse--;
	fclose(fp);
	h_std(cmd, "rc=%d", rc);
}

/* errfunc C K: cfg_set_error_function(cfg, K ? the tagging function : the normal one) */
static void h_c_errfunc(const char *cmd, cfg_t *cfg)
{
	long k = h_long(2);

	if (h_bad)
		return;
	H_LIB(cfg_set_error_function(cfg, k == 2 ? NULL : k ? h_errfunc_alt : h_errfunc));	/* 2: the built-in printer (stderr) */
	h_std(cmd, "rc=ok");
}

/* searchpath parse_buf parse_file parse_fp */
static void h_c_parse(const char *cmd, cfg_t *cfg)
{
	char *arg = strcmp(cmd, "parse_buf") ? h_pathstr(2) : h_str(2);
	int rc = 0;

	if (h_bad)
		return;
	if (!strcmp(cmd, "searchpath")) {
		/* optional 4th argument: the section instance (by path) the directory is added to / looked up from */
		cfg_t *where = cfg;

		if (h_na > 3) {
			char *sp = h_str(3);

			H_LIB(where = sp ? cfg_getsec(cfg, sp) : cfg);
			if (!where) {
				h_std(cmd, "rc=nosec");
				return;
			}
		}
		H_LIB(rc = cfg_add_searchpath(where, arg));
	} else if (!strcmp(cmd, "parse_buf")) {
		h_in_parse++; H_LIB(rc = cfg_parse_buf(cfg, arg)); h_in_parse--;
	} else if (!strcmp(cmd, "parse_file")) {
		h_in_parse++; H_LIB(rc = cfg_parse(cfg, arg)); h_in_parse--;
	} else {
		FILE *fp = arg ? fopen(arg, "r") : NULL;

		if (!fp) {
			h_std(cmd, "rc=nofile");
			return;
		}
		h_in_parse++; H_LIB(rc = cfg_parse_fp(cfg, fp)); h_in_parse--;
		fclose(fp);
	}
	h_std(cmd, "rc=%d", rc);
}

static void h_c_lex(const char *cmd, cfg_t *unused)
{
	size_t len;
	char *text = h_bytes(1, &len);
	h_buf toks = { 0 };
	FILE *fp;
	int tok;

	(void)unused;
	if (h_bad)
		return;
	if (!h_lexcfg) {	/* helper context; its creation is not part of the call sequence */
		h_lexcfg = cfg_init(h_noopts, 0);
		if (!h_lexcfg)
			h_die("cfg_init for lex");
		cfg_set_error_function(h_lexcfg, h_errfunc);
	}
	fp = fmemopen(text ? text : (char *)"", len, "r");
	if (!fp) {
		h_std(cmd, "rc=nofile");
		return;
	}
	errno = h_saved_errno;
	h_lexcfg->line = 1;
	cfg_scan_fp_begin(fp);
	while ((tok = cfg_yylex(h_lexcfg)) != -1 && tok != 0) {
		if (toks.n)
			h_buf_puts(&toks, " ");
		if (tok == CFGT_STR || tok == CFGT_COMMENT) {
			h_buf_puts(&toks, tok == CFGT_STR ? "S:" : "C:");
			h_buf_hexs(&toks, cfg_yylval);
		} else if (tok > 0 && tok < 128 && strchr("{}()=+,", tok)) {
			h_buf_printf(&toks, "P%c", tok);
		} else {
			h_buf_printf(&toks, "T%d", tok);
		}
		h_buf_printf(&toks, "@%d", h_lexcfg->line);
	}
	cfg_scan_fp_end();
	h_saved_errno = errno;
	fclose(fp);
	h_std(cmd, "toks=[%s] end=%s line=%d", h_buf_str(&toks), tok == 0 ? "err" : "eof", h_lexcfg->line);
	h_buf_free(&toks);
}

static void h_dump_cfg(h_buf *b, cfg_t *cfg);

static void h_dump_opt(h_buf *b, cfg_opt_t *o)
{
	static const char *const kinds[] = { "none", "int", "float", "str", "bool", "sec", "func", "ptr" };
	unsigned int v, size = cfg_opt_size(o);
	int t = (int)o->type;

	h_buf_puts(b, "(opt ");
	h_buf_hexs(b, cfg_opt_name(o));
	h_buf_printf(b, " %s %u %d %d %d ", t >= 0 && t <= CFGT_PTR ? kinds[t] : "none", size,
		     !!(o->flags & CFGF_RESET), !!(o->flags & CFGF_MODIFIED), !!(o->flags & CFGF_DEFINIT));
	h_buf_hexs(b, cfg_opt_getcomment(o));
	for (v = 0; v < size && t >= CFGT_INT && t <= CFGT_PTR && t != CFGT_FUNC; v++) {
		h_buf_puts(b, " ");
		switch (o->type) {
		case CFGT_INT:
			h_buf_printf(b, "%ld", cfg_opt_getnint(o, v));
			break;
		case CFGT_FLOAT:
			h_buf_bits(b, cfg_opt_getnfloat(o, v));
			break;
		case CFGT_BOOL:
			h_buf_printf(b, "%d", (int)cfg_opt_getnbool(o, v));
			break;
		case CFGT_STR:
			h_buf_hexs(b, cfg_opt_getnstr(o, v));
			break;
		case CFGT_SEC:
			if (cfg_opt_getnsec(o, v))
				h_dump_cfg(b, cfg_opt_getnsec(o, v));
			else
				h_buf_puts(b, "nullsec");
			break;
		default: {	/* CFGT_PTR */
			h_ptrblk *p = cfg_opt_getnptr(o, v);

			if (!p)
				h_buf_puts(b, "p0");
			else if (p->magic != H_PTR_MAGIC)
				h_buf_puts(b, "pbad");
			else
				h_buf_printf(b, "p%u", p->id);
		}
		}
	}
	h_buf_puts(b, ")");
}

static void h_dump_cfg(h_buf *b, cfg_t *cfg)
{
	unsigned int i, n = cfg_num(cfg);

	h_buf_puts(b, "(cfg ");
	h_buf_hexs(b, cfg_name(cfg));
	h_buf_puts(b, " ");
	h_buf_hexs(b, cfg_title(cfg));
	h_buf_printf(b, " %d", cfg->flags);
	for (i = 0; i < n; i++) {
		h_buf_puts(b, " ");
		h_dump_opt(b, cfg_getnopt(cfg, i));
	}
	h_buf_puts(b, ")");
}

static void h_c_dump(const char *cmd, cfg_t *cfg)
{
	h_buf b = { 0 };

	h_dump_cfg(&b, cfg);	/* pure inspection: the scripted errno is not involved */
	h_line("%s %s", cmd, h_buf_str(&b));
	h_buf_free(&b);
}

/* getopt getsec size title: `-` as section path means the context itself */
static void h_c_get(const char *cmd, cfg_t *cfg)
{
	char *path = h_str(2);
	h_buf b = { 0 };

	if (h_bad)
		return;
	if (!strcmp(cmd, "size")) {
		unsigned int n;

		H_LIB(n = cfg_size(cfg, path));
		h_line("%s n=%u", cmd, n);
	} else if (!strcmp(cmd, "title")) {
		const char *t;

		H_LIB(t = cfg_title(path ? cfg_getsec(cfg, path) : cfg));
		h_buf_hexs(&b, t);
		h_line("%s t=%s", cmd, h_buf_str(&b));
	} else {
		void *r;

		if (!strcmp(cmd, "getopt"))
			H_LIB(r = cfg_getopt(cfg, path));
		else
			H_LIB(r = cfg_getsec(cfg, path));
		if (!r)
			h_buf_puts(&b, "null");
		else if (r == (void *)cfg)
			h_buf_puts(&b, "/");
		else if (!h_find(cfg, r, &b))
			h_buf_puts(&b, "?");
		h_std(cmd, "target=%s", h_buf_str(&b));
	}
	h_buf_free(&b);
}

/* getv C KIND PATH IDX: the by-name getter cfg_getn<KIND>(cfg, PATH, IDX);
 * getv0 C KIND PATH: the short form cfg_get<KIND>(cfg, PATH) (for sections: cfg_getsec).
 * gettsec C PATH TITLE: cfg_gettsec(cfg, PATH, TITLE). */
static void h_c_getv(const char *cmd, cfg_t *cfg)
{
	h_buf b = { 0 };

	if (!strcmp(cmd, "gettsec")) {
		char *path = h_str(2), *title = h_str(3);
		cfg_t *r;

		if (h_bad || !path || !title) {
			h_bad = 1;
			return;
		}
		H_LIB(r = cfg_gettsec(cfg, path, title));
		if (!r)
			h_buf_puts(&b, "null");
		else if (!h_find(cfg, r, &b))
			h_buf_puts(&b, "?");
		h_std(cmd, "target=%s", h_buf_str(&b));
	} else {
		const char *kind = h_arg(2);
		char *path = h_str(3);
		int shortform = !strcmp(cmd, "getv0");	/* getv0 C KIND PATH: cfg_get<KIND>(cfg, PATH) */
		unsigned int idx = shortform ? 0 : h_uint(4);

		if (h_bad || !path) {
			h_bad = 1;
			return;
		}
		if (!strcmp(kind, "int")) {
			long v;

			H_LIB(v = shortform ? cfg_getint(cfg, path) : cfg_getnint(cfg, path, idx));
			h_buf_printf(&b, "%ld", v);
		} else if (!strcmp(kind, "flt")) {
			double v;

			H_LIB(v = shortform ? cfg_getfloat(cfg, path) : cfg_getnfloat(cfg, path, idx));
			h_buf_bits(&b, v);
		} else if (!strcmp(kind, "bool")) {
			cfg_bool_t v;

			H_LIB(v = shortform ? cfg_getbool(cfg, path) : cfg_getnbool(cfg, path, idx));
			h_buf_printf(&b, "%d", (int)v);
		} else if (!strcmp(kind, "str")) {
			char *v;

			H_LIB(v = shortform ? cfg_getstr(cfg, path) : cfg_getnstr(cfg, path, idx));
			h_buf_hexs(&b, v);
		} else if (!strcmp(kind, "ptr")) {
			h_ptrblk *v;

			H_LIB(v = shortform ? cfg_getptr(cfg, path) : cfg_getnptr(cfg, path, idx));
			if (!v)
				h_buf_puts(&b, "p0");
			else if (v->magic != H_PTR_MAGIC)
				h_buf_puts(&b, "pbad");
			else
				h_buf_printf(&b, "p%u", v->id);
		} else if (!strcmp(kind, "sec")) {
			cfg_t *v;

			H_LIB(v = shortform ? cfg_getsec(cfg, path) : cfg_getnsec(cfg, path, idx));
			if (!v)
				h_buf_puts(&b, "null");
			else if (!h_find(cfg, v, &b))
				h_buf_puts(&b, "?");
		} else {
			h_bad = 1;
			h_buf_free(&b);
			return;
		}
		h_std(cmd, "v=%s", h_buf_str(&b));
	}
	h_buf_free(&b);
}

/* setint setfloat setbool setstr */
static void h_c_set(const char *cmd, cfg_t *cfg)
{
	char *path = h_str(2);
	unsigned int idx = h_uint(4);
	int rc;

	if (!strcmp(cmd, "setint")) {
		long v = h_long(3);

		if (h_bad)
			return;
		h_setter = 'i';
		H_LIB(rc = cfg_setnint(cfg, path, v, idx));
	} else if (!strcmp(cmd, "setfloat")) {
		double v = h_bits(3);

		if (h_bad)
			return;
		h_setter = 'f';
		H_LIB(rc = cfg_setnfloat(cfg, path, v, idx));
	} else if (!strcmp(cmd, "setbool")) {
		long v = h_long(3);

		if (h_bad)
			return;
		H_LIB(rc = cfg_setnbool(cfg, path, v ? cfg_true : cfg_false, idx));
	} else {
		char *v = h_str(3);

		if (h_bad)
			return;
		h_setter = 's';
		H_LIB(rc = cfg_setnstr(cfg, path, v, idx));
	}
	h_setter = 0;
	h_std(cmd, "rc=%d", rc);
}

/* setstr_self C PATH OFF IDX: cfg_setnstr(cfg, PATH, cfg_getnstr(cfg, PATH, IDX) + OFF, IDX) — the new value points
 * INTO the value being replaced (dropping a prefix, writing an element back to its own slot) */
static void h_c_setself(const char *cmd, cfg_t *cfg)
{
	char *path = h_str(2);
	unsigned int off = h_uint(3), idx = h_uint(4);
	char *cur = NULL;
	int rc = -2;

	if (h_bad)
		return;
	H_LIB(cur = cfg_getnstr(cfg, path, idx));
	if (cur && off <= strlen(cur)) {
		h_setter = 's';
		H_LIB(rc = cfg_setnstr(cfg, path, cur + off, idx));
		h_setter = 0;
	}
	h_std(cmd, "rc=%d", rc);
}

/* the varargs calls cfg_setlist/cfg_addlist for n = 0..8 values held in array a */
#define H_VACALL(fn, cfg, path, n, a) \
	((n) == 0 ? fn(cfg, path, 0) : (n) == 1 ? fn(cfg, path, 1, a[0]) : \
	 (n) == 2 ? fn(cfg, path, 2, a[0], a[1]) : (n) == 3 ? fn(cfg, path, 3, a[0], a[1], a[2]) : \
	 (n) == 4 ? fn(cfg, path, 4, a[0], a[1], a[2], a[3]) : \
	 (n) == 5 ? fn(cfg, path, 5, a[0], a[1], a[2], a[3], a[4]) : \
	 (n) == 6 ? fn(cfg, path, 6, a[0], a[1], a[2], a[3], a[4], a[5]) : \
	 (n) == 7 ? fn(cfg, path, 7, a[0], a[1], a[2], a[3], a[4], a[5], a[6]) : \
		    fn(cfg, path, 8, a[0], a[1], a[2], a[3], a[4], a[5], a[6], a[7]))

/* setlist addlist: C PATH KIND V... */
static void h_c_list(const char *cmd, cfg_t *cfg)
{
	int (*fn)(cfg_t *, const char *, unsigned int, ...) = strcmp(cmd, "addlist") ? cfg_setlist : cfg_addlist;
	char *path = h_str(2);
	const char *kind = h_arg(3);
	unsigned int i, n = h_na > 4 ? (unsigned int)h_na - 4 : 0;
	int vi[8] = { 0 }, rc = 0;
	double vf[8] = { 0 };
	cfg_bool_t vb[8] = { cfg_false };
	char *vs[8] = { 0 };

	if (n > 8)
		h_bad = 1;
	for (i = 0; i < n && !h_bad; i++) {
		if (!strcmp(kind, "int"))
			vi[i] = (int)h_long(4 + i);	/* the library reads va_arg(ap, int): truncation intended */
		else if (!strcmp(kind, "float"))
			vf[i] = h_bits(4 + i);
		else if (!strcmp(kind, "bool"))
			vb[i] = h_long(4 + i) ? cfg_true : cfg_false;
		else
			vs[i] = h_str(4 + i);
	}
	if (strcmp(kind, "int") && strcmp(kind, "float") && strcmp(kind, "bool") && strcmp(kind, "str"))
		h_bad = 1;
	if (h_bad)
		return;
	errno = h_saved_errno;
	if (!strcmp(kind, "int"))
		rc = H_VACALL(fn, cfg, path, n, vi);
	else if (!strcmp(kind, "float"))
		rc = H_VACALL(fn, cfg, path, n, vf);
	else if (!strcmp(kind, "bool"))
		rc = H_VACALL(fn, cfg, path, n, vb);
	else
		rc = H_VACALL(fn, cfg, path, n, vs);
	h_saved_errno = errno;
	h_std(cmd, "rc=%d", rc);
}

/* setmulti setopt setcomment addtsec rmsec rmnsec rmtsec */
static void h_c_edit(const char *cmd, cfg_t *cfg)
{
	char *path = h_str(2);
	int rc;

	if (!strcmp(cmd, "setmulti")) {
		unsigned int i, n = (unsigned int)h_na - 3;
		char *vals[9] = { 0 };

		if (n > 8)
			h_bad = 1;
		for (i = 0; i < n && !h_bad; i++)
			vals[i] = h_str(3 + (int)i);
		if (h_bad)
			return;
		H_LIB(rc = cfg_setmulti(cfg, path, n, vals));
	} else if (!strcmp(cmd, "setopt")) {
		char *v = h_str(3);
		cfg_opt_t *opt;
		cfg_value_t *val = NULL;

		if (h_bad)
			return;
		H_LIB(opt = cfg_getopt(cfg, path); if (opt) val = cfg_setopt(cfg, opt, v));
		h_std(cmd, "rc=%s", !opt ? "noopt" : val ? "ptr" : "null");
		return;
	} else if (!strcmp(cmd, "setcomment")) {
		char *v = h_str(3);

		if (h_bad)
			return;
		H_LIB(rc = cfg_setcomment(cfg, path, v));
	} else if (!strcmp(cmd, "addtsec")) {
		char *title = h_str(3);
		cfg_t *sec;

		if (h_bad)
			return;
		H_LIB(sec = cfg_addtsec(cfg, path, title));
		h_std(cmd, "rc=%s", sec ? "ptr" : "null");
		return;
	} else if (!strcmp(cmd, "rmsec")) {
		if (h_bad)
			return;
		H_LIB(rc = cfg_rmsec(cfg, path));
	} else if (!strcmp(cmd, "rmnsec")) {
		unsigned int idx = h_uint(3);

		if (h_bad)
			return;
		H_LIB(rc = cfg_rmnsec(cfg, path, idx));
	} else {
		char *title = h_str(3);

		if (h_bad)
			return;
		H_LIB(rc = cfg_rmtsec(cfg, path, title));
	}
	h_std(cmd, "rc=%d", rc);
}

/* validate validate2 printfunc filter */
static void h_c_hook(const char *cmd, cfg_t *cfg)
{
	char *path = h_str(2);

	if (!strcmp(cmd, "unfilter")) {	/* unfilter C SECPATH: cfg_set_print_filter_func(sec, NULL) */
		cfg_t *sec;
		int i;

		if (h_bad)
			return;
		H_LIB(sec = path ? cfg_getsec(cfg, path) : cfg);
		if (sec) {
			h_filt_purge();
			cfg_set_print_filter_func(sec, NULL);
			for (i = h_nfilts - 1; i >= 0; i--)
				if (h_filts[i].sec == sec)
					h_filt_drop(i);
		}
		h_std(cmd, "rc=%s", sec ? "ok" : "nosec");
		return;
	}
	if (!strcmp(cmd, "filter")) {
		h_filt f = { NULL, 0, NULL, 0, 0 };
		char *req[H_MAXTOK];
		cfg_t *sec;
		int i;

		for (i = 3; i < h_na; i++) {
			req[f.n] = h_str(i);
			if (!req[f.n++])
				h_bad = 1;	/* a name cannot be NULL */
		}
		if (h_bad)
			return;
		H_LIB(sec = path ? cfg_getsec(cfg, path) : cfg);
		if (sec) {
			h_filt_purge();
			/* a replacement gets a DIFFERENT function than the one it replaces (the slot is chosen before
			 * the old binding is dropped): a stale copy of the old pointer then shows */
			for (f.slot = 0; f.slot < H_NSLOT; f.slot++) {
				for (i = 0; i < h_nfilts && h_filts[i].slot != f.slot; i++)
					;
				if (i == h_nfilts)
					break;
			}
			if (f.slot == H_NSLOT)
				h_die("too many print filters");
			for (i = h_nfilts - 1; i >= 0; i--)
				if (h_filts[i].sec == sec)
					h_filt_drop(i);
			cfg_set_print_filter_func(sec, h_filter_fn[f.slot]);
			f.names = h_xrealloc(NULL, (size_t)f.n * sizeof(char *));
			for (i = 0; i < f.n; i++)
				f.names[i] = strdup(req[i]);
			f.sec = sec;
			for (f.ctx = 0; h_ctx[f.ctx] != cfg; f.ctx++)
				;
			h_filts = h_xrealloc(h_filts, (size_t)(h_nfilts + 1) * sizeof(*h_filts));
			h_filts[h_nfilts++] = f;
		}
		h_std(cmd, "rc=%s", sec ? "ok" : "nosec");
		return;
	} else {
		int k = h_kidx(h_long(3));

		if (h_bad)
			return;
		if (h_na > 4) {	/* optional SECPATH: install through that section instance */
			char *secpath = h_str(4);
			cfg_t *sec = NULL;

			if (h_bad)
				return;
			H_LIB(sec = cfg_getsec(cfg, secpath));
			if (!sec) {
				h_std(cmd, "rc=nosec");
				return;
			}
			cfg = sec;
		}
		if (!strcmp(cmd, "validate"))
			H_LIB(cfg_set_validate_func(cfg, path, h_valid_tab[k]));
		else if (!strcmp(cmd, "validate2"))
			H_LIB(cfg_set_validate_func2(cfg, path, h_valid2_tab[k]));
		else
			H_LIB(cfg_set_print_func(cfg, path, h_print_tab[k]));
	}
	h_std(cmd, "rc=ok");
}

/* print C INDENT / printopt C PATH */
static void h_c_print(const char *cmd, cfg_t *cfg)
{
	char *text = NULL, *path = NULL;
	size_t len = 0;
	long indent = 0;
	h_buf b = { 0 };
	FILE *fp;
	int rc;

	if (!strcmp(cmd, "print"))
		indent = h_long(2);
	else
		path = h_str(2);
	if (h_bad)
		return;
	h_filt_purge();
	fp = open_memstream(&text, &len);
	if (!fp)
		h_die("open_memstream");
	if (!strcmp(cmd, "print"))
		H_LIB(rc = cfg_print_indent(cfg, fp, (int)indent));
	else
		H_LIB(rc = cfg_opt_print(cfg_getopt(cfg, path), fp));
	fclose(fp);
	h_buf_hex(&b, text, len);
	h_std(cmd, "rc=%d text=%s", rc, h_buf_str(&b));
	h_buf_free(&b);
	free(text);
}

/* roundtrip SRC DST: print context SRC (indent 0) into memory and parse that text into context DST */
static void h_c_roundtrip(const char *cmd, cfg_t *cfg)
{
	long d = h_long(2);
	char *text = NULL;
	size_t len = 0;
	h_buf b = { 0 };
	FILE *fp;
	int rc;

	if (h_bad || d < 0 || d >= H_MAXID) {
		h_bad = 1;
		return;
	}
	if (!h_ctx[d]) {
		h_line("%s rc=nocontext", cmd);
		return;
	}
	h_filt_purge();
	fp = open_memstream(&text, &len);
	if (!fp)
		h_die("open_memstream");
	H_LIB(cfg_print_indent(cfg, fp, 0));
	fclose(fp);
	h_in_parse++; H_LIB(rc = cfg_parse_buf(h_ctx[d], text)); h_in_parse--;
	h_buf_hex(&b, text, len);
	h_std(cmd, "rc=%d text=%s", rc, h_buf_str(&b));
	h_buf_free(&b);
	free(text);
}

/* tilde NAME / lookup C NAME: the scenario directory prefix is printed back as @R */
static void h_c_expand(const char *cmd, cfg_t *cfg)
{
	int lookup = !strcmp(cmd, "lookup");
	char *name = h_pathstr(lookup ? 2 : 1), *res;
	h_buf b = { 0 };

	if (h_bad)
		return;
	if (lookup && h_na > 3) {	/* lookup C NAME SECPATH: through the list of that section instance */
		char *sp = h_str(3);
		cfg_t *where;

		H_LIB(where = sp ? cfg_getsec(cfg, sp) : cfg);
		H_LIB(res = where ? cfg_searchpath(where->path, name) : NULL);
	} else if (lookup)
		H_LIB(res = cfg_searchpath(cfg->path, name));
	else
		H_LIB(res = cfg_tilde_expand(name));
	h_buf_hexpath(&b, res);
	h_line("%s res=%s", cmd, h_buf_str(&b));
	h_buf_free(&b);
	free(res);
}

/* failalloc K / live (count variant only) */
static void h_c_count(const char *cmd, cfg_t *unused)
{
	(void)unused;
#ifdef VERIF_COUNT
	if (!strcmp(cmd, "failalloc")) {
		long k = h_long(1);

		if (h_bad)
			return;
		vw_failalloc(k);
		h_line("%s", cmd);
	} else {
		long blocks, files;

		vw_live(&blocks, &files);
		if (blocks || files)
			vw_report(stderr);
		h_line("%s blocks=%ld files=%ld", cmd, blocks, files);
	}
#else
	h_line("%s rc=unsupported", cmd);
#endif
}

static const struct h_cmd {
	const char *name;
	void (*fn)(const char *cmd, cfg_t *cfg);
	int ctx;		/* argument 1 names a context */
	int min, max;		/* number of tokens including the command word */
} h_cmds[] = {
	{ "env", h_c_ambient, 0, 3, 3 }, { "envroot", h_c_ambient, 0, 2, 2 }, { "unsetenv", h_c_ambient, 0, 2, 2 }, { "errno", h_c_ambient, 0, 2, 2 },
	{ "file", h_c_ambient, 0, 3, 4 }, { "passwd", h_c_ambient, 0, 3, 3 }, { "passwd_self", h_c_ambient, 0, 2, 2 },
	{ "failat", h_c_ambient, 0, 2, 2 }, { "cberror", h_c_ambient, 0, 2, 2 }, { "stacklimit", h_c_ambient, 0, 2, 2 },
	{ "init", h_c_init, 0, 4, 4 }, { "poison", h_c_poison, 0, 2, 2 }, { "free", h_c_free, 1, 2, 2 },
	{ "searchpath", h_c_parse, 1, 3, 4 }, { "parse_buf", h_c_parse, 1, 3, 3 },
	{ "parse_file", h_c_parse, 1, 3, 3 }, { "parse_fp", h_c_parse, 1, 3, 3 }, { "parse_fpfail", h_c_parse_fpfail, 1, 3, 3 }, { "errfunc", h_c_errfunc, 1, 3, 3 }, { "lex", h_c_lex, 0, 2, 2 },
	{ "dump", h_c_dump, 1, 2, 2 }, { "getopt", h_c_get, 1, 3, 3 }, { "getsec", h_c_get, 1, 3, 3 },
	{ "size", h_c_get, 1, 3, 3 }, { "title", h_c_get, 1, 3, 3 }, { "getv", h_c_getv, 1, 5, 5 }, { "getv0", h_c_getv, 1, 4, 4 }, { "gettsec", h_c_getv, 1, 4, 4 },
	{ "setint", h_c_set, 1, 5, 5 }, { "setfloat", h_c_set, 1, 5, 5 }, { "setbool", h_c_set, 1, 5, 5 },
	{ "setstr", h_c_set, 1, 5, 5 }, { "setstr_self", h_c_setself, 1, 5, 5 }, { "setlist", h_c_list, 1, 4, 12 }, { "addlist", h_c_list, 1, 4, 12 },
	{ "setmulti", h_c_edit, 1, 3, 11 }, { "setopt", h_c_edit, 1, 4, 4 }, { "setcomment", h_c_edit, 1, 4, 4 },
	{ "addtsec", h_c_edit, 1, 4, 4 }, { "rmsec", h_c_edit, 1, 3, 3 }, { "rmnsec", h_c_edit, 1, 4, 4 },
	{ "rmtsec", h_c_edit, 1, 4, 4 },
	{ "validate", h_c_hook, 1, 4, 5 }, { "validate2", h_c_hook, 1, 4, 5 }, { "printfunc", h_c_hook, 1, 4, 5 },
	{ "filter", h_c_hook, 1, 3, H_MAXTOK }, { "unfilter", h_c_hook, 1, 3, 3 }, { "print", h_c_print, 1, 3, 3 }, { "printopt", h_c_print, 1, 3, 3 },
	{ "roundtrip", h_c_roundtrip, 1, 3, 3 },
	{ "tilde", h_c_expand, 0, 2, 2 }, { "lookup", h_c_expand, 1, 3, 4 },
	{ "failalloc", h_c_count, 0, 2, 2 }, { "live", h_c_count, 0, 1, 1 },
};

/* interpret one command line: exactly one result line */
static void h_command(char *line)
{
	const struct h_cmd *c = NULL;
	cfg_t *cfg = NULL;
	h_buf discard = { 0 };
	size_t i;
	char *p;

	h_bad = 0;
	if (h_skip) {		/* the rest of a scenario that is meant for an uninstrumented build only */
		p = strchr(line, ' ');
		if (p)
			*p = 0;
		h_line("%s rc=skipped", line);
	} else if (!strcmp(line, "needplain")) {
		/* under AddressSanitizer every realloc() copies: inputs of 10^5 tokens belong to the plain build */
#if defined(__SANITIZE_ADDRESS__)
		h_skip = 1;
#elif defined(__has_feature)
#if __has_feature(address_sanitizer)
		h_skip = 1;
#endif
#endif
		h_line("needplain%s", h_skip ? " rc=skip" : "");
	} else if (!strncmp(line, "schema ", 7) || !strcmp(line, "schema")) {
		h_c_schema(line);
	} else {
		for (h_na = 0, p = line; p && h_na < H_MAXTOK; h_na++) {
			h_a[h_na] = p;
			p = strchr(p, ' ');
			if (p)
				*p++ = 0;
		}
		for (i = 0; i < sizeof(h_cmds) / sizeof(h_cmds[0]); i++)
			if (!strcmp(h_cmds[i].name, h_a[0]))
				c = &h_cmds[i];
		if (!c) {
			h_line("%s rc=badcmd", h_a[0]);
		} else if (h_na < c->min || h_na > c->max || p) {
			h_line("%s rc=badargs", c->name);
		} else {
			if (c->ctx) {
				long id = h_long(1);

				cfg = !h_bad && id >= 0 && id < H_MAXID ? h_ctx[id] : NULL;
			}
			if (c->ctx && !cfg && !h_bad)
				h_line("%s rc=nocontext", c->name);
			else if (!h_bad)
				c->fn(c->name, cfg);
			if (h_bad)	/* handlers print nothing once an argument was found malformed */
				h_line("%s rc=badargs", c->name);
		}
	}
	/* whatever was not shown on this result line is dropped */
	h_capture(&discard);
	h_buf_free(&discard);
	h_buf_reset(&h_diags);
	h_buf_reset(&h_cbs);
	h_tmp_free();
	fflush(h_res);
}

/* ------------------------------------------------------ scenario child/parent */

static char *h_filebuf;		/* the whole scenario file; lines point into it */
static char **h_lines;
static size_t h_nlines;

static void h_child(size_t from, size_t to, const char *root, int capfd, int errfd, unsigned int timeout)
{
	char dir[PATH_MAX];
	size_t i;

	alarm(timeout);
	clearenv();
	snprintf(dir, sizeof(dir), "%s/%ld", root, (long)getpid());
	h_rmrf(dir);
	if (mkdir(dir, 0777) != 0 || chdir(dir) != 0 || !getcwd(h_scndir, sizeof(h_scndir)))
		h_die(dir);
	if (dup2(capfd, 1) < 0 || dup2(errfd, 2) < 0)
		h_die("dup2");
	h_capfd = capfd;

	for (i = from; i < to; i++) {
		alarm(timeout);		/* re-armed for every command: T bounds each command */
		h_command(h_lines[i]);
	}
	alarm(timeout);

	/* leave nothing behind, so that LeakSanitizer sees library leaks only */
	for (i = 0; i < H_MAXID; i++)
		if (h_ctx[i])
			cfg_free(h_ctx[i]);
	if (h_lexcfg)
		cfg_free(h_lexcfg);
	for (i = 0; i < H_MAXID; i++)
		h_schema_release(&h_schemas[i], 0);
	while (h_nfilts)
		h_filt_drop(0);
	free(h_filts);
	for (i = 0; i < h_npws; i++) {
		free(h_pws[i].user);
		free(h_pws[i].home);
	}
	free(h_pws);
	free(h_pwself);
	free(h_strcb_buf);
	free(h_tmps);
	h_buf_free(&h_diags);
	h_buf_free(&h_cbs);
	free(h_lines);
	free(h_filebuf);
	fflush(h_res);
#if defined(__SANITIZE_ADDRESS__)
	if (__lsan_do_recoverable_leak_check())
		_exit(78);
#endif
	exit(0);
}

/* is this stack frame (function name + rest of the line) to be skipped? */
static int h_san_skip(const char *fn, const char *rest)
{
	static const char *const prefix[] = { "h_", "vw_", "__interceptor_", "__asan", "__sanitizer", "__ubsan",
		"__lsan", "__interception", "__GI_", "_IO_", "__wrap_", "__libc_", "operator", NULL };
	static const char *const exact[] = { "malloc", "calloc", "realloc", "reallocarray", "free", "strdup",
		"strndup", "strlen", "strnlen", "strcmp", "strncmp", "strcasecmp", "strncasecmp", "strcpy",
		"strncpy", "strcat", "strncat", "strchr", "strrchr", "strstr", "strspn", "strcspn", "strtol",
		"strtod", "memcpy", "memmove", "memset", "memcmp", "memchr", "printf", "fprintf", "vfprintf",
		"sprintf", "snprintf", "vsnprintf", "vsprintf", "printf_common", "fputs", "fputc", "fwrite",
		"fread", "fopen", "fclose", "fmemopen", "getpwnam", "getpwuid", "main", "_start", NULL };
	int i;

	for (i = 0; prefix[i]; i++)
		if (!strncmp(fn, prefix[i], strlen(prefix[i])))
			return 1;
	for (i = 0; exact[i]; i++)
		if (!strcmp(fn, exact[i]))
			return 1;
	return strstr(rest, "libsanitizer") || strstr(rest, "sanitizer_common") || strstr(rest, "/libc.so") ||
	       strstr(rest, "libasan.so") || strstr(rest, "libubsan.so") || strstr(rest, "/libc-");
}

/* `<kind>@<function>` from the child's stderr, or `-` */
static void h_san_summary(const char *err, char *out, size_t cap)
{
	static const char *const marks[] = { "ERROR: AddressSanitizer: ", "ERROR: LeakSanitizer", "runtime error:" };
	const char *best = NULL, *p;
	char kind[64] = "", fn[256] = "?";
	int which = -1, i;

	for (i = 0; i < 3; i++) {
		p = strstr(err, marks[i]);
		if (p && (!best || p < best)) {
			best = p;
			which = i;
		}
	}
	if (!best) {
		snprintf(out, cap, "-");
		return;
	}
	if (which == 0) {
		p = best + strlen(marks[0]);
		if (!strncmp(p, "attempting ", 11))	/* "attempting double-free", "attempting free on ..." */
			p += 11;
		sscanf(p, "%63[^ :\n]", kind);
	} else {
		strcpy(kind, which == 1 ? "leak" : "ubsan");
	}
	/* first frame `   #N 0xADDR in FUNCTION ...` that is neither runtime/libc nor harness */
	for (p = best; (p = strchr(p, '\n')) != NULL; ) {
		char name[256], rest[512];

		p++;
		rest[0] = 0;
		if (sscanf(p, " #%*d 0x%*x in %255s %511[^\n]", name, rest) < 1)
			continue;
		if (!h_san_skip(name, rest)) {
			snprintf(fn, sizeof(fn), "%s", name);
			break;
		}
	}
	snprintf(out, cap, "%s@%s", kind[0] ? kind : "?", fn);
}

static int h_tmpfd(const char *root)
{
	char path[PATH_MAX];
	int fd;

	snprintf(path, sizeof(path), "%s/.implrun-XXXXXX", root);
	fd = mkstemp(path);
	if (fd < 0)
		h_die(path);
	unlink(path);
	return fd;
}

static void h_scenario(const char *id, size_t from, size_t to, const char *root, unsigned int timeout)
{
	int capfd = h_tmpfd(root), errfd = h_tmpfd(root), st = 0;
	char dir[PATH_MAX], san[400], status[64];
	char *err;
	off_t n;
	pid_t pid;

	fprintf(h_res, "=== %s\n", id);
	fflush(h_res);
	fflush(stderr);
	pid = fork();
	if (pid < 0)
		h_die("fork");
	if (pid == 0)
		h_child(from, to, root, capfd, errfd, timeout);
	while (waitpid(pid, &st, 0) < 0 && errno == EINTR)
		;
	if (WIFSIGNALED(st) && WTERMSIG(st) == SIGALRM)
		snprintf(status, sizeof(status), "timeout");
	else if (WIFSIGNALED(st))
		snprintf(status, sizeof(status), "signal:%d", WTERMSIG(st));
	else
		snprintf(status, sizeof(status), "exit:%d", WEXITSTATUS(st));

	n = lseek(errfd, 0, SEEK_END);
	err = h_xrealloc(NULL, (size_t)(n > 0 ? n : 0) + 1);
	n = pread(errfd, err, (size_t)(n > 0 ? n : 0), 0);
	err[n > 0 ? n : 0] = 0;
	h_san_summary(err, san, sizeof(san));
	if (getenv("VERIF_SHOW_STDERR") && n > 0)
		fprintf(stderr, "--- stderr of %s\n%s", id, err);
	free(err);
	close(capfd);
	close(errfd);
	snprintf(dir, sizeof(dir), "%s/%ld", root, (long)pid);
	h_rmrf(dir);
	fprintf(h_res, "--- %s status=%s san=%s\n", id, status, san);
	fflush(h_res);
}

int main(int argc, char **argv)
{
	const char *root, *t = getenv("VERIF_CMD_TIMEOUT");
	unsigned int timeout = t && atoi(t) > 0 ? (unsigned int)atoi(t) : 10;
	size_t i, cap = 0, from = 0;
	const char *id = NULL;
	long size;
	char *p;
	FILE *fp;

	if (argc != 3) {
		fprintf(stderr, "usage: implrun FILE ROOT\n");
		return 2;
	}
	root = argv[2];
	fp = fopen(argv[1], "rb");
	if (!fp || fseek(fp, 0, SEEK_END) != 0 || (size = ftell(fp)) < 0 || fseek(fp, 0, SEEK_SET) != 0)
		h_die(argv[1]);
	h_filebuf = h_xrealloc(NULL, (size_t)size + 1);
	if (fread(h_filebuf, 1, (size_t)size, fp) != (size_t)size)
		h_die(argv[1]);
	h_filebuf[size] = 0;
	fclose(fp);
	if (h_mkdirs(root, 1) != 0)
		h_die(root);
	h_res = fdopen(dup(1), "w");
	if (!h_res)
		h_die("dup stdout");

	/* split into lines; blank lines and # comments are dropped */
	for (p = h_filebuf; p && *p; ) {
		char *nl = strchr(p, '\n');

		if (nl)
			*nl = 0;
		if (*p && *p != '#') {
			if (h_nlines == cap) {
				cap = cap ? cap * 2 : 256;
				h_lines = h_xrealloc(h_lines, cap * sizeof(*h_lines));
			}
			h_lines[h_nlines++] = p;
		}
		p = nl ? nl + 1 : NULL;
	}
	/* `=== ID` starts a scenario; lines before the first header are ignored */
	for (i = 0; i <= h_nlines; i++) {
		if (i < h_nlines && strncmp(h_lines[i], "=== ", 4))
			continue;
		if (id)
			h_scenario(id, from, i, root, timeout);
		if (i < h_nlines) {
			id = h_lines[i] + 4;
			from = i + 1;
		}
	}
	fclose(h_res);
	free(h_lines);
	free(h_filebuf);
	return 0;
}
