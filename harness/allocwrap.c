/*
 * allocwrap.c -- implementation of the vw_* wrappers (see allocwrap.h).
 *
 * Table of live library-owned objects: open addressing hash keyed by address.
 * An entry is created by every successful vw_ allocation / vw_fopen / vw_fmemopen
 * (i.e. by requests made in confuse.c) and removed by whoever releases the
 * object:
 *   - vw_free / vw_fclose / vw_realloc   (release in confuse.c), or
 *   - __wrap_free / __wrap_fclose / __wrap_realloc: the executable is linked with
 *     -Wl,--wrap=free,--wrap=realloc,--wrap=fclose, so releases done by lexer.c
 *     or by the harness (plain free()/fclose()) pass through here as well (in a
 *     -static link also the ones inside libc.a, which is harmless).
 * Releasing an address that is not in the table (allocated by lexer.c, by the
 * harness, by libc) is simply forwarded.
 *
 * Only requests coming from confuse.c (the vw_* entry points) are counted for
 * `failalloc`; fopen/fmemopen are never failed.
 */
#define VERIF_ALLOCWRAP_IMPL
#include "allocwrap.h"
#include <errno.h>
#include <stdint.h>

void *__real_realloc(void *p, size_t n);
void  __real_free(void *p);
int   __real_fclose(FILE *fp);

typedef struct {
	void *p;		/* NULL = empty, VW_TOMB = deleted */
	size_t size;
	const char *fn;		/* allocating library function */
	int kind;		/* 0 = heap block, 1 = FILE* */
} vw_ent;

#define VW_TOMB ((void *)(uintptr_t)1)

static vw_ent *vw_tab;
static size_t vw_cap, vw_filled;	/* filled = live + tombstones */
static long vw_nlive[2];
static long vw_failk;

static size_t vw_hash(const void *p)
{
	uintptr_t x = (uintptr_t)p;

	x = (x >> 4) ^ (x >> 17) ^ (x >> 29);
	return (size_t)x & (vw_cap - 1);
}

static vw_ent *vw_find(const void *p)
{
	size_t i, n;

	if (!vw_tab || !p)
		return NULL;
	for (i = vw_hash(p), n = 0; n < vw_cap && vw_tab[i].p; i = (i + 1) & (vw_cap - 1), n++)
		if (vw_tab[i].p == p)
			return &vw_tab[i];
	return NULL;
}

static void vw_insert(void *p, size_t size, const char *fn, int kind);

static void vw_grow(void)
{
	vw_ent *old = vw_tab;
	size_t i, oldcap = vw_cap;

	vw_cap = oldcap ? oldcap * 2 : 1024;
	vw_tab = calloc(vw_cap, sizeof(*vw_tab));
	if (!vw_tab)
		abort();
	vw_filled = 0;
	vw_nlive[0] = vw_nlive[1] = 0;
	for (i = 0; i < oldcap; i++)
		if (old[i].p && old[i].p != VW_TOMB)
			vw_insert(old[i].p, old[i].size, old[i].fn, old[i].kind);
	__real_free(old);
}

static void vw_insert(void *p, size_t size, const char *fn, int kind)
{
	vw_ent *e = vw_find(p);
	size_t i;

	if (!p)
		return;
	if (!e) {
		if ((vw_filled + 1) * 2 > vw_cap)
			vw_grow();
		for (i = vw_hash(p); vw_tab[i].p && vw_tab[i].p != VW_TOMB; i = (i + 1) & (vw_cap - 1))
			;
		e = &vw_tab[i];
		if (!e->p)
			vw_filled++;
		vw_nlive[kind]++;
	} else {		/* stale entry for a recycled address: replace */
		vw_nlive[e->kind]--;
		vw_nlive[kind]++;
	}
	e->p = p;
	e->size = size;
	e->fn = fn;
	e->kind = kind;
}

static void vw_remove(const void *p)
{
	vw_ent *e = vw_find(p);

	if (e) {
		vw_nlive[e->kind]--;
		e->p = VW_TOMB;
	}
}

/* one allocation request; returns 1 when this request has to fail */
static int vw_request(void)
{
	if (vw_failk > 0 && --vw_failk == 0) {
		errno = ENOMEM;
		return 1;
	}
	return 0;
}

void *vw_malloc(size_t n, const char *fn)
{
	void *p;

	if (vw_request())
		return NULL;
	p = malloc(n);
	vw_insert(p, n, fn, 0);
	return p;
}

void *vw_calloc(size_t a, size_t b, const char *fn)
{
	void *p;

	if (vw_request())
		return NULL;
	p = calloc(a, b);
	vw_insert(p, a * b, fn, 0);
	return p;
}

void *vw_realloc(void *old, size_t n, const char *fn)
{
	void *p;

	if (vw_request())
		return NULL;	/* old block stays valid and stays in the table */
	p = __real_realloc(old, n);
	if (p || n == 0)
		vw_remove(old);
	vw_insert(p, n, fn, 0);
	return p;
}

void *vw_reallocarray(void *old, size_t a, size_t b, const char *fn)
{
	if (b && a > (size_t)-1 / b) {
		(void)vw_request();
		errno = ENOMEM;
		return NULL;
	}
	return vw_realloc(old, a * b, fn);
}

char *vw_strdup(const char *s, const char *fn)
{
	char *p;

	if (vw_request())
		return NULL;
	p = strdup(s);
	vw_insert(p, p ? strlen(p) + 1 : 0, fn, 0);
	return p;
}

char *vw_strndup(const char *s, size_t n, const char *fn)
{
	char *p;

	if (vw_request())
		return NULL;
	p = strndup(s, n);
	vw_insert(p, p ? strlen(p) + 1 : 0, fn, 0);
	return p;
}

void vw_free(void *p, const char *fn)
{
	(void)fn;
	vw_remove(p);
	__real_free(p);
}

FILE *vw_fopen(const char *path, const char *mode, const char *fn)
{
	FILE *fp = fopen(path, mode);

	vw_insert(fp, 0, fn, 1);
	return fp;
}

FILE *vw_fmemopen(void *buf, size_t n, const char *mode, const char *fn)
{
	FILE *fp = fmemopen(buf, n, mode);

	vw_insert(fp, n, fn, 1);
	return fp;
}

int vw_fclose(FILE *fp, const char *fn)
{
	(void)fn;
	vw_remove(fp);
	return __real_fclose(fp);
}

/* plain free()/realloc()/fclose() anywhere else in the executable (ld --wrap) */
void __wrap_free(void *p)
{
	vw_remove(p);
	__real_free(p);
}

void *__wrap_realloc(void *old, size_t n)
{
	vw_ent *e = vw_find(old);
	void *p = __real_realloc(old, n);

	if (e && (p || n == 0)) {	/* a library block resized elsewhere stays library-owned */
		const char *fn = e->fn;

		vw_remove(old);
		vw_insert(p, n, fn, 0);
	}
	return p;
}

int __wrap_fclose(FILE *fp)
{
	vw_remove(fp);
	return __real_fclose(fp);
}

void vw_failalloc(long k)
{
	vw_failk = k > 0 ? k : 0;
}

void vw_live(long *blocks, long *files)
{
	*blocks = vw_nlive[0];
	*files = vw_nlive[1];
}

void vw_report(FILE *to)
{
	size_t i;

	for (i = 0; i < vw_cap; i++)
		if (vw_tab[i].p && vw_tab[i].p != VW_TOMB)
			fprintf(to, "vw: live %s %p size=%zu from %s\n", vw_tab[i].kind ? "file" : "block",
				vw_tab[i].p, vw_tab[i].size, vw_tab[i].fn ? vw_tab[i].fn : "?");
}
