/*
 * allocwrap.h -- counting / fault-injecting allocator shim for the `count` variant.
 *
 * Force-included (gcc -include allocwrap.h) into confuse.c ONLY.  Every heap and
 * FILE* request made by the library is routed to a vw_* wrapper (allocwrap.c)
 * which keeps a table of live library-owned blocks / streams and can make the
 * K-th allocation request fail.
 *
 * The system headers are included first, so their prototypes are not mangled by
 * the function-like macros below.
 */
#ifndef VERIF_ALLOCWRAP_H
#define VERIF_ALLOCWRAP_H

#include <stddef.h>
#include <stdio.h>
#include <stdlib.h>
#include <string.h>

void *vw_malloc(size_t n, const char *fn);
void *vw_calloc(size_t a, size_t b, const char *fn);
void *vw_realloc(void *p, size_t n, const char *fn);
void *vw_reallocarray(void *p, size_t a, size_t b, const char *fn);
char *vw_strdup(const char *s, const char *fn);
char *vw_strndup(const char *s, size_t n, const char *fn);
void  vw_free(void *p, const char *fn);
FILE *vw_fopen(const char *path, const char *mode, const char *fn);
FILE *vw_fmemopen(void *buf, size_t n, const char *mode, const char *fn);
int   vw_fclose(FILE *fp, const char *fn);

/* harness side */
void vw_failalloc(long k);                 /* k-th allocation request from now fails; 0 = off */
void vw_live(long *blocks, long *files);   /* live library-owned blocks / open streams */
void vw_report(FILE *to);                  /* one line per live entry (debugging aid) */

#ifndef VERIF_ALLOCWRAP_IMPL
# undef malloc
# undef calloc
# undef realloc
# undef reallocarray
# undef strdup
# undef strndup
# undef free
# undef fopen
# undef fmemopen
# undef fclose
# define malloc(n)            vw_malloc((n), __func__)
# define calloc(a, b)         vw_calloc((a), (b), __func__)
# define realloc(p, n)        vw_realloc((p), (n), __func__)
# define reallocarray(p, a, b) vw_reallocarray((p), (a), (b), __func__)
# define strdup(s)            vw_strdup((s), __func__)
# define strndup(s, n)        vw_strndup((s), (n), __func__)
# define free(p)              vw_free((p), __func__)
# define fopen(f, m)          vw_fopen((f), (m), __func__)
# define fmemopen(b, n, m)    vw_fmemopen((b), (n), (m), __func__)
# define fclose(fp)           vw_fclose((fp), __func__)
#endif

#endif /* VERIF_ALLOCWRAP_H */
