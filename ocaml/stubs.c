/* stubs.c — the two libc oracles of the model: strtod (value, end pointer, ERANGE) and printf("%f") */
#include <errno.h>
#include <stdint.h>
#include <stdio.h>
#include <stdlib.h>
#include <string.h>
#include <caml/mlvalues.h>
#include <caml/alloc.h>
#include <caml/memory.h>

CAMLprim value lc_strtod(value s)
{
	CAMLparam1(s);
	CAMLlocal1(res);
	const char *p = String_val(s);
	char *end;
	double d;
	uint64_t bits;

	errno = 0;
	d = strtod(p, &end);
	memcpy(&bits, &d, 8);
	res = caml_alloc_tuple(3);
	Store_field(res, 0, caml_copy_int64((int64_t)bits));
	Store_field(res, 1, Val_long(end - p));
	Store_field(res, 2, Val_bool(errno == ERANGE));
	CAMLreturn(res);
}

CAMLprim value lc_fmt_f(value b)
{
	CAMLparam1(b);
	uint64_t bits = (uint64_t)Int64_val(b);
	double d;
	char buf[512];

	memcpy(&d, &bits, 8);
	snprintf(buf, sizeof buf, "%f", d);
	CAMLreturn(caml_copy_string(buf));
}
