#!/bin/sh
# build.sh OUTDIR — compile the extracted model (coq/model.ml) and the driver into OUTDIR/modelrun
set -e
HERE=$(cd "$(dirname "$0")" && pwd)
OUT=$1
mkdir -p "$OUT"
cp "$HERE/../coq/model.ml" "$HERE/../coq/model.mli" "$HERE/driver.ml" "$HERE/stubs.c" "$OUT/"
cd "$OUT"
ocamlfind ocamlopt -O2 -w -a -package str model.mli model.ml stubs.c driver.ml -o modelrun 2>/dev/null || \
ocamlfind ocamlopt -w -a model.mli model.ml stubs.c driver.ml -o modelrun
