(* prints the extracted table:  instance: k1 k2 ... *)
let rec int_of_nat = function Oom_table.O -> 0 | Oom_table.S n -> 1 + int_of_nat n
let () =
  List.iter (fun (i, ks) ->
    Printf.printf "%d:" (int_of_nat i);
    List.iter (fun k -> Printf.printf " %d" (int_of_nat k)) ks;
    print_newline ()) (Oom_table.oom_table ())
